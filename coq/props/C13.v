(* C13 - every 128-bit pattern is interpreted per the standard and results are canonical.
   Property theorems only: each is closed by [exact <lemma of theories/>] and followed by Print Assumptions.

   How the theorems cover the property.

   (1) "Every one of the 2^128 encodings is accepted by every operation and treated as the value IEEE 754-2008 assigns
       to it": [decode] is total on Z; C13_decode_wf, C13_decode_encode, C13_encode_decode, C13_encode_canonical,
       C13_encode_range, C13_encode_inj are the format theorems (decode yields a well-formed datum for every pattern;
       canonical patterns are exactly the encodings of well-formed data). The clauses, on explicit bit fields of the low
       127 bits r (the sign bit is handled once and for all by C13_decode_split / C13_decode_sign):
         C13_decode_finite_small    G0G1 <> 11 and coefficient field < 10^34: that coefficient, exponent field - 6176;
         C13_decode_coeff_too_large (a) coefficient field >= 10^34: zero, with the same exponent;
         C13_decode_large_form      (b) G0G1 = 11 but not Inf/NaN: zero, exponent from the field shifted by two bits
                                    (C13_large_form_exp: that field is < 3*2^12);
         C13_decode_inf / _bits     (c) infinities: all 122 trailing bits are ignored;
         (NaNs: props/C12.v, C12_decode_nan_fields.)
       C13_noncanonical_as_zero: no operation of the model can tell a pattern x from the canonical encoding
       [canon_of x = encode (decode x)] of the datum it denotes (every operation whose definition reads its operands
       through decode: all but the quiet sign operations, which C12 treats, and the is_canonical bit);
       C13_noncanonical_as_zero_expected: the same through the judge's dispatch, incl. the operator forms.
   (2) "class() returns exactly one of the ten classes, consistent with is_nan ... is_canonical (normal iff the
       adjusted exponent is at least -6143)": C13_class_partition (each class value characterised), C13_is_preds_char
       (each predicate against the datum; is_finite = zero or normal or subnormal; exactly one of nan / inf / zero /
       normal / subnormal), C13_class_consistent (class against predicates), C13_m_isx_bits (the nine bits the model
       hands to the judge are these predicates of decode x; is_sign_minus = bit 127; is_canonical = canonical_bits x),
       C13_canonical_bits_char (is_canonical on the bits: steering bits and coefficient < 10^34 | infinity with zero
       trailing bits | NaN with zero reserved bits and payload < 10^33), C13_normal_iff_threshold (the boundary in
       terms of the value: c*10^q >= 10^-6143, i.e. the 34 digit-count thresholds).
   (3) "every finite, infinite or NaN result produced by a computational operation is a canonical encoding":
       C13_results_canonical (add sub mul div sqrt fma quantize remainder fmod fdim rint/nearbyint/rint-fixed modf
       next_up next_down next_after min/max scaleb logb, all operands in [0, 2^128), all modes; C13_outcomes_nonempty:
       and none of these lists of accepted outcomes is ever empty),
       C13_results_canonical_expected (the same through the judge's dispatch, plus decode_decimal (DPD -> BID), the
       operator forms + - * / %, Sum and Product; for modf of an infinity and the other predicate-style expectations
       the acceptance predicate itself demands canonicity), C13_results_canonical_expected_special (scaleb/ldexp with
       its integer argument, conversion from integers of width <= 64, from binary floating point, quantum of a non-NaN
       operand, conversion from character sequences (OParse, OFromStr2)), C13_frexp_canonical (finite non-zero).
       Not covered, deliberately (DESIGN section 10/C13 "Scope", section 14): copy/negate/abs/copy_sign (exempt; C12);
       quantum and frexp of NaN/Inf and frexp of zero (unspecified, the model accepts anything: EAny);
       encode_decimal returns a DPD word, not a BID pattern (C19); FromStr (OFromStr) wraps results as [1; bits] or
       [0; flags], so "all outputs canonical" does not type - its bits are those of OFromStr2.
   No theorem of this file uses real numbers: all are closed under the global context (for the round_pack based
   operations the well-formedness of the result is proved on integers in theories/RoundWfProofs.v: C13_round_pack_wf). *)
From Coq Require Import ZArith Bool List.
From Flocq Require Import Calc.Bracket.
From DV Require Import Base Bid BidProofs Arith RoundWfProofs OpsArith OpsCmp OpsMisc OpsConv OpsStr Judge NanProofs CanonProofs ResultProofs.
Import ListNotations.
Open Scope Z_scope.

(* ---------- the format theorems ---------- *)
Theorem C13_decode_wf : forall b, 0 <= b < P128 -> wf (decode b).
Proof. exact decode_wf. Qed.
Print Assumptions C13_decode_wf.

Theorem C13_decode_encode : forall d, wf d -> decode (encode d) = d.
Proof. exact decode_encode. Qed.
Print Assumptions C13_decode_encode.

Theorem C13_encode_decode : forall b, canonical_bits b = true -> encode (decode b) = b.
Proof. exact encode_decode. Qed.
Print Assumptions C13_encode_decode.

Theorem C13_encode_canonical : forall d, wf d -> canonical_bits (encode d) = true.
Proof. exact encode_canonical. Qed.
Print Assumptions C13_encode_canonical.

Theorem C13_encode_range : forall d, wf d -> 0 <= encode d < P128.
Proof. exact encode_range. Qed.
Print Assumptions C13_encode_range.

Theorem C13_encode_inj : forall d d', wf d -> wf d' -> encode d = encode d' -> d = d'.
Proof. exact encode_inj. Qed.
Print Assumptions C13_encode_inj.

Example C13_wf_is : forall d, wf d <-> match d with
  | Fin _ c q => 0 <= c < T34 /\ -6176 <= q <= 6111 | Inf _ => True | NaN _ _ p => 0 <= p < T33 end.
Proof. intros d. apply iff_refl. Qed.

(* ---------- the clauses of decode on bit fields ---------- *)
Theorem C13_decode_sign : forall x, sign_of (decode x) = (P127 <=? x).
Proof. exact decode_sign. Qed.
Print Assumptions C13_decode_sign.

Theorem C13_decode_split : forall (s:bool) r, 0 <= r < P127 ->
  decode ((if s then P127 else 0) + r) = set_sign s (decode r).
Proof. exact decode_split. Qed.
Print Assumptions C13_decode_split.

Theorem C13_decode_finite_small : forall r, 0 <= r < P127 -> r / P122 < 24 -> r mod P113 < T34 ->
  decode r = Fin false (r mod P113) (r / P113 - 6176).
Proof. exact decode_finite_small. Qed.
Print Assumptions C13_decode_finite_small.

Theorem C13_decode_coeff_too_large : forall r, 0 <= r < P127 -> r / P122 < 24 -> T34 <= r mod P113 ->
  decode r = Fin false 0 (r / P113 - 6176).
Proof. exact decode_coeff_too_large. Qed.
Print Assumptions C13_decode_coeff_too_large.

Theorem C13_decode_large_form : forall r, 0 <= r < P127 -> 24 <= r / P122 < 30 ->
  decode r = Fin false 0 ((r / P111) mod 16384 - 6176).
Proof. exact decode_large_form. Qed.
Print Assumptions C13_decode_large_form.

Theorem C13_large_form_exp : forall r, 0 <= r < P127 -> 24 <= r / P122 < 30 -> 0 <= (r / P111) mod 16384 < 12288.
Proof. exact large_form_exp. Qed.
Print Assumptions C13_large_form_exp.

Theorem C13_decode_inf : forall r, 0 <= r < P127 -> r / P122 = 30 -> decode r = Inf false.
Proof. exact decode_inf. Qed.
Print Assumptions C13_decode_inf.

Theorem C13_decode_inf_bits : forall (s:bool) t, 0 <= t < P122 -> decode ((if s then P127 else 0) + 30 * P122 + t) = Inf s.
Proof. exact decode_inf_bits. Qed.
Print Assumptions C13_decode_inf_bits.

Theorem C13_canonical_bits_char : forall x, 0 <= x < P128 ->
  let r := x mod P127 in
  canonical_bits x = true <->
    (r / P122 < 24 /\ r mod P113 < T34) \/ r = 30 * P122 \/ (r / P122 = 31 /\ r mod P121 < T33).
Proof. exact canonical_bits_char. Qed.
Print Assumptions C13_canonical_bits_char.

(* ---------- classification ---------- *)
Theorem C13_class_partition : forall d,
  0 <= class_dec d <= 9 /\
  (class_dec d = 0 <-> is_snan d = true) /\
  (class_dec d = 1 <-> is_nan d = true /\ is_snan d = false) /\
  (class_dec d = 2 <-> d = Inf true) /\
  (class_dec d = 3 <-> sign_of d = true /\ is_normal_dec d = true) /\
  (class_dec d = 4 <-> sign_of d = true /\ is_subnormal_dec d = true) /\
  (class_dec d = 5 <-> sign_of d = true /\ is_zero d = true) /\
  (class_dec d = 6 <-> sign_of d = false /\ is_zero d = true) /\
  (class_dec d = 7 <-> sign_of d = false /\ is_subnormal_dec d = true) /\
  (class_dec d = 8 <-> sign_of d = false /\ is_normal_dec d = true) /\
  (class_dec d = 9 <-> d = Inf false).
Proof. exact class_partition. Qed.
Print Assumptions C13_class_partition.

Theorem C13_is_preds_char : forall d,
  (is_normal_dec d = true <-> exists s c q, d = Fin s c q /\ c <> 0 /\ -6143 <= ndigits c + q - 1) /\
  (is_subnormal_dec d = true <-> exists s c q, d = Fin s c q /\ c <> 0 /\ ndigits c + q - 1 < -6143) /\
  (is_zero d = true <-> exists s q, d = Fin s 0 q) /\
  (is_fin d = true <-> exists s c q, d = Fin s c q) /\
  (is_inf d = true <-> exists s, d = Inf s) /\
  (is_nan d = true <-> exists s sg p, d = NaN s sg p) /\
  (is_snan d = true <-> exists s p, d = NaN s true p) /\
  is_fin d = is_zero d || is_normal_dec d || is_subnormal_dec d /\
  b2z (is_nan d) + b2z (is_inf d) + b2z (is_zero d) + b2z (is_normal_dec d) + b2z (is_subnormal_dec d) = 1.
Proof. exact is_preds_char. Qed.
Print Assumptions C13_is_preds_char.

Theorem C13_class_consistent : forall d,
  let cl := class_dec d in
  (is_nan d = true <-> cl = 0 \/ cl = 1) /\ (is_snan d = true <-> cl = 0) /\
  (is_inf d = true <-> cl = 2 \/ cl = 9) /\ (is_fin d = true <-> 3 <= cl <= 8) /\
  (is_zero d = true <-> cl = 5 \/ cl = 6) /\ (is_normal_dec d = true <-> cl = 3 \/ cl = 8) /\
  (is_subnormal_dec d = true <-> cl = 4 \/ cl = 7) /\
  (sign_of d = true -> is_nan d = false -> 2 <= cl <= 5) /\ (sign_of d = false -> is_nan d = false -> 6 <= cl <= 9).
Proof. exact class_consistent. Qed.
Print Assumptions C13_class_consistent.

(* ndigits is the decimal digit count *)
Theorem C13_ndigits_bounds : forall c, 0 < c -> 1 <= ndigits c /\ 10 ^ (ndigits c - 1) <= c < 10 ^ ndigits c.
Proof. exact ndigits_bounds. Qed.
Print Assumptions C13_ndigits_bounds.

Theorem C13_normal_iff_threshold : forall c q, 0 < c ->
  (-6143 <= ndigits c + q - 1 <-> -6143 <= q \/ 10 ^ (-6143 - q) <= c).
Proof. exact normal_iff_threshold. Qed.
Print Assumptions C13_normal_iff_threshold.

(* class() and the nine predicates as the model hands them to the judge *)
Example C13_m_class_is : forall x, m_class x = [([class_dec (decode x)], 0)].
Proof. reflexivity. Qed.

Theorem C13_m_isx_bits : forall x, exists w, m_isx x = [([w], 0)] /\ 0 <= w < 512 /\
  bit w 0 = b2z (canonical_bits x) /\ bit w 1 = b2z (is_fin (decode x)) /\ bit w 2 = b2z (is_inf (decode x)) /\
  bit w 3 = b2z (is_nan (decode x)) /\ bit w 4 = b2z (is_normal_dec (decode x)) /\ bit w 5 = b2z (is_snan (decode x)) /\
  bit w 6 = b2z (P127 <=? x) /\ bit w 7 = b2z (is_subnormal_dec (decode x)) /\ bit w 8 = b2z (is_zero (decode x)).
Proof. exact m_isx_bits. Qed.
Print Assumptions C13_m_isx_bits.

(* ---------- no operation distinguishes x from encode (decode x) ---------- *)
Theorem C13_decode_canon : forall x, 0 <= x < P128 -> decode (encode (decode x)) = decode x.
Proof. exact decode_canon. Qed.
Print Assumptions C13_decode_canon.

Theorem C13_canon_of_canonical : forall x, 0 <= x < P128 ->
  canonical_bits (encode (decode x)) = true /\ 0 <= encode (decode x) < P128.
Proof. exact canon_of_canonical. Qed.
Print Assumptions C13_canon_of_canonical.

Theorem C13_noncanonical_as_zero : forall x y z, 0 <= x < P128 -> 0 <= y < P128 -> 0 <= z < P128 ->
  let x' := encode (decode x) in let y' := encode (decode y) in let z' := encode (decode z) in
  (forall md, m_add md x' y' = m_add md x y /\ m_sub md x' y' = m_sub md x y /\ m_mul md x' y' = m_mul md x y /\
     m_div md x' y' = m_div md x y /\ m_sqrt md x' = m_sqrt md x /\ m_fma md x' y' z' = m_fma md x y z /\
     m_quantize md x' y' = m_quantize md x y /\ m_fdim md x' y' = m_fdim md x y /\
     (forall b, rint_dec md b x' = rint_dec md b x) /\ (forall n, m_scaleb md x' n = m_scaleb md x n) /\
     (forall w sg xf, m_to_int w sg md xf x' = m_to_int w sg md xf x)) /\
  (forall b, rem_dec b x' y' = rem_dec b x y) /\
  m_modf x' = m_modf x /\ m_frexp x' = m_frexp x /\
  m_next_up x' = m_next_up x /\ m_next_down x' = m_next_down x /\ m_next_after x' y' = m_next_after x y /\
  (forall k, m_minmax k x' y' = m_minmax k x y) /\
  m_logb x' = m_logb x /\ m_ilogb x' = m_ilogb x /\ m_quantexp x' = m_quantexp x /\ m_llquantexp x' = m_llquantexp x /\
  m_quantum x' = m_quantum x /\ m_same_quantum x' y' = m_same_quantum x y /\
  m_total_order x' y' = m_total_order x y /\ m_total_order_mag x' y' = m_total_order_mag x y /\
  m_class x' = m_class x /\ (forall i, m_cmp x' y' i = m_cmp x y i) /\ m_ops x' y' = m_ops x y /\
  (forall same, m_hasheq x' y' same = m_hasheq x y same) /\
  m_encode_dpd x' = m_encode_dpd x /\ m_fmt x' = m_fmt x.
Proof. exact noncanonical_as_zero. Qed.
Print Assumptions C13_noncanonical_as_zero.

Theorem C13_m_isx_through_decode : exists f, forall x, m_isx x = [([b2z (canonical_bits x) + f (decode x)], 0)].
Proof. exact m_isx_through_decode. Qed.
Print Assumptions C13_m_isx_through_decode.

(* [pattern_op o]: the operations of the judge's table all of whose arguments are decimal patterns *)
Theorem C13_noncanonical_as_zero_expected : forall o md args,
  pattern_op o = true -> Forall (fun x => 0 <= x < P128) args ->
  expected o md (map (fun x => encode (decode x)) args) = expected o md args.
Proof. exact noncanonical_as_zero_expected. Qed.
Print Assumptions C13_noncanonical_as_zero_expected.

Example C13_pattern_ops :
  map pattern_op [OAdd; OSub; OMul; ODiv; OSqrt; OFma; OQuantize; ORem; OFmod; OFdim; ORint; ONearbyint; ORintFix RNA;
    OModf; OFrexp; ONextUp; ONextDown; ONextAfter; OMinMax MaxMag; OLogb; OIlogb; OQuantexp; OLlquantexp; OQuantum;
    OSameQuantum; OTotalOrder; OTotalOrderMag; OClass; OEncodeDpd; OToInt 32 true RNE true; OLrint; OLround; OOps;
    OHashSet; OFmt; OOpArith OAdd; OSum; OProduct] = repeat true 38.
Proof. reflexivity. Qed.

(* ---------- results are canonical ---------- *)
Example C13_all_canonical_is : forall l,
  all_canonical l <-> (forall o r, In o l -> In r (fst o) -> canonical_bits r = true).
Proof. intros l. apply iff_refl. Qed.

Theorem C13_results_canonical : forall md k si n x y z, 0 <= x < P128 -> 0 <= y < P128 -> 0 <= z < P128 ->
  all_canonical (m_add md x y) /\ all_canonical (m_sub md x y) /\ all_canonical (m_mul md x y) /\
  all_canonical (m_div md x y) /\ all_canonical (m_sqrt md x) /\ all_canonical (m_fma md x y z) /\
  all_canonical (m_quantize md x y) /\ all_canonical (rem_dec true x y) /\ all_canonical (rem_dec false x y) /\
  all_canonical (m_fdim md x y) /\ all_canonical (rint_dec md si x) /\ all_canonical (m_modf x) /\
  all_canonical (m_next_up x) /\ all_canonical (m_next_down x) /\ all_canonical (m_next_after x y) /\
  all_canonical (m_minmax k x y) /\ all_canonical (m_scaleb md x n) /\ all_canonical (m_logb x).
Proof. exact results_canonical. Qed.
Print Assumptions C13_results_canonical.

(* ... and every operand tuple gets an answer ("is accepted by every operation"): no accepted-outcome list is empty *)
Theorem C13_outcomes_nonempty : forall md k si n x y z, 0 <= x < P128 -> 0 <= y < P128 -> 0 <= z < P128 ->
  m_add md x y <> [] /\ m_sub md x y <> [] /\ m_mul md x y <> [] /\ m_div md x y <> [] /\ m_sqrt md x <> [] /\
  m_fma md x y z <> [] /\ m_quantize md x y <> [] /\ rem_dec true x y <> [] /\ rem_dec false x y <> [] /\
  m_fdim md x y <> [] /\ rint_dec md si x <> [] /\ m_modf x <> [] /\ m_next_up x <> [] /\ m_next_down x <> [] /\
  m_next_after x y <> [] /\ m_minmax k x y <> [] /\ m_scaleb md x n <> [] /\ m_logb x <> [].
Proof. exact outcomes_nonempty. Qed.
Print Assumptions C13_outcomes_nonempty.

Example C13_expect_canonical_is :
  (forall l, expect_canonical (Exact l) <-> all_canonical l) /\
  (forall p fls, expect_canonical (Pred p fls) <-> forall outs, p outs = true -> forall r, In r outs -> canonical_bits r = true) /\
  (forall id a b, expect_canonical (Known id a b) <-> expect_canonical a /\ expect_canonical b).
Proof. split; [|split]; intros; apply iff_refl. Qed.

Theorem C13_results_canonical_expected : forall o md args,
  canon_op o = true -> Forall (fun x => 0 <= x < P128) args -> expect_canonical (expected o md args).
Proof. exact results_canonical_expected. Qed.
Print Assumptions C13_results_canonical_expected.

Example C13_canon_ops :
  map canon_op [OAdd; OSub; OMul; ODiv; OSqrt; OFma; OQuantize; ORem; OFmod; OFdim; ORint; ONearbyint; ORintFix RTZ;
    OModf; ONextUp; ONextDown; ONextAfter; OMinMax MinNum; OLogb; ODecodeDpd; OOpArith ODiv; OSum; OProduct] = repeat true 23.
Proof. reflexivity. Qed.

Theorem C13_results_canonical_expected_special : forall md w sg eb fb um x n v b l,
  (0 <= x < P128 -> expect_canonical (expected (OScaleb w) md [x; n])) /\
  (1 <= w <= 64 -> expect_canonical (expected (OFromInt w sg) md [v])) /\
  (0 <= fb -> expect_canonical (expected (OFromBin eb fb um) md [b])) /\
  (0 <= x < P128 -> is_nan (decode x) = false -> expect_canonical (expected OQuantum md [x])) /\
  expect_canonical (expected OParse md l) /\ expect_canonical (expected OFromStr2 md l).
Proof. exact results_canonical_expected_special. Qed.
Print Assumptions C13_results_canonical_expected_special.

Theorem C13_frexp_canonical : forall x l, 0 <= x < P128 -> m_frexp x = EList l ->
  exists d e, l = [([encode d; e], 0)] /\ wf d /\ canonical_bits (encode d) = true.
Proof. exact m_frexp_canonical. Qed.
Print Assumptions C13_frexp_canonical.

(* the building blocks: whatever round_pack / rp is given (0 <= c), its datum is well formed and not a NaN *)
Theorem C13_round_pack_wf : forall md s c e l pref zs, 0 <= c ->
  wf (fst (round_pack md s c e l pref zs)) /\ is_nan (fst (round_pack md s c e l pref zs)) = false.
Proof. exact round_pack_wf. Qed.
Print Assumptions C13_round_pack_wf.

Theorem C13_rp_wf : forall md s c e l pref zs, 0 <= c ->
  wf (fst (rp md s c e l pref zs)) /\ is_nan (fst (rp md s c e l pref zs)) = false.
Proof. exact rp_wf. Qed.
Print Assumptions C13_rp_wf.

Theorem C13_dpd_decode_wf : forall w, 0 <= w < P128 -> wf (dpd_decode w).
Proof. exact dpd_decode_wf. Qed.
Print Assumptions C13_dpd_decode_wf.

Theorem C13_next_up_dec_wf : forall d, wf d -> wf (next_up_dec d).
Proof. exact next_up_dec_wf. Qed.
Print Assumptions C13_next_up_dec_wf.

(* ---------- non-vacuity ---------- *)
Definition one := encode (Fin false 1 0).
Definition nc34 := 6176 * P113 + T34.                 (* coefficient field exactly 10^34, exponent field 6176 *)
Definition ncmax := P127 + 23 * P122 + (P113 - 1).     (* all coefficient bits set, negative *)
Definition big := 3 * P125 + 5 * P111 + 12345.        (* large-coefficient form, exponent field 5 *)
Definition infj := P127 + 30 * P122 + 12345.          (* -Inf with junk *)
Definition snan33 := 31 * P122 + P121 + T33.          (* sNaN with payload field 10^33 *)

(* the three non-canonical finite/infinite families are read as the standard says *)
Example C13_ex_decode :
  decode nc34 = Fin false 0 0 /\ decode ncmax = Fin true 0 (23 * 512 - 6176) /\ decode big = Fin false 0 (5 - 6176) /\
  decode infj = Inf true /\ decode snan33 = NaN false true 0 /\
  canonical_bits nc34 = false /\ canonical_bits ncmax = false /\ canonical_bits big = false /\
  canonical_bits infj = false /\ canonical_bits snan33 = false /\ canonical_bits (nc34 - 1) = true.
Proof. vm_compute. repeat split; reflexivity. Qed.
(* hypotheses of the clause lemmas are satisfiable *)
Example C13_ex_clause_hyps :
  (0 <= nc34 < P127 /\ nc34 / P122 < 24 /\ T34 <= nc34 mod P113) /\
  (0 <= big < P127 /\ 24 <= big / P122 < 30) /\ (0 <= 30 * P122 + 12345 < P127 /\ (30 * P122 + 12345) / P122 = 30).
Proof. vm_compute. repeat split; congruence. Qed.
(* a non-canonical pattern with coefficient 10^34 is classed as +zero; is_* word: zero + finite, not canonical *)
Example C13_ex_class_noncanonical :
  m_class nc34 = [([6], 0)] /\ m_isx nc34 = [([256 + 2], 0)] /\ m_class ncmax = [([5], 0)] /\
  m_class infj = [([2], 0)] /\ m_isx infj = [([64 + 4], 0)] /\ m_class snan33 = [([0], 0)] /\
  m_isx (encode (Fin true 5 0)) = [([1 + 2 + 16 + 64], 0)].
Proof. vm_compute. repeat split; reflexivity. Qed.
(* the normal/subnormal boundary: adjusted exponent -6143 *)
Example C13_ex_thresholds :
  m_class (encode (Fin false 1 (-6143))) = [([8], 0)] /\ m_class (encode (Fin false 1 (-6144))) = [([7], 0)] /\
  m_class (encode (Fin true T33 (-6176))) = [([3], 0)] /\ m_class (encode (Fin true (T33 - 1) (-6176))) = [([4], 0)] /\
  m_class (encode (Fin false 10 (-6144))) = [([8], 0)] /\ m_class (encode (Fin false 9 (-6144))) = [([7], 0)].
Proof. vm_compute. repeat split; reflexivity. Qed.
(* operations see the zero, and answer canonically *)
Example C13_ex_ops_on_noncanonical :
  m_add RNE nc34 one = [([one], 0)] /\ encode (decode nc34) = encode (Fin false 0 0) /\
  m_mul RNE ncmax infj = invalid_out /\
  m_minmax MaxNum nc34 big = [([encode (Fin false 0 0)], 0); ([encode (Fin false 0 (-6171))], 0)] /\
  m_next_up infj = [([encode (Fin true MAXC 6111)], 0)] /\
  m_logb infj = [([encode (Inf false)], 0)].
Proof. vm_compute. repeat split; reflexivity. Qed.
