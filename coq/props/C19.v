(* C19 - BID and DPD encodings convert into each other without changing the datum.
   Property theorems only: each is closed by [exact <lemma of theories/DpdProofs.v>] and followed by Print Assumptions.
   All theorems of this file are axiom-free (no real numbers involved).

   How the theorems cover the property statement.
   The model (theories/OpsConv.v): [m_encode_dpd x = [([dpd_encode (decode x)], 0)]] is encode_decimal (BID bits -> DPD
   bits), [m_decode_dpd w = [([encode (dpd_decode w)], 0)]] is decode_decimal (DPD bits -> BID bits); [decode]/[encode]
   is the BID codec of theories/Bid.v (all 2^128 patterns), [dpd_encode : dec -> Z], [dpd_decode : Z -> dec] the DPD
   codec on data [Fin sign coefficient exponent | Inf sign | NaN sign signalling payload].

   * "exactly as laid out in IEEE 754-2008 section 3.5.2":
       C19_layout_fin / C19_layout_nan / C19_layout_inf give the DPD word of a datum field by field (sign bit 127;
       combination field G0..G16 in both forms - leading digit 0..7 and 8..9 -; exponent continuation; NaN/Inf codes,
       signalling bit, reserved bits zero; declet i of the trailing field = declet code of decimal digits 3i+2..3i).
       The declet code itself is pinned to the standard's tables 3.3/3.4 by C19_declet_enc_is_table /
       C19_declet_dec_is_table (equality, for all 1000 values / all 1024 patterns, with an independently written
       transcription of the tables as Cowlishaw's boolean equations) and by C19_declet_enc_rows (closed arithmetic
       form of each of the 8 rows of table 3.4).
   * "decode_decimal is the inverse mapping, accepting all 1024 declet patterns including the 24 redundant ones":
       C19_declet_roundtrip (1000 values), C19_declet_dec_total (all 1024 patterns decode to 0..999; exactly the
       patterns 01x11x111x, 10x11x111x, 11x11x111x are not fixed by re-encoding, they decode to 888 + 100 b7 + 10 b4 + b0
       as the standard says - the two top bits are ignored - and re-encode to the pattern with the two top bits
       cleared), C19_declet_redundant_count (there are 24 of them, 1000 canonical ones; explicit list),
       C19_declets_roundtrip (k declets, induction), C19_dpd_decode_encode (dpd_decode after dpd_encode is the
       identity on every well-formed datum: finite with leading digit 0..7 and 8..9, every exponent -6176..6111,
       infinities, NaNs with payload < 10^33), C19_dpd_decode_wf (every one of the 2^128 words decodes to a
       well-formed datum; in particular 11 declets always give < 10^33 and leading digit * 10^33 + rest < 10^34).
   * "decode(encode(x)) equals x for every canonical x": C19_bid_dpd_bid.
   * "encode(decode(d)) equals d for every canonical DPD word": C19_dpd_bid_dpd, with the explicit predicate
       [dpd_canonical_bits] (all eleven declets canonical; infinity: all bits below G4 zero; NaN: G6..G16 zero), which
       C19_dpd_canonical_iff shows to be exactly "0 <= d < 2^128 and dpd_encode (dpd_decode d) = d".
   * "neither conversion raises a flag or panics for any of the 2^128 inputs": C19_encode_total, C19_decode_total:
       exactly one outcome, flag word 0, for every input; moreover the result is always a canonical word of the target
       encoding denoting the same datum as the input (non-canonical BID inputs denote what [decode] says: coefficient
       >= 10^34 reads as 0, NaN payload >= 10^33 reads as 0, infinity ignores the low bits; non-canonical DPD inputs:
       C19_dpd_canonicalise).

   Not covered here: that the Rust crate's encode_decimal/decode_decimal (multiply-high division chain, BID_B2D /
   BID_D2B tables) equal these model functions - that is the differential harness' job (DESIGN.md, layer I/Corr). *)
From Coq Require Import ZArith Bool List.
From DV Require Import Base Bid BidProofs OpsArith OpsConv DpdProofs.
Import ListNotations.
Open Scope Z_scope.

(* ---------------- one declet ---------------- *)
Theorem C19_declet_roundtrip : forall n, 0 <= n < 1000 -> declet_dec (declet_enc n) = n /\ 0 <= declet_enc n < 1024.
Proof. exact declet_roundtrip. Qed.
Print Assumptions C19_declet_roundtrip.

(* [declet_redundant v] = bits 3..1 are 111, bits 6..5 are 11, bits 9..8 are not 00 *)
Theorem C19_declet_dec_total : forall v, 0 <= v < 1024 ->
  0 <= declet_dec v < 1000 /\
  (declet_redundant v = false -> declet_enc (declet_dec v) = v) /\
  (declet_redundant v = true -> declet_enc (declet_dec v) = v mod 256 /\ v mod 256 <> v /\
                                declet_dec v = 888 + 100 * bit v 7 + 10 * bit v 4 + bit v 0).
Proof. exact declet_dec_total. Qed.
Print Assumptions C19_declet_dec_total.

Theorem C19_declet_canonical_iff : forall v, 0 <= v < 1024 ->
  (declet_enc (declet_dec v) = v <-> declet_redundant v = false).
Proof. exact declet_canonical_iff. Qed.
Print Assumptions C19_declet_canonical_iff.

Theorem C19_declet_redundant_count :
  length (filter declet_redundant (zrange 1024)) = 24%nat /\
  length (filter (fun v => negb (declet_enc (declet_dec v) =? v)) (zrange 1024)) = 24%nat /\
  length (filter (fun v => declet_enc (declet_dec v) =? v) (zrange 1024)) = 1000%nat.
Proof. exact declet_redundant_count. Qed.
Print Assumptions C19_declet_redundant_count.

Theorem C19_declet_redundant_list :
  filter declet_redundant (zrange 1024) =
  [366; 367; 382; 383; 494; 495; 510; 511; 622; 623; 638; 639; 750; 751; 766; 767; 878; 879; 894; 895; 1006; 1007; 1022; 1023].
Proof. exact declet_redundant_list. Qed.
Print Assumptions C19_declet_redundant_list.

Theorem C19_declet_enc_canonical : forall n, 0 <= n < 1000 -> declet_redundant (declet_enc n) = false.
Proof. exact declet_enc_canonical. Qed.
Print Assumptions C19_declet_enc_canonical.

(* the model's tables are the standard's tables: independent transcription as boolean equations *)
Theorem C19_declet_enc_is_table : forall n, 0 <= n < 1000 -> declet_enc n = declet_enc_eqs n.
Proof. exact declet_enc_is_table. Qed.
Print Assumptions C19_declet_enc_is_table.

Theorem C19_declet_dec_is_table : forall v, 0 <= v < 1024 -> declet_dec v = declet_dec_eqs v.
Proof. exact declet_dec_is_table. Qed.
Print Assumptions C19_declet_dec_is_table.

(* table 3.4 row by row, a b c the three digits *)
Theorem C19_declet_enc_rows : forall n, 0 <= n < 1000 ->
  let a := n / 100 in let b := (n / 10) mod 10 in let c := n mod 10 in
  let e := declet_enc n in
  bit e 7 = a mod 2 /\ bit e 4 = b mod 2 /\ bit e 0 = c mod 2 /\
  (a <= 7 -> b <= 7 -> c <= 7 -> e = a * 128 + b * 16 + c) /\
  (a <= 7 -> b <= 7 -> 8 <= c -> e = a * 128 + b * 16 + 8 + c mod 2) /\
  (a <= 7 -> 8 <= b -> c <= 7 -> e = a * 128 + (c / 2) * 32 + (b mod 2) * 16 + 10 + c mod 2) /\
  (8 <= a -> b <= 7 -> c <= 7 -> e = (c / 2) * 256 + (a mod 2) * 128 + b * 16 + 12 + c mod 2) /\
  (a <= 7 -> 8 <= b -> 8 <= c -> e = a * 128 + 64 + (b mod 2) * 16 + 14 + c mod 2) /\
  (8 <= a -> b <= 7 -> 8 <= c -> e = (b / 2) * 256 + (a mod 2) * 128 + 32 + (b mod 2) * 16 + 14 + c mod 2) /\
  (8 <= a -> 8 <= b -> c <= 7 -> e = (c / 2) * 256 + (a mod 2) * 128 + (b mod 2) * 16 + 14 + c mod 2) /\
  (8 <= a -> 8 <= b -> 8 <= c -> e = (a mod 2) * 128 + 96 + (b mod 2) * 16 + 14 + c mod 2).
Proof. exact declet_enc_rows. Qed.
Print Assumptions C19_declet_enc_rows.

(* ---------------- k declets ---------------- *)
Theorem C19_declets_roundtrip : forall k n, 0 <= n < 1000 ^ Z.of_nat k ->
  declets_dec k (declets_enc k n) = n /\ 0 <= declets_enc k n < 1024 ^ Z.of_nat k.
Proof. exact declets_roundtrip. Qed.
Print Assumptions C19_declets_roundtrip.

Theorem C19_declets_dec_range : forall k t, 0 <= t < 1024 ^ Z.of_nat k -> 0 <= declets_dec k t < 1000 ^ Z.of_nat k.
Proof. exact declets_dec_range. Qed.
Print Assumptions C19_declets_dec_range.

Theorem C19_declets_enc_nth : forall k n i, 0 <= n < 1000 ^ Z.of_nat k -> 0 <= i < Z.of_nat k ->
  (declets_enc k n / 1024 ^ i) mod 1024 = declet_enc ((n / 1000 ^ i) mod 1000).
Proof. exact declets_enc_nth. Qed.
Print Assumptions C19_declets_enc_nth.

(* [declets_canonb k t]: none of the k declets of t is redundant *)
Theorem C19_declets_canonb_spec : forall k t, 0 <= t ->
  (declets_canonb k t = true <->
   forall i, 0 <= i < Z.of_nat k -> declet_redundant ((t / 1024 ^ i) mod 1024) = false).
Proof. exact declets_canonb_spec. Qed.
Print Assumptions C19_declets_canonb_spec.

Theorem C19_declets_enc_dec : forall k t, 0 <= t < 1024 ^ Z.of_nat k -> declets_canonb k t = true ->
  declets_enc k (declets_dec k t) = t.
Proof. exact declets_enc_dec. Qed.
Print Assumptions C19_declets_enc_dec.

(* ---------------- the 128-bit word, data level ---------------- *)
Theorem C19_dpd_decode_encode : forall d, wf d -> dpd_decode (dpd_encode d) = d.
Proof. exact dpd_decode_encode. Qed.
Print Assumptions C19_dpd_decode_encode.

Theorem C19_dpd_encode_range : forall d, wf d -> 0 <= dpd_encode d < P128.
Proof. exact dpd_encode_range. Qed.
Print Assumptions C19_dpd_encode_range.

Theorem C19_dpd_decode_wf : forall w, 0 <= w < P128 -> wf (dpd_decode w).
Proof. exact dpd_decode_wf. Qed.
Print Assumptions C19_dpd_decode_wf.

(* dpd_canonical_bits w :=
     (0 <=? w) && (w <? P128) && declets_canonb 11 (w mod P110) &&
     (if (w / P122) mod 32 =? 30 then w mod P122 =? 0 else true) &&
     (if (w / P122) mod 32 =? 31 then (w mod P121) / P110 =? 0 else true) *)
Theorem C19_dpd_encode_decode : forall w, dpd_canonical_bits w = true -> dpd_encode (dpd_decode w) = w.
Proof. exact dpd_encode_decode. Qed.
Print Assumptions C19_dpd_encode_decode.

Theorem C19_dpd_canonical_iff : forall w,
  dpd_canonical_bits w = true <-> (0 <= w < P128 /\ dpd_encode (dpd_decode w) = w).
Proof. exact dpd_canonical_iff. Qed.
Print Assumptions C19_dpd_canonical_iff.

Theorem C19_dpd_encode_canonical : forall d, wf d -> dpd_canonical_bits (dpd_encode d) = true.
Proof. exact dpd_encode_canonical. Qed.
Print Assumptions C19_dpd_encode_canonical.

Theorem C19_dpd_encode_inj : forall d d', wf d -> wf d' -> dpd_encode d = dpd_encode d' -> d = d'.
Proof. exact dpd_encode_inj. Qed.
Print Assumptions C19_dpd_encode_inj.

Theorem C19_dpd_canonicalise : forall w, 0 <= w < P128 ->
  let w' := dpd_encode (dpd_decode w) in dpd_canonical_bits w' = true /\ dpd_decode w' = dpd_decode w.
Proof. exact dpd_canonicalise. Qed.
Print Assumptions C19_dpd_canonicalise.

(* ---------------- layout (IEEE 754-2008 3.5.2, decimal encoding of the significand) ---------------- *)
Theorem C19_layout_fin : forall s c q, wf (Fin s c q) ->
  let w := dpd_encode (Fin s c q) in let E := q + 6176 in let lead := c / T33 in
  w / P127 = (if s then 1 else 0) /\
  0 <= lead <= 9 /\ 0 <= E / 4096 <= 2 /\
  (w / P110) mod 4096 = E mod 4096 /\
  (lead <= 7 -> (w / P125) mod 4 = E / 4096 /\ (w / P122) mod 8 = lead) /\
  (8 <= lead -> (w / P125) mod 4 = 3 /\ (w / P123) mod 4 = E / 4096 /\ (w / P122) mod 2 = lead - 8) /\
  (forall i, 0 <= i < 11 -> (w / 1024 ^ i) mod 1024 = declet_enc ((c / 1000 ^ i) mod 1000)).
Proof. exact dpd_encode_layout_fin. Qed.
Print Assumptions C19_layout_fin.

Theorem C19_layout_nan : forall s sg p, wf (NaN s sg p) ->
  let w := dpd_encode (NaN s sg p) in
  w / P127 = (if s then 1 else 0) /\ (w / P122) mod 32 = 31 /\ (w / P121) mod 2 = (if sg then 1 else 0) /\
  (w / P110) mod 2048 = 0 /\
  (forall i, 0 <= i < 11 -> (w / 1024 ^ i) mod 1024 = declet_enc ((p / 1000 ^ i) mod 1000)).
Proof. exact dpd_encode_layout_nan. Qed.
Print Assumptions C19_layout_nan.

Theorem C19_layout_inf : forall s, dpd_encode (Inf s) = (if s then 1 else 0) * P127 + 30 * P122.
Proof. exact dpd_encode_layout_inf. Qed.
Print Assumptions C19_layout_inf.

(* ---------------- bit level: the two conversions ---------------- *)
Theorem C19_encode_total : forall x, 0 <= x < P128 ->
  exists w, m_encode_dpd x = [([w], 0)] /\ 0 <= w < P128 /\ dpd_canonical_bits w = true /\ dpd_decode w = decode x.
Proof. exact m_encode_dpd_total. Qed.
Print Assumptions C19_encode_total.

Theorem C19_decode_total : forall w, 0 <= w < P128 ->
  exists b, m_decode_dpd w = [([b], 0)] /\ 0 <= b < P128 /\ canonical_bits b = true /\ decode b = dpd_decode w.
Proof. exact m_decode_dpd_total. Qed.
Print Assumptions C19_decode_total.

Theorem C19_bid_dpd_bid : forall x, canonical_bits x = true ->
  exists w, m_encode_dpd x = [([w], 0)] /\ m_decode_dpd w = [([x], 0)].
Proof. exact bid_dpd_bid. Qed.
Print Assumptions C19_bid_dpd_bid.

Theorem C19_dpd_bid_dpd : forall w, dpd_canonical_bits w = true ->
  exists b, m_decode_dpd w = [([b], 0)] /\ m_encode_dpd b = [([w], 0)].
Proof. exact dpd_bid_dpd. Qed.
Print Assumptions C19_dpd_bid_dpd.

(* ---------------- non-vacuity witnesses ---------------- *)
(* known DPD test vectors (decNumber dqEncode.decTest): 1, -7.50, Nmax, a 34-digit integer, Inf, NaN, sNaN *)
Example ex_one : dpd_encode (Fin false 1 0) = 0x22080000000000000000000000000001.
Proof. vm_compute. reflexivity. Qed.
Example ex_m750 : dpd_encode (Fin true 750 (-2)) = 0xA20780000000000000000000000003D0.
Proof. vm_compute. reflexivity. Qed.
Example ex_nmax : dpd_encode (Fin false (T34 - 1) 6111) = 0x77FFCFF3FCFF3FCFF3FCFF3FCFF3FCFF.
Proof. vm_compute. reflexivity. Qed.
Example ex_34digits : dpd_encode (Fin false 1234567890123456789012345678901234 0) = 0x2608134b9c1e28e56f3c127177823534.
Proof. vm_compute. reflexivity. Qed.
Example ex_inf : dpd_encode (Inf true) = 0xF8000000000000000000000000000000.
Proof. vm_compute. reflexivity. Qed.
Example ex_qnan : dpd_encode (NaN false false 999) = 0x7C0000000000000000000000000000FF.
Proof. vm_compute. reflexivity. Qed.
Example ex_snan : dpd_encode (NaN true true 0) = 0xFE000000000000000000000000000000.
Proof. vm_compute. reflexivity. Qed.
(* large leading digit (8) with the smallest exponent: combination field form 11eed *)
Example ex_lead8 : dpd_encode (Fin false 8000000000000000000000000000000001 (-6176)) = 0x60000000000000000000000000000001.
Proof. vm_compute. reflexivity. Qed.
Example ex_lead9_emax : dpd_decode 0x77FFCFF3FCFF3FCFF3FCFF3FCFF3FCFF = Fin false (T34 - 1) 6111.
Proof. vm_compute. reflexivity. Qed.

(* the hypotheses of the theorems above are satisfiable *)
Example ex_wf_fin : wf (Fin true 9999999999999999999999999999999999 6111).
Proof. vm_compute. intuition discriminate. Qed.
Example ex_wf_nan : wf (NaN false true 999999999999999999999999999999999).
Proof. vm_compute. intuition discriminate. Qed.
Example ex_canonical_dpd : dpd_canonical_bits 0xA20780000000000000000000000003D0 = true /\
                           dpd_canonical_bits 0x78000000000000000000000000000000 = true /\
                           dpd_canonical_bits 0x7C0000000000000000000000000000FF = true.
Proof. vm_compute. auto. Qed.
Example ex_canonical_bid : canonical_bits (encode (Fin true 750 (-2))) = true.
Proof. vm_compute. reflexivity. Qed.
Example ex_noncanonical_dpd :
  dpd_canonical_bits 0x78000000000000000000000000000123 = false /\   (* infinity with junk *)
  dpd_canonical_bits 0x7C0100000000000000000000000000FF = false /\   (* NaN with a reserved bit set *)
  dpd_canonical_bits 0x2208000000000000000000000000036E = false.     (* redundant declet *)
Proof. vm_compute. auto. Qed.

(* redundant declets: 0x16E 0x16F 0x17E 0x17F -> 888 889 898 899; 0x0EE 0x1EE 0x2EE 0x3EE all -> 988 *)
Example ex_redundant : map declet_dec [0x16E; 0x16F; 0x17E; 0x17F; 0x0EE; 0x1EE; 0x2EE; 0x3EE] = [888; 889; 898; 899; 988; 988; 988; 988].
Proof. vm_compute. reflexivity. Qed.
Example ex_redundant_flag : map declet_redundant [0x16E; 0x0EE; 0x1EE; 0x3FF; 0x0FF] = [true; false; true; true; false].
Proof. vm_compute. reflexivity. Qed.
Example ex_redundant_word : dpd_decode 0x2208000000000000000000000000036E = Fin false 888 0 /\
                            dpd_encode (Fin false 888 0) = 0x2208000000000000000000000000006E.
Proof. vm_compute. auto. Qed.

(* bit level, both directions *)
Example ex_m_encode : m_encode_dpd (encode (Fin true 750 (-2))) = [([0xA20780000000000000000000000003D0], 0)].
Proof. vm_compute. reflexivity. Qed.
Example ex_m_decode : m_decode_dpd 0xA20780000000000000000000000003D0 = [([encode (Fin true 750 (-2))], 0)].
Proof. vm_compute. reflexivity. Qed.
(* a non-canonical BID input (coefficient field 2^113 - 1 >= 10^34) denotes zero and converts to a DPD zero *)
Example ex_m_encode_noncanon : m_encode_dpd (P113 - 1) = [([dpd_encode (Fin false 0 (-6176))], 0)].
Proof. vm_compute. reflexivity. Qed.
(* a DPD infinity with junk converts to the canonical BID infinity *)
Example ex_m_decode_infjunk : m_decode_dpd 0x78000000000000000000000000000123 = [([0x78000000000000000000000000000000], 0)].
Proof. vm_compute. reflexivity. Qed.
