(* C04 - parsing a decimal literal yields the correctly rounded value and never panics.

   Objects. Strings are lists of bytes (list Z). The model (theories/OpsStr.v): [lex : list Z -> tok] classifies a string,
   [m_parse md l] turns the token into the list of accepted (outputs, raised flags) outcomes, [expected OParse/OFromStr/
   OFromStr2] (theories/Judge.v) is what the differential judge accepts. The grammar of the property text is defined
   here independently of [lex] (theories/StrProofs.v):
     [wf_literal l s di df es] : l = [sign] ++ di ++ ['.' ++ df] ++ [('e'|'E') ++ [sign] ++ eds], s = (sign is '-'),
        di / df = integer / fractional digit bytes ('0'..'9'), at least one digit in di ++ df, es = None or
        Some (exponent sign, eds) with eds non-empty;
     [dval 0 ds] = the number written by the digit string ds; [len df] = number of fractional digits;
     [exp_val es] = the signed exponent (0 if absent).
   The literal denotes (-1)^s * D * 10^q with D = dval 0 (di ++ df), q = exp_val es - len df  (= D2R (Fin s D q), lemma
   C04_literal_value).

   How the theorems cover the statement.
   * "for every string ... terminates without panicking": the model is a total Coq function with no panic outcome
     (C04_lex_total); C04_lex_sound / C04_lex_num_iff / C04_lex_else_garbage classify *every* byte string (including bytes
     >= 128, i.e. multi-byte UTF-8) into exactly: blanks + well-formed literal -> TNum; blanks + special spelling ->
     TSpecial; snan-prefix + junk -> TSnanJunk; literal-with-exponent + junk -> TExpJunk; everything else -> TGarbage;
     C04_outcome_canonical: every accepted result is one canonical encoding. (That the *crate* does not panic is
     established by the differential harness, not by a Coq theorem - there is no layer-I scanner model in this package.)
   * "well-formed literal ... bit-exact correctly rounded for the requested mode ... overflow/underflow as for arithmetic":
     C04_lex_literal (the token is sign, D, number of fractional digits, exponent) and C04_parse_correct (the single
     accepted outcome is the canonical encoding of a datum satisfying [ieee_result md value q s], the same specification
     as for arithmetic in C01: Flocq's round of the exact value, overflow result by mode, inexact/underflow/overflow
     flags, zero keeps the literal's sign). Stated for ANY number of digits; the property's 100-digit bound is a special
     case (no bound is needed in the model).
   * "keeping the literal's own exponent when the digits fit in 34": C04_parse_keeps_exponent (axiom-free, by computation
     on the model: D < 10^34, q in [-6176, 6111] -> exactly encode (Fin s D q), no flag, all modes); for other exact cases
     the preferred-exponent clause of ieee_result (pref = q) applies. C04_parse_zero_clamped: a zero literal with any
     exponent ("0E-7000") gives the zero of the literal's sign with the exponent clamped to [-6176, 6111], no flag.
   * "raising inexact exactly when digits were lost": C04_parse_inexact_iff (inexact <-> rounded value <> literal value, or
     overflow, where inexact accompanies overflow; and the returned datum's value is the rounded value);
     C04_rounded_eq_iff: rounded = exact <-> the literal's value is a decimal128 number.
   * "inf/infinity/nan/snan (any case, optional sign)": C04_parse_special, with C04_eqi_iff / C04_lower_letter /
     C04_case_variants spelling out case-insensitivity (each byte is the pattern's letter in lower or upper case).
   * "anything else gives a quiet NaN": C04_lex_else_garbage (complement of the four shapes is TGarbage),
     C04_garbage_start / C04_garbage_dangling_exp / C04_garbage_after_digits (explicit families: empty, letters, lone sign or
     point, multi-byte text; "1E", "1E+"; second '.', letter after digits), and C04_garbage_expected /
     C04_judge_default_qnan: the judge then accepts exactly one output, the default quiet NaN (payload 0) of either sign,
     with no flag raised. Leading blanks/tabs are skipped (C04_lex_skip_ws; DESIGN 10/C04 (e)).
   * "FromStr returns Err exactly when a flag other than inexact was raised": C04_fromstr_err_iff, C04_fromstr_literal.

   Not covered / partial.
   * TSnanJunk ("snan" + further characters) and TExpJunk (complete literal with exponent + further characters, known
     finding KF_EXPJUNK) are classified (C04_lex_sound, C04_lex_expjunk) but what the judge accepts for them is a design
     decision of Judge.v (DESIGN 10/C04 (e)), only restated by the definition of [expected]; no theorem beyond the
     classification is given.
   * The absence of panics in the Rust scanner (layer I [scanner_never_panics] of DESIGN) is not part of this package. *)
From Coq Require Import ZArith Reals Bool List.
From Flocq Require Import Core.Core Calc.Bracket.
From DV Require Import Base RoundProofs Bid BidProofs Arith ArithProofs OpsArith OpsArithProofs OpsCmp OpsStr Judge StrProofs.
Import ListNotations.
Open Scope Z_scope.

(* ---------- digit strings ---------- *)
Theorem C04_read_digits_maximal : forall l acc n, exists ds rest,
  l = ds ++ rest /\ all_digits ds /\ no_digit_head rest /\ read_digits l acc n = (dval acc ds, n + len ds, rest).
Proof. exact read_digits_maximal. Qed.
Print Assumptions C04_read_digits_maximal.

Theorem C04_dval_positional : forall l acc, dval acc l = acc * 10 ^ len l + dval 0 l.
Proof. exact dval_shift. Qed.
Print Assumptions C04_dval_positional.

Theorem C04_dval_bound : forall l, all_digits l -> 0 <= dval 0 l < 10 ^ len l.
Proof. exact dval_bound. Qed.
Print Assumptions C04_dval_bound.

(* ---------- well-formed literals ---------- *)
Theorem C04_lex_literal : forall l s di df es, wf_literal l s di df es ->
  lex l = TNum s (dval 0 (di ++ df)) (len df) (exp_val es).
Proof. exact lex_literal. Qed.
Print Assumptions C04_lex_literal.

Theorem C04_lex_skip_ws : forall ws l, Forall is_ws ws -> lex (ws ++ l) = lex l.
Proof. exact lex_skip_ws. Qed.
Print Assumptions C04_lex_skip_ws.

Theorem C04_literal_value : forall s D q, D2R (Fin s D q) = ((if s then -1 else 1) * IZR D * bpow radix10 q)%R.
Proof. exact lit_value_eq. Qed.
Print Assumptions C04_literal_value.

Theorem C04_parse_correct : forall md l s di df es, wf_literal l s di df es ->
  let D := dval 0 (di ++ df) in let q := exp_val es - len df in
  exists ol, m_parse md l = SList ol /\ finite_result md (D2R (Fin s D q)) q s ol.
Proof. exact parse_correct. Qed.
Print Assumptions C04_parse_correct.

Theorem C04_parse_keeps_exponent : forall md l s di df es, wf_literal l s di df es ->
  dval 0 (di ++ df) < 10 ^ 34 -> -6176 <= exp_val es - len df <= 6111 ->
  m_parse md l = SList [([encode (Fin s (dval 0 (di ++ df)) (exp_val es - len df))], 0)].
Proof. exact parse_keeps_exponent. Qed.
Print Assumptions C04_parse_keeps_exponent.

Theorem C04_parse_zero_clamped : forall md l s di df es, wf_literal l s di df es ->
  dval 0 (di ++ df) = 0 ->
  m_parse md l = SList [([encode (Fin s 0 (clampq (exp_val es - len df)))], 0)].
Proof. exact parse_zero_clamped. Qed.
Print Assumptions C04_parse_zero_clamped.

Theorem C04_parse_inexact_iff : forall md l s di df es, wf_literal l s di df es ->
  let x := D2R (Fin s (dval 0 (di ++ df)) (exp_val es - len df)) in
  exists d fl, m_parse md l = SList [([encode d], flbits fl)] /\
    (f_inexact fl = true <-> (rounded md x <> x \/ (MAXV < Rabs (rounded md x))%R)) /\
    ((Rabs (rounded md x) <= MAXV)%R -> D2R d = rounded md x /\ f_overflow fl = false).
Proof. exact parse_inexact_iff. Qed.
Print Assumptions C04_parse_inexact_iff.

Theorem C04_rounded_eq_iff : forall md x, rounded md x = x <-> generic_format radix10 fexp x.
Proof. exact rounded_eq_iff. Qed.
Print Assumptions C04_rounded_eq_iff.

(* ---------- special spellings ---------- *)
Theorem C04_eqi_iff : forall l pat, eqi l pat = true <-> map lower l = pat.
Proof. exact eqi_iff. Qed.
Print Assumptions C04_eqi_iff.

Theorem C04_lower_letter : forall b p, 97 <= p <= 122 -> (lower b = p <-> b = p \/ b = p - 32).
Proof. exact lower_letter. Qed.
Print Assumptions C04_lower_letter.

Theorem C04_case_variants : forall r pat, Forall (fun p => 97 <= p <= 122) pat ->
  (map lower r = pat <-> Forall2 (fun b p => b = p \/ b = p - 32) r pat).
Proof. exact map_lower_letters. Qed.
Print Assumptions C04_case_variants.

Theorem C04_parse_special : forall md sp s r d, sign_prefix sp s -> special_of s r d ->
  lex (sp ++ r) = TSpecial d /\ m_parse md (sp ++ r) = SList [([encode d], 0)].
Proof. exact parse_special. Qed.
Print Assumptions C04_parse_special.

(* ---------- totality, classification of every string, garbage ---------- *)
Theorem C04_lex_total : forall l, exists t, lex l = t.
Proof. exact lex_total. Qed.
Print Assumptions C04_lex_total.

Theorem C04_lex_sound : forall l, tok_sound l (lex l).
Proof. exact lex_sound. Qed.
Print Assumptions C04_lex_sound.

Theorem C04_lex_num_iff : forall l s D nf E, lex l = TNum s D nf E <->
  exists ws l1 di df es, l = ws ++ l1 /\ Forall is_ws ws /\ wf_literal l1 s di df es /\
                         D = dval 0 (di ++ df) /\ nf = len df /\ E = exp_val es.
Proof. exact lex_num_iff. Qed.
Print Assumptions C04_lex_num_iff.

Theorem C04_lex_else_garbage : forall l,
  (forall s D nf E, ~ tok_sound l (TNum s D nf E)) -> (forall d, ~ tok_sound l (TSpecial d)) ->
  (forall s, ~ tok_sound l (TSnanJunk s)) -> (forall s D nf E, ~ tok_sound l (TExpJunk s D nf E)) ->
  lex l = TGarbage.
Proof. exact lex_else_garbage. Qed.
Print Assumptions C04_lex_else_garbage.

Theorem C04_garbage_start : forall l,
  let '(s, r) := split_sign (skip_ws l) in
  is_special r = false -> starts_numeric r = false -> lex l = TGarbage.
Proof. exact lex_garbage_start. Qed.
Print Assumptions C04_garbage_start.

Theorem C04_garbage_dangling_exp : forall sp s di fp df e r3,
  sign_prefix sp s -> frac_part fp df -> all_digits di -> all_digits df -> di ++ df <> [] ->
  e = 101 \/ e = 69 ->
  no_digit_head (snd (split_sign r3)) ->
  lex (sp ++ di ++ fp ++ e :: r3) = TGarbage.
Proof. exact lex_garbage_dangling_exp. Qed.
Print Assumptions C04_garbage_dangling_exp.

Theorem C04_garbage_after_digits : forall sp s di fp df b rest,
  sign_prefix sp s -> frac_part fp df -> all_digits di -> all_digits df -> di ++ df <> [] ->
  is_digit b = false -> b <> 101 -> b <> 69 -> (fp = [] -> b <> 46) ->
  lex (sp ++ di ++ fp ++ b :: rest) = TGarbage.
Proof. exact lex_garbage_after_digits. Qed.
Print Assumptions C04_garbage_after_digits.

Theorem C04_lex_expjunk : forall l s di df sg eds rest, wf_literal l s di df (Some (sg, eds)) ->
  rest <> [] -> no_digit_head rest ->
  lex (l ++ rest) = TExpJunk s (dval 0 (di ++ df)) (len df) (exp_val (Some (sg, eds))).
Proof. exact lex_expjunk. Qed.
Print Assumptions C04_lex_expjunk.

Theorem C04_garbage_expected : forall md l, lex l = TGarbage ->
  m_parse md l = SGarbage /\
  expected OParse md l = Pred is_default_qnan [0] /\
  expected OFromStr2 md l = Pred is_default_qnan [0] /\
  expected OFromStr md l = Pred (fun outs => match outs with [1; r] => is_default_qnan [r] | _ => false end) [0].
Proof. exact parse_garbage_expected. Qed.
Print Assumptions C04_garbage_expected.

Theorem C04_judge_default_qnan : forall fin outs fout,
  judge (Pred is_default_qnan [0]) fin outs fout = 1 <->
  exists r, outs = [r] /\ (r = encode QNAN \/ r = encode (NaN true false 0)) /\ fout = fin.
Proof. exact judge_default_qnan. Qed.
Print Assumptions C04_judge_default_qnan.

Theorem C04_outcome_canonical : forall md l,
  match m_parse md l with
  | SList ol | SExpJunk ol => exists d fl, ol = [([encode d], fl)] /\ wf d /\ canonical_bits (encode d) = true
  | _ => True
  end.
Proof. exact m_parse_canonical. Qed.
Print Assumptions C04_outcome_canonical.

(* ---------- FromStr ---------- *)
Theorem C04_fromstr_err_iff : forall r f,
  fromstr_of [([r], flbits f)] = (if f_underflow f || f_overflow f then [([0; flbits f], 0)] else [([1; r], 0)]).
Proof. exact fromstr_err_iff. Qed.
Print Assumptions C04_fromstr_err_iff.

Theorem C04_fromstr_flags : forall r fl,
  ((fl = 0 \/ fl = F_INX) -> fromstr_of [([r], fl)] = [([1; r], 0)]) /\
  (~ (fl = 0 \/ fl = F_INX) -> fromstr_of [([r], fl)] = [([0; fl], 0)]).
Proof. exact fromstr_of_single. Qed.
Print Assumptions C04_fromstr_flags.

Theorem C04_fromstr_literal : forall md l s di df es, wf_literal l s di df es ->
  let r := parse_num RNE s (dval 0 (di ++ df)) (len df) (exp_val es) in
  expected OFromStr md l =
    Exact (if f_underflow (snd r) || f_overflow (snd r) then [([0; flbits (snd r)], 0)] else [([1; encode (fst r)], 0)]).
Proof. exact fromstr_literal_expected. Qed.
Print Assumptions C04_fromstr_literal.

(* ---------- non-vacuity witnesses ---------- *)
(* "-12.50E+3" *)
Definition ex_lit := [45; 49; 50; 46; 53; 48; 69; 43; 51].
Example ex_wf_literal : wf_literal ex_lit true [49; 50] [53; 48] (Some (false, [51])).
Proof.
  exists [45], [46; 53; 48], [69; 43; 51]. split; [reflexivity|]. split; [right; right; auto|]. split; [right; reflexivity|].
  split; [exists 69, [43]; split; [auto|]; split; [right; left; auto|]; split; [discriminate|]; split; [repeat constructor|reflexivity]|].
  split; [repeat constructor|]. split; [repeat constructor|discriminate].
Qed.
Example ex_lex : lex ex_lit = TNum true 1250 2 3.
Proof. vm_compute. reflexivity. Qed.
Example ex_parse : m_parse RNE ex_lit = SList [([encode (Fin true 1250 1)], 0)].
Proof. vm_compute. reflexivity. Qed.
(* hypotheses of parse_keeps_exponent hold for it *)
Example ex_keeps_hyp : dval 0 ([49; 50] ++ [53; 48]) < 10 ^ 34 /\ -6176 <= exp_val (Some (false, [51])) - len [53; 48] <= 6111.
Proof. vm_compute. repeat split; discriminate. Qed.
(* 35 digits "12345678901234567890123456789012345": inexact, rounded by mode *)
Definition ex_35 := [49;50;51;52;53;54;55;56;57;48;49;50;51;52;53;54;55;56;57;48;49;50;51;52;53;54;55;56;57;48;49;50;51;52;53].
Example ex_inexact_rne : m_parse RNE ex_35 = SList [([encode (Fin false 1234567890123456789012345678901234 1)], F_INX)].
Proof. vm_compute. reflexivity. Qed.
Example ex_inexact_rup : m_parse RUP ex_35 = SList [([encode (Fin false 1234567890123456789012345678901235 1)], F_INX)].
Proof. vm_compute. reflexivity. Qed.
(* "0E-7000" under round-up: the zero with clamped exponent, no flag (the pinned crate gave 1E-6176 with underflow) *)
Example ex_zero_clamped : m_parse RUP [48; 69; 45; 55; 48; 48; 48] = SList [([encode (Fin false 0 (-6176))], 0)].
Proof. vm_compute. reflexivity. Qed.
(* "1E00000001" is 1E1 *)
Example ex_padded_exp : m_parse RNE [49; 69; 48; 48; 48; 48; 48; 48; 48; 49] = SList [([encode (Fin false 1 1)], 0)].
Proof. vm_compute. reflexivity. Qed.
(* "1E7000" overflows: FromStr is Err carrying overflow|inexact; "1E-7000" underflows *)
Example ex_fromstr_err : expected OFromStr RNE [49; 69; 55; 48; 48; 48] = Exact [([0; F_OVF + F_INX], 0)].
Proof. vm_compute. reflexivity. Qed.
Example ex_fromstr_ok_inexact : expected OFromStr RNE ex_35 = Exact [([1; encode (Fin false 1234567890123456789012345678901234 1)], 0)].
Proof. vm_compute. reflexivity. Qed.
Example ex_underflow : m_parse RNE [49; 69; 45; 55; 48; 48; 48] = SList [([encode (Fin false 0 (-6176))], F_INX + F_UNF)].
Proof. vm_compute. reflexivity. Qed.
(* specials: "-INFinity", "sNaN", "+nan" *)
Example ex_special_of : special_of true [73; 78; 70; 105; 110; 105; 116; 121] (Inf true).
Proof. left. split; [right; reflexivity|reflexivity]. Qed.
Example ex_inf : lex [45; 73; 78; 70; 105; 110; 105; 116; 121] = TSpecial (Inf true).
Proof. vm_compute. reflexivity. Qed.
Example ex_snan : lex [115; 78; 97; 78] = TSpecial (NaN false true 0).
Proof. vm_compute. reflexivity. Qed.
Example ex_nan : lex [43; 110; 97; 110] = TSpecial (NaN false false 0).
Proof. vm_compute. reflexivity. Qed.
(* garbage: "", "1E", "1E+", "+aaa\xc3\xb1", "1.2.3", "1x", ".", "-" *)
Example ex_garbage : map lex [[]; [49; 69]; [49; 69; 43]; [43; 97; 97; 97; 195; 177]; [49; 46; 50; 46; 51]; [49; 120]; [46]; [45]]
  = [TGarbage; TGarbage; TGarbage; TGarbage; TGarbage; TGarbage; TGarbage; TGarbage].
Proof. vm_compute. reflexivity. Qed.
Example ex_garbage_judge : judge (expected OParse RNE [49; 69]) 32 [encode QNAN] 32 = 1.
Proof. vm_compute. reflexivity. Qed.
(* junk classes: "snanx", "1.1E-2E" *)
Example ex_junk : lex [115; 110; 97; 110; 120] = TSnanJunk false /\ lex [49; 46; 49; 69; 45; 50; 69] = TExpJunk false 11 1 (-2).
Proof. vm_compute. split; reflexivity. Qed.
(* the hypotheses of the garbage families are satisfiable: "1E+" and "1.2.3" as instances *)
Example ex_dangling_instance : lex ([] ++ [49] ++ [] ++ 69 :: [43]) = TGarbage.
Proof.
  apply (C04_garbage_dangling_exp [] false [49] [] [] 69 [43]).
  - left; auto.
  - left; auto.
  - repeat constructor.
  - constructor.
  - discriminate.
  - auto.
  - exact I.
Qed.
Example ex_second_point_instance : lex ([] ++ [49] ++ [46; 50] ++ 46 :: [51]) = TGarbage.
Proof.
  apply (C04_garbage_after_digits [] false [49] [46; 50] [50] 46 [51]).
  - left; auto.
  - right; reflexivity.
  - repeat constructor.
  - repeat constructor.
  - discriminate.
  - reflexivity.
  - discriminate.
  - discriminate.
  - discriminate.
Qed.
