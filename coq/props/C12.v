(* C12 - NaNs propagate quietly with their payload; invalid only when required.
   Property theorems only: each is closed by [exact <lemma of theories/>] and followed by Print Assumptions.

   How the theorems cover the property sentence by sentence.

   (1) "Every computational operation given at least one NaN operand returns a canonical quiet NaN whose sign and
       payload are those of one of its NaN operands (payloads >= 10^33 and reserved bits read as zero), raises invalid
       iff some operand is a signaling NaN, and raises nothing else."
       - C12_nan_in_nan_out: for every flag-taking operation of the model with NaN-capable operands (add sub mul div
         quantize rem fmod fdim next_after | fma | sqrt rint/nearbyint/rint-fixed modf next_up next_down scaleb logb |
         min/max with a signaling or two NaN operands) the list of accepted outcomes IS [nan_outcomes] of the decoded
         operands (modf: the same pattern in both outputs). C12_nan_in_nan_out_expected / _special: the same through the
         judge's dispatch [expected], generically over the operation table. C12_minmax_one_qnan is the complement for
         min/max (one quiet NaN: the other operand, no flag - property C16).
       - C12_nan_outcomes_full: [nan_outcomes ds] is non-empty, and its elements are exactly: for some NaN operand with
         sign s and payload p, the single output word sign*2^127 + 31*2^122 + p (quiet: bit 121 clear; reserved bits 0)
         with flag word F_INV if some operand is signaling and 0 otherwise (so no other flag); each output is canonical
         and decodes to a quiet NaN.
       - C12_nan_outcomes_patterns: the same with everything read from the operand *patterns*: an operand a is a NaN
         iff bits 122..126 are ones, it is signaling iff moreover bit 121 is set (C12_decode_snan_iff), and the word
         handed back is [quiet_pattern a] = sign bit + 31*2^122 + (a mod 2^110 if that is < 10^33, else 0): bits 110..120
         never matter. C12_decode_nan_fields / C12_decode_nan_bits: decode of every one of the 2^122 x 2 NaN patterns.
       - C12_quiet_nan_canonical, C12_quiet_of_pattern: encode (quiet d) is canonical and decodes to quiet d.
   (2) "operations that create a NaN from non-NaN operands (0/0, Inf-Inf, 0*Inf, sqrt of a negative, remainder by zero,
       ...) return the default quiet NaN with invalid" - C12_invalid_sources: for non-NaN operands, [shape k l] says:
       if the operand kinds are the listed combination k (add_inv: Inf + -Inf; sub_inv: Inf - Inf; mul_inv: 0 * Inf;
       div_inv: Inf/Inf or 0/0; sqrt_inv: negative and not zero (incl. -Inf); fma_inv: 0*Inf, or Inf*y + Inf of the other
       sign; rem_inv (remainder and fmod): x infinite or y zero; quantize_inv: exactly one operand infinite, or the
       rescaled coefficient needs more than 34 digits (C12_quantize_inv_char)) then the outcome list is exactly
       [invalid_out] = [([0x7c00..0], invalid)]; otherwise (and always for fdim, rint, modf, next*, scaleb, logb,
       min/max) the list is non-empty and every outcome is the canonical encoding of a well-formed NON-NaN datum with the
       invalid bit clear. C12_shape_iff spells [shape] out as an "if and only if".
   (3) "copy, negate, abs, copy_sign never raise a flag and change nothing but the sign bit, even for signaling NaNs":
       C12_quiet_ops_sign_only (all 2^128 patterns: one outcome, flag word 0, result mod 2^127 = x mod 2^127, and the
       stated bit 127), C12_quiet_ops_datum (the decoded datum is set_sign of the operand's datum).

   Not covered here: the operator forms (+ - * / %, Sum, Product) discard flags, so only their result patterns follow
   (they are [arith2] = the operations above); conversions to integers return integers, not NaNs (C06);
   convert_from_f32/f64 of a binary NaN is left to C07 (payload unspecified, DESIGN section 14).
   No theorem of this file uses real numbers: all are closed under the global context (the round_pack based cases of
   C12_invalid_sources use the integer-only well-formedness theorems of theories/RoundWfProofs.v). *)
From Coq Require Import ZArith Bool List.
From DV Require Import Base Bid BidProofs Arith OpsArith OpsCmp OpsMisc OpsConv OpsStr Judge NanProofs CanonProofs ResultProofs.
Import ListNotations.
Open Scope Z_scope.

(* ---------- reading NaN patterns ---------- *)
Theorem C12_decode_nan_iff : forall x, is_nan (decode x) = true <-> (x mod P127) / P122 = 31.
Proof. exact decode_nan_iff. Qed.
Print Assumptions C12_decode_nan_iff.

Theorem C12_decode_snan_iff : forall x,
  is_snan (decode x) = true <-> (x mod P127) / P122 = 31 /\ (x / P121) mod 2 = 1.
Proof. exact decode_snan_iff. Qed.
Print Assumptions C12_decode_snan_iff.

Theorem C12_decode_nan_fields : forall x, (x mod P127) / P122 = 31 ->
  decode x = NaN (P127 <=? x) (1 <=? (x / P121) mod 2) (if x mod P110 <? T33 then x mod P110 else 0).
Proof. exact decode_nan_fields. Qed.
Print Assumptions C12_decode_nan_fields.

Theorem C12_decode_nan_bits : forall (s sg : bool) resv t, 0 <= resv < 2048 -> 0 <= t < P110 ->
  decode ((if s then P127 else 0) + 31 * P122 + (if sg then P121 else 0) + resv * P110 + t)
  = NaN s sg (if t <? T33 then t else 0).
Proof. exact decode_nan_bits. Qed.
Print Assumptions C12_decode_nan_bits.

Theorem C12_nan_pattern_fields : forall x, 0 <= x < P128 -> (x mod P127) / P122 = 31 ->
  x = (if P127 <=? x then P127 else 0) + 31 * P122 + (if 1 <=? (x / P121) mod 2 then P121 else 0)
      + ((x / P110) mod 2048) * P110 + x mod P110.
Proof. exact nan_pattern_fields. Qed.
Print Assumptions C12_nan_pattern_fields.

(* ---------- the canonical quiet NaN ---------- *)
Theorem C12_quiet_nan_canonical : forall d, wf d -> is_nan d = true ->
  canonical_bits (encode (quiet d)) = true /\
  decode (encode (quiet d)) = quiet d /\
  is_nan (quiet d) = true /\ is_snan (quiet d) = false /\
  exists s sg p, d = NaN s sg p /\ quiet d = NaN s false p /\ 0 <= p < T33.
Proof. exact quiet_nan_canonical. Qed.
Print Assumptions C12_quiet_nan_canonical.

Theorem C12_quiet_of_pattern : forall x, 0 <= x < P128 -> is_nan (decode x) = true ->
  encode (quiet (decode x)) =
    (if P127 <=? x then P127 else 0) + 31 * P122 + (if x mod P110 <? T33 then x mod P110 else 0) /\
  canonical_bits (encode (quiet (decode x))) = true.
Proof. exact quiet_of_pattern. Qed.
Print Assumptions C12_quiet_of_pattern.

Theorem C12_quiet_of_canonical_qnan : forall x,
  canonical_bits x = true -> is_nan (decode x) = true -> is_snan (decode x) = false -> encode (quiet (decode x)) = x.
Proof. exact quiet_of_canonical_qnan. Qed.
Print Assumptions C12_quiet_of_canonical_qnan.

(* ---------- nan_outcomes ---------- *)
Theorem C12_nan_outcomes_full : forall ds, Forall wf ds -> existsb is_nan ds = true ->
  nan_outcomes ds <> [] /\
  (forall o, In o (nan_outcomes ds) <->
     exists s sg p, In (NaN s sg p) ds /\ 0 <= p < T33 /\
       o = ([(if s then P127 else 0) + 31 * P122 + p], if existsb is_snan ds then F_INV else 0)) /\
  (forall o, In o (nan_outcomes ds) ->
     exists r, o = ([r], if existsb is_snan ds then F_INV else 0) /\ canonical_bits r = true /\
               is_nan (decode r) = true /\ is_snan (decode r) = false).
Proof. exact nan_outcomes_full. Qed.
Print Assumptions C12_nan_outcomes_full.

Theorem C12_existsb_snan_iff : forall ds, existsb is_snan ds = true <-> exists s p, In (NaN s true p) ds.
Proof. exact existsb_snan_iff. Qed.
Print Assumptions C12_existsb_snan_iff.

Theorem C12_nan_outcomes_patterns : forall args o, Forall (fun x => 0 <= x < P128) args ->
  (In o (nan_outcomes (map decode args)) <->
   exists a, In a args /\ (a mod P127) / P122 = 31 /\
     o = ([(if P127 <=? a then P127 else 0) + 31 * P122 + (if a mod P110 <? T33 then a mod P110 else 0)],
          if existsb (fun a => is_snan (decode a)) args then F_INV else 0)).
Proof. exact nan_outcomes_patterns. Qed.
Print Assumptions C12_nan_outcomes_patterns.

(* ---------- nan_in_nan_out ---------- *)
Theorem C12_nan_in_nan_out : forall md k sgi n x y z,
  let dx := decode x in let dy := decode y in let dz := decode z in
  (is_nan dx || is_nan dy = true ->
     m_add md x y = nan_outcomes [dx; dy] /\ m_sub md x y = nan_outcomes [dx; dy] /\
     m_mul md x y = nan_outcomes [dx; dy] /\ m_div md x y = nan_outcomes [dx; dy] /\
     m_quantize md x y = nan_outcomes [dx; dy] /\
     rem_dec true x y = nan_outcomes [dx; dy] /\ rem_dec false x y = nan_outcomes [dx; dy] /\
     m_fdim md x y = nan_outcomes [dx; dy] /\ m_next_after x y = nan_outcomes [dx; dy]) /\
  (is_nan dx || is_nan dy || is_nan dz = true -> m_fma md x y z = nan_outcomes [dx; dy; dz]) /\
  (is_nan dx = true ->
     m_sqrt md x = nan_outcomes [dx] /\ rint_dec md sgi x = nan_outcomes [dx] /\
     m_modf x = map (fun o => (fst o ++ fst o, snd o)) (nan_outcomes [dx]) /\
     m_next_up x = nan_outcomes [dx] /\ m_next_down x = nan_outcomes [dx] /\
     m_scaleb md x n = nan_outcomes [dx] /\ m_logb x = nan_outcomes [dx]) /\
  (is_snan dx || is_snan dy = true \/ is_nan dx && is_nan dy = true -> m_minmax k x y = nan_outcomes [dx; dy]).
Proof. exact nan_in_nan_out. Qed.
Print Assumptions C12_nan_in_nan_out.

Theorem C12_minmax_one_qnan : forall k x y,
  let dx := decode x in let dy := decode y in
  is_snan dx = false -> is_snan dy = false ->
  (is_nan dx = true -> is_nan dy = false -> m_minmax k x y = out1 dy 0) /\
  (is_nan dx = false -> is_nan dy = true -> m_minmax k x y = out1 dx 0).
Proof. exact minmax_one_qnan. Qed.
Print Assumptions C12_minmax_one_qnan.

(* generic over the judge's operation table: [nan_arity o] is the number of decimal operands of the flag-taking
   operations sqrt rint nearbyint rint-fixed next_up next_down logb (1), add sub mul div quantize rem fmod fdim next_after (2), fma (3) *)
Theorem C12_nan_in_nan_out_expected : forall o md args,
  nan_arity o = Some (length args) -> existsb is_nan (map decode args) = true ->
  expected o md args = Exact (nan_outcomes (map decode args)).
Proof. exact nan_in_nan_out_expected. Qed.
Print Assumptions C12_nan_in_nan_out_expected.

Theorem C12_nan_in_nan_out_expected_special : forall md k w x y n,
  (is_nan (decode x) = true -> expected (OScaleb w) md [x; n] = Exact (nan_outcomes [decode x])) /\
  (is_nan (decode x) = true ->
     expected OModf md [x] = Exact (map (fun o => (fst o ++ fst o, snd o)) (nan_outcomes [decode x]))) /\
  (is_snan (decode x) || is_snan (decode y) = true \/ is_nan (decode x) && is_nan (decode y) = true ->
     expected (OMinMax k) md [x; y] = Exact (nan_outcomes [decode x; decode y])).
Proof. exact nan_in_nan_out_expected_special. Qed.
Print Assumptions C12_nan_in_nan_out_expected_special.

(* ---------- invalid_sources ---------- *)
(* the vocabulary, restated so that this file can be read alone *)
Example C12_vocabulary :
  (forall o, numeric_out o <-> exists d fl, o = ([encode d], fl) /\ wf d /\ is_nan d = false /\ fl mod 2 = 0) /\
  (forall l, numeric_outs l <-> l <> [] /\ forall o, In o l -> numeric_out o) /\
  (forall l, shape true l <-> l = invalid_out) /\ (forall l, shape false l <-> numeric_outs l) /\
  invalid_out = [([31 * P122], F_INV)] /\ F_INV = 1 /\ 31 * P122 = 0x7c000000000000000000000000000000 /\
  (forall dx dy, mul_inv dx dy = (is_inf dx && is_zero dy) || (is_zero dx && is_inf dy)) /\
  (forall dx dy, div_inv dx dy = (is_inf dx && is_inf dy) || (is_zero dx && is_zero dy)) /\
  (forall dx, sqrt_inv dx = sign_of dx && negb (is_zero dx)) /\
  (forall dx dy dz, fma_inv dx dy dz = mul_inv dx dy ||
     ((is_inf dx || is_inf dy) && is_inf dz && negb (Bool.eqb (sign_of dz) (xorb (sign_of dx) (sign_of dy))))) /\
  (forall dx dy, rem_inv dx dy = is_inf dx || is_zero dy) /\
  (forall s s', quantize_inv (Inf s) (Inf s') = false) /\
  (forall s s' c q, quantize_inv (Inf s) (Fin s' c q) = true /\ quantize_inv (Fin s' c q) (Inf s) = true).
Proof.
  do 4 (split; [intros; apply iff_refl|]). do 9 (split; [intros; reflexivity|]). intros; split; reflexivity.
Qed.

Theorem C12_add_inv_char : forall dx dy, add_inv dx dy = true <-> exists s, dx = Inf s /\ dy = Inf (negb s).
Proof. exact add_inv_char. Qed.
Print Assumptions C12_add_inv_char.

Theorem C12_sub_inv_char : forall dx dy, sub_inv dx dy = true <-> exists s, dx = Inf s /\ dy = Inf s.
Proof. exact sub_inv_char. Qed.
Print Assumptions C12_sub_inv_char.

Theorem C12_quantize_inv_char : forall sx cx qx sy cy qy, 0 <= cx ->
  quantize_inv (Fin sx cx qx) (Fin sy cy qy) = true <-> cx <> 0 /\ qy <= qx /\ 34 < ndigits cx + (qx - qy).
Proof. exact quantize_inv_char. Qed.
Print Assumptions C12_quantize_inv_char.

Theorem C12_shape_iff : forall k l, shape k l ->
  (l = invalid_out <-> k = true) /\
  (k = false -> l <> [] /\ forall o, In o l -> exists r, fst o = [r] /\ canonical_bits r = true /\
                                          is_nan (decode r) = false /\ snd o mod 2 = 0).
Proof. exact shape_iff. Qed.
Print Assumptions C12_shape_iff.

Theorem C12_invalid_sources : forall md nearest k si n x y z, 0 <= x < P128 -> 0 <= y < P128 -> 0 <= z < P128 ->
  let dx := decode x in let dy := decode y in let dz := decode z in
  is_nan dx = false ->
  (shape (sqrt_inv dx) (m_sqrt md x) /\ shape false (rint_dec md si x) /\
   (exists o, m_modf x = [o] /\
      exists d1 d2, o = ([encode d1; encode d2], 0) /\ wf d1 /\ wf d2 /\ is_nan d1 = false /\ is_nan d2 = false) /\
   shape false (m_next_up x) /\ shape false (m_next_down x) /\ shape false (m_scaleb md x n) /\ shape false (m_logb x)) /\
  (is_nan dy = false ->
   shape (add_inv dx dy) (m_add md x y) /\ shape (sub_inv dx dy) (m_sub md x y) /\
   shape (mul_inv dx dy) (m_mul md x y) /\ shape (div_inv dx dy) (m_div md x y) /\
   shape (quantize_inv dx dy) (m_quantize md x y) /\ shape (rem_inv dx dy) (rem_dec nearest x y) /\
   shape false (m_fdim md x y) /\ shape false (m_next_after x y) /\ shape false (m_minmax k x y) /\
   (is_nan dz = false -> shape (fma_inv dx dy dz) (m_fma md x y z))).
Proof. exact invalid_sources. Qed.
Print Assumptions C12_invalid_sources.

(* the integer-only members separately: closed under the global context *)
Theorem C12_invalid_sources_quantize : forall md x y, 0 <= x < P128 -> 0 <= y < P128 ->
  is_nan (decode x) = false -> is_nan (decode y) = false ->
  shape (quantize_inv (decode x) (decode y)) (m_quantize md x y).
Proof. exact m_quantize_shape. Qed.
Print Assumptions C12_invalid_sources_quantize.

Theorem C12_invalid_sources_rem : forall nearest x y, 0 <= x < P128 -> 0 <= y < P128 ->
  is_nan (decode x) = false -> is_nan (decode y) = false ->
  shape (rem_inv (decode x) (decode y)) (rem_dec nearest x y).
Proof. exact rem_dec_shape. Qed.
Print Assumptions C12_invalid_sources_rem.

(* ---------- quiet sign operations ---------- *)
Theorem C12_quiet_ops_sign_only : forall x y, 0 <= x < P128 ->
  m_copy x = [([x], 0)] /\
  (exists r, m_neg x = [([r], 0)] /\ 0 <= r < P128 /\ r mod P127 = x mod P127 /\ (P127 <=? r) = negb (P127 <=? x)) /\
  (exists r, m_abs x = [([r], 0)] /\ 0 <= r < P128 /\ r mod P127 = x mod P127 /\ (P127 <=? r) = false) /\
  (exists r, m_copysign x y = [([r], 0)] /\ 0 <= r < P128 /\ r mod P127 = x mod P127 /\ (P127 <=? r) = (P127 <=? y)).
Proof. exact quiet_ops_sign_only. Qed.
Print Assumptions C12_quiet_ops_sign_only.

Theorem C12_quiet_ops_datum : forall x y, 0 <= x < P128 -> 0 <= y < P128 ->
  (forall r, m_neg x = [([r], 0)] -> decode r = set_sign (negb (sign_of (decode x))) (decode x)) /\
  (forall r, m_abs x = [([r], 0)] -> decode r = set_sign false (decode x)) /\
  (forall r, m_copysign x y = [([r], 0)] -> decode r = set_sign (sign_of (decode y)) (decode x)).
Proof. exact quiet_ops_datum. Qed.
Print Assumptions C12_quiet_ops_datum.

(* ---------- non-vacuity ---------- *)
Definition one := encode (Fin false 1 0).
Definition snan33 := 31 * P122 + P121 + T33.                        (* +sNaN, payload field 10^33 (non-canonical) *)
Definition snan5r := P127 + 31 * P122 + P121 + 1000 * P110 + 5.     (* -sNaN, payload 5, reserved bits set *)
Definition qnan7 := P127 + 31 * P122 + 7.                           (* -qNaN, payload 7, canonical *)
Definition infj := P127 + 30 * P122 + 12345.                        (* -Inf with junk in the trailing bits *)
Definition nc34 := 6176 * P113 + T34.                               (* coefficient field 10^34: +0E0 *)

(* a signaling NaN with payload 10^33 propagates as +qNaN with payload 0, invalid *)
Example C12_ex_snan_payload_too_big : m_add RNE snan33 one = [([31 * P122], F_INV)].
Proof. vm_compute. reflexivity. Qed.
(* reserved bits are dropped, sign and payload kept, quieted, invalid *)
Example C12_ex_snan_reserved : m_mul RNE one snan5r = [([P127 + 31 * P122 + 5], F_INV)].
Proof. vm_compute. reflexivity. Qed.
(* a quiet NaN propagates unchanged without any flag *)
Example C12_ex_qnan : m_add RNE qnan7 one = [([qnan7], 0)] /\ m_sqrt RTZ qnan7 = [([qnan7], 0)].
Proof. vm_compute. split; reflexivity. Qed.
(* two NaN operands: either may be propagated; invalid because one of them signals *)
Example C12_ex_two_nans : m_fma RNE qnan7 one snan33 = [([qnan7], F_INV); ([31 * P122], F_INV)].
Proof. vm_compute. reflexivity. Qed.
Example C12_ex_modf_nan : m_modf snan33 = [([31 * P122; 31 * P122], F_INV)].
Proof. vm_compute. reflexivity. Qed.
Example C12_ex_minmax : m_minmax MinNum qnan7 one = [([one], 0)] /\ m_minmax MaxMag snan33 one = [([31 * P122], F_INV)].
Proof. vm_compute. split; reflexivity. Qed.
Example C12_ex_hyps_satisfiable :
  is_nan (decode snan33) = true /\ is_snan (decode snan33) = true /\ is_snan (decode qnan7) = false /\
  nan_arity OFma = Some (length [qnan7; one; snan33]) /\ existsb is_nan (map decode [qnan7; one; snan33]) = true /\
  wf (decode snan5r) /\ canonical_bits snan5r = false /\ canonical_bits qnan7 = true.
Proof. vm_compute. repeat split; congruence. Qed.
(* created NaNs: every listed source gives the default quiet NaN with invalid *)
Example C12_ex_invalid_sources :
  m_sub RNE (encode (Inf false)) (encode (Inf false)) = invalid_out /\
  m_add RNE (encode (Inf false)) infj = invalid_out /\
  m_mul RNE (encode (Fin true 0 3)) infj = invalid_out /\
  m_div RNE nc34 (encode (Fin true 0 (-7))) = invalid_out /\
  m_div RNE infj infj = invalid_out /\
  m_sqrt RNE (encode (Fin true 1 0)) = invalid_out /\ m_sqrt RNE infj = invalid_out /\
  m_fma RNE infj one (encode (Inf false)) = invalid_out /\ m_fma RNE infj nc34 one = invalid_out /\
  rem_dec true one nc34 = invalid_out /\ rem_dec false infj one = invalid_out /\
  m_quantize RNE infj one = invalid_out /\
  m_quantize RNE (encode (Fin false 123 0)) (encode (Fin false 1 (-32))) = invalid_out.
Proof. vm_compute. repeat split; reflexivity. Qed.
(* ... and the neighbouring non-invalid cases *)
Example C12_ex_not_invalid :
  m_sqrt RNE (encode (Fin true 0 3)) = [([encode (Fin true 0 1)], 0)] /\
  m_quantize RNE (encode (Fin false 123 0)) (encode (Fin false 1 (-31))) = [([encode (Fin false (123 * 10 ^ 31) (-31))], 0)] /\
  m_quantize RNE infj (encode (Inf false)) = [([encode (Inf true)], 0)] /\
  m_div RNE one nc34 = [([encode (Inf false)], F_DBZ)] /\
  m_fdim RNE (encode (Inf false)) infj = [([encode (Inf false)], 0)].
Proof. vm_compute. repeat split; reflexivity. Qed.
(* quiet operations on a signaling NaN with reserved bits: only bit 127 moves, no flag *)
Example C12_ex_quiet_ops :
  m_neg snan5r = [([snan5r - P127], 0)] /\ m_abs snan5r = [([snan5r - P127], 0)] /\
  m_copysign snan33 infj = [([snan33 + P127], 0)] /\ m_copy nc34 = [([nc34], 0)].
Proof. vm_compute. repeat split; reflexivity. Qed.
