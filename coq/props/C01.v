(* C01 - add, subtract, multiply, divide and square root are correctly rounded.
   Property theorems only: each is closed by [exact <lemma of theories/>] and followed by Print Assumptions.
   [ieee_result md v pref zs d fl] (theories/Base.v) is the conjunction of the IEEE 754-2008 clauses: value = Flocq's
   round radix10 (FLT_exp (-6176) 34) of the exact real v; overflow result by mode; sign; preferred exponent when exact,
   least exponent when inexact; inexact / underflow (tininess before rounding, only when inexact) / overflow flags.
   [finite_result md v pref zs l]: the accepted-outcome list l of the model is the single canonical encoding of such a datum. *)
From Coq Require Import ZArith Reals Bool List.
From Flocq Require Import Core.Core Calc.Bracket.
From DV Require Import Base RoundProofs Bid BidProofs Arith ArithProofs OpsArith OpsArithProofs.
Import ListNotations.
Open Scope Z_scope.

(* the rounding core, for every real x, every mode, every located triple *)
Theorem C01_round_pack_correct : forall md x s c e l pref zs,
  0 <= c -> inbetween_float radix10 c e (Rabs x) l ->
  (x <> 0%R -> s = Rlt_bool x 0) ->
  (e <= fexp (Zdigits radix10 c + e) \/ l = loc_Exact) ->
  let '(d, fl) := round_pack md s c e l pref zs in ieee_result md x pref zs d fl.
Proof. exact round_pack_correct. Qed.
Print Assumptions C01_round_pack_correct.

Theorem C01_add : forall md x y sx cx qx sy cy qy,
  0 <= x < P128 -> 0 <= y < P128 -> decode x = Fin sx cx qx -> decode y = Fin sy cy qy ->
  finite_result md (D2R (decode x) + D2R (decode y)) (Z.min qx qy) (zs_add md sx sy) (m_add md x y).
Proof. exact m_add_finite. Qed.
Print Assumptions C01_add.

Theorem C01_sub : forall md x y sx cx qx sy cy qy,
  0 <= x < P128 -> 0 <= y < P128 -> decode x = Fin sx cx qx -> decode y = Fin sy cy qy ->
  finite_result md (D2R (decode x) - D2R (decode y)) (Z.min qx qy) (zs_add md sx (negb sy)) (m_sub md x y).
Proof. exact m_sub_finite. Qed.
Print Assumptions C01_sub.

Theorem C01_mul : forall md x y sx cx qx sy cy qy,
  0 <= x < P128 -> 0 <= y < P128 -> decode x = Fin sx cx qx -> decode y = Fin sy cy qy ->
  finite_result md (D2R (decode x) * D2R (decode y)) (qx + qy) (xorb sx sy) (m_mul md x y).
Proof. exact m_mul_finite. Qed.
Print Assumptions C01_mul.

Theorem C01_div : forall md x y sx cx qx sy cy qy,
  0 <= x < P128 -> 0 <= y < P128 -> decode x = Fin sx cx qx -> decode y = Fin sy cy qy ->
  cx <> 0 -> cy <> 0 ->
  finite_result md (D2R (decode x) / D2R (decode y)) (qx - qy) (xorb sx sy) (m_div md x y).
Proof. exact m_div_finite. Qed.
Print Assumptions C01_div.

Theorem C01_sqrt : forall md x cx qx,
  0 <= x < P128 -> decode x = Fin false cx qx -> cx <> 0 ->
  finite_result md (sqrt (D2R (decode x))) (Z.div2 qx) false (m_sqrt md x).
Proof. exact m_sqrt_finite. Qed.
Print Assumptions C01_sqrt.

(* special operands: infinities, zero divisors, invalid operations *)
Theorem C01_add_specials : forall md s s' sy cy qy,
  add_dec md (Inf s) (Inf s') = (if Bool.eqb s s' then out1 (Inf s) 0 else invalid_out) /\
  add_dec md (Inf s) (Fin sy cy qy) = out1 (Inf s) 0 /\
  add_dec md (Fin sy cy qy) (Inf s) = out1 (Inf s) 0.
Proof. exact add_specials. Qed.
Print Assumptions C01_add_specials.

Theorem C01_sub_is_add_neg : forall md x y, is_nan (decode y) = false ->
  m_sub md x y = add_dec md (decode x) (neg_dec (decode y)).
Proof. exact m_sub_is_add_neg. Qed.
Print Assumptions C01_sub_is_add_neg.

Theorem C01_mul_specials : forall md x y,
  is_nan (decode x) = false -> is_nan (decode y) = false -> is_inf (decode x) || is_inf (decode y) = true ->
  m_mul md x y = if is_zero (decode x) || is_zero (decode y) then invalid_out
                 else out1 (Inf (xorb (sign_of (decode x)) (sign_of (decode y)))) 0.
Proof. exact mul_specials. Qed.
Print Assumptions C01_mul_specials.

Theorem C01_div_specials : forall md sx sy cx qx cy qy,
  (forall x y, decode x = Inf sx -> decode y = Inf sy -> m_div md x y = invalid_out) /\
  (forall x y, decode x = Inf sx -> decode y = Fin sy cy qy -> m_div md x y = out1 (Inf (xorb sx sy)) 0) /\
  (forall x y, decode x = Fin sx cx qx -> decode y = Inf sy -> m_div md x y = out1 (Fin (xorb sx sy) 0 qmin) 0) /\
  (forall x y, decode x = Fin sx 0 qx -> decode y = Fin sy 0 qy -> m_div md x y = invalid_out) /\
  (forall x y, decode x = Fin sx cx qx -> cx <> 0 -> decode y = Fin sy 0 qy -> m_div md x y = out1 (Inf (xorb sx sy)) F_DBZ) /\
  (forall x y, decode x = Fin sx 0 qx -> decode y = Fin sy cy qy -> cy <> 0 -> m_div md x y = out1 (Fin (xorb sx sy) 0 (clampq (qx - qy))) 0).
Proof. exact div_specials. Qed.
Print Assumptions C01_div_specials.

Theorem C01_sqrt_specials : forall md x,
  (decode x = Inf false -> m_sqrt md x = out1 (Inf false) 0) /\
  (decode x = Inf true -> m_sqrt md x = invalid_out) /\
  (forall s q, decode x = Fin s 0 q -> m_sqrt md x = out1 (Fin s 0 (Z.div2 q)) 0) /\
  (forall c q, decode x = Fin true c q -> c <> 0 -> m_sqrt md x = invalid_out).
Proof. exact sqrt_specials. Qed.
Print Assumptions C01_sqrt_specials.

(* NaN operands are handed to the common NaN rule (its content is C12's theorem nan_outcomes_spec) *)
Theorem C01_nan_operands : forall md x y z,
  (is_nan (decode x) || is_nan (decode y) = true -> m_add md x y = nan_outcomes [decode x; decode y]) /\
  (is_nan (decode x) || is_nan (decode y) = true -> m_sub md x y = nan_outcomes [decode x; decode y]) /\
  (is_nan (decode x) || is_nan (decode y) = true -> m_mul md x y = nan_outcomes [decode x; decode y]) /\
  (is_nan (decode x) || is_nan (decode y) = true -> m_div md x y = nan_outcomes [decode x; decode y]) /\
  (is_nan (decode x) = true -> m_sqrt md x = nan_outcomes [decode x]) /\
  (is_nan (decode x) || is_nan (decode y) || is_nan (decode z) = true -> m_fma md x y z = nan_outcomes [decode x; decode y; decode z]).
Proof. exact arith_nan_operands. Qed.
Print Assumptions C01_nan_operands.

(* non-vacuity: the design document's witness 1.000E-23 + -4.5E-57 under Downward is ...9995E-57, inexact *)
Example C01_witness :
  m_add RDN (encode (Fin false 1000 (-26))) (encode (Fin true 45 (-58))) =
  [([encode (Fin false 9999999999999999999999999999999995 (-57))], F_INX)].
Proof. vm_compute. reflexivity. Qed.
