(* C01 - add, sub, mul, div, sqrt correctly rounded. Statements only; proofs are in theories/. *)
From Coq Require Import ZArith Reals.
From Flocq Require Import Core.Core Calc.Bracket.
From DV Require Import Base RoundProofs.
Open Scope Z_scope.

Theorem C01_round_pack_correct : forall md x s c e l pref zs,
  0 <= c -> inbetween_float radix10 c e (Rabs x) l ->
  (x <> 0%R -> s = Rlt_bool x 0) ->
  (e <= fexp (Zdigits radix10 c + e) \/ l = loc_Exact) ->
  let '(d, fl) := round_pack md s c e l pref zs in ieee_result md x pref zs d fl.
Proof. exact round_pack_correct. Qed.
Print Assumptions C01_round_pack_correct.
