(* C01 - add, subtract, multiply, divide and square root are correctly rounded.
   Property theorems only: each is closed by [exact <lemma of theories/>] and followed by Print Assumptions.
   [ieee_result md v pref zs d fl] (theories/Base.v) is the conjunction of the IEEE 754-2008 clauses: value = Flocq's
   round radix10 (FLT_exp (-6176) 34) of the exact real v; overflow result by mode; sign; preferred exponent when exact,
   least exponent when inexact; inexact / underflow (tininess before rounding, only when inexact) / overflow flags.
   [finite_result md v pref zs l]: the accepted-outcome list l of the model is the single canonical encoding of such a datum.

   How the theorems cover the statement (properties.jsonl), sentence by sentence.
   * "For any operands (every 128-bit pattern) and each of the five rounding modes, addition, subtraction, multiplication,
     division and square root return, bit for bit, the IEEE 754-2008 decimal128 result":
     what the correspondence run executes under the names add, sub, mul, div, sqrt is [expected OAdd md [x; y]] etc.;
     [C01_dispatch] says these are the lists m_add md x y, ... of accepted (bits, raised flags) pairs that the theorems
     below talk about. Finite operands: [C01_add], [C01_sub], [C01_mul], [C01_div], [C01_sqrt] (all md, all patterns,
     non-canonical ones included: [decode] maps them to the zero they denote). Infinite operands, zero divisors, invalid
     operations: [C01_add_specials], [C01_sub_is_add_neg], [C01_mul_specials], [C01_div_specials], [C01_sqrt_specials].
     NaN operands: [C01_nan_operands] (the common NaN rule; its content is C12).
   * "the exact mathematical value rounded once in the requested direction": the first clause of [ieee_result] with
     v = x + y, x - y, x * y, x / y, sqrt x as real numbers (Flocq's [round] of v itself: one rounding);
     [C01_round_pack_correct] is the rounding core for every real, every mode, every located triple.
   * "encoded with the preferred quantum exponent (exact results) or the least possible exponent (inexact results)":
     the [pref] argument of [finite_result]: min(qx, qy) for add/sub, qx + qy for mul, qx - qy for div, floor(qx / 2) for
     sqrt, and the exponent clauses of [ieee_result]; the list holds ONE pattern, the canonical encoding.
   * "the standard's sign-of-zero ... rules": the [zs] argument ([zs_add md sx sy]: equal signs keep it, otherwise +0,
     -0 under roundTowardNegative; xor of the signs for mul/div; sqrt(-0) = -0 in [C01_sqrt_specials]).
   * "overflow (Inf or largest finite by mode), gradual-underflow and exponent-clamping rules": clauses of [ieee_result]
     (theories/Base.v; SpecProofs.v shows they determine the datum); witnesses [C01_ex_overflow], [C01_ex_underflow],
     [C01_ex_clamp] below.
   * "The status bits newly raised are exactly inexact / overflow / underflow (tininess before rounding, only when
     inexact) / division-by-zero / invalid as the standard prescribes": the flag component of each outcome: [flbits fl]
     with the flag clauses of [ieee_result] (nothing else is set: [flbits] has only these three bits); F_DBZ exactly for
     finite non-zero / zero ([C01_div_specials]); F_INV exactly in [invalid_out] (Inf - Inf, 0 * Inf, 0/0, Inf/Inf,
     sqrt of a negative) and for signaling NaN operands (C12). That bits already set on entry stay set is C14.
   * "and the operator forms (+ - * / and their assign variants, Sum, Product) equal the method forms under
     round-half-even": [C01_operators_are_RNE] (with [C01_operators_explicit], [C01_operators_mode_independent],
     [C01_opneg]): the expectation of the operator form "op+", "op-", "op*", "op/" (five observed forms: a+b, &a+&b,
     a mixed form, a+=b, a+=&b) is the outcome list of the METHOD form at RNE with every value repeated five times and the
     flag component 0 - the operators have no status word - whatever mode word accompanies the case.
     [C01_sum_spec] / [C01_product_spec]: the values accepted for iter().sum() / iter().product() (over values and over
     references: two copies) are exactly those reachable by folding the RNE method form over the list from +0E+0 / +1E+0,
     left to right ([fold_rel], [C01_fold_rel_unfold]); at each step any accepted value of the step may be taken - only
     NaN propagation with two NaNs offers a choice ([C01_sum_product_single]: no NaN element -> one accepted value).
     [C01_sum_product_small]: Sum [] = +0E+0, Product [] = +1E+0, Sum [x] = 0 + x, Product [x] = 1 * x
     (so Sum [-0] = +0: [C01_ex_sum_neg_zero]).
   Not covered here: the Rust code itself (correspondence run); the content of the NaN rule (C12); the status word on
   entry (C14); "tininess after rounding" does not exist for decimal. The remainder operator % is judged by the same
   OOpArith clause against [rem_dec] (C13's subject), not mentioned in C01's statement.
   All theorems that do not mention real numbers are axiom-free. *)
From Coq Require Import ZArith Reals Bool List.
From Flocq Require Import Core.Core Calc.Bracket.
From DV Require Import Base RoundProofs Bid BidProofs Arith ArithProofs OpsArith OpsArithProofs OpsMisc Judge Status DispatchProofs.
Import ListNotations.
Open Scope Z_scope.

(* the rounding core, for every real x, every mode, every located triple *)
Theorem C01_round_pack_correct : forall md x s c e l pref zs,
  0 <= c -> inbetween_float radix10 c e (Rabs x) l ->
  (x <> 0%R -> s = Rlt_bool x 0) ->
  (e <= fexp (Zdigits radix10 c + e) \/ l = loc_Exact) ->
  let '(d, fl) := round_pack md s c e l pref zs in ieee_result md x pref zs d fl.
Proof. exact round_pack_correct. Qed.
Print Assumptions C01_round_pack_correct.

Theorem C01_add : forall md x y sx cx qx sy cy qy,
  0 <= x < P128 -> 0 <= y < P128 -> decode x = Fin sx cx qx -> decode y = Fin sy cy qy ->
  finite_result md (D2R (decode x) + D2R (decode y)) (Z.min qx qy) (zs_add md sx sy) (m_add md x y).
Proof. exact m_add_finite. Qed.
Print Assumptions C01_add.

Theorem C01_sub : forall md x y sx cx qx sy cy qy,
  0 <= x < P128 -> 0 <= y < P128 -> decode x = Fin sx cx qx -> decode y = Fin sy cy qy ->
  finite_result md (D2R (decode x) - D2R (decode y)) (Z.min qx qy) (zs_add md sx (negb sy)) (m_sub md x y).
Proof. exact m_sub_finite. Qed.
Print Assumptions C01_sub.

Theorem C01_mul : forall md x y sx cx qx sy cy qy,
  0 <= x < P128 -> 0 <= y < P128 -> decode x = Fin sx cx qx -> decode y = Fin sy cy qy ->
  finite_result md (D2R (decode x) * D2R (decode y)) (qx + qy) (xorb sx sy) (m_mul md x y).
Proof. exact m_mul_finite. Qed.
Print Assumptions C01_mul.

Theorem C01_div : forall md x y sx cx qx sy cy qy,
  0 <= x < P128 -> 0 <= y < P128 -> decode x = Fin sx cx qx -> decode y = Fin sy cy qy ->
  cx <> 0 -> cy <> 0 ->
  finite_result md (D2R (decode x) / D2R (decode y)) (qx - qy) (xorb sx sy) (m_div md x y).
Proof. exact m_div_finite. Qed.
Print Assumptions C01_div.

Theorem C01_sqrt : forall md x cx qx,
  0 <= x < P128 -> decode x = Fin false cx qx -> cx <> 0 ->
  finite_result md (sqrt (D2R (decode x))) (Z.div2 qx) false (m_sqrt md x).
Proof. exact m_sqrt_finite. Qed.
Print Assumptions C01_sqrt.

(* special operands: infinities, zero divisors, invalid operations *)
Theorem C01_add_specials : forall md s s' sy cy qy,
  add_dec md (Inf s) (Inf s') = (if Bool.eqb s s' then out1 (Inf s) 0 else invalid_out) /\
  add_dec md (Inf s) (Fin sy cy qy) = out1 (Inf s) 0 /\
  add_dec md (Fin sy cy qy) (Inf s) = out1 (Inf s) 0.
Proof. exact add_specials. Qed.
Print Assumptions C01_add_specials.

Theorem C01_sub_is_add_neg : forall md x y, is_nan (decode y) = false ->
  m_sub md x y = add_dec md (decode x) (neg_dec (decode y)).
Proof. exact m_sub_is_add_neg. Qed.
Print Assumptions C01_sub_is_add_neg.

Theorem C01_mul_specials : forall md x y,
  is_nan (decode x) = false -> is_nan (decode y) = false -> is_inf (decode x) || is_inf (decode y) = true ->
  m_mul md x y = if is_zero (decode x) || is_zero (decode y) then invalid_out
                 else out1 (Inf (xorb (sign_of (decode x)) (sign_of (decode y)))) 0.
Proof. exact mul_specials. Qed.
Print Assumptions C01_mul_specials.

Theorem C01_div_specials : forall md sx sy cx qx cy qy,
  (forall x y, decode x = Inf sx -> decode y = Inf sy -> m_div md x y = invalid_out) /\
  (forall x y, decode x = Inf sx -> decode y = Fin sy cy qy -> m_div md x y = out1 (Inf (xorb sx sy)) 0) /\
  (forall x y, decode x = Fin sx cx qx -> decode y = Inf sy -> m_div md x y = out1 (Fin (xorb sx sy) 0 qmin) 0) /\
  (forall x y, decode x = Fin sx 0 qx -> decode y = Fin sy 0 qy -> m_div md x y = invalid_out) /\
  (forall x y, decode x = Fin sx cx qx -> cx <> 0 -> decode y = Fin sy 0 qy -> m_div md x y = out1 (Inf (xorb sx sy)) F_DBZ) /\
  (forall x y, decode x = Fin sx 0 qx -> decode y = Fin sy cy qy -> cy <> 0 -> m_div md x y = out1 (Fin (xorb sx sy) 0 (clampq (qx - qy))) 0).
Proof. exact div_specials. Qed.
Print Assumptions C01_div_specials.

Theorem C01_sqrt_specials : forall md x,
  (decode x = Inf false -> m_sqrt md x = out1 (Inf false) 0) /\
  (decode x = Inf true -> m_sqrt md x = invalid_out) /\
  (forall s q, decode x = Fin s 0 q -> m_sqrt md x = out1 (Fin s 0 (Z.div2 q)) 0) /\
  (forall c q, decode x = Fin true c q -> c <> 0 -> m_sqrt md x = invalid_out).
Proof. exact sqrt_specials. Qed.
Print Assumptions C01_sqrt_specials.

(* NaN operands are handed to the common NaN rule (its content is C12's theorem nan_outcomes_spec) *)
Theorem C01_nan_operands : forall md x y z,
  (is_nan (decode x) || is_nan (decode y) = true -> m_add md x y = nan_outcomes [decode x; decode y]) /\
  (is_nan (decode x) || is_nan (decode y) = true -> m_sub md x y = nan_outcomes [decode x; decode y]) /\
  (is_nan (decode x) || is_nan (decode y) = true -> m_mul md x y = nan_outcomes [decode x; decode y]) /\
  (is_nan (decode x) || is_nan (decode y) = true -> m_div md x y = nan_outcomes [decode x; decode y]) /\
  (is_nan (decode x) = true -> m_sqrt md x = nan_outcomes [decode x]) /\
  (is_nan (decode x) || is_nan (decode y) || is_nan (decode z) = true -> m_fma md x y z = nan_outcomes [decode x; decode y; decode z]).
Proof. exact arith_nan_operands. Qed.
Print Assumptions C01_nan_operands.

(* ---------- dispatch: what is executed under the names add, sub, mul, div, sqrt ---------- *)
Theorem C01_dispatch : forall md x y,
  expected OAdd md [x; y] = Exact (m_add md x y) /\
  expected OSub md [x; y] = Exact (m_sub md x y) /\
  expected OMul md [x; y] = Exact (m_mul md x y) /\
  expected ODiv md [x; y] = Exact (m_div md x y) /\
  expected OSqrt md [x] = Exact (m_sqrt md x).
Proof. exact dispatch_arith. Qed.
Print Assumptions C01_dispatch.

(* ---------- operator forms ---------- *)
(* [five oc] = (the value list of oc repeated five times, 0);  [binary_arith o]: o is OAdd, OSub, OMul or ODiv.
   l is the method form's list of accepted outcomes under round-half-even; md is whatever mode word the case carries. *)
Theorem C01_operators_are_RNE : forall o md x y l, binary_arith o -> expected o RNE [x; y] = Exact l ->
  expected (OOpArith o) md [x; y] = Exact (map five l) /\
  (forall outs fl, acc (expected (OOpArith o) md [x; y]) outs fl = 1 <->
                   fl = 0 /\ exists v f, In ([v], f) l /\ outs = [v; v; v; v; v]).
Proof. exact operators_are_RNE. Qed.
Print Assumptions C01_operators_are_RNE.

Theorem C01_operators_explicit : forall md x y,
  expected (OOpArith OAdd) md [x; y] = Exact (map five (m_add RNE x y)) /\
  expected (OOpArith OSub) md [x; y] = Exact (map five (m_sub RNE x y)) /\
  expected (OOpArith OMul) md [x; y] = Exact (map five (m_mul RNE x y)) /\
  expected (OOpArith ODiv) md [x; y] = Exact (map five (m_div RNE x y)).
Proof. exact operators_explicit. Qed.
Print Assumptions C01_operators_explicit.

Theorem C01_operators_mode_independent : forall o md md' x y,
  expected (OOpArith o) md [x; y] = expected (OOpArith o) md' [x; y].
Proof. exact operators_mode_independent. Qed.
Print Assumptions C01_operators_mode_independent.

Theorem C01_opneg : forall md x,
  expected OOpNeg md [x] = Exact (map (fun oc => (concat (repeat (fst oc) 2), 0)) (m_neg x)).
Proof. exact opneg_spec. Qed.
Print Assumptions C01_opneg.

(* ---------- Sum and Product ---------- *)
(* [fold_rel o a l v] (theories/DispatchProofs.v): v is reachable from the accumulator a by folding o (method form, RNE) over
   l from the left, taking at each step any accepted value; unfolded for + and * by the next theorem *)
Theorem C01_fold_rel_unfold : forall a x r v,
  (fold_rel OAdd a [] v <-> v = a) /\ (fold_rel OMul a [] v <-> v = a) /\
  (fold_rel OAdd a (x :: r) v <-> exists a' f, In ([a'], f) (m_add RNE a x) /\ fold_rel OAdd a' r v) /\
  (fold_rel OMul a (x :: r) v <-> exists a' f, In ([a'], f) (m_mul RNE a x) /\ fold_rel OMul a' r v).
Proof. exact fold_rel_unfold. Qed.
Print Assumptions C01_fold_rel_unfold.

Theorem C01_fold_ops_spec : forall o args accs v,
  In v (fold_ops o accs args) <-> exists a, In a accs /\ fold_rel o a args v.
Proof. exact fold_ops_spec. Qed.
Print Assumptions C01_fold_ops_spec.

Theorem C01_sum_spec : forall md l,
  (exists vs, expected OSum md l = Exact (map (fun v => ([v; v], 0)) vs) /\
              forall v, In v vs <-> fold_rel OAdd (encode (Fin false 0 0)) l v) /\
  (forall outs fl, acc (expected OSum md l) outs fl = 1 <->
                   fl = 0 /\ exists v, outs = [v; v] /\ fold_rel OAdd (encode (Fin false 0 0)) l v).
Proof. exact sum_spec. Qed.
Print Assumptions C01_sum_spec.

Theorem C01_product_spec : forall md l,
  (exists vs, expected OProduct md l = Exact (map (fun v => ([v; v], 0)) vs) /\
              forall v, In v vs <-> fold_rel OMul (encode (Fin false 1 0)) l v) /\
  (forall outs fl, acc (expected OProduct md l) outs fl = 1 <->
                   fl = 0 /\ exists v, outs = [v; v] /\ fold_rel OMul (encode (Fin false 1 0)) l v).
Proof. exact product_spec. Qed.
Print Assumptions C01_product_spec.

Theorem C01_sum_product_small : forall md x,
  expected OSum md [] = Exact [([encode (Fin false 0 0); encode (Fin false 0 0)], 0)] /\
  expected OProduct md [] = Exact [([encode (Fin false 1 0); encode (Fin false 1 0)], 0)] /\
  (forall v, fold_rel OAdd (encode (Fin false 0 0)) [x] v <-> exists f, In ([v], f) (m_add RNE (encode (Fin false 0 0)) x)) /\
  (forall v, fold_rel OMul (encode (Fin false 1 0)) [x] v <-> exists f, In ([v], f) (m_mul RNE (encode (Fin false 1 0)) x)).
Proof. exact sum_product_small. Qed.
Print Assumptions C01_sum_product_small.

Theorem C01_sum_product_single : forall md l, Forall (fun x => is_nan (decode x) = false) l ->
  (exists v, expected OSum md l = Exact [([v; v], 0)]) /\ (exists v, expected OProduct md l = Exact [([v; v], 0)]).
Proof. exact sum_product_single. Qed.
Print Assumptions C01_sum_product_single.

(* non-vacuity: the design document's witness 1.000E-23 + -4.5E-57 under Downward is ...9995E-57, inexact *)
Example C01_witness :
  m_add RDN (encode (Fin false 1000 (-26))) (encode (Fin true 45 (-58))) =
  [([encode (Fin false 9999999999999999999999999999999995 (-57))], F_INX)].
Proof. vm_compute. reflexivity. Qed.

(* overflow: MAX * 10 is +Inf under nearest-even, the largest finite number under toward-zero; -MAX * 10 under downward is
   -Inf; -MAX + -MAX under upward is -MAX; always overflow + inexact (8 + 32) *)
Definition ex_max := encode (Fin false MAXC qmax).
Definition ex_nmax := encode (Fin true MAXC qmax).
Example C01_ex_overflow :
  m_mul RNE ex_max (encode (Fin false 10 0)) = [([encode (Inf false)], F_OVF + F_INX)] /\
  m_mul RTZ ex_max (encode (Fin false 10 0)) = [([ex_max], F_OVF + F_INX)] /\
  m_mul RDN ex_nmax (encode (Fin false 10 0)) = [([encode (Inf true)], F_OVF + F_INX)] /\
  m_add RNE ex_max ex_max = [([encode (Inf false)], F_OVF + F_INX)] /\
  m_add RUP ex_nmax ex_nmax = [([ex_nmax], F_OVF + F_INX)].
Proof. vm_compute. repeat split; reflexivity. Qed.
(* gradual underflow: 1234567E-6176 * 1E-3 rounds to 1235E-6176 with underflow + inexact (16 + 32); an exact subnormal
   result raises nothing (1000E-6176 * 1E-3 = 1E-6176; 1E-6176 + 1E-6176 = 2E-6176); half the least subnormal rounds to
   zero under nearest-even, 0.51 of it to 1E-6176; upward never rounds a positive tiny value to zero *)
Example C01_ex_underflow :
  m_mul RNE (encode (Fin false 1234567 (-6176))) (encode (Fin false 1 (-3))) = [([encode (Fin false 1235 (-6176))], F_UNF + F_INX)] /\
  m_mul RNE (encode (Fin false 1000 (-6176))) (encode (Fin false 1 (-3))) = [([encode (Fin false 1 (-6176))], 0)] /\
  m_add RNE (encode (Fin false 1 (-6176))) (encode (Fin false 1 (-6176))) = [([encode (Fin false 2 (-6176))], 0)] /\
  m_mul RNE (encode (Fin false 1 (-6176))) (encode (Fin false 5 (-1))) = [([encode (Fin false 0 (-6176))], F_UNF + F_INX)] /\
  m_mul RNE (encode (Fin false 1 (-6176))) (encode (Fin false 51 (-2))) = [([encode (Fin false 1 (-6176))], F_UNF + F_INX)] /\
  m_mul RUP (encode (Fin false 1 (-6176))) (encode (Fin false 1 (-40))) = [([encode (Fin false 1 (-6176))], F_UNF + F_INX)].
Proof. vm_compute. repeat split; reflexivity. Qed.
(* clamping: 1E+6111 * 1E+10 has the preferred exponent 6121 > 6111: the coefficient is padded, 10000000000E+6111, exact, no
   flag; zeros are clamped at both ends; 1E+6111 * 1E+34 no longer fits: overflow *)
Example C01_ex_clamp :
  m_mul RNE (encode (Fin false 1 6111)) (encode (Fin false 1 10)) = [([encode (Fin false 10000000000 6111)], 0)] /\
  m_mul RNE (encode (Fin false 0 6111)) (encode (Fin false 1 10)) = [([encode (Fin false 0 6111)], 0)] /\
  m_mul RNE (encode (Fin false 0 (-6176))) (encode (Fin false 1 (-10))) = [([encode (Fin false 0 (-6176))], 0)] /\
  m_add RNE (encode (Fin false 1 6111)) (encode (Fin false 0 6111)) = [([encode (Fin false 1 6111)], 0)] /\
  m_mul RNE (encode (Fin false 1 6111)) (encode (Fin false 1 34)) = [([encode (Inf false)], F_OVF + F_INX)].
Proof. vm_compute. repeat split; reflexivity. Qed.

(* operator forms: 2 / 3 under Downward is 0.666...6 (method form), but the operator a / b in a case that carries the mode
   word Downward is judged against nearest-even, 0.666...7, five times, no flag *)
Example C01_ex_operator :
  expected ODiv RDN [encode (Fin false 2 0); encode (Fin false 3 0)] =
    Exact [([encode (Fin false 6666666666666666666666666666666666 (-34))], F_INX)] /\
  expected ODiv RNE [encode (Fin false 2 0); encode (Fin false 3 0)] =
    Exact [([encode (Fin false 6666666666666666666666666666666667 (-34))], F_INX)] /\
  expected (OOpArith ODiv) RDN [encode (Fin false 2 0); encode (Fin false 3 0)] =
    Exact [(repeat (encode (Fin false 6666666666666666666666666666666667 (-34))) 5, 0)].
Proof. vm_compute. repeat split; reflexivity. Qed.
Example C01_ex_operator_hyps : binary_arith ODiv /\ exists l, expected ODiv RNE [encode (Fin false 2 0); encode (Fin false 3 0)] = Exact l.
Proof. split; [right; right; right; reflexivity|eexists; reflexivity]. Qed.
(* Sum [-0] = +0 (0 + -0 under nearest-even), whereas Product [-0] = -0 (1 * -0) *)
Example C01_ex_sum_neg_zero :
  expected OSum RNE [encode (Fin true 0 0)] = Exact [([encode (Fin false 0 0); encode (Fin false 0 0)], 0)] /\
  expected OProduct RNE [encode (Fin true 0 0)] = Exact [([encode (Fin true 0 0); encode (Fin true 0 0)], 0)].
Proof. vm_compute. split; reflexivity. Qed.
(* sums are folded left to right with a rounding at every step: (1E+34 + 1) + -1E+34 = 0E+1 but 1 + (1E+34 + -1E+34) = 1:
   Sum [1E+34; 1; -1E+34] = +0E+1, Sum [1E+34; -1E+34; 1] = 1 *)
Example C01_ex_sum_order :
  expected OSum RNE [encode (Fin false 1 34); encode (Fin false 1 0); encode (Fin true 1 34)] =
    Exact [([encode (Fin false 0 1); encode (Fin false 0 1)], 0)] /\
  expected OSum RNE [encode (Fin false 1 34); encode (Fin true 1 34); encode (Fin false 1 0)] =
    Exact [([encode (Fin false 1 0); encode (Fin false 1 0)], 0)].
Proof. vm_compute. split; reflexivity. Qed.
(* two NaNs in a sum: either may be the propagated one; hypothesis of C01_sum_product_single is satisfiable by [1; 2] *)
Example C01_ex_sum_two_nans :
  expected OSum RNE [encode (NaN false false 1); encode (NaN false false 2)] =
    Exact [([encode (NaN false false 1); encode (NaN false false 1)], 0); ([encode (NaN false false 2); encode (NaN false false 2)], 0)] /\
  Forall (fun x => is_nan (decode x) = false) [encode (Fin false 1 0); encode (Fin false 2 0)].
Proof. split; [vm_compute; reflexivity|repeat constructor]. Qed.
