(* C09 - quantize, quantum and quantum-exponent queries manipulate exactly the quantum.

   How the theorems cover the property text (all patterns 0 <= x, y < 2^128, all five modes):
   * "For finite x and y, quantize(x, y) has exactly y's quantum exponent and the value of x rounded to that quantum in the
     requested mode, raising inexact exactly when the value changed, or is a quiet NaN with invalid when the result would
     need more than 34 digits": [C09_quantize_spec], finite/finite case.  With v = D2R (decode x), t = v / 10^qy (written
     v * bpow (-qy)), n = rnd_of md t (Flocq's ZnearestE / Zfloor / Zceil / Ztrunc / ZnearestA) and c = |n|:
     if c < 10^34 the single outcome is the encoding of the well-formed datum Fin sx c qy - exponent exactly qy, sign of
     x also on a zero result, cond_Zopp sx c = n so its value is n * 10^qy - with flag 0 or F_INX, and F_INX iff
     IZR n <> t iff the result value differs from v iff c * 10^qy <> |v| (three equivalent readings, all proved);
     if c >= 10^34 the single outcome is [invalid_out] = default quiet NaN + invalid ([C09_invalid_out]).  This includes
     the zero operand (c = 0), the exact up-scaling branch qy <= qx with its "34 < qx - qy" shortcut, and the rounding
     branch with the far-below-one shortcut of div_loc.
   * "or exactly one operand is infinite (two infinities give the infinity of x)": the Inf cases of [C09_quantize_spec];
     any NaN operand: the common NaN rule (C12).
   * "same_quantum, quantum, quantexp and llquantexp report exactly the operand's quantum exponent (10^e for quantum,
     invalid and the indefinite integer for non-finite operands)": [C09_quantexp_spec], [C09_llquantexp_spec] (result
     word = two's complement of the exponent q of [decode x], for every finite pattern - [decode] is total on the 2^128
     patterns, and [C09_decode_exponent_field] spells out which bit field q is read from in the ordinary and in the
     "11" (large-coefficient, always non-canonical) form; a non-canonical coefficient >= 10^34 in the ordinary form
     changes the coefficient to 0 but not q; NaN/Inf: invalid and the word 2^31 resp. 2^63 = the most negative integer),
     [C09_quantum_spec] + [C09_quantum_value] (finite: +1 * 10^q, canonical; Inf of either sign: +Inf; NaN: EAny, i.e. the
     property fixes nothing), [C09_same_quantum_spec] (true iff both NaN, or both infinite, or both finite with equal
     exponents; never a flag).
   * "so same_quantum(quantize(x, y), y) is always true when the result is finite": [C09_quantize_same_quantum], for
     every accepted outcome of quantize (also for NaN/Inf operands, where the result is never finite).
   * [C09_dispatch]: the Judge's entry points are these model functions.

   Not covered here: which NaN is returned for NaN operands (C12). *)
From Coq Require Import ZArith Reals Bool List.
From Flocq Require Import Core.Core.
From DV Require Import Base Bid BidProofs Arith OpsArith OpsCmp OpsMisc OpsConv OpsStr Judge IntRoundProofs.
Import ListNotations.
Open Scope Z_scope.

Theorem C09_dispatch : forall md x y,
  expected OQuantize md [x; y] = Exact (m_quantize md x y) /\
  expected OQuantexp md [x] = Exact (m_quantexp x) /\
  expected OLlquantexp md [x] = Exact (m_llquantexp x) /\
  expected OQuantum md [x] = of_kind (m_quantum x) /\
  expected OSameQuantum md [x; y] = Exact (m_same_quantum x y).
Proof. exact dispatch_C09. Qed.
Print Assumptions C09_dispatch.

Theorem C09_quantize_spec : forall md x y, 0 <= x < P128 -> 0 <= y < P128 ->
  match decode x, decode y with
  | Fin sx cx qx, Fin sy cy qy =>
      let v := D2R (decode x) in
      let t := (v * bpow radix10 (- qy))%R in
      let n := rnd_of md t in let c := Z.abs n in
      cond_Zopp sx c = n /\
      (c < T34 -> exists fl, m_quantize md x y = out1 (Fin sx c qy) fl /\ wf (Fin sx c qy) /\ (fl = 0 \/ fl = F_INX) /\
            (fl = F_INX <-> IZR n <> t) /\
            (fl = F_INX <-> D2R (Fin sx c qy) <> v) /\
            (fl = F_INX <-> (IZR c * bpow radix10 qy <> Rabs v)%R)) /\
      (T34 <= c -> m_quantize md x y = invalid_out)
  | Inf sx, Inf _ => m_quantize md x y = out1 (Inf sx) 0
  | Inf _, Fin _ _ _ => m_quantize md x y = invalid_out
  | Fin _ _ _, Inf _ => m_quantize md x y = invalid_out
  | _, _ => m_quantize md x y = nan_outcomes [decode x; decode y]
  end.
Proof. exact quantize_spec_proof. Qed.
Print Assumptions C09_quantize_spec.

Theorem C09_invalid_out :
  invalid_out = [([encode (NaN false false 0)], F_INV)] /\ decode (encode (NaN false false 0)) = NaN false false 0.
Proof. exact invalid_out_val. Qed.
Print Assumptions C09_invalid_out.

Theorem C09_quantize_same_quantum : forall md x y outs fl, 0 <= x < P128 -> 0 <= y < P128 ->
  In (outs, fl) (m_quantize md x y) ->
  exists r, outs = [r] /\ canonical_bits r = true /\ (is_fin (decode r) = true -> m_same_quantum r y = [([1], 0)]).
Proof. exact quantize_same_quantum_proof. Qed.
Print Assumptions C09_quantize_same_quantum.

Theorem C09_quantexp_spec : forall x, 0 <= x < P128 ->
  match decode x with
  | Fin _ _ q => m_quantexp x = [([q mod 2 ^ 32], 0)] /\ sint 32 (q mod 2 ^ 32) = q
  | _ => m_quantexp x = [([2 ^ 31], F_INV)] /\ sint 32 (2 ^ 31) = - 2 ^ 31
  end.
Proof. exact quantexp_spec_proof. Qed.
Print Assumptions C09_quantexp_spec.

Theorem C09_llquantexp_spec : forall x, 0 <= x < P128 ->
  match decode x with
  | Fin _ _ q => m_llquantexp x = [([q mod 2 ^ 64], 0)] /\ sint 64 (q mod 2 ^ 64) = q
  | _ => m_llquantexp x = [([2 ^ 63], F_INV)] /\ sint 64 (2 ^ 63) = - 2 ^ 63
  end.
Proof. exact llquantexp_spec_proof. Qed.
Print Assumptions C09_llquantexp_spec.

Theorem C09_decode_exponent_field : forall x s c q, decode x = Fin s c q ->
  let r := x mod P127 in
  q = (if 24 <=? r / P122 then (r / P111) mod 16384 else r / P113) - 6176.
Proof. exact decode_exponent_field_proof. Qed.
Print Assumptions C09_decode_exponent_field.

Theorem C09_quantum_spec : forall x, 0 <= x < P128 ->
  match decode x with
  | Fin _ _ q => m_quantum x = EList [([encode (Fin false 1 q)], 0)] /\ decode (encode (Fin false 1 q)) = Fin false 1 q /\
                 canonical_bits (encode (Fin false 1 q)) = true
  | Inf _ => m_quantum x = EList [([encode (Inf false)], 0)] /\ decode (encode (Inf false)) = Inf false
  | NaN _ _ _ => m_quantum x = EAny
  end.
Proof. exact quantum_spec_proof. Qed.
Print Assumptions C09_quantum_spec.

Theorem C09_quantum_value : forall q, D2R (Fin false 1 q) = bpow radix10 q.
Proof. exact quantum_value_proof. Qed.
Print Assumptions C09_quantum_value.

Theorem C09_same_quantum_spec : forall x y,
  exists b, m_same_quantum x y = [([b2z b], 0)] /\
    (b = true <-> (is_nan (decode x) = true /\ is_nan (decode y) = true) \/
                  (is_inf (decode x) = true /\ is_inf (decode y) = true) \/
                  (exists sx cx sy cy q, decode x = Fin sx cx q /\ decode y = Fin sy cy q)).
Proof. exact same_quantum_spec_proof. Qed.
Print Assumptions C09_same_quantum_spec.

(* ---------- non-vacuity witnesses ---------- *)
(* quantize 1.2345 to the quantum of 0.01 under RNE: 1.23, inexact; 1.235 is a tie: 1.24; -1.235 under the five modes *)
Example C09_w_quantize :
  (m_quantize RNE (encode (Fin false 12345 (-4))) (encode (Fin false 1 (-2))),
   m_quantize RNE (encode (Fin false 1235 (-3))) (encode (Fin true 777 (-2))),
   map (fun md => m_quantize md (encode (Fin true 1235 (-3))) (encode (Fin false 1 (-2)))) [RNE; RDN; RUP; RTZ; RNA]) =
  (out1 (Fin false 123 (-2)) F_INX, out1 (Fin false 124 (-2)) F_INX,
   [out1 (Fin true 124 (-2)) F_INX; out1 (Fin true 124 (-2)) F_INX; out1 (Fin true 123 (-2)) F_INX; out1 (Fin true 123 (-2)) F_INX; out1 (Fin true 124 (-2)) F_INX]).
Proof. vm_compute. reflexivity. Qed.
(* exact cases: 1.20 -> 1.2 (no flag), 7 -> 7.000 (up-scaling), -0 keeps its sign and takes y's exponent *)
Example C09_w_exact :
  (m_quantize RNE (encode (Fin false 120 (-2))) (encode (Fin false 1 (-1))),
   m_quantize RNE (encode (Fin false 7 0)) (encode (Fin false 1 (-3))),
   m_quantize RNE (encode (Fin true 0 5)) (encode (Fin false 1 (-3)))) =
  (out1 (Fin false 12 (-1)) 0, out1 (Fin false 7000 (-3)) 0, out1 (Fin true 0 (-3)) 0).
Proof. vm_compute. reflexivity. Qed.
(* more than 34 digits: 1 -> quantum 1E-34 needs 35 digits; 9E+40 -> quantum 1 hits the 34 < qx - qy shortcut;
   33 nines and a 5 to one digit less rounds up to 10^33 (fine); Inf/Inf, Inf/finite, finite/Inf *)
Example C09_w_invalid :
  (m_quantize RNE (encode (Fin false 1 0)) (encode (Fin false 1 (-34))),
   m_quantize RNE (encode (Fin false 9 40)) (encode (Fin false 1 0)),
   m_quantize RNE (encode (Fin false (10 ^ 34 - 5) 0)) (encode (Fin false 1 1)),
   m_quantize RNE (encode (Inf true)) (encode (Inf false)),
   m_quantize RNE (encode (Inf true)) (encode (Fin false 1 0)),
   m_quantize RNE (encode (Fin false 1 0)) (encode (Inf true))) =
  (invalid_out, invalid_out, out1 (Fin false (10 ^ 33) 1) F_INX, out1 (Inf true) 0, invalid_out, invalid_out).
Proof. vm_compute. reflexivity. Qed.
(* 1E-60 to quantum 1: far-below-one shortcut *)
Example C09_w_tiny :
  (m_quantize RUP (encode (Fin false 1 (-60))) (encode (Fin false 1 0)), m_quantize RNE (encode (Fin false 1 (-60))) (encode (Fin false 1 0))) =
  (out1 (Fin false 1 0) F_INX, out1 (Fin false 0 0) F_INX).
Proof. vm_compute. reflexivity. Qed.
(* queries: canonical 1E-3; the non-canonical "11" form with exponent field 7 (pattern 3*2^125 + 7*2^111); NaN; Inf *)
Example C09_w_queries :
  (m_quantexp (encode (Fin false 1 (-3))), m_llquantexp (encode (Fin true 5 (-6176))),
   m_quantexp (3 * P125 + 7 * P111), m_quantexp (encode (NaN false false 0)), m_llquantexp (encode (Inf true)),
   m_quantum (encode (Fin true 123 (-2))), m_quantum (encode (Inf true)),
   m_same_quantum (encode (Fin true 123 (-2))) (encode (Fin false 0 (-2))), m_same_quantum (encode (Inf true)) (encode (Fin false 0 (-2)))) =
  ([([2 ^ 32 - 3], 0)], [([2 ^ 64 - 6176], 0)], [([2 ^ 32 + 7 - 6176], 0)], [([2 ^ 31], F_INV)], [([2 ^ 63], F_INV)],
   EList (out1 (Fin false 1 (-2)) 0), EList (out1 (Inf false) 0), [([1], 0)], [([0], 0)]).
Proof. vm_compute. reflexivity. Qed.
