(* C16 - min/max return an operand chosen by exact order; numbers beat quiet NaNs.
   Property theorems only: each is closed by [exact <lemma of theories/CmpProofs.v>] and followed by Print Assumptions.
   The model [m_minmax k x y] (k = MinNum | MaxNum | MinMag | MaxMag) returns the *list of accepted outcomes*
   (output bits, raised flags); the implementation is accepted when its outcome is in the list.

   How the theorems cover the statement.
   * "For non-NaN operands ... return one of the two operands in canonical form ... and raise no flag":
     [C16_operand_canonical]: every accepted outcome has flag word 0 and a single output b with b = encode (decode x) or
     b = encode (decode y), b is a canonical pattern and decodes to the same datum as the operand (so non-canonical
     inputs come back canonicalised, sign of zero and quantum preserved).
   * "chosen by the exact order of the values (of the magnitudes for the _mag forms, falling back to the signed order
     when magnitudes are equal)": [C16_numbers]: the accepted outcomes are *exactly* the operands that are preferred,
     [mm_pref k d d'] meaning d <= d' (minima) / d >= d' (maxima) in the order [mm_rel k]: the order [spec_rel] of the
     extended reals (C03: D2R for finite data, +-Inf top/bottom) for MinNum/MaxNum, and for the _mag kinds that order
     on [abs_dec] of the operands, replaced by the signed order when the magnitudes are equal.
     [C16_finite_value] spells it out with Rmin / Rmax for finite operands: the value of the result is
     Rmin (Rmax) of the two values; for the _mag kinds the magnitude of the result is Rmin (Rmax) of the magnitudes
     and, when the magnitudes are equal, the value is Rmin (Rmax) of the signed values.
   * "when the values compare equal the result is still one of the operands": [C16_equal_both]: if the operands
     compare equal (same value, any quantum, any zero sign) the accepted outcomes are both operands, for all four kinds.
     [C16_commutes]: swapping the operands does not change the accepted set.
   * "With exactly one quiet NaN operand the other operand is returned" [C16_one_qnan] (either position; flag 0;
     canonical encoding of the other operand); "two quiet NaNs give a quiet NaN" [C16_two_qnan] (one of the two
     payloads, canonicalised by decode, quiet, flag 0 - which of the two is left open, as in C12);
     "any signaling NaN gives a quiet NaN with invalid" [C16_snan] (a NaN operand, quieted, F_INV; this includes
     sNaN with a number: the only NaN operand is returned quieted).
   * [C16_nonempty]: the accepted list is never empty, for all inputs.
   Axioms: [C16_numbers] and [C16_finite_value] speak about real numbers (Flocq/Reals axioms); all others are axiom-free.
   Not covered: nothing of the statement is left out as far as the model goes; which of two equal-valued operands
   (or of two NaNs) the implementation returns is deliberately left open by the property. *)
From Coq Require Import ZArith Reals Bool List.
From Flocq Require Import Core.Core.
From DV Require Import Base Bid BidProofs OpsArith OpsCmp CmpProofs.
Import ListNotations.
Open Scope Z_scope.

Theorem C16_numbers : forall k x y o, 0 <= x < P128 -> 0 <= y < P128 ->
  is_nan (decode x) = false -> is_nan (decode y) = false ->
  (In o (m_minmax k x y) <->
   (o = ([encode (decode x)], 0) /\ mm_pref k (decode x) (decode y)) \/
   (o = ([encode (decode y)], 0) /\ mm_pref k (decode y) (decode x))).
Proof. exact minmax_numbers. Qed.
Print Assumptions C16_numbers.

Theorem C16_operand_canonical : forall k x y outs fl, 0 <= x < P128 -> 0 <= y < P128 ->
  is_nan (decode x) = false -> is_nan (decode y) = false ->
  In (outs, fl) (m_minmax k x y) ->
  fl = 0 /\ exists b, outs = [b] /\ canonical_bits b = true /\
    ((b = encode (decode x) /\ decode b = decode x) \/ (b = encode (decode y) /\ decode b = decode y)).
Proof. exact minmax_operand_canonical. Qed.
Print Assumptions C16_operand_canonical.

Theorem C16_finite_value : forall k x y outs fl, 0 <= x < P128 -> 0 <= y < P128 ->
  is_fin (decode x) = true -> is_fin (decode y) = true ->
  In (outs, fl) (m_minmax k x y) ->
  exists b, outs = [b] /\ fl = 0 /\ (b = encode (decode x) \/ b = encode (decode y)) /\
    let v := D2R (decode b) in let vx := D2R (decode x) in let vy := D2R (decode y) in
    match k with
    | MinNum => v = Rmin vx vy
    | MaxNum => v = Rmax vx vy
    | MinMag => Rabs v = Rmin (Rabs vx) (Rabs vy) /\ (Rabs vx = Rabs vy -> v = Rmin vx vy)
    | MaxMag => Rabs v = Rmax (Rabs vx) (Rabs vy) /\ (Rabs vx = Rabs vy -> v = Rmax vx vy)
    end.
Proof. exact minmax_finite_value. Qed.
Print Assumptions C16_finite_value.

Theorem C16_equal_both : forall k x y, 0 <= x < P128 -> 0 <= y < P128 ->
  cmp_dec (decode x) (decode y) = REq ->
  m_minmax k x y = [([encode (decode x)], 0); ([encode (decode y)], 0)].
Proof. exact minmax_equal_both. Qed.
Print Assumptions C16_equal_both.

Theorem C16_commutes : forall k x y o, 0 <= x < P128 -> 0 <= y < P128 ->
  is_nan (decode x) = false -> is_nan (decode y) = false ->
  (In o (m_minmax k x y) <-> In o (m_minmax k y x)).
Proof. exact minmax_commutes. Qed.
Print Assumptions C16_commutes.

Theorem C16_one_qnan : forall k x y,
  is_nan (decode x) = true -> is_snan (decode x) = false -> is_nan (decode y) = false ->
  m_minmax k x y = [([encode (decode y)], 0)] /\ m_minmax k y x = [([encode (decode y)], 0)].
Proof. exact minmax_one_qnan. Qed.
Print Assumptions C16_one_qnan.

Theorem C16_two_qnan : forall k x y o,
  is_nan (decode x) = true -> is_snan (decode x) = false -> is_nan (decode y) = true -> is_snan (decode y) = false ->
  (In o (m_minmax k x y) <->
   exists s p, (decode x = NaN s false p \/ decode y = NaN s false p) /\ o = ([encode (NaN s false p)], 0)).
Proof. exact minmax_two_qnan. Qed.
Print Assumptions C16_two_qnan.

Theorem C16_snan : forall k x y o,
  is_snan (decode x) || is_snan (decode y) = true ->
  (In o (m_minmax k x y) <->
   exists s sg p, (decode x = NaN s sg p \/ decode y = NaN s sg p) /\ o = ([encode (NaN s false p)], F_INV)).
Proof. exact minmax_snan. Qed.
Print Assumptions C16_snan.

Theorem C16_nonempty : forall k x y, m_minmax k x y <> [].
Proof. exact minmax_nonempty. Qed.
Print Assumptions C16_nonempty.

(* ---------- non-vacuity ---------- *)
(* equal values, different quantum: min(1E+1, 10E+0) accepts both operands *)
Example C16_ex_equal :
  m_minmax MinNum (encode (Fin false 1 1)) (encode (Fin false 10 0)) =
  [([encode (Fin false 1 1)], 0); ([encode (Fin false 10 0)], 0)].
Proof. vm_compute. reflexivity. Qed.
(* max(+0, -0): both zeros accepted *)
Example C16_ex_zero :
  m_minmax MaxNum (encode (Fin false 0 0)) (encode (Fin true 0 0)) =
  [([encode (Fin false 0 0)], 0); ([encode (Fin true 0 0)], 0)].
Proof. vm_compute. reflexivity. Qed.
(* min(1, 2) = 1 and max(1, 2) = 2 *)
Example C16_ex_order :
  m_minmax MinNum (encode (Fin false 1 0)) (encode (Fin false 2 0)) = [([encode (Fin false 1 0)], 0)] /\
  m_minmax MaxNum (encode (Fin false 1 0)) (encode (Fin false 2 0)) = [([encode (Fin false 2 0)], 0)].
Proof. vm_compute. split; reflexivity. Qed.
(* magnitudes: max_mag(-3, 2) = -3, min_mag(-3, 2) = 2; equal magnitudes fall back to the signed order:
   min_mag(-2, 2.0) = -2, max_mag(-2, 2.0) = 2.0 *)
Example C16_ex_mag :
  m_minmax MaxMag (encode (Fin true 3 0)) (encode (Fin false 2 0)) = [([encode (Fin true 3 0)], 0)] /\
  m_minmax MinMag (encode (Fin true 3 0)) (encode (Fin false 2 0)) = [([encode (Fin false 2 0)], 0)] /\
  m_minmax MinMag (encode (Fin true 2 0)) (encode (Fin false 20 (-1))) = [([encode (Fin true 2 0)], 0)] /\
  m_minmax MaxMag (encode (Fin true 2 0)) (encode (Fin false 20 (-1))) = [([encode (Fin false 20 (-1))], 0)].
Proof. vm_compute. repeat split; reflexivity. Qed.
(* a non-canonical operand (coefficient field >= 10^34, i.e. zero with exponent -6176) is returned canonicalised *)
Example C16_ex_noncanonical :
  m_minmax MinNum (P113 - 1) (encode (Fin false 5 0)) = [([encode (Fin false 0 (-6176))], 0)] /\
  encode (Fin false 0 (-6176)) <> P113 - 1.
Proof. vm_compute. split; [reflexivity|discriminate]. Qed.
(* infinities *)
Example C16_ex_inf :
  m_minmax MinNum (encode (Inf true)) (encode (Fin true 9999999999999999999999999999999999 6111)) = [([encode (Inf true)], 0)] /\
  m_minmax MaxMag (encode (Inf true)) (encode (Fin false 5 0)) = [([encode (Inf true)], 0)].
Proof. vm_compute. split; reflexivity. Qed.
(* one quiet NaN: the number; two quiet NaNs: either, quiet, no flag; a signaling NaN: quieted + invalid *)
Example C16_ex_nan :
  m_minmax MinNum (encode (NaN false false 7)) (encode (Fin false 5 0)) = [([encode (Fin false 5 0)], 0)] /\
  m_minmax MaxNum (encode (NaN false false 7)) (encode (NaN true false 9)) =
    [([encode (NaN false false 7)], 0); ([encode (NaN true false 9)], 0)] /\
  m_minmax MinMag (encode (NaN false true 7)) (encode (Fin false 5 0)) = [([encode (NaN false false 7)], F_INV)] /\
  m_minmax MinMag (encode (NaN false false 7)) (encode (NaN true true 9)) =
    [([encode (NaN false false 7)], F_INV); ([encode (NaN true false 9)], F_INV)].
Proof. vm_compute. repeat split; reflexivity. Qed.
