// Correspondence runner: executes one case per input line against the real crate
// (path dependency on /repo, built with --cfg decmathlib_rs_verif) and echoes
//   <input line> => <outputs...> <status-out>
// or
//   <input line> => PANIC <file>:<line> <message>
// Line format: op mode status_in(hex) args(hex)...   (strings: hex of the UTF-8 bytes, "-" = empty)
use decmathlib_rs::d128::*;
use std::cell::RefCell;
use std::io::{BufRead, Write};

#[cfg(decmathlib_rs_verif)]
fn bits(x: &d128) -> u128 { decmathlib_rs::verif_hooks::to_bits(x) }
#[cfg(not(decmathlib_rs_verif))]
fn bits(x: &d128) -> u128 { let w: [u64; 2] = unsafe { std::mem::transmute(*x) }; ((w[1] as u128) << 64) | w[0] as u128 }

fn rm(i: u32) -> RoundingMode { RoundingMode::from(i) }
type F = _IDEC_flags;

thread_local! { static LAST_PANIC: RefCell<String> = RefCell::new(String::new()); }

fn unhex_str(t: &str) -> Option<String> {
    if t == "-" { return Some(String::new()); }
    let b: Vec<u8> = (0..t.len() / 2).map(|i| u8::from_str_radix(&t[2 * i..2 * i + 2], 16).unwrap()).collect();
    String::from_utf8(b).ok()
}
fn hex_str(s: &str) -> String { if s.is_empty() { "-".to_string() } else { s.bytes().map(|b| format!("{:02x}", b)).collect() } }

struct Rec(Vec<u64>);
impl std::hash::Hasher for Rec {
    fn finish(&self) -> u64 { 0 }
    fn write(&mut self, b: &[u8]) { for ch in b.chunks(8) { let mut a = [0u8; 8]; a[..ch.len()].copy_from_slice(ch); self.0.push(u64::from_le_bytes(a)); } }
    fn write_u64(&mut self, v: u64) { self.0.push(v) }
}

type Cmp = fn(&d128, &d128, &mut F) -> bool;
const CMPS: [Cmp; 20] = [
    d128::compare_quiet_equal, d128::compare_quiet_greater, d128::compare_quiet_greater_equal, d128::compare_quiet_greater_unordered,
    d128::compare_quiet_less, d128::compare_quiet_less_equal, d128::compare_quiet_less_unordered, d128::compare_quiet_not_equal,
    d128::compare_quiet_not_greater, d128::compare_quiet_not_less, d128::compare_quiet_ordered, d128::compare_quiet_unordered,
    d128::compare_signaling_greater, d128::compare_signaling_greater_equal, d128::compare_signaling_greater_unordered,
    d128::compare_signaling_less, d128::compare_signaling_less_equal, d128::compare_signaling_less_unordered,
    d128::compare_signaling_not_greater, d128::compare_signaling_not_less];

fn to_int(s: &str, x: &d128, f: &mut F) -> u128 {
    match s {
        "to_i32_rnint" => x.convert_to_i32_ties_to_even(f) as u32 as u128, "to_i32_xrnint" => x.convert_to_i32_exact_ties_to_even(f) as u32 as u128,
        "to_i32_floor" => x.convert_to_i32_toward_negative(f) as u32 as u128, "to_i32_xfloor" => x.convert_to_i32_exact_toward_negative(f) as u32 as u128,
        "to_i32_ceil" => x.convert_to_i32_toward_positive(f) as u32 as u128, "to_i32_xceil" => x.convert_to_i32_exact_toward_positive(f) as u32 as u128,
        "to_i32_int" => x.convert_to_i32_toward_zero(f) as u32 as u128, "to_i32_xint" => x.convert_to_i32_exact_toward_zero(f) as u32 as u128,
        "to_i32_rninta" => x.convert_to_i32_ties_to_away(f) as u32 as u128, "to_i32_xrninta" => x.convert_to_i32_exact_ties_to_away(f) as u32 as u128,
        "to_u32_rnint" => x.convert_to_u32_ties_to_even(f) as u128, "to_u32_xrnint" => x.convert_to_u32_exact_ties_to_even(f) as u128,
        "to_u32_floor" => x.convert_to_u32_toward_negative(f) as u128, "to_u32_xfloor" => x.convert_to_u32_exact_toward_negative(f) as u128,
        "to_u32_ceil" => x.convert_to_u32_toward_positive(f) as u128, "to_u32_xceil" => x.convert_to_u32_exact_toward_positive(f) as u128,
        "to_u32_int" => x.convert_to_u32_toward_zero(f) as u128, "to_u32_xint" => x.convert_to_u32_exact_toward_zero(f) as u128,
        "to_u32_rninta" => x.convert_to_u32_ties_to_away(f) as u128, "to_u32_xrninta" => x.convert_to_u32_exact_ties_to_away(f) as u128,
        "to_i64_rnint" => x.convert_to_i64_ties_to_even(f) as u64 as u128, "to_i64_xrnint" => x.convert_to_i64_exact_ties_to_even(f) as u64 as u128,
        "to_i64_floor" => x.convert_to_i64_toward_negative(f) as u64 as u128, "to_i64_xfloor" => x.convert_to_i64_exact_toward_negative(f) as u64 as u128,
        "to_i64_ceil" => x.convert_to_i64_toward_positive(f) as u64 as u128, "to_i64_xceil" => x.convert_to_i64_exact_toward_positive(f) as u64 as u128,
        "to_i64_int" => x.convert_to_i64_toward_zero(f) as u64 as u128, "to_i64_xint" => x.convert_to_i64_exact_toward_zero(f) as u64 as u128,
        "to_i64_rninta" => x.convert_to_i64_ties_to_away(f) as u64 as u128, "to_i64_xrninta" => x.convert_to_i64_exact_ties_to_away(f) as u64 as u128,
        "to_u64_rnint" => x.convert_to_u64_ties_to_even(f) as u128, "to_u64_xrnint" => x.convert_to_u64_exact_ties_to_even(f) as u128,
        "to_u64_floor" => x.convert_to_u64_toward_negative(f) as u128, "to_u64_xfloor" => x.convert_to_u64_exact_toward_negative(f) as u128,
        "to_u64_ceil" => x.convert_to_u64_toward_positive(f) as u128, "to_u64_xceil" => x.convert_to_u64_exact_toward_positive(f) as u128,
        "to_u64_int" => x.convert_to_u64_toward_zero(f) as u128, "to_u64_xint" => x.convert_to_u64_exact_toward_zero(f) as u128,
        "to_u64_rninta" => x.convert_to_u64_ties_to_away(f) as u128, "to_u64_xrninta" => x.convert_to_u64_exact_ties_to_away(f) as u128,
        _ => panic!("harness: unknown op {}", s),
    }
}

// the names of every operation the runner dispatches (printed by `api`)
pub const OPS: &[&str] = &["add", "sub", "mul", "div", "fma", "sqrt", "quantize", "rem", "fmod", "fdim", "rint", "nearbyint",
    "rint_ne", "rint_na", "rint_dn", "rint_up", "rint_tz", "modf", "frexp", "nextup", "nextdown", "nextafter", "nexttoward",
    "minnum", "maxnum", "minmag", "maxmag", "scaleb", "ldexp", "scalebln", "logb", "ilogb", "quantexp", "llquantexp", "quantum",
    "samequantum", "totalorder", "totalordermag", "class", "isx", "abs", "neg", "copy", "copysign", "encode", "decode",
    "from_f32", "from_f64", "from_i32", "from_u32", "from_i64", "from_u64", "lrint", "llrint", "lround", "llround", "cmp", "ops",
    "parse", "fromstr", "fromstr2", "fmt", "hash", "hasheq", "hashset", "hashslice", "hashsliceeq", "o_add", "o_sub", "o_mul", "o_div", "o_rem", "o_neg", "sum", "product",
    "fromf32_t", "fromf64_t", "serde", "serde_de", "nan", "consts", "macro"];
pub const TO_INT_TYPES: &[&str] = &["i32", "u32", "i64", "u64"];
pub const TO_INT_KINDS: &[&str] = &["rnint", "xrnint", "floor", "xfloor", "ceil", "xceil", "int", "xint", "rninta", "xrninta"];

fn run_case(t: &[&str]) -> (String, F) {
    let op = t[0];
    let m: u32 = t[1].parse().unwrap();
    let f0: F = u32::from_str_radix(t[2], 16).unwrap();
    let mut f: F = f0;
    let md = if m == 9 { None } else { Some(rm(m)) };   // 9 = no mode given (the crate's default applies)
    let b = |v: bool| v as u128;
    // string-taking operations
    match op {
        "parse" | "fromstr" | "fromstr2" | "nan" | "serde_de" => {
            let s = match unhex_str(t.get(3).copied().unwrap_or("-")) { Some(s) => s, None => return ("BADUTF8".to_string(), f) };
            return match op {
                "parse" => (format!("{:032x}", bits(&d128::convert_from_decimal_character(&s, md, &mut f))), f),
                "fromstr" => { use std::str::FromStr; match d128::from_str(&s) { Ok(v) => (format!("ok {:032x}", bits(&v)), f), Err(e) => (format!("err {:x}", e), f) } }
                "fromstr2" => (format!("{:032x}", bits(&d128::from(s.as_str()))), f),
                "nan" => (format!("{:032x}", bits(&d128::nan(&s, &mut f))), f),
                _ => { let js = serde_json::to_string(&s).unwrap(); match serde_json::from_str::<d128>(&js) { Ok(v) => (format!("ok {:032x}", bits(&v)), f), Err(_) => ("err 0".to_string(), f) } }
            };
        }
        "consts" => {
            let v = [MINUS_ONE, ZERO, ONE, NAN, NEG_NAN, SNAN, NEG_SNAN, INFINITY, NEGATIVE_INFINITY, EPSILON, MIN, MAX, d128::default()];
            let s: Vec<String> = v.iter().map(|x| format!("{:032x}", bits(x))).collect();
            return (format!("{} {:x} {:x} {:x} {:x}", s.join(" "), RADIX as u32, MANTISSA_DIGITS, MIN_EXP as u32, MAX_EXP as u32), f);
        }
        "macro" => {
            let v = [decmathlib_rs::dec128!(7920), decmathlib_rs::dec128!(1E+3), decmathlib_rs::dec128!(0.001)];
            let s: Vec<String> = v.iter().map(|x| format!("{:032x}", bits(x))).collect();
            return (s.join(" "), f);
        }
        _ => {}
    }
    let raw: Vec<u128> = t[3..].iter().map(|s| u128::from_str_radix(s, 16).unwrap()).collect();
    let a: Vec<d128> = raw.iter().map(|v| d128::from(*v)).collect();
    let r: u128 = match op {
        "fmt" => { return (format!("{} {} {} {}", hex_str(&format!("{}", a[0])), hex_str(&format!("{:?}", a[0])), hex_str(&format!("{:e}", a[0])), hex_str(&format!("{:E}", a[0]))), f) }
        "serde" => { let js = serde_json::to_string(&a[0]).unwrap(); let back: Result<d128, _> = serde_json::from_str(&js);
            return (format!("{} {}", hex_str(&js), match back { Ok(v) => format!("ok {:032x}", bits(&v)), Err(_) => "err 0".to_string() }), f) }
        "hash" => { let mut r = Rec(vec![]); std::hash::Hash::hash(&a[0], &mut r); let s: Vec<String> = r.0.iter().map(|w| format!("{:x}", w)).collect(); return (s.join(" "), f) }
        "hashsliceeq" => {   // args: n x1..xn y1..yn : do the two slices feed identical words to the Hasher?
            let n = raw[0] as usize; let xs = &a[1..1 + n]; let ys = &a[1 + n..1 + 2 * n];
            let mut r1 = Rec(vec![]); std::hash::Hash::hash_slice(xs, &mut r1); let mut r2 = Rec(vec![]); std::hash::Hash::hash_slice(ys, &mut r2);
            return (format!("{:x}", (r1.0 == r2.0) as u8), f) }
        "hashslice" => { let mut r = Rec(vec![]); std::hash::Hash::hash_slice(&a[..], &mut r); let s: Vec<String> = r.0.iter().map(|w| format!("{:x}", w)).collect(); return (s.join(" "), f) }
        "add" => bits(&d128::addition(&a[0], &a[1], md, &mut f)),
        "sub" => bits(&d128::subtraction(&a[0], &a[1], md, &mut f)),
        "mul" | "mul_ta" => bits(&d128::multiplication(&a[0], &a[1], md, &mut f)),
        "div" => bits(&d128::division(&a[0], &a[1], md, &mut f)),
        "fma" | "fma_ta" => bits(&d128::fused_multiply_add(&a[0], &a[1], &a[2], md, &mut f)),   // fma_ta: same call, run in the tiny_after build
        "sqrt" => bits(&a[0].square_root(md, &mut f)),
        "quantize" => bits(&d128::quantize(&a[0], &a[1], md, &mut f)),
        "rem" => bits(&d128::remainder(&a[0], &a[1], &mut f)),
        "fmod" => bits(&a[0].fmod(&a[1], &mut f)),
        "fdim" => bits(&a[0].fdim(&a[1], md, &mut f)),
        "rint" => bits(&d128::round_to_integral_exact(&a[0], md, &mut f)),
        "nearbyint" => bits(&a[0].nearbyint(md, &mut f)),
        "rint_ne" => bits(&d128::round_to_integral_ties_to_even(&a[0], &mut f)),
        "rint_na" => bits(&d128::round_to_integral_ties_to_away(&a[0], &mut f)),
        "rint_dn" => bits(&d128::round_to_integral_ties_toward_negative(&a[0], &mut f)),
        "rint_up" => bits(&d128::round_to_integral_ties_toward_positive(&a[0], &mut f)),
        "rint_tz" => bits(&d128::round_to_integral_ties_toward_zero(&a[0], &mut f)),
        "modf" => { let (i, fr) = a[0].modf(&mut f); return (format!("{:032x} {:032x}", bits(&i), bits(&fr)), f) }
        "frexp" => { let (fr, e) = a[0].frexp(); return (format!("{:032x} {:x}", bits(&fr), e as u32), f) }
        "nextup" => bits(&a[0].next_up(&mut f)),
        "nextdown" => bits(&a[0].next_down(&mut f)),
        "nextafter" => bits(&d128::next_after(&a[0], &a[1], &mut f)),
        "nexttoward" => bits(&d128::next_toward(&a[0], &a[1], &mut f)),
        "minnum" => bits(&d128::min_num(&a[0], &a[1], &mut f)),
        "maxnum" => bits(&d128::max_num(&a[0], &a[1], &mut f)),
        "minmag" => bits(&d128::min_num_mag(&a[0], &a[1], &mut f)),
        "maxmag" => bits(&d128::max_num_mag(&a[0], &a[1], &mut f)),
        "scaleb" => bits(&a[0].scaleb(raw[1] as u32 as i32, md, &mut f)),
        "ldexp" => bits(&a[0].ldexp(raw[1] as u32 as i32, md, &mut f)),
        "scalebln" => bits(&a[0].scalebln(raw[1] as u64 as i64, md, &mut f)),
        "logb" => bits(&a[0].logb(&mut f)),
        "ilogb" => a[0].log_b(&mut f) as u32 as u128,
        "quantexp" => a[0].quantexp(&mut f) as u32 as u128,
        "llquantexp" => a[0].llquantexp(&mut f) as u64 as u128,
        "quantum" => bits(&a[0].quantum()),
        "samequantum" => b(d128::same_quantum(&a[0], &a[1])),
        "totalorder" => b(d128::total_order(&a[0], &a[1])),
        "totalordermag" => b(d128::total_order_mag(&a[0], &a[1])),
        "class" => a[0].class() as u128,
        "isx" => b(a[0].is_canonical()) | b(a[0].is_finite()) << 1 | b(a[0].is_infinite()) << 2 | b(a[0].is_nan()) << 3 | b(a[0].is_normal()) << 4
            | b(a[0].is_signaling()) << 5 | b(a[0].is_sign_minus()) << 6 | b(a[0].is_subnormal()) << 7 | b(a[0].is_zero()) << 8,
        "abs" => bits(&a[0].abs()),
        "neg" => bits(&d128::negate(&a[0])),
        "copy" => bits(&a[0].copy()),
        "copysign" => bits(&a[0].copy_sign(&a[1])),
        "encode" => bits(&a[0].encode_decimal()),
        "decode" => bits(&a[0].decode_decimal()),
        "from_f32" => bits(&d128::convert_from_f32(f32::from_bits(raw[0] as u32), md, &mut f)),
        "from_f64" => bits(&d128::convert_from_f64(f64::from_bits(raw[0] as u64), md, &mut f)),
        "fromf32_t" => bits(&d128::from(f32::from_bits(raw[0] as u32))),
        "fromf64_t" => bits(&d128::from(f64::from_bits(raw[0] as u64))),
        "from_i32" => bits(&d128::from(raw[0] as u32 as i32)),
        "from_u32" => bits(&d128::from(raw[0] as u32)),
        "from_i64" => bits(&d128::from(raw[0] as u64 as i64)),
        "from_u64" => bits(&d128::from(raw[0] as u64)),
        "lrint" => a[0].lrint(md, &mut f) as u64 as u128,
        "llrint" => a[0].llrint(md, &mut f) as u64 as u128,
        "lround" => a[0].lround(&mut f) as u64 as u128,
        "llround" => a[0].llround(&mut f) as u64 as u128,
        "cmp" => { let i = raw[2] as usize; b(CMPS[i](&a[0], &a[1], &mut f)) }
        "hasheq" => { let mut r1 = Rec(vec![]); std::hash::Hash::hash(&a[0], &mut r1); let mut r2 = Rec(vec![]); std::hash::Hash::hash(&a[1], &mut r2); b(r1.0 == r2.0) }
        "hashset" => { let mut hs = std::collections::HashSet::new(); hs.insert(a[0]); let mut hm = std::collections::HashMap::new(); hm.insert(a[0], 1u8);
            let c1 = hs.contains(&a[1]); let c2 = hm.contains_key(&a[1]); if c1 != c2 { 2 } else { b(c1) } }
        "ops" => { let (x, y) = (a[0], a[1]);
            b(x == y) | b(x < y) << 1 | b(x <= y) << 2 | b(x > y) << 3 | b(x >= y) << 4
            | (match x.partial_cmp(&y) { None => 0, Some(std::cmp::Ordering::Less) => 1, Some(std::cmp::Ordering::Equal) => 2, Some(std::cmp::Ordering::Greater) => 3 }) << 5
            | b(x != y) << 7 }
        "o_add" | "o_sub" | "o_mul" | "o_div" | "o_rem" => {
            let (x, y) = (a[0], a[1]);
            let (r1, r2, r3, r4, r5) = match op {
                "o_add" => { let mut z = x; z += y; let mut w = x; w += &y; (x + y, &x + &y, x + &y, z, w) }
                "o_sub" => { let mut z = x; z -= y; let mut w = x; w -= &y; (x - y, &x - &y, &x - y, z, w) }
                "o_mul" => { let mut z = x; z *= y; let mut w = x; w *= &y; (x * y, &x * &y, x * &y, z, w) }
                "o_div" => { let mut z = x; z /= y; let mut w = x; w /= &y; (x / y, &x / &y, &x / y, z, w) }
                _ => { let mut z = x; z %= y; let mut w = x; w %= &y; (x % y, &x % &y, x % &y, z, w) }
            };
            return (format!("{:032x} {:032x} {:032x} {:032x} {:032x}", bits(&r1), bits(&r2), bits(&r3), bits(&r4), bits(&r5)), f)
        }
        "o_neg" => { let x = a[0]; return (format!("{:032x} {:032x}", bits(&(-x)), bits(&(-&x))), f) }
        "sum" => { let s1: d128 = a.iter().sum(); let s2: d128 = a.iter().copied().sum(); return (format!("{:032x} {:032x}", bits(&s1), bits(&s2)), f) }
        "product" => { let s1: d128 = a.iter().product(); let s2: d128 = a.iter().copied().product(); return (format!("{:032x} {:032x}", bits(&s1), bits(&s2)), f) }
        s if s.starts_with("to_") => to_int(s, &a[0], &mut f),
        _ => panic!("harness: unknown op {}", op),
    };
    (format!("{:x}", r), f)
}

fn main() {
    let args: Vec<String> = std::env::args().collect();
    if args.len() > 1 && args[1] == "api" {
        for o in OPS { println!("{}", o); }
        for t in TO_INT_TYPES { for k in TO_INT_KINDS { println!("to_{}_{}", t, k); } }
        return;
    }
    // `tables`: every constant table of the compiled crate, one line per row (see verif_hooks::dump_tables)
    #[cfg(decmathlib_rs_verif)]
    if args.len() > 1 && args[1] == "tables" {
        let out = std::io::stdout();
        let mut out = std::io::BufWriter::new(out.lock());
        decmathlib_rs::verif_hooks::dump_tables(&mut out);
        out.flush().unwrap();
        return;
    }
    #[cfg(not(decmathlib_rs_verif))]
    if args.len() > 1 && args[1] == "tables" { eprintln!("tables: built without --cfg decmathlib_rs_verif"); std::process::exit(2); }
    std::panic::set_hook(Box::new(|i| {
        let loc = i.location().map(|l| format!("{}:{}", l.file(), l.line())).unwrap_or_default();
        let msg = i.payload().downcast_ref::<&str>().map(|s| s.to_string()).or(i.payload().downcast_ref::<String>().cloned()).unwrap_or_default();
        LAST_PANIC.with(|p| *p.borrow_mut() = format!("{} {}", loc, msg.replace(char::is_whitespace, "_")));
    }));
    // Every case runs in a worker thread; this thread waits for the answer with a limit (VERIF_HANG_SECS, default 120 s). A case that does not
    // answer is reported as  "<line> => PANIC hang:no_answer_within_<n>_s"  (non-termination is a failure of the "terminates without panicking"
    // clauses), the stuck worker is abandoned and a fresh one takes over; after 4 such cases the run stops (the runner reports the cases not executed).
    let hang_secs: u64 = std::env::var("VERIF_HANG_SECS").ok().and_then(|v| v.parse().ok()).unwrap_or(120);
    fn spawn_worker() -> (std::sync::mpsc::Sender<String>, std::sync::mpsc::Receiver<String>) {
        let (tx_line, rx_line) = std::sync::mpsc::channel::<String>();
        let (tx_res, rx_res) = std::sync::mpsc::channel::<String>();
        std::thread::Builder::new().stack_size(64 << 20).spawn(move || {
            for line in rx_line {
                let t: Vec<&str> = line.split_whitespace().collect();
                let r = std::panic::catch_unwind(|| run_case(&t));
                let ans = match r {
                    Ok((s, f)) => format!("{} => {} {:x}", line, s, f),
                    Err(_) => { let p = LAST_PANIC.with(|p| p.borrow().clone()); format!("{} => PANIC {}", line, p) }
                };
                if tx_res.send(ans).is_err() { break; }
            }
        }).unwrap();
        (tx_line, rx_res)
    }
    let stdin = std::io::stdin();
    let out = std::io::stdout();
    let mut out = std::io::BufWriter::new(out.lock());
    let (mut tx, mut rx) = spawn_worker();
    let mut hangs = 0;
    for line in stdin.lock().lines() {
        let line = line.unwrap();
        { let t: Vec<&str> = line.split_whitespace().collect(); if t.is_empty() || t[0].starts_with('#') { continue; } }
        tx.send(line.clone()).unwrap();
        match rx.recv_timeout(std::time::Duration::from_secs(hang_secs)) {
            Ok(ans) => writeln!(out, "{}", ans).unwrap(),
            Err(std::sync::mpsc::RecvTimeoutError::Timeout) => {
                writeln!(out, "{} => PANIC hang:no_answer_within_{}_s", line, hang_secs).unwrap();
                out.flush().unwrap();
                hangs += 1;
                if hangs >= 4 { break; }
                let w = spawn_worker(); tx = w.0; rx = w.1;
            }
            Err(_) => { writeln!(out, "{} => PANIC worker_thread_died", line).unwrap(); let w = spawn_worker(); tx = w.0; rx = w.1; }
        }
    }
    out.flush().unwrap();
    if hangs > 0 { std::process::exit(0); }   // do not wait for abandoned workers
}
