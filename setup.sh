#!/bin/sh
# MANIFEST.setup_cmd: build everything from files on disk (offline): harness (against /repo), Coq development, extracted judge.
cd "$(dirname "$0")" && exec ./check setup
