(* operation names of the line protocol -> constructors of the extracted model *)
open Model
let op_of_string (s : string) : (op * [`Hex | `Str]) option =
  match s with
  | "add" -> Some (OAdd, `Hex) | "sub" -> Some (OSub, `Hex) | "mul" -> Some (OMul, `Hex)
  | "div" -> Some (ODiv, `Hex) | "sqrt" -> Some (OSqrt, `Hex) | "fma" -> Some (OFma, `Hex)
  | _ -> None

(* output tokens: hex numbers; "ok"/"err" of Result-returning entry points; "-" = empty string *)
let out_token (t : string) : z =
  match t with
  | "ok" -> Zhex.z_of_hex "1" | "err" -> Z0 | "-" -> Z0
  | _ -> Zhex.z_of_hex t
