(* operation names of the line protocol -> constructors of the extracted model *)
open Model
let z = Zhex.z_of_int

let to_int_op (s : string) : op option =
  (* to_<i32|u32|i64|u64>_<x?><rnint|floor|ceil|int|rninta> *)
  match String.split_on_char '_' s with
  | ["to"; ty; kind] ->
    let (w, sg) = (match ty with "i32" -> (32, true) | "u32" -> (32, false) | "i64" -> (64, true) | "u64" -> (64, false) | _ -> (0, false)) in
    let (xf, k) = if String.length kind > 1 && kind.[0] = 'x' then (true, String.sub kind 1 (String.length kind - 1)) else (false, kind) in
    let m = (match k with "rnint" -> Some RNE | "floor" -> Some RDN | "ceil" -> Some RUP | "int" -> Some RTZ | "rninta" -> Some RNA | _ -> None) in
    (match m with Some m when w > 0 -> Some (OToInt (z w, sg, m, xf)) | _ -> None)
  | _ -> None

let op_of_string (s : string) : (op * [`Hex | `Str]) option =
  let h o = Some (o, `Hex) and st o = Some (o, `Str) in
  match s with
  | "add" -> h OAdd | "sub" -> h OSub | "mul" -> h OMul | "div" -> h ODiv | "sqrt" -> h OSqrt | "fma" -> h OFma
  | "quantize" -> h OQuantize | "rem" -> h ORem | "fmod" -> h OFmod | "fdim" -> h OFdim
  | "rint" -> h ORint | "nearbyint" -> h ONearbyint
  | "rint_ne" -> h (ORintFix RNE) | "rint_na" -> h (ORintFix RNA) | "rint_dn" -> h (ORintFix RDN)
  | "rint_up" -> h (ORintFix RUP) | "rint_tz" -> h (ORintFix RTZ)
  | "modf" -> h OModf | "frexp" -> h OFrexp
  | "nextup" -> h ONextUp | "nextdown" -> h ONextDown | "nextafter" -> h ONextAfter | "nexttoward" -> h ONextAfter
  | "minnum" -> h (OMinMax MinNum) | "maxnum" -> h (OMinMax MaxNum) | "minmag" -> h (OMinMax MinMag) | "maxmag" -> h (OMinMax MaxMag)
  | "scaleb" -> h (OScaleb (z 32)) | "ldexp" -> h (OScaleb (z 32)) | "scalebln" -> h (OScaleb (z 64))
  | "logb" -> h OLogb | "ilogb" -> h OIlogb | "quantexp" -> h OQuantexp | "llquantexp" -> h OLlquantexp
  | "quantum" -> h OQuantum | "samequantum" -> h OSameQuantum
  | "totalorder" -> h OTotalOrder | "totalordermag" -> h OTotalOrderMag
  | "class" -> h OClass | "isx" -> h OIsx | "abs" -> h OAbs | "neg" -> h ONeg | "copy" -> h OCopy | "copysign" -> h OCopySign
  | "encode" -> h OEncodeDpd | "decode" -> h ODecodeDpd
  | "from_f32" -> h (OFromBin (z 8, z 23, true)) | "from_f64" -> h (OFromBin (z 11, z 52, true))
  | "fromf32_t" -> h (OFromBin (z 8, z 23, false)) | "fromf64_t" -> h (OFromBin (z 11, z 52, false))
  | "from_i32" -> h (OFromInt (z 32, true)) | "from_u32" -> h (OFromInt (z 32, false))
  | "from_i64" -> h (OFromInt (z 64, true)) | "from_u64" -> h (OFromInt (z 64, false))
  | "lrint" -> h OLrint | "llrint" -> h OLrint | "lround" -> h OLround | "llround" -> h OLround
  | "cmp" -> h OCmp | "ops" -> h OOps | "hasheq" -> h OHashEq | "hashset" -> h OHashSet | "hashsliceeq" -> h OHashSliceEq
  | "serde" -> h OSerde | "serde_de" -> st OSerdeDe | "nan" -> st ONanTag | "consts" -> h OConsts | "macro" -> h OMacro
  | "parse" -> st OParse | "fromstr" -> st OFromStr | "fromstr2" -> st OFromStr2 | "fmt" -> h OFmt
  | "o_add" -> h (OOpArith OAdd) | "o_sub" -> h (OOpArith OSub) | "o_mul" -> h (OOpArith OMul)
  | "o_div" -> h (OOpArith ODiv) | "o_rem" -> h (OOpArith ORem) | "o_neg" -> h OOpNeg
  | "sum" -> h OSum | "product" -> h OProduct
  | _ -> (match to_int_op s with Some o -> h o | None -> None)

(* output tokens: hex numbers; "ok"/"err" of Result-returning entry points; "-" = empty string *)
let out_token (t : string) : z =
  match t with
  | "ok" -> Zhex.z_of_hex "1" | "err" -> Z0 | "-" -> Z0
  | _ -> Zhex.z_of_hex t
