#!/bin/sh
# extraction + native compilation of the judge
set -e
cd "$(dirname "$0")"
coqc -Q ../coq/theories DV ../coq/theories/Extract.v > extract.log 2>&1 || { cat extract.log; exit 1; }
ocamlfind ocamlopt -O2 -w -a -package unix model.mli model.ml zhex.ml ops_table.ml driver.ml -o driver 2> build.log || \
ocamlfind ocamlopt -w -a model.mli model.ml zhex.ml ops_table.ml driver.ml -o driver
