open Model

let rec pos_of_bits (bits : bool list) (acc : positive) : positive =
  match bits with [] -> acc | b :: r -> pos_of_bits r (if b then XI acc else XO acc)

(* hex string -> Z (non-negative) *)
let z_of_hex (s : string) : z =
  let bits = ref [] in   (* most significant first *)
  String.iter (fun ch ->
    let v = match ch with
      | '0'..'9' -> Char.code ch - 48 | 'a'..'f' -> Char.code ch - 87 | 'A'..'F' -> Char.code ch - 55
      | _ -> failwith ("bad hex: " ^ s) in
    bits := (v land 1 = 1) :: (v land 2 = 2) :: (v land 4 = 4) :: (v land 8 = 8) :: !bits) s;
  (* !bits is least-significant first; drop leading zeros from the most significant end *)
  let msb_first = List.rev !bits in
  let rec strip = function false :: r -> strip r | l -> l in
  match strip msb_first with
  | [] -> Z0
  | _ :: rest -> Zpos (pos_of_bits rest XH)

let rec pos_to_bits (p : positive) (acc : bool list) : bool list =  (* returns lsb first *)
  match p with XH -> List.rev (true :: acc) | XO q -> pos_to_bits q (false :: acc) | XI q -> pos_to_bits q (true :: acc)

let hex_of_z (v : z) : string =
  match v with
  | Z0 -> "0"
  | Zneg _ -> "NEG"
  | Zpos p ->
    let bits = Array.of_list (pos_to_bits p []) in
    let n = Array.length bits in
    let nd = (n + 3) / 4 in
    let b = Buffer.create nd in
    for d = nd - 1 downto 0 do
      let v = ref 0 in
      for k = 3 downto 0 do
        let i = 4 * d + k in
        v := !v * 2 + (if i < n && bits.(i) then 1 else 0)
      done;
      Buffer.add_char b "0123456789abcdef".[!v]
    done;
    Buffer.contents b

let z_of_int (i : int) : z = z_of_hex (Printf.sprintf "%x" i)

let bytes_of_hex (s : string) : z list =
  if s = "-" then [] else
  List.init (String.length s / 2) (fun i -> z_of_int (int_of_string ("0x" ^ String.sub s (2 * i) 2)))


let int_of_z (v : z) : int = match v with Z0 -> 0 | Zneg _ -> -1 | Zpos _ -> int_of_string ("0x" ^ hex_of_z v)
