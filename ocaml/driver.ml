(* Judge: reads the runner's lines  "op mode fin args... => outs... fout" | "... => PANIC loc msg"
   and applies the extracted Coq acceptance test. Prints one line per rejected or panicking case and a summary.
   usage: driver [-v] < runner-output   (-v: print OK lines too, with the model's expected outcomes) *)
open Model

open Zhex

let mode_of_int = function 0 -> RNE | 1 -> RDN | 2 -> RUP | 3 -> RTZ | 4 -> RNA | _ -> failwith "mode"

let split_ws s = List.filter (fun x -> x <> "") (String.split_on_char ' ' s)

let show_expect e =
  String.concat " | " (List.map (fun (outs, fl) ->
    String.concat " " (List.map hex_of_z outs) ^ " /" ^ hex_of_z fl) (expect_list e))

let () =
  let verbose = Array.length Sys.argv > 1 && Sys.argv.(1) = "-v" in
  let total = ref 0 and ok = ref 0 and rej = ref 0 and pan = ref 0 and unk = ref 0 and kf = ref 0 in
  let lineno = ref 0 in
  (try
    while true do
      let line = input_line stdin in
      incr lineno;
      let toks = split_ws line in
      let rec cut acc = function
        | "=>" :: r -> (List.rev acc, r)
        | x :: r -> cut (x :: acc) r
        | [] -> (List.rev acc, []) in
      let (lhs, rhs) = cut [] toks in
      match lhs with
      | opname :: mode :: fin :: args when rhs <> [] ->
        incr total;
        (* secondary configuration (tininess after rounding): fma_ta / mul_ta are judged by expected_ta (theories/TinyAfter.v) *)
        let ta = (match opname with "fma_ta" -> Some 0 | "mul_ta" -> Some 1 | _ -> None) in
        (match (match ta with Some _ -> Some (OFma, `Hex) | None -> Ops_table.op_of_string opname) with
         | None -> incr unk; Printf.printf "UNKNOWN %d %s\n" !lineno line
         | Some (o, kind) ->
           let md = mode_of_int (int_of_string mode) in
           let zargs = (match kind with
             | `Hex -> List.map z_of_hex args
             | `Str -> (match args with [] -> [] | s :: _ -> bytes_of_hex s)) in
           let e = (match ta with Some k -> expected_ta_kf (Zhex.z_of_int k) md zargs | None -> expected o md zargs) in
           (match rhs with
            | "PANIC" :: _ ->
              incr pan; Printf.printf "PANIC %d %s || expected: %s\n" !lineno line (show_expect e)
            | _ ->
              let rv = List.rev rhs in
              let fout = z_of_hex (List.hd rv) in
              let outs = List.rev_map (fun t -> Ops_table.out_token t) (List.tl rv) in
              let v = Zhex.int_of_z (judge e (z_of_hex fin) outs fout) in
              if v = 1 then begin
                incr ok; if verbose then Printf.printf "OK %d %s || expected: %s\n" !lineno line (show_expect e) end
              else if v >= 2 then begin
                incr kf; Printf.printf "KNOWN%d %d %s || expected: %s\n" (v - 2) !lineno line (show_expect e) end
              else begin
                incr rej; Printf.printf "REJECT %d %s || expected: %s\n" !lineno line (show_expect e) end))
      | _ -> ()
    done
  with End_of_file -> ());
  Printf.printf "SUMMARY total=%d ok=%d reject=%d panic=%d unknown=%d known=%d\n" !total !ok !rej !pan !unk !kf
