# Coverage-directed families (lib/covfam/*.py): each was written to reach source lines that no other generated case executed
# (tools/covscan.py, tools/covlines.py; DESIGN section 22).  A family is  fam(rng) -> (op, mode or None, [operands]).
# gen_cov(ops) yields cases of the families whose operation belongs to the property's set of operations.
import os, sys, glob, importlib.util, random
from dec import *

FAMS = []
for _p in sorted(glob.glob(os.path.join(os.path.dirname(os.path.abspath(__file__)), 'covfam', 'gens_*.py'))):
    _spec = importlib.util.spec_from_file_location(os.path.basename(_p)[:-3], _p)
    _m = importlib.util.module_from_spec(_spec); _spec.loader.exec_module(_m)
    FAMS += list(getattr(_m, 'ALL', []))


def _probe_ops():
    """the operation each family produces (sampled once with a fixed seed)"""
    r = random.Random(12345); out = []
    for f in FAMS:
        ops = set()
        for _ in range(6):
            try: ops.add(f(r)[0])
            except Exception: pass
        out.append((f, ops))
    return out


_FAM_OPS = _probe_ops()


def matches(op, pats):
    return any(op == p or (p.endswith('*') and op.startswith(p[:-1])) for p in pats)


def gen_cov(pats):
    fams = [f for f, ops in _FAM_OPS if ops and any(matches(o, pats) for o in ops)]
    def gen(rng, n):
        if not fams: return
        for i in range(n):
            f = fams[i % len(fams)]
            try: op, md, args = f(rng)
            except Exception: continue
            if not matches(op, pats): continue
            yield line(op, rng.choice(MODES) if md is None else md, status_in(rng), *args)
    return gen
