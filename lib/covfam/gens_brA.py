import os, sys; sys.path.insert(0, os.path.dirname(os.path.dirname(os.path.abspath(__file__)))); from dec import *
"""Generator families for branch DIRECTIONS of bid128_add.rs that no quick-tier case takes although the line is executed
(branch round A; files add, div, compare, div_macros, next, noncomp, string: only bid128_add.rs has reachable ones).
Every family returns (op, mode_or_None, [operands]); mode None = any rounding mode.  All randomness comes from rng.
Notation: x = C1*10^e1 is the operand with the larger exponent, y = C2*10^e2, q1/q2 their digit counts,
delta = (q1 + e1) - (q2 + e2), C1s = C1*10^(34-q1) the coefficient of x padded to 34 digits, e1s = e1 - (34 - q1)."""

W = 1 << 64
LO33 = T33 & M64                      # low word of 10^33 = 0x38c15b0a00000000


def _fallback():
    return ('add', None, [fin(0, 1, 0), fin(0, 1, 0)])


def _e1s(rng, below, above=0):
    """exponent e of the padded (34-digit) form of x such that e - below >= QMIN and e + above <= QMAX"""
    return max(QMIN + below, min(QMAX - above, expo(rng)))


def _strip(rng, c1s, e1s, must=False):
    """(C1, e1) with C1*10^e1 = c1s*10^e1s: some (must: all) trailing zeros of the 34-digit c1s moved into the exponent"""
    z = 0
    while z < 33 and c1s % 10 ** (z + 1) == 0: z += 1
    k = z if (must or rng.random() < 0.5) else rng.randint(0, z)
    k = min(k, QMAX - e1s)
    return c1s // 10 ** k, e1s + k


def _emit(rng, X, Y):
    """X, Y = (sign, coeff, exp): the effective sum X + Y as add(X,Y) / add(Y,X) / sub(X,-Y) / sub(Y,-X)"""
    if rng.random() < 0.5: X, Y = Y, X
    if rng.random() < 0.5: return 'add', [fin(*X), fin(*Y)]
    return 'sub', [fin(*X), fin(1 - Y[0], Y[1], Y[2])]


# ------------------------------------------------------------------------------------------- delta = 35, C1s = 10^33, y just above half an ulp of the lower decade
def fam_add_pow10_far_minus_just_above_half_q2_20(rng):
    """bid128_add.rs:524 direction 0.0 (C2_lo > BID_MIDPOINT128[q2-20].w[0] true, reached only when the HIGH words are equal).
    x = 10^(q1-1)*10^e1 (any q1), y of opposite sign with q2 = 20..34 digits and C2 = 5*10^(q2-1) + t where t is so small that C2 and
    5*10^(q2-1) share the high 64-bit word, delta = 35: in the nearest modes the result is 10^34 - 1 one decade lower (y exceeds half an
    ulp below the power of ten).  A few cases have t = 0 (exact half: ties) for contrast."""
    q1 = rng.randint(1, 34); q2 = rng.randint(20, 34)
    half = 5 * 10 ** (q2 - 1); room = M64 - (half & M64)
    k = rng.random()
    t = rng.randint(1, 9) if k < 0.3 else rng.randint(1, room) if k < 0.85 else room if k < 0.92 else 0
    c2 = half + t
    if not (c2 < 10 ** q2 and c2 >> 64 == half >> 64): c2 = half + 1
    span = 35 - q1 + q2                                   # e1 - e2
    e2 = max(QMIN, min(QMAX - span, expo(rng))); e1 = e2 + span
    s = rng.randint(0, 1)
    op, ops = _emit(rng, (s, 10 ** (q1 - 1), e1), (1 - s, c2, e2))
    return (op, rng.choice([0, 0, 4, 4, None]), ops)


# ------------------------------------------------------------------------------------------- delta = 34, y = exactly half an ulp with q2 >= 20, C1s just above 10^33
def fam_add_tie_q2_20_minus_near_pow10(rng):
    """bid128_add.rs:992 directions 0.0 and 1.3 (after 'subtract 1 ulp' the high word of C1 equals that of 10^33 - 1, the low word differs).
    delta = 34, y = 5*10^(q2-1) with q2 = 20..34 digits (exactly half an ulp of the padded x), opposite signs, C1s = 10^33 + u with
    0 < u <= 2^64 - 0x38c15b0a00000000 and u even (q1 = 34 needs an even C1 for this arm; shorter x are padded by the routine), directed
    mode towards zero for the difference (Downward for x > 0, Upward for x < 0, TowardZero): result C1s - 1."""
    room = W - LO33
    k = rng.random()
    u = 2 * rng.randint(1, 50) if k < 0.3 else 2 * rng.randint(1, room // 2) if k < 0.7 else rng.randint(1, room // 10 ** 10) * 10 ** 10 if k < 0.9 else room - (room & 1)
    c1s = T33 + u
    q2 = rng.randint(20, 34)
    e1s = _e1s(rng, q2); e2 = e1s - q2
    c1, e1 = _strip(rng, c1s, e1s)
    s = rng.randint(0, 1)
    mode = rng.choice([3, 2 if s else 1])
    if rng.random() < 0.1: mode = None
    op, ops = _emit(rng, (s, c1, e1), (1 - s, 5 * 10 ** (q2 - 1), e2))
    return (op, mode, ops)


# ------------------------------------------------------------------------------------------- 1 <= delta <= 33, difference 10^33 - 1/2
def fam_add_diff_pow10_minus_half(rng):
    """bid128_add.rs:2089 direction 1.2 (difference C1s - C2* = 10^33 exactly AND the rounding of C2 was a tie resolved downwards,
    is_midpoint_lt_even: the routine must repeat with one more digit of C2).
    Opposite signs, C1s = 10^33 + k, C2 = (k + 1/2)*10^x1 with nd = ndig(k) = 34 - delta digits before the cut, x1 >= 1, nd + x1 <= 34:
    C2 rounds (tie) to k+1, C1s + k + 1 is odd so the tie goes down to k, the difference is 10^33 but the exact value is
    10^33 - 1/2 = (10^34 - 5)/10, which the second pass delivers exactly.  Any mode."""
    nd = rng.randint(1, 33); x1 = rng.randint(1, 34 - nd)
    kk = rng.random()
    k = rng.randint(10 ** (nd - 1), 10 ** nd - 1) if kk < 0.7 else 10 ** (nd - 1) if kk < 0.8 else 10 ** nd - 1 if kk < 0.9 else rng.randint(1, 9) * 10 ** (nd - 1)
    c1s = T33 + k; c2 = (2 * k + 1) * 5 * 10 ** (x1 - 1)
    if ndig(c2) != nd + x1 or c2 >= T34: return _fallback()
    e1s = _e1s(rng, x1); e2 = e1s - x1
    c1, e1 = _strip(rng, c1s, e1s)
    s = rng.randint(0, 1)
    op, ops = _emit(rng, (s, c1, e1), (1 - s, c2, e2))
    return (op, None, ops)


# ------------------------------------------------------------------------------------------- 1 <= delta <= 33, directed rounding carries 10^34 - 1 to 10^34
def fam_add_sum_all_nines_directed_up(rng):
    """bid128_add.rs:2133 direction 1.2 (the +1 ulp of the directed-mode correction makes C1 = 10^34: rounding overflow to 10^33, exponent + 1),
    same-sign arm.  Same signs, C1s + v = 10^34 - 1 where v = floor(C2 / 10^x1) has nd = 34 - delta digits and the discarded tail t of
    C2 = v*10^x1 + t is 0 < t < 10^x1 / 2 (C2 rounded down, sum below the exact value), mode Upward for positive / Downward for negative
    operands.  The result 10^33 * 10^(e+1) can overflow at the top of the exponent range (a tenth of the cases sit there)."""
    nd = rng.randint(1, 33); x1 = rng.randint(1, 34 - nd); half = 5 * 10 ** (x1 - 1)
    v = rng.randint(10 ** (nd - 1), 10 ** nd - 1) if rng.random() < 0.8 else rng.choice([10 ** (nd - 1), 10 ** nd - 1])
    kk = rng.random()
    t = 1 if kk < 0.25 else half - 1 if kk < 0.5 else rng.randint(1, half - 1)
    c1s = T34 - 1 - v; c2 = v * 10 ** x1 + t
    if not (T33 <= c1s < T34): return _fallback()
    e1s = QMAX if rng.random() < 0.1 else _e1s(rng, x1); e2 = e1s - x1
    c1, e1 = _strip(rng, c1s, e1s)
    s = rng.randint(0, 1)
    mode = (1 if s else 2) if rng.random() < 0.9 else None
    op, ops = _emit(rng, (s, c1, e1), (s, c2, e2))
    return (op, mode, ops)


def fam_add_diff_second_pass_all_nines_directed_up(rng):
    """bid128_add.rs:2133 direction 1.2, opposite-sign arm (via the second pass of the C2 rounding loop, lines 2086-2099).
    Opposite signs, C1s = 10^33 + j, C2 = (10j + 1)*10^(x1-1) - t with 0 < t < 10^(x1-1)/2, x1 >= 2, ndig(j) + x1 <= 34: the first pass
    rounds C2 down to j and finds the difference 10^33 with the position flag 'rounded down' -> repeat with x1 - 1; there C2 rounds UP to
    10j + 1, the difference is 10^34 - 1 and lies below the exact value, so Upward (x > 0) / Downward (x < 0) adds one ulp: 10^34."""
    nd = rng.randint(1, 32); x1 = rng.randint(2, 34 - nd); half = 5 * 10 ** (x1 - 2)
    j = rng.randint(10 ** (nd - 1), 10 ** nd - 1) if rng.random() < 0.8 else rng.choice([10 ** (nd - 1), 10 ** nd - 1])
    kk = rng.random()
    t = 1 if kk < 0.25 else half - 1 if kk < 0.5 else rng.randint(1, half - 1)
    c1s = T33 + j; c2 = (10 * j + 1) * 10 ** (x1 - 1) - t
    if ndig(c2) != nd + x1 or c2 >= T34: return _fallback()
    e1s = _e1s(rng, x1); e2 = e1s - x1
    c1, e1 = _strip(rng, c1s, e1s)
    s = rng.randint(0, 1)
    mode = (1 if s else 2) if rng.random() < 0.9 else None
    op, ops = _emit(rng, (s, c1, e1), (1 - s, c2, e2))
    return (op, mode, ops)


ALL = [fam_add_pow10_far_minus_just_above_half_q2_20, fam_add_tie_q2_20_minus_near_pow10, fam_add_diff_pow10_minus_half,
       fam_add_sum_all_nines_directed_up, fam_add_diff_second_pass_all_nines_directed_up]

if __name__ == '__main__':
    import random
    rng = random.Random(int(sys.argv[2]) if len(sys.argv) > 2 else 1)
    n = int(sys.argv[1]) if len(sys.argv) > 1 else 200
    only = sys.argv[3] if len(sys.argv) > 3 else None
    for f in ALL:
        if only and f.__name__ != only: continue
        for _ in range(n):
            op, mode, ops = f(rng)
            print(line(op, rng.choice(MODES) if mode is None else mode, status_in(rng), *ops))
