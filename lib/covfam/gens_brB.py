import os, sys; sys.path.insert(0, os.path.dirname(os.path.dirname(os.path.abspath(__file__)))); from dec import *
"""gens_brB.py - generator families for branch DIRECTIONS of bid128_fma.rs and bid_round.rs that no generated case took (branch round, agent brB).
Each fam_*(rng) returns (op, mode_or_None, [operands as ints]); every random choice comes from rng; on failure of the construction a valid
fallback case is returned.  Notation of directions: line (block.branch), branch even = true, odd = false."""

import math

EMIN = QMIN
EMAX = QMAX
W64 = 1 << 64
W128 = 1 << 128


# ------------------------------------------------------------------------------------------------------------------------ helpers
def _fallback(rng):
    return ('fma', None, [fin(rng.randint(0, 1), coeff(rng), rng.randint(-40, 40)), fin(rng.randint(0, 1), coeff(rng), rng.randint(-40, 40)),
                          fin(rng.randint(0, 1), coeff(rng), rng.randint(-40, 40))])


def _split_exp(rng, e4, lo=QMIN, hi=QMAX):
    """e1, e2 in [lo, hi] with e1 + e2 = e4 (None if impossible)"""
    a = max(lo, e4 - hi); b = min(hi, e4 - lo)
    if a > b: return None
    e1 = rng.randint(a, b) if rng.random() < 0.5 else max(a, min(b, e4 // 2 + rng.randint(-5, 5)))
    return e1, e4 - e1


def _fma(rng, sp, c1, c2, e4, s3, c3, e3, mode=None):
    """assemble x*y+z: product sign sp and coefficient c1*c2 at exponent e4 = e1+e2, addend (s3, c3, e3); None if not representable"""
    if not (0 < c1 < T34 and 0 < c2 < T34 and 0 <= c3 < T34 and QMIN <= e3 <= QMAX): return None
    ee = _split_exp(rng, e4)
    if ee is None: return None
    s1 = rng.randint(0, 1); s2 = s1 ^ sp
    x, y = fin(s1, c1, ee[0]), fin(s2, c2, ee[1])
    if rng.random() < 0.5: x, y = y, x
    return ('fma', mode, [x, y, fin(s3, c3, e3)])


def isqrt_(n): return math.isqrt(n) if n > 0 else 0


def _v10(n):
    v = 0
    while n and n % 10 == 0: n //= 10; v += 1
    return v


def _split_pow(rng, a2, a5):
    """2^a2 * 5^a5 split at random into two factors"""
    i = rng.randint(0, a2); j = rng.randint(0, a5)
    return 2 ** i * 5 ** j, 2 ** (a2 - i) * 5 ** (a5 - j)


def _mid_e4(rng, q4, span=3000):
    return rng.randint(-span, span)


# ------------------------------------------------------------------------------------------------------------------------ bid_round.rs
_SG57 = [110000000000000, 115000000000000, 120000000000000, 125000000000000]   # y with 4y^4+1 = m*10^50+1, 57 digits, m in [5.25e6, 1e7)


def fam_round_product_one_above_exact(rng):
    """bid_round.rs:604 (0.0) [bid_round192_39_57, x >= 39], 1034 (0.0) [bid_round256_58_76, x >= 59], 597 (1.2) and 603 (0.0)
    [bid_round192_39_57, q = 57, x = 50].  The product C4 = C1*C2 is M*10^x + 1, one unit above a value that rounds exactly to q4 - x
    digits, and x is so large that 10^-x + (M+1/2)*eps_x carries out of the low words of the truncated constant: the comparison
    'f* - 1/2 > 10^-x' is decided by 'fstar.w[2] > T.w[2]' (604), 'fstar.w[3] > T.w[3]' (1034) or already by 'fstar.w[3] != 0' (597/603,
    needs M >= 5.25e6 at x = 50).  Such products with two factors below 10^34 come from the identities
    4y^4 + 1 = (2y^2+2y+1)(2y^2-2y+1) and a^3 + 1 = (a+1)(a^2-a+1) with y, a = t * 2^i * 5^j.  They reach bid_round through Case (2)/(4) of
    bid128_ext_fma (the product is rounded to 34 - delta digits before the addend is added), x0 = delta + q4 - 34 = x."""
    for _ in range(40):
        k = rng.random()
        if k < 0.15:
            y = rng.choice(_SG57); c1 = 2 * y * y + 2 * y + 1; c2 = 2 * y * y - 2 * y + 1; xs = [50]
        elif k < 0.75:
            wide = k < 0.45           # products of 60..68 digits, x >= 59
            lo = 15 if wide else 10
            i = rng.randint(lo, 17); j = rng.randint(lo, 17)
            base = 2 ** i * 5 ** j; tmax = 70710678118654752 // base
            if tmax < 1: continue
            t = rng.randint(1, tmax) if rng.random() < 0.5 else rng.randint(1, min(tmax, 9))
            y = t * base; c1 = 2 * y * y + 2 * y + 1; c2 = 2 * y * y - 2 * y + 1; xs = None
        else:
            i = rng.randint(13, 16); j = rng.randint(13, 16)
            base = 2 ** i * 5 ** j; tmax = (10 ** 17 - 1) // base
            if tmax < 1: continue
            t = rng.randint(1, tmax)
            a = t * base; c1 = a + 1; c2 = a * a - a + 1; xs = None
        if not (c1 < T34 and c2 < T34): continue
        C4 = c1 * c2; q4 = ndig(C4); v = _v10(C4 - 1)
        if xs is None:
            xmin = 59 if q4 >= 58 else 39
            xs = list(range(max(xmin, q4 - 33), min(v, q4 - 1) + 1))
        if not xs: continue
        x0 = rng.choice(xs); delta = x0 + 34 - q4
        if not (1 <= delta <= 33): continue
        same = rng.random() < 0.5 or delta < 2
        q3 = rng.randint(1, 34); c3 = coeff(rng, q3)
        e4 = _mid_e4(rng, q4); e3 = delta - q3 + q4 + e4
        sp = rng.randint(0, 1)
        if rng.random() < 0.5: c1, c2 = c2, c1
        r = _fma(rng, sp, c1, c2, e4, sp if same else 1 - sp, c3, e3)
        if r: return r
    return _fallback(rng)


def fam_round_product_small_excess_over_exact(rng):
    """bid_round.rs:597 (1.2), 603 (0.0) [bid_round192_39_57, x >= 39], 990 (0.0), 1000 (0.0) [bid_round256_58_76, 39 <= x <= 58],
    1022 (0.0), 1033 (0.0) and 1021 (0.0), 1032 (0.0) [bid_round256_58_76, x >= 59].  The product C4 = M*10^x + j exceeds a value that rounds
    exactly by a j that is tiny against 10^x: 2 <= j < 2^64 makes the word of f* - 1/2 just above the 10^-x constant non-zero (597/603, 990/1000,
    1022/1033), 2^65 <= j < 2^129 the word above that one (1021/1032, x >= 59 only).
    Products with such a run of zeros: (M*10^a + u)(10^b - v), a >= b, u = M*10^(a-b)*v + w, equal M*10^(a+b) + j with j = w*10^b - u*v:
    about w*10^b for v = 0 or small, and below 2*sqrt(M*w*10^a) for v = isqrt(w*10^(2b-a)/M).  They reach bid_round in Case (2)/(4) of
    bid128_ext_fma (x0 = a + b, delta = 34 - digits(M)) and, for a one-digit M, in Cases (1')/(1''B) (x = q4 - 1: the addend is a power of ten of
    the opposite sign, 35 or 34 digit positions above the product's first digit)."""
    for _ in range(60):
        g = rng.randrange(3)
        if g == 0:   b = rng.randint(6, 28); a = rng.randint(max(b, 39 - b), min(33, 56 - b)); dmax = min(34 - a, 57 - a - b)
        elif g == 1: b = rng.randint(20, 29); a = rng.randint(max(b, 39 - b, 25), min(33, 58 - b)); dmax = 34 - a
        else:        b = rng.randint(26, 33); a = rng.randint(max(b, 59 - b), 33); dmax = min(34 - a, 68 - a - b)
        if a < b or dmax < 1: continue
        dm = 1 if rng.random() < 0.4 else rng.randint(1, dmax)
        if g == 1 and dm + a + b < 58: dm = 58 - a - b
        if not (1 <= dm <= dmax): continue
        M = rng.randint(10 ** (dm - 1), 10 ** dm - 1)
        w = rng.randint(1, 10 ** rng.randint(0, 3))
        k = rng.random()
        if k < 0.25: v = 0
        elif k < 0.45: v = rng.randint(0, 10 ** rng.randint(0, 4))
        else: v = isqrt_(w * 10 ** (2 * b - a) // M) if 2 * b - a >= 0 else 0
        u = M * 10 ** (a - b) * v + w
        c1 = M * 10 ** a + u; c2 = 10 ** b - v
        if not (0 < c1 < T34 and 0 < c2 < T34): continue
        C4 = c1 * c2; j = C4 - M * 10 ** (a + b); q4 = ndig(C4)
        if not (2 <= j < W128 * 2) or q4 != dm + a + b: continue
        e4 = rng.randint(-3000, 3000); sp = rng.randint(0, 1)
        if rng.random() < 0.5: c1, c2 = c2, c1
        if dm == 1 and rng.random() < 0.6:
            q3 = rng.randint(1, 34); c3 = 10 ** (q3 - 1)
            delta = rng.choice([34, 34, 35])
            r = _fma(rng, sp, c1, c2, e4, 1 - sp, c3, delta + q4 + e4 - q3)
        else:
            delta = 34 - dm
            same = rng.random() < 0.5 or delta < 2
            q3 = rng.randint(1, 34); c3 = coeff(rng, q3)
            r = _fma(rng, sp, c1, c2, e4, sp if same else 1 - sp, c3, delta + q4 + e4 - q3)
        if r: return r
    return _fallback(rng)


# ------------------------------------------------------------------------------------------------------------------------ bid128_fma.rs
def _prod_low_digits(rng, g, L, lo, hi, a2, a5):
    """c1, c2 < 10^34 with lo <= c1*c2 <= hi and c1*c2 = L (mod 10^g), where L = 2^a2 * 5^a5 * u with u coprime to 10 (a2, a5 < g).
    c1 takes most of the powers of 2 and 5 and a random unit w1, c2 = A2 * w2 with w2 fixed modulo 10^g / (2^a2 5^a5)."""
    P = 2 ** a2 * 5 ** a5
    md = 10 ** g // P; u = (L // P) % md
    A1, A2 = _split_pow(rng, a2, a5)
    if A2 > 1000: A1, A2 = A1 * (A2 // (A2 % 1000 or 1000)), (A2 % 1000 or 1000)
    if A1 * A2 != P: A1, A2 = P, 1
    if A1 >= T34: return None
    d1 = rng.randint(ndig(A1), 34)
    w1 = rng.randint(max(1, 10 ** (d1 - 1) // A1), max(1, (10 ** d1 - 1) // A1)) | 1
    while w1 % 5 == 0: w1 += 2
    c1 = A1 * w1
    if c1 >= T34: return None
    try: r = (u * pow(w1, -1, md)) % md
    except ValueError: return None
    lo2 = -(-lo // c1); hi2 = min(hi // c1, T34 - 1)          # c2 range
    slo = -(-(lo2 - A2 * r) // (A2 * md)); shi = (hi2 - A2 * r) // (A2 * md)
    if shi < max(slo, 0): return None
    c2 = A2 * (r + md * rng.randint(max(slo, 0), shi))
    if not (0 < c2 < T34) or (c1 * c2 - L) % 10 ** g: return None
    return c1, c2


def fam_addround_subnormal_tie_then_tie(rng):
    """bid128_fma.rs:614 (1.2), 620 (2.4), 626 (2.4) (bid_add_and_round, result below emin, the value rounded to 34 digits is rounded again
    at emin; re-decision of the second rounding from the indicators of the first).  Class: Cases (15)-(17) (product of >= 35 digits,
    addend starts at or above the product's last digit and ends below its first), exact sum R = M*10^x1 + 5*10^(x1-1) of 34 + x1 digits,
    a TIE of the first rounding, at exponent emin - x1 - x2, and
      a) M odd (tie rounded up, is_midpoint_lt_even0), M + 1 = k*10^x2: the second rounding is exact           -> 614 (1.2)
      b) M odd, M + 1 = n*10^x2 + 5*10^(x2-1), n even: second rounding again a tie, rounded down ('pushed up to a midpoint') -> 620 (2.4)
      c) M even (tie rounded down, is_midpoint_gt_even0), M = n*10^x2 + 5*10^(x2-1), n odd: second tie rounded up ('pushed down') -> 626 (2.4)
    The addend is a multiple of 10^emin, so the low x1 + x2 digits of the sum are those of the product: C1*C2 = L (mod 10^(x1+x2))."""
    for _ in range(60):
        kind = rng.choice('abc')
        x1 = rng.randint(1, 34) if rng.random() < 0.5 else rng.randint(1, 6)
        x2 = rng.randint(2 if kind != 'a' else 1, 8 if rng.random() < 0.7 else 33)
        g = x1 + x2
        if kind == 'a': Lp = 10 ** (x2 + 1) - 5
        elif kind == 'b': Lp = 5 * 10 ** x2 - 5
        else: Lp = 5 * 10 ** x2 + 5
        L = Lp * 10 ** (x1 - 1)
        r = _prod_low_digits(rng, g, L, 10 ** (33 + x1), 10 ** (34 + x1) - 1, x1 - 1, x1)
        if r is None: continue
        c1, c2 = r; C4 = c1 * c2; q4 = ndig(C4)
        same = rng.random() < 0.5
        scale = g + (0 if rng.random() < 0.5 else rng.randint(0, 5))
        q3max = min(34, q4 - 1 - scale)
        if q3max < 1: continue
        q3 = rng.randint(1, q3max); c3 = coeff(rng, q3)
        R = C4 + c3 * 10 ** scale if same else C4 - c3 * 10 ** scale
        if R <= 0 or ndig(R) != 34 + x1 or R % 10 ** g != L: continue
        M = R // 10 ** x1; M1 = M + (M & 1)
        if M1 >= T34: continue
        n = M1 // 10 ** x2
        if kind == 'b' and n & 1: continue
        if kind == 'c' and not n & 1: continue
        e4 = EMIN - g; sp = rng.randint(0, 1)
        r = _fma(rng, sp, c1, c2, e4, sp if same else 1 - sp, c3, e4 + scale)
        if r: return r
    return _fallback(rng)


def fam_case24_subnormal_tie_then(rng):
    """bid128_fma.rs:3176 (1.2), 3182 (2.4) (Cases (2)/(4): product rounded to 34 - delta digits and added to the addend scaled to 34 digits;
    the sum lies below emin and is rounded a second time).  Class: the product C4 = n*10^x0 + 5*10^(x0-1) = 5*10^(x0-1)*(2n+1) is a TIE of the
    first rounding which leaves is_midpoint_lt_even as indicator of the sum (same signs: n odd, rounded up to n+1; opposite signs: n even,
    kept, indicator swapped), the addend has q3 < 34 digits and exponent emin + (34 - q3) - x2, and the rounded sum res = C3*10^scale +- nr
      a) ends in x2 zeros: second rounding exact                                        -> 3176 (1.2)
      b) ends in 5*10^(x2-1) with an even digit above: second tie, rounded down          -> 3182 (2.4)"""
    for _ in range(60):
        kind = rng.choice('ab')
        same = rng.random() < 0.5
        delta = rng.randint(1 if same else 2, 33)
        kd = 34 - delta                                   # digits of n
        q3 = rng.randint(1, 33); scale = 34 - q3
        if kind == 'b' and scale < 2: continue
        x2 = rng.randint(2 if kind == 'b' else 1, scale)
        if x2 > kd: continue
        # nr = rounded product: low x2 digits 0 (a) or 5*10^(x2-1) (b)
        low = 0 if kind == 'a' else 5 * 10 ** (x2 - 1)
        hi_lo = 10 ** (kd - 1 - x2) if kd - 1 - x2 >= 0 else 0
        top = rng.randint(max(hi_lo, 0), 10 ** (kd - x2) - 1) if kd > x2 else 0
        nr = top * 10 ** x2 + low
        if nr == 0: continue
        n = nr - 1 if same else nr                      # same signs: n odd, rounded up to nr = n + 1; opposite: n even
        if same and (n & 1) == 0: continue
        if (not same) and (n & 1): continue
        if ndig(n) != kd: continue
        c3 = coeff(rng, q3)
        res = c3 * 10 ** scale + nr if same else c3 * 10 ** scale - nr
        if not (0 < res < T34) or ndig(res) <= x2: continue
        if kind == 'b' and (res // 10 ** x2) & 1: continue
        x0 = rng.randint(1, min(34, 68 - kd)); q4 = kd + x0
        a1, a2 = _split_pow(rng, x0 - 1, x0)
        c1 = (2 * n + 1) * a1; c2 = a2
        if c1 >= T34: c1, c2 = 2 * n + 1, 5 * 10 ** (x0 - 1)
        if c2 >= T34 or ndig(c1 * c2) != q4: continue
        e3 = EMIN + scale - x2
        e4 = q3 + e3 - q4 - delta
        sp = rng.randint(0, 1)
        r = _fma(rng, sp, c1, c2, e4, sp if same else 1 - sp, c3, e3)
        if r: return r
    return _fallback(rng)


def fam_case24_carry35_tie_even_exact(rng):
    """bid128_fma.rs:2860 (1.2) (Cases (2)/(4), same signs: addend scaled to 34 digits + rounded product >= 10^34, rounded again from 35 to 34
    digits).  Class: the product is a TIE 5*10^(x0-1)*(2n+1) with n even (kept, is_midpoint_gt_even0) and the 35-digit sum ends in 0, so the
    second rounding is exact and the result is marked is_inexact_lt_midpoint from the first one."""
    for _ in range(60):
        delta = rng.randint(1, 33); kd = 34 - delta
        q3 = rng.randint(max(1, 34 - kd + 0), 34) if rng.random() < 0.7 else rng.randint(1, 34)
        scale = 34 - q3
        n = rng.randint(10 ** (kd - 1), 10 ** kd - 1) & ~1
        if scale >= 1: n -= n % 10
        if ndig(n) != kd: continue
        # C3 * 10^scale >= 10^34 - n, sum = 0 (mod 10)
        c3lo = -(-(T34 - n) // 10 ** scale)
        if c3lo >= 10 ** q3: continue
        c3 = rng.randint(c3lo, min(10 ** q3 - 1, c3lo + 10 ** rng.randint(0, q3)))
        if scale == 0: c3 += (-(c3 + n)) % 10
        if not (10 ** (q3 - 1) <= c3 < 10 ** q3): continue
        s = c3 * 10 ** scale + n
        if s < T34 or s % 10: continue
        x0 = rng.randint(1, min(34, 68 - kd)); q4 = kd + x0
        a1, a2 = _split_pow(rng, x0 - 1, x0)
        c1 = (2 * n + 1) * a1; c2 = a2
        if c1 >= T34: c1, c2 = 2 * n + 1, 5 * 10 ** (x0 - 1)
        if c2 >= T34 or ndig(c1 * c2) != q4: continue
        e4 = rng.randint(-3000, 3000) if rng.random() < 0.8 else rng.choice([EMIN + 40, EMAX - 110 + rng.randint(0, 40)])
        e3 = delta + q4 + e4 - q3
        sp = rng.randint(0, 1)
        r = _fma(rng, sp, c1, c2, e4, sp, c3, e3)
        if r: return r
    return _fallback(rng)


def _two_factors(rng, lo, hi):
    """c1 * c2 in [lo, hi] (both < 10^34), c1 small"""
    for _ in range(8):
        c1 = rng.randint(1, 10 ** rng.randint(0, 6))
        a = -(-lo // c1); b = hi // c1
        if a <= b and b < T34: return c1, rng.randint(a, b)
    return None


def fam_overflow_product_first_pow10_compare(rng):
    """bid128_fma.rs:1844 (1.3), 1846 (0.1) (Case (1') reached after the swap of Case (8): the product, of at most 34 digits, lies in
    [10^(emax+34), 10^(emax+35)), the addend has the opposite sign and q + e = emax; round-to-nearest modes test whether the product
    is exactly 10^(emax+34)).  Class: a 20-digit product >= 2^64 (the test 'C3.w[1] == 0' fails) or a product 10^(q-1) + d, q >= 21, whose
    high word equals that of 10^(q-1) but whose low word differs."""
    for _ in range(40):
        if rng.random() < 0.4:
            qp = 20; r = _two_factors(rng, W64, 10 ** 20 - 1)
        else:
            qp = rng.randint(21, 34); p = 10 ** (qp - 1)
            room = W64 - (p % W64) - 1
            r = _two_factors(rng, p + 1, p + min(room, 10 ** rng.randint(0, 19)))
        if r is None: continue
        c1, c2 = r
        if ndig(c1 * c2) != qp: continue
        qz = rng.randint(1, 34); cz = coeff(rng, qz)
        sp = rng.randint(0, 1)
        r = _fma(rng, sp, c1, c2, EMAX + 35 - qp, 1 - sp, cz, EMAX - qz, rng.choice([0, 4, 0, 4, 1, 2, 3]))
        if r: return r
    return _fallback(rng)


def fam_half_ulp_wide_product(rng):
    """bid128_fma.rs:2230 (0.1), 2243 (0.1), 2244 (0.0), 2248 (0.1), 2249 (0.1) (Case (1''B), delta = 34: the product, entirely below the
    34-digit addend, is compared word by word with half an ulp of the addend, 5*10^(q4-1)).  Class: products of 39..67 digits within
    2^64 (or 2^128) of 5*10^(q4-1): (5*10^a + u)(10^b - v) with u = 5*10^(a-b)*v + w differs from 5*10^(a+b) by d = w*10^b - u*v, which is
    small of either sign for v near sqrt(w*10^(2b-a)/5) and about w*10^b for small v."""
    for _ in range(60):
        b = rng.randint(19, 33); a = rng.randint(b, 33)
        q4 = a + b + 1
        w = rng.randint(1, 10 ** rng.randint(0, 4))
        k = rng.random()
        v0 = isqrt_(w * 10 ** (2 * b - a) // 5)
        if k < 0.6: v = v0 + rng.randint(0, 1)
        elif k < 0.8: v = v0 + rng.randint(-3, 3)
        else: v = rng.randint(1, max(1, v0 // 10 ** rng.randint(1, 6)))
        if v < 1: continue
        u = 5 * 10 ** (a - b) * v + w
        c1 = 5 * 10 ** a + u; c2 = 10 ** b - v
        if not (0 < c1 < T34 and 0 < c2 < T34): continue
        C4 = c1 * c2
        if ndig(C4) != q4 or q4 < 39: continue
        q3 = rng.randint(1, 34); c3 = coeff(rng, q3)
        e4 = rng.randint(-3000, 3000)
        e3 = 34 + q4 + e4 - q3
        sp = rng.randint(0, 1)
        if rng.random() < 0.5: c1, c2 = c2, c1
        r = _fma(rng, sp, c1, c2, e4, rng.randint(0, 1), c3, e3)
        if r: return r
    return _fallback(rng)


def fam_exact_sum_pow10_at_emin_same_sign(rng):
    """bid128_fma.rs:3056 (0.1) (Cases (3)/(5): exact sum, result coefficient exactly 10^33 at exponent emin, product and addend of the
    SAME sign - the test for the spurious-underflow correction then fails on the signs).  Class: z = (10^33 - C1*C2)*10^emin, x*y =
    C1*C2*10^emin with C1*C2 <= 9*10^32."""
    for _ in range(40):
        qp = rng.randint(1, 33)
        r = _two_factors(rng, 10 ** (qp - 1), min(10 ** qp - 1, 9 * 10 ** 32))
        if r is None: continue
        c1, c2 = r
        if rng.random() < 0.5 and c2 > 1:
            d = rng.randint(2, 97)
            if c2 % d == 0 and c1 * d < T34: c1, c2 = c1 * d, c2 // d
        c3 = T33 - c1 * c2
        if ndig(c3) != 33: continue
        s = rng.randint(0, 1)
        r = _fma(rng, s, c1, c2, EMIN, s, c3, EMIN)
        if r: return r
    return _fallback(rng)


def fam_tiny_exact_sum_21_digits(rng):
    """bid128_fma.rs:3084 (0.1) (Cases (3)/(5), exact sum below emin: digit count of the sum, 'res.w[1] == 5 && res.w[0] < low word of
    10^20' fails).  Class: exact sum S in [10^20, 6*2^64) - 21 digits, high word 5 -, product exponent emin - x2 (1 <= x2 <= k), addend
    k digit positions above it: S = C3*10^k +- C4."""
    for _ in range(40):
        S = rng.randint(10 ** 20, 6 * W64 - 1) if rng.random() < 0.7 else rng.choice([10 ** 20 + rng.randint(0, 99), 6 * W64 - 1 - rng.randint(0, 99)])
        k = rng.randint(1, 18); same = rng.random() < 0.6
        if same: c3 = S // 10 ** k; C4 = S % 10 ** k
        else: c3 = S // 10 ** k + 1; C4 = c3 * 10 ** k - S
        if C4 <= 0 or c3 <= 0: continue
        q3 = ndig(c3); q4 = ndig(C4)
        if not same and q3 + k - q4 < 2: continue
        c1, c2 = C4, 1
        for d in (2, 3, 5, 7, 11, 13):
            if c1 % d == 0 and rng.random() < 0.5: c1 //= d; c2 *= d
        x2 = rng.randint(1, k)
        e4 = EMIN - x2; sp = rng.randint(0, 1)
        r = _fma(rng, sp, c1, c2, e4, sp if same else 1 - sp, c3, e4 + k)
        if r: return r
    return _fallback(rng)


def fam_case7_tie_just_above_pow10(rng):
    """bid128_fma.rs:3420 (1.3) (Case (7): product of 34 + x0 digits, addend of the opposite sign entirely below the product's last digit; a tie
    rounded up to even is corrected by -1 and the test for 10^33 - 1 fails in the low word only).  Class: product
    (10^33 + d - 1)*10^x0 + 5*10^(x0-1) = 5*10^(x0-1)*(2*10^33 + 2d - 1), d even, 2 <= d < 1.43e19 (high word of 10^33 + d - 1 = high word of 10^33)."""
    for _ in range(40):
        d = 2 * rng.randint(1, 10 ** rng.randint(1, 19) // 2)
        if d - 1 >= 0xC73EA4F600000000: continue
        x0 = rng.randint(1, 34); q4 = 34 + x0
        c1 = 2 * T33 + 2 * d - 1; c2 = 5 * 10 ** (x0 - 1)
        f = rng.choice([1, 1, 2, 4])
        if c2 % f == 0 and c1 * f < T34: c1 *= f; c2 //= f
        q3 = rng.randint(1, 34); c3 = coeff(rng, q3)
        e4 = rng.randint(-3000, 3000)
        e3 = e4 - q3 - rng.randint(0, 40)
        sp = rng.randint(0, 1)
        r = _fma(rng, sp, c1, c2, e4, 1 - sp, c3, e3)
        if r: return r
    return _fallback(rng)


def fam_case1112_tie_addend_low128_ones(rng):
    """bid128_fma.rs:3593 (0.1) (Cases (11)/(12), opposite signs: the addend, a tie at the product's last place, is rounded up to an even C3r
    and subtracted from an odd product; re-deciding the tie adds 1 to a difference whose two low words are all ones while the third is
    not).  Class: product (A*2^64 + a)(B*2^64 - b) with a*B - b*A = j: = A*B*2^128 + t, t = j*2^64 - a*b small and odd; C3r = t + 1."""
    for _ in range(60):
        A = rng.randint(1, 5 * 10 ** rng.randint(4, 14)); B = rng.randint(1, 5 * 10 ** rng.randint(4, 14))
        a = rng.randint(0, 1 << rng.randint(1, 20)) | 1
        b = (a * B) // A
        if b % 2 == 0: b -= 1
        if b < 1: continue
        j = a * B - b * A
        t = j * W64 - a * b
        if j < 1 or t <= 0 or t % 2 == 0: continue
        c1 = A * W64 + a; c2 = B * W64 - b
        if not (0 < c1 < T34 and 0 < c2 < T34): continue
        C4 = c1 * c2; C3r = t + 1; n = ndig(C3r); q4 = ndig(C4)
        if q4 < 35 or n > 33 or (C4 - C3r + 1) % W128 or ((C4 - C3r) >> 128) % W64 == W64 - 1: continue
        x0 = rng.randint(1, 34 - n)
        c3 = (C3r - 1) * 10 ** x0 + 5 * 10 ** (x0 - 1)
        if ndig(c3) != n + x0: continue
        e4 = rng.randint(-3000, 3000) if rng.random() < 0.8 else rng.choice([EMIN + x0 + rng.randint(0, 3), EMAX - q4 - rng.randint(0, 3)])
        sp = rng.randint(0, 1)
        if rng.random() < 0.5: c1, c2 = c2, c1
        r = _fma(rng, sp, c1, c2, e4, 1 - sp, c3, e4 - x0)
        if r: return r
    return _fallback(rng)


def fam_half_ulp_addend_product_beyond_emax(rng):
    """bid128_fma.rs:2344 (0.0) (Case (1''B) reached after the swap of Case (8): the product of at most 34 digits has q + e = emax + 35, i.e.
    scaled to 34 digits its exponent is emax + 1; the addend of the opposite sign is about half an ulp of it (delta = 34) and the
    difference still overflows; round-to-nearest-even returns infinity here, the other modes go through bid_rounding_correction)."""
    for _ in range(40):
        qp = rng.randint(1, 34); cp = coeff(rng, qp)
        r = _two_factors(rng, cp, cp) if rng.random() < 0.3 else (cp, 1)
        if r is None: continue
        c1, c2 = r
        qz = rng.randint(1, 34)
        cz = coeff(rng, qz) if rng.random() < 0.5 else rng.choice([5 * 10 ** (qz - 1), 5 * 10 ** (qz - 1) + 1, max(1, 5 * 10 ** (qz - 1) - 1)])
        sp = rng.randint(0, 1)
        r = _fma(rng, sp, c1, c2, EMAX + 35 - qp, 1 - sp if rng.random() < 0.8 else sp, cz, EMAX + 1 - qz, rng.choice([0, 0, 1, 2, 3, 4]))
        if r: return r
    return _fallback(rng)


ALL = [fam_round_product_one_above_exact, fam_round_product_small_excess_over_exact, fam_addround_subnormal_tie_then_tie, fam_case24_subnormal_tie_then, fam_case24_carry35_tie_even_exact,
       fam_overflow_product_first_pow10_compare, fam_half_ulp_wide_product, fam_exact_sum_pow10_at_emin_same_sign, fam_tiny_exact_sum_21_digits,
       fam_case7_tie_just_above_pow10, fam_case1112_tie_addend_low128_ones, fam_half_ulp_addend_product_beyond_emax]
