import os, sys; sys.path.insert(0, os.path.dirname(os.path.dirname(os.path.abspath(__file__)))); from dec import *
# Generator families for BRANCH DIRECTIONS of decmathlib-rs that no generated case took although the line was executed
# (package brD: bid128_sqrt.rs, bid_sqrt_macros.rs, bid_internal.rs; the listed directions of bid128_round_integral.rs,
# bid128_nearbyint.rs, bid_binarydecimal.rs, bid128_quantize.rs, bid128_frexp.rs are all dead - see the report).
# Each family: fam_x(rng) -> (op, mode_or_None, [operands as ints]); every random choice comes from rng.
import math, struct

W64 = 1 << 64
_M256 = (1 << 256) - 1


def _w(v, i): return (v >> (64 * i)) & M64
def _sx(v): return v - W64 if v >> 63 else v


def _long_sqrt_parts(C256):
    """bit-exact model of bid_long_sqrt128 (bid_sqrt_macros.rs:98-216; same as gens_covC._long_sqrt_pre) up to its final rounding.
    Returns (S, sh, neg, ES0): floor(S / 2^sh) is the 128-bit value the routine rounds, CS = (floor(S/2^sh) + 1) >> 1;
    neg = the error term ES is negative (line 166), ES0 = ES.w[0] before the negation (line 169 tests -ES0 != 0)."""
    l64 = 2.0 ** 64; l128 = l64 * l64
    lx = float(_w(C256, 3)) * l64 * l128
    lx += float(_w(C256, 2)) * l128
    lx += float(_w(C256, 1)) * l64
    lx += float(_w(C256, 0))
    bits = struct.unpack('<Q', struct.pack('<d', 1.0 / math.sqrt(lx)))[0]
    MY = (bits & 0x000fffffffffffff) | 0x0010000000000000
    ey = 0x3ff - (bits >> 52)
    ARS0 = MY * C256; ARS = MY * ARS0
    k = (ey << 1) + 104 - 128 - 192; k2 = 64 - k
    ES0 = ((_w(ARS, 3) >> (k + 1)) | (_w(ARS, 4) << (k2 - 1))) & M64
    ES1 = ((_w(ARS, 4) >> k) | (_w(ARS, 5) << k2)) & M64
    ES1 = (_sx(ES1) >> 1) & M64
    ARS1 = _w(ARS0, 3) | (_w(ARS0, 4) << 64)
    ARS00 = (ARS0 >> 64) & _M256
    neg = _sx(ES1) < 0
    if neg:
        e0 = (-ES0) & M64; e1 = (-_sx(ES1)) & M64
        if e0 != 0: e1 = (e1 - 1) & M64
        S = (ARS00 + (e0 | (e1 << 64)) * ARS1) & _M256
    else:
        e1 = ES1
        S = (ARS00 - (ES0 | (ES1 << 64)) * ARS1) & _M256
    ES32 = (e1 + (e1 >> 1)) & M64
    S = (S + ((ES32 * e1 * ARS1) & _M256)) & _M256
    return S, 64 + ey + 51 - 128, neg, ES0, MY, ey


def _long_sqrt_cs(C256):
    S, sh = _long_sqrt_parts(C256)[:2]
    return ((S >> sh) + 1) >> 1


def _cmp3(a, b):
    """(index of the highest 64-bit word in which the 256-bit values a, b differ, sign of a - b there); (-1, 0) if equal"""
    for i in (3, 2, 1, 0):
        x = _w(a, i); y = _w(b, i)
        if x != y: return i, (1 if x > y else -1)
    return -1, 0


def _sqrt_events(cx, s):
    """the word comparisons of bid128_sqrt.rs:147-247 for the argument cx * 10^s (s = 33: odd exponent, 34: even), from the
    bit-exact model of the root: N1 = 4C vs (2CS+1)^2 (:147), N2 = (2CS-1)^2 vs 4C (:169), D1 = CS^2 vs C (:187),
    D2 = (CS-1)^2 vs C (:214), D3 = (CS+1)^2 vs C (:241); each with (highest differing word, sign)."""
    C = cx * 10 ** s; CS = _long_sqrt_cs(C); ev = {}
    i, sg = _cmp3(4 * C, (2 * CS + 1) ** 2); ev['N1'] = (i, sg)
    if sg <= 0: ev['N2'] = _cmp3((2 * CS - 1) ** 2, 4 * C)
    i, sg = _cmp3(CS * CS, C); ev['D1'] = (i, sg)
    if sg > 0: ev['D2'] = _cmp3((CS - 1) ** 2, C)
    else: ev['D3'] = _cmp3((CS + 1) ** 2, C)
    return ev


def _sqrt_arg(rng, cx, s):
    """a 34-digit coefficient cx reaches bid_long_sqrt128 as cx * 10^s: s = 33 for odd exponents, 34 for even ones"""
    return fin(0, cx, rng.randint(-3000, 3000) * 2 + (1 if s == 33 else 0))


def _near_boundary(rng, sh, below):
    """34-digit cx and s in {33, 34} such that cx * 10^s is the multiple of 10^s nearest below / at-or-above j * 2^sh
    (sh = 192: word 3 of C256 changes there; sh = 190: word 3 of 4 * C256 changes there)"""
    s = rng.choice([33, 34]); p = 10 ** s
    lo = 10 ** 66 if s == 33 else 10 ** 67
    j = rng.randint((lo >> sh) + 1, ((lo * 10) >> sh) - 1)
    B = j << sh
    cx = (B - 1) // p if below else -(-B // p)
    return (cx, s) if T33 <= cx < T34 else None


# what each direction needs: (event, sign at word 3), boundary shift, side of the boundary, rounding modes
_SQRT_W3 = {
    'N1-': ('N1', -1, 190, True, [0, 4]),    # :148 (0.1)  4C < j*2^192 <= (2CS+1)^2
    'N2-': ('N2', -1, 190, False, [0, 4]),   # :170 (0.1)  (2CS-1)^2 < j*2^192 <= 4C <= (2CS+1)^2
    'D1+': ('D1', 1, 192, True, [1, 2, 3]),    # :187 (0.0)  C < j*2^192 <= CS^2
    'D1-': ('D1', -1, 192, False, [1, 2, 3]),  # :188 (0.1)  CS^2 < j*2^192 <= C
    'D2-': ('D2', -1, 192, False, [1, 2, 3]),  # :215 (0.1)  (CS-1)^2 < j*2^192 <= C < CS^2
}


def fam_sqrt_top_word_boundary(rng):
    """bid128_sqrt.rs:148 (0.1), :170 (0.1) (round-to-nearest modes), :187 (0.0), :188 (0.1), :215 (0.1) (directed modes): the 256-bit
    comparisons of the scaled argument C256 (or 4*C256) with the squared root candidate are decided in the TOP word w[3].
    Class: 34-digit coefficients cx (exponent parity gives the scaling s = 33 / 34) such that cx*10^s is the multiple of 10^s next to
    a multiple of 2^192 (directed: CS^2 resp. (CS-1)^2 on the other side of it) or 4*cx*10^s is next to one (nearest: (2CS+-1)^2 on the
    other side), checked with the bit-exact model of bid_long_sqrt128."""
    kind = rng.choice(list(_SQRT_W3))
    evn, sg, sh, below, modes = _SQRT_W3[kind]
    for _ in range(40):
        r = _near_boundary(rng, sh, below)
        if r is None: continue
        if _sqrt_events(*r).get(evn) == (3, sg):
            return ('sqrt', rng.choice(modes), [_sqrt_arg(rng, *r)])
    return ('sqrt', 0, [fin(0, 7456431370338166688795104213017705, 0)])


def _search_sqrt_roundup_w3(rng, tries):
    """arguments for bid128_sqrt.rs:147 (0.0): N = 2*CS + 1 odd with N^2 < j*2^192 <= 4*C, i.e. bid_long_sqrt128 returned CS although
    the root exceeds CS + 1/2 (its approximation of 2*sqrt(C) is from below by up to ~0.5, median 0.03) AND a multiple of 2^192 lies
    between (2CS+1)^2 and 4C.  About 1 multiple of 2^192 in 700 has such an argument next to it; the pre-filter keeps those j whose
    root sqrt(j*2^192) is less than 0.55 above an odd integer."""
    for _ in range(tries):
        s = rng.choice([33, 34]); p = 10 ** s
        lo = 10 ** 66 if s == 33 else 10 ** 67
        j = rng.randint((lo >> 190) + 1, ((lo * 10) >> 190) - 1)
        B = j << 192
        N = math.isqrt(B - 1)
        if not N & 1 or (B - N * N) * 20 > 22 * N: continue       # B - N^2 < 1.1 N  <=>  sqrt(B) - N < 0.55
        cx = -(-B // (4 * p))
        if not T33 <= cx < T34: continue
        if _sqrt_events(cx, s).get('N1') == (3, 1): return (s, cx)
    return None


def fam_sqrt_roundup_top_word(rng):
    """bid128_sqrt.rs:147 (0.0) (round-to-nearest modes: `C4.w[3] > M256.w[3]`, the round-up of an under-rounded root is decided in the
    top word).  Class: see _search_sqrt_roundup_w3; served from _RUP3_TAB (found by that search), 1 case in 6 by a fresh search."""
    r = None
    if rng.random() < 0.16: r = _search_sqrt_roundup_w3(rng, 400)
    if r is None: r = rng.choice(_RUP3_TAB)
    return ('sqrt', rng.choice([0, 4]), [_sqrt_arg(rng, r[1], r[0])])


def fam_sqrt_es_low_word_zero(rng):
    """bid_sqrt_macros.rs:169 (0.1) (bid_long_sqrt128: the 128-bit error term ES = (MY^2*C256 - 2^(2ey+104)) >> (k+1) is negative and
    its LOW word is zero, so the two-word negation must not borrow from the high word).  A 2^-64 coincidence; instances were
    constructed by solving MY^2*10^s*cx mod 2^(257+k) < 2^(193+k) for cx inside the interval on which the double-precision
    reciprocal root MY is constant (_search_es0); served from _ES0_TAB, 1 case in 25 by a fresh search.  With an empty table: as
    fam_sqrt_top_word_boundary."""
    r = None
    if rng.random() < 0.04:                       # a fresh search: about 1 cell in 13 has an instance, 1 ms per cell
        f = _search_es0(rng, 12)
        if f: r = rng.choice(f)
    if r is None:
        if not _ES0_TAB: return fam_sqrt_top_word_boundary(rng)
        r = rng.choice(_ES0_TAB)
    s, cx = r
    return ('sqrt', None, [_sqrt_arg(rng, cx, s)])


# ------------------------------------------------------------------------------------------------ div, deep underflow
def fam_div_uf_just_above_midpoint_far(rng):
    """bid_internal.rs:334 (0.1) (bid_handle_UF_128_rem, round-to-nearest-even, odd rounded quotient: `Qh1.w[1] == 0` holds but
    `Qh1.w[0] == 0` does not, i.e. the fraction f* left after adding 1/2 ulp is in [2^-128, 2^-64)).
    Class: INEXACT quotients that underflow by ed2 = 23..35 digits whose 34-digit quotient is A|5|0...0|t with A even and a small
    tail t (103 <= t, 10*t+1 < 10^ed2 / 2^64), followed by a nonzero remainder: the discarded part exceeds the midpoint by
    between 2^-128 and 2^-64 of the result's ulp; the rounded result A+1 is odd.  (t < 103 gives Qh1 == 0, the class of
    gens_covC.fam_div_uf_above_midpoint.)  Neighbours with t on both sides of the two bounds are mixed in."""
    for _ in range(60):
        x = rng.randint(23, 35)
        rmax = (10 ** x >> 64)                      # r = 10*t + 1 must satisfy r * 2^(128+amount)/10^x < 2^(64+amount)
        tlo, thi = 103, (rmax - 1) // 10
        kk = rng.random()
        if kk < 0.6: t = rng.randint(tlo, max(tlo, min(thi, 10 ** rng.randint(3, 17))))
        elif kk < 0.75: t = rng.randint(tlo, thi)
        elif kk < 0.85: t = rng.choice([tlo, tlo + 1, thi, thi - 1])
        elif kk < 0.93: t = rng.choice([tlo - 1, tlo - 2, 100, 99, 1])
        else: t = thi + rng.randint(1, 3)
        if x == 35:
            Q = 5 * T33 + t
        else:
            u = 10 ** (x - 1)
            A = rng.randint(-(-T33 // u), T34 // u - 1) & ~1
            Q = A * u + 5 * 10 ** (x - 2) + t
        if not T33 <= Q < T34: continue
        y = rng.randint(5 * T33, T34 - 1)
        cx = -(-(Q * y) // T34)
        rem = cx * T34 - Q * y
        if not (0 < rem < y) or not (0 < cx < T34): continue
        d = -6141 - x                               # ex - ey: the quotient's exponent ex - ey - 34 is emin - (x - 1)
        ey = rng.randint(max(QMIN, QMIN - d), min(QMAX, QMAX - d))
        return ('div', rng.choice([0, 0, 0, 0, 4, None]), [fin(rng.randint(0, 1), cx, ey + d), fin(rng.randint(0, 1), y, ey)])
    return ('div', 0, [fin(0, 1, -6170), fin(0, 3, 0)])


def _search_es0(rng, cells=64):
    """(s, cx) with ES.w[0] == 0 and ES negative in bid_long_sqrt128(cx * 10^s): development-time search (see fam_sqrt_es_low_word_zero)"""
    out = []
    for _ in range(cells):
        s = rng.choice([33, 34]); p = 10 ** s
        c0 = rng.randint(T33, T34 - 1)
        MY, ey = _long_sqrt_parts(c0 * p)[4:6]
        k = (ey << 1) + 104 - 128 - 192
        # ES (128 bits) = bits [193+k, 321+k) of MY^2*C;  ES.w[0] = bits [193+k, 257+k)
        A = MY * MY * p; M = 1 << (257 + k); R = (1 << (193 + k)) - 1
        # the cell: cx with the same (MY, ey); bracket it by doubling then bisect
        def same(c): return T33 <= c < T34 and _long_sqrt_parts(c * p)[4:6] == (MY, ey)
        lo = c0; step = 1 << 40
        while same(lo - step): lo -= step; step <<= 1
        a = lo - step; b = lo
        while b - a > 1:
            m = (a + b) // 2
            if same(m): b = m
            else: a = m
        lo = b
        hi = c0; step = 1 << 40
        while same(hi + step): hi += step; step <<= 1
        a = hi; b = hi + step
        while b - a > 1:
            m = (a + b) // 2
            if same(m): a = m
            else: b = m
        hi = a
        x = lo
        while True:
            c = _first_from(A, M, 0, R, x)
            if c is None or c > hi: break
            pr = _long_sqrt_parts(c * p)
            if pr[2] and pr[3] == 0 and pr[4:6] == (MY, ey): out.append((s, c))
            x = c + 1
    return out


def _first(A, M, L, R):
    """smallest x >= 0 with L <= (A*x mod M) <= R  (0 <= L <= R < M), or None"""
    if L == 0: return 0
    A %= M
    if A == 0: return None
    if 2 * A > M: return _first(M - A, M, M - R, M - L)
    k = (L + A - 1) // A
    if k * A <= R: return k
    y = _first(M % A, A, (-R) % A, (-L) % A)
    if y is None: return None
    return (M * y + L + A - 1) // A


def _first_from(A, M, L, R, x0):
    """smallest x >= x0 with (A*x mod M) in [L, R]"""
    off = (A * x0) % M
    lo = (L - off) % M; hi = (R - off) % M
    r = _first(A, M, lo, hi) if lo <= hi else 0
    return None if r is None else x0 + r


ALL = [fam_sqrt_top_word_boundary, fam_sqrt_roundup_top_word, fam_sqrt_es_low_word_zero, fam_div_uf_just_above_midpoint_far]

# ------------------------------------------------------------------------------------------------ tables (from the _search_* routines)
_RUP3_TAB = [
    (33, 2047287737894258931669762106435934),
    (33, 2349694958804406076971835865676795),
    (33, 3216816513654324447814222939413417),
    (33, 3485439979136486581731114549282788),
    (33, 3520952865809662488212927870141426),
    (33, 4228785900815416090810452281042105),
    (33, 4670999818340873766484942358566096),
    (33, 5051060830997449896362570215878303),
    (33, 5214998804804841880589216620816858),
    (33, 5308346381903697604336675652474636),
    (33, 6125430010854328446390124585070474),
    (33, 6585657887461155163113852399846450),
    (33, 6669334294684414781641714856766208),
    (33, 6923726043627458177456894928957390),
    (33, 7564915740757916436752904011515026),
    (33, 7692922696022059503072026275030937),
    (33, 7737205112816111439641859179752740),
    (33, 8741629655944032501667146164418941),
    (33, 8763665807627864170769458679090161),
    (33, 8821711356885763663568652970768658),
    (33, 9042335725789974238002093550204008),
    (33, 9572030146810633583881051578522430),
    (33, 9594842327166358505246175966086357),
    (33, 9837293586444572729158634875521978),
    (33, 9844128705262205513529003566076488),
    (34, 1787473825019782566548106259231301),
    (34, 2242876385713395236502431383797974),
    (34, 2437694312307083101895541630523159),
    (34, 2896714146875310834055571567185902),
    (34, 3191128009297467224964092011816409),
    (34, 3918352793476085417335107010130099),
    (34, 3985542193065661646770972437959909),
    (34, 4123801937974809692759231295392847),
    (34, 4403287783165935933690282113348238),
    (34, 4461863516052349108630167362788261),
    (34, 4512884375195511358375918779345562),
    (34, 4830928958159861285823181543220677),
    (34, 5115070215225326885004063098018211),
    (34, 5438127895013652842237781871606277),
    (34, 5538957537909658284453862023921152),
    (34, 5541955726191591556497885748353674),
    (34, 5577071467542781456613120019034874),
    (34, 5893139385835121643209172243560200),
    (34, 6132274631163930542194498474763539),
    (34, 6162816739036044788506227299458991),
    (34, 6204526074690612369522079093737380),
    (34, 6258863410091722755424001445032854),
    (34, 6261560080930347595950874699238327),
    (34, 6286041894551681919605009183471670),
    (34, 6419950841837940191879542612676226),
    (34, 6528559230682878951720530724920023),
    (34, 6622807875221704026718948104724555),
    (34, 6730909944723506697502173210111055),
    (34, 6843281570458988899883337799021327),
    (34, 6987298340864224264128107416504076),
    (34, 7027234150000794797593624753386937),
    (34, 7223757106122922823999238328606306),
    (34, 7602146410147128289366528546041219),
    (34, 7900857663041334350262165513044748),
    (34, 7928775979893739832950028541680141),
    (34, 7929820408804823333525615982654374),
    (34, 7942500486996696404162644760586093),
    (34, 8093036552162908371322502682960944),
    (34, 8131001646221421506817504463151126),
    (34, 8158737301610312844480478137656830),
    (34, 8180472231973110448932305216054367),
    (34, 8190956992383529273543070418857213),
    (34, 8208027488793663248468804899232469),
    (34, 8263778807584092792542263320563099),
    (34, 8290342014141282852122141314128231),
    (34, 8337528972548825717307685449003204),
    (34, 8490214364427497099361186474444982),
    (34, 8901387538537938726502107731806057),
    (34, 8942623685235402045976601025427830),
    (34, 8953611201164446693857125567318528),
    (34, 9047098419610073090012859004523183),
    (34, 9088675797561176742071692385548633),
    (34, 9131982150771493164868139956741864),
    (34, 9269977948417422045854957111202293),
    (34, 9293328857420253031249296266187888),
    (34, 9316291513243416359049026420775342),
    (34, 9428746393277707798669830897431997),
    (34, 9457766414455981317701910986702215),
    (34, 9465555324288044573440311749541371),
    (34, 9516320388083083861482262437569992),
    (34, 9618579911913191045562248169536211),
    (34, 9655000313080601175570165355185025),
    (34, 9666062760342336568105637995853015),
    (34, 9674975274366657364009438727820925),
    (34, 9706183981411474149654888380612596),
    (34, 9751898340696765272459256727754884),
    (34, 9789824180899576167346101860835908),
    (34, 9790132092512567350505612412389853),
    (34, 9820042618494792542236262524228068),
    (34, 9854281369171284427022610253508215),
    (34, 9856717001869489367505241804437787),
    (34, 9857113788141256109753681163208070),
    (34, 9894555121144823667375082523320569),
    (34, 9929810941356775196350240438903169),
    (34, 9949983959639916825956978587517687),
]
_ES0_TAB = [
    (33, 1471365096668771314235337365116567),
    (33, 1999314439002949824747201339041283),
    (33, 2919369694686461891753116569854586),
    (33, 2975942189275606756699624361517016),
    (33, 3101771778717809254312797484346394),
    (33, 3618704821186299792227766309515951),
    (33, 3636108435532365244659302953168478),
    (33, 3804665811863140680131201914460938),
    (33, 4569012884892767995179279586036655),
    (33, 4649745722535930805052525661986316),
    (33, 4866706605997389155020407418721678),
    (33, 5098401256092239921464701051283278),
    (33, 5224425592203900785061532865387469),
    (33, 5999770127797567772569280511906591),
    (33, 6179375497856518527545320703852092),
    (33, 6233152214607674018785924164026489),
    (33, 6475648438298382558594431537851904),
    (33, 6537349867476302502952405066799600),
    (33, 6685439373326622342413427973732881),
    (33, 6735342069287563120685511021847248),
    (33, 6979561447842285751837119725866145),
    (33, 7076866423917821985488132454631956),
    (33, 7377721034694479003392727677562180),
    (33, 7403533773769790872430024776864381),
    (33, 7520465470156302295162750745740328),
    (33, 7608371529867425701727540361817173),
    (33, 7650087376451657033103112344696458),
    (33, 7670412483001566876653276529526319),
    (33, 7695834319079498772178394844956607),
    (33, 7704984665738071829819566081845581),
    (33, 8214684168687850142922165716463052),
    (33, 8493263653823363800125899349406047),
    (33, 8518034941908925684881612407405708),
    (33, 8591210479121398838395343662285701),
    (33, 8667356577598258357919050462990481),
    (33, 8690797235548094459969406380267259),
    (33, 8911607192193736881817707399360332),
    (33, 9290219978393330578367813909954100),
    (33, 9553180241148816030471116095730702),
    (33, 9605069530319821329624405930229654),
    (33, 9790947112459498341159348272050021),
    (33, 9920916448228024728015809543092906),
    (34, 2150658191085707500386487391773865),
    (34, 4145322326131812971029149179733394),
    (34, 5121173194664708584622089140134508),
    (34, 6393086834030872848987349157920207),
    (34, 6838600559628259722870810897323408),
    (34, 7573310865644625588877930253133587),
    (34, 7695958368218912871518041522586401),
    (34, 8290729353392198412109424649952680),
    (34, 8641095976370306007931242599232015),
    (34, 8858770094664661780401505193475850),
    (34, 8863873469220917200836802656889305),
    (34, 9071548216849534463477374483998405),
    (34, 9353593306993933422642236335318858),
    (34, 9405828557682778880415587516531563),
    (34, 9673072039107750058917343591601439),
    (34, 9729175016945914491785585933429444),
    (34, 9909285862077171691249048713661800),
    (34, 9918523983871061777937680087267491),
]
