import os, sys; sys.path.insert(0, os.path.dirname(os.path.dirname(os.path.abspath(__file__)))); from dec import *
"""families written after the triage of mutation-scan survivors (tools/mutscan.py, DESIGN section 22)"""


def fam_quantize_tie_plus_small(rng):
    """bid128_quantize.rs:184-189 (NearestEven tie check through the reciprocal product): x with k dropped digits whose kept part is EVEN or odd and
    whose dropped tail is 5*10^(k-1) + j for a small j >= 0 (a tie or a hair above it); half of the cases with a 20-digit coefficient just above
    2^64 (where the high word of the low product equals a word of the reciprocal constant: a mutant comparing the wrong word fires there)"""
    k = rng.choice([1, 1, 2, 3, 4, rng.randint(1, 20)])
    if rng.random() < 0.5 and k <= 4:
        c = rng.randint(1 << 64, 25 * 10 ** 18)
    else:
        q = rng.randint(k + 1, 34); c = coeff(rng, q)
    j = rng.choice([0, 1, 1, 2, 3, 6, rng.randint(0, max(1, 10 ** k // 2 ** 20))])
    kept = c // 10 ** k
    if rng.random() < 0.7: kept -= kept % 2                   # even kept part: the tie goes down, 'just above' goes up
    c = kept * 10 ** k + 5 * 10 ** (k - 1) + j
    if not 0 < c < T34 or j >= 5 * 10 ** (k - 1): c = 2 * 10 ** k + 5 * 10 ** (k - 1)
    e = rng.randint(-60, 60)
    return ('quantize', rng.choice([0, 0, 0, 4, 1, 2, 3]), [fin(rng.randint(0, 1), c, e), fin(rng.randint(0, 1), rng.choice([1, 7, coeff(rng, 5)]), e + k)])


ALL = [fam_quantize_tie_plus_small]
