# Generator families for source lines of decmathlib-rs that the quick streams never executed (package covD:
# to-integer conversions, round-to-integral, nearbyint, next*, binary->decimal, quantize, frexp, string scanner, d128.rs).
# Each family: fam_x(rng) -> (op, mode_or_None, [operands])   operands are ints (128-bit BID patterns / integers);
# for the string operations (parse / fromstr / fromstr2) the single operand is a str = hex of the UTF-8 bytes of the
# literal, which is what dec.line() passes through unchanged.   mode None = any of 0..4, status_in is the caller's choice.
import sys
sys.path.insert(0, __import__('os').path.dirname(__import__('os').path.dirname(__import__('os').path.abspath(__file__))))
from dec import *

W64 = 1 << 64


def _tail(rng, x):
    """a non-zero x-digit fractional tail: the rounding classes (just above 0, below / at / above the midpoint, just below 1) and random"""
    k = rng.random(); h = 5 * 10 ** (x - 1)
    if k < 0.15: r = 1
    elif k < 0.30: r = 10 ** x - 1
    elif k < 0.40: r = h
    elif k < 0.50: r = h - 1 if h > 1 else h
    elif k < 0.60: r = h + 1 if h + 1 < 10 ** x else h
    elif k < 0.70: r = rng.randint(1, 9) * 10 ** rng.randint(0, x - 1)
    else: r = rng.randint(1, 10 ** x - 1)
    return max(1, min(r, 10 ** x - 1))


def fam_rint_lowword_carry(rng):
    """bid128_round_integral.rs:533,557 (round_integral_exact, Downward, negative: `res.w[1] += 1` after the low word wrapped)
    bid128_nearbyint.rs:420 (Downward, negative, 3 <= ind-1 <= 21) and :535 (Upward, positive, 3 <= ind-1 <= 21)
    (the sibling carries of the ind-1 <= 2 arms and of rint_dn / rint_up are the same class).
    Class: a non-integer x = -(I + f) (Downward) or +(I + f) (Upward) whose integral part I has an all-ones low 64-bit word,
    I = k * 2^64 + (2^64 - 1) >= 2^64 - 1 (20..33 digits), with 1..14 fractional digits (0 < f < 1): the truncated quotient
    has low word 0xffffffffffffffff and the directed rounding increments it, so the carry must ripple into the high word."""
    try:
        x = rng.randint(1, 14) if rng.random() < 0.8 else rng.choice([1, 2, 3, 4, 14])
        kmax = (10 ** (34 - x) - W64) // W64          # I < 10^(34-x)
        kk = rng.random()
        k = 0 if kk < 0.25 else rng.randint(0, min(kmax, 9)) if kk < 0.4 else rng.randint(0, kmax) if kk < 0.85 else kmax - rng.randint(0, min(kmax, 3))
        I = k * W64 + W64 - 1
        c = I * 10 ** x + _tail(rng, x)
        assert 0 < c < T34
        op = rng.choice(['rint', 'rint', 'nearbyint', 'nearbyint', 'rint_dn', 'rint_up', 'modf'])
        if op == 'rint_dn': return (op, None, [fin(1, c, -x)])
        if op == 'rint_up': return (op, None, [fin(0, c, -x)])
        if rng.random() < 0.85:
            mode = rng.choice([1, 2]); s = 1 if mode == 1 else 0       # the sign for which the directed mode moves away from zero
        else:
            mode = rng.choice(MODES); s = rng.randint(0, 1)
        return (op, mode, [fin(s, c, -x)])
    except Exception:
        return ('rint', 1, [fin(1, (W64 - 1) * 10 + 5, -1)])


def fam_parse_zero_fraction_beyond_emin(rng):
    """bid128_string.rs:349 (`right_radix_leading_zeros = 6176` clamp in the zero-detection loop of the scanner).
    Class: a zero literal that consists of (optional sign, optional integer zeros,) a decimal point and MORE than 6176
    fractional zeros and then ends ("0.000...0", ".000...0"): the exponent -n of the zero has to be clamped to -6176.
    A few neighbours with exactly 6175 / 6176 zeros (no clamp) and with something after the zeros are mixed in."""
    try:
        k = rng.random()
        n = rng.choice([6177, 6177, 6178, 6180, 6200, 6300]) if k < 0.6 else rng.randint(6177, 6500) if k < 0.85 else rng.choice([6175, 6176])
        head = rng.choice(['0', '0', '', '', '00', '000000'])
        s = rng.choice(['', '', '+', '-']) + head + '.' + '0' * n
        if rng.random() < 0.08: s += rng.choice(['1', 'e5', 'E-3', 'e+6176', '.', 'x'])
        op = rng.choice(['parse', 'parse', 'parse', 'fromstr', 'fromstr2'])
        return (op, None, [s.encode().hex()])
    except Exception:
        return ('parse', None, [('0.' + '0' * 6177).encode().hex()])


ALL = [fam_rint_lowword_carry, fam_parse_zero_fraction_beyond_emin]
