"""Generator families for source lines of bid128_fma.rs that no quick-tier case executed (coverage round, agent covB).
Each fam_*(rng) returns (op, mode_or_None, [operands]); every random choice comes from rng."""
import sys
sys.path.insert(0, __import__('os').path.dirname(__import__('os').path.dirname(__import__('os').path.abspath(__file__))))
from dec import *

EMIN = QMIN
W64 = 1 << 64


def _fallback(rng):
    return ('fma', None, [fin(rng.randint(0, 1), coeff(rng), rng.randint(-40, 40)), fin(rng.randint(0, 1), coeff(rng), rng.randint(-40, 40)),
                          fin(rng.randint(0, 1), coeff(rng), rng.randint(-40, 40))])


def _split_exp(rng, e4, lo=QMIN, hi=QMAX):
    """e1, e2 in [lo, hi] with e1 + e2 = e4 (None if impossible)"""
    a = max(lo, e4 - hi); b = min(hi, e4 - lo)
    if a > b: return None
    e1 = rng.randint(a, b) if rng.random() < 0.5 else max(a, min(b, e4 // 2 + rng.randint(-5, 5)))
    return e1, e4 - e1


def _fma(rng, sp, c1, e1, c2, e2, s3, c3, e3, mode=None):
    """assemble an fma case; sp = sign of the product, spread over x and y; operands swapped at random"""
    if not (0 < c1 < T34 and 0 < c2 < T34 and 0 <= c3 < T34 and QMIN <= e1 <= QMAX and QMIN <= e2 <= QMAX and QMIN <= e3 <= QMAX):
        return None
    s1 = rng.randint(0, 1); s2 = s1 ^ sp
    x, y = fin(s1, c1, e1), fin(s2, c2, e2)
    if rng.random() < 0.5: x, y = y, x
    return ('fma', mode, [x, y, fin(s3, c3, e3)])


def _factor_in(rng, lo, hi, tries=6):
    """c1, c2 < 10^34 with lo <= c1 * c2 <= hi, or None; works when the interval is wide enough: some c1 <= hi - lo + 1 has hi / c1 < 10^34"""
    w = hi - lo + 1
    c1min = hi // (T34 - 1) + 1
    if w < 1 or c1min > min(w, T34 - 1): return None
    for _ in range(tries):
        top = min(w, T34 - 1)
        # log-uniform-ish choice of c1 in [c1min, top]
        d_lo, d_hi = ndig(c1min), ndig(top)
        d = rng.randint(d_lo, d_hi)
        a = max(c1min, 10 ** (d - 1)); b = min(top, 10 ** d - 1)
        if a > b: continue
        c1 = rng.randint(a, b)
        c2 = hi // c1 - (rng.randint(0, 3) if rng.random() < 0.3 else 0)
        if 0 < c2 < T34 and lo <= c1 * c2 <= hi: return c1, c2
    return None


# ------------------------------------------------------------------------------------------------------------------------------------
def fam_cancel_underflow(rng):
    """bid128_fma.rs:503-508, 519-521, 542-544 (bid_add_and_round, second rounding when the exact sum lies entirely at or below the last
    subnormal place).  Opposite signs, delta = (q3+e3)-(q4+e4) in {0,1}, product exponent e4 < emin, x*y = -(z) +- d with a small d whose digit
    count ind is compared with x0 = emin - e4: x0 > ind (result 0 or 1 ulp by mode), x0 = ind with d below / equal / above half, x0 < ind."""
    for _ in range(20):
        q3 = rng.randint(1, 34); c3 = coeff(rng, q3)
        q2 = rng.randint(1, 24)
        scale = rng.randint(max(1, q2 - 1), 45)
        T = c3 * 10 ** scale
        if ndig(T) - q2 > 34 or ndig(T) - q2 < 0: continue
        k = rng.random()
        if k < 0.25 and scale >= q2:           # d exactly half a unit of its own decade: 5 * 10^(i-1)
            c2 = 5 * 10 ** (q2 - 1); c1 = T // c2 + rng.choice([1, -1])
        else:
            c2 = coeff(rng, q2); c1 = T // c2 + rng.choice([0, 0, 1, 1, -1, 2, rng.randint(-9, 9)])
        if not (0 < c1 < T34): continue
        d = abs(c1 * c2 - T); ind = max(1, ndig(d))
        x0 = ind + rng.choice([0, 0, 0, 1, 1, 2, -1, rng.randint(1, 12)])
        x0 = max(1, min(x0, scale))
        e4 = EMIN - x0; e3 = e4 + scale
        ee = _split_exp(rng, e4)
        if ee is None: continue
        sp = rng.randint(0, 1)
        r = _fma(rng, sp, c1, ee[0], c2, ee[1], 1 - sp, c3, e3)
        if r: return r
    return _fallback(rng)


def fam_tiny_exact_zero_addend(rng):
    """bid128_fma.rs:1667-1687 (x * y + 0 where the product is exact and tiny, its exponent e4 >= emin, and the zero addend has a smaller
    exponent e3 < e4: the coefficient is scaled up by min(34 - q4, e4 - e3) to reach the preferred exponent); all three multiplication
    shapes (64x64, 64x128 with scale > 19, 128x64)"""
    for _ in range(20):
        q4 = rng.randint(1, 33)
        q1 = rng.randint(1, q4); c1 = coeff(rng, q1)
        c2 = coeff(rng, max(1, q4 - q1 + rng.randint(0, 1)))
        C4 = c1 * c2; q4 = ndig(C4)
        if q4 > 33: continue
        e4 = rng.randint(EMIN + 1, EMIN + 33 - q4 + 1) if EMIN + 34 - q4 > EMIN + 1 else EMIN + 1
        if q4 + e4 >= EMIN + 34: continue
        e3 = rng.randint(EMIN, e4 - 1) if rng.random() < 0.8 else max(EMIN, e4 - rng.randint(1, 3))
        ee = _split_exp(rng, e4)
        if ee is None: continue
        r = _fma(rng, rng.randint(0, 1), c1, ee[0], c2, ee[1], rng.randint(0, 1), 0, e3)
        if r: return r
    return _fallback(rng)


def _split_pow(rng, n2, n5):
    """c1, c2 with c1 * c2 = 2^n2 * 5^n5, both below 10^34 (or None)"""
    for _ in range(8):
        a2 = rng.randint(0, n2); a5 = rng.randint(0, n5)
        c1 = 2 ** a2 * 5 ** a5; c2 = 2 ** (n2 - a2) * 5 ** (n5 - a5)
        if c1 < T34 and c2 < T34: return c1, c2
    a = min(n2, n5) // 2
    c1 = 10 ** a; c2 = 2 ** (n2 - a) * 5 ** (n5 - a)
    return (c1, c2) if c1 < T34 and c2 < T34 else None


def fam_pow10_at_emin_minus_product(rng):
    """bid128_fma.rs:2572-2573, 2582, 2586-2587 (Case (1''B), delta = 34: the addend scaled to 34 digits is exactly 10^33 * 10^emin, the
    product has the opposite sign and its leading digit sits exactly one place below the addend's last digit, q4 + e4 = emin): product
    above half an ulp (result 10^33 - 1, tiny), exactly half (tie), below half"""
    for _ in range(20):
        q3 = rng.randint(1, 34); c3 = 10 ** (q3 - 1); e3 = EMIN + 34 - q3
        k = rng.random()
        if k < 0.3:      # exactly half an ulp: C4 = 5 * 10^(q4-1)
            q4 = rng.randint(1, 60); f = _split_pow(rng, q4 - 1, q4)
            if f is None: continue
            c1, c2 = f
        else:
            q1 = rng.randint(1, 34); q2 = rng.randint(1, 34)
            c1 = coeff(rng, q1); c2 = coeff(rng, q2)
            if k < 0.6:      # leading digits of the product around one half
                lead = rng.choice(['5', '50', '500000', '49', '4999999', '51', '500001', '6', '9', '1'])
                t = int(lead + ''.join(rng.choice('0123456789') for _ in range(rng.randint(0, 33 - len(lead)))))
                c1 = t; c2 = rng.choice([1, 1, 10, 100, 10 ** rng.randint(0, 33)])
        C4 = c1 * c2; q4 = ndig(C4); e4 = EMIN - q4
        ee = _split_exp(rng, e4)
        if ee is None: continue
        sp = rng.randint(0, 1)
        r = _fma(rng, sp, c1, ee[0], c2, ee[1], 1 - sp, c3, e3)
        if r: return r
    return _fallback(rng)


_P2E34M1 = [7, 2857142857142857142857142857142857]          # 2 * 10^34 - 1 = 199...9 (35 digits) = 7 * (a 34-digit prime)


def fam_nines_five_product_far_addend(rng):
    """bid128_fma.rs:3420-3422 (Case (7): product with more than 34 digits, addend entirely below the product's last digit).  The product
    is 99...9 (34 nines) 5 0...0 = (2*10^34 - 1) * 5 * 10^(x0-1), a tie that rounds up to 10^34 -> 10^33 with an exponent increment; an
    opposite-signed addend, however small, makes the correct result (10^34 - 1) one exponent lower (also with the same sign: no change)"""
    for _ in range(20):
        x0 = rng.randint(1, 32)
        g = 2 if (x0 >= 2 and rng.random() < 0.4) else 1      # the 34-digit prime can take at most one factor 2
        f1 = _P2E34M1[1] * g; f2 = 7 * 5 ** x0 * 2 ** (x0 - 1) // g
        if not (f1 < T34 and f2 < T34): continue
        q4 = 34 + x0
        q3 = rng.randint(1, 34); c3 = coeff(rng, q3)
        e4 = rng.randint(-3000, 3000) if rng.random() < 0.7 else rng.choice([QMAX - 33 - x0 - rng.randint(0, 3), EMIN + 34 + rng.randint(0, 40)])
        gap = rng.choice([0, 0, 1, 2, rng.randint(0, 80)])          # delta - q4
        e3 = e4 - q3 - gap
        if e3 < EMIN: continue
        ee = _split_exp(rng, e4)
        if ee is None: continue
        sp = rng.randint(0, 1); s3 = (1 - sp) if rng.random() < 0.8 else sp
        r = _fma(rng, sp, f1, ee[0], f2, ee[1], s3, c3, e3)
        if r: return r
    return _fallback(rng)


def _prod_below_2_192(rng):
    """c1, c2 < 10^34 with c1 * c2 = s*t*2^192 - s*t*m^2, s*t*m^2 < 2^64: words 1 and 2 of the 256-bit product are all ones and word 0 is
    2^64 - s*t*m^2 (a carry out of word 0 ripples through both)"""
    for _ in range(20):
        s = rng.randint(1, 126217) if rng.random() < 0.5 else rng.randint(1, 9)
        t = rng.randint(1, 126216) if rng.random() < 0.5 else rng.randint(1, 9)
        lim = (W64 - 1) // (s * t)
        mmax = int(lim ** 0.5)
        while mmax * mmax > lim: mmax -= 1
        if mmax < 1: continue
        m = rng.randint(1, mmax) if rng.random() < 0.6 else rng.choice([1, 2, 3, mmax, max(1, mmax - 1)])
        c1 = s * ((1 << 96) - m); c2 = t * ((1 << 96) + m)
        if c1 < T34 and c2 < T34: return c1, c2
    return None


def fam_add256_ripple_carry(rng):
    """bid128_fma.rs:136 (bid_add256: carry out of word 0 rippling through words 1 and 2 of the product into word 3).  Product of 58..68
    digits of the form s*t*(2^192 - m^2) (middle words all ones), same-signed addend overlapping the low word: Cases (11)/(12) (addend
    rounded, then added) and Cases (15)-(17) (addend scaled by 10^scale, scale < 64)"""
    for _ in range(20):
        f = _prod_below_2_192(rng)
        if f is None: continue
        c1, c2 = f; C4 = c1 * c2; q4 = ndig(C4); low = W64 - (C4 & (W64 - 1))
        q3 = rng.randint(1, 34); c3 = coeff(rng, q3)
        if rng.random() < 0.5:      # addend's last digit at or above the product's last digit (Cases 15-17): e3 = e4 + scale
            scale = rng.randint(0, min(40, q4 - q3 - 1))
            e3off = scale
        else:                       # addend reaching below the product's last digit (Cases 11/12): x0 = e4 - e3 in 1..q3-1
            if q3 < 2: continue
            e3off = -rng.randint(1, q3 - 1)
        e4 = rng.randint(-3000, 3000) if rng.random() < 0.8 else rng.choice([EMIN + 40 + rng.randint(0, 10), QMAX - q4 - rng.randint(0, 3)])
        e3 = e4 + e3off
        ee = _split_exp(rng, e4)
        if ee is None: continue
        sp = rng.randint(0, 1); s3 = sp if rng.random() < 0.85 else 1 - sp
        r = _fma(rng, sp, c1, ee[0], c2, ee[1], s3, c3, e3)
        if r: return r
    return _fallback(rng)


def _k64(rng, lo, hi):
    """a multiple of 2^64 in [lo, hi] (None if there is none); one time in five any even number in the range"""
    a = (lo + W64 - 1) // W64; b = hi // W64
    if a > b or b < 1: return None
    a = max(a, 1)
    u = rng.random()
    if u < 0.2:      # now and then any even coefficient: the same double-rounding class without the word borrow
        v = rng.randint(lo, hi) & ~1
        if lo <= v <= hi: return v
    k = rng.randint(a, b) if u < 0.75 else rng.choice([a, b, min(b, a + 1)])
    return k * W64


def fam_mul_underflow_double_round_w64(rng):
    """bid128_fma.rs:1622 (x * y + 0, product of more than 34 digits rounded up to 34 digits and then, being below emin, rounded again at a
    false tie up to an even coefficient K that is a multiple of 2^64; the correction K - 1 borrows from the high word).  Exact product =
    (K - 1/2 - eps) * 10^(emin), K = k * 2^64 with 20..33 digits"""
    for _ in range(20):
        xb = rng.randint(1, 14); xa = rng.randint(1, 34)
        K = _k64(rng, 10 ** (33 - xb) + 2, 4 * 10 ** (33 - xb))
        if K is None: continue
        R34 = (K - 1) * 10 ** xb + 5 * 10 ** (xb - 1)
        hi = R34 * 10 ** xa - 1; lo = R34 * 10 ** xa - 5 * 10 ** (xa - 1) + 1
        if rng.random() < 0.15: lo = hi = R34 * 10 ** xa        # first rounding exact: a true tie
        f = _factor_in(rng, lo, hi)
        if f is None: continue
        e4 = EMIN - xa - xb
        ee = _split_exp(rng, e4)
        if ee is None: continue
        r = _fma(rng, rng.randint(0, 1), f[0], ee[0], f[1], ee[1], rng.randint(0, 1), 0, rng.choice([EMIN, 0, rng.randint(EMIN, QMAX)]))
        if r: return r
    return _fallback(rng)


def fam_addround_underflow_double_round_w64(rng):
    """bid128_fma.rs:595 (bid_add_and_round, Cases (15)-(17): exact sum of more than 34 digits rounded up to 34 digits, then below emin
    rounded again at a false tie up to an even K = k * 2^64; the correction borrows from the high word).  Same-signed or opposite-signed
    addend whose last digit is not below the product's"""
    for _ in range(20):
        xb = rng.randint(1, 14); xa = rng.randint(1, 30)
        K = _k64(rng, 10 ** (33 - xb) + 2, 4 * 10 ** (33 - xb))
        if K is None: continue
        R34 = (K - 1) * 10 ** xb + 5 * 10 ** (xb - 1)
        hi = R34 * 10 ** xa - 1; lo = R34 * 10 ** xa - 5 * 10 ** (xa - 1) + 1
        ind = 34 + xa
        scale = rng.randint(xa + xb, xa + xb + 20)
        q3 = rng.randint(1, 34)
        if q3 + scale >= ind: continue
        c3 = coeff(rng, q3); Z = c3 * 10 ** scale
        same = rng.random() < 0.6
        f = _factor_in(rng, lo - Z, hi - Z) if same else _factor_in(rng, lo + Z, hi + Z)
        if f is None: continue
        e4 = EMIN - xa - xb; e3 = e4 + scale
        ee = _split_exp(rng, e4)
        if ee is None: continue
        sp = rng.randint(0, 1)
        r = _fma(rng, sp, f[0], ee[0], f[1], ee[1], sp if same else 1 - sp, c3, e3)
        if r: return r
    return _fallback(rng)


def fam_case24_underflow_double_round_w64(rng):
    """bid128_fma.rs:3155 (Cases (2)/(4): addend scaled to 34 digits +- the product rounded (upwards in the result's direction) to 34 - delta
    digits, result exponent below emin, second rounding at a false tie up to an even K = k * 2^64; the correction borrows from the high word)"""
    for _ in range(20):
        xb = rng.randint(1, 14)
        K = _k64(rng, 10 ** (33 - xb) + 2, 10 ** (34 - xb) - 2)
        if K is None: continue
        res = (K - 1) * 10 ** xb + 5 * 10 ** (xb - 1)
        same = rng.random() < 0.6
        n = rng.randint(xb, 32)                              # digits of the rounded product, 34 - delta
        R = rng.randint(10 ** (n - 1), 10 ** n - 1)
        R = R - R % 10 ** xb + 5 * 10 ** (xb - 1)          # low xb digits of the result come from R alone (Z ends in xb zeros)
        if ndig(R) != n: continue
        Z = res - R if same else res + R
        if not (10 ** 33 <= Z < T34) or Z % 10 ** xb: continue
        tz = 0
        while Z % 10 ** (tz + 1) == 0: tz += 1
        scale = rng.randint(xb, min(tz, 33)); c3 = Z // 10 ** scale; q3 = 34 - scale
        x0 = rng.randint(1, min(30, 68 - n))
        if same: lo, hi = R * 10 ** x0 - 5 * 10 ** (x0 - 1) + 1, R * 10 ** x0 - 1
        else: lo, hi = R * 10 ** x0 + 1, R * 10 ** x0 + 5 * 10 ** (x0 - 1) - 1
        f = _factor_in(rng, lo, hi)
        if f is None: continue
        q4 = ndig(f[0] * f[1]); delta = 34 - n
        e3 = EMIN - xb + scale; e4 = q3 + e3 - q4 - delta
        ee = _split_exp(rng, e4)
        if ee is None: continue
        sp = rng.randint(0, 1)
        r = _fma(rng, sp, f[0], ee[0], f[1], ee[1], sp if same else 1 - sp, c3, e3)
        if r: return r
    return _fallback(rng)


def fam_case24_carry35_double_round_w64(rng):
    """bid128_fma.rs:2837 (Cases (2)/(4), same signs: addend scaled to 34 digits + product rounded up to 34 - delta digits gives 35 digits
    ending in 5 whose rounding to 34 digits is a false tie up to an even K = k * 2^64 just above 10^33; the correction borrows from the
    high word)"""
    for _ in range(20):
        n = rng.randint(21, 33); scale = rng.randint(0, 3) if rng.random() < 0.7 else rng.randint(0, n - 1)
        K = _k64(rng, T33 + 2, T33 + 10 ** (n - 1) - 10 ** (n - 2))
        if K is None: continue
        S35 = 10 * (K - 1) + 5
        lowR = S35 - (T34 - 1)                       # R >= lowR so that Z < 10^34
        R = rng.randint(max(lowR, 10 ** (n - 1)), 10 ** n - 1) if max(lowR, 10 ** (n - 1)) <= 10 ** n - 1 else None
        if R is None: continue
        R = R - R % 10 ** scale + S35 % 10 ** scale
        if ndig(R) != n or R < lowR: continue
        Z = S35 - R
        if not (T33 <= Z < T34) or Z % 10 ** scale: continue
        c3 = Z // 10 ** scale; q3 = 34 - scale
        if ndig(c3) != q3: continue
        x0 = rng.randint(1, min(30, 68 - n))
        f = _factor_in(rng, R * 10 ** x0 - 5 * 10 ** (x0 - 1) + 1, R * 10 ** x0 - 1)
        if f is None: continue
        q4 = ndig(f[0] * f[1]); delta = 34 - n
        e3 = rng.randint(-3000, 3000) if rng.random() < 0.8 else rng.choice([QMAX - rng.randint(0, 2), EMIN + scale + rng.randint(0, 3)])
        e4 = q3 + e3 - q4 - delta
        ee = _split_exp(rng, e4)
        if ee is None: continue
        sp = rng.randint(0, 1)
        r = _fma(rng, sp, f[0], ee[0], f[1], ee[1], sp, c3, e3)
        if r: return r
    return _fallback(rng)


def fam_case1112_double_round_w64(rng):
    """bid128_fma.rs:3697 (Cases (11)/(12): the addend reaches below the product's last digit, is rounded (upwards in the result's
    direction) to the product's exponent and added/subtracted; the sum of more than 34 digits rounds at a false tie up to an even
    K = k * 2^64; the correction borrows from the high word)"""
    for _ in range(20):
        xa = rng.randint(1, 30); ind = 34 + xa
        K = _k64(rng, T33 + 2, T34 - 2)
        if K is None: continue
        S = (K - 1) * 10 ** xa + 5 * 10 ** (xa - 1)
        n = rng.randint(max(1, xa), 33); x0 = rng.randint(1, 34 - n)
        same = rng.random() < 0.6
        if same: f = _factor_in(rng, S - 10 ** n + 1, S - 10 ** (n - 1))
        else: f = _factor_in(rng, S + 10 ** (n - 1), S + 10 ** n - 1)
        if f is None: continue
        C4 = f[0] * f[1]; C3r = S - C4 if same else C4 - S
        if C3r < 1: continue
        r_ = rng.randint(1, max(1, 5 * 10 ** (x0 - 1) - 1)) if x0 > 1 else rng.randint(1, 4)
        c3 = C3r * 10 ** x0 - r_ if same else C3r * 10 ** x0 + r_
        if not (0 < c3 < T34): continue
        e4 = rng.randint(-3000, 3000) if rng.random() < 0.8 else rng.choice([EMIN + x0 + rng.randint(0, 3), QMAX - ind - rng.randint(0, 3)])
        e3 = e4 - x0
        ee = _split_exp(rng, e4)
        if ee is None: continue
        sp = rng.randint(0, 1)
        r = _fma(rng, sp, f[0], ee[0], f[1], ee[1], sp if same else 1 - sp, c3, e3)
        if r: return r
    return _fallback(rng)


def fam_case4_tie_product_odd_addend(rng):
    """bid128_fma.rs:2901, 2905-2908 (same signs) and 3001 (opposite signs).  Case (4) with a 34-digit odd addend C3 (scale 0) and a
    product that is an exact tie at the addend's last place, C4 = (2R +- 1) * 5 * 10^(x0-1) with R even: the tie is re-decided on the
    odd sum C3 +- R.  The sum is k * 2^64 - 1 (increment carries into the high word) or 10^34 - 1 (rounding overflow to 10^33, exponent + 1)"""
    for _ in range(20):
        same = rng.random() < 0.55
        n = rng.randint(1, 33 if same else 32)
        R = rng.randint(10 ** (n - 1), 10 ** n - 1) & ~1
        if R < 2: R = 2
        k = rng.random()
        if same and k < 0.4: T = T34 - 1
        else:
            K = _k64(rng, T33 + 10 ** n + 2, T34 - 10 ** n - 2)
            if K is None: continue
            T = K - 1
        c3 = T - R if same else T + R
        if not (T33 <= c3 < T34) or c3 % 2 == 0: continue
        x0 = rng.randint(1, 33)
        odd = 2 * R + 1 if same else 2 * R - 1            # C4 = odd * 5 * 10^(x0-1): tie above R (same: R kept, gt_even) / tie below R (opposite: rounded up to R)
        n2, n5 = x0 - 1, x0
        a2 = rng.randint(0, n2); a5 = rng.randint(0, n5)
        c1 = odd * 2 ** a2 * 5 ** a5; c2 = 2 ** (n2 - a2) * 5 ** (n5 - a5)
        if c1 >= T34 or c2 >= T34: c1 = odd; c2 = 5 * 10 ** (x0 - 1)
        if c1 >= T34 or c2 >= T34: continue
        q4 = ndig(c1 * c2); delta = 34 - (q4 - x0)
        e3 = rng.randint(-3000, 3000) if rng.random() < 0.75 else rng.choice([QMAX - rng.randint(0, 1), QMAX, EMIN, EMIN + rng.randint(0, 3)])
        e4 = 34 + e3 - q4 - delta
        ee = _split_exp(rng, e4)
        if ee is None: continue
        sp = rng.randint(0, 1)
        r = _fma(rng, sp, c1, ee[0], c2, ee[1], sp if same else 1 - sp, c3, e3)
        if r: return r
    return _fallback(rng)


def fam_case1112_tie_addend_odd_product(rng):
    """bid128_fma.rs:3589-3595 (Cases (11)/(12), opposite signs: the addend, an exact tie at the product's last place, is rounded up to an
    even C3r and subtracted from an odd product; the tie is re-decided on the odd difference by adding 1, and the carry runs through
    one, two or three all-ones 64-bit words).  Variant a: any odd product, C3r = (C4 + 1) mod 2^64 + h * 2^64.  Variant b: product
    (s*2^96 + a)(s*2^96 - b) = s^2 * 2^192 + t with small odd t = s(a-b)2^96 - ab and C3r = t + 1, so that C4 - C3r = s^2 * 2^192 - 1"""
    for _ in range(30):
        if rng.random() < 0.5:
            q1 = rng.randint(2, 34); q2 = rng.randint(max(1, 36 - q1), 34)
            c1 = coeff(rng, q1) | 1; c2 = coeff(rng, q2) | 1
            C4 = c1 * c2
            if ndig(C4) < 35: continue
            low = (C4 + 1) % W64
            n = rng.randint(20, 33)
            hlo = (10 ** (n - 1) - low + W64 - 1) // W64; hhi = (10 ** n - 1 - low) // W64
            if hlo > hhi or hhi < 0: continue
            C3r = low + rng.randint(max(0, hlo), hhi) * W64
        else:
            s = rng.randint(1, 126217) if rng.random() < 0.5 else rng.randint(1, 5)
            b = rng.randint(1, 1 << rng.randint(8, 49)) | 1
            j = 2 * rng.randint(1, 1 << rng.randint(0, 12))
            a = b + j
            t = s * j * (1 << 96) - a * b
            if t <= 0 or t % 2 == 0 or t + 1 >= T33: continue
            c1 = s * (1 << 96) + a; c2 = s * (1 << 96) - b
            if not (0 < c1 < T34 and 0 < c2 < T34): continue
            C4 = c1 * c2; C3r = t + 1
        n = ndig(C3r)
        if C3r % 2 or C3r >= C4 or n > 33: continue
        x0 = rng.randint(1, 34 - n)
        c3 = (C3r - 1) * 10 ** x0 + 5 * 10 ** (x0 - 1)
        if ndig(c3) != n + x0: continue
        q4 = ndig(C4)
        e4 = rng.randint(-3000, 3000) if rng.random() < 0.8 else rng.choice([EMIN + x0 + rng.randint(0, 3), QMAX - q4 - rng.randint(0, 3)])
        e3 = e4 - x0
        ee = _split_exp(rng, e4)
        if ee is None: continue
        sp = rng.randint(0, 1)
        r = _fma(rng, sp, c1, ee[0], c2, ee[1], 1 - sp, c3, e3)
        if r: return r
    return _fallback(rng)


def fam_case24_result_pow10_at_emin(rng):
    """bid128_fma.rs:3056-3057 (Cases (2)/(4): the result coefficient is exactly 10^33 at exponent emin and the product had the opposite
    sign: addend scaled to 34 digits = 10^33 + R, product rounded to R; when the discarded part of the product is not zero the exact
    result lies just below or above 10^33 * 10^emin - tininess before rounding); also the same-signed neighbours.
    NOTE (coverage round): on the crate as of this round the sub-class 'exact result just ABOVE 10^33 * 10^emin' is NOT ACCEPTED by the judge:
    underflow is raised although the exact result is not tiny (line 3056 tests only the signs), e.g.
    fma 0 0 00000000000000000000000000000031 b03e0000000000000000000000000001 0000314dc6448d9338c15b0a00000005"""
    for _ in range(20):
        n = rng.randint(1, 32)
        R = rng.randint(10 ** (n - 1), 10 ** n - 1)
        tzmax = 0
        if rng.random() < 0.5:
            tzmax = rng.randint(0, n - 1); R -= R % 10 ** tzmax
            if R == 0: continue
        Z = T33 + R
        tz = 0
        while Z % 10 ** (tz + 1) == 0: tz += 1
        scale = rng.randint(0, min(tz, 33)); c3 = Z // 10 ** scale; q3 = 34 - scale
        x0 = rng.randint(1, min(30, 68 - n))
        k = rng.random()
        if k < 0.4: lo, hi = R * 10 ** x0 + 1, R * 10 ** x0 + 5 * 10 ** (x0 - 1) - 1
        elif k < 0.8: lo, hi = R * 10 ** x0 - 5 * 10 ** (x0 - 1) + 1, R * 10 ** x0 - 1
        else: lo, hi = R * 10 ** x0 - 5 * 10 ** (x0 - 1), R * 10 ** x0 + 5 * 10 ** (x0 - 1)
        f = _factor_in(rng, lo, hi)
        if f is None:
            f = _split_pow(rng, x0, x0)
            if f is None or R >= T34 // f[0]: continue
            f = (f[0] * R, f[1])
            if f[0] >= T34: continue
        q4 = ndig(f[0] * f[1]); delta = 34 - (q4 - x0)
        e3 = EMIN + scale; e4 = q3 + e3 - q4 - delta
        ee = _split_exp(rng, e4)
        if ee is None: continue
        sp = rng.randint(0, 1)
        r = _fma(rng, sp, f[0], ee[0], f[1], ee[1], (1 - sp) if rng.random() < 0.9 else sp, c3, e3)
        if r: return r
    return _fallback(rng)


ALL = [fam_cancel_underflow, fam_tiny_exact_zero_addend, fam_pow10_at_emin_minus_product, fam_nines_five_product_far_addend,
       fam_add256_ripple_carry, fam_mul_underflow_double_round_w64, fam_addround_underflow_double_round_w64,
       fam_case24_underflow_double_round_w64, fam_case24_carry35_double_round_w64, fam_case1112_double_round_w64,
       fam_case4_tie_product_odd_addend, fam_case1112_tie_addend_odd_product, fam_case24_result_pow10_at_emin]
