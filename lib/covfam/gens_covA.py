"""Generator families for the lines of bid128_add.rs that the quick streams never executed (coverage round A).
Every family returns (op, mode_or_None, [operands]); mode None = any rounding mode.  All randomness comes from rng."""
import sys
sys.path.insert(0, __import__('os').path.dirname(__import__('os').path.dirname(__import__('os').path.abspath(__file__))))
from dec import *

W = 1 << 64


def _e2(rng, span):
    """an exponent e2 such that e2 .. e2+span lies in [QMIN, QMAX]"""
    e = expo(rng)
    return max(QMIN, min(QMAX - span, e))


def _emit(rng, A, B, keep_order=False):
    """A, B = (sign, coeff, exp): the effective addition A + B, delivered as add(A,B) / add(B,A) / sub(A,-B) / sub(B,-A).
    keep_order: A must stay the first operand (equal exponents: the first operand is the routine's x)."""
    if not keep_order and rng.random() < 0.5: A, B = B, A
    if rng.random() < 0.5:
        return 'add', [fin(*A), fin(*B)]
    return 'sub', [fin(*A), fin(1 - B[0], B[1], B[2])]


def _fallback():
    return ('add', None, [fin(0, 1, 0), fin(0, 1, 0)])


# ------------------------------------------------------------------------------------------- delta = 34, C1 = 10^(q1-1), opposite signs
def fam_add_pow10_minus_half_digit(rng):
    """bid128_add.rs:1270-1288 (except the borrow line 1274, dead).  x = 10^(q1-1) * 10^e1, y of opposite sign with q2 >= 2 digits of the
    form d5 00..0 (d = 1..9), and q1 + e1 - q2 - e2 = 34: y is rounded to ONE digit and that rounding is a tie; the result is
    10^34 - (d or d+1), the exact value 10^34 - d.5 in units of 10^(e2+q2-1).  A quarter of the cases are the neighbours d5 00..0 +- 1."""
    q1 = rng.randint(1, 34); q2 = rng.randint(2, 34); d = rng.randint(1, 9)
    c1 = 10 ** (q1 - 1); c2 = (10 * d + 5) * 10 ** (q2 - 2)
    if q2 >= 3 and rng.random() < 0.25: c2 += rng.choice([-1, 1])
    span = 34 + q2 - q1                         # e1 - e2
    e2 = _e2(rng, span); e1 = e2 + span
    s = rng.randint(0, 1)
    op, ops = _emit(rng, (s, c1, e1), (1 - s, c2, e2))
    return (op, None, ops)


# ------------------------------------------------------------------------------------------- exact-position sums with 35 digits
def _split_eq(rng, Cp):
    """C1, s, C2 with C1*10^s + C2 = Cp, C1*10^s of 34 digits (q1 + s = 34), 1 <= C2 < 10^34   (the 'delta = 34 - q2' arm)"""
    s = rng.choice([0, 0, rng.randint(0, 33)]); q1 = 34 - s; p = 10 ** s
    lo = max(10 ** (q1 - 1), -((-(Cp - T34 + 1)) // p)); hi = min(10 ** q1 - 1, (Cp - 1) // p)
    if lo > hi:
        s = 0; p = 1; lo = max(T33, Cp - T34 + 1); hi = min(T34 - 1, Cp - 1)
        if lo > hi: return None
    c1 = rng.randint(lo, hi)
    if rng.random() < 0.3: c1 = rng.choice([lo, hi])
    return c1, s, Cp - c1 * p


def _split_neg(rng, Cp):
    """C1, s, C2 with C1*10^s + C2 = Cp, C2 of 34 digits and C1*10^s of at most 33 digits (delta < 0 arm); needs 10^34 <= Cp < 1.1*10^34"""
    need = Cp - T34 + 1                          # C1*10^s >= need so that C2 <= 10^34 - 1
    n = rng.randint(max(1, ndig(need)), 33); s = rng.randint(0, n - 1); p = 10 ** s; q1 = n - s
    lo = max(10 ** (q1 - 1), -((-need) // p)); hi = 10 ** q1 - 1
    if lo > hi:
        s = 0; p = 1; lo = max(need, 1); hi = T33 - 1
        if lo > hi: return None
    c1 = rng.randint(lo, hi)
    if rng.random() < 0.3: c1 = rng.choice([lo, hi])
    c2 = Cp - c1 * p
    if not (T33 <= c2 < T34): return None
    return c1, s, c2


def _sum_case(rng, split, Cp, sign, mode):
    r = split(rng, Cp)
    if r is None: return _fallback()
    c1, s, c2 = r
    e2 = _e2(rng, s); e1 = e2 + s
    op, ops = _emit(rng, (sign, c1, e1), (sign, c2, e2), keep_order=(s == 0))
    return (op, mode, ops)


def _dir_up(rng):
    """(sign, mode) for which an inexact result that was rounded down gets one ulp added: Upward/+ or Downward/-; sometimes NearestAway"""
    s = rng.randint(0, 1); return s, (1 if s else 2)


def _dir_down(rng):
    """(sign, mode) for which a result that was rounded up gets one ulp subtracted: Downward/+, Upward/-, TowardZero"""
    s = rng.randint(0, 1); return s, rng.choice([3, 2 if s else 1])


def _kword(lo, hi, rng):
    """k with lo <= k*2^64 <= hi"""
    a = -((-lo) // W); b = hi // W
    return rng.randint(a, b) if a <= b else None


def fam_add_sum35_roundup_carry_eq(rng):
    """bid128_add.rs:1575.  Same signs, q1 + (e1-e2) = 34 (C1*10^(e1-e2) has 34 digits, arm 'delta == P34 - q2'); the exact sum
    C' = C1*10^(e1-e2) + C2 has 35 digits, floor(C'/10) has low 64-bit word ffff_ffff_ffff_ffff and C' mod 10 is 1..4 (result below
    the exact value), directed mode away from zero: the +1 ulp carries into the high word."""
    k = _kword(T33 + 1, 2 * T33 - 2, rng)
    Cp = 10 * (k * W - 1) + (rng.randint(1, 4) if rng.random() < 0.85 else rng.randint(0, 9))
    sign, mode = _dir_up(rng)
    return _sum_case(rng, _split_eq, Cp, sign, mode)


def fam_add_sum35_roundup_carry_neg(rng):
    """bid128_add.rs:2330.  As fam_add_sum35_roundup_carry_eq but in the 'delta < 0' arm: the operand with the larger exponent has
    q1 + (e1-e2) <= 33 digits positions, the other one 34 digits; sum in [10^34, 1.1*10^34)."""
    k = _kword(T33 + 1, T33 + T33 // 10 - 2, rng)
    Cp = 10 * (k * W - 1) + (rng.randint(1, 4) if rng.random() < 0.85 else rng.randint(0, 9))
    sign, mode = _dir_up(rng)
    return _sum_case(rng, _split_neg, Cp, sign, mode)


def fam_add_sum35_rounddown_borrow_neg(rng):
    """bid128_add.rs:2346.  'delta < 0' arm, same signs, 35-digit sum C' = 10*k*2^64 - t with t = 1..4 (rounded up to k*2^64, low
    word zero) or t = 5 (tie, k*2^64 even), directed mode towards zero: the -1 ulp borrows from the high word."""
    k = _kword(T33 + 1, T33 + T33 // 10 - 2, rng)
    Cp = 10 * k * W - (rng.randint(1, 5) if rng.random() < 0.85 else rng.randint(-4, 9))
    sign, mode = _dir_down(rng)
    return _sum_case(rng, _split_neg, Cp, sign, mode)


def fam_add_sum35_lowword_carry_neg(rng):
    """bid128_add.rs:2234-2235.  'delta < 0' arm, same signs, 35-digit sum whose low 64-bit word is >= ffff_ffff_ffff_fffb, so that
    the '+5' of the rounding carries into the high word.  Any rounding mode."""
    j = _kword(T34 + 6, T34 + T33 - 2, rng)
    Cp = j * W - rng.randint(1, 5)
    return _sum_case(rng, _split_neg, Cp, rng.randint(0, 1), None)


def fam_add_diff_negative_lowword_zero(rng):
    """bid128_add.rs:1646.  Opposite signs, arm 'delta == P34 - q2' with q2 = 34 (delta = 0): C1*10^(e1-e2) has 34 digits and is
    smaller than C2 by a multiple of 2^64, so the negated difference has a zero low word and the two's-complement carry fires."""
    s = rng.choice([0, 0, rng.randint(0, 33)]); q1 = 34 - s; p = 10 ** s
    lo = 10 ** (q1 - 1); hi = min(10 ** q1 - 1, (T34 - 1 - W) // p)
    if lo > hi: return _fallback()
    c1 = rng.randint(lo, hi); c1s = c1 * p
    kmax = (T34 - 1 - c1s) // W
    if kmax < 1: return _fallback()
    k = rng.randint(1, kmax) if rng.random() < 0.7 else rng.choice([1, kmax])
    c2 = c1s + k * W
    e2 = _e2(rng, s); e1 = e2 + s; sg = rng.randint(0, 1)
    op, ops = _emit(rng, (sg, c1, e1), (1 - sg, c2, e2), keep_order=(s == 0))
    return (op, None, ops)


# ------------------------------------------------------------------------------------------- arm 'delta >= P34 + 1 - q2' (C2 is rounded to q2 - x1 digits first)
def fam_add_c2_tie_lowword_zero(rng):
    """bid128_add.rs:1876.  x has 34 digits and an odd coefficient, e1 - e2 = x1 in 1..14, C2 = (k*2^64 - 1/2) * 10^x1: rounding C2
    to q2 - x1 digits is a tie whose rounded-up value k*2^64 has a zero low word; the parity test (against odd C1) decrements it, which
    borrows from the high word.  Either sign combination, any mode."""
    x1 = rng.randint(1, 14); u = 5 * 10 ** (x1 - 1)
    kmax = ((T34 - 1) // u + 1) >> 65
    if kmax < 1: return _fallback()
    k = rng.randint(1, kmax)
    c2 = (k * 2 * W - 1) * u
    if not (0 < c2 < T34): return _fallback()
    c1 = rng.randint(T33, T34 - 1) | 1
    if rng.random() < 0.2: c1 = rng.choice([T33 + 1, T34 - 1])
    e2 = _e2(rng, x1); e1 = e2 + x1
    op, ops = _emit(rng, (rng.randint(0, 1), c1, e1), (rng.randint(0, 1), c2, e2))
    return (op, None, ops)


def _two_step(rng, S, d, tneg):
    """operands for the arm with two roundings: delta = d, same signs, C1*10^(34-q1) + round(C2 / 10^x1) = S (35 digits).
    tneg: the discarded tail makes C2 round UP (tail below the rounded value)."""
    x1 = rng.randint(1, d); q2 = 34 - d + x1; half = 5 * 10 ** (x1 - 1)
    lo = max(10 ** (33 - d), S - (T34 - 1)); hi = min(10 ** (34 - d), S - T33)
    if lo > hi: return None
    for _ in range(4):
        z = rng.randint(0, max(0, 33 - d)) if rng.random() < 0.6 else 0; p = 10 ** z
        v = rng.randint(lo, hi); v -= (v - S) % p
        if v < lo: v += p
        if v > hi: continue
        c1s = S - v
        if tneg: t = -rng.choice([1, half - 1, rng.randint(1, half - 1)])
        else: t = rng.choice([0, 1, -1, half - 1, 1 - half, rng.randint(1 - half, half - 1)])
        c2 = v * 10 ** x1 + t
        if ndig(c2) != q2 or c1s % p or not (T33 <= c1s < T34): continue
        return c1s // p, z, c2, x1
    return None


def fam_add_tworound_lowword_carry(rng):
    """bid128_add.rs:1929-1930.  Same signs, 1 <= delta <= 14, C2 is first rounded to 34 - delta digits (C2*), and
    C1*10^(34-q1) + C2* is a 35-digit number whose low 64-bit word is >= ffff_ffff_ffff_fffb: the '+5' of the second rounding carries
    into the high word.  Any mode."""
    d = rng.randint(1, 14)
    j = _kword(T34 + 6, T34 + 10 ** (34 - d) - 2, rng)
    if j is None: return _fallback()
    S = j * W - rng.randint(1, 5)
    r = _two_step(rng, S, d, False)
    if r is None: return _fallback()
    c1, z, c2, x1 = r
    e2 = _e2(rng, z + x1); e1 = e2 + z + x1; sg = rng.randint(0, 1)
    op, ops = _emit(rng, (sg, c1, e1), (sg, c2, e2))
    return (op, None, ops)


def fam_add_tworound_tie_after_roundup_borrow(rng):
    """bid128_add.rs:1961.  Same signs, 1 <= delta <= 13; C2 is rounded UP to C2* (tail just below), the 35-digit sum
    C1*10^(34-q1) + C2* = 10*k*2^64 - 5 is then a tie of the second rounding; the double-rounding repair takes the truncated quotient
    k*2^64 minus one, which borrows from the high word.  Any mode."""
    d = rng.randint(1, 13)
    k = _kword(T33 + 1, (T34 + 10 ** (34 - d) - 2) // 10, rng)
    if k is None: return _fallback()
    S = 10 * k * W - 5
    r = _two_step(rng, S, d, True)
    if r is None: return _fallback()
    c1, z, c2, x1 = r
    e2 = _e2(rng, z + x1); e1 = e2 + z + x1; sg = rng.randint(0, 1)
    op, ops = _emit(rng, (sg, c1, e1), (sg, c2, e2))
    return (op, None, ops)


ALL = [fam_add_pow10_minus_half_digit, fam_add_sum35_roundup_carry_eq, fam_add_sum35_roundup_carry_neg, fam_add_sum35_rounddown_borrow_neg,
       fam_add_sum35_lowword_carry_neg, fam_add_diff_negative_lowword_zero, fam_add_c2_tie_lowword_zero, fam_add_tworound_lowword_carry,
       fam_add_tworound_tie_after_roundup_borrow]

if __name__ == '__main__':
    import random, time
    rng = random.Random(int(sys.argv[2]) if len(sys.argv) > 2 else 1)
    n = int(sys.argv[1]) if len(sys.argv) > 1 else 200
    only = sys.argv[3] if len(sys.argv) > 3 else None
    for f in ALL:
        if only and f.__name__ != only: continue
        for _ in range(n):
            op, mode, ops = f(rng)
            print(line(op, rng.choice(MODES) if mode is None else mode, status_in(rng), *ops))
