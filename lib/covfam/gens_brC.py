import os, sys; sys.path.insert(0, os.path.dirname(os.path.dirname(os.path.abspath(__file__)))); from dec import *
"""gens_brC.py - generator families for BRANCH DIRECTIONS of the to-integer conversions of decmathlib-rs
(bid128_to_int32.rs bid128_to_int64.rs bid128_to_uint32.rs bid128_to_uint64.rs) that the quick streams never took
although the line is executed.  Each family is
    def fam_x(rng) -> (op, mode_or_None, [operands])
(mode None = any rounding mode - the to_<type>_<kind> operations ignore it; operands are BID128 bit patterns as ints).
Every random choice comes from rng.

RESULT: none of the 497 listed directions (136 + 71 + 164 + 126) is reachable, so ALL is empty.  PROBES holds three
families that reach no new direction: they aim as closely as possible at the arms argued to be dead (residues of the
reciprocal multiplication around every threshold f* is compared with, screening thresholds of every digit count, wide
in-range coefficients of the unsigned 64-bit screening) and serve as the empirical counter-check of those arguments
(800000 cases: no listed direction taken, all accepted by the model) and as cheap extra weight on the neighbouring live
directions, which the quick streams reach only by chance.

Notation for the dead-arm arguments (all 40 routines share it).  x = -exp = ind is the number of fractional digits
(1..33), Ex = 128 + BID_SHIFTRIGHT128[x-1], T = BID_TEN2MK128[x-1] = ceil(2^Ex / 10^x) (checked for all x),
BID_TEN2MK128TRUNC[x-1] = T - 1, delta = T*10^x - 2^Ex with 0 < delta < 10^x; 2^117 <= T < 2^125 (x >= 4: 2^117 <= T < 2^118).
The routine multiplies C' (= C1, or C1 + 10^x/2 in the round-to-nearest skeleton, which ALL routines of the two 32-bit
files use, and the rnint/rninta routines of the 64-bit files) by T and splits the product at bit Ex into C* and f*.
Write C' = K*10^x + r (0 <= r < 10^x; K >= 1 because q + exp >= 1).  Then exactly
    f* = K*delta + r*T,      f* - 2^(Ex-1) = (K + 1/2)*delta + (r - 10^x/2)*T,
with 0 < K*delta < (K+1/2)*delta < 1.5 * 10^34 < 2^114 < 2^117 <= (T-1).w[1] * 2^64.  So the values f* can take are
'a small positive number (< 2^114) plus a multiple of T', and for x >= 20, delta > 2^64 (table), so that small
number is > 2^64 as well.
"""

_INT_KINDS = ['rnint', 'floor', 'ceil', 'int', 'rninta']
_TYPES = [('i32', 32, True), ('u32', 32, False), ('i64', 64, True), ('u64', 64, False)]


def _op(rng, t, kinds=_INT_KINDS):
    return 'to_%s_%s%s' % (t, rng.choice(['', 'x']), rng.choice(kinds))


def fam_u64_wide_coefficient_in_range(rng):
    """PROBE (no new direction; bid128_to_uint64.rs:2252 (1.3) is 'C1.w[0] >= C.w[0]' false with C.w[0] = 0: dead).
    Screening of to_u64_int at :2251/2252 [the same comparison at :220/221 rnint, :584 xrnint, :995 floor, :1255 xfloor,
    :1569 ceil, :1904 xceil, :2542 xint, :2871 rninta, :3219 xrninta ]:
    positive x with q + exp = 20 and 22 <= q <= 34 digits that is IN range, i.e. 10^19 <= x < 2^64 written with
    2..14 fractional digits: the screening compares C1 with C = 10^(q-21) * 0xa0000000000000000 (or ...fffb / ...fff6
    for the rounding kinds) word by word, and 'C1.w[1] < C.w[1]' (first two operands false) is the in-range exit.
    Classes: uniformly in [10^19, 2^64); just below 2^64 (2^64 - 1 + fraction, 2^64 - 1/2 -+ 1 ulp); the high word of
    C1 one below / equal to that of C (x within 2^64 * 10^-k of 2^64)."""
    k = rng.randint(2, 14); q = 20 + k                     # k fractional digits, q digits in all
    c = rng.random()
    if c < 0.35:
        ip = rng.randint(10 ** 19, (1 << 64) - 1); fr = rng.choice([0, 1, 5 * 10 ** (k - 1), 10 ** k - 1, rng.randrange(10 ** k)])
        v = ip * 10 ** k + fr
    elif c < 0.6:
        v = ((1 << 64) - 1) * 10 ** k + rng.choice([0, 1, 5 * 10 ** (k - 1) - 1, 5 * 10 ** (k - 1), 5 * 10 ** (k - 1) + 1, 10 ** k - 1, rng.randrange(10 ** k)])
    elif c < 0.85:                                         # C1.w[1] = 10^k - 1 (just below 2^64) or = 10^k (at / above 2^64): both sides of the word test
        hi = 10 ** k - rng.choice([1, 1, 1, 0]); v = (hi << 64) + rng.choice([0, 1, (1 << 64) - 1, rng.getrandbits(64)])
    else:
        v = rng.choice([1 << 63, (1 << 63) - 1, 10 ** 19, 10 ** 19 + 1, 1 << 64]) * 10 ** k + rng.choice([0, 1, -1, 5 * 10 ** (k - 1)])
    if not (10 ** (q - 1) <= v < 10 ** q and v < T34): v = (1 << 63) * 10 ** k + 1
    kinds = ['int', 'int', 'int'] + _INT_KINDS
    return (_op(rng, 'u64', kinds), None, [fin(0, v, -k)])


# ------------------------------------------------------------------------------------------------ probes of the dead arms
def fam_toint_reciprocal_residue(rng):
    """PROBE (no new direction).  x fractional digits, coefficient C1 = K*10^x + r - h (h = 10^x/2 for the routines that
    add one half first, else 0) with the residue r in {0, 1, 2, 10^x/2 - 1, 10^x/2, 10^x/2 + 1, 10^x - 1} and the integer
    part K from {1, 2, small, the largest the type admits +- 1, the largest with K*delta < 2^64, random}: f* is then
    K*delta + r*T, the values nearest to every threshold the exactness / midpoint / one-half tests compare f* with
    (0, T*, 1/2, 1/2 + T*), for each of the three word layouts of f* (x <= 3, 4..22, 23..33)."""
    t, w, sg = rng.choice(_TYPES); x = rng.randint(1, 33)
    lim = (1 << (w - 1)) if sg else (1 << w)
    kmax = min(lim, 10 ** (34 - x) - 1)
    K = rng.choice([1, 2, rng.randint(1, 9), kmax, kmax - 1, kmax + 1, lim - 1, rng.randint(1, max(1, kmax)), rng.randint(1, max(1, kmax))])
    K = max(1, min(K, 10 ** (34 - x) - 1))
    h = 5 * 10 ** (x - 1)
    r = rng.choice([0, 1, 2, h - 1, h, h + 1, 10 ** x - 1, rng.randrange(10 ** x)])
    c = K * 10 ** x + r - (h if rng.random() < 0.6 else 0)
    if not 0 < c < T34: c = K * 10 ** x
    s = rng.randint(0, 1) if sg else (1 if rng.random() < 0.1 else 0)
    return (_op(rng, t), None, [fin(s, c, -x)])


def fam_toint_screening_thresholds(rng):
    """PROBE (no new direction).  |x| = L*10^k + d written with q digits for every q (1..34) at q + exp = 10 (32-bit) /
    19, 20 (64-bit): L in {2^(w-1), 2^(w-1) - 1, 2^w, 2^w - 1} (and L - 1/2, L + 1/2), d a unit in the last place either
    way; also the same digits at the exponent that makes the value ~10^-10 .. 10 times smaller (negative operands of the
    unsigned types near -1/2, -1: the 'q + exp = 10/20 and negative' arms only ever see |x| >= 10^9 / 10^19)."""
    t, w, sg = rng.choice(_TYPES)
    L2 = rng.choice([2 << (w - 1), (2 << (w - 1)) - 1, 2 << w, (2 << w) - 1, (2 << (w - 1)) - 2, (2 << w) - 2, (2 << w) + 1, (2 << (w - 1)) + 1])   # 2*L, odd = L + 1/2
    base10 = L2 * 5                                          # 10 * L (one fractional digit)
    d0 = ndig(base10)                                        # digits incl. the one fractional
    q = rng.randint(1, 34)
    if q >= d0: v = base10 * 10 ** (q - d0) + rng.choice([0, 0, 1, -1, 2, -2]); e = -(q - d0 + 1)
    else: v = base10 // 10 ** (d0 - q) + rng.choice([0, 0, 1, -1]); e = d0 - q - 1
    if rng.random() < 0.1: e -= rng.randint(1, 12)
    if not 0 < v < T34: v = base10; e = -1
    s = rng.randint(0, 1) if (sg or rng.random() < 0.3) else 0
    return (_op(rng, t), None, [fin(s, v, e)])


ALL = []  # no reachable direction; the probes below aim at the arms argued dead and are run as ordinary cases
PROBES = [fam_toint_reciprocal_residue, fam_toint_screening_thresholds, fam_u64_wide_coefficient_in_range]
ALL = PROBES
