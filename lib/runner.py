# Orchestration of one property check: builds, proof obligations, table obligations, correspondence run,
# known-finding triage, replay files, evidence. See DESIGN.md sections 4-6.
import os, sys, json, time, random, subprocess, hashlib, fcntl, shutil, re, collections, glob

ROOT = os.path.dirname(os.path.dirname(os.path.abspath(__file__)))
REPO = '/repo'
COQ = os.path.join(ROOT, 'coq')
OCAML = os.path.join(ROOT, 'ocaml')
HARNESS = os.path.join(ROOT, 'harness')
RUNNER_BIN = os.path.join(HARNESS, 'target', 'debug', 'verif-harness')
DRIVER_BIN = os.path.join(OCAML, 'driver')
NPROC = min(16, os.cpu_count() or 4)
ENV = dict(os.environ, CARGO_NET_OFFLINE='true', RUSTFLAGS='--cfg decmathlib_rs_verif')

ALLOWED_AXIOMS = {
    'ClassicalDedekindReals.sig_forall_dec', 'ClassicalDedekindReals.sig_not_dec',
    'FunctionalExtensionality.functional_extensionality_dep', 'Classical_Prop.classic'}
FORBIDDEN = re.compile(r'\b(Admitted|admit|Axiom|Axioms|Parameter|Parameters|Conjecture|Conjectures|bypass_check|Unset Guard Checking|Unset Positivity Checking|Unset Universe Checking|type-in-type|impredicative-set|Admit Obligations)\b')

TRUSTED_BASE = [
    'Coq 8.16.1 kernel; vm_compute for table theorems and finite sweeps; no native_compute',
    'axioms (Print Assumptions): only the Flocq/Reals classical axioms sig_forall_dec, sig_not_dec, functional_extensionality_dep, classic; order/format/codec theorems axiom-free',
    'Flocq definitions of round, FLT_exp, succ/pred, B2R, b64_of_bits as the meaning of the IEEE terms',
    'the reading of IEEE 754-2008 written in coq/theories (spec side), meant to be read',
    'extraction: ExtrOcamlBasic only (Extract Inductive bool, option, unit, list, prod, sumbool, sumor); ocamlopt 4.13; ocaml/driver.ml, zhex.ml, ops_table.ml',
    'extraction is cross-checked on every run: sampled executed cases are judged again by vm_compute inside Coq (lib/xcheck.py); what remains trusted there is the Python rendering of a case as a Coq term',
    'correspondence check = differential testing of the real crate (harness/src/main.rs dispatch, to_bits hook, catch_unwind) against the extracted model: not a proof about the Rust',
    'table translator: the dump hook (src/verif_hooks.rs, compiled crate), lib/tables.py (text -> Coq literals) and the closed forms of coq/tables/TableSpec.v as the meaning of each table',
    'layer I (where listed among the obligations): the translator layerI/rs2v.py and its stated semantics of the Rust subset (layerI/REPORT.md section 3); the theorems are re-checked against the Gallina regenerated from the current source',
]


def log(*a):
    print(*a, flush=True)


class Lock:
    def __init__(self, name):
        os.makedirs(os.path.join(ROOT, '.locks'), exist_ok=True)
        self.path = os.path.join(ROOT, '.locks', name)

    def __enter__(self):
        self.f = open(self.path, 'w'); fcntl.flock(self.f, fcntl.LOCK_EX); return self

    def __exit__(self, *a):
        fcntl.flock(self.f, fcntl.LOCK_UN); self.f.close()


def sh(cmd, cwd=None, timeout=3600, env=None):
    p = subprocess.run(cmd, shell=True, cwd=cwd, env=env or ENV, stdout=subprocess.PIPE, stderr=subprocess.STDOUT, text=True, timeout=timeout)
    return p.returncode, p.stdout


# ------------------------------------------------------------------------------------------------ builds
def newest(paths):
    return max((os.path.getmtime(p) for p in paths if os.path.exists(p)), default=0)


def build_harness(profile='debug', features=''):
    """(re)build the runner against /repo's current working tree, hooks on"""
    with Lock('cargo.lock'):
        if not os.path.exists(os.path.join(HARNESS, 'Cargo.lock')) and os.path.exists(os.path.join(REPO, 'Cargo.lock')):
            shutil.copy(os.path.join(REPO, 'Cargo.lock'), os.path.join(HARNESS, 'Cargo.lock'))
        flag = '--release' if profile == 'release' else ''
        rc, out = sh('timeout 1500 cargo build --offline %s %s 2>&1' % (flag, features), cwd=HARNESS)
        return rc, out


def build_harness_ta():
    """secondary configuration of C02: the crate's tininess-after-rounding feature, separate target directory"""
    with Lock('cargo_ta.lock'):
        return sh('timeout 1500 cargo build --offline --features tiny_after --target-dir target_ta 2>&1', cwd=HARNESS)


RUNNER_BIN_TA = os.path.join(HARNESS, 'target_ta', 'debug', 'verif-harness')


def build_coq():
    with Lock('coq.lock'):
        if not os.path.exists(os.path.join(COQ, 'Makefile')) or os.path.getmtime(os.path.join(COQ, 'Makefile')) < os.path.getmtime(os.path.join(COQ, '_CoqProject')):
            rc, out = sh('coq_makefile -f _CoqProject -o Makefile', cwd=COQ)
            if rc: return rc, out
        rc, out = sh('timeout 3000 make -j%d 2>&1' % NPROC, cwd=COQ)
        return rc, out


def build_driver():
    with Lock('ocaml.lock'):
        srcs = glob.glob(os.path.join(COQ, 'theories', '*.vo')) + glob.glob(os.path.join(OCAML, '*.ml')) + [os.path.join(OCAML, 'build.sh')]
        srcs = [s for s in srcs if not s.endswith('model.ml')]
        if os.path.exists(DRIVER_BIN) and os.path.getmtime(DRIVER_BIN) >= newest(srcs):
            return 0, 'driver up to date'
        return sh('timeout 1200 ./build.sh', cwd=OCAML)


def forbidden_scan():
    """no Axiom/Parameter/Conjecture/Admitted/admit anywhere; Variable/Hypothesis/Context only inside a Section;
    no switching off of kernel checks"""
    bad = []
    sec_only = re.compile(r'^\s*(?:Local\s+|Global\s+)?(Variable|Variables|Hypothesis|Hypotheses|Context)\b')
    for f in glob.glob(os.path.join(COQ, '**', '*.v'), recursive=True):
        txt = open(f).read()
        txt = re.sub(r'\(\*.*?\*\)', '', txt, flags=re.S)
        depth = 0
        for ln in txt.split('\n'):
            if re.match(r'^\s*Section\s+\w+\s*\.', ln): depth += 1
            elif re.match(r'^\s*End\s+\w+\s*\.', ln) and depth > 0: depth -= 1
            m = sec_only.match(ln)
            if m and depth == 0:
                bad.append('%s: %s outside a Section' % (os.path.relpath(f, ROOT), m.group(1)))
        for m in FORBIDDEN.finditer(txt):
            bad.append('%s: %s' % (os.path.relpath(f, ROOT), m.group(0)))
    return bad


def check_props(pid, scratch):
    """compile coq/props/<pid>.v; return (n_theorems, n_ok, axioms_seen, problems, cmd)"""
    src = os.path.join(COQ, 'props', pid + '.v')
    cmd = 'coqc -Q theories DV -Q props DVP props/%s.v' % pid
    if not os.path.exists(src):
        return 0, 0, [], ['no props file for ' + pid], cmd
    txt = open(src).read()
    names = re.findall(r'^\s*(?:Theorem|Corollary)\s+(\w+)', txt, flags=re.M)
    with Lock('coq.lock'):
        rc, out = sh('timeout 1200 ' + cmd + ' 2>&1', cwd=COQ)
    problems = []
    if rc != 0:
        problems.append('props/%s.v does not compile: %s' % (pid, out[-1500:]))
        return len(names), 0, [], problems, cmd
    axioms = set(re.findall(r'^([A-Z][\w\.]*\.[\w\.]+)\s*$|^([A-Z][\w\.]*\.\w+)\s*:', out, flags=re.M))
    ax = set()
    for a, b in axioms:
        ax.add(a or b)
    extra = sorted(a for a in ax if a not in ALLOWED_AXIOMS)
    if extra:
        problems.append('assumptions outside the allow-list: ' + ', '.join(extra))
    n_print = len(re.findall(r'Print Assumptions', txt))
    if n_print < len(names):
        problems.append('a theorem without Print Assumptions in props/%s.v' % pid)
    fb = forbidden_scan()
    if fb:
        problems.append('forbidden vernacular: ' + '; '.join(fb[:10]))
    with open(os.path.join(scratch, 'props.log'), 'w') as f:
        f.write(out)
    return len(names), (len(names) if not problems else 0), sorted(ax), problems, cmd


# ------------------------------------------------------------------------------------------------ correspondence
def run_cases(lines, scratch, runner_bin=RUNNER_BIN, tag='s'):
    """shard, execute on the implementation, judge with the extracted model.
       returns (outfiles, verdict_lines, summary_counter)"""
    n = len(lines)
    nsh = max(1, min(NPROC, n // 200 + 1))
    files = []
    for i in range(nsh):
        p = os.path.join(scratch, '%s.cases.%d' % (tag, i))
        with open(p, 'w') as f:
            f.write('\n'.join(lines[i::nsh])); f.write('\n')
        files.append(p)
    procs = []
    for i, p in enumerate(files):
        o = p.replace('.cases.', '.out.'); v = p.replace('.cases.', '.verdict.')
        cmd = 'timeout 40000 %s < %s > %s 2> %s.err; timeout 40000 %s < %s > %s 2>> %s.err' % (runner_bin, p, o, o, DRIVER_BIN, o, v, o)
        procs.append((subprocess.Popen(cmd, shell=True), o, v))
    verdicts = []; summ = collections.Counter(); outs = []
    for pr, o, v in procs:
        pr.wait(); outs.append(o)
        got_summary = False
        for l in open(v, errors='replace'):
            l = l.rstrip('\n')
            if l.startswith('SUMMARY'):
                got_summary = True
                for kv in l.split()[1:]:
                    k, val = kv.split('='); summ[k] += int(val)
            elif l:
                verdicts.append(l)
        if not got_summary:
            verdicts.append('BROKEN 0 shard %s produced no summary: %s' % (o, open(o + '.err', errors='replace').read()[-500:]))
    if summ['total'] != n:
        verdicts.append('BROKEN 0 %d cases were generated but %d were executed and judged (a runner crash, an empty answer or a dropped line)' % (n, summ['total']))
    return outs, verdicts, summ


def run_cases_panic_only(lines, scratch, runner_bin, tag):
    """C15: execute the cases, collect PANIC lines (no judging of values); returns (outfiles, panic_verdicts, counter)"""
    n = len(lines); nsh = max(1, min(NPROC, n // 200 + 1)); procs = []
    for i in range(nsh):
        pth = os.path.join(scratch, '%s.cases.%d' % (tag, i)); o = pth.replace('.cases.', '.out.')
        with open(pth, 'w') as f: f.write('\n'.join(lines[i::nsh])); f.write('\n')
        procs.append((subprocess.Popen('timeout 40000 %s < %s > %s 2> %s.err' % (runner_bin, pth, o, o), shell=True), pth, o))
    verdicts = []; summ = collections.Counter(); outs = []
    for pr, pth, o in procs:
        rc = pr.wait(); outs.append(o)
        nin = sum(1 for l in open(pth) if l.strip()); nout = 0
        for l in open(o, errors='replace'):
            l = l.rstrip('\n')
            if not l: continue
            nout += 1; summ['total'] += 1
            if ' => PANIC' in l:
                summ['panic'] += 1; verdicts.append('PANIC 0 %s || expected: no panic' % l)
            elif ' => BADUTF8' in l: summ['badinput'] += 1
            else: summ['ok'] += 1
        if rc != 0 or nout != nin:
            verdicts.append('BROKEN 0 shard %s: runner exit status %s, %d of %d cases answered (abort / crash?): %s' % (o, rc, nout, nin, open(o + '.err', errors='replace').read()[-400:]))
    return outs, verdicts, summ


def cross_entry_check(outs):
    """C14, second sentence, as a relation between RUNS (the judge looks at one call at a time): the same call executed under
    different entry words must return the same values, and its exit word must be the entry word OR the exit word it leaves
    from a clear word. Groups the executed lines by (op, mode, arguments); needs a member with entry word 0 as the reference."""
    groups = collections.defaultdict(list)
    for o in outs:
        for l in open(o, errors='replace'):
            lhs, _, rhs = l.rstrip('\n').partition(' => ')
            t = lhs.split(); r = rhs.split()
            if len(t) < 3 or not r or r[0] == 'PANIC': continue
            try: fin = int(t[2], 16); fout = int(r[-1], 16)
            except ValueError: continue
            groups[(t[0], t[1], tuple(t[3:]))].append((fin, tuple(r[:-1]), fout, l.rstrip('\n')))
    bad = []
    for key, g in groups.items():
        ref = [x for x in g if x[0] == 0]
        if not ref or len(g) < 2: continue
        _, outs0, fl0, _ = ref[0]
        for fin, o_, fout, line in g:
            if o_ != outs0 or fout != (fin | fl0):
                bad.append('REJECT 0 %s || expected: the values %s and exit word %x (entry word OR what the call raises from a clear word, %x): outcome depends on the entry status word' % (line, ' '.join(outs0), fin | fl0, fl0))
                break
    return bad


def parse_verdict(v):
    """'REJECT n <case> => <out> || expected: ...' -> dict"""
    kind, _, rest = v.partition(' ')
    _, _, rest = rest.partition(' ')
    case, _, exp = rest.partition(' || expected: ')
    lhs, _, rhs = case.partition(' => ')
    return dict(kind=kind, case=lhs.strip(), got=rhs.strip(), expected=exp.strip())


# ------------------------------------------------------------------------------------------------ known findings
def load_known():
    p = os.path.join(ROOT, 'known_findings.json')
    if not os.path.exists(p): return []
    return json.load(open(p)).get('open', [])


def match_known(known, pid, d):
    """d: parsed verdict. A finding matches only its own property, its own failure mode, its own input/site."""
    for k in known:
        if pid not in k.get('properties', [k.get('property')]): continue
        if k['kind'] == 'input':
            if d['case'].split()[0:2] + d['case'].split()[3:] == k['case'].split()[0:2] + k['case'].split()[3:]:
                return k
        elif k['kind'] == 'class':
            if d['kind'] == 'KNOWN%d' % k['class_id']:
                return k
        elif k['kind'] == 'site':
            if d['kind'] == 'PANIC' and re.search(k['panic_regex'], d['got']):
                if 'op' not in k or d['case'].split()[0] in k['op']:
                    return k
    return None


# ------------------------------------------------------------------------------------------------ shrinking
def still_fails(case, scratch):
    outs, verdicts, summ = run_cases([case], scratch, tag='shrink')
    return [parse_verdict(v) for v in verdicts if not v.startswith('BROKEN')]


def shrink(d, scratch, budget=60):
    """greedy: clear status-in, then simplify operands (fewer digits, exponent toward 0) while the case still fails the same way"""
    import dec as D
    toks = d['case'].split()
    op = toks[0]
    if op in ('parse', 'fromstr', 'fromstr2', 'nan', 'serde_de'):
        return shrink_str(d, scratch, budget)
    best = toks; bestd = d

    def attempt(t):
        nonlocal best, bestd, budget
        if budget <= 0: return False
        budget -= 1
        r = still_fails(' '.join(t), scratch)
        if r and r[0]['kind'] == d['kind']:
            best = t; bestd = r[0]; return True
        return False

    if toks[2] != '0': attempt(toks[:2] + ['0'] + toks[3:])
    for i in range(3, len(best)):
        if len(best[i]) != 32: continue
        changed = True
        while changed and budget > 0:
            changed = False
            x = int(best[i], 16); dd = D.decode(x)
            if dd[0] != 'fin' or D.kind(x).startswith('noncanon'): break
            _, s, c, q = dd
            cands = []
            if c > 9: cands.append((s, c // 10, q)); cands.append((s, int(str(c)[0]) * 10 ** (D.ndig(c) - 1), q))
            if c % 10 == 0 and c > 0: cands.append((s, c // 10, q + 1 if q < D.QMAX else q))
            if q != 0: cands.append((s, c, q // 2)); cands.append((s, c, 0))
            if s: cands.append((0, c, q))
            for (s2, c2, q2) in cands:
                t = list(best); t[i] = D.hx(D.fin(s2, c2, q2))
                if t != best and attempt(t):
                    changed = True; break
    return bestd


def shrink_str(d, scratch, budget=60):
    toks = d['case'].split()
    if len(toks) < 4 or toks[3] == '-': return d
    best = toks; bestd = d
    progress = True
    while progress and budget > 0:
        progress = False
        s = best[3]
        n = len(s) // 2
        for i in range(n):
            t = list(best); t[3] = (s[:2 * i] + s[2 * i + 2:]) or '-'
            budget -= 1
            r = still_fails(' '.join(t), scratch)
            if r and r[0]['kind'] == d['kind']:
                best = t; bestd = r[0]; progress = True; break
            if budget <= 0: break
    return bestd


# ------------------------------------------------------------------------------------------------ cells
def cell_of(outline):
    """distinct-cell tag of an executed case: op, mode, operand classes with digit counts, raised flags, result class"""
    import dec as D
    lhs, _, rhs = outline.partition(' => ')
    t = lhs.split(); r = rhs.split()
    if len(t) < 3 or not r: return None, False
    op, mode = t[0], t[1]
    try: fin_ = int(t[2], 16)
    except ValueError: return None, False
    ks = []; nontrivial = False
    for a in t[3:]:
        if len(a) == 32:
            try: x = int(a, 16)
            except ValueError: ks.append('s'); continue
            k = D.kind(x); dd = D.decode(x)
            if k in ('normal', 'subnormal'):
                nontrivial = True; ks.append('%s%d' % (k[0], D.ndig(dd[2])))
            else: ks.append(k)
        else:
            ks.append('a%d' % min(len(a), 40)); nontrivial = True
    if r[0] == 'PANIC': res = 'PANIC'; raised = 0
    else:
        try: raised = int(r[-1], 16) & ~fin_
        except ValueError: raised = 0
        res = ''
        if len(r) >= 2 and len(r[0]) == 32:
            try: res = D.kind(int(r[0], 16))
            except ValueError: res = '?'
        else:
            res = 'v%d' % len(r[0]) if r else ''
    return (op, mode, tuple(ks), raised, res), nontrivial


# ------------------------------------------------------------------------------------------------ main check
def write_replay(pid, d, extra):
    os.makedirs(os.path.join(ROOT, 'replays'), exist_ok=True)
    h = hashlib.sha1((pid + d.get('case', '') + d.get('kind', '') + extra.get('what', '')).encode()).hexdigest()[:12]
    p = os.path.join(ROOT, 'replays', '%s-%s.json' % (pid, h))
    rec = dict(property=pid, **d); rec.update(extra)
    json.dump(rec, open(p, 'w'), indent=1)
    return p


def run_check(pid, tier, seed):
    import props
    t0 = time.time()
    spec = props.PROPS[pid]
    scratch = os.path.join(ROOT, 'run', '%s.%d' % (pid, os.getpid()))
    shutil.rmtree(scratch, ignore_errors=True); os.makedirs(scratch)
    violations = []      # (replay path, suffix)
    known_lines = []
    obligations = []     # (name, ok, detail)
    checker_cmds = []

    # 1. builds (always from /repo's current working tree)
    rc, out = build_harness()
    checker_cmds.append('RUSTFLAGS="--cfg decmathlib_rs_verif" cargo build --offline (harness, path dep on /repo)')
    harness_ok = rc == 0
    obligations.append(('harness builds against /repo', harness_ok, '' if harness_ok else out[-2000:]))
    release_ok = False
    if spec.get('panic_only'):
        rc, out = build_harness('release')
        release_ok = rc == 0
        obligations.append(('harness builds against /repo (release profile: debug assertions off)', release_ok, '' if release_ok else out[-2000:]))
    rc, out = build_coq()
    coq_ok = rc == 0
    checker_cmds.append('coq_makefile -f _CoqProject -o Makefile && make -j%d (full .vo build)' % NPROC)
    obligations.append(('coq development builds (make)', coq_ok, '' if coq_ok else out[-2000:]))
    rc, out = build_driver()
    drv_ok = rc == 0
    obligations.append(('extraction + driver build', drv_ok, '' if drv_ok else out[-2000:]))

    # 2. proof obligations of this property
    nthm, nok, axioms, problems, cmd = check_props(pid, scratch) if coq_ok else (0, 0, [], ['coq build failed'], '')
    checker_cmds.append(cmd)
    for xp in spec.get('extra_props', []) if coq_ok else []:
        n2, ok2, ax2, pr2, cmd2 = check_props(xp, scratch)
        nthm += n2; nok += ok2; axioms = sorted(set(axioms) | set(ax2)); problems += pr2; checker_cmds.append(cmd2)
    obligations.append(('props/%s.v: %d theorems + Print Assumptions allow-list + forbidden-vernacular scan' % (pid, nthm), not problems, '; '.join(problems)))
    n_obl_thm = max(nthm, 1)

    # 2a. thorough tier: independent re-check of the compiled proofs this property's theorems rest on (coqchk), with its own axiom report
    if tier == 'thorough' and coq_ok:
        src = os.path.join(COQ, 'props', pid + '.v')
        mods = []
        if os.path.exists(src):
            for m_ in re.finditer(r'From DV Require Import ([^.]*)\.', open(src).read()):
                mods += ['DV.' + x for x in m_.group(1).split()]
        if mods:
            with Lock('coq.lock'):
                rc, out = sh('timeout 3000 coqchk -silent -o -Q theories DV %s 2>&1' % ' '.join(sorted(set(mods))), cwd=COQ)
            axs = re.findall(r'^\s+((?:Coq|Flocq|DV)\.[\w\.]+)\s*$', out.split('* Axioms:')[1].split('* Constants')[0], flags=re.M) if '* Axioms:' in out else []
            bad = [a for a in axs if a.replace('Coq.Logic.', '').replace('Coq.Reals.', '') not in ALLOWED_AXIOMS]
            clean = all(('%s: <none>' % k) in out for k in ('relying on type-in-type', 'relying on unsafe (co)fixpoints', 'whose positivity is assumed'))
            okc = rc == 0 and not bad and clean
            obligations.append(('coqchk: independent re-check of %d compiled modules (and everything they depend on), axioms within the allow-list, no assumed positivity / unsafe fixpoints / type-in-type' % len(set(mods)), okc,
                                '' if okc else ('exit %s; axioms outside the allow-list: %s; %s' % (rc, bad, out[-600:]))))
            checker_cmds.append('coqchk -silent -o -Q theories DV ' + ' '.join(sorted(set(mods))))

    # 2b. API registry (C15 and operator clauses): the harness dispatch covers exactly the public entry points of the current source
    if spec.get('api_registry') and harness_ok:
        import apiscan, apimap
        names, unknown = apiscan.scan()
        rc_, out_ = sh(RUNNER_BIN + ' api')
        hops = set(out_.split())
        missing = sorted(set(names) - set(apimap.API_TO_OPS)); stale = sorted(set(apimap.API_TO_OPS) - set(names))
        nodisp = sorted(o for v in apimap.API_TO_OPS.values() for o in v if o.split(':')[0] not in hops)
        ok_ = not (missing or stale or nodisp or unknown)
        obligations.append(('API registry: %d public entry points of src/d128.rs + serde.rs, each mapped to a harness operation' % len(names), ok_,
                            'entry points without a harness operation: %s; mapped but no longer in the source: %s; mapped to an operation the runner lacks: %s; unclassified items: %s' % (missing, stale, nodisp, unknown) if not ok_ else ''))
        checker_cmds.append('lib/apiscan.py (scan of /repo/src/d128.rs, serde.rs) vs lib/apimap.py vs `verif-harness api`')

    # 2c. layer I: the routines named for this property are re-translated from /repo's current source (layerI/rs2v.py) and the theorems
    #     "translated code = reference model, for all inputs" (layerI/Impl/ImplProofs.v) are re-checked against the regenerated Gallina
    if coq_ok and spec.get('layerI'):
        sys.path.insert(0, os.path.join(ROOT, 'layerI'))
        import layerI as LI
        groups, wanted = spec['layerI']
        partial_ = []
        if tier == 'thorough' and spec.get('layerI_thorough'):       # heavier / partial theorems: thorough tier only
            g2, w2 = spec['layerI_thorough']; groups = groups + ',' + g2 if groups else g2; wanted = list(wanted) + list(w2); partial_ = [w for w in w2 if w in getattr(props, 'PARTIAL_LAYER_I', set())]
        with Lock('layerI.lock'):
            res = LI.check_layerI(os.path.join(scratch, 'layerI'), src=os.path.join(REPO, 'src'), groups=groups)
        for name, ok_, det_ in res:
            if name in wanted:
                if name in partial_:
                    obligations.append(('layer I: %s translated from the current source agrees with the model on the stated sub-domain (PARTIAL theorem I_%s_partial, see layerI/REPORT.md)' % (name, name), ok_, '' if ok_ else det_))
                else:
                    obligations.append(('layer I: %s translated from the current source equals the model for all inputs (theorem I_%s)' % (name, name), ok_, '' if ok_ else det_))
        missing_ = [w for w in wanted if w not in [r[0] for r in res]]
        if missing_: obligations.append(('layer I: routines %s' % missing_, False, 'not produced by layerI.check_layerI'))
        checker_cmds.append('layerI/rs2v.py --src /repo/src (Rust -> Gallina) ; coqc ImplLib ImplGen ImplCommon ImplTables ImplMul + one file per routine (layerI/layerI.py)')
        if tier == 'thorough':     # independent re-check (coqchk) of the layer-I proof files compiled in this run
            lis = os.path.join(scratch, 'layerI')
            pmods = ['DVI.P_' + w for w in wanted if os.path.exists(os.path.join(lis, 'P_%s.vo' % w))]
            if pmods:
                with Lock('coq.lock'):
                    rc, out = sh('timeout 6000 coqchk -silent -o -Q theories DV -Q %s DVI %s 2>&1' % (lis, ' '.join(pmods)), cwd=COQ, timeout=7000)
                axs = re.findall(r'^\s+((?:Coq|Flocq|DV|DVI)\.[\w\.]+)\s*$', out.split('* Axioms:')[1].split('* Constants')[0], flags=re.M) if '* Axioms:' in out else []
                bad = [a for a in axs if a.replace('Coq.Logic.', '').replace('Coq.Reals.', '') not in ALLOWED_AXIOMS]
                clean = all(('%s: <none>' % k) in out for k in ('relying on type-in-type', 'relying on unsafe (co)fixpoints', 'whose positivity is assumed'))
                okc = rc == 0 and not bad and clean
                obligations.append(('coqchk: independent re-check of %d layer-I proof files of this run (regenerated Gallina included)' % len(pmods), okc,
                                    '' if okc else ('exit %s; axioms outside the allow-list: %s; %s' % (rc, bad, out[-600:]))))
                checker_cmds.append('coqchk -silent -o -Q theories DV -Q <scratch>/layerI DVI ' + ' '.join(pmods))

    # 3. table obligations (regenerated from the compiled crate)
    table_results = []
    if harness_ok and coq_ok and spec.get('tables'):
        import tables
        table_results = tables.check_tables(spec['tables'], scratch)
        for name, ok, detail in table_results:
            obligations.append(('table theorem ' + name, ok, detail))
        checker_cmds.append('harness tables | lib/tables.py -> Tables_gen.v; coqc TableProofs (vm_compute over the finite index range)')

    # 4. correspondence
    evaluations = 0; cells = set(); nontrivial_cells = set(); samples = []; dist = collections.Counter()
    rejects = []; summ = collections.Counter()
    streams_info = []; xsample = []
    if harness_ok and drv_ok:
        rng_master = random.Random(seed)
        for st_ in spec['streams']:
            (sname, genf, nq, nt) = st_[:4]; sopts = st_[4] if len(st_) > 4 else {}
            n = nq if tier == 'quick' else nt
            rbin = RUNNER_BIN
            if sopts.get('bin') == 'ta':
                rc_, out_ = build_harness_ta()
                obligations.append(('harness builds against /repo with the crate feature decimal_tiny_detection_after_rounding', rc_ == 0, '' if rc_ == 0 else out_[-1500:]))
                if rc_ != 0: continue
                rbin = RUNNER_BIN_TA
            rng = random.Random(rng_master.getrandbits(64))
            ts = time.time()
            lines = list(genf(rng, n))
            if spec.get('panic_only'):
                outs, verdicts, s = run_cases_panic_only(lines, scratch, RUNNER_BIN, sname)
                if release_ok:
                    o2, v2, s2 = run_cases_panic_only(lines, scratch, RUNNER_BIN.replace('/debug/', '/release/'), sname + '_rel')
                    verdicts += v2; s.update(s2)
            else:
                outs, verdicts, s = run_cases(lines, scratch, runner_bin=rbin, tag=sname)
            summ.update(s)
            evaluations += s['total']
            streams_info.append(dict(stream=sname, cases=len(lines), ok=s['ok'], reject=s['reject'], panic=s['panic'], unknown=s['unknown'], known_class=s['known'], secs=round(time.time() - ts, 1)))
            # cell accounting on (a sample of) the executed lines
            stride = max(1, len(lines) // 60000)
            taken = 0
            for o in outs:
                for j, l in enumerate(open(o, errors='replace')):
                    if j % stride: continue
                    c, nt_ = cell_of(l.rstrip('\n'))
                    if c is None: continue
                    cells.add(c)
                    if nt_: nontrivial_cells.add(c)
                    dist['op:' + c[0]] += 1; dist['mode:' + c[1]] += 1; dist['raised:%02x' % c[3]] += 1; dist['result:' + c[4]] += 1
                    if taken < 2: samples.append(l.strip()); taken += 1
                    if j % max(1, (len(lines) // 16) // 12) == 0 and len(xsample) < 400: xsample.append(l.rstrip('\n'))
            if spec.get('cross_entry'):
                verdicts = verdicts + cross_entry_check(outs)
            for v in verdicts:
                d = parse_verdict(v) if not v.startswith('BROKEN') else dict(kind='BROKEN', case='', got=v, expected='')
                d['stream'] = sname
                rejects.append(d)
            if s['unknown']:
                rejects.append(dict(kind='BROKEN', case='', got='%d cases with an operation the judge does not know' % s['unknown'], expected='', stream=sname))
    # 4b. extraction cross-check: a sample of the executed cases is judged again inside Coq (vm_compute) and compared with the extracted judge
    if harness_ok and drv_ok and coq_ok and not spec.get('panic_only') and xsample:
        import xcheck
        random.Random(seed).shuffle(xsample)
        okx, detx, nx = xcheck.crosscheck(xsample, DRIVER_BIN, COQ, scratch, 120)
        obligations.append(('extraction = evaluation: the extracted judge and vm_compute inside Coq give the same verdict on %d sampled cases' % nx, okx, detx if not okx else ''))
        checker_cmds.append('coqc XCheck.v (Eval vm_compute of judge (expected ...) on sampled cases) vs ocaml/driver -v')

    # 5. triage
    known = load_known()
    met = collections.Counter()
    groups = collections.OrderedDict()
    for d in rejects:
        k = match_known(known, pid, d)
        if k is not None:
            met[k['id']] += 1; continue
        key = (d['kind'], d['case'].split()[0] if d['case'] else '', d['got'].split()[1] if d['kind'] == 'PANIC' and len(d['got'].split()) > 1 else '')
        groups.setdefault(key, []).append(d)
    n_unl = sum(len(v) for v in groups.values())
    obligations.append(('correspondence: implementation outputs accepted by the extracted model on every generated case (recorded known findings apart)',
                        harness_ok and drv_ok and n_unl == 0, '%d not accepted, %d of them recorded known findings' % (len(rejects), len(rejects) - n_unl)))
    for k in known:
        if met[k['id']]:
            known_lines.append('KNOWN-FINDING: property=%s %s (%d cases this run)' % (pid, k['what'], met[k['id']]))
    n_unlisted = sum(len(v) for v in groups.values())
    for key, ds in list(groups.items())[:8]:
        d = ds[0]
        if d['kind'] in ('REJECT', 'PANIC') and d['case'] and 'PANIC hang:' not in d.get('got', ''):   # a hanging case is not re-run 60 times
            try: d = shrink(d, scratch)
            except Exception as e: d['shrink_error'] = repr(e)
        p = write_replay(pid, d, dict(what='implementation output not in the accepted set' if d['kind'] == 'REJECT' else d['kind'].lower(),
                                      similar_cases_this_run=len(ds), seed=seed, tier=tier,
                                      theorem='coq/props/%s.v ties the accepted set to the property statement' % pid))
        violations.append((p, ''))
    # V3: an obligation that depends on /repo or on the proofs broke, and no failing input is at hand
    for name, ok, detail in obligations:
        if ok or name.startswith('correspondence'): continue
        if name.startswith('table theorem'):
            continue  # handled below with a targeted search
        p = write_replay(pid, dict(kind='OBLIGATION', case='', got=detail, expected=''), dict(what=name, seed=seed, tier=tier))
        violations.append((p, ' no-failing-input-found' if not n_unlisted else ''))
    for name, ok, detail in table_results:
        if ok: continue
        p = write_replay(pid, dict(kind='TABLE', case='', got=detail, expected=''), dict(what='table theorem ' + name, seed=seed, tier=tier))
        violations.append((p, ' no-failing-input-found' if not n_unlisted else ''))

    # 6. evidence
    n_obl = len(obligations) - 1 + n_obl_thm
    n_dis = sum(1 for o in obligations if o[1]) - (1 if not problems else 0) + nok
    ev = dict(
        property_id=pid, tier=tier, seed=seed, level=spec.get('level', 'proof'),
        coverage=dict(
            obligations=n_obl, discharged=n_dis,
            checker_cmd=' ; '.join(c for c in checker_cmds if c),
            trusted_base=TRUSTED_BASE + spec.get('trusted_extra', []),
            theorems=nthm, axioms_reported=axioms,
            obligation_list=[dict(name=n_, ok=ok, detail=det[:300]) for n_, ok, det in obligations],
            evaluations=evaluations, distinct_nontrivial=len(nontrivial_cells), distinct_cells=len(cells),
            rule='cases are constructed per DESIGN 4.3 (cell-directed, result-directed, Intel vectors, malformed stream); a cell = (op, mode, operand classes with digit counts, newly raised flags, result class); non-trivial = at least one finite non-zero operand or a string/integer argument',
            samples=samples[:12], streams=streams_info,
            input_distribution={k: v for k, v in sorted(dist.items())},
            disagreements_checked=len(rejects), known_findings_met=dict(met),
            explanation=spec.get('explanation', ''),
            exhaustive=False),
        assumptions=spec.get('assumptions', []) + ['the model (coq/theories) is tied to the code only by this differential run and the table theorems; see DESIGN.md section 8'],
        wall_s=round(time.time() - t0, 1), violations=len(violations))
    os.makedirs(os.path.join(ROOT, 'evidence'), exist_ok=True)
    json.dump(ev, open(os.path.join(ROOT, 'evidence', pid + '.json'), 'w'), indent=1)

    for l in known_lines: log(l)
    for p, suffix in violations:
        log('VIOLATION property=%s replay=%s%s' % (pid, p, suffix))
    log('%s tier=%s seed=%d: %d theorems, %d/%d obligations, %d cases (%d cells, %d non-trivial), %d not accepted (%d listed as known), %.0fs'
        % (pid, tier, seed, nthm, n_dis, n_obl, evaluations, len(cells), len(nontrivial_cells), len(rejects), sum(met.values()), time.time() - t0))
    if not violations:
        shutil.rmtree(scratch, ignore_errors=True)
    return 1 if violations else 0


def replay(path):
    rec = json.load(open(path))
    pid = rec['property']
    scratch = os.path.join(ROOT, 'run', 'replay.%d' % os.getpid()); os.makedirs(scratch, exist_ok=True)
    for f, nm in ((build_harness, 'harness'), (build_coq, 'coq'), (build_driver, 'driver')):
        rc, out = f()
        if rc: log('build of %s failed:\n%s' % (nm, out[-2000:])); return 1
    if not rec.get('case'):
        log('replay %s: obligation "%s" — re-run ./check %s to re-check it; recorded detail:\n%s' % (path, rec.get('what'), pid, rec.get('got', '')[:2000]))
        return 1
    outs, verdicts, summ = run_cases([rec['case']], scratch, tag='replay')
    log(open(outs[0]).read().strip())
    for v in verdicts: log(v)
    shutil.rmtree(scratch, ignore_errors=True)
    if verdicts:
        log('VIOLATION property=%s replay=%s' % (pid, path)); return 1
    log('replay: accepted by the model (no longer fails)'); return 0


def setup():
    t0 = time.time()
    for f, nm in ((build_harness, 'harness'), (build_coq, 'coq'), (build_driver, 'driver')):
        rc, out = f()
        log('setup: %s %s (%.0fs)' % (nm, 'ok' if rc == 0 else 'FAILED', time.time() - t0))
        if rc: log(out[-3000:]); return 1
    return 0


def main(argv):
    if not argv: print(__doc__ if __doc__ else 'usage'); return 2
    if argv[0] == 'setup': return setup()
    if argv[0] == 'replay': return replay(argv[1])
    pid = argv[0]
    tier = os.environ.get('VERIF_TIER', 'quick'); seed = int(os.environ.get('VERIF_SEED', '1'))
    i = 1
    while i < len(argv):
        if argv[i] == '--tier': tier = argv[i + 1]; i += 2
        elif argv[i] == '--seed': seed = int(argv[i + 1]); i += 2
        else: i += 1
    return run_check(pid, tier, seed)
