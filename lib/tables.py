#!/usr/bin/env python3
"""Constant-table translator and checker (DESIGN 4.4, V3).

    `verif-harness tables` --> dump (one line per table row) --> Tables_gen.v   (Definition T_<NAME> : list (list Z))
    TableSpec.v (closed forms spec_<NAME>) + the dumped tables --> one coqc per theorem block of TableProofs.v,
    run in parallel; a failing block is diagnosed by Coq itself: an `Eval vm_compute` of the rows that differ
    from the closed form (same Gallina closed form as in the theorem, no second implementation in Python).

Scheme (everything is compiled inside the scratch directory, nothing is written next to the sources):

    <scratch>/tables.dump     what the harness printed
    <scratch>/Tables_gen.v    all tables in one file (what TableProofs.v as a whole imports; compiled only with
                              whole=True -- Coq needs 10-20 s to read the 39000 literals of this one file)
    <scratch>/TG_<NAME>.v     the same Definition T_<NAME>, one table per file: compiled in parallel
    <scratch>/TableSpec.v     copy of <COQ_TABLES>/TableSpec.v      (closed forms; imports DV.OpsConv for declets)
    <scratch>/TP_<block>.v    header of <COQ_TABLES>/TableProofs.v (with `Tables_gen` replaced by the TG_ files of
                              the block) + one `(* BEGIN ... *) ... (* END *)` block of it
    <scratch>/TD_<block>.v    only after a failure: evaluates the differing rows
    coqc -q -noglob -Q <COQ_THEORIES> DV -Q <scratch> DVT <file>      (always under `timeout`)

TableProofs.v is the only place where the theorem statements live; the TP_ files are mechanical slices of it
and `check_tables(None, scratch, whole=True)` also compiles it unsliced against Tables_gen.v as a cross-check.

Use from the runner:   check_tables(names, scratch) -> [(table name, ok, detail)]      names=None: all tables
                       check_coverage()             -> (ok, detail)   every array constant in /repo/src is dumped
Stand-alone:           tables.py gen <dump> <Tables_gen.v> | check <scratch> [--whole] [names...] | coverage [src dir]
Python 3 standard library only.
"""
import ast
import concurrent.futures
import os
import re
import shutil
import subprocess
import sys
import time

# ---- configuration (module constants so that the runner / a test can change them) --------------------------
_ROOT = os.path.dirname(os.path.dirname(os.path.abspath(__file__)))
HARNESS = os.path.join(_ROOT, 'harness', 'target', 'debug', 'verif-harness')   # built with RUSTFLAGS="--cfg decmathlib_rs_verif"
COQ_THEORIES = os.path.join(_ROOT, 'coq', 'theories')                     # logical path DV (compiled .vo files must exist)
COQ_TABLES = os.path.join(_ROOT, 'coq', 'tables')                         # TableSpec.v, TableProofs.v
REPO_SRC = '/repo/src'                                   # only for check_coverage
COQC = 'coqc'
JOBS = 16
TIMEOUT_GEN = 1200    # seconds, Tables_gen.v / TableSpec.v
TIMEOUT_BLOCK = 900  # seconds, one theorem block
TIMEOUT_HARNESS = 600

BEGIN_RE = re.compile(r'^\(\*\s*BEGIN\s+(\S+)\s*:\s*(eq|all|rel)\s+(\S+)\s+(\S+)\s+(\d+)\s+(\d+)\s*\*\)\s*$')
END_RE = re.compile(r'^\(\*\s*END\s*\*\)\s*$')


# ---- dump -> rows -----------------------------------------------------------------------------------------
def run_harness():
    """The dump text printed by `<HARNESS> tables`."""
    r = subprocess.run(['timeout', str(TIMEOUT_HARNESS), HARNESS, 'tables'], stdout=subprocess.PIPE,
                       stderr=subprocess.PIPE, universal_newlines=True)
    if r.returncode != 0:
        raise RuntimeError('harness tables failed (exit %d): %s' % (r.returncode, r.stderr.strip()[:500]))
    return r.stdout


def parse_dump(text):
    """dump text -> {name: [row, ...]} (insertion order = dump order); a row is a list of ints.

    Line format: NAME <index> <v0> <v1> ...   index = decimal `i` or `i.j` (two-level tables); values are
    decimal (possibly negative) or 0x-hexadecimal.  Rows must come in index order without gaps: a two-level
    index i.j is flattened to i * (number of j per i) + j, which is checked here."""
    tables = {}
    last = {}
    for ln, line in enumerate(text.splitlines(), 1):
        t = line.split()
        if not t:
            continue
        if len(t) < 2:
            raise ValueError('dump line %d: too short: %r' % (ln, line))
        name = t[0]
        if not re.match(r'^[A-Za-z_][A-Za-z_0-9]*$', name):
            raise ValueError('dump line %d: bad table name %r' % (ln, name))
        idx = tuple(int(x) for x in t[1].split('.'))
        vals = [int(x, 0) for x in t[2:]]
        rows = tables.setdefault(name, [])
        prev = last.get(name)
        if prev is None:
            ok = all(x == 0 for x in idx)
        elif len(idx) != len(prev):
            ok = False
        elif len(idx) == 1:
            ok = idx[0] == prev[0] + 1
        else:
            ok = (idx[0] == prev[0] and idx[1] == prev[1] + 1) or (idx[0] == prev[0] + 1 and idx[1] == 0)
        if not ok:
            raise ValueError('dump line %d: table %s: index %s does not follow %s' % (ln, name, t[1], prev))
        last[name] = idx
        rows.append(vals)
    return tables


def z(n):
    return str(n) if n >= 0 else '(%d)' % n


GEN_HEAD = ['(* GENERATED by tables.py from `verif-harness tables` (the tables of the compiled crate). Do not edit. *)',
            'From Coq Require Import ZArith List.', 'Import ListNotations.', 'Open Scope Z_scope.', '']


def gen_def(name, rows):
    """`Definition T_<name> : list (list Z) := [[..]; ..].` (rows in index order, decimal literals)."""
    return 'Definition T_%s : list (list Z) := [\n%s\n].\n' % (
        name, ';\n'.join(' [' + '; '.join(z(v) for v in r) + ']' for r in rows))


def gen_v(tables):
    """Coq source of Tables_gen.v: all tables."""
    return '\n'.join(GEN_HEAD + [gen_def(n, r) for n, r in tables.items()])


def gen_one_v(name, rows):
    """Coq source of TG_<name>.v: the same definition of one table alone (compiled in parallel)."""
    return '\n'.join(GEN_HEAD + [gen_def(name, rows)])


# ---- TableProofs.v -> blocks ------------------------------------------------------------------------------
class Block:
    """One `(* BEGIN <block> : <kind> <table>[,<table>] <what> <first row> <number of rows> *) ... (* END *)` block.
    kind eq : theorem `slice a n T_<table> = map <what> (rows_from a n)`  (what = spec function)
    kind all: theorem `forallb <what> (rows_from a n) = true`             (what = boolean row predicate)
    kind rel: a relation between several tables; `<what> T_<table> T_<table>` evaluates to the offending rows
              as (row, values in the tables, values of the closed form)"""
    def __init__(self, name, kind, tables, what, first, count, text):
        self.name, self.kind, self.tables, self.what = name, kind, tables.split(','), what
        self.table = self.tables[0]
        self.first, self.count, self.text = first, count, text

    def imports(self):
        return 'From DVT Require Import %s.' % ' '.join('TG_' + t for t in self.tables)


def split_proofs(src):
    """TableProofs.v text -> (header, [Block])."""
    header, blocks, cur, cur_lines = [], [], None, []
    seen_block = False
    for line in src.splitlines():
        m = BEGIN_RE.match(line.rstrip())        # only at the beginning of a line
        if m:
            if cur is not None:
                raise ValueError('TableProofs.v: BEGIN %s inside block %s' % (m.group(1), cur[0]))
            cur = m.groups()
            cur_lines = [line]
            seen_block = True
            continue
        if line.startswith('(* BEGIN'):
            raise ValueError('TableProofs.v: malformed BEGIN line: %r' % line)
        if cur is not None:
            cur_lines.append(line)
            if END_RE.match(line.rstrip()):
                name, kind, table, what, first, count = cur
                blocks.append(Block(name, kind, table, what, int(first), int(count), '\n'.join(cur_lines)))
                cur = None
        elif not seen_block:
            header.append(line)
        # text between blocks (section comments) is dropped from the slices
    if cur is not None:
        raise ValueError('TableProofs.v: block %s not closed' % cur[0])
    return '\n'.join(header) + '\n', blocks


# ---- running coqc -----------------------------------------------------------------------------------------
def coqc(scratch, fname, timeout):
    """Compile scratch/fname; returns (ok, output, seconds)."""
    cmd = ['timeout', str(timeout), COQC, '-q', '-noglob', '-Q', COQ_THEORIES, 'DV', '-Q', scratch, 'DVT',
           os.path.join(scratch, fname)]
    t0 = time.time()
    r = subprocess.run(cmd, stdout=subprocess.PIPE, stderr=subprocess.STDOUT, universal_newlines=True, cwd=scratch)
    dt = time.time() - t0
    out = r.stdout
    if r.returncode == 124:
        out += '\n(timeout after %d s)' % timeout
    return r.returncode == 0, out, dt


def fmt_row(r):
    return '[' + ' '.join(str(v) for v in r) + ']'


def parse_eval(out):
    """The value printed by the (single) `Eval vm_compute` of a TD file, as a Python object."""
    m = re.search(r'=\s(.*?)\n\s*:\s', out, re.S)
    if not m:
        return None
    s = re.sub(r'\s+', ' ', m.group(1)).replace(';', ',').replace('%Z', '')
    try:
        return ast.literal_eval(s)
    except (ValueError, SyntaxError):
        return None


def diagnose(scratch, b, nrows):
    """After block b failed: which rows differ (Coq evaluates the same closed form as the theorem)."""
    pre = []
    if b.kind == 'eq' and nrows is not None and b.first + b.count > nrows:
        pre.append('table has %d rows, the theorem covers rows %d..%d' % (nrows, b.first, b.first + b.count - 1))
    if b.kind == 'eq' and nrows is not None and b.count != nrows and ' slice ' not in b.text:
        pre.append('table has %d rows, the theorem states %d' % (nrows, b.count))
    if b.kind == 'eq':
        body = 'Eval vm_compute in (diff_rows %d %d T_%s %s).' % (b.first, b.count, b.table, b.what)
    elif b.kind == 'rel':
        body = 'Eval vm_compute in (%s %s).' % (b.what, ' '.join('T_' + t for t in b.tables))
    else:
        body = 'Eval vm_compute in (bad_rows %d %d %s).' % (b.first, b.count, b.what)
    fname = 'TD_%s.v' % b.name
    with open(os.path.join(scratch, fname), 'w') as f:
        f.write('From Coq Require Import ZArith List.\nFrom DVT Require Import TableSpec.\n' + b.imports() + '\n'
                'Import ListNotations.\nOpen Scope Z_scope.\n' + body + '\n')
    ok, out, _ = coqc(scratch, fname, TIMEOUT_BLOCK)
    val = parse_eval(out) if ok else None
    if val is None:
        return '; '.join(pre + ['could not evaluate the differing rows: ' + ' '.join(out.split())[:300]])
    items = []
    if b.kind in ('eq', 'rel'):
        for (i, got, want) in val[:8]:
            if len(got) == len(want) and len(got) > 4:      # a wide row: name the columns that differ
                cols = [c for c in range(len(got)) if got[c] != want[c]]
                items.append('row %d: ' % i + ', '.join('column %d: got %d, closed form %d' % (c, got[c], want[c]) for c in cols[:4])
                             + (' ... %d columns in all' % len(cols) if len(cols) > 4 else ''))
            else:
                items.append('row %d: got %s, closed form %s' % (i, fmt_row(got) if got else '(missing)', fmt_row(want)))
    else:
        for i in val[:8]:
            items.append('row %d: %s is false' % (i, b.what))
    if len(val) > 8:
        items.append('... %d rows in all' % len(val))
    if not val and not pre:
        items.append('no differing row among rows %d..%d (length or statement mismatch?)' % (b.first, b.first + b.count - 1))
    return '; '.join(pre + items)


def first_error(out):
    m = re.search(r'(File "[^"]*", line \d+.*?Error:.*)', out, re.S)
    s = m.group(1) if m else out
    return ' '.join(s.split())[:240]


# ---- the check --------------------------------------------------------------------------------------------
GEN_IMPORT = 'From DVT Require Import Tables_gen.'     # the line of the TableProofs.v header a slice replaces


def check_tables(names, scratch, dump_text=None, stats=None, whole=False):
    """Re-prove the closed forms of the constant tables `names` (None = all) on the tables of the compiled crate.

    Returns [(table name, ok, detail)], one entry per table, in dump order.  detail = names of the theorems that
    checked, or, for a failure, the theorem that failed and `row i: got ..., closed form ...` for the rows that
    differ.  A table of the dump without a theorem, or a requested table that is not in the dump, is a failure.
    whole=True additionally compiles Tables_gen.v and the unsliced TableProofs.v (serial, slower; a cross-check
    of the slicing, reported as the pseudo table `<TableProofs.v>`; only meaningful with names=None)."""
    t_start = time.time()
    scratch = os.path.abspath(scratch)
    os.makedirs(scratch, exist_ok=True)
    if dump_text is None:
        dump_text = run_harness()
    tables = parse_dump(dump_text)
    for stale in os.listdir(scratch):
        if re.match(r'^\.?(TP_|TD_|TG_|TableSpec\.|Tables_gen\.|TableProofs\.)', stale):
            os.remove(os.path.join(scratch, stale))
    with open(os.path.join(scratch, 'tables.dump'), 'w') as f:
        f.write(dump_text)
    with open(os.path.join(scratch, 'Tables_gen.v'), 'w') as f:
        f.write(gen_v(tables))
    shutil.copyfile(os.path.join(COQ_TABLES, 'TableSpec.v'), os.path.join(scratch, 'TableSpec.v'))
    with open(os.path.join(COQ_TABLES, 'TableProofs.v')) as f:
        proofs_src = f.read()
    header, blocks = split_proofs(proofs_src)
    if GEN_IMPORT not in header:
        raise ValueError('TableProofs.v: header lacks the line %r' % GEN_IMPORT)

    by_table = {}
    for b in blocks:
        for t in b.tables:
            by_table.setdefault(t, []).append(b)
    if names is None:
        wanted = list(tables.keys()) + [t for t in by_table if t not in tables]
    else:
        wanted = list(dict.fromkeys(names))
    results = {}
    todo = []          # blocks to run
    need = []          # tables whose TG_<name>.v they import
    for n in wanted:
        if n not in tables:
            results[n] = [(False, 'table is not in the dump of the compiled crate')]
        elif n not in by_table:
            results[n] = [(False, 'no theorem for this table in TableProofs.v (%d rows in the dump)' % len(tables[n]))]
        else:
            results[n] = []
            for b in by_table[n]:
                if b not in todo:
                    todo.append(b)
                    need += [t for t in b.tables if t not in need]
    times = {}
    gen_fail = {}

    def run_gen(n):
        """TG_<n>.v: the dumped table alone."""
        if n not in tables:
            gen_fail[n] = 'table %s is not in the dump of the compiled crate' % n
            return
        with open(os.path.join(scratch, 'TG_%s.v' % n), 'w') as f:
            f.write(gen_one_v(n, tables[n]))
        ok, out, dt = coqc(scratch, 'TG_%s.v' % n, TIMEOUT_GEN)
        times['TG_' + n] = dt
        if not ok:
            gen_fail[n] = 'TG_%s.v (generated table) does not compile: %s' % (n, first_error(out))

    def run_block(b):
        for t in b.tables:
            if t in gen_fail:
                return b, False, gen_fail[t]
        fname = 'TP_%s.v' % b.name
        with open(os.path.join(scratch, fname), 'w') as f:
            f.write(header.replace(GEN_IMPORT, b.imports()) + '\n' + b.text + '\n')
        ok, out, dt = coqc(scratch, fname, TIMEOUT_BLOCK)
        times[b.name] = dt
        if ok:
            return b, True, 'T_%s_ok' % b.name
        detail = 'theorem T_%s_ok (TableProofs.v, block %s) failed: %s' % (b.name, b.name, diagnose(scratch, b, len(tables[b.table])))
        if 'Unable to unify' not in out and 'while it is expected to have type' not in out:   # anything but a plain mismatch
            detail += ' [coqc: %s]' % first_error(out)
        return b, False, detail

    # the tables whose literals or computations take longest go first
    big = ('BID_INNERTABLE_SIG', 'MOD10_18_TBL', 'BID_OUTERTABLE_SIG', 'BID_KX256', 'BID_TEN2MXTRUNC256', 'BID_CHAR_TABLE3',
           'BID_D2B', 'BID_B2D', 'BID_MIDI_TBL', 'BID_PACKED_10000_ZEROS', 'BID_FACTORS', 'BID_CONVERT_TABLE')
    rank = lambda n: big.index(n) if n in big else len(big)
    need.sort(key=rank)
    todo.sort(key=lambda b: rank(b.table))
    with concurrent.futures.ThreadPoolExecutor(max_workers=JOBS) as ex:
        f_whole = ex.submit(coqc, scratch, 'Tables_gen.v', TIMEOUT_GEN) if whole else None
        f_gens = [ex.submit(run_gen, n) for n in need]
        ok_spec, out_spec, t_spec = coqc(scratch, 'TableSpec.v', TIMEOUT_GEN)
        for f in f_gens:
            f.result()
        if not ok_spec:
            return [(n, False, 'TableSpec.v does not compile: ' + first_error(out_spec)) for n in wanted]
        for b, ok, detail in ex.map(run_block, todo):
            for t in b.tables:
                if t in results:
                    results[t].append((ok, detail))
        if whole:
            ok_gen, out_gen, t_gen = f_whole.result()
            times['Tables_gen'] = t_gen
            if ok_gen:
                with open(os.path.join(scratch, 'TableProofs.v'), 'w') as f:
                    f.write(proofs_src)
                ok_w, out_w, t_w = coqc(scratch, 'TableProofs.v', 4 * TIMEOUT_GEN)
                times['TableProofs'] = t_w
                results['<TableProofs.v>'] = [(ok_w, 'whole file, %d theorem blocks' % len(blocks) if ok_w else first_error(out_w))]
            else:
                results['<TableProofs.v>'] = [(False, 'Tables_gen.v does not compile: ' + first_error(out_gen))]
            wanted.append('<TableProofs.v>')
    if stats is not None:
        stats.update(t_spec=t_spec, times=times, total=time.time() - t_start, n_blocks=len(todo))

    out = []
    for n in wanted:
        rs = results[n]
        ok = all(r[0] for r in rs)
        if ok:
            detail = 'proved: ' + ', '.join(r[1] for r in rs)
        else:
            detail = ' | '.join(r[1] for r in rs if not r[0])
        out.append((n, ok, detail))
    return out


# ---- coverage: every table declared in the crate's sources is in the dump ---------------------------------
DECL_RE = re.compile(r'^\s*(?:pub\s*\(\s*crate\s*\)\s*)?(?:const|static)\s+([A-Za-z_0-9]+)\s*:\s*\[', re.M)


def source_tables(src=None):
    """Names of the array constants declared in <src>/*.rs outside comments (sqlx_postgres.rs ignored)."""
    src = src or REPO_SRC
    found = {}
    for fn in sorted(os.listdir(src)):
        if not fn.endswith('.rs') or fn in ('sqlx_postgres.rs', 'verif_hooks.rs'):
            continue
        with open(os.path.join(src, fn), encoding='utf-8', errors='replace') as f:
            text = f.read()
        text = re.sub(r'/\*.*?\*/', lambda m: '\n' * m.group(0).count('\n'), text, flags=re.S)   # block comments
        text = re.sub(r'//[^\n]*', '', text)
        for m in DECL_RE.finditer(text):
            found[m.group(1)] = fn
    return found


def check_coverage(dump_text=None, src=None):
    """(ok, detail): every compiled array constant of the crate appears in the dump."""
    if dump_text is None:
        dump_text = run_harness()
    dumped = set(parse_dump(dump_text).keys())
    decl = source_tables(src)
    missing = sorted(n for n in decl if n not in dumped)
    if missing:
        return False, 'declared in the sources but not printed by verif_hooks::dump_tables: ' + \
            ', '.join('%s (%s)' % (n, decl[n]) for n in missing)
    return True, '%d array constants declared, all dumped (%d names in the dump incl. scalars)' % (len(decl), len(dumped))


# ---- command line -----------------------------------------------------------------------------------------
def main(argv):
    if len(argv) >= 4 and argv[1] == 'gen':
        with open(argv[2]) as f:
            text = f.read()
        with open(argv[3], 'w') as f:
            f.write(gen_v(parse_dump(text)))
        return 0
    if len(argv) >= 3 and argv[1] == 'check':
        stats = {}
        whole = '--whole' in argv
        args = [a for a in argv[3:] if a != '--whole']
        res = check_tables(args or None, argv[2], stats=stats, whole=whole)
        bad = 0
        for n, ok, detail in res:
            print('%-34s %s  %s' % (n, 'ok  ' if ok else 'FAIL', detail))
            bad += not ok
        tm = stats.get('times', {})
        slow = ', '.join('%s %.1fs' % kv for kv in sorted(tm.items(), key=lambda kv: -kv[1])[:5])
        print('# %d tables, %d failed; %d theorem blocks; TableSpec.v %.1fs; slowest: %s; total %.1fs' % (
            len(res), bad, stats.get('n_blocks', 0), stats.get('t_spec', 0), slow, stats.get('total', 0)))
        return 1 if bad else 0
    if len(argv) >= 2 and argv[1] == 'coverage':
        ok, detail = check_coverage(src=argv[2] if len(argv) > 2 else None)
        print(('ok   ' if ok else 'FAIL ') + detail)
        return 0 if ok else 1
    sys.stderr.write(__doc__)
    return 2


if __name__ == '__main__':
    sys.exit(main(sys.argv))
