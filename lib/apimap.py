# Which harness operations (harness/src/main.rs dispatch) exercise which public entry point of the crate.
# lib/apiscan.scan() must produce exactly the keys of API_TO_OPS; every op named here must be printed by `verif-harness api`.
TOI = {'i32': 'i32', 'u32': 'u32', 'i64': 'i64', 'u64': 'u64'}
KIND = {'ties_to_even': 'rnint', 'toward_negative': 'floor', 'toward_positive': 'ceil', 'toward_zero': 'int', 'ties_to_away': 'rninta'}

API_TO_OPS = {}
for t in TOI:
    for k, v in KIND.items():
        API_TO_OPS['d128::convert_to_%s_%s' % (t, k)] = ['to_%s_%s' % (t, v)]
        API_TO_OPS['d128::convert_to_%s_exact_%s' % (t, k)] = ['to_%s_x%s' % (t, v)]
CMPN = ['quiet_equal', 'quiet_greater', 'quiet_greater_equal', 'quiet_greater_unordered', 'quiet_less', 'quiet_less_equal', 'quiet_less_unordered',
        'quiet_not_equal', 'quiet_not_greater', 'quiet_not_less', 'quiet_ordered', 'quiet_unordered', 'signaling_greater', 'signaling_greater_equal',
        'signaling_greater_unordered', 'signaling_less', 'signaling_less_equal', 'signaling_less_unordered', 'signaling_not_greater', 'signaling_not_less']
for i, n in enumerate(CMPN): API_TO_OPS['d128::compare_' + n] = ['cmp:%d' % i]
API_TO_OPS.update({
 'd128::abs': ['abs'], 'd128::addition': ['add'], 'd128::class': ['class'], 'd128::convert_from_decimal_character': ['parse'],
 'd128::convert_from_f32': ['from_f32'], 'd128::convert_from_f64': ['from_f64'], 'd128::copy': ['copy'], 'd128::copy_sign': ['copysign'],
 'd128::decode_decimal': ['decode'], 'd128::division': ['div'], 'd128::encode_decimal': ['encode'], 'd128::fdim': ['fdim'], 'd128::fmod': ['fmod'],
 'd128::frexp': ['frexp'], 'd128::fused_multiply_add': ['fma'],
 'd128::is_canonical': ['isx'], 'd128::is_finite': ['isx'], 'd128::is_infinite': ['isx'], 'd128::is_nan': ['isx'], 'd128::is_normal': ['isx'],
 'd128::is_sign_minus': ['isx'], 'd128::is_signaling': ['isx'], 'd128::is_subnormal': ['isx'], 'd128::is_zero': ['isx'],
 'd128::ldexp': ['ldexp'], 'd128::llquantexp': ['llquantexp'], 'd128::llrint': ['llrint'], 'd128::llround': ['llround'], 'd128::log_b': ['ilogb'],
 'd128::logb': ['logb'], 'd128::lrint': ['lrint'], 'd128::lround': ['lround'], 'd128::max_num': ['maxnum'], 'd128::max_num_mag': ['maxmag'],
 'd128::min_num': ['minnum'], 'd128::min_num_mag': ['minmag'], 'd128::modf': ['modf'], 'd128::multiplication': ['mul'], 'd128::nan': ['nan'],
 'd128::nearbyint': ['nearbyint'], 'd128::negate': ['neg'], 'd128::next_after': ['nextafter'], 'd128::next_down': ['nextdown'],
 'd128::next_toward': ['nexttoward'], 'd128::next_up': ['nextup'], 'd128::quantexp': ['quantexp'], 'd128::quantize': ['quantize'],
 'd128::quantum': ['quantum'], 'd128::remainder': ['rem'], 'd128::round_to_integral_exact': ['rint'],
 'd128::round_to_integral_ties_to_away': ['rint_na'], 'd128::round_to_integral_ties_to_even': ['rint_ne'],
 'd128::round_to_integral_ties_toward_negative': ['rint_dn'], 'd128::round_to_integral_ties_toward_positive': ['rint_up'],
 'd128::round_to_integral_ties_toward_zero': ['rint_tz'], 'd128::same_quantum': ['samequantum'], 'd128::scaleb': ['scaleb'],
 'd128::scalebln': ['scalebln'], 'd128::square_root': ['sqrt'], 'd128::subtraction': ['sub'], 'd128::total_order': ['totalorder'],
 'd128::total_order_mag': ['totalordermag'],
 'forward_ref Add': ['o_add'], 'forward_ref AddAssign': ['o_add'], 'forward_ref Div': ['o_div'], 'forward_ref DivAssign': ['o_div'],
 'forward_ref Mul': ['o_mul'], 'forward_ref MulAssign': ['o_mul'], 'forward_ref Neg': ['o_neg'], 'forward_ref Rem': ['o_rem'],
 'forward_ref RemAssign': ['o_rem'], 'forward_ref Sub': ['o_sub'], 'forward_ref SubAssign': ['o_sub'],
 'impl Add for d128': ['o_add'], 'impl AddAssign for d128': ['o_add'], 'impl Div for d128': ['o_div'], 'impl DivAssign for d128': ['o_div'],
 'impl Mul for d128': ['o_mul'], 'impl MulAssign for d128': ['o_mul'], 'impl Neg for d128': ['o_neg'], 'impl Rem for d128': ['o_rem'],
 'impl RemAssign for d128': ['o_rem'], 'impl Sub for d128': ['o_sub'], 'impl SubAssign for d128': ['o_sub'],
 'impl Debug for d128': ['fmt'], 'impl Display for d128': ['fmt'], 'impl LowerExp for d128': ['fmt'], 'impl UpperExp for d128': ['fmt'],
 'impl Default for d128': ['consts'], 'impl Eq for d128': ['ops'], 'impl PartialEq for d128': ['ops'], 'impl PartialOrd for d128': ['ops'],
 'impl From<&str> for d128': ['fromstr2'], 'impl FromStr for d128': ['fromstr'],
 'impl From<f32> for d128': ['fromf32_t'], 'impl From<f64> for d128': ['fromf64_t'], 'impl From<i32> for d128': ['from_i32'],
 'impl From<i64> for d128': ['from_i64'], 'impl From<u32> for d128': ['from_u32'], 'impl From<u64> for d128': ['from_u64'],
 'impl From<u128> for d128': ['copy'],            # every case builds its operands with From<u128>
 'impl From<u32> for RoundingMode': ['add'],      # modes 0..4 (an unknown number is excluded by the property)
 'impl StatusFlags': ['consts'],
 'impl std::hash::Hash for d128': ['hash', 'hasheq', 'hashset', 'hashslice', 'hashsliceeq'],
 'impl std::iter::Product for d128': ['product'], "impl std::iter::Product<&'a d128> for d128": ['product'],
 'impl std::iter::Sum for d128': ['sum'], "impl std::iter::Sum<&'a d128> for d128": ['sum'],
 "impl serde::de::Deserialize<'de> for d128 (serde)": ['serde', 'serde_de'], 'impl serde::ser::Serialize for d128 (serde)': ['serde'],
 'macro dec128': ['macro'],
})
for c in ['DEFAULT_ROUNDING_MODE', 'EPSILON', 'INFINITY', 'MANTISSA_DIGITS', 'MAX', 'MAX_EXP', 'MIN', 'MINUS_ONE', 'MIN_EXP', 'NAN', 'NEGATIVE_INFINITY',
          'NEG_NAN', 'NEG_SNAN', 'ONE', 'RADIX', 'SNAN', 'ZERO']:
    API_TO_OPS['const ' + c] = ['consts']

# argument shapes of the harness operations, for the C15 sweep:  d = 128-bit pattern, i32/i64/u32/u64 = integer, s = string, l = list of patterns, p = predicate index
OPSIG = {}
for o in ['sqrt', 'rint', 'nearbyint', 'rint_ne', 'rint_na', 'rint_dn', 'rint_up', 'rint_tz', 'modf', 'frexp', 'nextup', 'nextdown', 'logb', 'ilogb', 'quantexp',
          'llquantexp', 'quantum', 'class', 'isx', 'abs', 'neg', 'copy', 'encode', 'decode', 'lrint', 'llrint', 'lround', 'llround', 'fmt', 'serde', 'hash', 'o_neg']:
    OPSIG[o] = 'd'
for t in TOI:
    for v in KIND.values():
        OPSIG['to_%s_%s' % (t, v)] = 'd'; OPSIG['to_%s_x%s' % (t, v)] = 'd'
for o in ['add', 'sub', 'mul', 'div', 'quantize', 'rem', 'fmod', 'fdim', 'nextafter', 'nexttoward', 'minnum', 'maxnum', 'minmag', 'maxmag', 'samequantum',
          'totalorder', 'totalordermag', 'copysign', 'hasheq', 'hashset', 'ops', 'o_add', 'o_sub', 'o_mul', 'o_div', 'o_rem']:
    OPSIG[o] = 'dd'
OPSIG.update({'fma': 'ddd', 'cmp': 'ddp', 'scaleb': 'di32', 'ldexp': 'di32', 'scalebln': 'di64', 'from_f32': 'u32', 'fromf32_t': 'u32', 'from_f64': 'u64',
              'fromf64_t': 'u64', 'from_i32': 'u32', 'from_u32': 'u32', 'from_i64': 'u64', 'from_u64': 'u64', 'parse': 's', 'fromstr': 's', 'fromstr2': 's',
              'nan': 's', 'serde_de': 's', 'sum': 'l', 'product': 'l', 'hashslice': 'l', 'consts': '', 'macro': ''})
