# Per-property configuration of the correspondence streams: (name, generator, cases in quick tier, cases in thorough tier)
import gens as G

PROPS = {
    'C01': dict(streams=[('addsub', G.gen_addsub, 60000, 1500000), ('mul', G.gen_mul, 40000, 800000),
                         ('div', G.gen_div, 40000, 800000), ('sqrt', G.gen_sqrt, 20000, 400000),
                         ('operators', G.gen_operators, 20000, 200000)]),
    'C02': dict(streams=[('fma', G.gen_fma, 120000, 2500000)]),
    'C03': dict(streams=[('cmp', G.gen_cmp, 400000, 6000000), ('ops', G.gen_ops, 40000, 600000)]),
    'C04': dict(streams=[('parse', G.gen_parse, 80000, 1500000)]),
    'C05': dict(streams=[('fmt', G.gen_fmt, 40000, 400000), ('roundtrip', G.gen_roundtrip, 40000, 600000)]),
    'C06': dict(streams=[('toint', G.gen_toint, 120000, 2500000), ('fromint', G.gen_fromint, 30000, 1000000),
                         ('roundtrip', G.gen_int_roundtrip, 30000, 500000)]),
    'C07': dict(streams=[('frombin', G.gen_frombin, 60000, 1500000)]),
    'C08': dict(streams=[('rint', G.gen_rint, 120000, 2000000)]),
    'C09': dict(streams=[('quantize', G.gen_quantize, 100000, 2000000), ('queries', G.gen_quantum_queries, 40000, 400000),
                         ('samequantum', G.gen_quantize_samequantum, 10000, 100000)]),
    'C10': dict(streams=[('rem', G.gen_rem, 80000, 1500000)]),
    'C11': dict(streams=[('scaleb', G.gen_scaleb, 100000, 2000000), ('logb', G.gen_logb, 40000, 400000)]),
    'C12': dict(streams=[('nan', G.gen_nan, 120000, 1500000), ('invalid', G.gen_invalid_sources, 20000, 200000)]),
    'C13': dict(streams=[('class', G.gen_class, 60000, 600000), ('noncanon', G.gen_noncanon_ops, 80000, 1000000)]),
    'C14': dict(streams=[('status', G.gen_all_ops_status, 150000, 3000000)]),
    'C16': dict(streams=[('minmax', G.gen_minmax, 120000, 2000000)]),
    'C17': dict(streams=[('next', G.gen_next, 120000, 2000000)]),
    'C18': dict(streams=[('total', G.gen_total, 150000, 3000000)]),
    'C19': dict(streams=[('dpd', G.gen_dpd, 120000, 2000000)]),
    'C20': dict(streams=[('ops', G.gen_ops, 60000, 1000000), ('hash', G.gen_hash, 60000, 1000000)]),
}
