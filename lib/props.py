# Per-property configuration of the correspondence streams: (name, generator, cases in quick tier, cases in thorough tier)
import gens as G

PROPS = {
    'C01': dict(
        streams=[('addsub', G.gen_addsub, 60000, 1500000), ('mul', G.gen_mul, 40000, 800000),
                 ('div', G.gen_div, 40000, 800000), ('sqrt', G.gen_sqrt, 20000, 400000)],
    ),
}
