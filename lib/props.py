# Per-property configuration of the correspondence streams: (name, generator, cases in quick tier, cases in thorough tier)
import gens as G
import gens_cov as GC
import corpus as K

# constant tables re-proved (closed forms, coq/tables) by the checks of the properties whose routines index them
T_COMMON = ['BID_NR_DIGITS', 'BID_TEN2K64', 'BID_TEN2K128', 'BID_TEN2K256', 'BID_MIDPOINT64', 'BID_MIDPOINT128', 'BID_MIDPOINT192', 'BID_MIDPOINT256',
            'BID_TEN2MK128', 'BID_SHIFTRIGHT128', 'BID_MASKHIGH128', 'BID_ONEHALF128', 'BID_TEN2MK128TRUNC', 'BID_ROUND_CONST_TABLE_128',
            'BID_RECIPROCALS10_128', 'BID_RECIP_SCALE', 'BID_ESTIMATE_DECIMAL_DIGITS', 'BID_POWER10_INDEX_BINEXP_128', 'BID_POWER10_TABLE_128']
T_DIV = ['BID_RECIPROCALS10_64', 'BID_SHORT_RECIP_SCALE', 'BID_FACTORS', 'BID_PACKED_10000_ZEROS', 'BID_CONVERT_TABLE']
T_FMA = [f % w for w in ('64', '128', '192', '256') for f in ('BID_KX%s', 'BID_HALF%s', 'BID_MASK%s', 'BID_TEN2MXTRUNC%s')] + \
        ['BID_EX64M64', 'BID_EX128M128', 'BID_EX192M192', 'BID_EX256M256']
T_STR = ['MOD10_18_TBL', 'BID_MIDI_TBL', 'BID_CHAR_TABLE2', 'BID_CHAR_TABLE3', 'BID_TWOTO60_M_10TO18', 'BID_TWOTO60', 'BID_INV_TENTO9', 'BID_TWOTO30_M_10TO9',
         'BID_TENTO9', 'BID_TENTO6', 'BID_TENTO3']
T_BIN = ['BID_POWER_FIVE', 'BID_COEFFLIMITS_BID128', 'BID_INNERTABLE_SIG', 'BID_INNERTABLE_EXP', 'BID_OUTERTABLE_SIG', 'BID_OUTERTABLE_EXP', 'BID_ROUNDBOUND_128']
T_DPD = ['BID_B2D', 'BID_D2B']
TABLES = {'C01': T_COMMON + T_DIV, 'C02': T_COMMON + T_FMA, 'C04': T_COMMON, 'C05': T_STR, 'C06': T_COMMON, 'C07': T_BIN, 'C08': T_COMMON, 'C09': T_COMMON,
          'C10': T_COMMON, 'C11': T_COMMON, 'C17': T_COMMON, 'C19': T_DPD}

PROPS = {
    'C01': dict(streams=[('addsub', G.gen_addsub, 240000, 1500000), ('mul', G.gen_mul, 150000, 800000),
                         ('div', G.gen_div, 150000, 800000), ('sqrt', G.gen_sqrt, 60000, 400000),
                         ('operators', G.gen_operators, 20000, 200000)]),
    'C02': dict(streams=[('fma', G.gen_fma, 250000, 2500000), ('tiny_after', G.gen_tiny_after, 40000, 800000, dict(bin='ta'))], extra_props=['C02ta']),
    'C03': dict(streams=[('cmp', G.gen_cmp, 400000, 6000000), ('ops', G.gen_ops, 40000, 600000)]),
    'C04': dict(streams=[('parse', G.gen_parse, 300000, 2500000)]),
    'C05': dict(streams=[('fmt', G.gen_fmt, 120000, 400000), ('roundtrip', G.gen_roundtrip, 120000, 600000), ('serde', G.gen_serde, 30000, 300000)]),
    'C06': dict(streams=[('toint', G.gen_toint, 500000, 2500000), ('fromint', G.gen_fromint, 100000, 1000000),
                         ('roundtrip', G.gen_int_roundtrip, 30000, 500000)]),
    'C07': dict(streams=[('frombin', G.gen_frombin, 60000, 400000)]),
    'C08': dict(streams=[('rint', G.gen_rint, 400000, 2000000)]),
    'C09': dict(streams=[('quantize', G.gen_quantize, 300000, 2000000), ('queries', G.gen_quantum_queries, 40000, 400000),
                         ('samequantum', G.gen_quantize_samequantum, 10000, 100000)]),
    'C10': dict(streams=[('rem', G.gen_rem, 300000, 1500000)]),
    'C11': dict(streams=[('scaleb', G.gen_scaleb, 300000, 2000000), ('logb', G.gen_logb, 40000, 400000)]),
    'C12': dict(streams=[('nan', G.gen_nan, 300000, 1500000), ('invalid', G.gen_invalid_sources, 20000, 200000)]),
    'C13': dict(streams=[('class', G.gen_class, 60000, 600000), ('noncanon', G.gen_noncanon_ops, 80000, 1000000), ('consts', G.gen_consts, 5000, 50000)]),
    'C14': dict(streams=[('status', G.gen_all_ops_status, 420000, 4000000)], cross_entry=True),
    'C15': dict(streams=[('sweep', G.gen_c15, 400000, 6000000), ('strings', G.gen_parse, 100000, 1500000)], panic_only=True, api_registry=True, level='other',
                explanation='partial: exploration of every public entry point under catch_unwind (debug-assertion and release builds) plus an API registry check; absence of panics in the Rust code is not proved (the model does not transcribe it)'),
    'C16': dict(streams=[('minmax', G.gen_minmax, 300000, 2000000)]),
    'C17': dict(streams=[('next', G.gen_next, 400000, 2000000)]),
    'C18': dict(streams=[('total', G.gen_total, 400000, 3000000)]),
    'C19': dict(streams=[('dpd', G.gen_dpd, 300000, 2000000)]),
    'C20': dict(streams=[('ops', G.gen_ops, 150000, 1000000), ('hash', G.gen_hash, 150000, 1000000), ('hashslice', G.gen_hashslice, 20000, 300000)]),
}

# coverage-directed families (lib/covfam, DESIGN section 22): appended as a stream of the properties whose operations they drive
COVFAM = {'C01': (['add', 'sub', 'mul', 'div', 'sqrt'], 50000, 500000), 'C02': (['fma'], 120000, 1200000), 'C08': (['rint*', 'nearbyint', 'modf'], 10000, 100000),
          'C04': (['parse', 'fromstr*'], 300, 2000), 'C06': (['to_*', 'lrint', 'llrint', 'lround', 'llround'], 60000, 600000), 'C09': (['quantize'], 20000, 200000),
          'C14': (['add', 'sub', 'mul', 'div', 'sqrt', 'fma', 'rint*', 'modf', 'to_*', 'quantize'], 40000, 400000),
          'C15': (['add', 'sub', 'mul', 'div', 'sqrt', 'fma', 'rint*', 'modf', 'parse', 'fromstr*', 'to_*', 'quantize'], 30000, 300000)}
for _k, (_pats, _nq, _nt) in COVFAM.items(): PROPS[_k]['streams'].append(('covfam', GC.gen_cov(_pats), _nq, _nt))


def _as_ta(genf):
    """the same cases through the build with the tininess-after-rounding feature (ops fma_ta / mul_ta, judged by expected_ta)"""
    def gen(rng, n):
        for l in genf(rng, n):
            if l.startswith('fma '): yield 'fma_ta ' + l[4:]
            elif l.startswith('mul '): yield 'mul_ta ' + l[4:]
    return gen


# C02, secondary configuration: besides the directed tiny_after stream, the ordinary fma families and the coverage families run through that build too
# (the coverage measurement of the feature's cfg blocks, DESIGN section 22, showed 7 of their 59 lines reached only by those)
PROPS['C02']['streams'] += [('fma_ta', _as_ta(G.gen_fma), 60000, 600000, dict(bin='ta')), ('covfam_ta', _as_ta(GC.gen_cov(['fma'])), 40000, 400000, dict(bin='ta'))]

for _k, _v in TABLES.items(): PROPS[_k]['tables'] = _v

# Intel's vectors (inputs only) as the first stream of every property whose operations they exercise
VECTORS = {'C01': ['add', 'sub', 'mul', 'div', 'sqrt'], 'C02': ['fma'], 'C03': ['cmp'], 'C04': ['parse'], 'C05': ['fmt'],
           'C06': ['to_*', 'from_i64', 'from_u64', 'lrint', 'llrint', 'lround', 'llround'], 'C07': ['from_f32', 'from_f64'],
           'C08': ['rint', 'rint_*', 'nearbyint', 'modf'], 'C09': ['quantize', 'quantexp', 'llquantexp', 'quantum', 'samequantum'], 'C10': ['rem', 'fmod'],
           'C11': ['scaleb', 'scalebln', 'ldexp', 'logb', 'ilogb', 'frexp'], 'C12': ['abs', 'neg', 'copy', 'copysign', 'nan'], 'C13': ['class', 'isx', 'fdim'],
           'C16': ['minnum', 'maxnum', 'minmag', 'maxmag'], 'C17': ['nextup', 'nextdown', 'nextafter', 'nexttoward'], 'C18': ['totalorder', 'totalordermag'],
           'C19': ['encode', 'decode']}
for _k, _v in VECTORS.items(): PROPS[_k]['streams'].insert(0, ('vectors', K.gen_vectors(_v), 60000, 400000))

# layer I (translated routines): (groups of layerI/rs2v.py to translate, routines whose theorems are obligations of the property)
LAYER_I = {'C13': ('A,C,X', ['bid128_is_signed', 'bid128_is_nan', 'bid128_is_inf', 'bid128_is_signaling', 'bid128_is_finite', 'bid128_is_zero', 'bid128_is_canonical',
                           'bid128_is_normal', 'bid128_is_subnormal', 'bid128_class', 'bid128_fdim']),   # X: fdim over abstract quiet_greater / sub (conditional theorem)
           'C12': ('A', ['bid128_copy', 'bid128_negate', 'bid128_abs', 'bid128_copy_sign']),
           'C09': ('A,B', ['bid128_same_quantum', 'bid128_quantexp', 'bid128_llquantexp', 'bid128_quantum']),
           'C06': ('B,W', ['bid128_from_int32', 'bid128_from_uint32', 'bid128_from_int64', 'bid128_from_uint64',
                           'bid128_lrint', 'bid128_llrint', 'bid128_lround', 'bid128_llround']),   # W: dispatch wrappers, callees abstract (conditional theorems)
           'C18': ('T', ['bid128_total_order', 'bid128_total_order_mag']),
           'C11': ('D,F,I', ['bid128_scalbln', 'bid128_scalbn', 'bid128_ldexp', 'bid_get_BID128', 'bid128_frexp']),
           'C19': ('E', ['bid_to_dpd128', 'bid_dpd_to_bid128']),
           'C03': ('G,K', ['bid128_quiet_equal', 'bid128_quiet_not_equal', 'bid128_quiet_greater', 'bid128_quiet_greater_equal', 'bid128_quiet_greater_unordered', 'bid128_quiet_less',
                         'bid128_quiet_less_equal', 'bid128_quiet_less_unordered', 'bid128_quiet_not_greater', 'bid128_quiet_not_less',
                         'bid128_quiet_ordered', 'bid128_quiet_unordered', 'bid128_signaling_greater', 'bid128_signaling_greater_equal',
                         'bid128_signaling_greater_unordered', 'bid128_signaling_less', 'bid128_signaling_less_equal',
                         'bid128_signaling_less_unordered', 'bid128_signaling_not_greater', 'bid128_signaling_not_less'])}
# group H: the shared multi-word helpers of bid_internal.rs, each proved exact for all inputs ("helper <name> is exact"): obligations of the
# properties whose routines are built on them, so that a change to a helper which matters only for a 2^-64 word pattern is reported there too
import os as _os, re as _re
_HELPERS = _re.findall(r"'(__\w+)'", _re.search(r'HELPERS = \[(.*?)\]', open(_os.path.join(_os.path.dirname(_os.path.dirname(_os.path.abspath(__file__))), 'layerI', 'rs2v.py')).read(), _re.S).group(1))
for _k in ('C01', 'C02', 'C10', 'C16'): LAYER_I[_k] = ('H', list(_HELPERS))
LAYER_I['C17'] = ('N', ['bid128_nextup', 'bid128_nextdown'])
LAYER_I['C08'] = ('R', ['bid128_round_integral_zero', 'bid128_round_integral_negative', 'bid128_round_integral_positive', 'bid128_round_integral_nearest_even', 'bid128_round_integral_nearest_away'])
for _k, _v in LAYER_I.items(): PROPS[_k]['layerI'] = _v
# partial theorems (a stated sub-domain only) are obligations of the thorough tier
PROPS['C17']['layerI_thorough'] = ('NA', ['bid128_nextafter', 'bid128_nexttoward'])     # complete theorems (acceptance list m_next_after), 5-7 minutes
PROPS['C06']['layerI_thorough'] = ('J', ['bid128_to_int32_rnint', 'bid128_to_int32_rninta'])     # complete theorems, 3-4 min each: thorough tier
PROPS['C16']['layerI_thorough'] = ('M', ['bid128_minnum', 'bid128_maxnum', 'bid128_minnum_mag', 'bid128_maxnum_mag'])   # complete theorems, 12 CPU-minutes
PROPS['C08']['layerI_thorough'] = ('RN,RP', ['bid128_nearbyint', 'bid128_round_integral_exact'])   # nearbyint complete (6 min); exact partial: special / zero / exponent >= 0 / exponent <= -35 operands
PARTIAL_LAYER_I = {'bid128_round_integral_exact'}
