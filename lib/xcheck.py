# Extraction cross-check (DESIGN 4.2): a sample of the executed cases is judged a second time INSIDE Coq (vm_compute on
# `judge (expected op mode args) status_in outputs status_out`) and the verdicts are compared with the extracted OCaml judge's.
import os, re, subprocess

MODES = ['RNE', 'RDN', 'RUP', 'RTZ', 'RNA']
SIMPLE = {'add': 'OAdd', 'sub': 'OSub', 'mul': 'OMul', 'div': 'ODiv', 'sqrt': 'OSqrt', 'fma': 'OFma', 'quantize': 'OQuantize', 'rem': 'ORem', 'fmod': 'OFmod',
          'fdim': 'OFdim', 'rint': 'ORint', 'nearbyint': 'ONearbyint', 'rint_ne': '(ORintFix RNE)', 'rint_na': '(ORintFix RNA)', 'rint_dn': '(ORintFix RDN)',
          'rint_up': '(ORintFix RUP)', 'rint_tz': '(ORintFix RTZ)', 'modf': 'OModf', 'frexp': 'OFrexp', 'nextup': 'ONextUp', 'nextdown': 'ONextDown',
          'nextafter': 'ONextAfter', 'nexttoward': 'ONextAfter', 'minnum': '(OMinMax MinNum)', 'maxnum': '(OMinMax MaxNum)', 'minmag': '(OMinMax MinMag)',
          'maxmag': '(OMinMax MaxMag)', 'scaleb': '(OScaleb 32)', 'ldexp': '(OScaleb 32)', 'scalebln': '(OScaleb 64)', 'logb': 'OLogb', 'ilogb': 'OIlogb',
          'quantexp': 'OQuantexp', 'llquantexp': 'OLlquantexp', 'quantum': 'OQuantum', 'samequantum': 'OSameQuantum', 'totalorder': 'OTotalOrder',
          'totalordermag': 'OTotalOrderMag', 'class': 'OClass', 'isx': 'OIsx', 'abs': 'OAbs', 'neg': 'ONeg', 'copy': 'OCopy', 'copysign': 'OCopySign',
          'encode': 'OEncodeDpd', 'decode': 'ODecodeDpd', 'from_f32': '(OFromBin 8 23 true)', 'from_f64': '(OFromBin 11 52 true)',
          'fromf32_t': '(OFromBin 8 23 false)', 'fromf64_t': '(OFromBin 11 52 false)', 'from_i32': '(OFromInt 32 true)', 'from_u32': '(OFromInt 32 false)',
          'from_i64': '(OFromInt 64 true)', 'from_u64': '(OFromInt 64 false)', 'lrint': 'OLrint', 'llrint': 'OLrint', 'lround': 'OLround', 'llround': 'OLround',
          'cmp': 'OCmp', 'ops': 'OOps', 'hasheq': 'OHashEq', 'hashset': 'OHashSet', 'fmt': 'OFmt', 'o_add': '(OOpArith OAdd)', 'o_sub': '(OOpArith OSub)',
          'o_mul': '(OOpArith OMul)', 'o_div': '(OOpArith ODiv)', 'o_rem': '(OOpArith ORem)', 'o_neg': 'OOpNeg', 'sum': 'OSum', 'product': 'OProduct',
          'serde': 'OSerde', 'consts': 'OConsts', 'macro': 'OMacro'}
STRS = {'parse': 'OParse', 'fromstr': 'OFromStr', 'fromstr2': 'OFromStr2', 'serde_de': 'OSerdeDe', 'nan': 'ONanTag'}
KIND = {'rnint': 'RNE', 'floor': 'RDN', 'ceil': 'RUP', 'int': 'RTZ', 'rninta': 'RNA'}


def coq_op(name):
    if name in SIMPLE: return SIMPLE[name], False
    if name in STRS: return STRS[name], True
    m = re.match(r'^to_([iu])(32|64)_(x?)(rnint|floor|ceil|int|rninta)$', name)
    if m: return '(OToInt %s %s %s %s)' % (m.group(2), 'true' if m.group(1) == 'i' else 'false', KIND[m.group(4)], 'true' if m.group(3) else 'false'), False
    return None, False


def tok(t):
    if t == 'ok': return '1'
    if t in ('err', '-'): return '0'
    return str(int(t, 16))


def term(outline):
    """Coq term `judge (expected o md args) fin outs fout` for one executed line, or None (panic / unknown / mode 9)"""
    lhs, _, rhs = outline.partition(' => ')
    t = lhs.split(); r = rhs.split()
    if len(t) < 3 or not r or r[0] in ('PANIC', 'BADUTF8'): return None
    o, is_str = coq_op(t[0])
    if o is None or t[1] not in '01234': return None
    if is_str:
        a = t[3] if len(t) > 3 else '-'
        args = [] if a == '-' else [str(int(a[2 * i:2 * i + 2], 16)) for i in range(len(a) // 2)]
    else:
        args = [str(int(a, 16)) for a in t[3:]]
    try:
        outs = [tok(x) for x in r[:-1]]; fout = str(int(r[-1], 16)); fin = str(int(t[2], 16))
    except ValueError:
        return None
    return 'judge (expected %s %s [%s]) %s [%s] %s' % (o, MODES[int(t[1])], '; '.join(args), fin, '; '.join(outs), fout)


def crosscheck(outlines, driver_bin, coq_dir, scratch, maxn=150):
    """returns (ok, detail, n)"""
    picked = []
    for l in outlines:
        tm = term(l)
        if tm is not None: picked.append((l, tm))
        if len(picked) >= maxn: break
    if not picked: return True, 'no judgeable case sampled', 0
    src = os.path.join(scratch, 'XCheck.v')
    with open(src, 'w') as f:
        f.write('From Coq Require Import ZArith List.\nFrom DV Require Import Base Bid Arith OpsArith OpsCmp OpsMisc OpsConv OpsStr Judge.\nImport ListNotations.\nOpen Scope Z_scope.\n')
        f.write('Definition verdicts : list Z := [\n  ' + ';\n  '.join(tm for _, tm in picked) + '].\n')
        f.write('Eval vm_compute in verdicts.\n')
    p = subprocess.run('timeout 900 coqc -noglob -Q %s/theories DV %s' % (coq_dir, src), shell=True, capture_output=True, text=True, cwd=scratch)
    if p.returncode != 0: return False, 'coqc failed on the cross-check file: ' + (p.stdout + p.stderr)[-600:], len(picked)
    body = re.sub(r'\s+', ' ', p.stdout)
    m = re.search(r'= \[(.*?)\]\s*: list Z', body)
    if not m: return False, 'cannot read coqc output: ' + body[-300:], len(picked)
    coqv = [int(x.strip().replace('%Z', '')) for x in m.group(1).split(';') if x.strip()]
    inp = '\n'.join(l for l, _ in picked) + '\n'
    d = subprocess.run([driver_bin, '-v'], input=inp, capture_output=True, text=True)
    drv = []
    for l in d.stdout.split('\n'):
        k = l.split(' ', 1)[0]
        if k == 'OK': drv.append(1)
        elif k == 'REJECT': drv.append(0)
        elif k.startswith('KNOWN'): drv.append(2 + int(k[5:]))
    if len(drv) != len(coqv): return False, 'verdict counts differ: coq %d, extracted %d' % (len(coqv), len(drv)), len(picked)
    bad = [(picked[i][0], coqv[i], drv[i]) for i in range(len(coqv)) if coqv[i] != drv[i]]
    if bad: return False, 'extracted judge and Coq evaluation differ on %d of %d cases, e.g. %s: coq %d, extracted %d' % (len(bad), len(coqv), bad[0][0][:200], bad[0][1], bad[0][2]), len(picked)
    return True, '%d sampled cases: identical verdicts' % len(coqv), len(picked)
