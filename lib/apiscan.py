# API registry (C15 and the operator clauses): lists every public entry point of the decimal type from /repo's current source
# (src/d128.rs, src/serde.rs) and checks that the harness dispatch covers exactly that list (lib/apimap.API_TO_OPS).
# A regex scanner is enough here: d128.rs keeps one item per line; anything it cannot classify is reported, never skipped.
import re, os

REPO = '/repo'


def scan():
    """returns a sorted list of entry-point names:  d128::<fn> | impl <Trait> for d128 | forward_ref <Trait> | const <NAME> | macro dec128"""
    out = set(); unknown = []
    src = open(os.path.join(REPO, 'src', 'd128.rs')).read()
    src_nc = re.sub(r'//[^\n]*', '', src)
    depth = 0; ctx = None
    for ln in src_nc.split('\n'):
        m = re.match(r'^impl(?:<[^>]*>)?\s+(.*?)\s*\{', ln)
        if m and depth == 0:
            head = m.group(1).strip()
            if head == 'd128': ctx = 'inherent'
            elif head.endswith('for d128'):
                ctx = 'trait'; out.add('impl %s' % head)
            elif head.endswith('for RoundingMode') or head in ('StatusFlags',):
                ctx = 'other'; out.add('impl %s' % head)
            else:
                ctx = 'other'; unknown.append(ln.strip())
        m2 = re.match(r'^\s*pub\s+(?:const\s+)?fn\s+(\w+)', ln)
        if m2 and ctx == 'inherent': out.add('d128::' + m2.group(1))
        elif m2 and depth == 0: out.add('fn ' + m2.group(1))
        m3 = re.match(r'^forward_ref_(\w+)!\s*[\{\(]\s*impl\s+(\w+)', ln)
        if m3: out.add('forward_ref %s' % m3.group(2))
        m4 = re.match(r'^pub\s+const\s+(\w+)\s*:', ln)
        if m4: out.add('const ' + m4.group(1))
        m5 = re.match(r'^\s*macro_rules!\s*(\w+)', ln)
        if m5: out.add('macro ' + m5.group(1))
        depth += ln.count('{') - ln.count('}')
        if depth == 0: ctx = None
    sp = os.path.join(REPO, 'src', 'serde.rs')
    if os.path.exists(sp):
        for m in re.finditer(r'impl(?:<[^>]*>)?\s+([\w:<>\']+)\s+for\s+d128', re.sub(r'//[^\n]*', '', open(sp).read())):
            out.add('impl %s for d128 (serde)' % m.group(1))
    return sorted(out), unknown


if __name__ == '__main__':
    names, unknown = scan()
    for n in names: print(n)
    for u in unknown: print('UNCLASSIFIED', u)
