# Python-side helpers of the correspondence check: BID encode/decode for *generating* and *tagging* cases.
# Nothing here decides a property: acceptance is the extracted Coq model's job (ocaml/driver).
import random

P = 34; QMIN = -6176; QMAX = 6111; BIAS = 6176
T34 = 10 ** 34; T33 = 10 ** 33; M64 = (1 << 64) - 1
M128 = (1 << 128) - 1
INV, DEN, DBZ, OVF, UNF, INX = 1, 2, 4, 8, 0x10, 0x20


def decode(b):
    s = (b >> 127) & 1; hi = b >> 64
    g5 = (hi >> 58) & 0x1f
    if g5 == 0x1f:
        pay = b & ((1 << 110) - 1)
        if pay >= T33: pay = 0
        return ('nan', s, bool((hi >> 57) & 1), pay)
    if g5 == 0x1e: return ('inf', s)
    if (hi >> 61) & 3 == 3: return ('fin', s, 0, ((hi >> 47) & 0x3fff) - BIAS)
    c = b & ((1 << 113) - 1); q = ((hi >> 49) & 0x3fff) - BIAS
    if c >= T34: c = 0
    return ('fin', s, c, q)


def encode(d):
    if d[0] == 'nan': return (d[1] << 127) | ((0x7e if d[2] else 0x7c) << 120) | d[3]
    if d[0] == 'inf': return (d[1] << 127) | (0x78 << 120)
    _, s, c, q = d
    assert 0 <= c < T34 and QMIN <= q <= QMAX, d
    return (s << 127) | ((q + BIAS) << 113) | c


def fin(s, c, q):
    """encode, clamping the exponent into range (coefficient untouched)"""
    return encode(('fin', s, c % T34, max(QMIN, min(QMAX, q))))


def ndig(c): return len(str(c)) if c > 0 else 0


def hx(v): return '%032x' % (v & M128)


def kind(b):
    """coarse class of a bit pattern, for input-distribution accounting"""
    d = decode(b)
    if d[0] == 'nan': return 'snan' if d[2] else 'qnan'
    if d[0] == 'inf': return 'inf'
    hi = b >> 64
    if (hi >> 61) & 3 == 3: return 'noncanon-large'
    if (b & ((1 << 113) - 1)) >= T34: return 'noncanon-small'
    if d[2] == 0: return 'zero'
    if ndig(d[2]) + d[3] - 1 < -6143: return 'subnormal'
    return 'normal'


# ---------------------------------------------------------------- datum generators
def coeff(rng, q=None):
    q = q or rng.randint(1, 34); k = rng.random()
    if k < 0.40: return rng.randint(10 ** (q - 1), 10 ** q - 1)
    if k < 0.50: return 10 ** (q - 1)
    if k < 0.60: return 10 ** q - 1
    if k < 0.68: return rng.randint(1, 9) * 10 ** (q - 1)
    if k < 0.76: return 5 * 10 ** (q - 1)
    if k < 0.82:  # leading nines
        n9 = rng.randint(1, q); return int('9' * n9 + ''.join(rng.choice('0123456789') for _ in range(q - n9)))
    if k < 0.88:  # word / code-path boundaries
        v = rng.choice([2 ** 64, 10 ** 19, 10 ** 20, 2 ** 63, 2 ** 32, 2 ** 96, 2 ** 112, 10 ** 16, 10 ** 17, 10 ** 18]) + rng.randint(-2, 2)
        return max(1, min(v, T34 - 1))
    if k < 0.92:
        v = rng.choice([2 ** rng.randint(1, 112), 5 ** rng.randint(1, 48)]); return v if v < T34 else 1
    if k < 0.95:      # low 64-bit word aliases a power of ten (or 10^j - 1, 5 * 10^j) while the high word is not zero
        j = rng.randint(0, 19); low = rng.choice([10 ** j, 10 ** j - 1, 5 * 10 ** j, 0, (1 << 64) - 1]) % (1 << 64)
        v = (rng.randint(1, 542101086242752) << 64) + low
        return v if 0 < v < T34 else T33
    z = rng.randint(0, q - 1); return rng.randint(10 ** (q - 1 - z), 10 ** (q - z) - 1) * 10 ** z


def expo(rng):
    k = rng.random()
    if k < 0.20: return rng.randint(QMIN, QMAX)
    if k < 0.70: return rng.randint(-70, 70)
    if k < 0.85: return QMIN + rng.randint(0, 45)
    return QMAX - rng.randint(0, 45)


def finite(rng, q=None, e=None, s=None):
    return fin(rng.randint(0, 1) if s is None else s, coeff(rng, q), expo(rng) if e is None else e)


def zero(rng): return fin(rng.randint(0, 1), 0, expo(rng))


def noncanon_small(rng, e=None):
    """coefficient field in [10^34, 2^113): value zero; the first and last such fields and their neighbours are over-represented"""
    k = rng.random()
    c = rng.choice([T34, T34, T34 + 1, T34 + rng.randint(1, 1000), (1 << 113) - 1, (1 << 113) - 1 - rng.getrandbits(20), (T34 | M64) + 1, T34 + (1 << 64)]) if k < 0.4 \
        else rng.randint(T34, (1 << 113) - 1)
    return (rng.randint(0, 1) << 127) | (((expo(rng) if e is None else e) + BIAS) << 113) | c


def noncanon_large(rng, e=None):
    """large-coefficient form (G0G1 = 11, not Inf/NaN): value zero, exponent field two bits lower; e = wanted exponent (or random)"""
    k = rng.random()
    low = 0 if k < 0.2 else rng.getrandbits(64) << 47 if k < 0.3 else rng.getrandbits(47) if k < 0.4 else rng.getrandbits(111)   # trailing bits: all zero / low word zero / small / any
    if e is None: return (rng.randint(0, 1) << 127) | (3 << 125) | (rng.randint(0, 2) << 123) | (rng.getrandbits(12) << 111) | low
    return (rng.randint(0, 1) << 127) | (3 << 125) | ((e + BIAS) << 111) | low


def infinity(rng):
    return (rng.randint(0, 1) << 127) | (0x1e << 122) | (rng.getrandbits(122) if rng.random() < 0.5 else 0)


NAN_PAYLOADS = [0, 1, T33 - 2, T33 - 1, T33, T33 + 1, (1 << 110) - 1]


def nan(rng, sig=None):
    s = rng.randint(0, 1); sig = rng.randint(0, 1) if sig is None else sig; kk = rng.random()
    pay = rng.choice(NAN_PAYLOADS) if kk < 0.5 else rng.randint(0, T33 - 1) if kk < 0.75 else rng.randint(T33, (1 << 110) - 1) if kk < 0.9 else \
          min((1 << 110) - 1, T33 + rng.choice([rng.getrandbits(68), rng.randint(1, 16) << 64, rng.getrandbits(20)])) if kk < 0.95 else T33 - 1 - rng.choice([rng.getrandbits(68), rng.getrandbits(20)])   # just above / below the largest canonical payload
    res = rng.getrandbits(11) if rng.random() < 0.3 else 0
    return (s << 127) | (0x1f << 122) | (sig << 121) | (res << 110) | pay


def special(rng):
    k = rng.random()
    if k < 0.25: return zero(rng)
    if k < 0.40: return noncanon_small(rng)
    if k < 0.50: return noncanon_large(rng)
    if k < 0.70: return infinity(rng)
    return nan(rng)


def datum(rng, pspecial=0.3):
    if rng.random() < pspecial: return special(rng)
    return finite(rng)


MODES = [0, 1, 2, 3, 4]


def status_in(rng):
    k = rng.random()
    if k < 0.6: return 0
    if k < 0.7: return 0x3f
    if k < 0.8: return INX
    return rng.getrandbits(6)


def line(op, mode, fin_, *args):
    return '%s %d %x %s' % (op, mode, fin_, ' '.join(hx(a) if isinstance(a, int) else a for a in args))
