# Case generators of the correspondence check, one family per operation group.
# Constructive and cell-directed (DESIGN 4.3); every random choice comes from the rng handed in.
from dec import *

TAILS = ['0', '01', '49', '50', '51', '99', '5', '4', '6']


def tail_digits(rng, L):
    """a digit string of length L whose rounding class is one of: zero, just above zero, just below half,
    exactly half, just above half, just below one"""
    k = rng.randint(0, 6)
    if L == 1: return rng.choice('0145969')
    if k == 0: return '0' * L
    if k == 1: return '0' * (L - 1) + '1'
    if k == 2: return '4' + '9' * (L - 1)
    if k == 3: return '5' + '0' * (L - 1)
    if k == 4: return '5' + '0' * (L - 2) + '1'
    if k == 5: return '9' * L
    return ''.join(rng.choice('0123456789') for _ in range(L))


def head34(rng):
    k = rng.random()
    if k < 0.5: return coeff(rng, 34)
    if k < 0.6: return T34 - 1
    if k < 0.7: return T33
    if k < 0.8: return T34 - 1 - rng.randint(0, 3)
    if k < 0.9: return rng.randint(T33, T34 - 1) | 1
    return rng.randint(T33, T34 - 1) & ~1


def split_exp(rng, lo=QMIN, hi=QMAX):
    return expo(rng)


# ------------------------------------------------------------------------------------------------ C01
def pair_addsub(rng):
    k = rng.random()
    if k < 0.30:      # digit-count / alignment-boundary cell
        q1 = rng.randint(1, 34); q2 = rng.randint(1, 34)
        c1 = coeff(rng, q1); c2 = coeff(rng, q2)
        delta = rng.choice([-37, -36, -35, -34, -33, -2, -1, 0, 1, 2, 33 - q2, 34 - q2, 35 - q2, q1 - 34, q1 - 33,
                            33, 34, 35, 36, 37, q1 - q2, rng.randint(-40, 40)])
        e1 = expo(rng); e2 = e1 + ndig(c1) - ndig(c2) - delta
        return fin(rng.randint(0, 1), c1, e1), fin(rng.randint(0, 1), c2, e2)
    if k < 0.60:      # result-directed: 34-digit head, tail of L digits behind it
        h = head34(rng); L = rng.randint(1, 34); t = int(tail_digits(rng, L))
        e = expo(rng)
        if e < QMIN: e = QMIN
        if e + L > QMAX: e = QMAX - L
        s = rng.randint(0, 1)
        if rng.random() < 0.5 or t == 0:
            x, y = fin(s, h, e + L), fin(s, t, e)                                    # h.t
        else:
            # (h+1) - (10^L - t) = h.t with opposite signs
            hh = h + 1
            if hh >= T34: hh = h
            x, y = fin(s, hh, e + L), fin(1 - s, 10 ** L - t if ndig(10 ** L - t) <= 34 else t, e)
        return (x, y) if rng.random() < 0.5 else (y, x)
    if k < 0.72:      # cancellation: y close to -x
        x = finite(rng); d = decode(x); _, s, c, q = d
        kk = rng.random()
        if kk < 0.3: y = fin(1 - s, c, q)
        elif kk < 0.6:
            g = rng.randint(0, max(0, 34 - ndig(c))); cc = c * 10 ** g + rng.choice([-1, 1, -5, 5]); qq = q - g
            y = fin(1 - s, cc, qq) if 0 < cc < T34 and qq >= QMIN else fin(1 - s, c, q)
        else:
            y = fin(1 - s, max(1, min(T34 - 1, c + rng.randint(-1000, 1000))), q + rng.choice([0, 0, 1, -1]))
        return x, y
    if k < 0.82:      # extremes: overflow edge, subnormal range
        kk = rng.random()
        if kk < 0.5:
            x = fin(rng.randint(0, 1), rng.choice([T34 - 1, T34 - 2, coeff(rng, 34), 5 * T33]), QMAX - rng.randint(0, 2))
            y = fin(rng.randint(0, 1), coeff(rng), QMAX - rng.randint(0, 40))
        else:
            x = fin(rng.randint(0, 1), coeff(rng), QMIN + rng.randint(0, 40))
            y = fin(rng.randint(0, 1), coeff(rng), QMIN + rng.randint(0, 40))
        return x, y
    if k < 0.90:      # far apart exponents
        x = finite(rng); y = finite(rng, e=rng.randint(QMIN, QMAX))
        return (x, y) if rng.random() < 0.5 else (y, x)
    return datum(rng, 0.6), datum(rng, 0.6)


def gen_addsub(rng, n):
    for _ in range(n):
        x, y = pair_addsub(rng)
        yield line(rng.choice(['add', 'sub']), rng.choice(MODES), status_in(rng), x, y)


def pair_mul(rng):
    k = rng.random()
    if k < 0.30:      # product with an exact-half (or near) tail: x odd-ish times 5, 25, 125, ...
        j = rng.randint(1, 20); y = 5 ** j
        q1 = rng.randint(max(1, 35 - ndig(y)), 34); x = coeff(rng, q1)
        if rng.random() < 0.7: x |= 1
        if rng.random() < 0.3: y *= 2 ** rng.randint(0, j)
        y = y if y < T34 else 5
        e1, e2 = expo(rng), rng.randint(-60, 60)
        return fin(rng.randint(0, 1), x, e1), fin(rng.randint(0, 1), y, e2)
    if k < 0.55:      # digit count cells
        q1 = rng.randint(1, 34); q2 = rng.randint(1, 34)
        x, y = coeff(rng, q1), coeff(rng, q2)
        return fin(rng.randint(0, 1), x, expo(rng)), fin(rng.randint(0, 1), y, expo(rng))
    if k < 0.80:      # exponent regions: overflow edge, clamp zone, underflow edge
        q1 = rng.randint(1, 34); q2 = rng.randint(1, 34)
        x, y = coeff(rng, q1), coeff(rng, q2)
        tgt = rng.choice([QMAX - rng.randint(-3, 36), QMIN + rng.randint(-72, 4), QMAX + 34 - q1 - q2 + rng.randint(-2, 2),
                          -6143 - (q1 + q2) + rng.randint(-2, 2)])
        e1 = rng.randint(max(QMIN, tgt - QMAX), min(QMAX, tgt - QMIN)); e2 = tgt - e1
        return fin(rng.randint(0, 1), x, e1), fin(rng.randint(0, 1), y, e2)
    if k < 0.90:      # head.tail products: (h * 10^L + t) = x * 1 scaled through y = 10^j and friends
        x = finite(rng); y = fin(rng.randint(0, 1), rng.choice([1, 10, 100, 2, 4, 5, 25, 10 ** rng.randint(0, 33)]), expo(rng))
        return (x, y) if rng.random() < 0.5 else (y, x)
    return datum(rng, 0.6), datum(rng, 0.6)


def gen_mul(rng, n):
    for _ in range(n):
        x, y = pair_mul(rng)
        yield line('mul', rng.choice(MODES), status_in(rng), x, y)


def pair_div(rng):
    k = rng.random()
    if k < 0.30:      # exact quotients with strippable zeros: x = quot * y
        qd = rng.randint(1, 34); quot = coeff(rng, qd)
        y = coeff(rng, rng.randint(1, max(1, 34 - qd)))
        x = quot * y
        z = rng.randint(0, 34)
        while x * 10 < T34 and z > 0: x *= 10; z -= 1
        if x >= T34: x = quot; y = 1
        return fin(rng.randint(0, 1), x, expo(rng)), fin(rng.randint(0, 1), y, expo(rng))
    if k < 0.50:      # ties and near ties: divisor 2^a 5^b, dividend odd-ish with many digits
        y = rng.choice([2, 4, 8, 16, 5, 25, 125, 20, 40, 50, 2 ** rng.randint(1, 40), 5 ** rng.randint(1, 20)])
        x = coeff(rng, rng.randint(30, 34)) | 1
        return fin(rng.randint(0, 1), x, expo(rng)), fin(rng.randint(0, 1), y, expo(rng))
    if k < 0.70:      # non-terminating, digit-count cells
        x, y = coeff(rng), coeff(rng)
        return fin(rng.randint(0, 1), x, expo(rng)), fin(rng.randint(0, 1), y, expo(rng))
    if k < 0.90:      # exponent regions
        x, y = coeff(rng), coeff(rng)
        tgt = rng.choice([QMAX - rng.randint(-40, 40), QMIN + rng.randint(-72, 40), -6143 + rng.randint(-36, 4)])
        e2 = rng.randint(max(QMIN, QMIN - tgt), min(QMAX, QMAX - tgt)); e1 = tgt + e2
        return fin(rng.randint(0, 1), x, e1), fin(rng.randint(0, 1), y, e2)
    return datum(rng, 0.6), datum(rng, 0.6)


def gen_div(rng, n):
    for _ in range(n):
        x, y = pair_div(rng)
        yield line('div', rng.choice(MODES), status_in(rng), x, y)


def arg_sqrt(rng):
    k = rng.random()
    if k < 0.35:      # perfect squares and neighbours, both exponent parities
        r = coeff(rng, rng.randint(1, 17)); c = r * r + rng.choice([0, 0, 0, 1, -1])
        z = rng.randint(0, 34 - ndig(c)) if ndig(c) < 34 else 0
        c = max(1, c) * 10 ** z
        return fin(0, c, expo(rng))
    if k < 0.50:      # exact halves cannot occur; squares of half-integers scaled: (r+0.5)^2 has 2 more digits
        r = coeff(rng, rng.randint(1, 16)); c = (2 * r + 1) ** 2 * 25
        return fin(0, c if c < T34 else r, expo(rng))
    if k < 0.80:
        return fin(0, coeff(rng), expo(rng))
    if k < 0.90:
        return fin(0, coeff(rng), rng.choice([QMIN + rng.randint(0, 40), QMAX - rng.randint(0, 40)]))
    return datum(rng, 0.7)


def gen_sqrt(rng, n):
    for _ in range(n):
        yield line('sqrt', rng.choice(MODES), status_in(rng), arg_sqrt(rng))
