import math
# Case generators of the correspondence check, one family per operation group.
# Constructive and cell-directed (DESIGN 4.3); every random choice comes from the rng handed in.
from dec import *

TAILS = ['0', '01', '49', '50', '51', '99', '5', '4', '6']


def tail_digits(rng, L):
    """a digit string of length L whose rounding class is one of: zero, just above zero, just below half,
    exactly half, just above half, just below one"""
    k = rng.randint(0, 6)
    if L == 1: return rng.choice('0145969')
    if k == 0: return '0' * L
    if k == 1: return '0' * (L - 1) + '1'
    if k == 2: return '4' + '9' * (L - 1)
    if k == 3: return '5' + '0' * (L - 1)
    if k == 4: return '5' + '0' * (L - 2) + '1'
    if k == 5: return '9' * L
    return ''.join(rng.choice('0123456789') for _ in range(L))


def head34(rng):
    k = rng.random()
    if k < 0.5: return coeff(rng, 34)
    if k < 0.6: return T34 - 1
    if k < 0.7: return T33
    if k < 0.8: return T34 - 1 - rng.randint(0, 3)
    if k < 0.9: return rng.randint(T33, T34 - 1) | 1
    return rng.randint(T33, T34 - 1) & ~1


def split_exp(rng, lo=QMIN, hi=QMAX):
    return expo(rng)


# ------------------------------------------------------------------------------------------------ C01
def pair_addsub(rng):
    k = rng.random()
    if k < 0.30:      # digit-count / alignment-boundary cell
        q1 = rng.randint(1, 34); q2 = rng.randint(1, 34)
        c1 = coeff(rng, q1); c2 = coeff(rng, q2)
        delta = rng.choice([-37, -36, -35, -34, -33, -2, -1, 0, 1, 2, 33 - q2, 34 - q2, 35 - q2, q1 - 34, q1 - 33,
                            33, 34, 35, 36, 37, q1 - q2, rng.randint(-40, 40)])
        e1 = expo(rng); e2 = e1 + ndig(c1) - ndig(c2) - delta
        return fin(rng.randint(0, 1), c1, e1), fin(rng.randint(0, 1), c2, e2)
    if k < 0.60:      # result-directed: 34-digit head, tail of L digits behind it
        h = head34(rng); L = rng.randint(1, 34); t = int(tail_digits(rng, L))
        e = expo(rng)
        if e < QMIN: e = QMIN
        if e + L > QMAX: e = QMAX - L
        s = rng.randint(0, 1)
        if rng.random() < 0.5 or t == 0:
            x, y = fin(s, h, e + L), fin(s, t, e)                                    # h.t
        else:
            # (h+1) - (10^L - t) = h.t with opposite signs
            hh = h + 1
            if hh >= T34: hh = h
            x, y = fin(s, hh, e + L), fin(1 - s, 10 ** L - t if ndig(10 ** L - t) <= 34 else t, e)
        return (x, y) if rng.random() < 0.5 else (y, x)
    if k < 0.72:      # cancellation: y close to -x
        x = finite(rng); d = decode(x); _, s, c, q = d
        kk = rng.random()
        if kk < 0.3: y = fin(1 - s, c, q)
        elif kk < 0.6:
            g = rng.randint(0, max(0, 34 - ndig(c))); cc = c * 10 ** g + rng.choice([-1, 1, -5, 5]); qq = q - g
            y = fin(1 - s, cc, qq) if 0 < cc < T34 and qq >= QMIN else fin(1 - s, c, q)
        else:
            y = fin(1 - s, max(1, min(T34 - 1, c + rng.randint(-1000, 1000))), q + rng.choice([0, 0, 1, -1]))
        return x, y
    if k < 0.82:      # extremes: overflow edge, subnormal range
        kk = rng.random()
        if kk < 0.5:
            x = fin(rng.randint(0, 1), rng.choice([T34 - 1, T34 - 2, coeff(rng, 34), 5 * T33]), QMAX - rng.randint(0, 2))
            y = fin(rng.randint(0, 1), coeff(rng), QMAX - rng.randint(0, 40))
        else:
            x = fin(rng.randint(0, 1), coeff(rng), QMIN + rng.randint(0, 40))
            y = fin(rng.randint(0, 1), coeff(rng), QMIN + rng.randint(0, 40))
        return x, y
    if k < 0.90:      # far apart exponents
        x = finite(rng); y = finite(rng, e=rng.randint(QMIN, QMAX))
        return (x, y) if rng.random() < 0.5 else (y, x)
    return datum(rng, 0.6), datum(rng, 0.6)


def gen_addsub(rng, n):
    for _ in range(n):
        x, y = pair_addsub(rng)
        yield line(rng.choice(['add', 'sub']), rng.choice(MODES), status_in(rng), x, y)


def product_with_low_digits(rng):
    """(A, B, n, keep): coefficients whose exact product A*B has q4 digits of which the low n = q4 - keep follow a chosen
    rounding pattern (tie / just above / just below / first-rounding trap at digit 34): B = pattern * A^-1 mod 10^n"""
    from math import gcd
    while True:
        qa = rng.randint(1, 34); A = coeff(rng, qa) | 1
        if A % 5 == 0: A += 2
        if A >= T34 or gcd(A, 10) != 1: continue
        n = rng.randint(1, 34)
        kind = rng.random()
        if kind < 0.25: low = '5' + '0' * (n - 1)                                  # exact tie
        elif kind < 0.45: low = '5' + '0' * (n - 2) + '1' if n > 1 else '6'        # just above
        elif kind < 0.65: low = '4' + '9' * (n - 1)                                # just below
        elif kind < 0.8: low = '0' * (n - 1) + rng.choice('01')                    # exact / tiny
        elif kind < 0.9 and n > 3:      # first-rounding traps: 49..95 0..0 and 50..05 0..0 with the inner 5 anywhere
            a = rng.randint(0, n - 3)
            low = (rng.choice(['4' + '9' * a + '5', '5' + '0' * a + '5', '4' + '9' * a + '4', '5' + '0' * a + '4'])).ljust(n, '0')[:n]
        else: low = tail_digits(rng, n)
        low = int(low)
        B = (low * pow(A, -1, 10 ** n)) % 10 ** n
        hi_room = 34 - n
        if hi_room > 0 and rng.random() < 0.8: B += rng.randint(0, 10 ** rng.randint(0, hi_room) - 1) * 10 ** n
        if B == 0 or B >= T34: continue
        P = A * B
        assert P % 10 ** n == low
        return A, B, n, ndig(P) - n


def pair_mul_underflow(rng):
    """product placed so that the quantum 1E-6176 falls right above the n patterned low digits"""
    A, B, n, keep = product_with_low_digits(rng)
    eP = QMIN - n + rng.choice([0, 0, 0, 1, -1])
    r = rng.randint(0, max(0, 6176 - n - 2))
    e1 = QMIN + r; e2 = eP - e1
    e2 = max(QMIN, min(QMAX, e2))
    return fin(rng.randint(0, 1), A, e1), fin(rng.randint(0, 1), B, e2)


def coeff_pair_wordpattern(rng):
    """two coefficients (a, b) < 10^34 such that a 64-bit half h of a times b is m*2^k -/+ r with r tiny (k = 64 or 128): a word of the
    partial product the multi-word multiply forms is all ones (a pending carry ripples through it) or all zeros with a small residue;
    the other half of a is biased to the extremes so that the column below does / does not carry"""
    for _ in range(40):
        hi = rng.random() < 0.6
        h = rng.randrange(1 << rng.randint(20, 48), 0x1ed09bead87c0) if hi else rng.getrandbits(64) | (1 << rng.randint(40, 63))
        k = rng.choice([64, 128, 128])
        mmax = (h * (T34 - 1)) >> k
        if mmax < 2: continue
        m = rng.randrange(max(1, mmax // 1000), mmax)
        b = (m << k) // h + rng.choice([0, 0, 1])
        if not 0 < b < T34: continue
        other = rng.choice([rng.getrandbits(64), M64, M64 - rng.getrandbits(8), (1 << 63) | rng.getrandbits(63), rng.getrandbits(10), 0, 1 << 63])
        a = (h << 64 | other) if hi else ((rng.randrange(0, 0x1ed09bead87c0) << 64) | h)
        if not 0 < a < T34: continue
        return a, b
    return coeff(rng), coeff(rng)


def pair_mul_wordpattern(rng):
    a, b = coeff_pair_wordpattern(rng)
    x, y = fin(rng.randint(0, 1), a, rng.randint(-40, 40)), fin(rng.randint(0, 1), b, rng.randint(-40, 40))
    return (x, y) if rng.random() < 0.5 else (y, x)


def pair_mul(rng):
    if rng.random() < 0.10: return pair_mul_wordpattern(rng)
    if rng.random() < 0.12: return pair_mul_underflow(rng)
    k = rng.random()
    if k < 0.30:      # product with an exact-half (or near) tail: x odd-ish times 5, 25, 125, ...
        j = rng.randint(1, 20); y = 5 ** j
        q1 = rng.randint(max(1, 35 - ndig(y)), 34); x = coeff(rng, q1)
        if rng.random() < 0.7: x |= 1
        if rng.random() < 0.3: y *= 2 ** rng.randint(0, j)
        y = y if y < T34 else 5
        e1, e2 = expo(rng), rng.randint(-60, 60)
        return fin(rng.randint(0, 1), x, e1), fin(rng.randint(0, 1), y, e2)
    if k < 0.55:      # digit count cells
        q1 = rng.randint(1, 34); q2 = rng.randint(1, 34)
        x, y = coeff(rng, q1), coeff(rng, q2)
        return fin(rng.randint(0, 1), x, expo(rng)), fin(rng.randint(0, 1), y, expo(rng))
    if k < 0.80:      # exponent regions: overflow edge, clamp zone, underflow edge
        q1 = rng.randint(1, 34); q2 = rng.randint(1, 34)
        x, y = coeff(rng, q1), coeff(rng, q2)
        tgt = rng.choice([QMAX - rng.randint(-3, 36), QMIN + rng.randint(-72, 4), QMAX + 34 - q1 - q2 + rng.randint(-2, 2),
                          -6143 - (q1 + q2) + rng.randint(-2, 2)])
        e1 = rng.randint(max(QMIN, tgt - QMAX), min(QMAX, tgt - QMIN)); e2 = tgt - e1
        return fin(rng.randint(0, 1), x, e1), fin(rng.randint(0, 1), y, e2)
    if k < 0.90:      # head.tail products: (h * 10^L + t) = x * 1 scaled through y = 10^j and friends
        x = finite(rng); y = fin(rng.randint(0, 1), rng.choice([1, 10, 100, 2, 4, 5, 25, 10 ** rng.randint(0, 33)]), expo(rng))
        return (x, y) if rng.random() < 0.5 else (y, x)
    return datum(rng, 0.6), datum(rng, 0.6)


def gen_mul(rng, n):
    for _ in range(n):
        x, y = pair_mul(rng)
        yield line('mul', rng.choice(MODES), status_in(rng), x, y)


def pair_div_underflow(rng):
    """exact quotient quot = x / y whose low tl digits (a chosen rounding pattern) fall below the quantum 1E-6176"""
    qy = rng.randint(1, 12); y = coeff(rng, qy)
    keep = rng.randint(0, 20); tl = rng.randint(1, max(1, 33 - qy - keep))
    head = coeff(rng, keep) if keep else 0
    tail = int(tail_digits(rng, tl))
    if rng.random() < 0.4 and tl > 2: tail = int('5' + '0' * (tl - 2) + rng.choice('01'))
    quot = head * 10 ** tl + tail
    x = quot * y
    if x == 0 or x >= T34: return finite(rng), finite(rng)
    d = QMIN - tl + rng.choice([0, 0, 0, 1, -1])          # exponent of the quotient's last digit
    e2 = rng.randint(max(QMIN, QMIN - d), min(QMAX, QMAX - d)); e1 = d + e2
    return fin(rng.randint(0, 1), x, max(QMIN, min(QMAX, e1))), fin(rng.randint(0, 1), y, e2)


def pair_div(rng):
    if rng.random() < 0.10: return pair_div_underflow(rng)
    k = rng.random()
    if k < 0.30:      # exact quotients with strippable zeros: x = quot * y
        qd = rng.randint(1, 34); quot = coeff(rng, qd)
        y = coeff(rng, rng.randint(1, max(1, 34 - qd)))
        x = quot * y
        z = rng.randint(0, 34)
        while x * 10 < T34 and z > 0: x *= 10; z -= 1
        if x >= T34: x = quot; y = 1
        return fin(rng.randint(0, 1), x, expo(rng)), fin(rng.randint(0, 1), y, expo(rng))
    if k < 0.50:      # ties and near ties: divisor 2^a 5^b, dividend odd-ish with many digits
        y = rng.choice([2, 4, 8, 16, 5, 25, 125, 20, 40, 50, 2 ** rng.randint(1, 40), 5 ** rng.randint(1, 20)])
        x = coeff(rng, rng.randint(30, 34)) | 1
        return fin(rng.randint(0, 1), x, expo(rng)), fin(rng.randint(0, 1), y, expo(rng))
    if k < 0.70:      # non-terminating, digit-count cells
        x, y = coeff(rng), coeff(rng)
        return fin(rng.randint(0, 1), x, expo(rng)), fin(rng.randint(0, 1), y, expo(rng))
    if k < 0.90:      # exponent regions
        x, y = coeff(rng), coeff(rng)
        tgt = rng.choice([QMAX - rng.randint(-40, 40), QMIN + rng.randint(-72, 40), -6143 + rng.randint(-36, 4)])
        e2 = rng.randint(max(QMIN, QMIN - tgt), min(QMAX, QMAX - tgt)); e1 = tgt + e2
        return fin(rng.randint(0, 1), x, e1), fin(rng.randint(0, 1), y, e2)
    return datum(rng, 0.6), datum(rng, 0.6)


def gen_div(rng, n):
    for _ in range(n):
        x, y = pair_div(rng)
        yield line('div', rng.choice(MODES), status_in(rng), x, y)


# ---- square roots a hair away from an integer / a midpoint (|C*10^s - n^2| <= 400: the correction steps after the approximate root)
def sqrt_mod_pk(a, p, k):
    # odd p
    a %= p**k
    r = None
    for x in range(p):
        if (x*x - a) % p == 0 and x % p != 0: r = x; break
    if r is None: return None
    m = p
    for i in range(1, k):
        m *= p
        # Newton: r = r - (r^2-a)/(2r) mod m
        inv = pow(2*r, -1, m)
        r = (r - (r*r - a) * inv) % m
    return r
def sqrt_mod_2k(a, k):
    a %= 1 << k
    if k <= 3:
        for x in range(1, 1 << k, 2):
            if (x*x - a) % (1 << k) == 0: return x
        return None
    if a % 8 != 1: return None
    x = 1
    for j in range(3, k):
        if (x*x - a) % (1 << (j+1)) != 0: x += 1 << (j-1)
    assert (x*x - a) % (1 << k) == 0
    return x
def crt(r1, m1, r2, m2):
    return (r1 + m1 * (((r2 - r1) * pow(m1, -1, m2)) % m2)) % (m1*m2)
def sqrt_near(rng, mid):
    """CX, s with CX*10^s = n^2+delta (mid=False) or 4*CX*10^s = n^2+delta, n odd (mid=True), delta tiny"""
    for _ in range(200):
        s = rng.choice([33, 34])
        k2 = s + (2 if mid else 0)
        delta = rng.choice([1,-1]) * rng.randint(1, 400)
        a = -delta
        r2 = sqrt_mod_2k(a, k2); r5 = sqrt_mod_pk(a, 5, s)
        if r2 is None or r5 is None: continue
        r2 = rng.choice([r2, (1<<k2) - r2]); 
        if k2 > 3 and rng.random() < 0.5: r2 = (r2 + (1 << (k2-1))) % (1 << k2)
        r5 = rng.choice([r5, 5**s - r5])
        M = (1 << k2) * 5**s
        n0 = crt(r2, 1 << k2, r5, 5**s)
        assert (n0*n0 + delta) % M == 0
        # n range: C256 in [10^(33+s), 10^(34+s)) => n^2 in that range (x4 for mid)
        lo, hi = 10**(33+s), 10**(34+s)
        if mid: lo *= 4; hi *= 4
        # period of solutions: M/2 for 2-part (x+2^(k-1) also solution) -> handled above; step M
        kmin = (math.isqrt(lo) - n0) // M + 1; kmax = (math.isqrt(hi) - n0) // M
        if kmax < kmin: continue
        n = n0 + M * rng.randint(kmin, kmax)
        v = n*n + delta
        cx = v // M if mid else v // 10**s
        if mid: assert v % (4*10**s) == 0
        if not (10**33 <= cx < 10**34): continue
        return cx, s, delta, n
    return None


def arg_sqrt_near(rng):
    r = sqrt_near(rng, rng.random() < 0.5)
    if r is None: return fin(0, coeff(rng), expo(rng))
    cx, s, _, _ = r
    e = rng.randint(-3000, 3000)
    if (e - s) % 2: e += 1
    return fin(0, cx, e)


def arg_sqrt(rng):
    k = rng.random()
    if k < 0.12: return arg_sqrt_near(rng)
    k = rng.random()
    if k < 0.35:      # perfect squares and neighbours, both exponent parities
        r = coeff(rng, rng.randint(1, 17)); c = r * r + rng.choice([0, 0, 0, 1, -1])
        z = rng.randint(0, 34 - ndig(c)) if ndig(c) < 34 else 0
        c = max(1, c) * 10 ** z
        return fin(0, c, expo(rng))
    if k < 0.50:      # exact halves cannot occur; squares of half-integers scaled: (r+0.5)^2 has 2 more digits
        r = coeff(rng, rng.randint(1, 16)); c = (2 * r + 1) ** 2 * 25
        return fin(0, c if c < T34 else r, expo(rng))
    if k < 0.80:
        return fin(0, coeff(rng), expo(rng))
    if k < 0.90:
        return fin(0, coeff(rng), rng.choice([QMIN + rng.randint(0, 40), QMAX - rng.randint(0, 40)]))
    return datum(rng, 0.7)


def gen_sqrt(rng, n):
    for _ in range(n):
        yield line('sqrt', rng.choice(MODES), status_in(rng), arg_sqrt(rng))


# ------------------------------------------------------------------------------------------------ shared pair stream (C03 C16 C18 C20)
def related(rng, x):
    """a partner for x aimed at the decision cells of comparisons: same cohort, one unit off at the finer quantum, sign flips"""
    d = decode(x)
    if d[0] != 'fin' or d[2] == 0 or rng.random() < 0.25: return datum(rng, 0.5)
    _, s, c, q = d; k = rng.random()
    if k < 0.3:       # same value, different quantum
        cc, qq = c, q
        if rng.random() < 0.5:
            while cc % 10 == 0 and qq < QMAX and rng.random() < 0.8: cc //= 10; qq += 1
        else:
            while cc * 10 < T34 and qq > QMIN and rng.random() < 0.8: cc *= 10; qq -= 1
        return fin(s if rng.random() < 0.85 else 1 - s, cc, qq)
    if k < 0.65:      # one unit off at every admissible gap
        g = rng.randint(0, 34 - ndig(c)); cc = c * 10 ** g + rng.choice([-1, 1]); qq = q - g
        if qq >= QMIN and 0 < cc < T34: return fin(s, cc, qq)
        return finite(rng, e=q)
    if k < 0.75:      # strip zeros then one unit off (partner coarser)
        cc, qq = c, q
        while cc % 10 == 0 and qq < QMAX: cc //= 10; qq += 1
        return fin(s, max(1, cc + rng.choice([-1, 0, 1])), qq)
    if k < 0.85: return fin(rng.randint(0, 1), coeff(rng), q + ndig(c) - rng.randint(1, 34) + rng.choice([-1, 0, 0, 1]))
    return finite(rng, e=q + rng.randint(-40, 40))


def wordscale_pair(rng):
    """operands whose alignment product cx * 10^gap sits on a 64/128/192-bit word boundary (low words zero or tiny),
    partner coefficient related to the low words: aims at multi-word compare/add code that mixes up word indices"""
    for _ in range(20):
        g = rng.randint(1, 34); w = rng.choice([64, 128, 128, 192])
        if rng.random() < 0.5:
            a = max(0, w - g + rng.randint(0, 3))
            odd = rng.choice([1, 1, 3, 5, 7, 9, rng.randrange(1, 1 << 12) | 1])
            cx = (odd << a) + rng.choice([0, 0, 0, 1, -1])
        else:             # cx * 10^g = k * 2^w + L with a tiny L: cx = ceil(k * 2^w / 10^g)
            kmax = (T34 * 10 ** g) >> w
            if kmax < 1: continue
            kq = rng.choice([1, 2, 3, kmax, rng.randint(1, kmax), rng.randint(1, kmax)])
            cx = -((-kq << w) // 10 ** g) + rng.choice([0, 0, 0, -1])
        if 0 < cx < T34: break
    else:
        cx, g = 1 << 108, 20
    prod = cx * 10 ** g
    low = prod % (1 << 128)
    kk = rng.random()
    if kk < 0.35: cy = rng.randint(T33, T34 - 1)
    elif kk < 0.6: cy = min(T34 - 1, max(1, low + rng.choice([-1, 0, 1])))
    elif kk < 0.75: cy = min(T34 - 1, max(1, (prod >> 64) % (1 << 113)))
    elif kk < 0.9: cy = coeff(rng)
    else: cy = cx
    e = rng.randint(QMIN, QMAX - g)
    s1 = rng.randint(0, 1); s2 = s1 if rng.random() < 0.8 else 1 - s1
    return fin(s1, cx, e + g), fin(s2, cy, e)


def gapedge_pair(rng):
    """same-sign operands whose exponent gap is the largest (or one below the largest) at which the coarser operand can
    still be aligned within 34 digits (gap = 34 - q1, e.g. 1E+33 against a 34-digit coefficient): the 'exponents alone
    decide' shortcuts of compare / min / max / total_order sit exactly there; the partner is NOT near-equal in general"""
    q1 = rng.choice([1, 1, 1, 2, 3, rng.randint(1, 33)]); c1 = coeff(rng, q1)
    g = 34 - q1 - rng.choice([0, 0, 0, 1]) + rng.choice([0, 0, 0, 0, 1])      # 33, 34, 35 for one digit
    nd = min(34, q1 + g)
    kk = rng.random()
    if kk < 0.5: c2 = rng.randint(10 ** (nd - 1), 10 ** nd - 1)
    elif kk < 0.7: c2 = min(T34 - 1, max(1, c1 * 10 ** min(g, 34 - q1) + rng.choice([-1, 1]) * rng.choice([1, 10 ** rng.randint(0, 33)])))
    elif kk < 0.85: c2 = rng.choice([1, 2, 5, 9]) * 10 ** (nd - 1)
    else: c2 = T34 - 1 - rng.randint(0, 2)
    e = rng.randint(QMIN, QMAX - g)
    s = rng.randint(0, 1)
    return fin(s, c1, e + g), fin(s if rng.random() < 0.9 else 1 - s, c2, e)


def cohort_pair(rng):
    """the same magnitude in two quanta a chosen gap apart (every gap 1..33), same or opposite signs, either operand order"""
    g = rng.randint(1, 33); q = rng.randint(1, 34 - g); c = coeff(rng, q)
    e = rng.randint(QMIN, QMAX - g)
    s1 = rng.randint(0, 1); s2 = s1 if rng.random() < 0.5 else 1 - s1
    x, y = fin(s1, c * 10 ** g, e), fin(s2, c, e + g)
    return (x, y) if rng.random() < 0.5 else (y, x)


def cmp_pair(rng):
    k = rng.random()
    if k < 0.03: return cohort_pair(rng)
    k = rng.random()
    if k < 0.03:      # same sign and exponent field, one coefficient field >= 10^34 (denotes zero) against a canonical number / zero
        e = expo(rng); s_ = rng.randint(0, 1)
        x = (s_ << 127) | ((e + BIAS) << 113) | rng.choice([T34, T34 + 1, (1 << 113) - 1, rng.randint(T34, (1 << 113) - 1)])
        y = fin(s_ if rng.random() < 0.8 else 1 - s_, rng.choice([0, 1, coeff(rng), T34 - 1]), e)
    elif k < 0.07:
        x, y = gapedge_pair(rng)
    elif k < 0.15:
        x, y = wordscale_pair(rng)
    elif k < 0.22:      # enumerated cell: (q1, q2, gap) near-equal pair
        q1 = rng.randint(1, 34); c1 = coeff(rng, q1); g = rng.randint(0, 34 - q1)
        e = expo(rng)
        if e - g < QMIN: e = QMIN + g
        x = fin(0, c1, e); y = fin(0, c1 * 10 ** g + rng.choice([-1, 0, 1]), e - g)
        s = rng.randint(0, 1)
        if s: x |= 1 << 127; y |= 1 << 127
    else:
        x = datum(rng, 0.35) if rng.random() < 0.7 else finite(rng, q=rng.randint(1, 6))
        y = related(rng, x)
    return (x, y) if rng.random() < 0.5 else (y, x)


def gen_cmp(rng, n):
    for _ in range(n // 20):
        x, y = cmp_pair(rng)
        for i in range(20):
            yield line('cmp', 0, status_in(rng), x, y, '%x' % i)


def gen_ops(rng, n):
    for _ in range(n):
        x, y = cmp_pair(rng)
        yield line('ops', 0, 0, x, y)


def gen_minmax(rng, n):
    for _ in range(n):
        x, y = cmp_pair(rng)
        yield line(rng.choice(['minnum', 'maxnum', 'minmag', 'maxmag']), 0, status_in(rng), x, y)


def nan_pair(rng):
    x = nan(rng); d = decode(x); k = rng.random()
    if k < 0.4:
        y = x ^ (1 << rng.randint(0, 127))
    elif k < 0.7: y = nan(rng)
    else: y = datum(rng, 0.6)
    return (x, y) if rng.random() < 0.5 else (y, x)


def gen_total(rng, n):
    for _ in range(n):
        x, y = cmp_pair(rng) if rng.random() < 0.75 else nan_pair(rng)
        yield line(rng.choice(['totalorder', 'totalordermag']), 0, 0, x, y)


def gen_hash(rng, n):
    for _ in range(n):
        x, y = cmp_pair(rng) if rng.random() < 0.85 else nan_pair(rng)
        if rng.random() < 0.05: x, y = zero_any(rng), zero_any(rng)
        yield line(rng.choice(['hasheq', 'hashset']), 0, 0, x, y)


# ------------------------------------------------------------------------------------------------ C02 fma
def triple_fma_halfway_addend(rng):
    """product with more than 34 digits (odd or even last digit), opposite- or same-signed addend that ends exactly half a unit
    (or half a unit +- a little) below the product's last place: the correction arms of the alignment cases 11/12 and 15-17"""
    q1 = rng.randint(18, 34); q2 = rng.randint(35 - q1 if q1 < 34 else 1, 34)
    c1 = coeff(rng, q1) | rng.choice([0, 1]); c2 = coeff(rng, q2) | rng.choice([0, 1])
    if rng.random() < 0.4:      # product just above a power of ten / all nines: decade crossings after the subtraction
        c2 = 3; c1 = int('3' * 33 + rng.choice('3579'))
    k = rng.randint(1, 20); m = rng.choice([0, 1, 2, 3, rng.randint(0, 10 ** rng.randint(1, 12))])
    frac = rng.choice([5 * 10 ** (k - 1)] * 3 + [5 * 10 ** (k - 1) + 1, max(1, 5 * 10 ** (k - 1) - 1)])
    c3 = m * 10 ** k + frac
    if not 0 < c3 < T34: c3 = 5 * 10 ** (k - 1)
    e1 = rng.randint(-200, 200); e2 = rng.randint(-200, 200)
    s1, s2 = rng.randint(0, 1), rng.randint(0, 1)
    s3 = (1 - (s1 ^ s2)) if rng.random() < 0.75 else (s1 ^ s2)
    return fin(s1, c1, e1), fin(s2, c2, e2), fin(s3, c3, e1 + e2 - k)


def triple_fma_pow10z(rng):
    """addend a power of ten (or something that looks like one in its low 64-bit word: k * 2^64 + 10^19, or 10^j +- 1), product of either
    sign whose leading digit sits 0, 1 or 2 places below the addend's 34-digit window: the 'z = 10^k' special branches of the fma alignment"""
    j = rng.randint(0, 33); kk = rng.random()
    if kk < 0.55: c3 = 10 ** j
    elif kk < 0.70: c3 = max(1, 10 ** j + rng.choice([-1, 1]))
    elif kk < 0.85: c3 = (rng.randint(1, 4) << 64) + 10 ** 19
    else: c3 = (rng.randint(1, 5) << 64) + rng.choice([10 ** rng.randint(0, 19), 0])
    q3 = ndig(c3)
    q1 = rng.randint(1, 34); q2 = rng.randint(1, 34); c1 = coeff(rng, q1); c2 = coeff(rng, q2)
    if rng.random() < 0.5:      # leading digits of the product around one half
        lead = rng.choice([44, 45, 49, 50, 51, 54, 55, 56, 5, 4, 6]); c1 = int(str(lead) + ''.join(rng.choice('0123456789') for _ in range(rng.randint(0, 20)))); c2 = 1
        if rng.random() < 0.3: c2 = rng.choice([2, 5, 10, 1000])
    q4 = ndig(c1 * c2)
    delta = rng.choice([33, 34, 35, 35, 35, 36, 37])
    e3 = rng.randint(-300, 300) if rng.random() < 0.8 else QMIN + rng.randint(0, 40)
    e4 = q3 + e3 - q4 - delta          # delta = (q3 + e3) - (q4 + e4)
    e1 = rng.randint(-3000, 3000); e2 = e4 - e1
    if not (QMIN <= e2 <= QMAX): e1 = 0; e2 = e4
    s3 = rng.randint(0, 1); sp = (1 - s3) if rng.random() < 0.75 else s3
    s1 = rng.randint(0, 1)
    return fin(s1, c1, e1), fin(s1 ^ sp, c2, max(QMIN, min(QMAX, e2))), fin(s3, c3, e3)


def triple_fma_cancel_pow10(rng):
    """Cases (2)/(4) of the fma alignment, opposite signs, 2 <= delta <= 33: z scaled to 34 digits is 10^33 + A where A is the head of the
    product and the product's discarded tail is a small positive fraction (< 0.05): the exact sum is just below a power of ten, the first
    rounding pass gives 10^33, the repeat pass with one more digit gives exactly 10^34 (found by a mutation scan: bid128_fma.rs 'e3 += 1'
    after the repeat was not exercised)"""
    for _ in range(60):
        delta = rng.randint(2, 33); na = 34 - delta; x0 = rng.randint(2, 30); q4 = na + x0
        if q4 > 68: continue
        q1 = rng.randint(max(1, q4 - 34), min(34, q4)); c1 = coeff(rng, q1)
        A = rng.randint(10 ** (na - 1), 10 ** na - 1)
        target = A * 10 ** x0 + rng.randint(1, max(1, 10 ** x0 // 20 - 1))
        c2 = target // c1
        if c2 == 0 or c2 >= T34: continue
        c4 = c1 * c2
        if ndig(c4) != q4: continue
        A = c4 // 10 ** x0; r = c4 % 10 ** x0
        if not (0 < r < 10 ** x0 // 20) or ndig(A) != na: continue
        q3 = rng.randint(1, 34); v = 10 ** 33 + A; sc = 34 - q3
        if v % 10 ** sc: continue
        c3 = v // 10 ** sc
        e4 = rng.randint(-200, 200); e3 = delta + q4 + e4 - q3
        e1 = e4 // 2; e2 = e4 - e1
        sx, sy = rng.randint(0, 1), rng.randint(0, 1)
        return fin(sx, c1, e1), fin(sy, c2, e2), fin(sx ^ sy ^ 1, c3, e3)
    return triple_fma_pow10z(rng)


def triple_fma_subnormal_carry(rng):
    """the exact sum, in units of 10^-6176, is 10^k - f with 0 < f <= 1/2 and at least one digit below the smallest exponent: the second
    (subnormal) rounding of bid_add_and_round carries into a new decade (found by a mutation scan: the rescaling after that carry,
    bid128_fma.rs '64 x 128 -> 128', was not exercised); also with the fraction just above 1/2 and as exact ties"""
    for _ in range(60):
        k = rng.randint(1, 20); x0 = rng.randint(1, 10); j = rng.randint(0, 3); g = rng.randint(1, 6)
        Fi = rng.choice([rng.randint(1, 5 * 10 ** (x0 - 1)), 5 * 10 ** (x0 - 1), 5 * 10 ** (x0 - 1) + 1, 1])
        S = 10 ** (k + x0) - Fi
        q3 = k + g - j
        if q3 < 1 or q3 > 34: continue
        c3 = rng.randint(10 ** (q3 - 1), 10 ** q3 - 1); Z = c3 * 10 ** (x0 + j)
        P = Z + S
        if ndig(P) != ndig(Z) or ndig(P) > 34: continue
        sx, sy = rng.randint(0, 1), rng.randint(0, 1); a = rng.randint(0, 20)
        m = rng.choice([1, 1, 2, 4, 5]) if P % 5 == 0 or True else 1
        if P % m: m = 1
        return fin(sx, P // m, -x0 - a), fin(sy, m, QMIN + a), fin(sx ^ sy ^ 1, c3, QMIN + j)
    return triple_fma_pow10z(rng)


def triple_fma(rng):
    if rng.random() < 0.05: return triple_fma_cancel_pow10(rng)
    if rng.random() < 0.05: return triple_fma_subnormal_carry(rng)
    if rng.random() < 0.06:
        x, y = pair_mul_wordpattern(rng)
        return x, y, rng.choice([fin(rng.randint(0, 1), 0, expo(rng)), finite(rng, e=rng.randint(-80, 80)), fin(rng.randint(0, 1), coeff(rng), rng.randint(-40, 40))])
    if rng.random() < 0.07: return triple_fma_pow10z(rng)
    if rng.random() < 0.06: return triple_fma_halfway_addend(rng)
    if rng.random() < 0.08:      # product with patterned low digits in the underflow zone (double-rounding traps), small / zero addend
        x, y = pair_mul_underflow(rng)
        kk = rng.random()
        if kk < 0.4: z = fin(rng.randint(0, 1), 0, rng.choice([QMIN, QMIN + rng.randint(0, 40), expo(rng)]))
        elif kk < 0.8: z = fin(rng.randint(0, 1), rng.choice([1, 1, 2, 5, 10, rng.randint(1, 10 ** rng.randint(1, 6))]), QMIN)
        else: z = fin(rng.randint(0, 1), coeff(rng), QMIN + rng.randint(0, 3))
        return x, y, z
    k = rng.random()
    if k < 0.35:      # alignment cells: q4 = digits of product, delta = q3 + e3 - q4 - e4 on the case boundaries
        q1 = rng.randint(1, 34); q2 = rng.randint(1, 34); q3 = rng.randint(1, 34)
        c1, c2, c3 = coeff(rng, q1), coeff(rng, q2), coeff(rng, q3)
        q4 = ndig(c1 * c2)
        delta = rng.choice([-70, -69, -68, -36, -35, -34, -33, -2, -1, 0, 1, 2, 33, 34, 35, 36, 34 - q4, 35 - q4, 33 - q4, q3 - q4,
                            34 - q3, 33 - q3, q4 - 34, q4 - 35, 68, 69, 70, rng.randint(-72, 72)])
        e1 = rng.randint(-3000, 3000); e2 = rng.randint(-3000, 3000)
        e3 = delta + q4 + e1 + e2 - q3
        return fin(rng.randint(0, 1), c1, e1), fin(rng.randint(0, 1), c2, e2), fin(rng.randint(0, 1), c3, e3)
    if k < 0.50:      # cancellation: z = -(x*y) +/- small, when the product fits or nearly
        q1 = rng.randint(1, 17); q2 = rng.randint(1, 17); c1, c2 = coeff(rng, q1), coeff(rng, q2)
        p = c1 * c2; e1, e2 = rng.randint(-100, 100), rng.randint(-100, 100); s1, s2 = rng.randint(0, 1), rng.randint(0, 1)
        kk = rng.random()
        if kk < 0.3: c3, e3 = p, e1 + e2
        elif kk < 0.6: c3, e3 = max(1, p + rng.choice([-1, 1, -10, 10])), e1 + e2
        else:
            c3, e3 = p, e1 + e2
            while c3 % 10 == 0 and rng.random() < 0.7: c3 //= 10; e3 += 1
            c3 = max(1, c3 + rng.choice([0, 1, -1]))
        return fin(s1, c1, e1), fin(s2, c2, e2), fin(1 - (s1 ^ s2), c3, e3)
    if k < 0.62:      # product deep below the bottom exponent (e_x + e_y < -6176)
        c1, c2, c3 = coeff(rng), coeff(rng), coeff(rng)
        e1 = rng.randint(QMIN, -3000); e2 = rng.randint(QMIN, -3000 if rng.random() < 0.5 else 100)
        if e1 + e2 > QMIN: e2 = QMIN - e1 - rng.randint(0, 70)
        e2 = max(QMIN, e2)
        e3 = rng.choice([QMIN + rng.randint(0, 70), e1 + e2 + rng.randint(-40, 80)])
        return fin(rng.randint(0, 1), c1, e1), fin(rng.randint(0, 1), c2, e2), fin(rng.randint(0, 1), c3, e3)
    if k < 0.74:      # product near / above the overflow threshold, addend may rescue
        c1, c2, c3 = coeff(rng), coeff(rng), coeff(rng)
        tgt = QMAX + 34 - ndig(c1 * c2) + rng.randint(-3, 40)
        e1 = rng.randint(max(QMIN, tgt - QMAX), min(QMAX, tgt - 0)); e2 = tgt - e1
        if rng.random() < 0.3: c1 = 10 ** rng.randint(0, 33); c2 = 10 ** rng.randint(0, 33)
        e3 = QMAX - rng.randint(0, 40)
        return fin(rng.randint(0, 1), c1, e1), fin(rng.randint(0, 1), c2, e2), fin(rng.randint(0, 1), c3, e3)
    if k < 0.78:      # product an exact power of ten just above MAX, small opposite-signed addend (fma overflow-zone corner)
        P = QMAX + 34 + rng.randint(-2, 4)          # product = 10^P
        a = rng.randint(0, 33); b = rng.randint(0, 33)
        e1 = rng.randint(max(QMIN, P - a - b - QMAX), min(QMAX, P - a - b - QMIN)); e2 = P - a - b - e1
        e1 = max(QMIN, min(QMAX, e1)); e2 = max(QMIN, min(QMAX, e2))
        s1, s2 = rng.randint(0, 1), rng.randint(0, 1)
        q3 = rng.randint(1, 34); e3 = QMAX + rng.randint(-1, 1) - (q3 - 1) + rng.choice([0, 0, 0, -1, 1])
        c3 = rng.choice([coeff(rng, q3), 5 * 10 ** (q3 - 1), 5 * 10 ** (q3 - 1) + 1, max(1, 5 * 10 ** (q3 - 1) - 1), 10 ** (q3 - 1), 10 ** q3 - 1])
        sz = (1 - (s1 ^ s2)) if rng.random() < 0.8 else (s1 ^ s2)
        return fin(s1, 10 ** a, e1), fin(s2, 10 ** b, e2), fin(sz, c3, max(QMIN, min(QMAX, e3)))
    if k < 0.84:      # z = +-0 at every kind of exponent; y = 1
        x, y = finite(rng), finite(rng)
        if rng.random() < 0.5: return x, y, fin(rng.randint(0, 1), 0, expo(rng))
        return x, fin(0, 1, 0), finite(rng)
    if k < 0.92:      # head/tail through the addend: x*y exact head, z tail
        h = head34(rng); L = rng.randint(1, 34); t = int(tail_digits(rng, L)); e = rng.randint(-200, 200); s = rng.randint(0, 1)
        y = fin(0, rng.choice([1, 10, 100]), 0)
        return fin(s, h, e + L), y, fin(s if rng.random() < 0.6 else 1 - s, t, e)
    return datum(rng, 0.4), datum(rng, 0.4), datum(rng, 0.4)


def gen_fma(rng, n):
    for _ in range(n):
        x, y, z = triple_fma(rng)
        yield line('fma', rng.choice(MODES), status_in(rng), x, y, z)


# ------------------------------------------------------------------------------------------------ C08 / C06 shared: fractional tails
def frac_value(rng):
    """finite value with negative exponent whose fractional tail is one of the rounding classes"""
    q = rng.randint(1, 34); k = rng.randint(0, q + 3)      # k fractional digits
    ip = coeff(rng, max(1, q - k)) if k < q else 0
    if k == 0: return fin(rng.randint(0, 1), coeff(rng, q), rng.randint(0, 5))
    t = tail_digits(rng, min(k, 34))
    c = ip * 10 ** len(t) + int(t)
    if c >= T34: c = c % T34
    return fin(rng.randint(0, 1), c, -len(t) - (k - len(t)))


def gen_rint(rng, n):
    ops = ['rint', 'nearbyint', 'rint_ne', 'rint_na', 'rint_dn', 'rint_up', 'rint_tz', 'modf']
    for _ in range(n):
        k = rng.random()
        x = frac_value(rng) if k < 0.6 else finite(rng, e=rng.randint(-40, 5)) if k < 0.8 else datum(rng, 0.5)
        yield line(rng.choice(ops), rng.choice(MODES), status_in(rng), x)


INT_TYPES = [('i32', 32, True), ('u32', 32, False), ('i64', 64, True), ('u64', 64, False)]
INT_KINDS = ['rnint', 'floor', 'ceil', 'int', 'rninta']


def int_boundary_value(rng, w, signed):
    lo, hi = (-(1 << (w - 1)), (1 << (w - 1)) - 1) if signed else (0, (1 << w) - 1)
    base = rng.choice([lo, hi, lo - 1, hi + 1, 0, -1, 1])
    k = rng.randint(0, 33 - ndig(abs(base)) if abs(base) else 33)       # fractional digits
    off = rng.choice([0, 5 * 10 ** (k - 1) if k else 0, 5 * 10 ** (k - 1) - 1 if k else 0, 5 * 10 ** (k - 1) + 1 if k else 0, 1 if k else 0, 10 ** k - 1 if k else 0])
    v = abs(base) * 10 ** k + off * rng.choice([1, -1])
    s = 1 if base < 0 or (base == 0 and rng.random() < 0.5) else 0
    if v < 0: v = -v; s = 1 - s
    return fin(s, v, -k)


def int_limit_fewdigits(rng, w, signed):
    """the type limit (or limit + 1) cut to q significant digits, one unit up/down in the q-th digit, written with a
    positive exponent: values just inside / outside the range for every digit-count class of the range screening"""
    lim = rng.choice([1 << (w - 1), (1 << (w - 1)) - 1, 1 << w, (1 << w) - 1] if signed else [1 << w, (1 << w) - 1, 1 << (w - 1)])
    d = ndig(lim); q = rng.randint(1, d)
    head = lim // 10 ** (d - q) + rng.choice([-1, 0, 0, 1, 1, 2])
    z = d - q
    # optionally pad with zeros (more digits, smaller exponent) or strip
    pad = rng.randint(0, min(z, 34 - ndig(max(head, 1)))) if rng.random() < 0.4 else 0
    c = max(head, 0) * 10 ** pad; e = z - pad
    s = rng.randint(0, 1) if signed else (1 if rng.random() < 0.15 else 0)
    return fin(s, c, e)


def gen_toint(rng, n):
    for _ in range(n):
        t, w, sg = rng.choice(INT_TYPES); kind = rng.choice(INT_KINDS); xf = rng.choice(['', 'x'])
        k = rng.random()
        if k < 0.06:      # pure fractions 0.ddd with q digits at exponent -q (and one or two integer digits): values around 1/2 and below
            q = rng.randint(1, 34); lead = rng.choice(['1', '15', '2', '3', '4', '49', '499', '5', '50', '500', '51', '6', '9', '99'])
            ds = (lead + ''.join(rng.choice('0000123456789') for _ in range(q)))[:q]
            if rng.random() < 0.3: ds = (lead + '0' * q)[:q - 1] + rng.choice('01')
            x = fin(rng.randint(0, 1), int(ds) or 1, -q - rng.choice([0, 0, 0, 1, -1]))
        elif k < 0.12: x = int_limit_fewdigits(rng, w, sg)
        elif k < 0.17:   # dyadic fractions j/2^m (m <= 6) written with 4..33 fractional digits: the reciprocal-multiplication fraction f* has
                         # zero low bits, so the 'is it exact / above one half' tests are decided by the high words alone (found by a mutation scan)
            xd = rng.randint(4, 33); m = rng.randint(1, 6); j = rng.randint(1, (1 << m) - 1)
            fr = j * 10 ** xd // (1 << m)
            if fr * (1 << m) != j * 10 ** xd: fr = 5 * 10 ** (xd - 1)
            nint = rng.choice([0, 1, 2, rng.randint(0, 10 ** rng.randint(1, max(1, min(10, 34 - xd)))), (1 << (w - 1)) - 1, (1 << w) - 1, (1 << (w - 1))])
            c = nint * 10 ** xd + fr
            x = fin(rng.randint(0, 1), c, -xd) if 0 < c < T34 else fin(rng.randint(0, 1), fr, -xd)
        elif k < 0.20:   # integers written with many fractional zeros (scale 1..33): exactness tests per removed-digit count
            v = rng.choice([rng.randint(1, 10 ** rng.randint(1, 12)), rng.randint(1, 9)]); kz = rng.randint(1, 34 - ndig(v))
            x = fin(rng.randint(0, 1), v * 10 ** kz, -kz)
        elif k < 0.45: x = int_boundary_value(rng, w, sg)
        elif k < 0.7: x = frac_value(rng)
        elif k < 0.8:   # integers near the limit written with positive exponents
            v = rng.choice([1 << (w - 1), (1 << w), (1 << (w - 1)) - 1, (1 << w) - 1]) + rng.randint(-2, 2)
            z = rng.randint(0, 3); x = fin(rng.randint(0, 1), v // 10 ** z, z)
        elif k < 0.9: x = finite(rng, e=rng.randint(-40, 25))
        else: x = datum(rng, 0.6)
        yield line('to_%s_%s%s' % (t, xf, kind), 0, status_in(rng), x)
    for _ in range(n // 10):
        x = int_boundary_value(rng, 64, True) if rng.random() < 0.5 else frac_value(rng) if rng.random() < 0.7 else datum(rng, 0.5)
        yield line(rng.choice(['lrint', 'llrint', 'lround', 'llround']), rng.choice(MODES), status_in(rng), x)


def gen_fromint(rng, n):
    for _ in range(n):
        t, w, sg = rng.choice(INT_TYPES)
        k = rng.random()
        v = rng.getrandbits(w) if k < 0.6 else rng.choice([0, 1, (1 << w) - 1, 1 << (w - 1), (1 << (w - 1)) - 1, 10 ** rng.randint(0, 19) % (1 << w), rng.getrandbits(rng.randint(1, w))])
        yield line('from_' + t, 0, 0, '%x' % v)


def gen_int_roundtrip(rng, n):
    """to(from(n)) = n: the decimal operand is built as the exact integer (what from_int must return, by its own stream)"""
    for _ in range(n):
        t, w, sg = rng.choice(INT_TYPES)
        v = rng.getrandbits(w) if rng.random() < 0.7 else rng.choice([0, (1 << w) - 1, 1 << (w - 1), (1 << (w - 1)) - 1])
        if sg and v >= 1 << (w - 1): val = v - (1 << w)
        else: val = v
        x = fin(1 if val < 0 else 0, abs(val), 0)
        yield line('to_%s_%s%s' % (t, rng.choice(['', 'x']), rng.choice(INT_KINDS)), 0, status_in(rng), x)


# ------------------------------------------------------------------------------------------------ C07 binary -> decimal
def _nearest_bits(num, den, eb, fb):
    """bits of the binary float (eb exponent bits, fb fraction bits) nearest the positive rational num/den (no rounding subtleties needed)"""
    from fractions import Fraction
    v = Fraction(num, den); bias = (1 << (eb - 1)) - 1
    import math
    e = v.numerator.bit_length() - v.denominator.bit_length()
    if Fraction(2) ** e > v: e -= 1
    E = max(e, 1 - bias)
    m = round(v / Fraction(2) ** (E - fb))
    if m >= (1 << (fb + 1)): m >>= 1; E += 1
    if E + bias >= (1 << eb) - 1: return None
    if m < (1 << fb): return m                          # subnormal
    return ((E + bias) << fb) | (m - (1 << fb))


def frombin_near_pow10(rng):
    """binary floats within a few ulps of a power of ten (both sides), of 2^k, and at the top of a binade: the decimal-exponent estimate and the
    'one digit short' renormalisation of the conversion decide there"""
    if rng.random() < 0.35: eb, fb, nm, lo, hi = 8, 23, 'f32', -45, 38
    else: eb, fb, nm, lo, hi = 11, 52, 'f64', -323, 308
    k = rng.randint(lo, hi)
    b = _nearest_bits(10 ** k, 1, eb, fb) if k >= 0 else _nearest_bits(1, 10 ** (-k), eb, fb)
    if b is None: b = 1
    kk = rng.random()
    if kk < 0.7: b = max(1, b + rng.randint(-30, 30))
    elif kk < 0.85: b = (b | ((1 << fb) - 1)) - rng.randint(0, 1 << rng.randint(0, fb - 8))     # top of the binade containing 10^k
    else: b = (b >> fb) << fb | (rng.getrandbits(fb) | (((1 << 12) - 1) << (fb - 12)))           # top 1/4096 of that binade
    return nm, ((rng.randint(0, 1) << (eb + fb)) | b)


def frombin_exact(rng):
    """binary floats whose decimal expansion is short: m * 5^q * 2^k (an integer with a short significand times a power of ten, or a short
    dyadic fraction c / 2^a) - the exact / inexact decision and the preferred quantum of the exact cases; significands with 52, 53, 1 .. bits"""
    import struct
    for _ in range(50):
        wide = rng.random() < 0.6
        mant, emin, emax, nm, fmt, ifmt = (53, -1074, 971, 'f64', '>d', '>Q') if wide else (24, -149, 104, 'f32', '>f', '>I')
        q = rng.randint(0, 22 if wide else 10); p5 = 5 ** q
        mb = mant - p5.bit_length()
        if mb < 1: continue
        m = rng.choice([1, 3, rng.getrandbits(rng.randint(1, mb)) | 1, (1 << mb) - 1, (1 << (mb - 1)) | 1, (1 << mb) - 3])
        sig = m * p5
        if sig.bit_length() > mant: continue
        k = rng.choice([rng.randint(0, 120), rng.randint(-60, 60), q + rng.randint(0, 80), rng.randint(emin, emax)])
        k = max(emin, min(emax - (sig.bit_length() - 1 if False else 0), k))
        try: v = float(sig) * 2.0 ** k if abs(k) < 1000 else float(sig) * 2.0 ** (k // 2) * 2.0 ** (k - k // 2)
        except OverflowError: continue
        try: b = struct.unpack(ifmt, struct.pack(fmt, v))[0]
        except OverflowError: continue
        if struct.unpack(fmt, struct.pack(ifmt, b))[0] != v: continue      # not exactly representable in the narrow format
        return nm, (rng.randint(0, 1) << (63 if wide else 31)) | b
    return 'f64', 0x4700F0CF064DD592


BIN_SPECIALS = {'f32': [0x00000000, 0x80000000, 0x7f800000, 0xff800000, 0x7fc00000, 0xffc00000, 0x7f800001, 0xff800001, 0x7fffffff, 0x00000001, 0x80000001, 0x007fffff,
                        0x00800000, 0x7f7fffff, 0xff7fffff, 0x3f800000, 0xbf800000, 0x00000002, 0x00000003, 0x7fa00000],
                'f64': [0x0000000000000000, 0x8000000000000000, 0x7ff0000000000000, 0xfff0000000000000, 0x7ff8000000000000, 0xfff8000000000000, 0x7ff0000000000001,
                        0xfff0000000000001, 0x7fffffffffffffff, 0x0000000000000001, 0x8000000000000001, 0x000fffffffffffff, 0x0010000000000000, 0x7fefffffffffffff,
                        0xffefffffffffffff, 0x3ff0000000000000, 0xbff0000000000000, 0x0000000000000002, 0x0000000000000003, 0x7ff4000000000000]}


def gen_frombin(rng, n):
    for nm in ('f32', 'f64'):          # the special patterns through both entry forms, every mode (a fixed enumeration: 400 cases)
        for b in BIN_SPECIALS[nm]:
            for md in MODES:
                for op in ('from_' + nm, 'from' + nm + '_t'):
                    yield line(op, md, 0, '%x' % b)
    n = max(0, n - 400)
    for _ in range(n // 12):
        nm, bits = frombin_exact(rng)
        yield line(rng.choice(['from_' + nm] * 4 + ['from' + nm + '_t']), rng.choice(MODES), status_in(rng), '%x' % bits)
    n -= n // 12
    for _ in range(n // 5):
        nm, bits = frombin_near_pow10(rng)
        yield line(rng.choice(['from_' + nm] * 4 + ['from' + nm + '_t']), rng.choice(MODES), status_in(rng), '%x' % bits)
    for _ in range(n - n // 5):
        if rng.random() < 0.4:
            eb, fb, nm = 8, 23, 'f32'
        else:
            eb, fb, nm = 11, 52, 'f64'
        k = rng.random()
        e = rng.randint(0, (1 << eb) - 1) if k < 0.8 else rng.choice([0, 0, (1 << eb) - 1, 1, (1 << eb) - 2, (1 << (eb - 1)) - 1 + rng.randint(-60, 120)])
        kk = rng.random()
        f = 0 if kk < 0.1 else 1 if kk < 0.15 else (1 << fb) - 1 if kk < 0.25 else 1 << rng.randint(0, fb - 1) if kk < 0.4 else rng.getrandbits(fb)
        if kk > 0.9: f = rng.getrandbits(fb) >> rng.randint(0, fb - 1)     # leading zeros (subnormal shapes)
        bits = (rng.randint(0, 1) << (eb + fb)) | (e << fb) | f
        op = rng.choice(['from_' + nm] * 4 + ['from' + nm + '_t'])
        yield line(op, rng.choice(MODES), status_in(rng), '%x' % bits)


# ------------------------------------------------------------------------------------------------ C09 quantize and queries
def gen_quantize(rng, n):
    for _ in range(n):
        k = rng.random()
        if k < 0.55:
            q = rng.randint(1, 34); c = coeff(rng, q); ex = expo(rng)
            drop = rng.choice([rng.randint(-36, 40), 34 - q, 35 - q, 33 - q, -(34 - q), -(35 - q), -(33 - q), q, q + 1, q - 1, 0, 1])
            if drop > 0 and rng.random() < 0.6 and drop <= 34:       # tail classes
                L = min(drop, q); t = tail_digits(rng, L)
                c = (c // 10 ** L) * 10 ** L + int(t) if q > L else int(t) or 1
            x = fin(rng.randint(0, 1), c, ex); y = fin(rng.randint(0, 1), coeff(rng), ex + drop)
        elif k < 0.7:   # rounding up to 10^34 / overflow edge of the coefficient
            q = rng.randint(30, 34); drop = rng.randint(1, 5)
            c = int('9' * q); ex = expo(rng)
            x = fin(rng.randint(0, 1), c, ex); y = fin(0, 1, ex + rng.choice([drop, -(34 - q), -(35 - q)]))
        else:
            x, y = datum(rng, 0.5), datum(rng, 0.5)
        yield line('quantize', rng.choice(MODES), status_in(rng), x, y)


def gen_quantum_queries(rng, n):
    for _ in range(n):
        op = rng.choice(['quantexp', 'llquantexp', 'quantum', 'samequantum'])
        x = datum(rng, 0.5)
        if op == 'samequantum':
            y = related(rng, x) if rng.random() < 0.6 else datum(rng, 0.6)
            yield line(op, 0, 0, x, y)
        else:
            yield line(op, 0, status_in(rng), x)


def gen_quantize_samequantum(rng, n):
    """same_quantum(quantize(x, y), y): the quantized operand is built as the value quantize must return (Fin sx c qy)"""
    for _ in range(n // 3):      # mixed encoding forms: one operand in the large-coefficient form, same or different exponent
        q = rng.randint(QMIN, QMAX); q2 = q if rng.random() < 0.6 else max(QMIN, min(QMAX, q + rng.choice([-1, 1, 4096, -4096, 8192, rng.randint(-50, 50)])))
        a = fin(rng.randint(0, 1), coeff(rng), q) if rng.random() < 0.8 else noncanon_small(rng)
        b = noncanon_large(rng, q2)
        if rng.random() < 0.5: a, b = b, a
        yield line('samequantum', 0, 0, a, b)
    for _ in range(n):
        qy = expo(rng); x = fin(rng.randint(0, 1), coeff(rng), qy); y = fin(rng.randint(0, 1), coeff(rng), qy)
        yield line('samequantum', 0, 0, x, y)


# ------------------------------------------------------------------------------------------------ C10 rem / fmod
def rem_longtie(rng):
    """exact ties x = (n + 1/2) * y with a long exponent gap g = ex - ey: y = 2^(g+1) * 5^i, x coefficient odd
    (then 2x/y = cx * 5^(g-i) is an odd integer); the quotient has about g digits, so the implementation iterates"""
    while True:
        g = rng.randint(1, 110); i = rng.randint(0, 3)
        cy = (1 << (g + 1)) * 5 ** i
        if cy < T34: break
    cx = coeff(rng) | 1
    if rng.random() < 0.3: cx = rng.randint(1, 99) | 1
    qy = rng.randint(QMIN, QMAX - g)
    off = rng.choice([0, 0, 0, 1, -1])          # just off the tie as well
    return fin(rng.randint(0, 1), max(1, cx + off if off and cx + off < T34 else cx), qy + g), fin(rng.randint(0, 1), cy, qy)


def gen_rem(rng, n):
    for _ in range(n):
        k = rng.random()
        if k < 0.10:
            x, y = rem_longtie(rng)
            yield line(rng.choice(['rem', 'rem', 'fmod', 'o_rem']), 0, status_in(rng), x, y); continue
        if k < 0.20:
            hi, lo = wordscale_pair(rng)          # hi has the larger exponent
            x, y = (lo, hi) if rng.random() < 0.7 else (hi, lo)
            yield line(rng.choice(['rem', 'fmod', 'fmod', 'o_rem']), 0, status_in(rng), x, y); continue
        k = rng.random()
        cy = coeff(rng); qy = expo(rng)
        if k < 0.25:      # exact ties x = (m + 1/2) y, m even or odd: y even -> x = (2m+1) * (y/2)
            m = rng.randint(0, 10 ** rng.randint(0, 12))
            if cy % 2: cy = (cy + 1) % T34 or 2
            cx = (2 * m + 1) * (cy // 2); qx = qy
            g = rng.choice([0, 0, rng.randint(1, 30)])
            while cx >= T34: cx //= 10
            if rng.random() < 0.3 and cy * 5 < T34:      # tie built from 5*y one exponent lower
                cx = (2 * m + 1) * cy * 5; qx = qy - 1
                while cx >= T34: cx //= 10
        elif k < 0.40:    # exact multiples
            m = rng.randint(1, 10 ** rng.randint(0, 15)); cx = cy * m; qx = qy + rng.randint(0, 40)
            while cx >= T34: cx //= 10
        elif k < 0.55:    # 2r vs y off by one unit
            m = rng.randint(0, 1000); cy = cy | 1; cx = m * cy + cy // 2 + rng.choice([0, 1]); qx = qy
            while cx >= T34: cx //= 10
        else:
            cx = coeff(rng)
            g = rng.choice([rng.randint(-40, -1), rng.randint(-34, 0), rng.randint(1, 40), rng.randint(40, 12287), 12287, -12287,
                            int(10 ** rng.uniform(0, 4.08))])
            qx = qy + g
            if qx > QMAX or qx < QMIN:
                qy = max(QMIN, min(QMAX, qy - (qx - max(QMIN, min(QMAX, qx))))); qx = max(QMIN, min(QMAX, qx))
        x = fin(rng.randint(0, 1), cx, qx); y = fin(rng.randint(0, 1), cy, qy)
        if k > 0.93: x, y = datum(rng, 0.6), datum(rng, 0.6)
        yield line(rng.choice(['rem', 'fmod', 'rem', 'fmod', 'o_rem']), 0, status_in(rng), x, y)


# ------------------------------------------------------------------------------------------------ C11 scaleb / logb / frexp
def scaleb_underflow_pattern(rng):
    """x * 10^n whose k low digits (1..34, often >= 20 so that the dropped fraction spans two 64-bit words) fall below the quantum
    1E-6176, with the dropped part a tie, a tie + a little (5 0..0 sss), just below a tie, or zeros"""
    k = rng.choice([rng.randint(1, 34), rng.randint(20, 34), rng.randint(23, 34)])
    keep = rng.randint(0, 34 - k)
    head = coeff(rng, keep) if keep else 0
    kk = rng.random()
    if kk < 0.25: tail = '5' + '0' * (k - 1)
    elif kk < 0.55:
        sss = str(rng.choice([1, rng.randint(1, 9999), 1059, 2118, 1616, 1578, 1973]))
        tail = ('5' + '0' * max(0, k - 1 - len(sss)) + sss)[:k] if k > 1 else '6'
    elif kk < 0.7: tail = '4' + '9' * (k - 1)
    elif kk < 0.8: tail = '0' * k
    else: tail = tail_digits(rng, k)
    c = head * 10 ** k + int(tail)
    if c == 0: c = 5 * 10 ** (k - 1)
    e = rng.randint(-100, 100) if rng.random() < 0.5 else rng.randint(QMIN, QMAX)
    nn = QMIN - k - e
    return fin(rng.randint(0, 1), c % T34, e), nn


def gen_scaleb(rng, n):
    for _ in range(n // 8):
        op = rng.choice(['scaleb', 'ldexp', 'scalebln']); w = 64 if op == 'scalebln' else 32
        x, nn = scaleb_underflow_pattern(rng)
        nn = max(-2 ** (w - 1), min(2 ** (w - 1) - 1, nn))
        yield line(op, rng.choice(MODES), status_in(rng), x, '%x' % (nn & ((1 << w) - 1)))
    for _ in range(n - n // 8):
        op = rng.choice(['scaleb', 'ldexp', 'scalebln'])
        w = 64 if op == 'scalebln' else 32
        k = rng.random()
        q = rng.randint(1, 34); c = coeff(rng, q)
        if rng.random() < 0.25:       # high word equal to that of 10^33, low word differing (normalisation test)
            c = T33 + rng.randint(-10 ** 15, 10 ** 15) if rng.random() < 0.5 else int('9' * rng.randint(15, 33))
            q = ndig(c)
        e = expo(rng)
        if k < 0.35: nn = QMAX - e - rng.randint(-2, 36)                 # around the clamp / overflow
        elif k < 0.65: nn = QMIN - e - q + rng.randint(-3, 38)           # around the underflow threshold
        elif k < 0.8: nn = rng.randint(-100, 100)
        elif k < 0.9: nn = rng.choice([2 ** 31 - 1, -2 ** 31, 2 ** 31 - 2, -2 ** 31 + 1, 12400, -12400, 20000, -20000, 0])
        else: nn = rng.randint(-2 ** (w - 1), 2 ** (w - 1) - 1)
        if op == 'scalebln' and rng.random() < 0.2: nn = rng.choice([2 ** 63 - 1, -2 ** 63, 2 ** 31, -2 ** 31 - 1, 2 ** 32 + 5, -2 ** 32 - 5, 2 ** 32, 2 ** 40])
        nn = max(-2 ** (w - 1), min(2 ** (w - 1) - 1, nn))
        x = fin(rng.randint(0, 1), c, e) if rng.random() < 0.88 else datum(rng, 0.8)
        yield line(op, rng.choice(MODES), status_in(rng), x, '%x' % (nn & ((1 << w) - 1)))


def gen_logb(rng, n):
    for _ in range(n):
        x = datum(rng, 0.4)
        yield line(rng.choice(['logb', 'ilogb', 'frexp']), 0, status_in(rng), x)


# ------------------------------------------------------------------------------------------------ C12 NaN propagation
NAN_OPS1 = ['sqrt', 'rint', 'nearbyint', 'rint_ne', 'rint_na', 'rint_dn', 'rint_up', 'rint_tz', 'nextup', 'nextdown', 'logb', 'modf']
NAN_OPS2 = ['add', 'sub', 'mul', 'div', 'quantize', 'rem', 'fmod', 'fdim', 'nextafter', 'nexttoward', 'minnum', 'maxnum', 'minmag', 'maxmag']


def nan_full(rng):
    s = rng.randint(0, 1); sig = rng.randint(0, 1)
    pay = rng.choice(NAN_PAYLOADS + [rng.randint(0, T33 - 1), rng.randint(T33, (1 << 110) - 1)])
    res = rng.choice([0, 0, rng.getrandbits(11), 0x7ff, 1])
    return (s << 127) | (0x1f << 122) | (sig << 121) | (res << 110) | pay


def gen_nan(rng, n):
    for _ in range(n):
        k = rng.random()
        if k < 0.25:
            yield line(rng.choice(NAN_OPS1), rng.choice(MODES), status_in(rng), nan_full(rng))
        elif k < 0.65:
            a, b = nan_full(rng), (nan_full(rng) if rng.random() < 0.4 else datum(rng, 0.5))
            if rng.random() < 0.5: a, b = b, a
            yield line(rng.choice(NAN_OPS2), rng.choice(MODES), status_in(rng), a, b)
        elif k < 0.8:
            ops = [nan_full(rng) if rng.random() < 0.5 else datum(rng, 0.5) for _ in range(3)]
            ops[rng.randint(0, 2)] = nan_full(rng)
            yield line('fma', rng.choice(MODES), status_in(rng), *ops)
        elif k < 0.88:
            yield line(rng.choice(['scaleb', 'ldexp']), rng.choice(MODES), status_in(rng), nan_full(rng), '%x' % rng.getrandbits(32))
        else:   # quiet sign operations on every kind of pattern
            op = rng.choice(['abs', 'neg', 'copy', 'copysign', 'o_neg'])
            x = nan_full(rng) if rng.random() < 0.5 else rng.getrandbits(128)
            if op == 'copysign': yield line(op, 0, status_in(rng), x, rng.getrandbits(128))
            else: yield line(op, 0, status_in(rng), x)


def gen_invalid_sources(rng, n):
    """operations that create a NaN from non-NaN operands"""
    for _ in range(n):
        z1, z2 = zero(rng), zero(rng); i1, i2 = infinity(rng), infinity(rng); f = finite(rng)
        yield rng.choice([
            line('div', rng.choice(MODES), status_in(rng), z1, z2), line('div', rng.choice(MODES), status_in(rng), i1, i2),
            line('mul', rng.choice(MODES), status_in(rng), z1, i1), line('mul', rng.choice(MODES), status_in(rng), i1, z1),
            line('add', rng.choice(MODES), status_in(rng), i1, i1 ^ (1 << 127)), line('sub', rng.choice(MODES), status_in(rng), i1, i1),
            line('sqrt', rng.choice(MODES), status_in(rng), f | (1 << 127)), line('rem', 0, status_in(rng), f, z1), line('rem', 0, status_in(rng), i1, f),
            line('fmod', 0, status_in(rng), f, z1), line('fmod', 0, status_in(rng), i1, f),
            line('fma', rng.choice(MODES), status_in(rng), z1, i1, f), line('fma', rng.choice(MODES), status_in(rng), i1, f, i1 ^ (1 << 127)),
            line('quantize', rng.choice(MODES), status_in(rng), i1, f), line('quantize', rng.choice(MODES), status_in(rng), f, i1)])


# ------------------------------------------------------------------------------------------------ C13 every pattern / classification
def noncanon_of(rng, x):
    """a non-canonical encoding of the same datum where one exists, else x"""
    d = decode(x)
    if d[0] == 'inf': return x | rng.getrandbits(122)
    if d[0] == 'nan' and d[3] == 0: return x | rng.randint(T33, (1 << 110) - 1) | (rng.getrandbits(11) << 110)
    if d[0] == 'nan': return x | (rng.getrandbits(11) << 110)
    if d[0] == 'fin' and d[2] == 0:
        s, q = d[1], d[3]
        if rng.random() < 0.5: return (s << 127) | ((q + BIAS) << 113) | rng.randint(T34, (1 << 113) - 1)
        return (s << 127) | (3 << 125) | ((q + BIAS) << 111) | rng.getrandbits(111)
    return x


def gen_class(rng, n):
    for _ in range(n):
        k = rng.random()
        if k < 0.35:      # normal / subnormal threshold: c = 10^(k-1) (+-1), q = -6143 - k + {0, 1}
            kk = rng.randint(1, 34); c = rng.choice([10 ** (kk - 1), 10 ** kk - 1, coeff(rng, kk)])
            x = fin(rng.randint(0, 1), c, -6143 - kk + rng.choice([0, 1, 2, -1]))
        elif k < 0.6: x = special(rng)
        elif k < 0.8: x = rng.getrandbits(128)
        else: x = datum(rng, 0.3)
        yield line(rng.choice(['class', 'isx']), 0, 0, x)


def gen_noncanon_ops(rng, n):
    """every operation on a non-canonical operand (the model decodes it as the standard says) in each operand position"""
    ops1 = ['sqrt', 'rint', 'nearbyint', 'rint_ne', 'rint_na', 'rint_dn', 'rint_up', 'rint_tz', 'nextup', 'nextdown', 'logb', 'ilogb', 'quantexp', 'quantum', 'fmt', 'encode',
            'modf', 'frexp', 'llquantexp', 'lrint', 'llrint', 'lround', 'llround', 'class', 'isx', 'abs', 'neg', 'copy', 'serde'] + \
           ['to_%s_%s%s' % (t, xf, k) for t in ('i32', 'u32', 'i64', 'u64') for xf in ('', 'x') for k in INT_KINDS]
    ops2 = ['add', 'sub', 'mul', 'div', 'quantize', 'rem', 'fmod', 'minnum', 'maxnum', 'minmag', 'maxmag', 'nextafter', 'nexttoward', 'samequantum', 'totalorder', 'totalordermag',
            'fdim', 'ops', 'copysign', 'hasheq', 'hashset', 'o_add', 'o_mul', 'o_rem']
    for _ in range(n):
        x = noncanon_of(rng, special(rng)); k = rng.random()
        if k < 0.35: yield line(rng.choice(ops1), rng.choice(MODES), status_in(rng), x)
        elif k < 0.8:
            y = datum(rng, 0.3)
            a, b = (x, y) if rng.random() < 0.5 else (y, x)
            yield line(rng.choice(ops2), rng.choice(MODES), status_in(rng), a, b)
        elif k < 0.9:
            t = [datum(rng, 0.2), datum(rng, 0.2), datum(rng, 0.2)]; t[rng.randint(0, 2)] = x
            yield line('fma', rng.choice(MODES), status_in(rng), *t)
        else:
            yield line(rng.choice(['scaleb', 'ldexp']), rng.choice(MODES), status_in(rng), x, '%x' % (rng.randint(-50, 50) & 0xffffffff))


# ------------------------------------------------------------------------------------------------ C17 next*
NEXT_SPECIALS = None


def gen_next(rng, n):
    global NEXT_SPECIALS
    if NEXT_SPECIALS is None:
        vals = []
        for s in (0, 1):
            vals += [fin(s, T34 - 1, QMAX), fin(s, T34 - 2, QMAX), fin(s, 1, QMIN), fin(s, 2, QMIN), fin(s, 0, QMIN), fin(s, 0, 0), fin(s, 0, QMAX),
                     (s << 127) | (0x78 << 120), fin(s, T33, QMIN), fin(s, T33 - 1, QMIN), fin(s, T33, QMIN + 1), fin(s, 1, 0), fin(s, T33, QMAX)]
        NEXT_SPECIALS = vals
    # every special value against every special value (both binary operations), and the unary ones
    for x in NEXT_SPECIALS:
        for op in ('nextup', 'nextdown'): yield line(op, 0, status_in(rng), x)
        for y in NEXT_SPECIALS:
            for op in ('nextafter', 'nexttoward'): yield line(op, 0, status_in(rng), x, y)
    for _ in range(n):
        k = rng.random()
        if k < 0.5:
            kk = rng.randint(0, 34)
            c = rng.choice([10 ** kk, 10 ** kk - 1, T34 - 1, 1, 0, T33, T33 - 1, T33 + 1, coeff(rng)]) % T34
            e = rng.choice([QMIN + rng.randint(0, 36), -1, 0, 1, QMAX - rng.randint(0, 41), expo(rng)])
            x = fin(rng.randint(0, 1), c, e)
        else: x = datum(rng, 0.4)
        op = rng.choice(['nextup', 'nextdown', 'nextafter', 'nexttoward'])
        if op in ('nextup', 'nextdown'): yield line(op, 0, status_in(rng), x)
        else:
            y = related(rng, x) if rng.random() < 0.7 else datum(rng, 0.6)
            yield line(op, 0, status_in(rng), x, y)


# ------------------------------------------------------------------------------------------------ C19 DPD
def gen_dpd(rng, n):
    for _ in range(n):
        k = rng.random()
        if k < 0.4: yield line('encode', 0, status_in(rng), datum(rng, 0.3))
        elif k < 0.55:      # coefficients sweeping three-digit groups
            g = rng.randint(0, 999); pos = rng.randint(0, 10); c = (coeff(rng, 34) // 1000 ** (pos + 1)) * 1000 ** (pos + 1) + g * 1000 ** pos + rng.randint(0, 1000 ** pos - 1 if pos else 0)
            yield line('encode', 0, 0, fin(rng.randint(0, 1), c % T34, expo(rng)))
        elif k < 0.75:      # every declet value (incl. the 24 redundant ones) in each position
            w = rng.getrandbits(128); dl = rng.choice([rng.randint(0, 1023), rng.choice([0x16e, 0x16f, 0x17e, 0x17f, 0x1ee, 0x1ef, 0x1fe, 0x1ff, 0x26e, 0x26f, 0x27e, 0x27f, 0x2ee, 0x2ef, 0x2fe, 0x2ff, 0x36e, 0x36f, 0x37e, 0x37f, 0x3ee, 0x3ef, 0x3fe, 0x3ff])])
            pos = rng.randint(0, 10); w = (w & ~(0x3ff << (10 * pos))) | (dl << (10 * pos))
            yield line('decode', 0, status_in(rng), w)
        elif k < 0.9: yield line('decode', 0, status_in(rng), rng.getrandbits(128))
        else:
            comb = rng.choice([0x1e, 0x1f]) << 12 | rng.getrandbits(12)
            yield line('decode', 0, 0, (rng.randint(0, 1) << 127) | (comb << 110) | rng.getrandbits(110))


# ------------------------------------------------------------------------------------------------ C05 formatting
def gen_fmt(rng, n):
    m = max(1, n // 3)
    # every one of the 12288 quantum exponents (round-robin over the run), three coefficients each
    exps = list(range(QMIN, QMAX + 1)); rng.shuffle(exps)
    for i in range(m):
        e = exps[i % len(exps)] if n < 3 * 12288 else QMIN + i % 12288
        c = rng.choice([0, 1, coeff(rng, 34)])
        yield line('fmt', 0, 0, fin(rng.randint(0, 1), c, e))
    for i in range(m):       # 6-bit slices at each of the 19 positions, three-digit groups at each of 12 positions
        c = coeff(rng, rng.randint(1, 34))
        if rng.random() < 0.5:
            pos = rng.randint(0, 18); v = rng.randint(0, 63); c = (c & ~(63 << (6 * pos))) | (v << (6 * pos))
        elif rng.random() < 0.6:
            pos = rng.randint(0, 11); g = rng.randint(0, 999); c = (c // 1000 ** (pos + 1)) * 1000 ** (pos + 1) + g * 1000 ** pos + c % (1000 ** pos)
        else:    # 9-digit and 6-digit blocks at the top / bottom of their range (reciprocal-multiplication digit splitting: quotient estimates one off)
            w = rng.choice([9, 6, 18]); pos = rng.randint(0, 34 // w); B = 10 ** w
            g = rng.choice([B - 1 - rng.randint(0, B // 100), rng.randint(0, B // 100), rng.randint(0, 999) * (B // 1000) + (B // 1000 - 1 - rng.randint(0, B // 100000))])
            c = (c // B ** (pos + 1)) * B ** (pos + 1) + g * B ** pos + c % (B ** pos)
        e = expo(rng)
        if rng.random() < 0.3:   # exponents whose decimal spelling is on a digit-count / digit-group boundary
            e = rng.choice([1, -1]) * (rng.choice([1000, 100, 10]) * rng.randint(1, 9) + rng.choice([0, 0, 0, -1, 1])); e = max(QMIN, min(QMAX, e))
        yield line('fmt', 0, 0, fin(rng.randint(0, 1), c % T34, e))
    for i in range(n - 2 * m):
        yield line('fmt', 0, 0, datum(rng, 0.25) if rng.random() < 0.8 else rng.getrandbits(128))


def fmt_canonical(d, upper=True):
    """text of a canonical datum as property C05 states it (used only to build parse inputs for the round trip)"""
    if d[0] == 'inf': return '+-'[d[1]] + 'Inf'
    if d[0] == 'nan': return '+-'[d[1]] + ('SNaN' if d[2] else 'NaN')
    _, s, c, q = d
    return '%s%d%s%s%d' % ('+-'[s], c, 'E' if upper else 'e', '+' if q >= 0 else '-', abs(q))


def gen_roundtrip(rng, n):
    """parse(format(x)) = x: the text is built as the format the property prescribes (the fmt stream checks the crate prints it)"""
    for _ in range(n):
        k = rng.random()
        x = finite(rng) if k < 0.7 else zero(rng) if k < 0.8 else fin(rng.randint(0, 1), coeff(rng), rng.choice([QMIN, QMAX, QMIN + 1, QMAX - 1])) if k < 0.9 else rng.choice([encode(('inf', 0)), encode(('inf', 1)), encode(('nan', 0, False, 0)), encode(('nan', 1, False, 0)), encode(('nan', 0, True, 0)), encode(('nan', 1, True, 0))])
        txt = fmt_canonical(decode(x), rng.random() < 0.7)
        yield '%s %d %x %s' % (rng.choice(['parse', 'parse', 'parse', 'fromstr', 'fromstr2']), rng.choice(MODES), status_in(rng), txt.encode().hex())


# ------------------------------------------------------------------------------------------------ C04 parsing
def hexs(s): return (s.encode() if isinstance(s, str) else s).hex() or '-'


def literal_underflow(rng, maxd=100):
    """a literal whose rounding position lies inside (or just beyond) its digits because of the bottom exponent -6176:
    keep of the nd digits stay above the quantum 1E-6176, the rest is a tail of a chosen rounding class"""
    keep = rng.choice([0, 1, 1, 1, 2, 2, 3, 33, 34]) if rng.random() < 0.45 else rng.randint(0, 34)
    tl = rng.choice([33, 34, 35, 36]) if rng.random() < 0.3 else rng.randint(1, max(1, min(maxd, 70) - keep))
    head = (str(coeff(rng, keep)) if keep else '')
    if keep and rng.random() < 0.3: head = rng.choice(['6', '2', '5', '9', '1', '7']) * 1 + '0' * (keep - 1) if rng.random() < 0.5 else '9' * keep
    tail = tail_digits(rng, tl)
    if rng.random() < 0.45 and tl > 2: tail = '5' + '0' * (tl - 2) + rng.choice('011')      # tie / tie broken far to the right
    ds = head + tail
    E = -6176 - tl + rng.choice([0, 0, 0, 0, 1, -1, 2, -2])
    s = rng.choice(['', '+', '-'])
    if rng.random() < 0.4 and len(ds) > 1:      # same value written with a decimal point
        p = rng.randint(1, len(ds) - 1); return s + ds[:p] + '.' + ds[p:] + 'E' + str(E + len(ds) - p)
    return s + ds + rng.choice('eE') + str(E)


def literal_wordcarry(rng):
    """32..34 significant digits (possibly followed by more) whose leading part times 10^17 sits on a 64-bit word boundary, or whose
    last 17 digits make the low-word addition wrap exactly: the parser assembles the coefficient as high * 10^17 + low with a manual carry"""
    nh = rng.choice([15, 16, 17])
    if rng.random() < 0.6:
        kmax = (10 ** nh - 1) >> 47; kmin = ((10 ** (nh - 1)) >> 47) + 1
        head = rng.randint(kmin, max(kmin, kmax)) << 47            # low word of head * 10^17 is zero
        tail = rng.choice([0, 1, 10 ** 17 - 1, rng.randint(0, 10 ** 17 - 1)])
    else:
        head = rng.randint(10 ** (nh - 1), 10 ** nh - 1)
        lowword = (head * 10 ** 17) % (1 << 64)
        tail = ((1 << 64) - lowword + rng.choice([0, 0, -1, 1])) % (1 << 64)   # low word + tail = 2^64 (or one off)
        if tail >= 10 ** 17: tail = rng.randint(0, 10 ** 17 - 1)
    ds = str(head) + '%017d' % tail
    if rng.random() < 0.3: ds += ''.join(rng.choice('0123456789') for _ in range(rng.randint(1, 30)))
    s = rng.choice(['', '+', '-'])
    if rng.random() < 0.4:
        p = rng.randint(1, len(ds) - 1); ds = ds[:p] + '.' + ds[p:]
    e = ''
    if rng.random() < 0.6: e = rng.choice('eE') + str(rng.choice([rng.randint(-70, 70), rng.randint(-6200, 6100)]))
    return s + ds + e


def literal(rng, maxd=100):
    if maxd > 100 and rng.random() < 0.15:      # more digits than the scanner's buffer, in each of the three scanner loops
        nd = rng.randint(95, maxd); ds = ''.join(rng.choice('0123456789') for _ in range(nd)).lstrip('0') or '7'
        form = rng.choice(['0.' + ds, '.' + ds, '00.000' + ds, ds[:1] + '.' + ds[1:], ds + '.', ds[:50] + '.' + ds[50:]])
        return rng.choice(['', '+', '-']) + form + rng.choice(['', 'E5', 'e-20', 'E+6100', 'E-6200'])
    if rng.random() < 0.15: return literal_underflow(rng, maxd)
    if rng.random() < 0.05: return literal_wordcarry(rng)
    nd = rng.choice([rng.randint(1, 34), rng.randint(1, 34), rng.randint(35, maxd), rng.randint(30, 40)])
    ds = ''.join(rng.choice('0123456789') for _ in range(nd))
    if nd > 37 and rng.random() < 0.5:      # ties and near-ties at digit 35
        ds = ds[:34] + rng.choice(['5' + '0' * (nd - 35), '49' + '9' * (nd - 36), '50' + '0' * (nd - 37) + '1', '0' * (nd - 34), '0' * (nd - 35) + '1', '9' * (nd - 34)])
    if rng.random() < 0.1: ds = '9' * nd
    if rng.random() < 0.2: ds = '0' * rng.randint(1, 5) + ds
    if rng.random() < 0.4:
        p = rng.randint(0, len(ds)); ds = ds[:p] + '.' + ds[p:]
    s = rng.choice(['', '+', '-'])
    e = ''
    if rng.random() < 0.75:
        ev = rng.choice([rng.randint(-70, 70), rng.randint(-6300, 6300), -6176 + rng.randint(-45, 45), 6111 + rng.randint(-45, 45), 6144 - nd + rng.randint(-3, 3),
                         -6176 - nd + rng.randint(-3, 40), rng.randint(-10 ** 7, 10 ** 7), rng.randint(-10 ** 10, 10 ** 10)])
        pad = '0' * rng.choice([0, 0, 0, 1, 3, 8])
        e = rng.choice('eE') + ('-' if ev < 0 else rng.choice(['', '+'])) + pad + str(abs(ev))
    return s + ds + e


SPECIAL_SPELLINGS = ['inf', 'infinity', 'nan', 'snan']
GARBAGE = ['', ' ', '+', '-', '.', '+.', '-.', '1e', '1E+', '1E-', 'e5', '1.2.3', '1e5.0', '1e5e5', '--1', '+-1', '1/2', '1:2', '!', '/', "'", '1,5', '٣', 'ñ', '+aaañ',
           '1ñ', '1e٣', 'infinit', 'in', 'nanx', 'na', 'snanx', 'sna', '1x', 'x1', '0x10', '1e+', '.e1', 'e', 'E', '+e1', '1 2', '1e 5', 'NaN1', 'Inf1', '1_000', '١٢٣', '１２３', '1\x00', '\x001']


SP_PREFIX = ['', '+', '-', '.', '0', '1', '9', '5', ' ', '\t', '+.', '-.', '-0', '1.', '0.', '.0', '1e', '1e5', '1e+5', 'e', '++', '+-', '- ', '12', '00', 'x', 'ñ']
SP_SUFFIX = ['', '', '', 'x', '1', '0', '.', ' ', 'e5', '(12)', 'ity', 'inf', 'nan', 'ñ', 'q', '+', 's']


def gen_parse(rng, n):
    ops = ['parse'] * 6 + ['fromstr', 'fromstr2']
    for _ in range(n):
        k = rng.random(); op = rng.choice(ops)
        if k < 0.05:        # grammar fragments glued around a special spelling ("1snan", ".inf", "+ nan", "snan(12)", "1e5inf" ...)
            sp = rng.choice(SPECIAL_SPELLINGS + ['snan', 'snan']); sp = ''.join(ch.upper() if rng.random() < 0.5 else ch for ch in sp)
            s = rng.choice(SP_PREFIX) + sp + rng.choice(SP_SUFFIX)
        elif k < 0.62: s = literal(rng)
        elif k < 0.70: s = literal(rng, 300)
        elif k < 0.76:
            sp = rng.choice(SPECIAL_SPELLINGS); sp = ''.join(ch.upper() if rng.random() < 0.5 else ch for ch in sp)
            s = rng.choice(['', '+', '-']) + sp
        elif k < 0.84:
            s = rng.choice(['', '+', '-']) + rng.choice(GARBAGE)
        elif k < 0.92:      # truncations / single-character corruptions of valid literals
            t = literal(rng, 40); p = rng.randint(0, len(t))
            s = t[:p] if rng.random() < 0.5 else t[:p] + rng.choice(['x', ' ', '.', 'e', '+', '-', 'ñ', '/', ':', '٣']) + t[p + 1:]
        elif k < 0.96:      # random valid UTF-8 with multi-byte characters at small offsets
            s = ''.join(rng.choice(['1', '+', '-', '.', 'e', 'a', 's', 'n', 'i', 'ñ', '€', '𝟙', ' ']) for _ in range(rng.randint(1, 8)))
        else:               # leading blanks (unspecified domain: skipped upstream)
            s = rng.choice([' ', '\t', '  ']) + literal(rng, 40)
        yield '%s %d %x %s' % (op, rng.choice(MODES), status_in(rng), hexs(s))


# ------------------------------------------------------------------------------------------------ C14 histories are covered by status_in in every stream; C01 operators
def gen_operators(rng, n):
    for _ in range(n):
        k = rng.random()
        if k < 0.3: x, y = pair_addsub(rng); op = rng.choice(['o_add', 'o_sub'])
        elif k < 0.5: x, y = pair_mul(rng); op = 'o_mul'
        elif k < 0.7: x, y = pair_div(rng); op = 'o_div'
        elif k < 0.8:
            yield line('o_neg', 0, 0, datum(rng, 0.5)); continue
        else:
            m = rng.choice([0, 1, 1, 2, 3, 4, 5]); yield line(rng.choice(['sum', 'product']), 0, 0, *[datum(rng, 0.3 if m == 1 else 0.08) for _ in range(m)]); continue
        yield line(op, 0, 0, x, y)


def gen_status_exact(rng, n):
    """C14: exact results on the paths where an operation decides 'was anything lost?': integers written with many fractional zeros through every
    to-integer / round-to-integral form, exact subnormal results of mul / div / scaleb / ldexp / quantize / parse (digits beyond the 34th all zero):
    an implementation that consults the caller's inexact bit there changes value or flags with the entry word"""
    rops = ['rint', 'nearbyint', 'rint_ne', 'rint_na', 'rint_dn', 'rint_up', 'rint_tz', 'lrint', 'llrint', 'lround', 'llround']
    for _ in range(n):
        k = rng.random(); md = rng.choice(MODES)
        if k < 0.4:
            v = rng.choice([rng.randint(1, 9), rng.randint(1, 10 ** rng.randint(1, 9))]); kz = rng.randint(1, 34 - ndig(v))
            x = fin(rng.randint(0, 1), v * 10 ** kz, -kz)
            if rng.random() < 0.7:
                t, w, sg = rng.choice(INT_TYPES); yield line('to_%s_%s%s' % (t, rng.choice(['', 'x', 'x']), rng.choice(INT_KINDS)), 0, 0, x)
            else: yield line(rng.choice(rops), md, 0, x)
        elif k < 0.55:     # exact subnormal products / quotients
            a = coeff(rng, rng.randint(1, 10)); b = coeff(rng, rng.randint(1, 10)); z = rng.randint(0, 10)
            e = QMIN + rng.randint(0, 5)
            if rng.random() < 0.5:
                e1 = rng.randint(QMIN, e - QMIN) if e - QMIN >= QMIN else QMIN
                yield line('mul', md, 0, fin(rng.randint(0, 1), a * 10 ** z, max(QMIN, min(QMAX, e1 - z))), fin(rng.randint(0, 1), b, max(QMIN, min(QMAX, e - e1))))
            else:
                e2 = rng.randint(-100, 100)
                yield line('div', md, 0, fin(rng.randint(0, 1), a * b * 10 ** z, max(QMIN, min(QMAX, e + e2 - z))), fin(rng.randint(0, 1), b, e2))
        elif k < 0.75:     # exact scaleb / ldexp into the subnormal range (only zeros shifted out)
            q = rng.randint(1, 20); c = coeff(rng, q); z = rng.randint(1, 34 - q); e = rng.randint(-200, 200)
            nn = QMIN - z - e + rng.choice([0, 0, 1, rng.randint(0, z)])
            yield line(rng.choice(['scaleb', 'ldexp', 'scalebln']), md, 0, fin(rng.randint(0, 1), c * 10 ** z, e), '%x' % (nn & 0xffffffff))
        elif k < 0.9:      # literals with more than 34 digits, all zero beyond, exact subnormal or normal value
            q = rng.randint(1, 30); ds = str(coeff(rng, q)) + '0' * rng.randint(35 - q, 60)
            E = rng.choice([QMIN - (len(ds) - q) + rng.randint(0, 3), rng.randint(-100, 100)])
            yield '%s %d 0 %s' % (rng.choice(['parse', 'parse', 'fromstr2']), md, hexs(rng.choice(['', '-']) + ds + 'E' + str(E)))
        else:              # exact quantize dropping many zeros
            q = rng.randint(1, 10); c = coeff(rng, q); z = rng.randint(1, 34 - q); e = rng.randint(-100, 100)
            yield line('quantize', md, 0, fin(rng.randint(0, 1), c * 10 ** z, e), fin(0, 1, e + rng.randint(1, z)))


def gen_all_ops_status(rng, n):
    """C14: every flag-taking operation with all 64 incoming status values (quick: 6 per case)"""
    fams = [gen_addsub, gen_mul, gen_div, gen_sqrt, gen_fma, gen_rint, gen_toint, gen_quantize, gen_rem, gen_scaleb, gen_logb, gen_next, gen_minmax, gen_frombin, gen_parse, gen_cmp,
            gen_fdim, gen_consts, gen_quantum_queries, gen_nan, gen_status_exact, gen_status_exact, gen_status_exact]
    # weights: the to-integer family is 44 routines with half a dozen flag-raising sites each, round-to-integral 7; the binary conversions are slow to judge
    weight = {gen_toint: 8, gen_rint: 3, gen_frombin: 0.5, gen_consts: 0.2, gen_next: 2, gen_quantize: 2, gen_scaleb: 2, gen_addsub: 2, gen_fma: 2}
    tot = sum(weight.get(f, 1) for f in fams)
    for f in fams:
        per = max(1, int(n * weight.get(f, 1) / (tot * 6)))
        for l in f(rng, per):
            t = l.split()
            for st in [0, 0x3f, 0x20, 0x10] + [rng.getrandbits(6), rng.getrandbits(6)]:
                t[2] = '%x' % st
                yield ' '.join(t)


# ------------------------------------------------------------------------------------------------ C15: every entry point, every kind of argument
def c15_datum(rng):
    k = rng.random()
    if k < 0.30: return rng.getrandbits(128)
    if k < 0.45: return special(rng)
    if k < 0.55:      # all-ones / all-zeros / single-bit / field-boundary patterns
        return rng.choice([0, M128, 1 << rng.randint(0, 127), M128 ^ (1 << rng.randint(0, 127)), (1 << 113) - 1, 1 << 113, (3 << 125), (3 << 125) | ((1 << 125) - 1),
                           (0x1f << 122) | ((1 << 122) - 1), (0x1e << 122) | ((1 << 122) - 1), fin(rng.randint(0, 1), T34 - 1, rng.choice([QMIN, QMAX])),
                           fin(rng.randint(0, 1), 1, rng.choice([QMIN, QMAX])), fin(0, T33, QMAX)])
    return finite(rng)


def c15_int(rng, w):
    k = rng.random()
    if k < 0.5: return rng.choice([0, 1, (1 << w) - 1, 1 << (w - 1), (1 << (w - 1)) - 1, (1 << (w - 1)) + 1, 2, 10, 6111, 6176, 12287, 12288, 40000,
                                   (1 << w) - 6176, (1 << w) - 12288, (1 << w) - 40000, 1 << 31, (1 << 31) - 1, (1 << 32) - 1, 1 << 32]) % (1 << w)
    return rng.getrandbits(w) if k < 0.8 else rng.getrandbits(rng.randint(1, w))


def c15_string(rng):
    k = rng.random()
    if k < 0.30: return literal(rng, 300)
    if k < 0.40: return rng.choice(['', '+', '-']) + rng.choice(GARBAGE)
    if k < 0.50: return rng.choice(['', '+', '-']) + ''.join(ch.upper() if rng.random() < 0.5 else ch for ch in rng.choice(SPECIAL_SPELLINGS)) + rng.choice(['', '', 'x', '1', 'ñ', ' '])
    if k < 0.65:
        t = literal(rng, 120); p = rng.randint(0, len(t))
        return t[:p] if rng.random() < 0.5 else t[:p] + rng.choice(['x', ' ', '.', 'e', 'E', '+', '-', 'ñ', '€', '𝟙', '/', ':', '٣', '\x00', '\t']) + t[p + 1:]
    if k < 0.85:
        return ''.join(rng.choice(['0', '1', '9', '+', '-', '.', 'e', 'E', 'a', 's', 'n', 'i', 'f', 'N', 'ñ', '€', '𝟙', ' ', '\t', '\x00', '/', ':']) for _ in range(rng.randint(0, 12)))
    if k < 0.93: return ''.join(chr(rng.choice([rng.randint(1, 0x7f), rng.randint(0x80, 0x7ff), rng.randint(0x800, 0xd7ff), rng.randint(0x10000, 0x10ffff)])) for _ in range(rng.randint(1, 10)))
    return rng.choice(['0', '9', '0.', '.0', '1e']) * rng.randint(1, 400)


def gen_c15(rng, n):
    import apimap
    ops = sorted(apimap.OPSIG)
    per = max(2, n // len(ops))
    for op in ops:
        sig = apimap.OPSIG[op]
        for _ in range(per if sig else 1):
            mode = rng.choice([0, 1, 2, 3, 4, 9]); st = rng.choice([0, 0, 0x3f, rng.getrandbits(6), rng.getrandbits(32)])
            if sig == 's':
                yield '%s %d %x %s' % (op, mode, st, hexs(c15_string(rng))); continue
            if sig == 'l':
                yield line(op, mode, st, *[c15_datum(rng) for _ in range(rng.randint(0, 8))]); continue
            args = []; rest = sig
            while rest:
                if rest[0] == 'd': args.append(c15_datum(rng)); rest = rest[1:]
                elif rest[0] == 'p': args.append('%x' % rng.randint(0, 19)); rest = rest[1:]
                else:
                    w = int(rest[1:3]); args.append('%x' % c15_int(rng, w)); rest = rest[3:]
            yield line(op, mode, st, *args)


# ------------------------------------------------------------------------------------------------ serde, constants, macro, nan(tag)
def gen_serde(rng, n):
    """C05, serde clause: serialize -> JSON string -> deserialize; and deserialization of arbitrary strings"""
    for i in range(n):
        k = rng.random()
        if k < 0.6:
            x = finite(rng) if rng.random() < 0.7 else datum(rng, 0.7)
            yield line('serde', 0, 0, x)
        elif k < 0.85:
            x = finite(rng) if rng.random() < 0.8 else special(rng)
            yield 'serde_de 0 0 %s' % hexs(fmt_canonical(decode(x), rng.random() < 0.7))
        else:
            yield 'serde_de 0 0 %s' % hexs(literal(rng, 60) if rng.random() < 0.7 else rng.choice(GARBAGE))


def gen_consts(rng, n):
    yield 'consts 0 0'
    yield 'macro 0 0'
    for _ in range(n):
        k = rng.random()
        tag = str(rng.randint(0, 10 ** rng.randint(1, 40))) if k < 0.6 else literal(rng, 50) if k < 0.8 else rng.choice(GARBAGE + ['inf', 'nan', 'snan', '-1', '0'])
        yield 'nan 0 %x %s' % (status_in(rng), hexs(tag))


def gen_fdim(rng, n):
    for _ in range(n):
        x, y = cmp_pair(rng) if rng.random() < 0.5 else pair_addsub(rng)
        yield line('fdim', rng.choice(MODES), status_in(rng), x, y)


# ------------------------------------------------------------------------------------------------ C02 secondary configuration: tininess after rounding
def pair_tiny_threshold(rng):
    """exact product 10^(34+m) -+ t at exponent -6177-m: a hair below / above the smallest normal 10^-6143, so that rounding to 34 digits
    with unbounded exponent does or does not carry up to it (the only place where tininess before and after rounding differ)"""
    while True:
        m = rng.randint(1, 6); B = rng.randint(10 ** m + 1, 10 ** (m + 1) - 1)
        T = 10 ** (34 + m)
        t = T % B + B * rng.choice([0, 0, 0, 1, 2, rng.randint(0, 10 ** m // B + 1)])
        if rng.random() < 0.25: t = -((-T) % B)            # just above: T + |t|
        P = T - t
        if P % B: continue
        A = P // B
        if 0 < A < T34: break
    e = QMIN - 1 - m + rng.choice([0, 0, 0, 0, 1, -1])
    e1 = rng.randint(max(QMIN, e - QMAX), min(QMAX, e - QMIN)); e2 = e - e1
    s1, s2 = rng.randint(0, 1), rng.randint(0, 1)
    x, y = fin(s1, A, e1), fin(s2, B, e2)
    return (x, y) if rng.random() < 0.5 else (y, x)


def gen_tiny_after(rng, n):
    for _ in range(n):
        k = rng.random()
        if k < 0.45:
            x, y = pair_tiny_threshold(rng)
            if rng.random() < 0.5: yield line('mul_ta', rng.choice(MODES), status_in(rng), x, y)
            else:
                z = fin(rng.randint(0, 1), 0, rng.choice([QMIN, QMIN + rng.randint(0, 40), expo(rng)])) if rng.random() < 0.6 else fin(rng.randint(0, 1), rng.choice([1, 2, 5]), QMIN)
                yield line('fma_ta', rng.choice(MODES), status_in(rng), x, y, z)
        elif k < 0.65:
            x, y = pair_mul_underflow(rng); yield line('mul_ta', rng.choice(MODES), status_in(rng), x, y)
        elif k < 0.85:
            x, y, z = triple_fma(rng); yield line('fma_ta', rng.choice(MODES), status_in(rng), x, y, z)
        else:
            x, y = pair_mul(rng); yield line('mul_ta', rng.choice(MODES), status_in(rng), x, y)


def zero_any(rng):
    """a zero in any of its spellings: canonical, coefficient field >= 10^34 (boundary values over-represented), large-coefficient form;
    the exponents 0, -1, 1 and the extremes over-represented (an exponent field of 6176 looks like an integer)"""
    e = rng.choice([0, 0, 1, -1, QMIN, QMAX, expo(rng), expo(rng)])
    k = rng.random()
    if k < 0.4: return fin(rng.randint(0, 1), 0, e)
    if k < 0.8: return noncanon_small(rng, e)
    return noncanon_large(rng, e)


def gen_hashslice(rng, n):
    """C20: hash_slice of two slices whose elements are pairwise equal values (other cohort member, other zero sign, other NaN) must feed
    identical words to the Hasher; op hashsliceeq n x1..xn y1..yn"""
    def twin(x):
        d = decode(x)
        if d[0] == 'nan': return nan(rng)
        if d[0] == 'inf': return infinity(rng) & ~(1 << 127) | (x & (1 << 127))
        _, s_, c, q = d
        if c == 0: return zero_any(rng)
        cc, qq = c, q
        if rng.random() < 0.5:
            while cc % 10 == 0 and qq < QMAX and rng.random() < 0.8: cc //= 10; qq += 1
        else:
            while cc * 10 < T34 and qq > QMIN and rng.random() < 0.8: cc *= 10; qq -= 1
        return fin(s_, cc, qq)
    for _ in range(n):
        k = rng.randint(0, 5); xs = [zero_any(rng) if rng.random() < 0.12 else datum(rng, 0.35) for _ in range(k)]
        ys = [twin(x) if rng.random() < 0.9 else datum(rng, 0.3) for x in xs]
        yield line('hashsliceeq', 0, 0, '%x' % k, *(xs + ys))
