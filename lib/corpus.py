# Intel's test vectors (dec_test! lines of /repo/tests/*.rs) re-read at run time and replayed as correspondence cases: the INPUTS of every
# vector, under all five rounding modes where the operation takes one and with binary operands also swapped. The expected values of
# the suite are not used (the model decides); the vectors contribute inputs that Intel chose to sit on the algorithms' branches.
import re, os, glob

TESTS = '/repo/tests'
# suite operation -> (harness op, argument kinds after the optional mode, takes_mode)
M = {'bid128_add': ('add', 'dd', 1), 'bid128_sub': ('sub', 'dd', 1), 'bid128_mul': ('mul', 'dd', 1), 'bid128_div': ('div', 'dd', 1), 'bid128_sqrt': ('sqrt', 'd', 1),
     'bid128_fma': ('fma', 'ddd', 1), 'bid128_fdim': ('fdim', 'dd', 1), 'bid128_fmod': ('fmod', 'dd', 1), 'bid128_rem': ('rem', 'dd', 1),
     'bid128_quantize': ('quantize', 'dd', 1), 'bid128_nearbyint': ('nearbyint', 'd', 1), 'bid128_round_integral_exact': ('rint', 'd', 1),
     'bid128_round_integral_nearest_away': ('rint_na', 'd', 1), 'bid128_round_integral_nearest_even': ('rint_ne', 'd', 1),
     'bid128_round_integral_negative': ('rint_dn', 'd', 1), 'bid128_round_integral_positive': ('rint_up', 'd', 1), 'bid128_round_integral_zero': ('rint_tz', 'd', 1),
     'bid128_modf': ('modf', 'd', 1), 'bid128_frexp': ('frexp', 'd', 1), 'bid128_ldexp': ('ldexp', 'di', 1), 'bid128_scalbn': ('scaleb', 'di', 1),
     'bid128_scalbln': ('scalebln', 'dl', 1), 'bid128_llrint': ('llrint', 'd', 1), 'bid128_lrint': ('lrint', 'd', 1),
     'bid_to_dpd128': ('encode', 'd', 1), 'bid_dpd_to_bid128': ('decode', 'd', 1), 'binary32_to_bid128': ('from_f32', 'f', 1), 'binary64_to_bid128': ('from_f64', 'F', 1),
     'bid128_from_string': ('parse', 's', 1),
     'bid128_abs': ('abs', 'd', 0), 'bid128_class': ('class', 'd', 0), 'bid128_copy': ('copy', 'd', 0), 'bid128_copy_sign': ('copysign', 'dd', 0),
     'bid128_negate': ('neg', 'd', 0), 'bid128_ilogb': ('ilogb', 'd', 0), 'bid128_logb': ('logb', 'd', 0), 'bid128_llquantexp': ('llquantexp', 'd', 0),
     'bid128_quantexp': ('quantexp', 'd', 0), 'bid128_quantum': ('quantum', 'd', 0), 'bid128_llround': ('llround', 'd', 0), 'bid128_lround': ('lround', 'd', 0),
     'bid128_maxnum': ('maxnum', 'dd', 0), 'bid128_maxnum_mag': ('maxmag', 'dd', 0), 'bid128_minnum': ('minnum', 'dd', 0), 'bid128_minnum_mag': ('minmag', 'dd', 0),
     'bid128_nextafter': ('nextafter', 'dd', 0), 'bid128_nexttoward': ('nexttoward', 'dd', 0), 'bid128_nextdown': ('nextdown', 'd', 0), 'bid128_nextup': ('nextup', 'd', 0),
     'bid128_same_quantum': ('samequantum', 'dd', 0), 'bid128_total_order': ('totalorder', 'dd', 0), 'bid128_total_order_mag': ('totalordermag', 'dd', 0),
     'bid128_from_int64': ('from_i64', 'L', 0), 'bid128_from_uint64': ('from_u64', 'L', 0), 'bid128_to_string': ('fmt', 'd', 0), 'bid128_nan': ('nan', 's', 0)}
for p in ['is_canonical', 'is_finite', 'is_infinity', 'is_nan', 'is_normal', 'is_signaling', 'is_signed', 'is_subnormal', 'is_zero']:
    M['bid128_' + p] = ('isx', 'd', 0)
CMPN = ['quiet_equal', 'quiet_greater', 'quiet_greater_equal', 'quiet_greater_unordered', 'quiet_less', 'quiet_less_equal', 'quiet_less_unordered',
        'quiet_not_equal', 'quiet_not_greater', 'quiet_not_less', 'quiet_ordered', 'quiet_unordered', 'signaling_greater', 'signaling_greater_equal',
        'signaling_greater_unordered', 'signaling_less', 'signaling_less_equal', 'signaling_less_unordered', 'signaling_not_greater', 'signaling_not_less']
for i, n in enumerate(CMPN): M['bid128_' + n] = ('cmp:%d' % i, 'dd', 0)
for t, tt in (('int32', 'i32'), ('uint32', 'u32'), ('int64', 'i64'), ('uint64', 'u64')):
    for k in ['rnint', 'xrnint', 'floor', 'xfloor', 'ceil', 'xceil', 'int', 'xint', 'rninta', 'xrninta']:
        M['bid128_to_%s_%s' % (t, k)] = ('to_%s_%s' % (tt, k), 'd', 0)

_cache = None


def split_args(s):
    out = []; cur = ''; inq = False
    for ch in s:
        if ch == '"': inq = not inq; cur += ch
        elif ch == ',' and not inq: out.append(cur.strip()); cur = ''
        else: cur += ch
    out.append(cur.strip())
    return out


def intlit(a, bits):
    a = re.sub(r'(u128|u64|i64|u32|i32|i128|_)', '', a).strip()
    try: v = int(a, 0)
    except ValueError: return None
    return v % (1 << bits)


def text_operands_to_bits(texts):
    """decimal operands written as text in the suite ("-1.5", "Infinity", "SNaN"): converted exactly the way the suite's macro does it,
    d128::from(&str), by the harness (op fromstr2)"""
    import subprocess
    hb = os.path.join(os.path.dirname(os.path.dirname(os.path.abspath(__file__))), 'harness', 'target', 'debug', 'verif-harness')
    if not texts or not os.path.exists(hb): return {}
    texts = sorted(texts)
    inp = ''.join('fromstr2 0 0 %s\n' % (t.encode().hex() or '-') for t in texts)
    p = subprocess.run([hb], input=inp, capture_output=True, text=True)
    out = {}
    for t, l in zip(texts, p.stdout.split('\n')):
        r = l.partition(' => ')[2].split()
        if len(r) == 2 and len(r[0]) == 32: out[t] = r[0]
    return out


def load():
    """-> dict harness-op -> list of argument tuples (hex strings)"""
    global _cache
    if _cache is not None: return _cache
    res = {}
    texts = set()
    for f in sorted(glob.glob(os.path.join(TESTS, '*.rs'))):
        for ln in open(f, errors='replace'):
            m = re.match(r'\s*dec_test!\((.*)\)\s*;', ln)
            if not m: continue
            a = split_args(m.group(1))
            if len(a) < 3 or a[1] not in M: continue
            op, kinds, tm = M[a[1]]
            for k, v in zip(kinds, a[2 + tm:2 + tm + len(kinds)]):
                if k == 'd' and v.startswith('"'): texts.add(v[1:-1])
    tbits = text_operands_to_bits(texts)
    for f in sorted(glob.glob(os.path.join(TESTS, '*.rs'))):
        for ln in open(f, errors='replace'):
            m = re.match(r'\s*dec_test!\((.*)\)\s*;', ln)
            if not m: continue
            a = split_args(m.group(1))
            if len(a) < 3 or a[1] not in M: continue
            op, kinds, tm = M[a[1]]
            ins = a[2 + tm:2 + tm + len(kinds)]
            if len(ins) < len(kinds): continue
            args = []
            for k, v in zip(kinds, ins):
                if k == 'd':
                    if v.startswith('"'):
                        if v[1:-1] in tbits: args.append(tbits[v[1:-1]]); continue
                        args = None; break
                    x = intlit(v, 128)
                    if x is None: args = None; break
                    args.append('%032x' % x)
                elif k in 'ilfFL':
                    x = intlit(v, {'i': 32, 'l': 64, 'f': 32, 'F': 64, 'L': 64}[k])
                    if x is None: args = None; break
                    args.append('%x' % x)
                elif k == 's':
                    if not v.startswith('"'): args = None; break
                    try: txt = bytes(v[1:-1], 'utf-8').decode('unicode_escape').encode('latin-1').decode('utf-8')
                    except Exception: txt = v[1:-1]
                    args.append(txt.encode().hex() or '-')
            if args is None: continue
            res.setdefault(op, []).append((tuple(args), tm))
    _cache = res
    return res


def gen_vectors(ops):
    """generator factory: all vectors of the given harness ops (prefix match on 'to_' / 'cmp'), all modes, swapped binary operands"""
    def gen(rng, n):
        db = load(); lines = []
        for op, lst in db.items():
            base = op.split(':')[0]
            if not any(base == o or (o.endswith('*') and base.startswith(o[:-1])) for o in ops): continue
            for args, tm in lst:
                variants = [args]
                if len(args) == 2 and len(args[0]) == 32 and len(args[1]) == 32 and args[0] != args[1]: variants.append((args[1], args[0]))
                for v in variants:
                    for md in (range(5) if tm else [0]):
                        if ':' in op: lines.append('%s %d 0 %s %x' % (base, md, ' '.join(v), int(op.split(':')[1])))
                        else: lines.append('%s %d 0 %s' % (op, md, ' '.join(v)))
        rng.shuffle(lines)
        for l in lines[:n]: yield l
    return gen
