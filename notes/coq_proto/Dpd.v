(* Feasibility prototype: the declet codec of IEEE 754-2008 tables 3.3/3.4 and its round trip, by finite sweep. *)
From Coq Require Import ZArith List Bool Lia.
Import ListNotations. Open Scope Z_scope.

Definition bit (v:Z) (i:Z) : Z := (v / 2 ^ i) mod 2.
(* encode three BCD digits a b c (each 0..9) into a 10-bit declet p0..p9 (p0 most significant) *)
Definition declet_enc (n:Z) : Z :=
  let a := n / 100 in let b := (n / 10) mod 10 in let c := n mod 10 in
  let a0 := bit a 3 in let a1 := bit a 2 in let a2 := bit a 1 in let a3 := bit a 0 in
  let b0 := bit b 3 in let b1 := bit b 2 in let b2 := bit b 1 in let b3 := bit b 0 in
  let c0 := bit c 3 in let c1 := bit c 2 in let c2 := bit c 1 in let c3 := bit c 0 in
  let mk p0 p1 p2 p3 p4 p5 p6 p7 p8 p9 :=
     p0*512 + p1*256 + p2*128 + p3*64 + p4*32 + p5*16 + p6*8 + p7*4 + p8*2 + p9 in
  match a0, b0, c0 with
  | 0,0,0 => mk a1 a2 a3 b1 b2 b3 0 c1 c2 c3
  | 0,0,_ => mk a1 a2 a3 b1 b2 b3 1 0 0 c3
  | 0,_,0 => mk a1 a2 a3 c1 c2 b3 1 0 1 c3
  | _,0,0 => mk c1 c2 a3 b1 b2 b3 1 1 0 c3
  | 0,_,_ => mk a1 a2 a3 1 0 b3 1 1 1 c3
  | _,0,_ => mk b1 b2 a3 0 1 b3 1 1 1 c3
  | _,_,0 => mk c1 c2 a3 0 0 b3 1 1 1 c3
  | _,_,_ => mk 0 0 a3 1 1 b3 1 1 1 c3
  end.
Definition declet_dec (v:Z) : Z :=
  let p i := bit v (9 - i) in
  let d3 x y z := x*4 + y*2 + z in
  let '(a,b,c) :=
    if p 6 =? 0 then (d3 (p 0) (p 1) (p 2), d3 (p 3) (p 4) (p 5), d3 (p 7) (p 8) (p 9))
    else match p 7, p 8 with
    | 0,0 => (d3 (p 0) (p 1) (p 2), d3 (p 3) (p 4) (p 5), 8 + p 9)
    | 0,_ => (d3 (p 0) (p 1) (p 2), 8 + p 5, d3 (p 3) (p 4) (p 9))
    | _,0 => (8 + p 2, d3 (p 3) (p 4) (p 5), d3 (p 0) (p 1) (p 9))
    | _,_ => match p 3, p 4 with
             | 0,0 => (8 + p 2, 8 + p 5, d3 (p 0) (p 1) (p 9))
             | 0,_ => (8 + p 2, d3 (p 0) (p 1) (p 5), 8 + p 9)
             | _,0 => (d3 (p 0) (p 1) (p 2), 8 + p 5, 8 + p 9)
             | _,_ => (8 + p 2, 8 + p 5, 8 + p 9)
             end
    end in
  a*100 + b*10 + c.

Definition range (n:nat) : list Z := map Z.of_nat (seq 0 n).
Lemma in_range n z : 0 <= z < Z.of_nat n -> In z (range n).
Proof. intros H. unfold range. apply in_map_iff. exists (Z.to_nat z). split. lia. apply in_seq. lia. Qed.

Theorem declet_roundtrip : forall n, 0 <= n < 1000 -> declet_dec (declet_enc n) = n /\ 0 <= declet_enc n < 1024.
Proof.
  assert (H : forallb (fun n => (declet_dec (declet_enc n) =? n) && (0 <=? declet_enc n) && (declet_enc n <? 1024)) (range 1000) = true) by (vm_compute; reflexivity).
  intros n Hn. rewrite forallb_forall in H. specialize (H n (in_range 1000 n Hn)).
  apply andb_prop in H. destruct H as [H H3]. apply andb_prop in H. destruct H as [H1 H2].
  apply Z.eqb_eq in H1. apply Z.leb_le in H2. apply Z.ltb_lt in H3. lia.
Qed.
Theorem declet_dec_total : forall v, 0 <= v < 1024 -> 0 <= declet_dec v < 1000.
Proof.
  assert (H : forallb (fun v => (0 <=? declet_dec v) && (declet_dec v <? 1000)) (range 1024) = true) by (vm_compute; reflexivity).
  intros v Hv. rewrite forallb_forall in H. specialize (H v (in_range 1024 v Hv)).
  apply andb_prop in H. destruct H as [H1 H2]. apply Z.leb_le in H1. apply Z.ltb_lt in H2. lia.
Qed.
(* the 24 non-canonical declets *)
Definition noncanon := filter (fun v => negb (declet_enc (declet_dec v) =? v)) (range 1024).
Eval vm_compute in (length noncanon).
Print Assumptions declet_roundtrip.
