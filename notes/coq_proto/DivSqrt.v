(* Feasibility prototype: division and square root of finite non-zero data via Flocq's Fdiv / Fsqrt. *)
From Coq Require Import ZArith Reals Lia Lra Bool Psatz.
From Flocq Require Import Core.Core Calc.Bracket Calc.Round Calc.Div Calc.Sqrt.
From Exp Require Import RPack RPackProofs.
Open Scope Z_scope.

Definition div_fin (md:rmode) (sx:bool) (cx qx:Z) (sy:bool) (cy qy:Z) (zs:bool) : dec * flags :=
  let '(m, e, l) := Fdiv fexp (Float radix10 cx qx) (Float radix10 cy qy) in
  round_pack md (xorb sx sy) m e l (qx - qy) zs.

Lemma inbetween_nonneg m e x l : (0 < x)%R -> inbetween_float radix10 m e x l -> 0 <= m.
Proof.
  intros Hx H. destruct (inbetween_float_bounds _ _ _ _ _ H) as [_ B2].
  assert (0 < F2R (Float radix10 (m + 1) e))%R by lra. apply gt_0_F2R in H0. simpl in H0. lia.
Qed.

Theorem div_fin_correct md sx cx qx sy cy qy zs :
  0 < cx -> 0 < cy ->
  let x := (D2R (Fin sx cx qx) / D2R (Fin sy cy qy))%R in
  let '(d, fl) := div_fin md sx cx qx sy cy qy zs in
  ieee_result md x (qx - qy) zs d fl.
Proof.
  intros Hcx Hcy x. unfold div_fin.
  assert (PX : (0 < F2R (Float radix10 cx qx))%R) by (apply F2R_gt_0; exact Hcx).
  assert (PY : (0 < F2R (Float radix10 cy qy))%R) by (apply F2R_gt_0; exact Hcy).
  generalize (Fdiv_correct fexp (Float radix10 cx qx) (Float radix10 cy qy) PX PY).
  destruct (Fdiv fexp (Float radix10 cx qx) (Float radix10 cy qy)) as [[m e] l].
  set (Q := (F2R (Float radix10 cx qx) / F2R (Float radix10 cy qy))%R).
  intros [He Hin].
  assert (PQ : (0 < Q)%R) by (unfold Q; apply Rdiv_lt_0_compat; assumption).
  assert (Hx : x = (if xorb sx sy then - Q else Q)%R).
  { unfold x, D2R, Q. rewrite !F2R_cond_Zopp. destruct sx, sy; simpl; field; lra. }
  assert (Habs : Rabs x = Q) by (rewrite Hx; destruct (xorb sx sy); [rewrite Rabs_Ropp|]; apply Rabs_pos_eq; lra).
  apply round_pack_correct.
  - exact (inbetween_nonneg m e Q l PQ Hin).
  - rewrite Habs. exact Hin.
  - intros _. rewrite Hx. destruct (xorb sx sy); symmetry; [apply Rlt_bool_true| apply Rlt_bool_false]; lra.
  - left. rewrite <- (cexp_inbetween_float radix10 fexp Q m e l PQ Hin (or_introl He)). exact He.
Qed.
Print Assumptions div_fin_correct.

Definition sqrt_fin (md:rmode) (cx qx:Z) (zs:bool) : dec * flags :=
  let '(m, e, l) := Fsqrt fexp (Float radix10 cx qx) in
  round_pack md false m e l (Z.div2 qx) zs.

Theorem sqrt_fin_correct md cx qx zs :
  0 < cx ->
  let x := sqrt (D2R (Fin false cx qx)) in
  let '(d, fl) := sqrt_fin md cx qx zs in
  ieee_result md x (Z.div2 qx) zs d fl.
Proof.
  intros Hcx x. unfold sqrt_fin.
  assert (PX : (0 < F2R (Float radix10 cx qx))%R) by (apply F2R_gt_0; exact Hcx).
  generalize (Fsqrt_correct fexp (Float radix10 cx qx) PX).
  destruct (Fsqrt fexp (Float radix10 cx qx)) as [[m e] l]. intros [He Hin].
  assert (Hx : x = sqrt (F2R (Float radix10 cx qx))) by reflexivity.
  assert (PQ : (0 < x)%R) by (rewrite Hx; apply sqrt_lt_R0; exact PX).
  apply round_pack_correct.
  - apply (inbetween_nonneg m e x l PQ). rewrite Hx. exact Hin.
  - rewrite Rabs_pos_eq by lra. rewrite Hx. exact Hin.
  - intros _. symmetry. apply Rlt_bool_false. lra.
  - left. rewrite <- Hx in Hin, He. rewrite <- (cexp_inbetween_float radix10 fexp x m e l PQ Hin (or_introl He)). exact He.
Qed.
Print Assumptions sqrt_fin_correct.
Eval vm_compute in div_fin RNE false 1 0 false 3 0 false.
Eval vm_compute in div_fin RNE false 6000 2 false 3 0 false.
Eval vm_compute in sqrt_fin RNE 2 0 false.
Eval vm_compute in sqrt_fin RNE 400 (-2) false.
