(* Feasibility prototype: the deep-underflow shortcut. A non-zero magnitude below 10^-6177 may be
   handed to round_pack as the triple (0, -6176, Inexact Lt): it is just another valid location of x. *)
From Coq Require Import ZArith Reals Lia Lra Bool Psatz.
From Flocq Require Import Core.Core Calc.Bracket Calc.Round.
From Exp Require Import RPack RPackProofs.
Open Scope Z_scope.

Definition shortcut (c e:Z) (l:location) : Z * Z * location :=
  if (Zdigits radix10 c + e <=? -6177) && negb ((c =? 0) && is_exact l)
  then (0, -6176, loc_Inexact Lt) else (c, e, l).

Lemma shortcut_ok c e x l : 0 <= c -> inbetween_float radix10 c e (Rabs x) l ->
  (e <= fexp (Zdigits radix10 c + e) \/ l = loc_Exact) ->
  let '(c', e', l') := shortcut c e l in
  0 <= c' /\ inbetween_float radix10 c' e' (Rabs x) l' /\ (e' <= fexp (Zdigits radix10 c' + e') \/ l' = loc_Exact).
Proof.
  intros Hc Hin H2. unfold shortcut.
  destruct ((Zdigits radix10 c + e <=? -6177) && negb ((c =? 0) && is_exact l)) eqn:Hb; [|now repeat split].
  apply andb_prop in Hb. destruct Hb as [Hb1 Hb2]. apply Z.leb_le in Hb1.
  assert (Hx : x <> 0%R).
  { intros Hx0. destruct (inbetween_zero c e x l Hc Hin Hx0) as [E1 E2]. subst c l. discriminate. }
  assert (Hpos : (0 < Rabs x)%R) by now apply Rabs_pos_lt.
  (* |x| < 10^(digits c + e) <= 10^-6177 *)
  assert (Hsmall : (Rabs x < bpow radix10 (-6177))%R).
  { destruct (inbetween_float_bounds _ _ _ _ _ Hin) as [_ B2].
    apply Rlt_le_trans with (1 := B2).
    destruct (Z.eq_dec c 0) as [E|E].
    - subst c. change (Zdigits radix10 0) with 0 in Hb1. replace (0 + 1) with 1 by ring.
      rewrite F2R_bpow. apply bpow_le. lia.
    - assert (Hd := Zdigits_correct radix10 c). rewrite Z.abs_eq in Hd by lia. change (radix_val radix10) with 10 in Hd.
      assert (0 < Zdigits radix10 c) by (apply Zdigits_gt_0; exact E).
      apply Rle_trans with (F2R (Float radix10 (10 ^ Zdigits radix10 c) e)).
      apply F2R_le. cbn [Fnum]. lia.
      rewrite F2R_pow10 by lia. apply bpow_le. lia. }
  split; [lia|]. split.
  - unfold inbetween_float. rewrite F2R_0. replace (0 + 1) with 1 by ring. rewrite F2R_bpow.
    assert (Hu : bpow radix10 (-6176) = (10 * bpow radix10 (-6177))%R).
    { replace (-6176) with (1 + -6177) by ring. rewrite bpow_plus. reflexivity. }
    assert (0 < bpow radix10 (-6177))%R by apply bpow_gt_0.
    constructor. rewrite Hu. lra. apply Rcompare_Lt. rewrite Hu. lra.
  - left. reflexivity.
Qed.
Print Assumptions shortcut_ok.
