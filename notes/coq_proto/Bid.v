(* Feasibility prototype: BID decimal128 decode/encode over all 2^128 patterns, by field arithmetic. *)
From Coq Require Import ZArith Lia Bool.
Open Scope Z_scope.
Ltac Zify.zify_post_hook ::= Z.div_mod_to_equations.

Inductive dec := Fin (s:bool) (c q:Z) | Inf (s:bool) | NaN (s sg:bool) (p:Z).

Definition T34 := 10000000000000000000000000000000000.      (* 10^34 *)
Definition T33 := 1000000000000000000000000000000000.       (* 10^33 *)
Definition P110 := 1298074214633706907132624082305024.      (* 2^110 *)
Definition P111 := 2596148429267413814265248164610048.      (* 2^111 *)
Definition P113 := 10384593717069655257060992658440192.     (* 2^113 *)
Definition P121 := 2658455991569831745807614120560689152.   (* 2^121 *)
Definition P122 := 5316911983139663491615228241121378304.   (* 2^122 *)
Definition P123 := 10633823966279326983230456482242756608.  (* 2^123 *)
Definition P125 := 42535295865117307932921825928971026432.  (* 2^125 *)
Definition P127 := 170141183460469231731687303715884105728. (* 2^127 *)
Definition P128 := 340282366920938463463374607431768211456. (* 2^128 *)
Lemma consts_ok : T34 = 10^34 /\ T33 = 10^33 /\ P110 = 2^110 /\ P111 = 2^111 /\ P113 = 2^113 /\ P121 = 2^121 /\ P122 = 2^122 /\ P123 = 2^123 /\ P125 = 2^125 /\ P127 = 2^127 /\ P128 = 2^128.
Proof. repeat split; reflexivity. Qed.

Definition wf (d:dec) : Prop :=
  match d with
  | Fin _ c q => 0 <= c < T34 /\ -6176 <= q <= 6111
  | Inf _ => True
  | NaN _ _ p => 0 <= p < T33
  end.

(* fields: sign = bit 127; G = bits 122..126 (5 bits); *)
Definition decode (b:Z) : dec :=
  let s := P127 <=? b in
  let r := b mod P127 in                 (* low 127 bits *)
  let g5 := r / P122 in                  (* top five bits of the combination field *)
  if g5 =? 31 then
    let p := r mod P110 in NaN s (1 <=? (r / P121) mod 2) (if p <? T33 then p else 0)
  else if g5 =? 30 then Inf s
  else if 24 <=? g5 then                 (* G0G1 = 11: large-coefficient form, value zero *)
    Fin s 0 ((r / P111) mod 16384 - 6176)
  else
    let c := r mod P113 in Fin s (if c <? T34 then c else 0) (r / P113 - 6176).

Definition encode (d:dec) : Z :=
  match d with
  | Fin s c q => (if s then P127 else 0) + (q + 6176) * P113 + c
  | Inf s => (if s then P127 else 0) + 30 * P122
  | NaN s sg p => (if s then P127 else 0) + 31 * P122 + (if sg then P121 else 0) + p
  end.

Definition canonical (b:Z) : Prop := 0 <= b < P128 /\ encode (decode b) = b.

Theorem decode_wf b : 0 <= b < P128 -> wf (decode b).
Proof.
  intros Hb. unfold decode, wf, T34, T33, P110, P111, P113, P121, P122, P127, P128 in *.
  destruct (_ =? 31) eqn:E31.
  - destruct (_ <? _) eqn:Ep. apply Z.ltb_lt in Ep. lia. lia.
  - destruct (_ =? 30) eqn:E30; [exact I|].
    destruct (24 <=? _) eqn:E24.
    + lia.
    + apply Z.leb_gt in E24. apply Z.eqb_neq in E30, E31.
      destruct (_ <? _) eqn:Ec; [apply Z.ltb_lt in Ec|]; lia.
Qed.

Theorem decode_encode d : wf d -> decode (encode d) = d.
Proof.
  destruct d as [s c q|s|s sg p]; unfold wf, encode, decode, T34, T33, P110, P111, P113, P121, P122, P127, P128; intros H.
  - (* finite *)
    assert (Hs : (170141183460469231731687303715884105728 <=? (if s then 170141183460469231731687303715884105728 else 0) + (q + 6176) * 10384593717069655257060992658440192 + c) = s).
    { destruct s; [apply Z.leb_le| apply Z.leb_gt]; lia. }
    rewrite Hs.
    set (b := (if s then 170141183460469231731687303715884105728 else 0) + (q + 6176) * 10384593717069655257060992658440192 + c).
    assert (Hr : b mod 170141183460469231731687303715884105728 = (q + 6176) * 10384593717069655257060992658440192 + c).
    { unfold b. destruct s; lia. }
    rewrite Hr.
    assert (Hg : ((q + 6176) * 10384593717069655257060992658440192 + c) / 5316911983139663491615228241121378304 < 24) by lia.
    destruct (_ =? 31) eqn:E31; [apply Z.eqb_eq in E31; lia|].
    destruct (_ =? 30) eqn:E30; [apply Z.eqb_eq in E30; lia|].
    destruct (24 <=? _) eqn:E24; [apply Z.leb_le in E24; lia|].
    assert (Hc : ((q + 6176) * 10384593717069655257060992658440192 + c) mod 10384593717069655257060992658440192 = c) by lia.
    assert (Hq : ((q + 6176) * 10384593717069655257060992658440192 + c) / 10384593717069655257060992658440192 = q + 6176) by lia.
    rewrite Hc, Hq. destruct (c <? _) eqn:Ec; [|apply Z.ltb_ge in Ec; lia].
    f_equal. lia.
  - (* infinity *)
    destruct s; reflexivity.
  - (* NaN *)
    assert (Hs : (170141183460469231731687303715884105728 <=? (if s then 170141183460469231731687303715884105728 else 0) + 31 * 5316911983139663491615228241121378304 + (if sg then 2658455991569831745807614120560689152 else 0) + p) = s).
    { destruct s, sg; [apply Z.leb_le|apply Z.leb_le|apply Z.leb_gt|apply Z.leb_gt]; lia. }
    rewrite Hs.
    set (r0 := 31 * 5316911983139663491615228241121378304 + (if sg then 2658455991569831745807614120560689152 else 0) + p).
    assert (Hr : ((if s then 170141183460469231731687303715884105728 else 0) + 31 * 5316911983139663491615228241121378304 + (if sg then 2658455991569831745807614120560689152 else 0) + p) mod 170141183460469231731687303715884105728 = r0).
    { unfold r0. destruct s, sg; lia. }
    rewrite Hr.
    assert (Hg : r0 / 5316911983139663491615228241121378304 = 31) by (unfold r0; destruct sg; lia).
    rewrite Hg. cbn [Z.eqb Pos.eqb].
    assert (Hp : r0 mod 1298074214633706907132624082305024 = p) by (unfold r0; destruct sg; lia).
    assert (Hsg : (1 <=? (r0 / 2658455991569831745807614120560689152) mod 2) = sg).
    { unfold r0. destruct sg; [apply Z.leb_le| apply Z.leb_gt]; lia. }
    rewrite Hp, Hsg. destruct (p <? _) eqn:Ep; [reflexivity| apply Z.ltb_ge in Ep; lia].
Qed.
