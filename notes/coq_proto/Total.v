(* Feasibility prototype: IEEE totalOrder on data as a lexicographic integer key; order axioms. *)
From Coq Require Import ZArith Lia Bool.
From Exp Require Import Bid.
Open Scope Z_scope.

(* magnitude key of a non-negative-signed datum: (class, value, tie) *)
Definition mkey (d:dec) : Z * Z * Z :=
  match d with
  | Fin _ c q => if c =? 0 then (0, q, 0) else (1, c * 10 ^ (q + 6176), q)
  | Inf _ => (2, 0, 0)
  | NaN _ sg p => (3, (if sg then 0 else 1), p)
  end.
Definition sign_of d := match d with Fin s _ _ | Inf s | NaN s _ _ => s end.
Definition lex_le (a b : Z*Z*Z) : Prop :=
  let '(a1,a2,a3) := a in let '(b1,b2,b3) := b in
  a1 < b1 \/ (a1 = b1 /\ (a2 < b2 \/ (a2 = b2 /\ a3 <= b3))).
Definition total_le (x y:dec) : Prop :=
  match sign_of x, sign_of y with
  | true, false => True
  | false, true => False
  | false, false => lex_le (mkey x) (mkey y)
  | true, true => lex_le (mkey y) (mkey x)
  end.

Lemma lex_refl a : lex_le a a.  Proof. destruct a as [[? ?] ?]; simpl; lia. Qed.
Lemma lex_trans a b c : lex_le a b -> lex_le b c -> lex_le a c.
Proof. destruct a as [[? ?] ?], b as [[? ?] ?], c as [[? ?] ?]; simpl; lia. Qed.
Lemma lex_total a b : lex_le a b \/ lex_le b a.
Proof. destruct a as [[? ?] ?], b as [[? ?] ?]; simpl; lia. Qed.
Lemma lex_antisym a b : lex_le a b -> lex_le b a -> a = b.
Proof. destruct a as [[a1 a2] a3], b as [[b1 b2] b3]; simpl; intros; f_equal; [f_equal|]; lia. Qed.

Theorem total_le_refl x : total_le x x.
Proof. unfold total_le. destruct (sign_of x); apply lex_refl. Qed.
Theorem total_le_trans x y z : total_le x y -> total_le y z -> total_le x z.
Proof. unfold total_le. destruct (sign_of x), (sign_of y), (sign_of z); try tauto; eauto using lex_trans. Qed.
Theorem total_le_total x y : total_le x y \/ total_le y x.
Proof. unfold total_le. destruct (sign_of x), (sign_of y); try tauto; apply lex_total. Qed.

(* the key is injective on well-formed data of one sign: antisymmetry gives the same datum *)
Lemma pow_pos k : 0 < 10 ^ k \/ k < 0. Proof. destruct (Z_lt_le_dec k 0); [right; lia| left; apply Z.pow_pos_nonneg; lia]. Qed.
Lemma mkey_inj x y : wf x -> wf y -> sign_of x = sign_of y -> mkey x = mkey y -> x = y.
Proof.
  destruct x as [s c q|s|s sg p], y as [s' c' q'|s'|s' sg' p']; simpl; intros Wx Wy Hs H; subst; try discriminate;
    try (destruct (c =? 0); discriminate); try (destruct (c' =? 0); discriminate); try reflexivity.
  - destruct (Z.eqb_spec c 0), (Z.eqb_spec c' 0); inversion H; subst; try reflexivity.
    + f_equal. destruct (pow_pos (q' + 6176)) as [P|P]; [|unfold T34 in *; lia]. nia.
  - inversion H as [[H1 H2]]. assert (sg = sg') by (destruct sg, sg'; (reflexivity || discriminate)). subst. reflexivity.
Qed.
Theorem total_le_antisym x y : wf x -> wf y -> total_le x y -> total_le y x -> x = y.
Proof.
  intros Wx Wy. unfold total_le. destruct (sign_of x) eqn:Sx, (sign_of y) eqn:Sy; try tauto; intros H1 H2;
  apply mkey_inj; auto; try congruence; apply lex_antisym; assumption.
Qed.
Print Assumptions total_le_antisym.
