(* Feasibility: bit-level m_add evaluated inside Coq on cases produced by the real crate's runner. *)
From Coq Require Import ZArith Bool List.
From Flocq Require Import Core.Core Calc.Bracket Calc.Round.
From Exp Require Import RPack Add.
Import ListNotations. Open Scope Z_scope.

Definition T34 := 10000000000000000000000000000000000. Definition T33 := 1000000000000000000000000000000000.
Definition P110 := 2^110. Definition P111 := 2^111. Definition P113 := 2^113. Definition P121 := 2^121.
Definition P122 := 2^122. Definition P127 := 2^127.
Definition decode (b:Z) : dec :=
  let s := P127 <=? b in let r := b mod P127 in let g5 := r / P122 in
  if g5 =? 31 then let p := r mod P110 in NaN s (1 <=? (r / P121) mod 2) (if p <? T33 then p else 0)
  else if g5 =? 30 then Inf s
  else if 24 <=? g5 then Fin s 0 ((r / P111) mod 16384 - 6176)
  else let c := r mod P113 in Fin s (if c <? T34 then c else 0) (r / P113 - 6176).
Definition encode (d:dec) : Z :=
  match d with
  | Fin s c q => (if s then P127 else 0) + (q + 6176) * P113 + c
  | Inf s => (if s then P127 else 0) + 30 * P122
  | NaN s sg p => (if s then P127 else 0) + 31 * P122 + (if sg then P121 else 0) + p
  end.
Definition flbits (f:flags) : Z := (if f_inexact f then 32 else 0) + (if f_underflow f then 16 else 0) + (if f_overflow f then 8 else 0).
Definition md_of (m:Z) : rmode := match m with 0 => RNE | 1 => RDN | 2 => RUP | 3 => RTZ | _ => RNA end.
Definition QNAN := NaN false false 0.

Definition m_add (m:Z) (x y:Z) : Z * Z :=
  let md := md_of m in
  match decode x, decode y with
  | NaN s sg p, other => (encode (NaN s false p), if sg || (match other with NaN _ true _ => true | _ => false end) then 1 else 0)
  | _, NaN s sg p => (encode (NaN s false p), if sg then 1 else 0)
  | Inf s, Inf s' => if Bool.eqb s s' then (encode (Inf s), 0) else (encode QNAN, 1)
  | Inf s, _ => (encode (Inf s), 0)
  | _, Inf s => (encode (Inf s), 0)
  | Fin sx cx qx, Fin sy cy qy =>
     let '(d, fl) :=
       if (cx =? 0) && (cy =? 0) then add_fin md sx cx qx sy cy qy
       else if cx =? 0 then round_pack md sy cy qy loc_Exact (Z.min qx qy) false
       else if cy =? 0 then round_pack md sx cx qx loc_Exact (Z.min qx qy) false
       else if Z.abs (qx - qy) <=? 80 then add_fin md sx cx qx sy cy qy
       else if qy <? qx then add_far md sx cx qx sy qy false else add_far md sy cy qy sx qx false in
     (encode d, flbits fl)
  end.
