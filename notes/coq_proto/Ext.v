From Coq Require Import ZArith.
From Flocq Require Import Core.Core Calc.Bracket Calc.Round Calc.Div Calc.Sqrt.
From Exp Require Import RPack.
Require Import Extraction ExtrOcamlBasic.
Definition bench (n:Z) (e:Z) : Z :=
  Z.iter n (fun acc => match round_pack RNE false (123456789012345678901234567890123456789 + acc) e loc_Exact e false with
                       | (Fin _ c _, _) => acc + c mod 7 | _ => acc end) 0.
Definition fdiv10 := @Fdiv radix10 fexp. Definition fsqrt10 := @Fsqrt radix10 fexp.
Extraction "rp_ml.ml" round_pack bench fdiv10 fsqrt10.
