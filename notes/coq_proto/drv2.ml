open Rp_ml
let rec pos_of_int n = if n = 1 then XH else if n land 1 = 0 then XO (pos_of_int (n lsr 1)) else XI (pos_of_int (n lsr 1))
let z_of_int n = if n = 0 then Z0 else if n > 0 then Zpos (pos_of_int n) else Zneg (pos_of_int (-n))
let time name f = let t = Unix.gettimeofday () in ignore (f ()); Printf.printf "%s: %.3fs\n%!" name (Unix.gettimeofday () -. t)
let () =
  time "10000 round_pack e=-10" (fun () -> bench (z_of_int 10000) (z_of_int (-10)));
  time "100 round_pack e=-6200 (just below bottom)" (fun () -> bench (z_of_int 100) (z_of_int (-6200)));
  time "20 round_pack e=-9000" (fun () -> bench (z_of_int 20) (z_of_int (-9000)));
  time "20 round_pack e=-12400" (fun () -> bench (z_of_int 20) (z_of_int (-12400)));
  time "100 round_pack e=6000" (fun () -> bench (z_of_int 100) (z_of_int 6000))
