(* Feasibility prototype: exact-path addition on decoded data, on top of round_pack_correct. *)
From Coq Require Import ZArith Reals Lia Lra Bool Psatz.
From Flocq Require Import Core.Core Calc.Bracket Calc.Round.
From Exp Require Import RPack RPackProofs.
Open Scope Z_scope.

(* signed integer value at a common exponent *)
Definition sval (s:bool) (c:Z) : Z := cond_Zopp s c.

(* sign of an exact zero sum (IEEE 754-2008 6.3) *)
Definition zs_add (md:rmode) (sx sy:bool) : bool :=
  if Bool.eqb sx sy then sx else match md with RDN => true | _ => false end.

(* exact path: both operands brought to the smaller exponent *)
Definition add_fin (md:rmode) (sx:bool) (cx qx:Z) (sy:bool) (cy qy:Z) : dec * flags :=
  let q := Z.min qx qy in
  let v := sval sx cx * 10 ^ (qx - q) + sval sy cy * 10 ^ (qy - q) in
  round_pack md (v <? 0) (Z.abs v) q loc_Exact q (zs_add md sx sy).

Lemma D2R_at_min s c q q0 : q0 <= q -> D2R (Fin s c q) = F2R (Float radix10 (sval s c * 10 ^ (q - q0)) q0).
Proof.
  intros H. unfold D2R, sval. rewrite (F2R_scale (cond_Zopp s c) q (q - q0)) by lia.
  replace (q - (q - q0)) with q0 by ring. reflexivity.
Qed.

Theorem add_fin_correct md sx cx qx sy cy qy :
  let x := (D2R (Fin sx cx qx) + D2R (Fin sy cy qy))%R in
  let '(d, fl) := add_fin md sx cx qx sy cy qy in
  ieee_result md x (Z.min qx qy) (zs_add md sx sy) d fl.
Proof.
  intros x. unfold add_fin.
  set (q := Z.min qx qy). set (v := sval sx cx * 10 ^ (qx - q) + sval sy cy * 10 ^ (qy - q)).
  assert (Hx : x = F2R (Float radix10 v q)).
  { unfold x. rewrite (D2R_at_min sx cx qx q), (D2R_at_min sy cy qy q) by (unfold q; lia).
    unfold v, F2R; cbn [Fnum Fexp]. rewrite plus_IZR. ring. }
  apply round_pack_correct.
  - apply Z.abs_nonneg.
  - rewrite Hx, <- F2R_Zabs. constructor. reflexivity.
  - intros Hnz. rewrite Hx. destruct (Z.ltb_spec v 0) as [L|G].
    + symmetry. apply Rlt_bool_true. apply F2R_lt_0. exact L.
    + symmetry. apply Rlt_bool_false. apply F2R_ge_0. exact G.
  - right. reflexivity.
Qed.
Print Assumptions add_fin_correct.

(* ---------- far-apart operands: the small one only leaves a sticky trace ---------- *)
Definition add_far (md:rmode) (sx:bool) (cx qx:Z) (sy:bool) (qy:Z) (zs:bool) : dec * flags :=
  let e' := qx - 40 in let C := cx * 10 ^ 40 in
  if Bool.eqb sx sy then round_pack md sx C e' (loc_Inexact Lt) (Z.min qx qy) zs
  else round_pack md sx (C - 1) e' (loc_Inexact Gt) (Z.min qx qy) zs.

Lemma F2R_abs_lt_pow c q k : 0 <= k -> Z.abs c < 10 ^ k -> (Rabs (F2R (Float radix10 c q)) < bpow radix10 (k + q))%R.
Proof.
  intros Hk H. replace (k + q) with (k + q - q + q) by ring. apply F2R_lt_bpow. cbn [Fnum Fexp].
  replace (k + q - q + q - q) with k by ring. exact H.
Qed.

Lemma sign_abs_lemma (sx sy : bool) (aX aY u : R) :
  (0 < u)%R -> (u <= aX)%R -> (0 < aY < u / 2)%R ->
  let X := (if sx then - aX else aX)%R in let Y := (if sy then - aY else aY)%R in
  Rlt_bool (X + Y) 0 = sx /\ (X + Y <> 0)%R /\
  Rabs (X + Y) = (if Bool.eqb sx sy then aX + aY else aX - aY)%R.
Proof.
  intros Hu Hbig [HY0 HY1] X Y. unfold X, Y.
  destruct sx, sy; cbn [Bool.eqb];
    (split; [first [apply Rlt_bool_true; lra | apply Rlt_bool_false; lra]|]);
    (split; [lra|]);
    first [rewrite Rabs_left by lra; lra | rewrite Rabs_pos_eq by lra; lra].
Qed.

Theorem add_far_correct md sx cx qx sy cy qy zs :
  0 < cx -> 0 < cy < 10 ^ 34 -> qy + 80 < qx ->
  let x := (D2R (Fin sx cx qx) + D2R (Fin sy cy qy))%R in
  let '(d, fl) := add_far md sx cx qx sy qy zs in
  ieee_result md x (Z.min qx qy) zs d fl.
Proof.
  intros Hcx Hcy Hgap x. unfold add_far.
  set (e' := qx - 40). set (C := cx * 10 ^ 40).
  set (X := D2R (Fin sx cx qx)). set (Y := D2R (Fin sy cy qy)).
  assert (H40 : 0 < 10 ^ 40) by (apply Z.pow_pos_nonneg; lia).
  assert (HC : 0 < C) by (unfold C; nia).
  (* X = +-C * 10^e' *)
  assert (HX : X = F2R (Float radix10 (cond_Zopp sx C) e')).
  { unfold X, D2R, C, e'. rewrite (F2R_scale (cond_Zopp sx cx) qx 40) by lia.
    f_equal. f_equal. destruct sx; simpl; ring. }
  assert (HXabs : Rabs X = F2R (Float radix10 C e')) by (rewrite HX; apply abs_signed; lia).
  set (u := bpow radix10 e').
  assert (Hu : (0 < u)%R) by apply bpow_gt_0.
  (* |Y| is tiny compared with one unit at e' *)
  assert (HYabs : (0 < Rabs Y < u / 2)%R).
  { split.
    - apply Rabs_pos_lt. unfold Y, D2R. apply F2R_neq_0. cbn [Fnum]. destruct sy; simpl; lia.
    - apply Rlt_le_trans with (bpow radix10 (34 + qy)).
      + unfold Y, D2R. apply F2R_abs_lt_pow. lia. destruct sy; simpl; rewrite ?Z.abs_opp; rewrite Z.abs_eq; lia.
      + apply Rle_trans with (bpow radix10 (e' - 1)). apply bpow_le. unfold e'. lia.
        unfold u. replace e' with (e' - 1 + 1) at 2 by ring. rewrite bpow_plus. simpl bpow at 2.
        assert (0 < bpow radix10 (e' - 1))%R by apply bpow_gt_0. simpl. lra. }
  assert (Hd : F2R (Float radix10 C e') = (IZR C * u)%R) by reflexivity.
  assert (Hd1 : F2R (Float radix10 (C + 1) e') = (IZR C * u + u)%R).
  { unfold F2R, u; cbn [Fnum Fexp]. rewrite plus_IZR. simpl. ring. }
  assert (Hdm : F2R (Float radix10 (C - 1) e') = (IZR C * u - u)%R).
  { unfold F2R, u; cbn [Fnum Fexp]. rewrite minus_IZR. simpl. ring. }
  assert (HC1 : (1 <= IZR C)%R) by (apply IZR_le; lia).
  (* the sign of x is the sign of X, and |x| = |X| +- |Y| *)
  assert (EX : X = (if sx then - Rabs X else Rabs X)%R).
  { rewrite HXabs. rewrite HX at 1. rewrite F2R_cond_Zopp. destruct sx; reflexivity. }
  assert (EY : Y = (if sy then - Rabs Y else Rabs Y)%R).
  { unfold Y, D2R. rewrite F2R_cond_Zopp.
    assert (0 <= F2R (Float radix10 cy qy))%R by (apply F2R_ge_0; simpl; lia).
    destruct sy; cbn [cond_Ropp]; [rewrite Rabs_Ropp|]; rewrite Rabs_pos_eq by assumption; reflexivity. }
  assert (Hbig : (u <= Rabs X)%R) by (rewrite HXabs, Hd; nra).
  assert (Hxeq : x = ((if sx then - Rabs X else Rabs X) + (if sy then - Rabs Y else Rabs Y))%R).
  { unfold x. fold X Y. rewrite <- EX, <- EY. reflexivity. }
  generalize (sign_abs_lemma sx sy (Rabs X) (Rabs Y) u Hu Hbig HYabs). cbv zeta. rewrite <- Hxeq.
  intros Hsign.
  destruct (Bool.eqb sx sy) eqn:Hb.
  - destruct Hsign as (S1 & S2 & S3).
    apply round_pack_correct.
    + lia.
    + rewrite S3. unfold inbetween_float. constructor.
      * rewrite Hd, Hd1, HXabs, Hd. lra.
      * apply Rcompare_Lt. rewrite Hd, Hd1, HXabs, Hd. lra.
    + intros _. now rewrite S1.
    + left. unfold C. change (10 ^ 40) with (Zpower radix10 40). rewrite Zdigits_mult_Zpower by lia.
      assert (0 < Zdigits radix10 cx) by (apply Zdigits_gt_0; lia).
      unfold fexp, FLT_exp, prec, qmin, e' in *. lia.
  - destruct Hsign as (S1 & S2 & S3).
    apply round_pack_correct.
    + lia.
    + rewrite S3. unfold inbetween_float. replace (C - 1 + 1) with C by ring. constructor.
      * rewrite Hd, Hdm, HXabs, Hd. lra.
      * apply Rcompare_Gt. rewrite Hd, Hdm, HXabs, Hd. lra.
    + intros _. now rewrite S1.
    + left.
      assert (Hdig : Zdigits radix10 (C - 1) >= 40).
      { assert (10 ^ 39 <= C - 1). { unfold C. assert (10 ^ 40 = 10 * 10 ^ 39) by reflexivity. nia. }
        assert (39 < Zdigits radix10 (C - 1)); [|lia]. apply (Zdigits_gt_Zpower radix10). rewrite Z.abs_eq by lia. exact H. }
      unfold fexp, FLT_exp, prec, qmin, e' in *. lia.
Qed.
Print Assumptions add_far_correct.
