From Coq Require Import ZArith NArith String Ascii Decimal DecimalString DecimalN DecimalZ Lia.
Open Scope Z_scope.
(* digits of a non-negative coefficient as a string, and back *)
Definition fmt_nat (c:Z) : string := NilEmpty.string_of_uint (N.to_uint (Z.to_N c)).
Definition parse_nat (s:string) : option Z :=
  match NilEmpty.uint_of_string s with Some d => Some (Z.of_N (N.of_uint d)) | None => None end.
Theorem parse_fmt_nat c : 0 <= c -> parse_nat (fmt_nat c) = Some c.
Proof.
  intros Hc. unfold parse_nat, fmt_nat. rewrite NilEmpty.usu.
  rewrite DecimalN.Unsigned.of_to. now rewrite Z2N.id.
Qed.
Print Assumptions parse_fmt_nat.
Eval vm_compute in fmt_nat 9999999999999999999999999999999999.
Eval vm_compute in fmt_nat 0.
