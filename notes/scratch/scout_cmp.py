import sys,collections,random
from gen import *
rng=random.Random(int(sys.argv[1])); N=int(sys.argv[2])
names="qeq qgt qge qgu qlt qle qlu qne qng qnl qord qun sgt sge sgu slt sle slu sng snl".split()
tt={ # truth per relation '<','=','>','U'
 'qeq':'=', 'qgt':'>', 'qge':'>=', 'qgu':'>U', 'qlt':'<', 'qle':'<=', 'qlu':'<U', 'qne':'<>U', 'qng':'<=U','qnl':'>=U','qord':'<=>','qun':'U',
 'sgt':'>','sge':'>=','sgu':'>U','slt':'<','sle':'<=','slu':'<U','sng':'<=U','snl':'>=U'}
pairs=[pair(rng) for _ in range(N)]
out=run([f"cmp 0 00 {x:032x} {y:032x}" for x,y in pairs])
out2=run([f"ops 0 00 {x:032x} {y:032x}" for x,y in pairs])
out3=run([f"totalorder 0 00 {x:032x} {y:032x}" for x,y in pairs])
bad=collections.Counter()
def tkey(d):
    if d[0]=='nan': k=(3,0 if d[2] else 1,d[3])   # positive order: sNaN < qNaN, smaller payload first
    elif d[0]=='inf': k=(2,0,0)
    elif d[2]==0: k=(0,d[3],0)
    else: k=(1,d[2]*10**(d[3]-QMIN),d[3])
    return k if d[1]==0 else tuple(-v for v in k)
def tle(dx,dy):
    if dx[1]!=dy[1]: return dx[1]==1
    return tkey(dx)<=tkey(dy)
for (x,y),l,l2,l3 in zip(pairs,out,out2,out3):
    dx,dy=decode(x),decode(y); rel=cmp4(dx,dy)
    mask,fl,_=l.split(); mask=int(mask,16); fl=int(fl,16)
    anys=any(d[0]=='nan' and d[2] for d in (dx,dy)); anyn=rel=='U'
    for i,n in enumerate(names):
        exp=rel in tt[n]; got=bool(mask>>i&1); f=(fl>>(6*i))&0x3f
        expf = INV if (anys or (n[0]=='s' and anyn)) else 0
        if exp!=got: bad[(n,'val',rel)]+=1; 
        if f!=expf: bad[(n,'flag',rel,hex(f))]+=1
        if (exp!=got or f!=expf) and bad[(n,)]<2: bad[(n,)]+=1; print('MISMATCH',n,dx,dy,rel,'got',got,hex(f))
    v=int(l2.split()[0],16)
    eq=v&1; lt=v>>1&1; le=v>>2&1; gt=v>>3&1; ge=v>>4&1; pc=v>>5
    if rel!='U':
        e=(rel=='=',rel=='<',rel in '<=',rel=='>',rel in '>=',{'<':1,'=':2,'>':3}[rel])
        if (bool(eq),bool(lt),bool(le),bool(gt),bool(ge),pc)!=e: bad[('ops',rel)]+=1
    else:
        both=dx[0]=='nan' and dy[0]=='nan'
        e_eq=both
        if bool(eq)!=e_eq: bad[('ops-eq-nan',both)]+=1
        if (le==1)!=(pc in (1,2)) or (ge==1)!=(pc in (2,3)): bad[('ops-le-vs-pcmp-nan',both,le,ge,pc)]+=1
    to=int(l3.split()[0],16)
    if bool(to)!=tle(dx,dy):
        bad[('totalorder',dx[0],dy[0])]+=1
        if bad[('to',)]<6: bad[('to',)]+=1; print('TO-MISMATCH',dx,dy,'got',to)
print(sorted(bad.items(),key=str))
