import sys,collections,random
from gen import *
rng=random.Random(int(sys.argv[1])); N=int(sys.argv[2])
def lit():
    nd=rng.choice([rng.randint(1,34),rng.randint(35,100),rng.randint(95,300)])
    k=rng.random()
    if k<0.4: digs=''.join(rng.choice('0123456789') for _ in range(nd))
    elif k<0.8: digs=''.join(rng.choice('0123456789') for _ in range(34))+rng.choice(['5','4','6'])+'0'*rng.randint(0,max(0,nd-36))+rng.choice(['','1','0'])
    else: digs='9'*nd
    zero = rng.random()<0.1
    if zero: digs='0'*rng.randint(1,40)
    elif digs[0]=='0': digs='1'+digs[1:]
    lead='0'*rng.randint(0,3) if rng.random()<0.3 else ''
    pt=rng.random()
    if pt<0.4: s=lead+digs; fd=0
    else:
        i=rng.randint(0,len(digs)); s=lead+digs[:i]+'.'+digs[i:]; fd=len(digs)-i
    sign=rng.choice(['','+','-'])
    ev=rng.choice([0,rng.randint(-70,70),rng.randint(-7000,7000),rng.choice([-6176,-6143,-6210,6111,6144])+rng.randint(-40,40)])
    pad=rng.choice(['','0','00','000000','0000000000'])
    e='' if ev==0 and rng.random()<0.5 else rng.choice('eE')+rng.choice(['','+'] if ev>=0 else ['-'])+pad+str(abs(ev))
    return sign+s+e,(1 if sign=='-' else 0,int(digs),ev-fd)
cases=[(rng.randint(0,4),)+lit() for _ in range(N)]
out=run([f"parse {m} {rng.choice(['00','20','3f'])} {s}" for m,s,_ in cases])
bad=collections.Counter()
for (m,s,(sg,c,e)),line in zip(cases,out):
    d,fl=round_pack(m,sg,c,1,e,e)
    if line=='PANIC':
        bad['PANIC']+=1
        if bad['PANIC']<3: print('PANIC',m,s[:80])
        continue
    b,f=line.split(); b=int(b,16); f=int(f,16)&~0  
    # incoming flags unknown here; compare only value and that raised superset... recompute: we passed f0 but did not record; skip flags if f0!=0
    if b!=encode(d):
        k=('val',m); bad[k]+=1
        if bad[k]<=2: print('MISMATCH',k,s[:90],'impl',decode(b),hex(f),'ref',d,hex(fl))
# garbage / truncations: expect no panic; NaN for ill-formed
gar=[]
base=[c[1] for c in cases[:3000]]
for s in base:
    k=rng.random()
    if k<0.4: t=s[:rng.randint(0,len(s))]
    elif k<0.6: i=rng.randint(0,len(s)); t=s[:i]+rng.choice(['ñ','€','𝟙','x','-','+','.','e','E','_'])+s[i:]
    elif k<0.8: t=''.join(rng.choice('0123456789.eE+-ñ€ snaNinfINFxyz') for _ in range(rng.randint(0,12))).replace(' ','')
    else: t=rng.choice(['inf','Infinity','+INF','-infinity','nan','NaN','snan','-sNaN','+snan','snanx','sna','infx','+','-','.','e','E5','.e5','+.','1e','1e+','1e-','1.2.3','--1','1e5e5','0x10','１２３','+ñ','-€€','nañ'])
    if t: gar.append(t)
out=run([f"parse {rng.randint(0,4)} 00 {t}" for t in gar])
for t,l in zip(gar,out):
    if l=='PANIC':
        bad['GARBAGE-PANIC']+=1
        if bad['GARBAGE-PANIC']<8: print('GARBAGE PANIC',repr(t))
print(sorted(bad.items(),key=str), len(cases), len(gar))
