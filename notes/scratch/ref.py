# Throwaway scouting reference of IEEE 754-2008 decimal128 (blueprint for the Gallina model).
import sys; sys.set_int_max_str_digits(100000)
from fractions import Fraction as Fr
import math
P=34; QMIN=-6176; QMAX=6111; BIAS=6176; EMIN=-6143
T34=10**34; T33=10**33
INV,DEN,DBZ,OVF,UNF,INX=1,2,4,8,0x10,0x20
NE,DN,UP,TZ,NA=0,1,2,3,4
def decode(b):
    s=(b>>127)&1; hi=b>>64
    g5=(hi>>58)&0x1f
    if g5==0x1f:
        pay=b&((1<<110)-1)
        if pay>=T33: pay=0
        return ('nan',s,bool((hi>>57)&1),pay)
    if g5==0x1e: return ('inf',s)
    if (hi>>61)&3==3: return ('fin',s,0,((hi>>47)&0x3fff)-BIAS)
    c=b&((1<<113)-1); q=((hi>>49)&0x3fff)-BIAS
    if c>=T34: c=0
    return ('fin',s,c,q)
def encode(d):
    if d[0]=='nan': return (d[1]<<127)|((0x7e if d[2] else 0x7c)<<120)|d[3]
    if d[0]=='inf': return (d[1]<<127)|(0x78<<120)
    _,s,c,q=d; assert 0<=c<T34 and QMIN<=q<=QMAX,(d)
    return (s<<127)|((q+BIAS)<<113)|c
QNAN=('nan',0,False,0)
def ndig(c): return len(str(c)) if c>0 else 0
def rnd_int(mode,s,num,den):
    """round nonneg rational num/den to integer by mode with sign s; returns (int, inexact)"""
    q,r=divmod(num,den)
    if r==0: return q,False
    if mode==TZ: up=False
    elif mode==DN: up=bool(s)
    elif mode==UP: up=not s
    else:
        t=2*r-den
        up = t>0 or (t==0 and (mode==NA or q%2==1))
    return q+(1 if up else 0), True
def round_pack(mode,s,num,den,e,pref,zs=None):
    """exact magnitude (num/den)*10^e (num,den ints, den>0), sign s. returns (datum, flags)"""
    if num==0:
        q=min(max(pref,QMIN),QMAX); return ('fin',zs if zs is not None else s,0,q),0
    # find exponent: want 34 digits: value = num/den*10^e
    # integer digits estimate
    n=ndig(num//den) if num>=den else 0
    # choose target exponent qt s.t. coefficient has 34 digits (or clamp to QMIN)
    def coeff_at(qt):
        # value / 10^qt = num*10^(e-qt)/den
        k=e-qt
        if k>=0: return num*10**k, den
        return num, den*10**(-k)
    # magnitude order: find m with 10^(m-1) <= value < 10^m
    # value = num/den * 10^e ; digits of floor(num/den) = n if num>=den
    # compute m robustly
    if num>=den: m=n+e
    else:
        # num/den <1 ; find k s.t. num*10^k >= den
        k=ndig(den)-ndig(num); 
        while num*10**k<den: k+=1
        while k>0 and num*10**(k-1)>=den: k-=1
        m=e-k+1
    qt=max(m-P,QMIN)
    a,b=coeff_at(qt); c,inx=rnd_int(mode,s,a,b)
    if c==T34: c=T33; qt+=1
    exact_val=Fr(num,den)*Fr(10)**e
    tiny = exact_val < Fr(10)**EMIN
    fl=0
    if not inx:
        # exact: choose exponent closest to pref among representations
        # c*10^qt exact; strip zeros toward pref / pad toward pref
        q=qt
        if pref>q:
            while q<pref and c%10==0 and q<QMAX: c//=10; q+=1
            # c==0 impossible
        # (qt is the least possible exponent already, so pref<qt stays)
        if q>QMAX:
            pass
        qt=q
    if qt>QMAX:
        # try clamp (pad zeros) only if exact or not: value too large?
        # after rounding with 34 digits: c has <=34 digits; if qt>QMAX need pad
        k=qt-QMAX
        if ndig(c)+k<=P: c*=10**k; qt=QMAX
        else:
            fl=OVF|INX
            toinf = mode in (NE,NA) or (mode==UP and not s) or (mode==DN and s)
            return (('inf',s) if toinf else ('fin',s,T34-1,QMAX)), fl
    if inx:
        fl|=INX
        if tiny: fl|=UNF
    return ('fin',s,c,qt),fl
def canon(d): return d
def nanprop(*ds):
    """returns list of acceptable nan results and flag"""
    fl=INV if any(d[0]=='nan' and d[2] for d in ds) else 0
    acc=[('nan',d[1],False,d[3]) for d in ds if d[0]=='nan']
    return acc,fl
def add(mode,x,y,sub=False):
    dx,dy=decode(x),decode(y)
    if dy[0]!='nan' and sub: dy=(dy[0],dy[1]^1)+dy[2:]
    if dx[0]=='nan' or dy[0]=='nan': return nanprop(dx,dy)
    if dx[0]=='inf' or dy[0]=='inf':
        if dx[0]=='inf' and dy[0]=='inf' and dx[1]!=dy[1]: return [QNAN],INV
        return [('inf',dx[1] if dx[0]=='inf' else dy[1])],0
    _,sx,cx,qx=dx; _,sy,cy,qy=dy
    q=min(qx,qy); v=(-1)**sx*cx*10**(qx-q)+(-1)**sy*cy*10**(qy-q)
    if v==0:
        zs = sx if sx==sy else (1 if mode==DN else 0)
        return [('fin',zs,0,q)],0
    d,fl=round_pack(mode,1 if v<0 else 0,abs(v),1,q,q); return [d],fl
def mul(mode,x,y):
    dx,dy=decode(x),decode(y)
    if dx[0]=='nan' or dy[0]=='nan': return nanprop(dx,dy)
    s=dx[1]^dy[1]
    if dx[0]=='inf' or dy[0]=='inf':
        o=dy if dx[0]=='inf' else dx
        if o[0]=='fin' and o[2]==0: return [QNAN],INV
        return [('inf',s)],0
    d,fl=round_pack(mode,s,dx[2]*dy[2],1,dx[3]+dy[3],dx[3]+dy[3]); return [d],fl
def fma(mode,x,y,z):
    dx,dy,dz=decode(x),decode(y),decode(z)
    if 'nan' in (dx[0],dy[0],dz[0]):
        acc,fl=nanprop(dx,dy,dz)
        # 0*inf with qNaN z: invalid optional; accept both
        return acc,fl
    sp=dx[1]^dy[1]
    if dx[0]=='inf' or dy[0]=='inf':
        o=dy if dx[0]=='inf' else dx
        if o[0]=='fin' and o[2]==0: return [QNAN],INV
        if dz[0]=='inf' and dz[1]!=sp: return [QNAN],INV
        return [('inf',sp)],0
    if dz[0]=='inf': return [('inf',dz[1])],0
    cp=dx[2]*dy[2]; qp=dx[3]+dy[3]; _,sz,cz,qz=dz
    q=min(qp,qz); v=(-1)**sp*cp*10**(qp-q)+(-1)**sz*cz*10**(qz-q)
    if v==0:
        zs = sp if sp==sz else (1 if mode==DN else 0)
        return [('fin',zs,0,min(max(q,QMIN),QMAX))],0
    d,fl=round_pack(mode,1 if v<0 else 0,abs(v),1,q,q); return [d],fl
def div(mode,x,y):
    dx,dy=decode(x),decode(y)
    if dx[0]=='nan' or dy[0]=='nan': return nanprop(dx,dy)
    s=dx[1]^dy[1]
    if dx[0]=='inf': return ([QNAN],INV) if dy[0]=='inf' else ([('inf',s)],0)
    if dy[0]=='inf': return [('fin',s,0,QMIN)],0
    if dy[2]==0:
        if dx[2]==0: return [QNAN],INV
        return [('inf',s)],DBZ
    pref=dx[3]-dy[3]
    if dx[2]==0: return [('fin',s,0,min(max(pref,QMIN),QMAX))],0
    d,fl=round_pack(mode,s,dx[2],dy[2],pref,pref); return [d],fl
def isqrt_round(mode,c,e):
    pass
def sqrt(mode,x):
    dx=decode(x)
    if dx[0]=='nan': return nanprop(dx)
    if dx[0]=='inf': return ([('inf',0)],0) if dx[1]==0 else ([QNAN],INV)
    _,s,c,q=dx
    if c==0: return [('fin',s,0,q//2)],0   # floor(q/2)
    if s: return [QNAN],INV
    pref=q//2
    # make exponent even and get 2*P+? digits
    if q%2: c*=10; q-=1
    k=max(0, 2*(P+2)-ndig(c)); k+=k%2
    C=c*10**k; r=math.isqrt(C); ex=(q-k)//2
    exact = r*r==C
    if exact:
        d,fl=round_pack(mode,0,r,1,ex,pref); return [d],fl
    # inexact: r < true < r+1 ; represent as (2r+1)/2 -ish sticky: use num=r*2+1, den=2 ... but must not be tie: true sqrt irrational so never tie at these digits
    d,fl=round_pack(mode,0,4*r+ (1 if (2*r+1)**2>4*C else 3),4,ex,pref); fl|=INX; return [d],fl
def quantize(mode,x,y):
    dx,dy=decode(x),decode(y)
    if dx[0]=='nan' or dy[0]=='nan': return nanprop(dx,dy)
    if dx[0]=='inf' or dy[0]=='inf':
        if dx[0]=='inf' and dy[0]=='inf': return [('inf',dx[1])],0
        return [QNAN],INV
    _,s,c,q=dx; qy=dy[3]
    if q>=qy:
        c2=c*10**(q-qy)
        if c2>=T34: return [QNAN],INV
        return [('fin',s,c2,qy)],0
    c2,inx=rnd_int(mode,s,c,10**(qy-q))
    if c2>=T34: return [QNAN],INV
    return [('fin',s,c2,qy)],(INX if inx else 0)
def rint(mode,x,exact=True):
    dx=decode(x)
    if dx[0]=='nan': return nanprop(dx)
    if dx[0]=='inf': return [dx],0
    _,s,c,q=dx
    if c==0: return [('fin',s,0,max(q,0))],0
    if q>=0: return [dx],0
    n,inx=rnd_int(mode,s,c,10**(-q))
    return [('fin',s,n,0)],(INX if inx and exact else 0)
def vkey(d):
    if d[0]=='inf': return (-1)**d[1]*10**12400
    return (-1)**d[1]*d[2]*10**(d[3]-QMIN)
def cmp4(dx,dy):
    if dx[0]=='nan' or dy[0]=='nan': return 'U'
    a,b=vkey(dx),vkey(dy); return '<' if a<b else '>' if a>b else '='
def tkey(d):
    if d[0]=='nan': k=(3,0 if d[2] else 1,d[3])
    elif d[0]=='inf': k=(2,0,0)
    elif d[2]==0: k=(0,d[3],0)
    else: k=(1,d[2]*10**(d[3]-QMIN),d[3])
    return k if d[1]==0 else tuple(-v for v in k)
def minmax(kind,x,y):
    dx,dy=decode(x),decode(y)
    xs=dx[0]=='nan' and dx[2]; ys=dy[0]=='nan' and dy[2]
    if xs or ys: return nanprop(dx,dy)[0],INV
    if dx[0]=='nan' and dy[0]=='nan': return nanprop(dx,dy)[0],0
    if dx[0]=='nan': return [dy],0
    if dy[0]=='nan': return [dx],0
    a,b=vkey(dx),vkey(dy)
    if kind in('minmag','maxmag') and abs(a)!=abs(b):
        a,b=abs(a),abs(b)
    if a==b: return [dx,dy],0
    if kind in ('minnum','minmag'): return [dx if a<b else dy],0
    return [dx if a>b else dy],0
def to_int(x,w,signed,mode,xflag):
    dx=decode(x); indef=1<<(w-1)
    if dx[0]!='fin': return indef,INV
    _,s,c,q=dx
    if c==0: return 0,0
    if q>=0:
        if q>25: return indef,INV
        n,inx=c*10**q,False
    else:
        if -q>60: n,inx=rnd_int(mode,s,1 if True else 0,10**40) if False else rnd_int(mode,s,c,10**(-q))
        else: n,inx=rnd_int(mode,s,c,10**(-q))
    v=-n if s else n
    lo,hi=(-(1<<(w-1)),(1<<(w-1))-1) if signed else (0,(1<<w)-1)
    if v<lo or v>hi: return indef,INV
    return v&((1<<w)-1),(INX if inx and xflag else 0)
def scaleb(mode,x,n):
    dx=decode(x)
    if dx[0]=='nan': return nanprop(dx)
    if dx[0]=='inf': return [dx],0
    _,s,c,q=dx
    if c==0: return [('fin',s,0,min(max(q+n,QMIN),QMAX))],0
    n=max(-20000,min(20000,n))
    d,fl=round_pack(mode,s,c,1,q+n,q+n); return [d],fl
def nextup(x):
    dx=decode(x)
    if dx[0]=='nan': return nanprop(dx)
    if dx[0]=='inf': return ([dx],0) if dx[1]==0 else ([('fin',1,T34-1,QMAX)],0)
    _,s,c,q=dx
    if c==0: return [('fin',0,1,QMIN)],0
    # normalise to max digits
    while c*10<T34 and q>QMIN: c*=10; q-=1
    if s==0:
        c+=1
        if c==T34:
            c=T33; q+=1
            if q>QMAX: return [('inf',0)],0
        return [('fin',0,c,q)],0
    else:
        c-=1
        if c==0: return [('fin',1,0,QMIN)],0
        if c<T33 and q>QMIN: c=c*10+9; q-=1
        return [('fin',1,c,q)],0
def neg(b): return b^(1<<127)
