import sys,collections,random
from gen import *
rng=random.Random(int(sys.argv[1])); N=int(sys.argv[2])
bad=collections.Counter()
def show(key,*a):
    bad[key]+=1
    if bad[key]<=3: print('MISMATCH',key,*a)
def chk(op,mode,args,acc,fl,line,key=None):
    key=key or op
    if line=='PANIC': show((key,'PANIC'),mode,[decode(a) for a in args]); return
    b,f=line.split(); b=int(b,16); f=int(f,16)
    accb=[encode(d) for d in acc]
    if b not in accb: show((key,'val'),mode,[decode(a) for a in args],'impl',decode(b),hex(b),hex(f),'ref',acc,hex(fl))
    elif f!=fl: show((key,'flag'),mode,[decode(a) for a in args],'impl',decode(b),hex(f),'ref',acc,hex(fl))
# min/max
pairs=[pair(rng) for _ in range(N)]
for op in ['minnum','maxnum','minmag','maxmag']:
    out=run([f"{op} 0 00 {x:032x} {y:032x}" for x,y in pairs])
    for (x,y),l in zip(pairs,out):
        acc,fl=minmax(op,x,y); chk(op,0,[x,y],acc,fl,l)
# next
xs=[datum(rng) for _ in range(N)]
out=run([f"nextup 0 00 {x:032x}" for x in xs])
for x,l in zip(xs,out):
    acc,fl=nextup(x); chk('nextup',0,[x],acc,fl,l)
out=run([f"nextdown 0 00 {x:032x}" for x in xs])
for x,l in zip(xs,out):
    dx=decode(x)
    if dx[0]=='nan': acc,fl=nanprop(dx)
    else:
        acc,fl=nextup(neg(x)); acc=[(d[0],d[1]^1)+d[2:] for d in acc]
    chk('nextdown',0,[x],acc,fl,l)
# nextafter
out=run([f"nextafter 0 00 {x:032x} {y:032x}" for x,y in pairs])
for (x,y),l in zip(pairs,out):
    dx,dy=decode(x),decode(y)
    if dx[0]=='nan' or dy[0]=='nan': acc,fl=nanprop(dx,dy)
    else:
        r=cmp4(dx,dy)
        if r=='=': acc,fl=[(dx[0],dy[1])+dx[2:]],0
        elif r=='<': acc,fl=nextup(x)
        else:
            acc,fl=nextup(neg(x)); acc=[(d[0],d[1]^1)+d[2:] for d in acc]
        d=acc[0]
        if dx[0]=='fin' and d[0]=='inf': fl|=OVF|INX
        if d[0]=='fin' and d[2]*10**(d[3]-QMIN)<T33 and r!='=': fl|=UNF|INX
    chk('nextafter',0,[x,y],acc,fl,l)
# rint family
for op,mode_fixed,exact in [('rint',None,True),('nearbyint',None,False),('rint_ne',NE,False),('rint_na',NA,False),('rint_dn',DN,False),('rint_up',UP,False),('rint_tz',TZ,False)]:
    cs=[]
    for x in xs:
        dx=decode(x)
        if dx[0]=='fin' and rng.random()<0.8: # put exponent near -q
            _,s,c,q=dx; x=encode(('fin',s,c,max(QMIN,-ndig(c)+rng.randint(-3,3))))
        cs.append((rng.randint(0,4),x))
    out=run([f"{op} {m} 00 {x:032x}" for m,x in cs])
    for (m,x),l in zip(cs,out):
        mm=m if mode_fixed is None else mode_fixed
        acc,fl=rint(mm,x,exact); chk(op,mm,[x],acc,fl,l)
# scaleb/ldexp/scalebln
for op in ['scaleb','ldexp','scalebln']:
    cs=[]
    for x in xs:
        dx=decode(x); k=rng.random()
        if dx[0]=='fin':
            q=dx[3]; d=ndig(dx[2])
            if k<0.4: n=QMAX-q-rng.randint(-3,40)
            elif k<0.8: n=QMIN-q-rng.randint(-3,40)
            elif k<0.9: n=rng.randint(-100,100)
            else: n=rng.choice([2**31-1,-2**31,0,12288,-12288,20000,-20000])
        else: n=rng.randint(-100,100)
        if op=='scalebln' and rng.random()<0.1: n=rng.choice([2**63-1,-2**63,2**31,-2**31-1,2**32,2**32+5,-2**32-7])
        cs.append((rng.randint(0,4),x,n))
    out=run([f"{op} {m} 00 {x:032x} {n & (2**64-1 if op=='scalebln' else 2**32-1):x}" for m,x,n in cs])
    for (m,x,n),l in zip(cs,out):
        acc,fl=scaleb(m,x,n); chk(op,m,[x],acc,fl,l)
        if l!='PANIC' and (int(l.split()[0],16) not in [encode(d) for d in acc] or int(l.split()[1],16)!=fl) and bad[(op,'n')]<3: bad[(op,'n')]+=1; print('   n=',n)
# to_int
for w,sg,nm in [(32,True,'i32'),(32,False,'u32'),(64,True,'i64'),(64,False,'u64')]:
    for md,suffix in [(NE,'rnint'),(DN,'floor'),(UP,'ceil'),(TZ,'int'),(NA,'rninta')]:
        for xf in (False,True):
            op=f"to_{nm}_{'x' if xf else ''}{suffix}"
            cs=[]
            for _ in range(N//10):
                k=rng.random()
                if k<0.5:
                    base=rng.choice([0,1,-1,2**31,-2**31,2**31-1,2**32,2**32-1,2**63,-2**63,2**63-1,2**64,2**64-1,rng.randint(-2**64,2**64)])
                    g=rng.randint(0,min(20,34-ndig(abs(base))-1)) if base else rng.randint(0,33)
                    frac=rng.choice([0,5*10**(g-1) if g else 0,5*10**(g-1)+1 if g else 0,5*10**(g-1)-1 if g else 0,10**g-1,1]) if g else 0
                    v=base*10**g+frac if base>=0 else base*10**g-frac
                    s=1 if v<0 else 0; c=abs(v)
                    if c>=T34: c%=T34
                    x=encode(('fin',s,c,-g))
                elif k<0.9: x=datum(rng)
                else: x=fin(rng,e=rng.randint(-40,25))
                cs.append(x)
            out=run([f"{op} 0 00 {x:032x}" for x in cs])
            for x,l in zip(cs,out):
                v,fl=to_int(x,w,sg,md,xf)
                if l=='PANIC': show((op,'PANIC'),decode(x)); continue
                b,f=l.split(); b=int(b,16); f=int(f,16)
                if b!=v or f!=fl: show((op,'val' if b!=v else 'flag'),decode(x),'impl',hex(b),hex(f),'ref',hex(v),hex(fl))
print(sorted(bad.items(),key=str))
