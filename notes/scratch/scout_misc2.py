import sys,collections,random,struct
from fractions import Fraction as Fr
from gen import *
rng=random.Random(int(sys.argv[1])); N=int(sys.argv[2])
bad=collections.Counter()
def show(key,*a):
    bad[key]+=1
    if bad[key]<=3: print('MISMATCH',key,*a)
def chk(op,mode,args,acc,fl,line,key=None):
    key=key or op
    if line=='PANIC': show((key,'PANIC'),mode,[decode(a) for a in args]); return
    b,f=line.split(); b=int(b,16); f=int(f,16)
    accb=[encode(d) for d in acc]
    if b not in accb: show((key,'val'),mode,[decode(a) for a in args],'impl',decode(b),hex(b),hex(f),'ref',acc,hex(fl))
    elif f!=fl: show((key,'flag'),mode,[decode(a) for a in args],'impl',decode(b),hex(f),'ref',acc,hex(fl))
def rnd_near_even(num,den): # integer nearest to num/den (signed), ties even
    q,r=divmod(num,den)
    if 2*r>den or (2*r==den and q%2): q+=1
    return q
def remop(kind,x,y):
    dx,dy=decode(x),decode(y)
    if dx[0]=='nan' or dy[0]=='nan': return nanprop(dx,dy)
    if dx[0]=='inf': return [QNAN],INV
    if dy[0]=='inf': return [dx],0
    if dy[2]==0: return [QNAN],INV
    _,sx,cx,qx=dx; _,sy,cy,qy=dy
    q=min(qx,qy)
    if cx==0: return [('fin',sx,0,q)],0
    X=cx*10**(qx-q); Y=cy*10**(qy-q)
    if kind=='rem':
        n=rnd_near_even(X,Y); r=X-n*Y
        s=sx if r>=0 else sx^1
        if r==0: s=sx
        r=abs(r)
    else:
        r=X%Y; s=sx
    if r>=T34: # not representable at q: only possible when qx<qy and result is x itself
        return [dx],0
    return [('fin',s,r,q)],0
pairs=[]
for _ in range(N):
    x,y=pair(rng)
    dx,dy=decode(x),decode(y)
    if dx[0]=='fin' and dy[0]=='fin' and rng.random()<0.5 and dy[2]:
        k=rng.random()
        g=rng.choice([rng.randint(-40,40),rng.randint(0,400),rng.randint(0,12000)])
        qx=max(QMIN,min(QMAX,dy[3]+g)); x=encode(('fin',dx[1],dx[2],qx))
        if k<0.2: # exact tie/multiple attempts: x = (n+1/2)*y
            n=rng.randint(0,10**rng.randint(0,10)); 
            cy=dy[2]; c2=(2*n+1)*cy
            if c2%2==0 and c2//2<T34: x=encode(('fin',dx[1],c2//2,dy[3]))
            elif c2*5<T34 and dy[3]-1>=QMIN: x=encode(('fin',dx[1],c2*5,dy[3]-1))
    pairs.append((x,y))
for op in ['rem','fmod']:
    out=run([f"{op} 0 00 {x:032x} {y:032x}" for x,y in pairs])
    for (x,y),l in zip(pairs,out):
        dx,dy=decode(x),decode(y)
        if dx[0]=='fin' and dy[0]=='fin' and dx[3]-dy[3]>3000: 
            # use modular arithmetic
            pass
        acc,fl=remop(op,x,y); chk(op,0,[x,y],acc,fl,l)
# fdim, modf
out=run([f"fdim {i%5} 00 {x:032x} {y:032x}" for i,(x,y) in enumerate(pairs)])
for i,((x,y),l) in enumerate(zip(pairs,out)):
    dx,dy=decode(x),decode(y)
    if dx[0]=='nan' or dy[0]=='nan': acc,fl=nanprop(dx,dy)
    elif cmp4(dx,dy)=='>': acc,fl=add(i%5,x,y,sub=True)
    else: acc,fl=[('fin',0,0,0)],0
    chk('fdim',i%5,[x,y],acc,fl,l)
xs=[datum(rng) for _ in range(N)]
xs2=[]
for x in xs:
    dx=decode(x)
    if dx[0]=='fin' and rng.random()<0.7: x=encode(('fin',dx[1],dx[2],max(QMIN,-ndig(dx[2])+rng.randint(-3,3))))
    xs2.append(x)
out=run([f"modf 0 00 {x:032x}" for x in xs2])
for x,l in zip(xs2,out):
    dx=decode(x)
    if l=='PANIC': show(('modf','PANIC'),dx); continue
    ip,fp,f=l.split(); ip=int(ip,16); fp=int(fp,16); f=int(f,16)
    if dx[0]=='nan':
        ok = decode(ip)[0]=='nan' and decode(fp)[0]=='nan' and f==(INV if dx[2] else 0)
        if not ok: show(('modf','nan'),dx,decode(ip),decode(fp),hex(f))
        continue
    if dx[0]=='inf': e=(dx,('fin',dx[1],0,None),0)
    else:
        _,s,c,q=dx
        if c==0: e=(('fin',s,0,max(q,0)),('fin',s,0,q),0)   # 0 - 0 : exponent min(q, max(q,0)) = q
        elif q>=0: e=(dx,('fin',s,0,q),0)
        else:
            n=c//10**(-q); fr=c-n*10**(-q); e=(('fin',s,n,0),('fin',s,fr,q),0)
    di,df=decode(ip),decode(fp)
    okf = df[:3]==e[1][:3] and (e[1][3] is None or df[3]==e[1][3])
    if di!=e[0] or not okf or f!=e[2]: show(('modf','val'),dx,'impl',di,df,hex(f),'ref',e)
# logb / ilogb / frexp / quantum family / class / isx / abs neg copy copysign
out=run([f"logb 0 00 {x:032x}" for x in xs]); out2=run([f"ilogb 0 00 {x:032x}" for x in xs]); out3=run([f"frexp 0 00 {x:032x}" for x in xs])
outq=run([f"quantexp 0 00 {x:032x}" for x in xs]); outlq=run([f"llquantexp 0 00 {x:032x}" for x in xs]); outqm=run([f"quantum 0 00 {x:032x}" for x in xs])
outc=run([f"class 0 00 {x:032x}" for x in xs]); outi=run([f"isx 0 00 {x:032x}" for x in xs])
for i,x in enumerate(xs):
    dx=decode(x)
    # logb
    if dx[0]=='nan': acc,fl=nanprop(dx)
    elif dx[0]=='inf': acc,fl=[('inf',0)],0
    elif dx[2]==0: acc,fl=[('inf',1)],DBZ
    else:
        e=ndig(dx[2])+dx[3]-1; acc,fl=[('fin',1 if e<0 else 0,abs(e),0)],0
    chk('logb',0,[x],acc,fl,out[i])
    b,f=out2[i].split(); b=int(b,16); f=int(f,16)
    if dx[0]=='fin' and dx[2]: ev,ef=(ndig(dx[2])+dx[3]-1)&0xffffffff,0
    elif dx[0]=='inf': ev,ef=0x7fffffff,INV
    else: ev,ef=0x80000000,INV
    if (b,f)!=(ev,ef): show(('ilogb',dx[0]),dx,hex(b),hex(f),'ref',hex(ev),hex(ef))
    fr,ex,f=out3[i].split(); fr=int(fr,16); ex=int(ex)
    if dx[0]=='fin' and dx[2]:
        d=ndig(dx[2]); e=(('fin',dx[1],dx[2],-d),dx[3]+d)
        if (decode(fr),ex)!=e: show(('frexp','val'),dx,decode(fr),ex,'ref',e)
    else:
        if bad[('frexp-special',dx[0], dx[2] if dx[0]=='nan' else 0)]<1: print('frexp special',dx,'->',decode(fr),hex(fr),ex)
        bad[('frexp-special',dx[0], dx[2] if dx[0]=='nan' else 0)]+=1
    b,f=outq[i].split(); b=int(b,16); f=int(f,16)
    ev,ef=((dx[3]&0xffffffff),0) if dx[0]=='fin' else (0x80000000,INV)
    if (b,f)!=(ev,ef): show(('quantexp',dx[0]),dx,hex(b),hex(f))
    b,f=outlq[i].split(); b=int(b,16); f=int(f,16)
    ev,ef=((dx[3]&(2**64-1)),0) if dx[0]=='fin' else (1<<63,INV)
    if (b,f)!=(ev,ef): show(('llquantexp',dx[0]),dx,hex(b),hex(f))
    b,f=outqm[i].split(); b=int(b,16)
    if dx[0]=='fin': e=[('fin',0,1,dx[3])]
    elif dx[0]=='inf': e=[('inf',0)]
    else: e=nanprop(dx)[0]
    if b not in [encode(d) for d in e]: show(('quantum',dx[0]),dx,decode(b),hex(b))
    # class: enum order
    cls=int(outc[i].split()[0],16)
    if dx[0]=='nan': ec=0 if dx[2] else 1
    elif dx[0]=='inf': ec=2 if dx[1] else 9
    elif dx[2]==0: ec=5 if dx[1] else 6
    else:
        normal = ndig(dx[2])+dx[3]-1>=EMIN
        ec=(3 if normal else 4) if dx[1] else (8 if normal else 7)
    if cls!=ec: show(('class',),dx,cls,ec)
    v=int(outi[i].split()[0],16)
    canon = encode(dx)==x if dx[0]!='nan' else (x>>110)&0x7ff==0 and (x&((1<<110)-1))<T33
    if dx[0]=='nan': canon = ((x>>110)&0x7ff)==0 and (x&((1<<110)-1))<T33
    fin_=dx[0]=='fin'; z=fin_ and dx[2]==0; nrm=fin_ and dx[2]>0 and ndig(dx[2])+dx[3]-1>=EMIN; sub=fin_ and dx[2]>0 and not nrm
    e=(canon)|fin_<<1|(dx[0]=='inf')<<2|(dx[0]=='nan')<<3|nrm<<4|(dx[0]=='nan' and dx[2])<<5|dx[1]<<6|sub<<7|z<<8
    if v!=e: show(('isx',dx[0]),dx,hex(x),bin(v),bin(e))
# samequantum
out=run([f"samequantum 0 00 {x:032x} {y:032x}" for x,y in pairs])
for (x,y),l in zip(pairs,out):
    dx,dy=decode(x),decode(y)
    e = (dx[0]==dy[0]) and (dx[0]!='fin' or dx[3]==dy[3])
    if bool(int(l.split()[0],16))!=e: show(('samequantum',),dx,dy,l)
print(sorted(bad.items(),key=str))
