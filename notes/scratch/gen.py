import random
from ref import *
def coeff(rng,q=None):
    q=q or rng.randint(1,34); k=rng.random()
    if k<0.45: return rng.randint(10**(q-1),10**q-1)
    if k<0.55: return 10**(q-1)
    if k<0.65: return 10**q-1
    if k<0.75: return rng.randint(1,9)*10**(q-1)
    if k<0.85: return 5*10**(q-1)
    z=rng.randint(0,q-1); return rng.randint(10**(q-1-z),10**(q-z)-1)*10**z
def expo(rng):
    k=rng.random()
    if k<0.25: return rng.randint(QMIN,QMAX)
    if k<0.75: return rng.randint(-70,70)
    if k<0.875: return QMIN+rng.randint(0,45)
    return QMAX-rng.randint(0,45)
def fin(rng,q=None,e=None):
    return encode(('fin',rng.randint(0,1),coeff(rng,q),max(QMIN,min(QMAX,expo(rng) if e is None else e))))
def datum(rng):
    k=rng.random()
    if k<0.70: return fin(rng)
    if k<0.78: return encode(('fin',rng.randint(0,1),0,expo(rng)))
    if k<0.82: # noncanonical small form
        return (rng.randint(0,1)<<127)|((expo(rng)+BIAS)<<113)|rng.randint(T34,(1<<113)-1)
    if k<0.85: # large coefficient form
        return (rng.randint(0,1)<<127)|(3<<125)|rng.getrandbits(125)&~(0x1e<<121) if False else ((rng.randint(0,1)<<127)|(3<<125)|(rng.randint(0,2)<<123)|rng.getrandbits(123))
    if k<0.90: return (rng.randint(0,1)<<127)|(0x1e<<122)|(rng.getrandbits(122) if rng.random()<0.5 else 0)
    # nan
    s=rng.randint(0,1); sig=rng.randint(0,1); kk=rng.random()
    pay = 0 if kk<0.2 else rng.randint(0,T33-1) if kk<0.7 else rng.randint(T33,(1<<110)-1)
    res = rng.getrandbits(11) if rng.random()<0.3 else 0
    return (s<<127)|(0x1f<<122)|(sig<<121)|(res<<110)|pay
def pair(rng):
    x=datum(rng) if rng.random()<0.6 else fin(rng,q=rng.randint(1,6)); dx=decode(x)
    k=rng.random()
    if dx[0]=='fin' and k<0.7:
        _,s,c,q=dx
        kk=rng.random()
        if kk<0.25 and c>0: # same value different quantum
            z=0
            cc,qq=c,q
            if rng.random()<0.5:
                while cc%10==0 and qq<QMAX and rng.random()<0.8: cc//=10; qq+=1
            else:
                while cc*10<T34 and qq>QMIN and rng.random()<0.8: cc*=10; qq-=1
            y=encode(('fin',s if rng.random()<0.9 else s^1,cc,qq))
        elif kk<0.5 and c>0: # off by one at finer quantum
            g=rng.randint(0,34-ndig(c)); cc=c*10**g+rng.choice([-1,1]); qq=q-g
            if qq<QMIN or cc<=0 or cc>=T34: y=fin(rng,e=q)
            else: y=encode(('fin',s,cc,qq))
        else:
            y=fin(rng,e=q+rng.randint(-40,40))
        return x,y
    return x,datum(rng)
def run(cases):
    import subprocess
    inp='\n'.join(cases)+'\n'
    return subprocess.run([__import__('os').environ.get('RUNNER','./target/release/scratch')],input=inp,capture_output=True,text=True).stdout.split('\n')
