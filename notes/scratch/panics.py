import sys,random,subprocess,collections,os
from gen import *
exec(open('scout_ref.py').read().split("out=run(")[0].replace("rng=random.Random(int(sys.argv[1])); N=int(sys.argv[2])\nops=sys.argv[3].split(',')","rng=random.Random(2); N=60000; ops=['fma']"))
inp='\n'.join(f"{op} {m} 00 "+' '.join(f"{a:032x}" for a in args) for op,m,args in cases)+'\n'
r=subprocess.run([os.environ['RUNNER']],input=inp,capture_output=True,text=True,env=dict(os.environ,SHOWPANIC='1',RUST_BACKTRACE='0'))
c=collections.Counter(l for l in r.stderr.split('\n') if l.startswith('PANICINFO'))
for k,v in c.most_common(10): print(v,k)
