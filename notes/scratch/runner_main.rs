use decmathlib_rs::d128::*;
use std::io::{BufRead, Write};
fn bits(x: &d128) -> u128 { let w: [u64;2] = unsafe { std::mem::transmute(*x) }; ((w[1] as u128) << 64) | w[0] as u128 }
fn rm(i: u32) -> RoundingMode { RoundingMode::from(i) }
type F = _IDEC_flags;
fn main() {
    if std::env::var("SHOWPANIC").is_err() { std::panic::set_hook(Box::new(|_| {})); } else { std::panic::set_hook(Box::new(|i| { eprintln!("PANICINFO {} {:?}", i.location().map(|l| format!("{}:{}", l.file(), l.line())).unwrap_or_default(), i.payload().downcast_ref::<&str>().map(|s| s.to_string()).or(i.payload().downcast_ref::<String>().cloned())); })); }
    let stdin = std::io::stdin(); let out = std::io::stdout(); let mut out = std::io::BufWriter::new(out.lock());
    for line in stdin.lock().lines() {
        let line = line.unwrap(); let t: Vec<&str> = line.split_whitespace().collect();
        if t.is_empty() { continue; }
        let op = t[0].to_string(); let m: u32 = t[1].parse().unwrap(); let f0: u32 = u32::from_str_radix(t[2],16).unwrap();
        if op == "parse" { let s = if t.len()>3 {t[3]} else {""}; let s=s.to_string();
            let r = std::panic::catch_unwind(|| { let mut f=f0; let r=d128::convert_from_decimal_character(&s, Some(rm(m)), &mut f); (bits(&r),f)});
            match r { Ok((b,f)) => writeln!(out, "{:032x} {:02x}", b, f).unwrap(), Err(_) => writeln!(out, "PANIC").unwrap() } continue; }
        let raw: Vec<u128> = t[3..].iter().map(|s| u128::from_str_radix(s,16).unwrap()).collect();
        let a: Vec<d128> = raw.iter().map(|v| d128::from(*v)).collect();
        let r = std::panic::catch_unwind(|| { let mut f: F = f0; let md = Some(rm(m));
            let b = |v: bool| v as u128;
            let r: u128 = match op.as_str() {
                "fmt" => { return (format!("{}|{:?}|{:e}|{:E}", a[0], a[0], a[0], a[0]), f) }
                "hash" => { struct R(Vec<u64>); impl std::hash::Hasher for R { fn finish(&self)->u64{0} fn write(&mut self,b:&[u8]){ for ch in b.chunks(8){ let mut a=[0u8;8]; a[..ch.len()].copy_from_slice(ch); self.0.push(u64::from_le_bytes(a)); } } fn write_u64(&mut self,v:u64){self.0.push(v)} } let mut r=R(vec![]); std::hash::Hash::hash(&a[0],&mut r); ((r.0[1] as u128)<<64)|r.0[0] as u128 }
                "add" => bits(&d128::addition(&a[0],&a[1],md,&mut f)),
                "sub" => bits(&d128::subtraction(&a[0],&a[1],md,&mut f)),
                "mul" => bits(&d128::multiplication(&a[0],&a[1],md,&mut f)),
                "div" => bits(&d128::division(&a[0],&a[1],md,&mut f)),
                "fma" => bits(&d128::fused_multiply_add(&a[0],&a[1],&a[2],md,&mut f)),
                "sqrt" => bits(&a[0].square_root(md,&mut f)),
                "quantize" => bits(&d128::quantize(&a[0],&a[1],md,&mut f)),
                "rem" => bits(&d128::remainder(&a[0],&a[1],&mut f)),
                "fmod" => bits(&a[0].fmod(&a[1],&mut f)),
                "fdim" => bits(&a[0].fdim(&a[1],md,&mut f)),
                "rint" => bits(&d128::round_to_integral_exact(&a[0],md,&mut f)),
                "nearbyint" => bits(&a[0].nearbyint(md,&mut f)),
                "rint_ne" => bits(&d128::round_to_integral_ties_to_even(&a[0],&mut f)),
                "rint_na" => bits(&d128::round_to_integral_ties_to_away(&a[0],&mut f)),
                "rint_dn" => bits(&d128::round_to_integral_ties_toward_negative(&a[0],&mut f)),
                "rint_up" => bits(&d128::round_to_integral_ties_toward_positive(&a[0],&mut f)),
                "rint_tz" => bits(&d128::round_to_integral_ties_toward_zero(&a[0],&mut f)),
                "modf" => { let (i,fr) = a[0].modf(&mut f); return (format!("{:032x} {:032x}", bits(&i), bits(&fr)), f) }
                "frexp" => { let (fr,e) = a[0].frexp(); return (format!("{:032x} {}", bits(&fr), e), f) }
                "nextup" => bits(&a[0].next_up(&mut f)),
                "nextdown" => bits(&a[0].next_down(&mut f)),
                "nextafter" => bits(&d128::next_after(&a[0],&a[1],&mut f)),
                "nexttoward" => bits(&d128::next_toward(&a[0],&a[1],&mut f)),
                "minnum" => bits(&d128::min_num(&a[0],&a[1],&mut f)),
                "maxnum" => bits(&d128::max_num(&a[0],&a[1],&mut f)),
                "minmag" => bits(&d128::min_num_mag(&a[0],&a[1],&mut f)),
                "maxmag" => bits(&d128::max_num_mag(&a[0],&a[1],&mut f)),
                "scaleb" => bits(&a[0].scaleb(raw[1] as i32, md, &mut f)),
                "ldexp" => bits(&a[0].ldexp(raw[1] as i32, md, &mut f)),
                "scalebln" => bits(&a[0].scalebln(raw[1] as i64, md, &mut f)),
                "logb" => bits(&a[0].logb(&mut f)),
                "ilogb" => a[0].log_b(&mut f) as u32 as u128,
                "quantexp" => a[0].quantexp(&mut f) as u32 as u128,
                "llquantexp" => a[0].llquantexp(&mut f) as u64 as u128,
                "quantum" => bits(&a[0].quantum()),
                "samequantum" => b(d128::same_quantum(&a[0],&a[1])),
                "totalorder" => b(d128::total_order(&a[0],&a[1])),
                "totalordermag" => b(d128::total_order_mag(&a[0],&a[1])),
                "class" => a[0].class() as u128,
                "isx" => b(a[0].is_canonical()) | b(a[0].is_finite())<<1 | b(a[0].is_infinite())<<2 | b(a[0].is_nan())<<3 | b(a[0].is_normal())<<4 | b(a[0].is_signaling())<<5 | b(a[0].is_sign_minus())<<6 | b(a[0].is_subnormal())<<7 | b(a[0].is_zero())<<8,
                "abs" => bits(&a[0].abs()), "neg" => bits(&d128::negate(&a[0])), "copy" => bits(&a[0].copy()), "copysign" => bits(&a[0].copy_sign(&a[1])),
                "encode" => bits(&a[0].encode_decimal()), "decode" => bits(&a[0].decode_decimal()),
                "from_f32" => bits(&d128::convert_from_f32(f32::from_bits(raw[0] as u32), md, &mut f)),
                "from_f64" => bits(&d128::convert_from_f64(f64::from_bits(raw[0] as u64), md, &mut f)),
                "from_i32" => bits(&d128::from(raw[0] as i32)), "from_u32" => bits(&d128::from(raw[0] as u32)),
                "from_i64" => bits(&d128::from(raw[0] as i64)), "from_u64" => bits(&d128::from(raw[0] as u64)),
                "lrint" => a[0].lrint(md,&mut f) as u64 as u128, "llrint" => a[0].llrint(md,&mut f) as u64 as u128,
                "lround" => a[0].lround(&mut f) as u64 as u128, "llround" => a[0].llround(&mut f) as u64 as u128,
                "cmp" => { // all 20 predicates, each from status f0; returns bitmask + OR of flags
                    let fs: [fn(&d128,&d128,&mut F)->bool; 20] = [d128::compare_quiet_equal, d128::compare_quiet_greater, d128::compare_quiet_greater_equal, d128::compare_quiet_greater_unordered, d128::compare_quiet_less, d128::compare_quiet_less_equal, d128::compare_quiet_less_unordered, d128::compare_quiet_not_equal, d128::compare_quiet_not_greater, d128::compare_quiet_not_less, d128::compare_quiet_ordered, d128::compare_quiet_unordered, d128::compare_signaling_greater, d128::compare_signaling_greater_equal, d128::compare_signaling_greater_unordered, d128::compare_signaling_less, d128::compare_signaling_less_equal, d128::compare_signaling_less_unordered, d128::compare_signaling_not_greater, d128::compare_signaling_not_less];
                    let mut mask=0u128; let mut fl=0u128; for (i,g) in fs.iter().enumerate() { let mut ff=f0; if g(&a[0],&a[1],&mut ff) { mask |= 1<<i; } fl |= ((ff as u128)&0x3f) << (6*i); }
                    return (format!("{:05x} {:030x}", mask, fl), f) }
                "ops" => { let (x,y)=(a[0],a[1]); b(x==y) | b(x<y)<<1 | b(x<=y)<<2 | b(x>y)<<3 | b(x>=y)<<4 | (match x.partial_cmp(&y) { None=>0, Some(std::cmp::Ordering::Less)=>1, Some(std::cmp::Ordering::Equal)=>2, Some(std::cmp::Ordering::Greater)=>3 })<<5 }
                s if s.starts_with("to_") => { // to_{i32,u32,i64,u64}_{rnint,xrnint,floor,xfloor,ceil,xceil,int,xint,rninta,xrninta}
                    let x=&a[0]; match s {
                    "to_i32_rnint"=>x.convert_to_i32_ties_to_even(&mut f) as u32 as u128, "to_i32_xrnint"=>x.convert_to_i32_exact_ties_to_even(&mut f) as u32 as u128,
                    "to_i32_floor"=>x.convert_to_i32_toward_negative(&mut f) as u32 as u128, "to_i32_xfloor"=>x.convert_to_i32_exact_toward_negative(&mut f) as u32 as u128,
                    "to_i32_ceil"=>x.convert_to_i32_toward_positive(&mut f) as u32 as u128, "to_i32_xceil"=>x.convert_to_i32_exact_toward_positive(&mut f) as u32 as u128,
                    "to_i32_int"=>x.convert_to_i32_toward_zero(&mut f) as u32 as u128, "to_i32_xint"=>x.convert_to_i32_exact_toward_zero(&mut f) as u32 as u128,
                    "to_i32_rninta"=>x.convert_to_i32_ties_to_away(&mut f) as u32 as u128, "to_i32_xrninta"=>x.convert_to_i32_exact_ties_to_away(&mut f) as u32 as u128,
                    "to_u32_rnint"=>x.convert_to_u32_ties_to_even(&mut f) as u128, "to_u32_xrnint"=>x.convert_to_u32_exact_ties_to_even(&mut f) as u128,
                    "to_u32_floor"=>x.convert_to_u32_toward_negative(&mut f) as u128, "to_u32_xfloor"=>x.convert_to_u32_exact_toward_negative(&mut f) as u128,
                    "to_u32_ceil"=>x.convert_to_u32_toward_positive(&mut f) as u128, "to_u32_xceil"=>x.convert_to_u32_exact_toward_positive(&mut f) as u128,
                    "to_u32_int"=>x.convert_to_u32_toward_zero(&mut f) as u128, "to_u32_xint"=>x.convert_to_u32_exact_toward_zero(&mut f) as u128,
                    "to_u32_rninta"=>x.convert_to_u32_ties_to_away(&mut f) as u128, "to_u32_xrninta"=>x.convert_to_u32_exact_ties_to_away(&mut f) as u128,
                    "to_i64_rnint"=>x.convert_to_i64_ties_to_even(&mut f) as u64 as u128, "to_i64_xrnint"=>x.convert_to_i64_exact_ties_to_even(&mut f) as u64 as u128,
                    "to_i64_floor"=>x.convert_to_i64_toward_negative(&mut f) as u64 as u128, "to_i64_xfloor"=>x.convert_to_i64_exact_toward_negative(&mut f) as u64 as u128,
                    "to_i64_ceil"=>x.convert_to_i64_toward_positive(&mut f) as u64 as u128, "to_i64_xceil"=>x.convert_to_i64_exact_toward_positive(&mut f) as u64 as u128,
                    "to_i64_int"=>x.convert_to_i64_toward_zero(&mut f) as u64 as u128, "to_i64_xint"=>x.convert_to_i64_exact_toward_zero(&mut f) as u64 as u128,
                    "to_i64_rninta"=>x.convert_to_i64_ties_to_away(&mut f) as u64 as u128, "to_i64_xrninta"=>x.convert_to_i64_exact_ties_to_away(&mut f) as u64 as u128,
                    "to_u64_rnint"=>x.convert_to_u64_ties_to_even(&mut f) as u128, "to_u64_xrnint"=>x.convert_to_u64_exact_ties_to_even(&mut f) as u128,
                    "to_u64_floor"=>x.convert_to_u64_toward_negative(&mut f) as u128, "to_u64_xfloor"=>x.convert_to_u64_exact_toward_negative(&mut f) as u128,
                    "to_u64_ceil"=>x.convert_to_u64_toward_positive(&mut f) as u128, "to_u64_xceil"=>x.convert_to_u64_exact_toward_positive(&mut f) as u128,
                    "to_u64_int"=>x.convert_to_u64_toward_zero(&mut f) as u128, "to_u64_xint"=>x.convert_to_u64_exact_toward_zero(&mut f) as u128,
                    "to_u64_rninta"=>x.convert_to_u64_ties_to_away(&mut f) as u128, "to_u64_xrninta"=>x.convert_to_u64_exact_ties_to_away(&mut f) as u128,
                    _ => panic!("op {}", s) } }
                _ => panic!("op {}", op)
            }; (format!("{:032x}", r), f) });
        match r { Ok((s,f)) => writeln!(out, "{} {:02x}", s, f).unwrap(), Err(_) => writeln!(out, "PANIC").unwrap() }
    }
}
