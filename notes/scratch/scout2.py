import sys,collections,random
from gen import *
rng=random.Random(int(sys.argv[1])); N=int(sys.argv[2])
def lit():
    nd=rng.choice([rng.randint(1,34),rng.randint(30,40),rng.randint(35,100),rng.randint(1,10)])
    k=rng.random()
    if k<0.4: digs=''.join(rng.choice('0123456789') for _ in range(nd))
    elif k<0.75: digs=''.join(rng.choice('0123456789') for _ in range(34))+rng.choice(['5','50','500','49','51','5000001','4999999','0','00001','5'+'0'*rng.randint(1,60),'5'+'0'*rng.randint(1,60)+'1'])
    elif k<0.85: digs='9'*nd
    else: digs=rng.choice('123456789')+'0'*(nd-1)
    if digs[0]=='0': digs='1'+digs[1:]
    if rng.random()<0.2: digs='0'*rng.randint(1,3)+digs
    pt=rng.random()
    if pt<0.4: s=digs; fd=0
    else:
        i=rng.randint(0,len(digs)); s=digs[:i]+'.'+digs[i:]; fd=len(digs)-i
    sign=rng.choice(['','+','-'])
    ev=rng.choice([0,rng.randint(-70,70),rng.randint(-6300,6300),rng.choice([-6176,-6143,-6177,-6210,6111,6144,6145])+rng.randint(-40,40)])
    e='' if ev==0 and rng.random()<0.5 else rng.choice('eE')+rng.choice(['','+'] if ev>=0 else ['-'])+str(abs(ev))
    return sign+s+e,(1 if sign=='-' else 0,int(digs),ev-fd)
cases=[(rng.randint(0,4),)+lit() for _ in range(N)]
out=run([f"parse {m} 00 {s}" for m,s,_ in cases])
bad=collections.Counter()
for (m,s,(sg,c,e)),line in zip(cases,out):
    d,fl=round_pack(m,sg,c,1,e,e)
    if line=='PANIC': bad['PANIC']+=1; continue
    b,f=line.split(); b=int(b,16); f=int(f,16)
    if b!=encode(d) or f!=fl:
        k=('val' if b!=encode(d) else 'flag',m)
        bad[k]+=1
        if bad[k]<=2: print('MISMATCH',k,s,'impl',decode(b),hex(f),'ref',d,hex(fl))
print(sorted(bad.items(),key=str))
