import sys,collections,random,struct
from fractions import Fraction as Fr
from gen import *
rng=random.Random(int(sys.argv[1])); N=int(sys.argv[2])
bad=collections.Counter()
def show(key,*a):
    bad[key]+=1
    if bad[key]<=3: print('MISMATCH',key,*a)
# ---- DPD
def declet_enc(n):
    a,b,c=n//100,(n//10)%10,n%10
    bits=lambda d:[(d>>3)&1,(d>>2)&1,(d>>1)&1,d&1]
    (a0,a1,a2,a3),(b0,b1,b2,b3),(c0,c1,c2,c3)=bits(a),bits(b),bits(c)
    k=(a0,b0,c0)
    if k==(0,0,0): p=[a1,a2,a3,b1,b2,b3,0,c1,c2,c3]
    elif k==(0,0,1): p=[a1,a2,a3,b1,b2,b3,1,0,0,c3]
    elif k==(0,1,0): p=[a1,a2,a3,c1,c2,b3,1,0,1,c3]
    elif k==(1,0,0): p=[c1,c2,a3,b1,b2,b3,1,1,0,c3]
    elif k==(1,1,0): p=[c1,c2,a3,0,0,b3,1,1,1,c3]
    elif k==(1,0,1): p=[b1,b2,a3,0,1,b3,1,1,1,c3]
    elif k==(0,1,1): p=[a1,a2,a3,1,0,b3,1,1,1,c3]
    else: p=[0,0,a3,1,1,b3,1,1,1,c3]
    v=0
    for x in p: v=v*2+x
    return v
def declet_dec(v):
    p=[(v>>(9-i))&1 for i in range(10)]
    p0,p1,p2,p3,p4,p5,p6,p7,p8,p9=p
    if p6==0: a=(p0<<2)|(p1<<1)|p2; b=(p3<<2)|(p4<<1)|p5; c=(p7<<2)|(p8<<1)|p9
    elif (p7,p8)==(0,0): a=(p0<<2)|(p1<<1)|p2; b=(p3<<2)|(p4<<1)|p5; c=8|p9
    elif (p7,p8)==(0,1): a=(p0<<2)|(p1<<1)|p2; b=8|p5; c=(p3<<2)|(p4<<1)|p9
    elif (p7,p8)==(1,0): a=8|p2; b=(p3<<2)|(p4<<1)|p5; c=(p0<<2)|(p1<<1)|p9
    elif (p3,p4)==(0,0): a=8|p2; b=8|p5; c=(p0<<2)|(p1<<1)|p9
    elif (p3,p4)==(0,1): a=8|p2; b=(p0<<2)|(p1<<1)|p5; c=8|p9
    elif (p3,p4)==(1,0): a=(p0<<2)|(p1<<1)|p2; b=8|p5; c=8|p9
    else: a=8|p2; b=8|p5; c=8|p9
    return a*100+b*10+c
def dpd_encode(d):
    if d[0]=='inf': return (d[1]<<127)|(0x78<<120)
    if d[0]=='nan':
        c=d[3]; lead=0; E=0; top=(0x7e if d[2] else 0x7c)<<120
    else: c=d[2]; E=d[3]+BIAS; top=None
    lead=c//10**33; rest=c%10**33; t=0
    for i in range(11): t|=declet_enc((rest//1000**i)%1000)<<(10*i)
    if d[0]=='nan': return (d[1]<<127)|top|t
    if lead>=8: comb=(0b11<<15)|((E>>12)<<13)|((lead&1)<<12)|(E&0xfff)
    else: comb=((E>>12)<<15)|(lead<<12)|(E&0xfff)
    return (d[1]<<127)|(comb<<110)|t
def dpd_decode(w):
    s=w>>127; comb=(w>>110)&0x1ffff; t=w&((1<<110)-1)
    g5=comb>>12
    rest=sum(declet_dec((t>>(10*i))&0x3ff)*1000**i for i in range(11))
    if g5==0x1e: return ('inf',s)
    if g5==0x1f: return ('nan',s,bool((comb>>11)&1),rest)
    if comb>>15==3: lead=8|((comb>>12)&1); E=(((comb>>13)&3)<<12)|(comb&0xfff)
    else: lead=(comb>>12)&7; E=((comb>>15)<<12)|(comb&0xfff)
    return ('fin',s,lead*10**33+rest,E-BIAS)
xs=[datum(rng) for _ in range(N)]
out=run([f"encode 0 00 {x:032x}" for x in xs])
for x,l in zip(xs,out):
    dx=decode(x)
    if l=='PANIC': show(('encode','PANIC'),dx); continue
    b=int(l.split()[0],16); e=dpd_encode(dx)
    if b!=e: show(('encode',dx[0]),dx,hex(x),'impl',hex(b),'ref',hex(e))
ws=[rng.getrandbits(128) if rng.random()<0.5 else dpd_encode(decode(datum(rng))) for _ in range(N)]
out=run([f"decode 0 00 {x:032x}" for x in ws])
for w,l in zip(ws,out):
    if l=='PANIC': show(('decode','PANIC'),hex(w)); continue
    b=int(l.split()[0],16); d=dpd_decode(w)
    # expected BID: canonical encoding of the datum (exponent may exceed? E up to 0x2fff)
    try:
        if d[0]=='fin' and not (QMIN<=d[3]<=QMAX): raise AssertionError
        e=encode(d)
    except AssertionError:
        bad[('decode','unrepresentable-exp')]+=1; continue
    if b!=e: show(('decode',d[0]),d,hex(w),'impl',hex(b),decode(b),'ref',hex(e))
# ---- binary -> decimal
def from_bin(mode,bits,w):
    if w==32: eb,fb=8,23
    else: eb,fb=11,52
    s=bits>>(w-1); e=(bits>>fb)&((1<<eb)-1); f=bits&((1<<fb)-1); bias=(1<<(eb-1))-1
    if e==(1<<eb)-1:
        if f==0: return [('inf',s)],0,False
        return 'nan',(0 if (f>>(fb-1))&1 else INV),s
    if e==0:
        if f==0: return [('fin',s,0,0)],0,False
        m=f; ex=1-bias-fb; fl0=DEN
    else: m=f|(1<<fb); ex=e-bias-fb; fl0=0
    if ex>=0: d,fl=round_pack(mode,s,m<<ex,1,0,0)
    else:
        d,fl=round_pack(mode,s,m*5**(-ex),1,ex,0)
    return [d],fl|fl0,False
for w,op in [(32,'from_f32'),(64,'from_f64')]:
    cs=[]
    for _ in range(N):
        k=rng.random()
        eb,fb=(8,23) if w==32 else (11,52)
        e=rng.randint(0,(1<<eb)-1) if k<0.9 else rng.choice([0,(1<<eb)-1])
        kk=rng.random()
        f=rng.getrandbits(fb) if kk<0.6 else rng.choice([0,1,(1<<fb)-1,1<<(fb-1),1<<rng.randint(0,fb-1)])
        cs.append((rng.randint(0,4),(rng.randint(0,1)<<(w-1))|(e<<fb)|f))
    out=run([f"{op} {m} 00 {b:x}" for m,b in cs])
    for (m,b),l in zip(cs,out):
        r=from_bin(m,b,w)
        if l=='PANIC': show((op,'PANIC'),hex(b)); continue
        rb,f=l.split(); rb=int(rb,16); f=int(f,16); d=decode(rb)
        if r[0]=='nan':
            ok = d[0]=='nan' and not d[2] and d[1]==r[2] and f==r[1] and ((rb>>110)&0x7ff)==0
            if not ok: show((op,'nan'),hex(b),d,hex(rb),hex(f),'ref',r)
            continue
        if rb not in [encode(x) for x in r[0]] or f!=r[1]: show((op,'val' if rb not in [encode(x) for x in r[0]] else 'flag'),m,hex(b),'impl',d,hex(f),'ref',r[0],hex(r[1]))
# ---- from int + roundtrip
for op,w,sg in [('from_i32',32,True),('from_u32',32,False),('from_i64',64,True),('from_u64',64,False)]:
    ns=[rng.choice([0,1,(1<<w)-1,1<<(w-1),(1<<(w-1))-1,rng.getrandbits(w),rng.getrandbits(rng.randint(1,w))]) for _ in range(N//4)]
    out=run([f"{op} 0 00 {n:x}" for n in ns])
    for n,l in zip(ns,out):
        v=n-(1<<w) if sg and n>>(w-1) else n
        e=encode(('fin',1 if v<0 else 0,abs(v),0))
        if int(l.split()[0],16)!=e: show((op,),v,l)
# ---- fmt + roundtrip
cs=[datum(rng) for _ in range(N)]
out=run([f"fmt 0 00 {x:032x}" for x in cs])
strs=[]
for x,l in zip(cs,out):
    dx=decode(x); s=l.rsplit(' ',1)[0].split('|')
    if dx[0]=='nan': e=('-' if dx[1] else '+')+('SNaN' if dx[2] else 'NaN')
    elif dx[0]=='inf': e=('-' if dx[1] else '+')+'Inf'
    else: e=('-' if dx[1] else '+')+str(dx[2])+'E'+('+' if dx[3]>=0 else '-')+str(abs(dx[3]))
    if s[0]!=e or s[1]!=e or s[3]!=e or s[2]!=e.replace('E','e'): show(('fmt',dx[0]),dx,s,e)
    strs.append((x,s[0]))
out=run([f"parse {i%5} 00 {s}" for i,(x,s) in enumerate(strs)])
for (x,s),l in zip(strs,out):
    dx=decode(x)
    if l=='PANIC': show(('rt','PANIC'),s); continue
    b,f=l.split(); b=int(b,16); f=int(f,16)
    if dx[0]=='nan': e=encode(('nan',dx[1],dx[2],0))
    else: e=encode(dx)
    if b!=e or f!=0: show(('roundtrip',dx[0]),dx,s,'impl',decode(b),hex(f))
print(sorted(bad.items(),key=str))
