import os,random,collections
os.environ['RUNNER']='/tmp/scratch_mut/target/release/scratch'
from gen import *
exec(open('fma_of.py').read().split("out=run(")[0])
out=run([f"fma {m} 00 "+' '.join(f"{a:032x}" for a in args) for m,args,_,_ in cases])
for (m,args,delta,q4),l in zip(cases,out):
    acc,fl=fma(m,*args)
    b,f=l.split(); b=int(b,16); f=int(f,16)
    if b not in [encode(d) for d in acc] or f!=fl:
        print('mode',m,'delta',delta,'q4',q4,[decode(a) for a in args],'impl',decode(b),hex(f),'ref',acc,hex(fl))
