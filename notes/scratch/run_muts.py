import subprocess,sys,os,re
exec(open('muts.py').read())
REPO='/tmp/mut'
def sh(cmd,cwd=None,timeout=3000):
    return subprocess.run(cmd,shell=True,cwd=cwd,capture_output=True,text=True,timeout=timeout)
# special mutations
def apply(m):
    mid,f,anchor,old,new=m
    p=os.path.join(REPO,f); s=open(p).read()
    i=s.index(anchor)
    if mid.startswith('M7a'):
        # change entry 777 of B2D: find the 778th 0x..u64 literal after anchor
        it=list(re.finditer(r'0x[0-9a-fA-F]+u64',s[i:]))
        mt=it[777]; v=int(mt.group()[2:-3],16)^0x1
        s=s[:i+mt.start()]+f"0x{v:x}u64"+s[i+mt.end():]
    elif mid.startswith('M22'):
        old="res = if (y.w[1] & MASK_SIGN) == MASK_SIGN { y } else { x }; // if equal"; new="res = if (y.w[1] & MASK_SIGN) == MASK_SIGN { x } else { y }; // if equal"
        j=s.index(old,i); s=s[:j]+new+s[j+len(old):]
    else:
        j=s.index(old,i); s=s[:j]+new+s[j+len(old):]
    open(p,'w').write(s)
sel=sys.argv[1:] 
for m in MUTS:
    if sel and m[0] not in sel: continue
    sh('git checkout -q -- src',cwd=REPO)
    try: apply(m)
    except ValueError as e: print(m[0],'APPLY-FAIL',e); continue
    r=sh('CARGO_NET_OFFLINE=true cargo nextest run --workspace --no-fail-fast --offline 2>&1 | tail -3',cwd=REPO)
    summ=[l for l in r.stdout.split('\n') if 'Summary' in l or 'error' in l]
    b=sh('CARGO_NET_OFFLINE=true cargo build --offline --release 2>&1 | tail -1',cwd='/tmp/scratch_mut')
    print(m[0],'TESTS:',summ,'BUILD:',b.stdout.strip()[-40:],flush=True)
    env='RUNNER=/tmp/scratch_mut/target/release/scratch '
    for script,args in [('scout_cmp.py','7 30000'),('scout_misc.py','7 8000'),('scout_misc2.py','7 8000'),('scout_misc3.py','7 8000'),('scout_ref.py','7 40000 add,sub,mul,div,sqrt'),('scout_hist.py','7 30000'),('scout2.py','7 20000')]:
        o=sh(env+f'python3 {script} {args} 2>&1 | tail -1',cwd='/tmp/scratch')
        last=o.stdout.strip().split('\n')[-1][:300]
        print('   ',script,'->',last,flush=True)
sh('git checkout -q -- src',cwd=REPO)
