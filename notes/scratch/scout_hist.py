import sys,collections,random
from gen import *
rng=random.Random(int(sys.argv[1])); N=int(sys.argv[2])
bad=collections.Counter()
ops2=['add','sub','mul','div','quantize','rem','fmod','fdim','nextafter','minnum','maxnum','minmag','maxmag']
ops1=['sqrt','rint','nearbyint','rint_ne','rint_na','rint_dn','rint_up','rint_tz','nextup','nextdown','logb','ilogb','quantexp','llquantexp','lrint','llrint','lround','llround','to_i32_xrnint','to_u64_xceil','to_i64_floor','modf']
cases=[]
for _ in range(N):
    k=rng.random(); m=rng.randint(0,4)
    if k<0.5:
        op=rng.choice(ops2); x,y=pair(rng); cases.append((op,m,f"{x:032x} {y:032x}"))
    elif k<0.8:
        op=rng.choice(ops1); x=datum(rng); cases.append((op,m,f"{x:032x}"))
    elif k<0.9:
        x=datum(rng); dx=decode(x)
        n=(QMIN-dx[3]-rng.randint(-3,40)) if dx[0]=='fin' else 5
        cases.append((rng.choice(['scaleb','ldexp']),m,f"{x:032x} {n&0xffffffff:x}"))
    else:
        x,y=pair(rng); z=datum(rng); cases.append(('fma',m,f"{x:032x} {y:032x} {z:032x}"))
res={}
for f0 in (0,0x20,0x3f,0x01,0x10):
    res[f0]=run([f"{op} {m} {f0:02x} {a}" for op,m,a in cases])
for i,(op,m,a) in enumerate(cases):
    base=res[0][i]
    if base=='PANIC': continue
    bv,bf=base.rsplit(' ',1); bf=int(bf,16)
    for f0 in (0x20,0x3f,0x01,0x10):
        l=res[f0][i]; v,f=l.rsplit(' ',1); f=int(f,16)
        if v!=bv or f!=(bf|f0):
            bad[(op,hex(f0),'val' if v!=bv else 'flag')]+=1
            if bad[(op,)]<3: bad[(op,)]+=1; print('HIST',op,m,a,'f0',hex(f0),'base',base,'got',l)
print(sorted(bad.items(),key=str))
