import sys,collections,random
from gen import *
rng=random.Random(int(sys.argv[1])); N=int(sys.argv[2])
ops=sys.argv[3].split(',')
bad=collections.Counter()
def show(key,*a):
    bad[key]+=1
    if bad[key]<=4: print('MISMATCH',key,*a)
cases=[]
for i in range(N):
    op=rng.choice(ops); m=rng.randint(0,4)
    x,y=pair(rng)
    if op in('mul','div','fma') and rng.random()<0.5:
        # push toward overflow/underflow edges
        dx,dy=decode(x),decode(y)
        if dx[0]=='fin' and dy[0]=='fin':
            tgt=rng.choice([QMAX,QMAX-34,QMIN,QMIN-34,QMIN-40,EMIN])+rng.randint(-4,4)
            if op=='div': qx=tgt+dy[3]
            else: qx=tgt-dy[3]
            qx=max(QMIN,min(QMAX,qx)); x=encode(('fin',dx[1],dx[2],qx))
    z=None
    if op=='fma':
        dx,dy=decode(x),decode(y)
        if dx[0]=='fin' and dy[0]=='fin' and rng.random()<0.85:
            qp=dx[3]+dy[3]; z=fin(rng,e=qp+rng.randint(-75,75))
        else: z=datum(rng)
    if op=='sqrt':
        dx=decode(x)
        if dx[0]=='fin' and rng.random()<0.9:
            c=dx[2]
            k=rng.random()
            if k<0.3 and c: 
                r=rng.randint(1,10**rng.randint(1,17)); c=r*r
                if rng.random()<0.3: c+=rng.choice([-1,1])
                c=max(c,1)
            x=encode(('fin',0,c,dx[3]))
    args=[x] if op=='sqrt' else [x,y] if z is None else [x,y,z]
    cases.append((op,m,args))
out=run([f"{op} {m} 00 "+' '.join(f"{a:032x}" for a in args) for op,m,args in cases])
for (op,m,args),l in zip(cases,out):
    if op=='add': acc,fl=add(m,*args)
    elif op=='sub': acc,fl=add(m,*args,sub=True)
    elif op=='mul': acc,fl=mul(m,*args)
    elif op=='div': acc,fl=div(m,*args)
    elif op=='fma': acc,fl=fma(m,*args)
    elif op=='sqrt': acc,fl=sqrt(m,*args)
    if l=='PANIC':
        bad[(op,'PANIC')]+=1; continue
    b,f=l.split(); b=int(b,16); f=int(f,16)
    accb=[encode(d) for d in acc]
    if b not in accb: show((op,'val',m),[decode(a) for a in args],'impl',decode(b),hex(f),'ref',acc,hex(fl))
    elif f!=fl: show((op,'flag'),m,[decode(a) for a in args],'impl',decode(b),hex(f),'ref',acc,hex(fl))
print(sorted(bad.items(),key=str))
