import random,collections
from gen import *
rng=random.Random(77); cases=[]
for _ in range(400000):
    q1=rng.randint(1,34); q2=rng.randint(1,34); c1=coeff(rng,q1); c2=coeff(rng,q2)
    q4=ndig(c1*c2)
    e4=rng.randint(6080,6200); e1=rng.randint(max(QMIN,e4-QMAX),min(QMAX,e4-QMIN)); e2=e4-e1
    if not (QMIN<=e2<=QMAX): continue
    q3=rng.randint(1,34); c3=coeff(rng,q3)
    delta=rng.choice([-36,-35,-34,-33,-32,-1,0,1,33,34,35,rng.randint(-70,70)])
    e3=delta+q4+e4-q3
    if not (QMIN<=e3<=QMAX): continue
    m=rng.randint(0,4)
    cases.append((m,[encode(('fin',rng.randint(0,1),c1,e1)),encode(('fin',rng.randint(0,1),c2,e2)),encode(('fin',rng.randint(0,1),c3,e3))],delta,q4))
out=run([f"fma {m} 00 "+' '.join(f"{a:032x}" for a in args) for m,args,_,_ in cases])
bad=collections.Counter()
for (m,args,delta,q4),l in zip(cases,out):
    acc,fl=fma(m,*args)
    if l=='PANIC': bad[('PANIC',delta)]+=1; continue
    b,f=l.split(); b=int(b,16); f=int(f,16)
    if b not in [encode(d) for d in acc] or f!=fl:
        bad[('bad',delta if abs(delta)<40 else 'other', 'q4<=34' if q4<=34 else 'q4>34')]+=1
        if bad['shown']<6: bad['shown']+=1; print(m,[decode(a) for a in args],'impl',decode(b),hex(f),'ref',acc,hex(fl))
print(len(cases),sorted(bad.items(),key=str))
