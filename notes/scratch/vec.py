import re,glob,collections,subprocess
from gen import run
from ref import decode
opmap={'bid128_add':'add','bid128_sub':'sub','bid128_mul':'mul','bid128_div':'div','bid128_fma':'fma','bid128_sqrt':'sqrt','bid128_quantize':'quantize','bid128_rem':'rem','bid128_fmod':'fmod','bid128_fdim':'fdim',
 'bid128_round_integral_exact':'rint','bid128_nearbyint':'nearbyint','bid128_round_integral_nearest_even':'rint_ne','bid128_round_integral_nearest_away':'rint_na','bid128_round_integral_negative':'rint_dn','bid128_round_integral_positive':'rint_up','bid128_round_integral_zero':'rint_tz',
 'bid128_nextup':'nextup','bid128_nextdown':'nextdown','bid128_nextafter':'nextafter','bid128_nexttoward':'nexttoward','bid128_minnum':'minnum','bid128_maxnum':'maxnum','bid128_minnum_mag':'minmag','bid128_maxnum_mag':'maxmag','bid128_logb':'logb',
 'bid128_scalbn':None,'bid128_abs':'abs','bid128_negate':'neg','bid128_copy':'copy','bid128_copy_sign':'copysign','bid128_quantum':'quantum','bid_to_dpd128':'encode','bid_dpd_to_bid128':'decode'}
cnt=collections.Counter(); cases=[]; meta=[]
for f in glob.glob('/repo/tests/*.rs'):
    for line in open(f):
        m=re.match(r'dec_test!\((\w+),\s*(\w+),(.*)\);',line.strip())
        if not m: continue
        name,op,rest=m.groups()
        if op not in opmap or opmap[op] is None: cnt['skip:'+op]+=1; continue
        args=[a.strip() for a in rest.split(',')]
        isv=lambda a: re.match(r'0x[0-9a-fA-F]+u128$',a) or re.match(r'^".*"$',a)
        hexes=[a for a in args if isv(a)]
        others=[a for a in args if not isv(a)]
        vals=[]
        for h in hexes:
            if h.startswith('"'):
                r=run([f"parse 0 00 {h[1:-1]}"])[0]
                vals.append(int(r.split()[0],16) if r!='PANIC' else 0)
            else: vals.append(int(h[:-4],16))
        mode=0
        if len(others)>=1 and re.match(r'^\d+$',others[0]) and op not in('bid128_abs','bid128_negate','bid128_copy','bid128_copy_sign','bid128_quantum','bid_to_dpd128','bid_dpd_to_bid128'):
            mode=int(others[0])
        if len(vals)<2: cnt['odd:'+op]+=1; continue
        ins,exp=vals[:-1],vals[-1]
        st=None
        if others and re.match(r'0x[0-9a-fA-F]+$',others[-1]): st=int(others[-1],16)
        cases.append(f"{opmap[op]} {mode if mode<5 else 0} 00 "+' '.join(f"{v:032x}" for v in ins)); meta.append((name,op,mode,ins,exp,st))
out=run(cases)
bad=collections.Counter()
for (name,op,mode,ins,exp,st),l in zip(meta,out):
    cnt[op]+=1
    if l=='PANIC': bad[(op,'PANIC')]+=1; continue
    b,f=l.split(); b=int(b,16); f=int(f,16)
    if b!=exp:
        k=(op,'bits', decode(exp)[0])
        bad[k]+=1
        if bad[k]<=4: print(name,mode,[decode(i) for i in ins],'impl',decode(b),hex(b),'intel',decode(exp),hex(exp))
    if st is not None and f!=st: bad[(op,'flags')]+=1
print(sorted(bad.items(),key=str)); print(sum(v for k,v in cnt.items() if not k.startswith('skip') and not k.startswith('odd')), [k for k in cnt if k.startswith('skip') or k.startswith('odd')][:80])
