import random,collections
from gen import *
rng=random.Random(3); ps=[pair(rng) for _ in range(100000)]
hx=run([f"hash 0 00 {x:032x}" for x,y in ps]); hy=run([f"hash 0 00 {y:032x}" for x,y in ps])
bad=collections.Counter(); eqs=0
for (x,y),a,b in zip(ps,hx,hy):
    dx,dy=decode(x),decode(y)
    r=cmp4(dx,dy)
    eq = r=='=' or (dx[0]=='nan' and dy[0]=='nan')
    if eq:
        eqs+=1
        if a!=b: bad['eq-but-hash-differs']+=1; print(dx,dy,a,b) if bad['eq-but-hash-differs']<4 else None
    else:
        if a==b: bad['neq-but-same-hash-input']+=1
print(eqs,sorted(bad.items()))
