#!/usr/bin/env python3
"""prints the DESIGN.md section-20 table rows for the seeds whose id matches the given substring (from seeded/<id>/meta.json)"""
import json, os, sys
ROOT = os.path.dirname(os.path.dirname(os.path.abspath(__file__)))
pat = sys.argv[1] if len(sys.argv) > 1 else ''
def cell(t, n): 
    t = ' '.join(str(t or '').split()).replace('|', '/')
    return t if len(t) <= n else t[:n - 1] + '…'
for sid in sorted(os.listdir(os.path.join(ROOT, 'seeded'))):
    if pat not in sid: continue
    m = json.load(open(os.path.join(ROOT, 'seeded', sid, 'meta.json')))
    ran = m.get('ran', {})
    props = ran.get('command', '').split('patch.diff')[-1].strip()
    print('| %s | %s | %s | %s | %s | %s |' % (sid, cell(m.get('summary'), 260), cell(m.get('needs_to_manifest'), 200), props, cell(ran.get('result'), 260), cell(ran.get('note', '—'), 80)))
