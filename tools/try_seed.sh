#!/bin/bash
# try_seed.sh <patch.diff> <prop> [<prop>...] : applies the patch to /repo, runs the quick checks, undoes the patch
set -u
DIFF=$1; shift
cd /repo && git status --porcelain | grep -q . && { echo "/repo not clean"; exit 2; }
git -C /repo apply $DIFF || exit 2
for p in "$@"; do
  (cd /verif && ./check $p --tier quick 2>&1 | grep -E "VIOLATION|KNOWN|tier=" | cut -c1-230 | sed "s/^/[$p] /")
done
git -C /repo checkout -- .
