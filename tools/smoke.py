#!/usr/bin/env python3
"""model-validation aid: random datum cases for every operation; prints rejects per op (not a registered check)"""
import sys, os, random, collections, subprocess
sys.path.insert(0, '/verif/lib')
from dec import *
import runner as R
N = int(sys.argv[1]) if len(sys.argv) > 1 else 2000
only = sys.argv[2].split(',') if len(sys.argv) > 2 else None
rng = random.Random(7)
one = ['sqrt', 'rint', 'nearbyint', 'rint_ne', 'rint_na', 'rint_dn', 'rint_up', 'rint_tz', 'modf', 'frexp', 'nextup', 'nextdown', 'logb', 'ilogb',
       'quantexp', 'llquantexp', 'quantum', 'class', 'isx', 'abs', 'neg', 'copy', 'encode', 'decode', 'lrint', 'llrint', 'lround', 'llround', 'fmt', 'o_neg'] + \
      ['to_%s_%s%s' % (t, x, k) for t in ('i32', 'u32', 'i64', 'u64') for x in ('', 'x') for k in ('rnint', 'floor', 'ceil', 'int', 'rninta')]
two = ['add', 'sub', 'mul', 'div', 'quantize', 'rem', 'fmod', 'fdim', 'nextafter', 'nexttoward', 'minnum', 'maxnum', 'minmag', 'maxmag', 'samequantum',
       'totalorder', 'totalordermag', 'copysign', 'ops', 'hasheq', 'hashset', 'o_add', 'o_sub', 'o_mul', 'o_div', 'o_rem']
lines = []
def related(x):
    d = decode(x)
    if d[0] != 'fin' or d[2] == 0 or rng.random() < 0.4: return datum(rng, 0.4)
    _, s, c, q = d; k = rng.random()
    if k < 0.3:
        cc, qq = c, q
        while cc % 10 == 0 and qq < QMAX and rng.random() < 0.7: cc //= 10; qq += 1
        while cc * 10 < T34 and qq > QMIN and rng.random() < 0.5: cc *= 10; qq -= 1
        return fin(s if rng.random() < 0.8 else 1 - s, cc, qq)
    if k < 0.6:
        g = rng.randint(0, 34 - ndig(c)); cc = c * 10 ** g + rng.choice([-1, 1]); qq = q - g
        return fin(s, cc, qq) if qq >= QMIN and 0 < cc < T34 else finite(rng, e=q)
    return finite(rng, e=q + rng.randint(-40, 40))
for op in one:
    if only and op not in only: continue
    for _ in range(N):
        x = datum(rng, 0.35)
        if op.startswith('to_') or op in ('lrint', 'llrint', 'lround', 'llround'):
            if rng.random() < 0.8: x = fin(rng.randint(0, 1), coeff(rng), rng.randint(-40, 3))
        if op == 'decode': x = rng.getrandbits(128) if rng.random() < 0.5 else x
        lines.append(line(op, rng.choice(MODES), status_in(rng), x))
for op in two:
    if only and op not in only: continue
    for _ in range(N):
        x = datum(rng, 0.35); y = related(x)
        if rng.random() < 0.5: x, y = y, x
        lines.append(line(op, rng.choice(MODES), status_in(rng), x, y))
if not only or 'cmp' in only:
    for _ in range(N):
        x = datum(rng, 0.35); y = related(x)
        for i in range(20): lines.append(line('cmp', 0, status_in(rng), x, y, '%x' % i))
if not only or 'fma' in only:
    for _ in range(N):
        lines.append(line('fma', rng.choice(MODES), status_in(rng), datum(rng, 0.2), datum(rng, 0.2), datum(rng, 0.2)))
for op in ('scaleb', 'ldexp', 'scalebln'):
    if only and op not in only: continue
    for _ in range(N):
        n = rng.choice([rng.randint(-50, 50), rng.randint(-13000, 13000), rng.randint(-2 ** 31, 2 ** 31 - 1), 2 ** 31 - 1, -2 ** 31])
        if op == 'scalebln' and rng.random() < 0.3: n = rng.choice([2 ** 63 - 1, -2 ** 63, rng.randint(-2 ** 63, 2 ** 63 - 1)])
        w = 64 if op == 'scalebln' else 32
        lines.append(line(op, rng.choice(MODES), status_in(rng), datum(rng, 0.3), '%x' % (n & (2 ** w - 1))))
for op, w in (('from_i32', 32), ('from_u32', 32), ('from_i64', 64), ('from_u64', 64), ('from_f32', 32), ('from_f64', 64), ('fromf32_t', 32), ('fromf64_t', 64)):
    if only and op not in only: continue
    for _ in range(N):
        v = rng.getrandbits(w) if rng.random() < 0.7 else rng.choice([0, 1, 2 ** w - 1, 2 ** (w - 1), 2 ** (w - 1) - 1, rng.getrandbits(12)])
        lines.append(line(op, rng.choice(MODES), status_in(rng), '%x' % v))
for op in ('sum', 'product'):
    if only and op not in only: continue
    for _ in range(N // 4):
        lines.append(line(op, 0, 0, *[datum(rng, 0.1) for _ in range(rng.randint(0, 5))]))
scratch = '/verif/run/smoke'; os.makedirs(scratch, exist_ok=True)
outs, verdicts, summ = R.run_cases(lines, scratch, tag='smoke')
print(dict(summ))
by = collections.defaultdict(list)
for v in verdicts:
    d = R.parse_verdict(v) if not v.startswith('BROKEN') else dict(kind='BROKEN', case='x', got=v, expected='')
    by[(d['kind'], d['case'].split()[0] if d['case'] else '?')].append(d)
for k, ds in sorted(by.items()):
    print(k, len(ds))
    for d in ds[:int(os.environ.get('SHOW', '3'))]:
        print('    ', d['case'], '=>', d['got'], '|| exp', d['expected'])
        for a in d['case'].split()[3:]:
            if len(a) == 32: print('         ', decode(int(a, 16)))
