#!/usr/bin/env python3
"""pickhunks.py <file.diff> <i,j,k...>  -> prints a diff made of the selected hunks (0-based) of a one-file diff"""
import sys, re
d = open(sys.argv[1]).read()
idx = [int(x) for x in sys.argv[2].split(',')]
m = re.search(r'(?m)^@@', d)
head, body = d[:m.start()], d[m.start():]
hunks = re.split(r'(?m)^(?=@@ )', body)
hunks = [h for h in hunks if h]
sys.stdout.write(head + ''.join(hunks[i] for i in idx))
