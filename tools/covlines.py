#!/usr/bin/env python3
"""covlines.py [--branches] <cases.txt> <file.rs> [a-b ...] : (--branches: also the taken-counts of each branch direction, block.branch=count, "-" = never evaluated) runs the coverage-instrumented harness (/tmp/cov, built by the recipe in tools/covscan.py) on a case
file and prints, for the given line ranges of src/<file.rs> (default: every instrumented line), the execution counts; also judges the outputs
with the extracted model (/verif/ocaml/driver) and prints the verdict summary - a REJECT on the unchanged crate is either a model error or a
genuine defect and must be reported.  Development-time tool."""
import sys, os, subprocess, tempfile, collections
TOOLS = os.path.expanduser('~/.rustup/toolchains/nightly-x86_64-unknown-linux-gnu/lib/rustlib/x86_64-unknown-linux-gnu/bin')
BR = '--branches' in sys.argv
if BR: sys.argv.remove('--branches')
BIN = '/tmp/cov/harness/target_br/debug/verif-harness' if BR else '/tmp/cov/harness/target/debug/verif-harness'
DRIVER = os.path.join(os.path.dirname(os.path.dirname(os.path.abspath(__file__))), 'ocaml', 'driver')
cases, fname = sys.argv[1], sys.argv[2]
rngs = [tuple(int(x) for x in (a.split('-') if '-' in a else (a, a))) for a in sys.argv[3:]]
d = tempfile.mkdtemp(prefix='covl')
env = dict(os.environ, LLVM_PROFILE_FILE=d + '/p.profraw')
out = subprocess.run('%s < %s' % (BIN, cases), shell=True, env=env, capture_output=True, text=True).stdout
open(d + '/out.txt', 'w').write(out)
v = subprocess.run('%s < %s/out.txt' % (DRIVER, d), shell=True, capture_output=True, text=True).stdout.strip().split('\n')
bad = [l for l in v if l and not l.startswith('SUMMARY') and not l.startswith('KNOWN')]
print('judge:', v[-1] if v else 'no output'); 
for l in bad[:10]: print('  NOT ACCEPTED:', l[:300])
subprocess.run('%s/llvm-profdata merge -sparse %s/p.profraw -o %s/p.profdata' % (TOOLS, d, d), shell=True, check=True)
lc = subprocess.run('%s/llvm-cov export --format=lcov --instr-profile=%s/p.profdata %s' % (TOOLS, d, BIN), shell=True, capture_output=True, text=True).stdout
cur = None; cov = {}; brs = {}
for l in lc.split('\n'):
    if l.startswith('SF:'): cur = l[3:]
    elif l.startswith('BRDA:') and cur and cur.endswith('/src/' + fname):
        ln, blk, b, t = l[5:].split(','); brs.setdefault(int(ln), []).append('%s.%s=%s' % (blk, b, t))
    elif l.startswith('DA:') and cur and cur.endswith('/src/' + fname):
        ln, c = l[3:].split(',')[:2]; cov[int(ln)] = int(c)
if not rngs: rngs = [(min(cov), max(cov))] if cov else []
for a, b in rngs:
    for k in range(a, b + 1):
        if k in cov: print('%s:%d  %d%s' % (fname, k, cov[k], ('   branches ' + ' '.join(brs[k])) if BR and k in brs else ''))
