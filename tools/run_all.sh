#!/bin/bash
# runs every claimed check (quick tier) on the current /repo tree; prints one summary line per check
cd /verif
git -C /repo status --porcelain | grep -q . && echo "WARNING: /repo working tree is not clean"
for p in $(python3 -c "import json; print(' '.join(c['property_id'] for c in json.load(open('MANIFEST.json'))['checks']))"); do
  ./check $p --tier ${1:-quick} 2>&1 | grep -E "VIOLATION|tier=" | cut -c1-220
done
