#!/bin/bash
# confirm_seed.sh <worktree> <change.diff> <demo.rs> : confirms (1) patch applies, (2) suite passes with it, (3) demo fails with it, (4) demo passes without it
set -u
WT=$1; DIFF=$2; DEMO=$3
cd $WT || exit 2
git checkout -q -- . ; git clean -qfd tests src 2>/dev/null
git apply $DIFF || { echo "CONFIRM: patch does not apply"; exit 1; }
S=$(cargo nextest run --workspace --no-fail-fast --test-threads 8 --offline 2>&1 | grep -E "Summary|tests run" | tail -1)
echo "suite with change: $S"
name=seeded_demo_$$
cp $DEMO tests/$name.rs
D1=$(cargo test --offline --test $name 2>&1 | grep -E "^test result|error(\[|:)" | head -3 | tr '\n' ' ')
echo "demo with change: $D1"
git checkout -q -- src
D2=$(cargo test --offline --test $name 2>&1 | grep -E "^test result|error(\[|:)" | head -3 | tr '\n' ' ')
echo "demo without change: $D2"
rm -f tests/$name.rs
git checkout -q -- . 
case "$S" in *"38750 passed"*) ;; *) echo "CONFIRM: FAIL (suite)"; exit 1;; esac
case "$D1" in *FAILED*) ;; *) echo "CONFIRM: FAIL (demo does not fail with change)"; exit 1;; esac
case "$D2" in *"test result: ok"*) ;; *) echo "CONFIRM: FAIL (demo does not pass without change)"; exit 1;; esac
echo "CONFIRM: OK"
