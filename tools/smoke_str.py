#!/usr/bin/env python3
import sys, os, random, collections
sys.path.insert(0, '/verif/lib')
from dec import *
import runner as R
N = int(sys.argv[1]) if len(sys.argv) > 1 else 2000
rng = random.Random(11)
def hexs(s): return s.encode().hex() or '-'
def lit(rng):
    nd = rng.choice([rng.randint(1, 34), rng.randint(1, 34), rng.randint(35, 100), rng.randint(30, 40)])
    ds = ''.join(rng.choice('0123456789') for _ in range(nd))
    if rng.random() < 0.3: ds = ds[:34] + rng.choice(['5' + '0' * (nd - 35), '49' + '9' * (nd - 36), '50' + '0' * (nd - 37) + '1', '0' * (nd - 34)]) if nd > 36 else ds
    if rng.random() < 0.2: ds = '0' * rng.randint(1, 5) + ds
    k = rng.random()
    if k < 0.4: p = rng.randint(0, len(ds)); ds = ds[:p] + '.' + ds[p:]
    s = rng.choice(['', '+', '-'])
    e = ''
    if rng.random() < 0.7:
        ev = rng.choice([rng.randint(-70, 70), rng.randint(-6300, 6300), -6176 + rng.randint(-40, 40), 6111 + rng.randint(-40, 40), 6144 - nd + rng.randint(-3, 3)])
        e = rng.choice('eE') + rng.choice(['', '+', '-'] if ev >= 0 else ['-']) .replace('-', '-' if ev < 0 else '') + str(abs(ev))
        if ev < 0 and not e[1:].startswith('-'): e = e[0] + '-' + str(abs(ev))
    return s + ds + e
lines = []
for _ in range(N):
    lines.append('parse %d %x %s' % (rng.choice(MODES), status_in(rng), hexs(lit(rng))))
for sp in ['inf', 'Inf', 'INF', 'infinity', 'Infinity', 'nan', 'NaN', 'snan', 'SNaN', 'sNaN', 'infinit', 'nanx', 'snanx', 'in', '', ' 1', '\t1', '1 ', '+', '-', '.', '+.', '1e', '1E+', '1E-', 'e5', '1.2.3', '1e5.0', '1e5e5', '--1', '+-1', '0', '-0', '0.0', '.0', '0.', '00', '0e0', '0e-7000', '0E7000', '1e-6176', '1e-6177', '5e-6177', '9e6144', '1e6145', '9.999e6144', '1/2', '1:2', '!', '/', "'", '1,5', '٣', 'ñ', '+aaañ', '1ñ', '1e٣']:
    for sg in ['', '+', '-']:
        for op in ('parse', 'fromstr', 'fromstr2'):
            lines.append('%s %d 0 %s' % (op, rng.choice(MODES), hexs(sg + sp)))
for _ in range(N // 4):
    lines.append('fromstr 0 0 %s' % hexs(lit(rng)))
    lines.append('fromstr2 0 0 %s' % hexs(lit(rng)))
scratch = '/verif/run/smoke'; os.makedirs(scratch, exist_ok=True)
outs, verdicts, summ = R.run_cases(lines, scratch, tag='smokes')
print(dict(summ))
by = collections.defaultdict(list)
for v in verdicts:
    d = R.parse_verdict(v) if not v.startswith('BROKEN') else dict(kind='BROKEN', case='x', got=v, expected='')
    by[(d['kind'], d['case'].split()[0] if d['case'] else '?')].append(d)
for k, ds in sorted(by.items()):
    print(k, len(ds))
    for d in ds[:int(os.environ.get('SHOW', '12'))]:
        t = d['case'].split()
        print('    ', t[0], t[1], t[2], repr(bytes.fromhex(t[3]).decode(errors='replace')) if len(t) > 3 and t[3] != '-' else "''", '=>', d['got'], '|| exp', d['expected'])
