#!/usr/bin/env python3
import json,sys
sys.path.insert(0,'/verif/lib'); import dec as D
for f in sys.argv[1:]:
    r=json.load(open(f)); print(r['kind'], r['case'], '=>', r['got'], '|| exp', r['expected'], 'similar', r.get('similar_cases_this_run'), r.get('stream'))
    t=r['case'].split()
    for a in t[3:]:
        if len(a)==32: print('   ', D.decode(int(a,16)))
    g=r['got'].split()
    if g and len(g[0])==32: print('   got', D.decode(int(g[0],16)))
    for e in r['expected'].split(' | '):
        e=e.split()
        if e and len(e[0])==32: print('   exp', D.decode(int(e[0],16)), e[-1])
