#!/usr/bin/env python3
"""mutscan.py <Cxx> [--n N] [--seed S] [--files a.rs,b.rs] [--suite]
Development-time measurement (NOT a check, not registered in MANIFEST.json): applies N random single-token changes to the source files a
property is anchored in - in a scratch worktree of /repo under /tmp/ms, never in /repo itself - rebuilds a scratch copy of the harness
against that worktree, runs the property's quick-tier streams (same generators, same seed as ./check) and the extracted judge, and records
for every change that compiles whether the correspondence check rejects anything.  With --suite, the changes that the streams do not
notice are also run through the crate's own test suite, to separate 'equivalent or unreachable' from 'a gap of the generators'.
Output: /verif/notes/mutscan/<Cxx>.jsonl (one record per change) and a summary on stdout."""
import sys, os, re, json, random, subprocess, shutil, argparse, time
ROOT = os.path.dirname(os.path.dirname(os.path.abspath(__file__)))
sys.path.insert(0, os.path.join(ROOT, 'lib'))
import runner as R, props as P

MS = '/tmp/ms'
WT = MS + '/repo'
HN = MS + '/harness'
FILES = {
    'C01': ['bid128_add.rs', 'bid128_mul.rs', 'bid128_div.rs', 'bid128_sqrt.rs', 'bid_div_macros.rs', 'bid_sqrt_macros.rs'],
    'C02': ['bid128_fma.rs'], 'C03': ['bid128_compare.rs'], 'C04': ['bid128_string.rs'], 'C05': ['bid128_string.rs', 'bid128_2_str_macros.rs'],
    'C06': ['bid128_to_int32.rs', 'bid128_to_int64.rs', 'bid128_to_uint32.rs', 'bid128_to_uint64.rs', 'bid_from_int.rs', 'bid128_lrint.rs', 'bid128_llrint.rs',
            'bid128_lround.rs', 'bid128_llround.rs'],
    'C07': ['bid_binarydecimal.rs'], 'C08': ['bid128_round_integral.rs', 'bid128_nearbyint.rs', 'bid128_modf.rs'],
    'C09': ['bid128_quantize.rs', 'bid128_quantum.rs', 'bid128_quantexp.rs', 'bid128_llquantexp.rs'], 'C10': ['bid128_rem.rs', 'bid128_fmod.rs'],
    'C11': ['bid128_scalbn.rs', 'bid128_scalbln.rs', 'bid128_ldexp.rs', 'bid128_logb.rs', 'bid128_ilogb.rs', 'bid128_frexp.rs'],
    'C12': ['bid128_noncomp.rs', 'bid128_fdim.rs'], 'C13': ['bid128_noncomp.rs', 'bid_internal.rs'], 'C16': ['bid128_minmax.rs'],
    'C17': ['bid128_next.rs', 'bid128_nexttoward.rs'], 'C18': ['bid128_noncomp.rs'], 'C19': ['bid_dpd.rs'], 'C20': ['d128.rs'],
    'C14': ['bid128_to_uint32.rs', 'bid128_round_integral.rs', 'bid128_next.rs', 'bid128_ldexp.rs'], 'C15': ['bid128_string.rs', 'bid128_rem.rs'],
}


def sh(cmd, cwd=None, timeout=3600):
    p = subprocess.run(cmd, shell=True, cwd=cwd, stdout=subprocess.PIPE, stderr=subprocess.STDOUT, text=True, timeout=timeout)
    return p.returncode, p.stdout


def setup():
    os.makedirs(MS, exist_ok=True)
    if not os.path.isdir(WT):
        rc, out = sh('git -C /repo worktree add --detach %s HEAD' % WT)
        assert rc == 0, out
    sh('git checkout -q -- .', cwd=WT)
    sh('git checkout -q --detach $(git -C /repo rev-parse HEAD)', cwd=WT)   # follow /repo's HEAD (repairs committed since the worktree was made)
    if not os.path.isdir(HN):
        os.makedirs(HN)
        shutil.copytree(os.path.join(ROOT, 'harness', 'src'), HN + '/src')
        for f in ('Cargo.toml', 'Cargo.lock'):
            shutil.copy(os.path.join(ROOT, 'harness', f), HN)
        if os.path.isdir(os.path.join(ROOT, 'harness', '.cargo')): shutil.copytree(os.path.join(ROOT, 'harness', '.cargo'), HN + '/.cargo')
        t = open(HN + '/Cargo.toml').read()
        t2 = re.sub(r'path\s*=\s*"[^"]*"', 'path = "%s"' % WT, t)
        assert t2 != t or WT in t
        open(HN + '/Cargo.toml', 'w').write(t2)
    shutil.copy(os.path.join(ROOT, 'harness', 'src', 'main.rs'), HN + '/src/main.rs')


def build():
    env = dict(os.environ, RUSTFLAGS='--cfg decmathlib_rs_verif', CARGO_NET_OFFLINE='true')
    p = subprocess.run('timeout 900 cargo build --offline 2>&1', shell=True, cwd=HN, env=env, stdout=subprocess.PIPE, text=True)
    return p.returncode, p.stdout


TOK = [
    (r'(?<![<>=!\-])<=(?!=)', ['<']), (r'(?<![<>=!\-])>=(?!=)', ['>']),
    (r'(?<=[\w\)\] ]) < (?=[\w\(])', [' <= ']), (r'(?<=[\w\)\] ]) > (?=[\w\(])', [' >= ']),
    (r'==', ['!=']), (r'!=', ['==']), (r'&&', ['||']), (r'\|\|', ['&&']),
    (r'(?<=[\w\)\]]) \+ (?=[\w\(])', [' - ']), (r'(?<=[\w\)\]]) - (?=[\w\(])', [' + ']),
    (r'\+= 1\b', ['+= 2', '-= 1']), (r'-= 1\b', ['+= 1']),
    (r'\.w\[0\]', ['.w[1]']), (r'\.w\[1\]', ['.w[0]']), (r'\.w\[2\]', ['.w[1]', '.w[3]']), (r'\.w\[3\]', ['.w[2]']),
    (r'\|=', ['=', '^=']), (r'(?<![&|^!<>=+\-*/%]) &= ', [' |= ']), (r'<< ', ['>> ']), (r'>> ', ['<< ']),
    (r'\b0x[0-9a-fA-F_]{2,}(?:u64|u32|i64|i32|u128)?\b', ['HEX']), (r'(?<![\w.])\d{1,5}(?![\w.\]])', ['DEC']),
    (r'\bsign_x\b', ['sign_y']), (r'\bsign_y\b', ['sign_x']), (r'\bexponent_x\b', ['exponent_y']), (r'\bexponent_y\b', ['exponent_x']),
    (r'(?<=\()!(?=[\w\(])', ['']), (r'\bx\.w\b', ['y.w']), (r'\by\.w\b', ['x.w']),
]


def mutate_line(rng, line):
    cands = []
    code = line.split('//')[0]
    for pat, reps in TOK:
        for m in re.finditer(pat, code):
            for r in reps: cands.append((m.start(), m.end(), r))
    if not cands: return None
    a, b, r = rng.choice(cands)
    old = code[a:b]
    if r == 'HEX':
        mm = re.match(r'0x([0-9a-fA-F_]+)(.*)', old); digs = list(mm.group(1)); idx = [i for i, ch in enumerate(digs) if ch != '_']
        i = rng.choice(idx); d = int(digs[i], 16); nd = rng.choice([x for x in (d ^ 1, d ^ 8, (d + 1) % 16, (d - 1) % 16) if x != d]); digs[i] = '%x' % nd
        r = '0x' + ''.join(digs) + mm.group(2)
    elif r == 'DEC':
        v = int(old); r = str(rng.choice([v + 1, max(0, v - 1)] if v > 0 else [1]))
        if r == old: return None
    return line[:a] + r + line[b:], '%s -> %s' % (old.strip(), r.strip())


def candidates(path):
    out = []; incomment = False
    for i, l in enumerate(open(path, errors='replace').read().split('\n')):
        s = l.strip()
        if incomment:
            if '*/' in s: incomment = False
            continue
        if '/*' in s and '*/' not in s.split('/*', 1)[1]:
            incomment = True; continue
        if not s or s.startswith('//') or s.startswith('use ') or s.startswith('#') or s.startswith('pub') or s.startswith('fn ') or s.startswith('*') or s.startswith('/*'): continue
        if s.startswith('let ') and '=' not in s: continue
        out.append(i)
    return out


def main():
    ap = argparse.ArgumentParser(); ap.add_argument('pid'); ap.add_argument('--n', type=int, default=40); ap.add_argument('--seed', type=int, default=1)
    ap.add_argument('--files', default=''); ap.add_argument('--suite', action='store_true'); ap.add_argument('--scale', type=float, default=1.0)
    ap.add_argument('--streams-of', default='', help='comma list of properties whose streams are run (default: the property itself); ALL = every property')
    a = ap.parse_args()
    pid = a.pid; files = a.files.split(',') if a.files else FILES[pid]
    setup()
    rc, out = build(); assert rc == 0, out[-2000:]
    R.build_driver()
    rbin = HN + '/target/debug/verif-harness'
    spec = P.PROPS[pid]
    # the quick streams (same seeding discipline as runner.run_check) of the property, or of the properties named by --streams-of
    sof = [pid] if not a.streams_of else (sorted(x for x in P.PROPS if x != 'C15') if a.streams_of == 'ALL' else a.streams_of.split(','))
    lines = []
    for q in sof:
        rng_master = random.Random(1)
        for st_ in P.PROPS[q]['streams']:
            (sname, genf, nq, nt) = st_[:4]; sopts = st_[4] if len(st_) > 4 else {}
            rng = random.Random(rng_master.getrandbits(64))
            if sopts.get('bin') == 'ta' or P.PROPS[q].get('panic_only'): continue
            if q == 'C07' and len(sof) > 1: nq = nq // 4
            lines += list(genf(rng, int(nq * a.scale)))
    scratch = MS + '/scratch_' + pid; shutil.rmtree(scratch, ignore_errors=True); os.makedirs(scratch)
    panic_only = spec.get('panic_only') and len(sof) == 1
    def run():
        if panic_only: outs, verdicts, s = R.run_cases_panic_only(lines, scratch, rbin, 'm')
        else: outs, verdicts, s = R.run_cases(lines, scratch, runner_bin=rbin, tag='m')
        bad = [v for v in verdicts if not v.startswith('KNOWN')]
        return len(bad), (bad[0][:200] if bad else '')
    nb, first = run()
    print('baseline: %d cases, %d not accepted %s' % (len(lines), nb, first)); assert nb == 0
    rng = random.Random(a.seed)
    os.makedirs(os.path.join(ROOT, 'notes', 'mutscan'), exist_ok=True)
    logp = os.path.join(ROOT, 'notes', 'mutscan', '%s%s.jsonl' % (pid, '_all' if a.streams_of else ''))
    done = 0; tried = 0; stats = dict(detected=0, undetected=0, nocompile=0)
    cand = {f: candidates(os.path.join(WT, 'src', f)) for f in files}
    weights = [len(cand[f]) for f in files]
    while done < a.n and tried < a.n * 6:
        tried += 1
        f = rng.choices(files, weights)[0]; path = os.path.join(WT, 'src', f)
        src = open(path, errors='replace').read().split('\n')
        i = rng.choice(cand[f]); m = mutate_line(rng, src[i])
        if not m: continue
        newline, desc = m
        src2 = list(src); src2[i] = newline
        open(path, 'w').write('\n'.join(src2))
        rec = dict(pid=pid, file=f, line=i + 1, change=desc, text=src[i].strip()[:160])
        t0 = time.time()
        rc, out = build()
        if rc != 0:
            stats['nocompile'] += 1; sh('git checkout -q -- .', cwd=WT); continue
        nb, first = run()
        rec['rejected'] = nb; rec['first'] = first; rec['secs'] = round(time.time() - t0, 1)
        if nb == 0 and a.suite:
            rc2, out2 = sh('cargo nextest run --workspace --no-fail-fast --test-threads 12 --offline 2>&1 | grep -E "Summary|tests run" | tail -1', cwd=WT, timeout=3000)
            rec['suite'] = out2.strip()[-120:]
        sh('git checkout -q -- .', cwd=WT)
        stats['detected' if nb else 'undetected'] += 1; done += 1
        open(logp, 'a').write(json.dumps(rec) + '\n')
        print('%s:%d %s  => %s%s' % (f, i + 1, desc, 'rejected %d' % nb if nb else 'NOT NOTICED', ('  suite: ' + rec.get('suite', '')) if nb == 0 and a.suite else ''), flush=True)
    print('summary', pid, stats)


if __name__ == '__main__':
    main()
