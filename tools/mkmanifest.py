#!/usr/bin/env python3
"""Regenerates MANIFEST.json from the table below (one place to keep claims, texts and not_applicable reasons current)."""
import json, os, subprocess
ROOT = os.path.dirname(os.path.dirname(os.path.abspath(__file__)))

TB = ("Trusted: Coq 8.16.1 kernel (vm_compute used for table theorems, finite sweeps and examples; no native_compute); axioms as Print Assumptions reports them "
      "(only Flocq/Reals' sig_forall_dec, sig_not_dec, functional_extensionality_dep, classic where real numbers occur; integer-only theorems closed); "
      "Flocq's definitions as the meaning of the IEEE terms; the spec-side reading of IEEE 754-2008 in coq/theories; extraction (ExtrOcamlBasic only) + "
      "ocaml/driver.ml; the Rust harness. The Rust algorithms are compared with the model (bit-for-bit, flag-for-flag differential run on constructed cases, rebuilt from /repo each run), not verified; the constant tables they index are regenerated from the compiled crate each run and proved equal to their closed forms (coq/tables/TABLES.md lists the three restricted ranges; trusted there: the dump hook src/verif_hooks.rs, lib/tables.py, the closed forms of coq/tables/TableSpec.v). "
      "Where a check has layer-I obligations the translator layerI/rs2v.py and its stated semantics of the Rust subset (layerI/REPORT.md section 3) are trusted for them. Also trusted: ocaml/zhex.ml and ops_table.ml (line protocol), "
      "lib/xcheck.py's rendering of sampled cases as Coq terms for the extraction cross-check, and the Python generators (they bound what the correspondence run sees; DESIGN section 22 measures them).")

# id -> (claimed?, level category, text, design_ref, technique)  |  (False, reason)
P = {
 'C01': (True, 'proof', "Theorems (Coq/Flocq, radix 10, FLT_exp -6176 34): the model's round-and-pack core returns the IEEE 754-2008 result (value = Flocq round, preferred/least exponent, zero sign, overflow by mode, gradual underflow, flags) for every real value, mode and located triple; per-operation theorems reduce add/sub/mul/div/sqrt on all 2^128 patterns to it; special-value tables proved. Tie to the code: bit/flag-exact correspondence run of the extracted model against the crate rebuilt from /repo (method forms, operator forms, Sum/Product).", 'DESIGN.md section 10 (C01)'),
 'C14': (True, 'proof', "Axiom-free theorems about the acceptance relation applied to the implementation: a triple (status-in, values, status-out) is accepted iff the values with SOME raised set form a status-free accepted pair and status-out = status-in OR raised; monotonicity, independence of the entry word, and by induction over call sequences the final word = entry OR union of per-call raised sets. Tie to the code: every flag-taking operation is run under several entry words (incl. 0 and 0x3f) and judged by the extracted relation.", 'DESIGN.md section 10 (C14)'),
 'C18': (True, 'proof', "Axiom-free theorems over all 2^128 x 2^128 patterns: the model's total_order equals a clause-by-clause transcription of IEEE 754-2008 5.10 (total_spec), is reflexive, transitive, total, antisymmetric up to 'same canonical datum', ranks non-canonical encodings as the data they denote; the chain -NaN < -Inf < ... < +NaN; total_order_mag = total_order of the sign-cleared encodings; magnitude comparison with unbounded exponent gap proved against scaled integer values (bridge to Flocq reals). Tie to the code: correspondence run on constructed pairs (cohorts, +-0, NaN payload/sign/signaling variations, non-canonical encodings).", 'DESIGN.md section 10 (C18)'),
}

CORR = " Tie to the code: bit/flag-exact correspondence run — the extracted model judges the crate rebuilt from /repo on constructed cases."
P.update({
 'C02': (True, 'proof', "Theorems: for all finite patterns and modes the model's fma satisfies ieee_result for the real x*y+z (one rounding, preferred exponent min(ex+ey,ez), addition zero-sign rule); ieee_result is functional, so any other answer (e.g. the doubly rounded mul-then-add, refuted by a witness) violates it; special-value table; bit-for-bit agreement with mul (zero addend, product non-zero) and with add (y = 1); totality of the model." + CORR + " Streams aim at the alignment cases, cancellation, ex+ey below the bottom exponent and the overflow zone (products that are powers of ten just above MAX).", 'DESIGN.md section 10 (C02)'),
 'C03': (True, 'proof', "Theorems over all patterns: the model's 4-valued relation equals the order of the extended reals (Rcompare of Flocq F2R values; digit-count shortcut proved for unbounded exponent gaps), cohorts/zero signs/infinities/NaN as stated; each of the 20 predicates is its truth table over that relation with invalid raised exactly as stated and no other flag; operator bits equal the quiet predicates for non-NaN operands." + CORR, 'DESIGN.md section 10 (C03)'),
 'C04': (True, 'proof', "Theorems: a grammar of literals written independently of the lexer; lex of every well-formed literal is (sign, digits value, fraction length, exponent); parse result satisfies ieee_result for the denoted real for ANY digit count, keeps the literal's exponent when it fits, exact zero clamped without flag; special spellings in every letter case; complete classification of all byte strings (anything else is garbage -> default quiet NaN, no flag); FromStr Err iff a flag other than inexact." + CORR + " One recorded known finding (characters after a complete exponent are ignored; pinned by the suite).", 'DESIGN.md section 10 (C04)'),
 'C05': (True, 'proof', "Axiom-free theorems: format text has the stated shape and lexes back to exactly (sign, coefficient, 0, exponent); parse(format d) = the identical 128 bits with no flag for every well-formed finite d and all five modes; Inf/NaN/SNaN texts and their re-parse (payload not printed); Display = Debug = UpperExp, LowerExp differs in 'e' only; non-canonical patterns print as the zero they denote." + CORR + " (all 12288 exponents, every 3-digit group position; Display/Debug/LowerExp/UpperExp; re-parse under 5 modes; serde string form).", 'DESIGN.md section 10 (C05)'),
 'C06': (True, 'proof', "Theorems: rounding of c/10^k to an integer equals Flocq's Zfloor/Zceil/Ztrunc/ZnearestE/ZnearestA with inexact iff changed; to-integer result = that integer mod 2^w with inexact only in the signalling variants when it fits, else the indefinite value with invalid only (all patterns, 32/64 bit, signed/unsigned, 5 directions, lrint/lround instances); from-integer exact with exponent 0; to(from(n)) = n for all n and all 40 variants." + CORR + " (range edges at every digit count/scale, ties, all 44 entry points).", 'DESIGN.md section 10 (C06)'),
 'C07': (True, 'proof', "Theorems against Flocq's own b32_of_bits/b64_of_bits and B2R: for every f32/f64 pattern and mode the model returns the datum satisfying ieee_result for the exact binary value with preferred exponent 0, flag word = inexact (+ denormal-operand bit for subnormal inputs), never overflow/underflow; zeros/infinities keep their sign; NaN -> any canonical quiet NaN of that sign (+ invalid iff signaling); From<f32/f64> = RNE with flags discarded." + CORR, 'DESIGN.md section 10 (C07)'),
 'C08': (True, 'proof', "Theorems: rint results are the canonical operand unchanged (exponent >= 0), or Fin sign |rnd(x)| 0 with rnd = Flocq's integer rounding in the stated direction (sign kept for zero results), infinities as is; only round-to-integral-exact raises inexact, iff the value changed; modf = (toward-zero integral part, exact difference) with ip + fp = x, both carrying x's sign and fp x's quantum." + CORR, 'DESIGN.md section 10 (C08)'),
 'C09': (True, 'proof', "Theorems: quantize = Fin sx |rnd(x/10^qy)| qy with inexact iff the value changed, invalid exactly when more than 34 digits would be needed or exactly one operand is infinite, Inf/Inf -> Inf of x; every finite quantize result has the same quantum as y; quantexp/llquantexp/quantum/same_quantum read exactly the exponent field of every finite pattern (both non-canonical families), indefinite + invalid otherwise." + CORR, 'DESIGN.md section 10 (C09)'),
 'C10': (True, 'proof', "Theorems (integer core axiom-free, real-number corollaries via Flocq): modular exponentiation correct; remainder = x - n*y with n the nearest integer to x/y ties-to-even (uniqueness proved, = ZnearestE), fmod with n = trunc(x/y); bounds |rem| <= |y|/2, |fmod| < |y|, sign rules, exponent min(ex,ey), always representable, no flag, for exponent gaps of any size; special operands; % = remainder." + CORR + " (constructed ties in every gap class, gaps up to 12287).", 'DESIGN.md section 10 (C10)'),
 'C11': (True, 'proof', "Theorems: scaleb/scalebln/ldexp satisfy ieee_result for x*10^n with preferred exponent q+n for every n in Z (in-range: same coefficient; clamp: zero padding; else correctly rounded overflow/underflow), saturation of n proved harmless; logb/log_b give the adjusted exponent exactly (10^e <= |x| < 10^(e+1)) with the special results/flags; frexp fraction in [1/10,1) and fraction*10^exp = x." + CORR, 'DESIGN.md section 10 (C11)'),
 'C16': (True, 'proof', "Theorems: for non-NaN operands every accepted min/max outcome is one of the two operands in canonical form, chosen by the order of the extended reals (magnitudes for _mag, falling back to the signed order), no flag, both operands accepted when they compare equal; one quiet NaN -> the other operand; two quiet NaNs / any sNaN per the NaN rule." + CORR, 'DESIGN.md section 10 (C16)'),
 'C17': (True, 'proof', "Theorems with Flocq's succ/pred: next_up(x) = succ x in the least-exponent representation (or +Inf exactly when x = MAX), next_down = pred, specials, next_down(next_up x) = x in value, no format value strictly between; next_after/next_toward direction by the comparison, flags overflow+inexact iff finite -> Inf, underflow+inexact iff result subnormal or zero." + CORR, 'DESIGN.md section 10 (C17)'),
 'C19': (True, 'proof', "Axiom-free theorems: declet codec = IEEE tables 3.3/3.4 (two independent transcriptions agree on all 1000/1024 entries; exactly 24 redundant declets, decoded as the standard says); dpd_decode(dpd_encode d) = d for every well-formed datum, encode(decode w) = w for every canonical DPD word, field layout per 3.5.2; both conversions total, one outcome, no flag, for all 2^128 inputs." + CORR + " (every declet value in each of the 11 positions, leading digits 0-9, NaN payloads, non-canonical inputs).", 'DESIGN.md section 10 (C19)'),
 'C20': (True, 'proof', "Theorems (axiom-free but for the bridge from the integer key to Flocq's real-valued order, which uses the Reals axioms): the equality of the model is an equivalence over all patterns (NaNs one class, NaN never equals a number, numerically equal iff keys equal); operator bits mutually consistent (<= iff partial_cmp Less or Equal, ...), partial_cmp antisymmetric and transitive; acceptance of hash inputs iff equal values feed equal words. The Hasher (SipHash) and the hash collections themselves are std, not modelled." + CORR + " Hash inputs are observed with a recording Hasher; HashSet/HashMap lookups under equal keys are executed.", 'DESIGN.md section 10 (C20)'),
})

P.update({
 'C12': (True, 'proof', "Axiom-free theorems: NaN patterns read per the standard (payload >= 10^33 and reserved bits as zero); for every flag-taking operation with a NaN operand the accepted outcomes are exactly one canonical quiet NaN per NaN operand (its sign and payload) with invalid iff some operand is signaling and nothing else; exhaustive list of NaN-creating non-NaN operand kinds per operation (result exactly the default quiet NaN + invalid, and no NaN otherwise); copy/negate/abs/copy_sign change bit 127 only for all 2^128 patterns, no flag." + CORR + " (NaN in each operand position x quiet/signaling x payload boundary values x reserved bits).", 'DESIGN.md section 10 (C12)'),
 'C13': (True, 'proof', "Axiom-free theorems: decode/encode of all 2^128 patterns (the three non-canonical clauses stated on explicit bit fields), class returns exactly one of ten classes consistent with the nine is_* predicates (normal iff adjusted exponent >= -6143), every outcome of every computational operation of the model is a canonical encoding, every operation factors through decode (a non-canonical pattern cannot be told from the datum it denotes)." + CORR + " (each non-canonical family in every operand position of every operation, classification thresholds).", 'DESIGN.md section 10 (C13)'),
 'C15': (True, 'other', "Partial by nature: a theorem about a model cannot exhibit a panic of Rust code the model does not transcribe. What is checked: (1) API registry - every public entry point of the current src/d128.rs / serde.rs is mapped to a harness operation (a new or renamed entry point breaks the obligation); (2) exploration under catch_unwind of every entry point with uniformly random and structured bit patterns in every operand position, all modes incl. none, integer extremes, arbitrary status words, and the string streams, in a debug-assertions build and a release build; (3) every other property's run reports panics too. Model-level totality theorems (the specification is satisfiable for every input and never accepts 'no answer') are in props/C15.v (13 theorems, compiled by the check).", 'DESIGN.md section 10 (C15), section 11', 'API registry scan + exhaustive-by-entry-point exploration under catch_unwind (debug and release); model-level totality theorems in Coq'),
})
UNDER = "check under construction in this session (framework is being built property by property); will be claimed when its theorems are merged and its correspondence stream is clean"
for i in range(1, 21):
    k = 'C%02d' % i
    P.setdefault(k, (False, UNDER))

# layer I: routines re-translated from /repo's current source by layerI/rs2v.py and re-proved equal to the model on every run of the property
LI = {
 'C01': "34 shared multi-word helpers of bid_internal.rs (carry/borrow adds, 64x64..128x128 multiplies, shifts, compares), each exact for all inputs",
 'C02': "34 shared multi-word helpers of bid_internal.rs, each exact for all inputs",
 'C03': "all 20 predicates of bid128_compare.rs = m_cmp for all operand words and every status word, result and flags",
 'C06': "bid128_from_int32 / from_uint32 / from_int64 / from_uint64 = m_from_int for every integer; thorough tier: bid128_to_int32_rnint and bid128_to_int32_rninta = m_to_int for every pattern and status word (result and flags; complete theorems, 3-4 minutes each)",
 'C08': "bid128_round_integral_zero / _negative / _positive / _nearest_even / _nearest_away = the model's round-to-integral (m_rint) for every 128-bit pattern and every status word, result and flags; thorough tier: bid128_nearbyint = m_rint for every pattern, mode and status word (complete, about 6 minutes) and a partial theorem for bid128_round_integral_exact (special, zero, exponent >= 0 and exponent <= -35 operands)",
 'C09': "bid128_same_quantum, bid128_quantexp, bid128_llquantexp, bid128_quantum = the model for all patterns",
 'C10': "34 shared multi-word helpers of bid_internal.rs, each exact for all inputs",
 'C11': "the pack routine bid_get_BID128 with handle_UF_128 (= the model's round-and-pack for every sign, coefficient < 10^34, i32 exponent, mode and incoming status word), bid128_scalbn, bid128_ldexp, bid128_scalbln (= m_scaleb for every pattern, n, mode, status word), bid128_frexp (= m_frexp)",
 'C12': "bid128_copy, bid128_negate, bid128_abs, bid128_copy_sign = the model for all patterns",
 'C13': "the seven is_* predicates, is_normal, is_subnormal and bid128_class = the model for all 2^128 patterns (table indices in range)",
 'C16': "34 shared multi-word helpers of bid_internal.rs, each exact for all inputs; thorough tier: bid128_minnum, bid128_maxnum, bid128_minnum_mag, bid128_maxnum_mag each return, for all operand words and every status word, an outcome of the model's acceptance list m_minmax (complete theorems, 12 CPU-minutes)",
 'C17': "bid128_nextup = m_next_up and bid128_nextdown = m_next_down for every 128-bit pattern and every status word (result and flags); thorough tier: bid128_nextafter and bid128_nexttoward return, for all operand words and every status word, an outcome of the model's acceptance list m_next_after with the model's flags (complete theorems, 5-7 minutes)",
 'C18': "bid128_total_order and bid128_total_order_mag = m_total_order / _mag for all 2^128 x 2^128 patterns",
 'C19': "bid_to_dpd128 and bid_dpd_to_bid128 = the model's DPD codec for all 2^128 words (1000 + 1024 table rows taken from the source text)",
}
for _k, _t in LI.items():
    v = P[_k]
    P[_k] = (v[0], v[1], v[2] + " Layer I (translated code, re-proved each run, axiom-free): " + _t + "; a change to one of these routines breaks a proof obligation whether or not a generated case reaches it.") + tuple(v[3:])


def main():
    checks = []; na = []
    for k in sorted(P):
        v = P[k]
        if v[0]:
            checks.append(dict(property_id=k, quick_cmd='./check %s --tier quick' % k, thorough_cmd='./check %s --tier thorough' % k,
                               evidence_file='evidence/%s.json' % k, replay_cmd_template='./check replay {path}', engine='coq',
                               level_claimed=dict(category=v[1], text=v[2], design_ref=v[3]), level_note=TB,
                               technique=(v[4] if len(v) > 4 else 'machine-checked proof (Coq/Flocq) about a hand-written executable model + checked correspondence (extracted model judges the crate rebuilt from /repo)')))
        else:
            na.append(dict(property_id=k, reason=v[1]))
    hooks = subprocess.run("git -C /repo log --format=%h --grep='^verif hook' ", shell=True, capture_output=True, text=True).stdout.split()
    claimed = [c['property_id'] for c in checks]
    m = dict(version=1, setup_cmd='./setup.sh',
             hooks=dict(guard='decmathlib_rs_verif',
                        enable='RUSTFLAGS="--cfg decmathlib_rs_verif" (set by ./check for the harness build; the harness crate has a path dependency on /repo)',
                        baseline_off_cmd='cd /repo && cargo nextest run --workspace --no-fail-fast --test-threads 8 --offline',
                        source_commits=hooks[::-1], add_only=True),
             engines=[dict(name='coq', path='coq', serves_properties=claimed, kind_free_text='Coq 8.16 + Flocq development: spec (Flocq round, radix 10, FLT_exp -6176 34), executable model, theorems; props/Cxx.v hold the property theorems'),
                      dict(name='model-ocaml', path='ocaml', serves_properties=claimed, kind_free_text='model extracted with ExtrOcamlBasic + hand-written driver judging the implementation outputs'),
                      dict(name='layerI', path='layerI', serves_properties=sorted(LI), kind_free_text='Rust->Gallina translator rs2v.py (regenerates implementation-shaped Gallina from /repo/src on every run) + proofs that each translated routine equals the model for all inputs (Impl/*.v); trusted: the translator semantics listed in layerI/REPORT.md section 3'),
                      dict(name='harness', path='harness', serves_properties=claimed, kind_free_text='Rust runner with a path dependency on /repo (hooks on), executes generated cases under catch_unwind'),
                      dict(name='tables', path='coq/tables', serves_properties=['C01', 'C02', 'C04', 'C05', 'C06', 'C07', 'C08', 'C09', 'C10', 'C11', 'C17', 'C19'],
                           kind_free_text='table translator: the constant tables are dumped from the compiled crate (hook verif_hooks::dump_tables), turned into Coq definitions by lib/tables.py and re-proved equal to their closed forms (coq/tables/TableSpec.v, TableProofs.v) by kernel computation over the finite index range on every run')],
             checks=checks,
             notes='see DESIGN.md; known_findings.json lists repaired defects (fix: commits in /repo) and open findings',
             not_applicable=na)
    json.dump(m, open(os.path.join(ROOT, 'MANIFEST.json'), 'w'), indent=1)
    print('claimed:', claimed)

if __name__ == '__main__':
    main()
