#!/usr/bin/env python3
"""Regenerates MANIFEST.json from the table below (one place to keep claims, texts and not_applicable reasons current)."""
import json, os, subprocess
ROOT = os.path.dirname(os.path.dirname(os.path.abspath(__file__)))

TB = ("Trusted: Coq 8.16.1 kernel (vm_compute used for finite sweeps/examples; no native_compute); axioms as Print Assumptions reports them "
      "(only Flocq/Reals' sig_forall_dec, sig_not_dec, functional_extensionality_dep, classic where real numbers occur; integer-only theorems closed); "
      "Flocq's definitions as the meaning of the IEEE terms; the spec-side reading of IEEE 754-2008 in coq/theories; extraction (ExtrOcamlBasic only) + "
      "ocaml/driver.ml; the Rust harness. The Rust algorithms are compared with the model (bit-for-bit, flag-for-flag differential run on constructed cases, rebuilt from /repo each run), not verified.")

# id -> (claimed?, level category, text, design_ref, technique)  |  (False, reason)
P = {
 'C01': (True, 'proof', "Theorems (Coq/Flocq, radix 10, FLT_exp -6176 34): the model's round-and-pack core returns the IEEE 754-2008 result (value = Flocq round, preferred/least exponent, zero sign, overflow by mode, gradual underflow, flags) for every real value, mode and located triple; per-operation theorems reduce add/sub/mul/div/sqrt on all 2^128 patterns to it; special-value tables proved. Tie to the code: bit/flag-exact correspondence run of the extracted model against the crate rebuilt from /repo (method forms, operator forms, Sum/Product).", 'DESIGN.md section 10 (C01)'),
 'C14': (True, 'proof', "Axiom-free theorems about the acceptance relation applied to the implementation: a triple (status-in, values, status-out) is accepted iff the values with SOME raised set form a status-free accepted pair and status-out = status-in OR raised; monotonicity, independence of the entry word, and by induction over call sequences the final word = entry OR union of per-call raised sets. Tie to the code: every flag-taking operation is run under several entry words (incl. 0 and 0x3f) and judged by the extracted relation.", 'DESIGN.md section 10 (C14)'),
 'C18': (True, 'proof', "Axiom-free theorems over all 2^128 x 2^128 patterns: the model's total_order equals a clause-by-clause transcription of IEEE 754-2008 5.10 (total_spec), is reflexive, transitive, total, antisymmetric up to 'same canonical datum', ranks non-canonical encodings as the data they denote; the chain -NaN < -Inf < ... < +NaN; total_order_mag = total_order of the sign-cleared encodings; magnitude comparison with unbounded exponent gap proved against scaled integer values (bridge to Flocq reals). Tie to the code: correspondence run on constructed pairs (cohorts, +-0, NaN payload/sign/signaling variations, non-canonical encodings).", 'DESIGN.md section 10 (C18)'),
}
UNDER = "check under construction in this session (framework is being built property by property); will be claimed when its theorems are merged and its correspondence stream is clean"
for i in range(1, 21):
    k = 'C%02d' % i
    P.setdefault(k, (False, UNDER))

def main():
    checks = []; na = []
    for k in sorted(P):
        v = P[k]
        if v[0]:
            checks.append(dict(property_id=k, quick_cmd='./check %s --tier quick' % k, thorough_cmd='./check %s --tier thorough' % k,
                               evidence_file='evidence/%s.json' % k, replay_cmd_template='./check replay {path}', engine='coq',
                               level_claimed=dict(category=v[1], text=v[2], design_ref=v[3]), level_note=TB,
                               technique=(v[4] if len(v) > 4 else 'machine-checked proof (Coq/Flocq) about a hand-written executable model + checked correspondence (extracted model judges the crate rebuilt from /repo)')))
        else:
            na.append(dict(property_id=k, reason=v[1]))
    hooks = subprocess.run("git -C /repo log --format=%h --grep='^verif hook' ", shell=True, capture_output=True, text=True).stdout.split()
    claimed = [c['property_id'] for c in checks]
    m = dict(version=1, setup_cmd='./setup.sh',
             hooks=dict(guard='decmathlib_rs_verif',
                        enable='RUSTFLAGS="--cfg decmathlib_rs_verif" (set by ./check for the harness build; the harness crate has a path dependency on /repo)',
                        baseline_off_cmd='cd /repo && cargo nextest run --workspace --no-fail-fast --test-threads 8 --offline',
                        source_commits=hooks[::-1], add_only=True),
             engines=[dict(name='coq', path='coq', serves_properties=claimed, kind_free_text='Coq 8.16 + Flocq development: spec (Flocq round, radix 10, FLT_exp -6176 34), executable model, theorems; props/Cxx.v hold the property theorems'),
                      dict(name='model-ocaml', path='ocaml', serves_properties=claimed, kind_free_text='model extracted with ExtrOcamlBasic + hand-written driver judging the implementation outputs'),
                      dict(name='harness', path='harness', serves_properties=claimed, kind_free_text='Rust runner with a path dependency on /repo (hooks on), executes generated cases under catch_unwind')],
             checks=checks,
             notes='see DESIGN.md; known_findings.json lists repaired defects (fix: commits in /repo) and open findings',
             not_applicable=na)
    json.dump(m, open(os.path.join(ROOT, 'MANIFEST.json'), 'w'), indent=1)
    print('claimed:', claimed)

if __name__ == '__main__':
    main()
