#!/usr/bin/env python3
"""covscan.py [Cxx ...] : development-time measurement (NOT a check): which source lines of the crate do the quick-tier streams of the named
properties (default: all) execute?  Builds a coverage-instrumented copy of the harness (nightly toolchain, -C instrument-coverage) against a
scratch worktree under /tmp/cov, runs the streams (same generators and seed as ./check, no judging), merges the profiles and writes
notes/coverage/<file>.uncovered (line ranges never executed) plus a per-file summary on stdout."""
import sys, os, re, json, random, subprocess, shutil, collections
ROOT = os.path.dirname(os.path.dirname(os.path.abspath(__file__)))
sys.path.insert(0, os.path.join(ROOT, 'lib'))
import props as P
COV = '/tmp/cov'; HN = COV + '/harness'; WT = COV + '/repo'
TOOLS = os.path.expanduser('~/.rustup/toolchains/nightly-x86_64-unknown-linux-gnu/lib/rustlib/x86_64-unknown-linux-gnu/bin')
BIN = HN + ('/target_br' if '--branches' in sys.argv else '/target') + '/debug/verif-harness'


def sh(cmd, **kw):
    p = subprocess.run(cmd, shell=True, stdout=subprocess.PIPE, stderr=subprocess.STDOUT, text=True, **kw); return p.returncode, p.stdout


def main():
    pids = [a for a in sys.argv[1:] if a.startswith('C') and not a.startswith('--')] or sorted(P.PROPS)
    prof = COV + '/prof'; shutil.rmtree(prof, ignore_errors=True); os.makedirs(prof)
    nsh = 16; procs = []
    for pid in pids:
        spec = P.PROPS[pid]; rng_master = random.Random(1); lines = []
        for st_ in spec['streams']:
            (sname, genf, nq, nt) = st_[:4]; sopts = st_[4] if len(st_) > 4 else {}
            rng = random.Random(rng_master.getrandbits(64))
            if sopts.get('bin') == 'ta': continue
            if pid == 'C07' and sname == 'frombin': nq = nq  # harness side is fast; only the judge is slow
            lines += list(genf(rng, nq))
        for i in range(nsh):
            cf = '%s/%s.%d.cases' % (prof, pid, i)
            open(cf, 'w').write('\n'.join(lines[i::nsh]) + '\n')
            env = dict(os.environ, LLVM_PROFILE_FILE='%s/%s.%d.profraw' % (prof, pid, i))
            procs.append(subprocess.Popen('%s < %s > /dev/null 2>&1' % (BIN, cf), shell=True, env=env))
        for p in procs: p.wait()
        procs = []
        print(pid, len(lines), 'cases run', flush=True)
    rc, out = sh('%s/llvm-profdata merge -sparse %s/*.profraw -o %s/all.profdata' % (TOOLS, prof, prof)); assert rc == 0, out
    rc, out = sh('%s/llvm-cov export --format=lcov --instr-profile=%s/all.profdata %s' % (TOOLS, prof, BIN)); assert rc == 0, out[-2000:]
    cur = None; cov = collections.defaultdict(dict)
    for l in out.split('\n'):
        if l.startswith('SF:'): cur = l[3:]
        elif l.startswith('DA:') and cur:
            ln, cnt = l[3:].split(',')[:2]; cov[cur][int(ln)] = int(cnt)
    outdir = os.path.join(ROOT, 'notes', 'coverage'); os.makedirs(outdir, exist_ok=True)
    if '--branches' in sys.argv:
        # BRDA:<line>,<block>,<branch>,<taken or ->  : list the branch directions never taken on lines that ARE executed
        cur = None; br = collections.defaultdict(list)
        for l in out.split('\n'):
            if l.startswith('SF:'): cur = l[3:]
            elif l.startswith('BRDA:') and cur and cur.startswith(WT + '/src/'):
                ln, blk, b, taken = l[5:].split(',')
                br[cur].append((int(ln), blk, b, taken))
        tot = 0; nev = 0
        for f, lst in sorted(br.items()):
            name = os.path.basename(f); src = open(f, errors='replace').read().split('\n')
            miss = [(ln, blk, b) for ln, blk, b, t in lst if t in ('-', '0') and cov[f].get(ln, 0) > 0]
            tot += len(lst); nev += len(miss)
            with open(os.path.join(outdir, name + '.branches'), 'w') as o:
                o.write('# %s: %d branch directions instrumented, %d never taken on executed lines\n' % (name, len(lst), len(miss)))
                for ln, blk, b in miss: o.write('%d (%s.%s): %s\n' % (ln, blk, b, src[ln - 1].strip()[:120]))
            print('%-32s %5d branch directions, %4d never taken (on executed lines)' % (name, len(lst), len(miss)))
        print('branches total %d, never taken %d' % (tot, nev))
    rows = []
    for f, d in sorted(cov.items()):
        if not f.startswith(WT + '/src/'): continue
        name = os.path.basename(f)
        tot = len(d); hit = sum(1 for v in d.values() if v > 0)
        unc = sorted(k for k, v in d.items() if v == 0)
        # compress into ranges
        rngs = [];
        for k in unc:
            if rngs and k <= rngs[-1][1] + 1: rngs[-1][1] = k
            else: rngs.append([k, k])
        src = open(f, errors='replace').read().split('\n')
        with open(os.path.join(outdir, name + '.uncovered'), 'w') as o:
            o.write('# %s: %d of %d instrumented lines executed by the quick streams of %s\n' % (name, hit, tot, ' '.join(pids)))
            for a, b in rngs:
                o.write('%d-%d: %s\n' % (a, b, src[a - 1].strip()[:110]))
        rows.append((name, hit, tot, len(rngs)))
    for name, hit, tot, nr in rows:
        print('%-32s %6d / %6d lines  (%5.1f%%)  %4d uncovered ranges' % (name, hit, tot, 100.0 * hit / max(1, tot), nr))
    print('total %d / %d' % (sum(r[1] for r in rows), sum(r[2] for r in rows)))


if __name__ == '__main__':
    main()
