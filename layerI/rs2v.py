#!/usr/bin/env python3
"""rs2v.py -- Rust-subset -> Gallina translator for layer I (implementation-shaped word-level models).

usage: rs2v.py [--src DIR] [--out FILE] [--groups A,B,C,D | --fn file.rs:name ...]

Translates the CURRENT text of the selected functions of DIR (default /repo/src) into Gallina over Z with explicit
machine semantics and writes ImplGen.v. Anything outside the supported subset makes the translator stop with a
non-zero exit status and a message naming the construct, file and line. See REPORT.md for the subset and the
semantics of each construct. Python 3 standard library only (modules rs2v_parse.py, rs2v_tr.py next to this file).
"""
import argparse
import os
import sys

sys.path.insert(0, os.path.dirname(os.path.abspath(__file__)))
from rs2v_parse import RsError          # noqa: E402
from rs2v_tr import Program, translate_fn   # noqa: E402

# shared helpers of bid_internal.rs with an exactness theorem of their own (group H; gen_help_proofs.py)
HELPERS = [
    '__add_carry_out', '__add_carry_in_out', '__sub_borrow_out', '__sub_borrow_in_out', '__add_128_64',
    '__add_128_128', '__sub_128_64', '__sub_128_128', '__mul_64x64_to_64', '__mul_64x64_to_128',
    '__mul_64x64_to_128_full', '__mul_64x64_to_128MACH', '__mul_64x64_to_128HIGH', '__mul_64x64_to_128_fast',
    '__mul_64x128_full', '__mul_64x128_to_192', '__mul_64x128_to192', '__mul_64x128_to_256', '__mul_64x128_low',
    '__mul_64x128_to_128', '__mul_64x128_short', '__mul_128x64_to_128', '__mul_64x192_to_256', '__mul_128x128_to_256',
    '__mul_128x128_low', '__mul_128x128_full', '__mul_128x128_high', '__sqr128_to_256', '__shr_128', '__shr_128_long',
    '__shl_128_long', '__unsigned_compare_gt_128', '__unsigned_compare_ge_128', '__test_equal_128',
]
GROUPS = {
    'A': [('bid128_noncomp.rs', n) for n in (
        'bid128_is_signed', 'bid128_is_nan', 'bid128_is_inf', 'bid128_is_signaling', 'bid128_is_finite', 'bid128_is_zero',
        'bid128_is_canonical', 'bid128_copy', 'bid128_negate', 'bid128_abs', 'bid128_copy_sign', 'bid128_same_quantum')],
    'B': [('bid128_quantexp.rs', 'bid128_quantexp'), ('bid128_llquantexp.rs', 'bid128_llquantexp'),
          ('bid128_quantum.rs', 'bid128_quantum'),
          ('bid_from_int.rs', 'bid128_from_int32'), ('bid_from_int.rs', 'bid128_from_uint32'),
          ('bid_from_int.rs', 'bid128_from_int64'), ('bid_from_int.rs', 'bid128_from_uint64')],
    'C': [('bid128_noncomp.rs', 'bid128_is_normal'), ('bid128_noncomp.rs', 'bid128_is_subnormal'),
          ('bid128_noncomp.rs', 'bid128_class')],
    'D': [('bid128_noncomp.rs', 'bid128_total_order'), ('bid128_noncomp.rs', 'bid128_total_order_mag'),
          ('bid128_scalbln.rs', 'bid128_scalbln')],
    'E': [('bid_dpd.rs', 'bid_to_dpd128'), ('bid_dpd.rs', 'bid_dpd_to_bid128')],
    'F': [('bid_internal.rs', 'bid_get_BID128'), ('bid128_scalbn.rs', 'bid128_scalbn'), ('bid128_ldexp.rs', 'bid128_ldexp')],
    # G: comparison predicates (Impl/ImplCmp.v, Impl/ImplCmpProofs.v). The three multiplication helpers are requested by name so
    # that ImplMul.v / ImplCmp.v find them in ImplGen.v whichever comparison routines translate. bid128_quiet_equal and
    # bid128_quiet_not_equal are not listed: they call the generic fn swap<T> (outside the subset).
    'G': [('bid_internal.rs', '__mul_64x128_to_192'), ('bid_internal.rs', '__mul_64x128_to192'),
          ('bid_internal.rs', '__mul_128x128_to_256')] + [('bid128_compare.rs', n) for n in (
        'bid128_quiet_greater', 'bid128_quiet_greater_equal', 'bid128_quiet_greater_unordered', 'bid128_quiet_less',
        'bid128_quiet_less_equal', 'bid128_quiet_less_unordered', 'bid128_quiet_not_greater', 'bid128_quiet_not_less',
        'bid128_quiet_ordered', 'bid128_quiet_unordered', 'bid128_signaling_greater', 'bid128_signaling_greater_equal',
        'bid128_signaling_greater_unordered', 'bid128_signaling_less', 'bid128_signaling_less_equal',
        'bid128_signaling_less_unordered', 'bid128_signaling_not_greater', 'bid128_signaling_not_less')],
    # T: the two total-order routines alone (C18 does not need the pack routine that the concrete bid128_scalbln of group D pulls in)
    'T': [('bid128_noncomp.rs', 'bid128_total_order'), ('bid128_noncomp.rs', 'bid128_total_order_mag')],
    # I: further single routines with a complete theorem (templates for their families)
    'I': [('bid128_frexp.rs', 'bid128_frexp')],
    # N: next up / down (complete theorems); NP: next after / toward (PARTIAL theorems: NaN operands only, names end in _partial)
    'N': [('bid128_next.rs', 'bid128_nextup'), ('bid128_next.rs', 'bid128_nextdown')],
    # R: round to integral, fixed mode (complete theorems; Impl/ImplRint.v, Impl/ImplRintProofs.v).
    'R': [('bid128_round_integral.rs', n) for n in (
        'bid128_round_integral_zero', 'bid128_round_integral_negative', 'bid128_round_integral_positive',
        'bid128_round_integral_nearest_even', 'bid128_round_integral_nearest_away')],
    # RN: nearbyint (complete theorem, mode as an argument; about 6 minutes: thorough tier)
    'RN': [('bid128_nearbyint.rs', 'bid128_nearbyint')],
    # RP: round_integral_exact (PARTIAL theorem: special / zero / exponent >= 0 / exponent <= -35 operands)
    'RP': [('bid128_round_integral.rs', 'bid128_round_integral_exact')],
    'NP': [('bid128_next.rs', 'bid128_nextafter'), ('bid128_nexttoward.rs', 'bid128_nexttoward')],
    # NA: next after / toward, complete theorems (ImplNext2*.v, ImplNext2Proofs.v); supersedes NP
    'NA': [('bid128_next.rs', 'bid128_nextafter'), ('bid128_nexttoward.rs', 'bid128_nexttoward')],
    # J: to-integer conversions with complete value/status theorems (Impl/ImplRound.v holds the shared facts; the rninta block is
    # generated from the rnint block by gen_toint_proofs.py)
    'J': [('bid128_to_int32.rs', 'bid128_to_int32_rnint'), ('bid128_to_int32.rs', 'bid128_to_int32_rninta')],
    # H: the shared multi-word helpers of bid_internal.rs on their own (Impl/ImplHelpProofs.v: "helper <name> is exact")
    'H': [('bid_internal.rs', n) for n in HELPERS],
    # K: the two comparison predicates that swap their operands (Impl/ImplCmp2.v, Impl/ImplCmp2Proofs.v); M: min/max against the
    # acceptance list m_minmax (same files). As in G the three multiplication helpers are requested by name, so that
    # ImplMul.v / ImplCmp.v find them in ImplGen.v when K or M is checked alone.
    'K': [('bid_internal.rs', '__mul_64x128_to_192'), ('bid_internal.rs', '__mul_64x128_to192'),
          ('bid_internal.rs', '__mul_128x128_to_256')] + [
         ('bid128_compare.rs', 'bid128_quiet_equal'), ('bid128_compare.rs', 'bid128_quiet_not_equal')],
    'M': [('bid_internal.rs', '__mul_64x128_to_192'), ('bid_internal.rs', '__mul_64x128_to192'),
          ('bid_internal.rs', '__mul_128x128_to_256')] + [('bid128_minmax.rs', n) for n in (
        'bid128_minnum', 'bid128_maxnum', 'bid128_minnum_mag', 'bid128_maxnum_mag')],
    # W: the four dispatch wrappers lrint / llrint / lround / llround. Their callees (the ten bid128_to_int64_* routines, see
    # ABSTRACT) are abstract function parameters; the theorems (Impl/ImplWrap.v, Impl/ImplWrapProofs.v) bind them BY NAME and are
    # conditional on the callees meeting their own model clause (spec64).
    'W': [('bid128_lrint.rs', 'bid128_lrint'), ('bid128_llrint.rs', 'bid128_llrint'),
          ('bid128_lround.rs', 'bid128_lround'), ('bid128_llround.rs', 'bid128_llround')],
    # X: bid128_fdim over abstract bid128_quiet_greater and bid128_sub (GROUP_ABSTRACT: abstract for this group only, the
    # comparison predicate is translated concretely by group G); conditional theorem in Impl/ImplWrapProofs.v
    'X': [('bid_internal.rs', '__mul_64x128_to_192'), ('bid_internal.rs', '__mul_64x128_to192'),
          ('bid_internal.rs', '__mul_128x128_to_256'), ('bid128_compare.rs', 'bid128_quiet_greater'), ('bid128_fdim.rs', 'bid128_fdim')],
}
GROUP_ABSTRACT = {'X': {'bid128_sub': 'bid128_add.rs'}}
# helper functions translated in addition to the routines of a group (after them, so that the text generated for the
# routines does not move): the shared lemma files ImplMul0.v / ImplDpd.v, which the files about the pack routines import,
# mention these three helpers
_PACK_SUPPORT = [('bid_internal.rs', '__mul_64x128_full'), ('bid_internal.rs', '__mul_128x128_high'),
                 ('bid_internal.rs', '__sub_128_128')]
GROUP_SUPPORT = {'D': _PACK_SUPPORT, 'F': _PACK_SUPPORT, 'H': _PACK_SUPPORT,
                 'J': [('bid_internal.rs', '__mul_64x128_to_192')]}     # ImplMul.v (imported by ImplRound.v) mentions it
# literal fuel bounds of the loops: (function, index of the loop in the function, counted from 1) -> iterations + 1.
# bid_get_BID128: the padding loop multiplies a coefficient below 10^33 by ten while it stays below 10^33: at most 33 times
# for a non-zero coefficient; for coefficient 0 it runs once per unit of exponent excess, which the guard before the loop
# limits to 34 (expon - 34 <= 12287). bid128_scalbn / bid128_ldexp: the same padding as a do-while: at most 33 times.
FUEL = {('bid_get_BID128', 1): 36, ('bid128_scalbn', 1): 36, ('bid128_ldexp', 1): 36}
# functions that are not translated but modelled as abstract function parameters of their callers (name -> file)
ABSTRACT = {'bid128_to_int64_' + v: 'bid128_to_int64.rs' for v in (
    'rnint', 'xrnint', 'rninta', 'xrninta', 'int', 'xint', 'floor', 'xfloor', 'ceil', 'xceil')}    # callees of group W only
SUPPORT_FILES = ['bid_internal.rs', 'd128.rs', 'bid128.rs', 'bid_b2d.rs', 'bid_decimal_data.rs', 'bid128_scalbn.rs']

PRELUDE = '''(* GENERATED by rs2v.py -- do not edit. Regenerated from the Rust sources on every run.
%s
*)
From Coq Require Import ZArith Bool List.
From DVI Require Import ImplLib.
Import ListNotations.
Open Scope Z_scope.
Open Scope bool_scope.

'''


def overflow_profile(srcdir):
    """+ - * are translated as wrapping operations; that is Rust's semantics when overflow checks are off. Report what the
    crate's Cargo.toml says (dev profile: the default is ON unless `overflow-checks = false`; release: default off)."""
    import re
    path = os.path.join(os.path.dirname(os.path.abspath(srcdir.rstrip('/'))), 'Cargo.toml')
    if not os.path.isfile(path):
        return 'arithmetic: wrapping (no Cargo.toml next to the source directory: overflow-checks setting NOT confirmed)'
    text = open(path, encoding='utf-8').read()
    sect = {}
    cur = None
    for line in text.splitlines():
        m = re.match(r'\s*\[(.+?)\]', line)
        if m:
            cur = m.group(1).strip()
            continue
        m = re.match(r'\s*overflow-checks\s*=\s*(\w+)', line)
        if m and cur:
            sect[cur] = m.group(1)
    dev = sect.get('profile.dev')
    rel = sect.get('profile.release', 'false (default)')
    ok = dev == 'false' and not rel.startswith('true')
    return 'arithmetic: wrapping; %s: [profile.dev] overflow-checks = %s, [profile.release] overflow-checks = %s%s' % (
        path, dev or 'unset (default true)', rel, '' if ok else '  -- WARNING: overflow checks are on in some profile')


def main(argv):
    ap = argparse.ArgumentParser()
    ap.add_argument('--src', default='/repo/src')
    ap.add_argument('--out', default='ImplGen.v')
    ap.add_argument('--groups', default='A,B,C')
    ap.add_argument('--fn', action='append', default=[], help='file.rs:function (repeatable; overrides --groups)')
    ap.add_argument('--abstract', action='append', default=[], help='file.rs:function modelled as an abstract function parameter '
                    '(repeatable; default: %s)' % ', '.join('%s:%s' % (f, n) for n, f in ABSTRACT.items()))
    ap.add_argument('--fuel', action='append', default=[], help='function:loopindex=N literal fuel bound of a loop (repeatable)')
    ap.add_argument('--keep-going', action='store_true',
                    help='translate each requested function independently; failures are reported (exit status 2) and the '
                         'functions that translate are still written')
    args = ap.parse_args(argv)
    support = []
    group_abstract = {}
    if args.fn:
        wanted = [tuple(x.split(':', 1)) for x in args.fn]
    else:
        wanted = []
        for g in args.groups.split(','):
            g = g.strip()
            if g:
                if g not in GROUPS:
                    print('rs2v: unknown group %s' % g, file=sys.stderr)
                    return 1
                wanted += [w for w in GROUPS[g] if w not in wanted]
                support += [w for w in GROUP_SUPPORT.get(g, []) if w not in support]
                group_abstract.update(GROUP_ABSTRACT.get(g, {}))
    files = list(SUPPORT_FILES)
    for f, _ in wanted:
        if f not in files:
            files.append(f)
    abstract = dict(ABSTRACT)
    abstract.update(group_abstract)
    for x in args.abstract:
        f, n = x.split(':', 1)
        abstract[n] = f
    # the file of an abstract function is loaded only if a requested file may call it (its name occurs there)
    for n, f in abstract.items():
        if f not in files and any(n in open(os.path.join(args.src, g), encoding='utf-8').read() for g, _ in wanted
                                  if os.path.isfile(os.path.join(args.src, g))):
            files.append(f)
    errors = []
    try:
        prog = Program(args.src, files)
    except RsError as ex:
        print(str(ex), file=sys.stderr)
        return 1
    prog.abstract_names = set(abstract)
    prog.fuel = dict(FUEL)
    for x in args.fuel:
        k, v = x.split('=', 1)
        fn_, idx_ = k.rsplit(':', 1)
        prog.fuel[(fn_, int(idx_))] = int(v)
    support = [w for w in support if w not in wanted]
    for f, name in wanted + support:
        is_support = (f, name) in support
        path = os.path.join(args.src, f)
        sf = [s for s in prog.files if s.path == path][0]
        snapshot = (list(prog.out_defs), list(prog.header), dict(prog.fn_done), dict(prog.tables), set(prog.used_gnames))
        try:
            items = [it for it in sf.active(name) if it.kind == 'fn']
            if len(items) != 1:
                raise RsError('rs2v: %s: expected exactly one active definition of fn %s, found %d' % (path, name, len(items)))
            translate_fn(prog, sf, items[0], None)
        except Exception as ex:          # RsError: construct outside the subset; anything else: a translator bug -- equally loud
            if not isinstance(ex, RsError):
                ex = RsError('rs2v: internal error while translating %s: %s: %s' % (name, type(ex).__name__, ex))
            errors.append((name, str(ex)))
            print('%s %s: %s' % ('FAILED-SUPPORT' if is_support else 'FAILED', name, ex), file=sys.stderr)
            prog.out_defs, prog.header, prog.fn_done, prog.tables, prog.used_gnames = snapshot
            prog.fn_stack = []
            if not args.keep_going:
                return 1
    hdr = 'source directory: %s\n' % args.src + '\n'.join(' ' + h for h in prog.header)
    hdr += '\n ' + overflow_profile(args.src)
    if errors:
        hdr += '\nNOT TRANSLATED:\n' + '\n'.join(' %s: %s' % (n, m.replace('*)', '* )')) for n, m in errors)
    with open(args.out, 'w') as o:
        o.write(PRELUDE % hdr)
        o.write('\n'.join(prog.out_defs))
    print('rs2v: wrote %s (%d definitions, %d tables)%s' % (args.out, len(prog.fn_done), len(prog.tables),
                                                          '; %d function(s) failed' % len(errors) if errors else ''))
    return 2 if errors else 0


if __name__ == '__main__':
    sys.exit(main(sys.argv[1:]))
