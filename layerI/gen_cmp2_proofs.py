import sys
K = [('bid128_quiet_equal',0),('bid128_quiet_not_equal',7)]
M = [('bid128_minnum','MinNum'),('bid128_maxnum','MaxNum'),('bid128_minnum_mag','MinMag'),('bid128_maxnum_mag','MaxMag')]
HEADER = open('/tmp/pw/layerIcmp2/layerI/Impl/ImplProofs.v').read().split('(* HEADER END *)')[0]
HEADER = '''(* Layer I, groups K and M (ImplCmp2.v): bid128_quiet_equal / bid128_quiet_not_equal against OpsCmp.m_cmp (predicates 0 and 7:
   result bit and status word), and bid128_minnum / maxnum / minnum_mag / maxnum_mag against the acceptance list
   OpsCmp.m_minmax (the returned words are one of the model's outcomes, the status word is or-ed with that outcome's flag).
   For ALL operand words and every incoming status word; ok_ = every BID_TEN2K64/128 index in range. Same conventions as
   ImplProofs.v / ImplCmpProofs.v: one block per routine, compiled under the header of ImplProofs.v (copied below so that
   this file is a valid Coq file by itself); every block imports the shared files it needs. Axiom-free. *)
''' + HEADER[HEADER.index('From Coq'):] + '(* HEADER END *)\n'
TK = '''
(* BEGIN NAME *)
From DVI Require Import ImplMul0 ImplMul ImplOrder ImplCmp ImplCmp2.
Lemma OK_NAME x0 x1 y0 y1 st : in_u64 x0 -> in_u64 x1 -> in_u64 y0 -> in_u64 y1 -> in_u32 st ->
  ok_NAME x0 x1 y0 y1 st = true.
Proof. intros Hx0 Hx1 Hy0 Hy1 Hst. unfold ok_NAME. unfold i_swap_i32, i_swap_u64. cmp_ok x1 y1. Qed.
Lemma V_NAME x0 x1 y0 y1 st : in_u64 x0 -> in_u64 x1 -> in_u64 y0 -> in_u64 y1 -> in_u32 st ->
  i_NAME x0 x1 y0 y1 st = cmp_res IDX (pat x0 x1) (pat y0 y1) st.
Proof.
  intros Hx0 Hx1 Hy0 Hy1 Hst. unfold i_NAME. unfold i_swap_i32, i_swap_u64.
  cmp_open x0 x1 y0 y1 st IDX. cmp_walk2 x1 y1. all: cmp_leaf2.
Qed.
Theorem I_NAME x0 x1 y0 y1 st : in_u64 x0 -> in_u64 x1 -> in_u64 y0 -> in_u64 y1 -> in_u32 st ->
  let '(r, st') := i_NAME x0 x1 y0 y1 st in
  ok_NAME x0 x1 y0 y1 st = true /\\
  exists fl, m_cmp (pat x0 x1) (pat y0 y1) IDX = [([b2z r], fl)] /\\ st' = Z.lor st fl.
Proof.
  intros Hx0 Hx1 Hy0 Hy1 Hst.
  apply (cmp_res_thm IDX (pat x0 x1) (pat y0 y1) st); [apply OK_NAME|apply V_NAME]; assumption.
Qed.
Print Assumptions I_NAME.
(* END NAME *)
'''
TM = '''
(* BEGIN NAME *)
From DVI Require Import ImplMul0 ImplMul ImplOrder ImplCmp ImplCmp2.
Lemma OK_NAME x0 x1 y0 y1 st : in_u64 x0 -> in_u64 x1 -> in_u64 y0 -> in_u64 y1 -> in_u32 st ->
  ok_NAME x0 x1 y0 y1 st = true.
Proof. intros Hx0 Hx1 Hy0 Hy1 Hst. unfold ok_NAME. mm_ok. Qed.
Lemma V_NAME x0 x1 y0 y1 st : in_u64 x0 -> in_u64 x1 -> in_u64 y0 -> in_u64 y1 -> in_u32 st ->
  mm_spec KIND st (pat x0 x1) (pat y0 y1) (i_NAME x0 x1 y0 y1 st).
Proof.
  intros Hx0 Hx1 Hy0 Hy1 Hst. unfold i_NAME. mm_open x0 x1 y0 y1. all: mm_leaf.
Qed.
Theorem I_NAME x0 x1 y0 y1 st : in_u64 x0 -> in_u64 x1 -> in_u64 y0 -> in_u64 y1 -> in_u32 st ->
  let '(r0, r1, st') := i_NAME x0 x1 y0 y1 st in
  ok_NAME x0 x1 y0 y1 st = true /\\ in_u64 r0 /\\ in_u64 r1 /\\
  exists fl, In ([pat r0 r1], fl) (m_minmax KIND (pat x0 x1) (pat y0 y1)) /\\ st' = Z.lor st fl.
Proof.
  intros Hx0 Hx1 Hy0 Hy1 Hst.
  pose proof (V_NAME x0 x1 y0 y1 st Hx0 Hx1 Hy0 Hy1 Hst) as V. unfold mm_spec in V.
  destruct (i_NAME x0 x1 y0 y1 st) as [[r0 r1] st']. split; [apply OK_NAME; assumption|exact V].
Qed.
Print Assumptions I_NAME.
(* END NAME *)
'''
out = HEADER
for n,i in K: out += TK.replace('NAME', n).replace('IDX', str(i))
for n,k in M: out += TM.replace('NAME', n).replace('KIND', k)
open(sys.argv[1],'w').write(out)
