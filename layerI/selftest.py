#!/usr/bin/env python3
"""Mutation self-test of layer I: single-token edits of a scratch copy of the Rust sources must make exactly the
theorems of the affected routines fail; harmless edits must leave everything green. Writes a markdown table to stdout.

usage: selftest.py [--repo-src /repo/src] [--work /tmp/layerI_selftest] [--only ID,ID]
"""
import argparse
import os
import shutil
import sys
import time

HERE = os.path.dirname(os.path.abspath(__file__))
sys.path.insert(0, HERE)
import layerI   # noqa: E402

NC = 'bid128_noncomp.rs'
# (id, file, old text, new text, occurrence index (0-based) among matches of old, routines expected to FAIL, description)
MUTATIONS = [
    ('M01', NC, '((x.w[BID_HIGH_128W] & MASK_NAN) != MASK_NAN)', '((x.w[BID_HIGH_128W] & MASK_SNAN) != MASK_NAN)', 0,
     ['bid128_is_inf'], 'is_inf: wrong mask constant in the NaN exclusion (MASK_NAN -> MASK_SNAN)'),
    ('M02', NC, '((sig_x.w[1] == 0x0001ed09bead87c0u64) && (sig_x.w[0] > 0x378d8e63ffffffffu64)) ||	// significand is non-canonical\n        ((x.w[1] & 0x6000000000000000u64) == 0x6000000000000000u64) ||                      // significand is non-canonical',
     '((sig_x.w[1] != 0x0001ed09bead87c0u64) && (sig_x.w[0] > 0x378d8e63ffffffffu64)) ||	// significand is non-canonical\n        ((x.w[1] & 0x6000000000000000u64) == 0x6000000000000000u64) ||                      // significand is non-canonical', 0,
     ['bid128_is_zero'], 'is_zero: == -> != in the non-canonical coefficient test'),
    ('M03', 'bid128_quantexp.rs', '(((x.w[1] >> 47) as i32) & 0x3fff) - 6176', '(((x.w[1] >> 48) as i32) & 0x3fff) - 6176', 0,
     ['bid128_quantexp'], 'quantexp: wrong shift (47 -> 48) in the large-coefficient form'),
    ('M04', 'bid_from_int.rs', 'res.w[BID_LOW_128W]  = (!x + 1) as BID_UINT64;', 'res.w[BID_LOW_128W]  = (!x + 0) as BID_UINT64;', 0,
     ['bid128_from_int64'], "from_int64: two's complement negation without the +1 (every negative input, incl. i64::MIN)"),
    ('M05', NC, '    exp + q > -6143\n', '    exp + q > -6142\n', 0,
     ['bid128_is_normal'], 'is_normal: off-by-one in the -6143 threshold'),
    ('M06', NC, '&& C1_lo >= BID_NR_DIGITS[(x_nr_bits - 1) as usize].threshold_lo) {', '&& C1_lo >= BID_NR_DIGITS[(x_nr_bits - 1) as usize].threshold_hi) {', 1,
     ['bid128_is_subnormal'], 'is_subnormal: low word compared with threshold_hi instead of threshold_lo'),
    ('M07', 'bid128_llquantexp.rs', '        i64::MIN\n', '        i64::MAX\n', 0,
     ['bid128_llquantexp'], 'llquantexp: wrong indefinite constant (i64::MIN -> i64::MAX)'),
    ('M08', NC, '(x.w[BID_HIGH_128W] & !MASK_SIGN) | y.w[BID_HIGH_128W] & MASK_SIGN', '(x.w[BID_HIGH_128W] & !MASK_SIGN) | x.w[BID_HIGH_128W] & MASK_SIGN', 0,
     ['bid128_copy_sign'], 'copy_sign: sign taken from x instead of y'),
    ('M09', NC, '&& sig_x.w[0]  < 0x38c15b0a00000000u64)', '&& sig_x.w[0]  < 0x38c15b0a00000001u64)', 0,
     ['bid128_is_canonical'], 'is_canonical: NaN payload bound 10^33 off by one'),
    ('M10', NC, 'y_exp = (y.w[1] << 2) & MASK_EXP;', 'y_exp = (y.w[1] << 1) & MASK_EXP;', 0,
     ['bid128_same_quantum'], 'same_quantum: wrong shift for the large-coefficient exponent of y'),
    ('M11', NC, 'res.w[BID_HIGH_128W] ^= MASK_SIGN;', 'res.w[BID_HIGH_128W] |= MASK_SIGN;', 0,
     ['bid128_negate'], 'negate: ^= -> |='),
    ('M12', 'bid128_quantum.rs', '0x3040000000000000i64', '0x3041000000000000i64', 0,
     ['bid128_quantum'], 'quantum: wrong bias constant'),
    ('M13', 'bid_internal.rs', 'pub (crate) const MASK_STEERING_BITS: u64         = 0x6000000000000000u64;',
     'pub (crate) const MASK_STEERING_BITS: u64         = 0x4000000000000000u64;', 0,
     ['bid128_quantexp', 'bid128_llquantexp', 'bid128_quantum'], 'bid_internal.rs: MASK_STEERING_BITS constant changed (used by three routines)'),
    ('M14', 'bid128.rs', 'DEC_DIGITS { digits: 0   , threshold_hi: 0x0000000000000000u64, threshold_lo: 0x00000000000186a0u64, digits1: 5}',
     'DEC_DIGITS { digits: 0   , threshold_hi: 0x0000000000000000u64, threshold_lo: 0x00000000000186a1u64, digits1: 5}', 0,
     ['bid128_is_normal', 'bid128_is_subnormal'], 'bid128.rs: one BID_NR_DIGITS threshold (17-bit row) changed by one'),
    ('M15', NC, '        if exp_x > 19 {\n', '        if exp_x > 20 {\n', 0,
     ['bid128_class'], 'class: table switch-over 19 -> 20 (index 20 into the 20-row BID_TEN2K64: out of range)'),
    ('M16', 'bid_internal.rs', '    PH += PM >> 32;\n    PM  = ((PM as BID_UINT32) as BID_UINT64) + PM2 + (PL >> 32) as BID_UINT64;\n\n    BID_UINT128::new(PH + (PM >> 32), (PM << 32) + ((PL as BID_UINT32) as BID_UINT64))\n}\n\n/// get fu64 64x64bit product\n/// Note',
     '    PH += PM >> 31;\n    PM  = ((PM as BID_UINT32) as BID_UINT64) + PM2 + (PL >> 32) as BID_UINT64;\n\n    BID_UINT128::new(PH + (PM >> 32), (PM << 32) + ((PL as BID_UINT32) as BID_UINT64))\n}\n\n/// get fu64 64x64bit product\n/// Note', 0,
     ['bid128_class'], 'bid_internal.rs: __mul_64x64_to_128 carries PM >> 31 instead of PM >> 32 (helper under bid128_class)'),
    ('M17', NC, '    (x.w[BID_HIGH_128W] & MASK_SNAN) == MASK_SNAN\n', '    (x.w[BID_HIGH_128W] & MASK_NAN) == MASK_SNAN\n', 0,
     ['bid128_is_signaling'], 'is_signaling: MASK_SNAN -> MASK_NAN on the left'),
    # ---- group D (total order, scalbln) and group E (DPD): run with groups 'D' / 'E' only
    ('D01', NC, '(pyld_x.w[1] > pyld_y.w[1]) || ((pyld_x.w[1] == pyld_y.w[1]) && (pyld_x.w[0] >= pyld_y.w[0]))',
     '(pyld_x.w[1] < pyld_y.w[1]) || ((pyld_x.w[1] == pyld_y.w[1]) && (pyld_x.w[0] >= pyld_y.w[0]))', 0,
     ['bid128_total_order'], 'total_order: payload comparison of two negative NaNs reversed (> -> <)', 'D'),
    ('D02', NC, '        if exp_x - exp_y > 19 {\n            sig_n_prime256 = __mul_128x128_to_256(&sig_x, &BID_TEN2K128[(exp_x - exp_y - 20) as usize]);\n            // the compensated significands are equal (ie "x and y represent the same\n            // entities") return 1 if (negative && expx > expy) ||\n            // (positive && expx < expy)\n            if (sig_n_prime256.w[3] == 0) && (sig_n_prime256.w[2] == 0)\n                && (sig_n_prime256.w[1] == sig_y.w[1])\n                && (sig_n_prime256.w[0] == sig_y.w[0]) {\n                // the case exp_x == exp_y',
     '        if exp_x - exp_y > 18 {\n            sig_n_prime256 = __mul_128x128_to_256(&sig_x, &BID_TEN2K128[(exp_x - exp_y - 20) as usize]);\n            // the compensated significands are equal (ie "x and y represent the same\n            // entities") return 1 if (negative && expx > expy) ||\n            // (positive && expx < expy)\n            if (sig_n_prime256.w[3] == 0) && (sig_n_prime256.w[2] == 0)\n                && (sig_n_prime256.w[1] == sig_y.w[1])\n                && (sig_n_prime256.w[0] == sig_y.w[0]) {\n                // the case exp_x == exp_y', 0,
     ['bid128_total_order'], 'total_order: switch-over 19 -> 18: exponent gap 19 indexes BID_TEN2K128[-1] (out of range)', 'D'),
    ('D03', NC, '    x.w[1] &= 0x7fffffffffffffffu64;', '    x.w[1] &= 0x7ffffffffffffffeu64;', 0,
     ['bid128_total_order_mag'], 'total_order_mag: sign mask of x also clears bit 0 of the high word', 'D'),
    ('D04', 'bid128_scalbln.rs', 'val if val < n => 0x7fffffffi32,', 'val if val < n => 0x7ffffffei32,', 0,
     ['bid128_scalbln'], 'scalbln: saturation value i32::MAX off by one', 'D'),
    ('D05', 'bid128_scalbln.rs', 'val if val > n => 0x80000000i32,', 'val if val >= n => 0x80000000i32,', 0,
     ['bid128_scalbln'], 'scalbln: guard > -> >= (every in-range n would be replaced by i32::MIN)', 'D'),
    ('D06', 'bid128_scalbln.rs', '        _              => n1\n', '        _              => n1,\n', 0,
     [], 'scalbln: trailing comma after the last match arm (harmless)', 'D'),
    ('E01', 'bid_dpd.rs', 'd1000.w[0] = 0x9DB22D0E56041894u64;', 'd1000.w[0] = 0x9DB22D0E56041893u64;', 0,
     ['bid_to_dpd128'], 'bid_to_dpd128: reciprocal constant ceil(2^128/1000) decremented (floor instead of ceiling)', 'E'),
    ('E02', 'bid_b2d.rs', '    0x020u64, 0x021u64, 0x022u64,', '    0x020u64, 0x021u64, 0x023u64,', 0,
     ['bid_to_dpd128'], 'bid_b2d.rs: one BID_B2D entry (row 22) changed', 'E'),
    ('E03', 'bid_dpd.rs', '(BID_B2D[d5.w[0] as usize] >> 4)', '(BID_B2D[d5.w[0] as usize] >> 3)', 0,
     ['bid_to_dpd128'], 'bid_to_dpd128: straddling declet shifted by 3 instead of 4', 'E'),
    ('E04', 'bid_dpd.rs', 'd10 = BID_D2B[((trailing.w[0] >> 10) & 0x3ff) as usize];', 'd10 = BID_D2B[((trailing.w[0] >> 11) & 0x3ff) as usize];', 0,
     ['bid_dpd_to_bid128'], 'bid_dpd_to_bid128: second declet taken from bit 11', 'E'),
    ('E05', 'bid_dpd.rs', '(d9 * 1000000u64)', '(d9 * 10000000u64)', 0,
     ['bid_dpd_to_bid128'], 'bid_dpd_to_bid128: weight of declet 2 is 10^7 instead of 10^6', 'E'),
    ('E06', 'bid_b2d.rs', '    10, 11, 12, 13, 14, 15, 16, 17, 18, 19, 90, 91, 810, 811, 890, 891,', '    10, 11, 12, 13, 14, 15, 16, 17, 18, 19, 90, 91, 810, 811, 890, 892,', 0,
     ['bid_dpd_to_bid128'], 'bid_b2d.rs: one BID_D2B entry (a non-canonical declet, row 31) changed', 'E'),
    # ---- group F (pack routine, scalbn, ldexp) and group H (helpers): run with groups 'F' / 'H' only
    ('F01', 'bid128_scalbn.rs', 'res.w[1] = CX.w[1] & QUIET_MASK64;', 'res.w[1] = CX.w[1];', 0,
     ['bid128_scalbn'], 'scalbn: a signaling NaN operand is no longer quieted', 'F'),
    ('F02', 'bid128_ldexp.rs', 'CX2.w[1]     = (CX.w[1] << 1) | (CX.w[0] >> 63);', 'CX2.w[1]     = (CX.w[1] << 1) | (CX.w[0] >> 62);', 0,
     ['bid128_ldexp'], 'ldexp: the zero-padding loop takes two bits instead of one from the low word (2*C wrong)', 'F'),
    ('F03', 'bid_internal.rs', '    if sgn != 0 && ((rmode as u32 - 1u32) < 2) {\n        rmode = RoundingMode::from(3 - (rmode as u32));',
     '    if sgn != 0 && ((rmode as u32 - 1u32) < 2) {\n        rmode = RoundingMode::from(4 - (rmode as u32));', 1,
     ['bid_get_BID128', 'bid128_scalbn', 'bid128_ldexp'],
     'handle_UF_128: directed modes of a negative operand are mapped 1->3, 2->2 instead of swapped (shared file ImplUF.v fails: all three)', 'F'),
    ('F04', 'bid_decimal_data.rs', '    6,	        // 134 - 128', '    7,	        // 134 - 128', 0,
     ['bid_get_BID128', 'bid128_scalbn', 'bid128_ldexp'], 'bid_decimal_data.rs: one BID_RECIP_SCALE entry changed (row 5)', 'F'),
    ('F05', 'bid_internal.rs', '            || (sgn != 0 && rnd_mode == RoundingMode::Upward)\n            || (sgn == 0 && rnd_mode == RoundingMode::Downward) {\n                pres.w[1] = sgn | LARGEST_BID128_HIGH;',
     '            || (sgn != 0 && rnd_mode == RoundingMode::Downward)\n            || (sgn == 0 && rnd_mode == RoundingMode::Downward) {\n                pres.w[1] = sgn | LARGEST_BID128_HIGH;', 0,
     ['bid_get_BID128', 'bid128_scalbn', 'bid128_ldexp'], 'bid_get_BID128: overflow of a negative operand saturates under Downward instead of Upward', 'F'),
    ('F06', 'bid_internal.rs', '        if expon - (MAX_FORMAT_DIGITS_128 as i32) <= (DECIMAL_MAX_EXPON_128) {',
     '        if expon - 2 * (MAX_FORMAT_DIGITS_128 as i32) <= (DECIMAL_MAX_EXPON_128) {', 0,
     ['bid_get_BID128', 'bid128_scalbn', 'bid128_ldexp'],
     'bid_get_BID128: the guard of the padding loop admits an exponent excess of 68: a zero coefficient then needs 68 iterations, more than the literal fuel 36', 'F'),
    ('F07', 'bid128_scalbn.rs', '          exponent_x -= 1;\n          exp64      -= 1;\n', '          exp64      -= 1;\n          exponent_x -= 1; // swapped\n', 0,
     ['bid128_scalbn'], 'scalbn: two independent statements of the loop body swapped, comment added: harmless, but reported as a failure '
     '(known false alarm: the order of the merged tuple after the `if` around the loop follows the order of assignment, and the '
     'proof names that tuple; the Fixpoint signature itself is canonical)', 'F'),
    ('F09', 'bid128_scalbn.rs', '    let mut sign_x: BID_UINT64 = 0;\n    let mut exponent_x: i32 = 0;\n',
     '    let mut exponent_x: i32 = 0;   // declarations swapped\n    let mut sign_x: BID_UINT64 = 0;\n', 0,
     [], 'scalbn: two declarations swapped, comment added (harmless)', 'F'),
    ('F08', 'bid_internal.rs', '    if rnd_mode == RoundingMode::NearestEven && (CQ.w[0] & 1) == 1 {\n        // check whether fractional part of initial_P/10^ed1 is exactly .5',
     '    if rnd_mode == RoundingMode::NearestAway && (CQ.w[0] & 1) == 1 {\n        // check whether fractional part of initial_P/10^ed1 is exactly .5', 0,
     ['bid_get_BID128', 'bid128_scalbn', 'bid128_ldexp'], 'handle_UF_128: the tie correction is applied for NearestAway instead of NearestEven', 'F'),
    ('P01', 'bid_internal.rs', 'if S < X1 || X1 < CI { 1u64 }', 'if S < X1 { 1u64 }', 0,
     ['__add_carry_in_out', '__mul_64x192_to_256', '__mul_128x128_to_256', '__sqr128_to_256'],
     '__add_carry_in_out: the carry of X + CI is dropped: the helper and the three helpers above it', 'H'),
    ('P02', 'bid_internal.rs', None, None, 0, ['__sub_borrow_out'], '__sub_borrow_out: borrow test S > X1 weakened to S >= X1', 'H'),
    ('P03', 'bid_internal.rs', '    PH += PM >> 32;\n    PM  = ((PM as BID_UINT32) as BID_UINT64) + PM2 + (PL >> 32) as BID_UINT64;\n\n    BID_UINT128::new(PH + (PM >> 32), (PM << 32) + ((PL as BID_UINT32) as BID_UINT64))\n}\n',
     '    PH += PM >> 31;\n    PM  = ((PM as BID_UINT32) as BID_UINT64) + PM2 + (PL >> 32) as BID_UINT64;\n\n    BID_UINT128::new(PH + (PM >> 32), (PM << 32) + ((PL as BID_UINT32) as BID_UINT64))\n}\n', 0,
     ['__mul_64x64_to_128', '__mul_64x128_full', '__mul_64x128_to_192', '__mul_64x128_to192', '__mul_64x128_to_256', '__mul_64x128_low',
      '__mul_64x128_to_128', '__mul_64x128_short', '__mul_64x192_to_256', '__mul_128x128_to_256', '__mul_128x128_low', '__mul_128x128_full',
      '__mul_128x128_high', '__sqr128_to_256'],
     '__mul_64x64_to_128 carries PM >> 31: the helper and every helper built on it (the _full/_fast/MACH/HIGH variants are separate functions)', 'H'),
    ('I01', 'bid128_frexp.rs', 'exp      = (exp_x - 6176 + (q as u32)) as i32;', 'exp      = (exp_x - 6175 + (q as u32)) as i32;', 0,
     ['bid128_frexp'], 'frexp: exponent bias off by one', 'I'),
    ('J01', 'bid128_to_int32.rs', '            value if value > 10 => { // x >= 10^10 ~= 2^33.2... (cannot fit in 32 bits)',
     '            value if value > 11 => { // x >= 10^10 ~= 2^33.2... (cannot fit in 32 bits)', 0,
     ['bid128_to_int32_rnint'], 'to_int32_rnint: the 11-integer-digit operands are no longer rejected', 'J'),
    ('J02', 'bid128_to_int32.rs', 'if tmp64 >= 0x500000005u64 {', 'if tmp64 > 0x500000005u64 {', 0,
     ['bid128_to_int32_rninta'], 'to_int32_rninta: -2^31 - 1/2 (a tie, rounds away to -2^31 - 1) is no longer rejected', 'J'),
    # harmless edits: everything must still check
    ('H01', NC, None, None, 0, [], 'is_zero: local variable sig_x renamed to sx (whole function)'),
    ('H02', NC, '    let x_exp: BID_UINT64;\n    let y_exp: BID_UINT64;\n\n    #[cfg(target_endian = "big")]\n    let mut x = *x;',
     '    let y_exp: BID_UINT64;\n    let x_exp: BID_UINT64;\n    // a comment, and the two declarations above swapped\n\n    #[cfg(target_endian = "big")]\n    let mut x = *x;', 0,
     [], 'same_quantum: two independent declarations reordered, comment added'),
    ('H03', 'bid_from_int.rs', 'res.w[BID_LOW_128W]  = (!x + 1) as BID_UINT64;', 'res.w[BID_LOW_128W]  = (-x) as BID_UINT64;', 0,
     [], 'from_int64: !x + 1 rewritten as the (wrapping) negation -x: different code, same function'),
    ('H04', 'bid128_quantexp.rs', '    } else if (x.w[1] & MASK_STEERING_BITS) == MASK_STEERING_BITS {\n        (((x.w[1] >> 47) as i32) & 0x3fff) - 6176',
     '    } else if (x.w[1] & MASK_STEERING_BITS) == MASK_STEERING_BITS {\n        let e: i32 = ((x.w[1] >> 47) as i32) & 0x3fff;\n        e - 6176', 0,
     [], 'quantexp: intermediate let introduced'),
    # outside the subset: the translator must refuse, loudly, and only the routine concerned is lost
    ('U01', NC, '    (x.w[BID_HIGH_128W] & MASK_INF) != MASK_INF\n', '    (x.w[BID_HIGH_128W] & MASK_INF).count_ones() != 4\n', 0,
     ['bid128_is_finite'], 'is_finite: method call .count_ones() (outside the subset: translator error expected)'),
    ('U02', NC, '    let mut res = *x;\n    res.w[BID_HIGH_128W] &= !MASK_SIGN;', '    let mut res = *x;\n    for _i in 0..1 { }\n    res.w[BID_HIGH_128W] &= !MASK_SIGN;', 0,
     ['bid128_abs'], 'abs: a `for` loop inserted (outside the subset: translator error expected)'),
]


def apply_mutation(srcdir, m):
    mid, fname, old, new, occ = m[:5]
    path = os.path.join(srcdir, fname)
    with open(path, encoding='utf-8') as f:
        text = f.read()
    if mid == 'P02':
        a = text.index('fn __sub_borrow_out')
        b = text.index('}', text.index('S > X1', a))
        assert 'S > X1' in text[a:b]
        text = text[:a] + text[a:b].replace('S > X1', 'S >= X1') + text[b:]
    elif mid == 'H01':
        a = text.index('pub (crate) fn bid128_is_zero')
        b = text.index('pub (crate) fn bid128_is_inf')
        body = text[a:b]
        assert 'sig_x' in body
        text = text[:a] + body.replace('sig_x', 'sx') + text[b:]
    else:
        pos = -1
        for _ in range(occ + 1):
            pos = text.find(old, pos + 1)
            if pos < 0:
                raise RuntimeError('%s: text to mutate not found in %s' % (mid, fname))
        text = text[:pos] + new + text[pos + len(old):]
    with open(path, 'w', encoding='utf-8') as f:
        f.write(text)


def main(argv):
    ap = argparse.ArgumentParser()
    ap.add_argument('--repo-src', default='/repo/src')
    ap.add_argument('--work', default='/tmp/layerI_selftest')
    ap.add_argument('--only', default='')
    a = ap.parse_args(argv)
    only = set(x for x in a.only.split(',') if x)
    os.makedirs(a.work, exist_ok=True)
    t0 = time.time()
    base = layerI.check_layerI(os.path.join(a.work, 'scratch_base'), a.repo_src)
    tb = time.time() - t0
    print('## baseline (unmodified %s)\n' % a.repo_src)
    print('%d/%d routines check, %.1f s\n' % (sum(1 for r in base if r[1]), len(base), tb))
    if not all(r[1] for r in base):
        for r in base:
            if not r[1]:
                print('* FAIL %s: %s' % (r[0], r[2][:300]))
    print('## mutations\n')
    print('| id | edit | expected to fail | failed | others still pass | verdict | time | first line of the failure |')
    print('|---|---|---|---|---|---|---|---|')
    allok = True
    base_cache = {}
    for m in MUTATIONS:
        mid, fname, old, new, occ, expect, desc = m[:7]
        groups = m[7] if len(m) > 7 else 'A,B,C'
        if only and mid not in only:
            continue
        if groups not in base_cache and groups != 'A,B,C':
            tb0 = time.time()
            bres = layerI.check_layerI(os.path.join(a.work, 'scratch_base_' + groups), a.repo_src, groups)
            base_cache[groups] = all(r[1] for r in bres)
            print('| base %s | unmodified sources, groups %s | (none) | %s | - | %s | %.0f s | |' % (
                groups, groups, ', '.join(r[0] for r in bres if not r[1]) or '(none)',
                'passes, as it should' if base_cache[groups] else 'UNEXPECTED', time.time() - tb0))
            allok = allok and base_cache[groups]
        src = os.path.join(a.work, 'src_' + mid)
        if os.path.isdir(src):
            shutil.rmtree(src)
        os.makedirs(src)
        for f in os.listdir(a.repo_src):
            if f.endswith('.rs'):
                shutil.copy(os.path.join(a.repo_src, f), os.path.join(src, f))
        apply_mutation(src, m)
        t1 = time.time()
        res = layerI.check_layerI(os.path.join(a.work, 'scratch_' + mid), src, groups)
        dt = time.time() - t1
        failed = sorted(r[0] for r in res if not r[1])
        good = failed == sorted(expect)
        allok = allok and good
        first = ''
        for r in res:
            if not r[1]:
                lines = [l.strip() for l in r[2].splitlines() if l.strip()]
                key = [l for l in lines if l.startswith('Error') or 'rs2v:' in l or 'unsupported' in l]
                first = (key[0] if key else lines[0])[:160].replace('|', '/')
                idx = lines.index(key[0]) if key else 0
                if key and key[0].rstrip().endswith(':') and idx + 1 < len(lines):
                    first = (key[0] + ' ' + lines[idx + 1])[:160].replace('|', '/')
                break
        print('| %s | %s (%s) | %s | %s | %s | %s | %.0f s | %s |' % (
            mid, desc, fname, ', '.join(expect) or '(none)', ', '.join(failed) or '(none)',
            'yes' if all(r[1] for r in res if r[0] not in expect) else 'NO',
            'detected' if (good and expect) else ('passes, as it should' if good else 'UNEXPECTED'), dt, first))
        sys.stdout.flush()
    print('\nself-test %s, total %.0f s' % ('PASSED' if allok else 'FAILED', time.time() - t0))
    return 0 if allok else 1


if __name__ == '__main__':
    sys.exit(main(sys.argv[1:]))
