#!/usr/bin/env python3
"""gen_help_proofs.py -- writes Impl/ImplHelpProofs.v: one self-contained block per shared multi-word helper of
bid_internal.rs (group H of layerI.py, "helper <name> is exact").

Every block carries the exactness lemmas of the helpers it calls (copied text), so that a block fails exactly when the
helper itself or a helper below it changed meaning; nothing is shared between blocks besides ImplLib / ImplGen /
ImplCommon.  Lemma texts that exist in the shared files (ImplMul0.v, ImplMul.v, ImplDpd.v, ImplPack.v, ImplCmp.v) are
extracted from there, so that each statement has one source; the others are below.  Run after changing those files:
    python3 gen_help_proofs.py        (rewrites Impl/ImplHelpProofs.v next to this script)
"""
import os
import re
import sys

HERE = os.path.dirname(os.path.abspath(__file__))
IMPL = os.path.join(HERE, 'Impl')

P64 = '18446744073709551616'
P128 = '340282366920938463463374607431768211456'


def extract(fname, lemma):
    text = open(os.path.join(IMPL, fname)).read()
    m = re.search(r'^(Lemma|Definition) %s\b.*?(Qed\.|(?<=\.)\n(?=\n))' % re.escape(lemma), text, re.S | re.M)
    if not m:
        raise SystemExit('gen_help_proofs: %s not found in %s' % (lemma, fname))
    return m.group(0).rstrip() + '\n'


# name -> (dependencies, text)
DB = {}


def ext(name, fname, deps=()):
    DB[name] = (list(deps), extract(fname, name))


def new(name, deps, text):
    DB[name] = (list(deps), text.strip('\n') + '\n')


new('v128', [], 'Definition v128 (w0 w1 : Z) : Z := w1 * %s + w0.' % P64)
new('dlia', [], 'Ltac dlia := Z.div_mod_to_equations; lia.')
ext('mul_bound', 'ImplMul0.v')
ext('S_mul_64x64_to_128', 'ImplMul0.v', ['mul_bound'])
ext('S_add_128_64', 'ImplMul0.v')
ext('S_mul_64x128_full', 'ImplMul0.v', ['S_mul_64x64_to_128', 'S_add_128_64'])
ext('S_mul_64x128_to_192', 'ImplMul.v', ['S_mul_64x64_to_128', 'S_add_128_64'])
ext('S_mul_64x128_to192', 'ImplCmp.v', ['S_mul_64x64_to_128', 'S_add_128_64'])
ext('S_add_carry_out', 'ImplPack.v')
ext('S_add_carry_in_out', 'ImplPack.v')
ext('S_mul_128x128_to_256', 'ImplMul.v', ['S_mul_64x128_full', 'S_add_carry_out', 'S_add_carry_in_out'])
ext('S_add_128_128', 'ImplDpd.v')
ext('S_sub_128_128', 'ImplDpd.v')
ext('S_mul_128x128_high', 'ImplDpd.v', ['S_mul_64x64_to_128', 'S_add_128_128', 'S_add_128_64'])
ext('pow2_split', 'ImplPack.v')
ext('pow2_pos', 'ImplPack.v', ['pow2_split'])
ext('S_shr_128', 'ImplPack.v', ['v128', 'pow2_pos'])
ext('S_shl_128_long', 'ImplPack.v', ['v128', 'pow2_pos'])
ext('S_shr_128_long', 'ImplPack.v', ['v128', 'pow2_pos', 'S_shr_128'])
ext('S_mul_128x128_full', 'ImplPack.v', ['v128', 'S_mul_64x64_to_128', 'S_add_128_128', 'S_add_128_64'])

MUL64_PROOF = DB['S_mul_64x64_to_128'][1].split('Proof.')[1]


def mul64_variant(fn, lemma):
    return ('Lemma %s CX CY : in_u64 CX -> in_u64 CY ->\n  let \'(lo, hi) := i_%s CX CY in\n'
            '  in_u64 lo /\\ in_u64 hi /\\ hi * %s + lo = CX * CY.\nProof.' % (lemma, fn, P64)
            + MUL64_PROOF.replace('i___mul_64x64_to_128', 'i_' + fn))


new('S_mul_64x64_to_128_full', ['mul_bound'], mul64_variant('__mul_64x64_to_128_full', 'S_mul_64x64_to_128_full'))
new('S_mul_64x64_to_128MACH', ['mul_bound'], mul64_variant('__mul_64x64_to_128MACH', 'S_mul_64x64_to_128MACH'))
new('S_mul_64x64_to_128HIGH', ['mul_bound', 'dlia'], '''
(* the high word of the product *)
Lemma S_mul_64x64_to_128HIGH CX CY : in_u64 CX -> in_u64 CY ->
  in_u64 (i___mul_64x64_to_128HIGH CX CY) /\\ i___mul_64x64_to_128HIGH CX CY = CX * CY / P64.
Proof.
  unfold in_u64. intros HX HY. unfold i___mul_64x64_to_128HIGH. cbv beta iota zeta.
  rewrite !(shiftr_lit _ 32 4294967296) by (try reflexivity; lia).
  unfold wrap_u32, wrap_u64.
  set (xh := CX / 4294967296). set (xl := CX mod 4294967296). set (yh := CY / 4294967296). set (yl := CY mod 4294967296).
  assert (Hxh : 0 <= xh <= 4294967295) by (unfold xh; lia). assert (Hxl : 0 <= xl <= 4294967295) by (unfold xl; lia).
  assert (Hyh : 0 <= yh <= 4294967295) by (unfold yh; lia). assert (Hyl : 0 <= yl <= 4294967295) by (unfold yl; lia).
  assert (EX : CX = xh * 4294967296 + xl) by (unfold xh, xl; lia).
  assert (EY : CY = yh * 4294967296 + yl) by (unfold yh, yl; lia).
  assert (EP : CX * CY = (xh * yh) * P64 + (xh * yl + xl * yh) * 4294967296 + xl * yl) by (rewrite EX, EY; ring).
  rewrite EP. clear EP EX EY.
  pose proof (mul_bound xh yl _ _ Hxh Hyl) as B1. pose proof (mul_bound xh yh _ _ Hxh Hyh) as B2.
  pose proof (mul_bound xl yl _ _ Hxl Hyl) as B3. pose proof (mul_bound xl yh _ _ Hxl Hyh) as B4.
  set (a := xh * yl) in *. set (b := xh * yh) in *. set (c := xl * yl) in *. set (d := xl * yh) in *.
  clearbody a b c d xh xl yh yl. cbn in B1, B2, B3, B4.
  lia.
Qed.
'''.replace('P64', P64))
new('S_mul_64x64_to_128_fast', ['mul_bound'], '''
(* the "fast" variant adds the two middle partial products without a carry: exact when both operands are below 2^63 *)
Lemma S_mul_64x64_to_128_fast CX CY : 0 <= CX < 9223372036854775808 -> 0 <= CY < 9223372036854775808 ->
  let '(lo, hi) := i___mul_64x64_to_128_fast CX CY in
  in_u64 lo /\\ in_u64 hi /\\ hi * P64 + lo = CX * CY.
Proof.
  unfold in_u64. intros HX HY. unfold i___mul_64x64_to_128_fast, i_d128_new. cbv beta iota zeta.
  rewrite !(shiftr_lit _ 32 4294967296) by (try reflexivity; lia).
  rewrite !(shiftl_lit _ 32 4294967296) by (try reflexivity; lia).
  unfold wrap_u32, wrap_u64.
  set (xh := CX / 4294967296). set (xl := CX mod 4294967296). set (yh := CY / 4294967296). set (yl := CY mod 4294967296).
  assert (Hxh : 0 <= xh <= 2147483647) by (unfold xh; lia). assert (Hxl : 0 <= xl <= 4294967295) by (unfold xl; lia).
  assert (Hyh : 0 <= yh <= 2147483647) by (unfold yh; lia). assert (Hyl : 0 <= yl <= 4294967295) by (unfold yl; lia).
  assert (EX : CX = xh * 4294967296 + xl) by (unfold xh, xl; lia).
  assert (EY : CY = yh * 4294967296 + yl) by (unfold yh, yl; lia).
  assert (EP : CX * CY = (xh * yh) * P64 + (xh * yl + xl * yh) * 4294967296 + xl * yl) by (rewrite EX, EY; ring).
  rewrite EP. clear EP EX EY.
  pose proof (mul_bound xh yl _ _ Hxh Hyl) as B1. pose proof (mul_bound xh yh _ _ Hxh Hyh) as B2.
  pose proof (mul_bound xl yl _ _ Hxl Hyl) as B3. pose proof (mul_bound xl yh _ _ Hxl Hyh) as B4.
  set (a := xh * yl) in *. set (b := xh * yh) in *. set (c := xl * yl) in *. set (d := xl * yh) in *.
  clearbody a b c d xh xl yh yl. cbn in B1, B2, B3, B4.
  lia.
Qed.
'''.replace('P64', P64))
new('S_mul_64x64_to_64', [], '''
Lemma S_mul_64x64_to_64 CX CY : i___mul_64x64_to_64 CX CY = (CX * CY) mod P64.
Proof. reflexivity. Qed.
'''.replace('P64', P64))
new('S_sub_borrow_out', [], '''
Lemma S_sub_borrow_out X Y : in_u64 X -> in_u64 Y ->
  let '(d, B) := i___sub_borrow_out X Y in in_u64 d /\\ 0 <= B <= 1 /\\ d - B * P64 = X - Y.
Proof.
  unfold in_u64. intros HX HY. unfold i___sub_borrow_out. cbv beta iota zeta. unfold wrap_u64.
  destruct (Z.gtb_spec ((X - Y) mod P64) X); lia.
Qed.
'''.replace('P64', P64))
new('S_sub_borrow_in_out', [], '''
Lemma S_sub_borrow_in_out X Y CI : in_u64 X -> in_u64 Y -> 0 <= CI <= 1 ->
  let '(d, B) := i___sub_borrow_in_out X Y CI in in_u64 d /\\ 0 <= B <= 1 /\\ d - B * P64 = X - Y - CI.
Proof.
  unfold in_u64. intros HX HY HC. unfold i___sub_borrow_in_out. cbv beta iota zeta. unfold wrap_u64.
  destruct (Z.gtb_spec (((X - CI) mod P64 - Y) mod P64) ((X - CI) mod P64));
  destruct (Z.gtb_spec ((X - CI) mod P64) X); cbn [orb]; lia.
Qed.
'''.replace('P64', P64))
new('S_add_128_64_mod', ['v128'], '''
(* for all inputs: addition modulo 2^128 *)
Lemma S_add_128_64_mod a0 a1 b : in_u64 a0 -> in_u64 a1 -> in_u64 b ->
  let '(lo, hi) := i___add_128_64 a0 a1 b in
  in_u64 lo /\\ in_u64 hi /\\ v128 lo hi = (v128 a0 a1 + b) mod P128.
Proof.
  unfold in_u64, v128. intros H0 H1 Hb. unfold i___add_128_64, i_d128_Default_default, i_d128_new. cbv beta iota zeta.
  unfold wrap_u64. destruct (Z.ltb_spec ((b + a0) mod P64) b); lia.
Qed.
'''.replace('P64', P64).replace('P128', P128))
new('S_add_128_128_mod', ['v128'], '''
Lemma S_add_128_128_mod a0 a1 b0 b1 : in_u64 a0 -> in_u64 a1 -> in_u64 b0 -> in_u64 b1 ->
  let '(lo, hi) := i___add_128_128 a0 a1 b0 b1 in
  in_u64 lo /\\ in_u64 hi /\\ v128 lo hi = (v128 a0 a1 + v128 b0 b1) mod P128.
Proof.
  unfold in_u64, v128. intros A0 A1 B0 B1. unfold i___add_128_128, i_d128_Default_default, i_d128_new. cbv beta iota zeta.
  unfold wrap_u64. destruct (Z.ltb_spec ((b0 + a0) mod P64) b0); lia.
Qed.
'''.replace('P64', P64).replace('P128', P128))
new('S_sub_128_128_mod', ['v128'], '''
Lemma S_sub_128_128_mod a0 a1 b0 b1 : in_u64 a0 -> in_u64 a1 -> in_u64 b0 -> in_u64 b1 ->
  let '(lo, hi) := i___sub_128_128 a0 a1 b0 b1 in
  in_u64 lo /\\ in_u64 hi /\\ v128 lo hi = (v128 a0 a1 - v128 b0 b1) mod P128.
Proof.
  unfold in_u64, v128. intros A0 A1 B0 B1. unfold i___sub_128_128, i_d128_Default_default, i_d128_new. cbv beta iota zeta.
  unfold wrap_u64. destruct (Z.ltb_spec a0 b0); lia.
Qed.
'''.replace('P64', P64).replace('P128', P128))
new('S_sub_128_64_mod', ['v128'], '''
Lemma S_sub_128_64_mod a0 a1 b : in_u64 a0 -> in_u64 a1 -> in_u64 b ->
  let '(lo, hi) := i___sub_128_64 a0 a1 b in
  in_u64 lo /\\ in_u64 hi /\\ v128 lo hi = (v128 a0 a1 - b) mod P128.
Proof.
  unfold in_u64, v128. intros A0 A1 B. unfold i___sub_128_64, i_d128_Default_default, i_d128_new. cbv beta iota zeta.
  unfold wrap_u64. destruct (Z.ltb_spec a0 b); lia.
Qed.
'''.replace('P64', P64).replace('P128', P128))


def low128(fn, lemma):
    return '''
(* the low 128 bits of the 192-bit product *)
Lemma LEMMA A B0 B1 : in_u64 A -> in_u64 B0 -> in_u64 B1 ->
  let '(q0, q1) := i_FN A B0 B1 in
  in_u64 q0 /\\ in_u64 q1 /\\ v128 q0 q1 = (A * v128 B0 B1) mod P128.
Proof.
  intros HA H0 H1. unfold i_FN, i_d128_Default_default, i_d128_new. cbv beta iota zeta.
  pose proof (S_mul_64x64_to_128 A B1 HA H1) as S1. destruct (i___mul_64x64_to_128 A B1) as [h0 h1].
  pose proof (S_mul_64x64_to_128 A B0 HA H0) as S0. destruct (i___mul_64x64_to_128 A B0) as [l0 l1].
  destruct S1 as (R1 & R2 & E1). destruct S0 as (R3 & R4 & E0).
  assert (Bd : A * B1 <= 18446744073709551615 * 18446744073709551615) by (unfold in_u64 in *; apply Z.mul_le_mono_nonneg; lia).
  assert (Hs : h1 * P64 + h0 + l1 < P128) by (unfold in_u64 in *; lia).
  pose proof (S_add_128_64 h0 h1 l1 R1 R2 R4 Hs) as S2. destruct (i___add_128_64 h0 h1 l1) as [m0 m1].
  destruct S2 as (R5 & R6 & E2). unfold v128.
  replace (A * (B1 * P64 + B0)) with ((A * B1) * P64 + A * B0) by ring. rewrite <- E1, <- E0.
  unfold in_u64 in *. repeat split; lia.
Qed.
'''.replace('LEMMA', lemma).replace('FN', fn).replace('P64', P64).replace('P128', P128)


new('S_mul_64x128_low', ['v128', 'S_mul_64x64_to_128', 'S_add_128_64'], low128('__mul_64x128_low', 'S_mul_64x128_low'))
new('S_mul_64x128_to_128', ['v128', 'S_mul_64x64_to_128', 'S_add_128_64'], low128('__mul_64x128_to_128', 'S_mul_64x128_to_128'))
new('S_mul_64x128_short', ['v128', 'S_mul_64x64_to_128'], '''
Lemma S_mul_64x128_short A B0 B1 : in_u64 A -> in_u64 B0 -> in_u64 B1 ->
  let '(q0, q1) := i___mul_64x128_short A B0 B1 in
  in_u64 q0 /\\ in_u64 q1 /\\ v128 q0 q1 = (A * v128 B0 B1) mod P128.
Proof.
  intros HA H0 H1. unfold i___mul_64x128_short, i___mul_64x64_to_64. cbv beta iota zeta.
  pose proof (S_mul_64x64_to_128 A B0 HA H0) as S0. destruct (i___mul_64x64_to_128 A B0) as [l0 l1].
  destruct S0 as (R3 & R4 & E0). unfold v128, wrap_u64.
  replace (A * (B1 * P64 + B0)) with ((A * B1) * P64 + A * B0) by ring. rewrite <- E0.
  set (p := A * B1). clearbody p. unfold in_u64 in *. repeat split; lia.
Qed.
'''.replace('P64', P64).replace('P128', P128))
new('S_mul_128x64_to_128', ['v128', 'S_mul_64x64_to_128MACH'], '''
Lemma S_mul_128x64_to_128 A B0 B1 : in_u64 A -> in_u64 B0 -> in_u64 B1 ->
  let '(q0, q1) := i___mul_128x64_to_128 A B0 B1 in
  in_u64 q0 /\\ in_u64 q1 /\\ v128 q0 q1 = (A * v128 B0 B1) mod P128.
Proof.
  intros HA H0 H1. unfold i___mul_128x64_to_128. cbv beta iota zeta.
  pose proof (S_mul_64x64_to_128MACH A B0 HA H0) as S0. destruct (i___mul_64x64_to_128MACH A B0) as [l0 l1].
  destruct S0 as (R3 & R4 & E0). unfold v128, wrap_u64.
  replace (A * (B1 * P64 + B0)) with ((A * B1) * P64 + A * B0) by ring. rewrite <- E0.
  set (p := A * B1). clearbody p. unfold in_u64 in *. repeat split; lia.
Qed.
'''.replace('P64', P64).replace('P128', P128))
new('S_mul_128x128_low', ['v128', 'S_mul_64x64_to_128'], '''
Lemma S_mul_128x128_low A0 A1 B0 B1 : in_u64 A0 -> in_u64 A1 -> in_u64 B0 -> in_u64 B1 ->
  let '(q0, q1) := i___mul_128x128_low A0 A1 B0 B1 in
  in_u64 q0 /\\ in_u64 q1 /\\ v128 q0 q1 = (v128 A0 A1 * v128 B0 B1) mod P128.
Proof.
  intros HA0 HA1 H0 H1. unfold i___mul_128x128_low, i_d128_Default_default, i_d128_new. cbv beta iota zeta.
  pose proof (S_mul_64x64_to_128 A0 B0 HA0 H0) as S0. destruct (i___mul_64x64_to_128 A0 B0) as [l0 l1].
  destruct S0 as (R3 & R4 & E0). unfold v128, wrap_u64.
  replace ((A1 * P64 + A0) * (B1 * P64 + B0)) with ((A1 * B1) * P128 + (B0 * A1 + A0 * B1) * P64 + A0 * B0) by ring.
  rewrite <- E0. set (p := B0 * A1). set (q := A0 * B1). set (r := A1 * B1). clearbody p q r.
  unfold in_u64 in *. repeat split; lia.
Qed.
'''.replace('P64', P64).replace('P128', P128))
new('S_mul_64x128_to_256', ['S_mul_64x64_to_128', 'S_add_128_64'], '''
Lemma S_mul_64x128_to_256 A B0 B1 : in_u64 A -> in_u64 B0 -> in_u64 B1 ->
  let '(q0, q1, q2, q3) := i___mul_64x128_to_256 A B0 B1 in
  in_u64 q0 /\\ in_u64 q1 /\\ in_u64 q2 /\\ q3 = 0 /\\
  q2 * P128 + q1 * P64 + q0 = A * (B1 * P64 + B0).
Proof.
  intros HA H0 H1. unfold i___mul_64x128_to_256. cbv beta iota zeta.
  pose proof (S_mul_64x64_to_128 A B1 HA H1) as S1. destruct (i___mul_64x64_to_128 A B1) as [h0 h1].
  pose proof (S_mul_64x64_to_128 A B0 HA H0) as S0. destruct (i___mul_64x64_to_128 A B0) as [l0 l1].
  destruct S1 as (R1 & R2 & E1). destruct S0 as (R3 & R4 & E0).
  assert (Bd : A * B1 <= 18446744073709551615 * 18446744073709551615) by (unfold in_u64 in *; apply Z.mul_le_mono_nonneg; lia).
  assert (Hs : h1 * P64 + h0 + l1 < P128) by (unfold in_u64 in *; lia).
  pose proof (S_add_128_64 h0 h1 l1 R1 R2 R4 Hs) as S2. destruct (i___add_128_64 h0 h1 l1) as [m0 m1].
  destruct S2 as (R5 & R6 & E2). unfold in_u64 in *. repeat split; lia.
Qed.
'''.replace('P64', P64).replace('P128', P128))
new('S_mul_64x192_to_256', ['S_mul_64x64_to_128', 'S_add_carry_out', 'S_add_carry_in_out'], '''
Lemma S_mul_64x192_to_256 A B0 B1 B2 : in_u64 A -> in_u64 B0 -> in_u64 B1 -> in_u64 B2 ->
  let '(p0, p1, p2, p3) := i___mul_64x192_to_256 A B0 B1 B2 in
  in_u64 p0 /\\ in_u64 p1 /\\ in_u64 p2 /\\ in_u64 p3 /\\
  ((p3 * P64 + p2) * P64 + p1) * P64 + p0 = A * ((B2 * P64 + B1) * P64 + B0).
Proof.
  intros HA H0 H1 H2. unfold i___mul_64x192_to_256. cbv beta iota zeta.
  pose proof (S_mul_64x64_to_128 A B0 HA H0) as S0. destruct (i___mul_64x64_to_128 A B0) as [a0 a1].
  pose proof (S_mul_64x64_to_128 A B1 HA H1) as S1. destruct (i___mul_64x64_to_128 A B1) as [b0 b1].
  pose proof (S_mul_64x64_to_128 A B2 HA H2) as S2. destruct (i___mul_64x64_to_128 A B2) as [c0 c1].
  destruct S0 as (R1 & R2 & E0). destruct S1 as (R3 & R4 & E1). destruct S2 as (R5 & R6 & E2).
  pose proof (S_add_carry_out b0 a1 R3 R2) as T1. destruct (i___add_carry_out b0 a1) as [p1 cy1]. destruct T1 as (R7 & R8 & F1).
  pose proof (S_add_carry_in_out c0 b1 cy1 R5 R4 R8) as T2. destruct (i___add_carry_in_out c0 b1 cy1) as [p2 cy2].
  destruct T2 as (R9 & R10 & F2).
  assert (Bd : A * B2 <= 18446744073709551615 * 18446744073709551615) by (unfold in_u64 in *; apply Z.mul_le_mono_nonneg; lia).
  replace (A * ((B2 * P64 + B1) * P64 + B0)) with ((A * B2) * P128 + (A * B1) * P64 + A * B0) by ring.
  rewrite <- E0, <- E1, <- E2 in *. unfold wrap_u64, in_u64 in *. repeat split; lia.
Qed.
'''.replace('P64', P64).replace('P128', P128))
new('S_sqr128_to_256', ['S_mul_64x64_to_128', 'S_add_carry_out', 'S_add_carry_in_out'], '''
Lemma S_sqr128_to_256 x0 x1 x2 x3 A0 A1 : in_u64 A0 -> in_u64 A1 ->
  let '(p0, p1, p2, p3) := i___sqr128_to_256 x0 x1 x2 x3 A0 A1 in
  in_u64 p0 /\\ in_u64 p1 /\\ in_u64 p2 /\\ in_u64 p3 /\\
  ((p3 * P64 + p2) * P64 + p1) * P64 + p0 = (A1 * P64 + A0) * (A1 * P64 + A0).
Proof.
  intros H0 H1. unfold i___sqr128_to_256. cbv beta iota zeta.
  pose proof (S_mul_64x64_to_128 A1 A1 H1 H1) as S0. destruct (i___mul_64x64_to_128 A1 A1) as [h0 h1].
  pose proof (S_mul_64x64_to_128 A0 A1 H0 H1) as S1. destruct (i___mul_64x64_to_128 A0 A1) as [m0 m1].
  pose proof (S_mul_64x64_to_128 A0 A0 H0 H0) as S2. destruct (i___mul_64x64_to_128 A0 A0) as [l0 l1].
  destruct S0 as (R1 & R2 & E0). destruct S1 as (R3 & R4 & E1). destruct S2 as (R5 & R6 & E2).
  rewrite !(shiftr_lit _ 63 9223372036854775808) by (try reflexivity; lia).
  assert (Bd : A1 * A1 <= 18446744073709551615 * 18446744073709551615) by (unfold in_u64 in *; apply Z.mul_le_mono_nonneg; lia).
  assert (Bd1 : A0 * A1 <= 18446744073709551615 * 18446744073709551615) by (unfold in_u64 in *; apply Z.mul_le_mono_nonneg; lia).
  assert (Bd2 : A0 * A0 <= 18446744073709551615 * 18446744073709551615) by (unfold in_u64 in *; apply Z.mul_le_mono_nonneg; lia).
  assert (EL : Z.lor (wrap_u64 (m1 + m1)) (m0 / 9223372036854775808) = wrap_u64 (m1 + m1) + m0 / 9223372036854775808).
  { assert (EW : wrap_u64 (m1 + m1) = 2 * (m1 mod 9223372036854775808)).
    { unfold wrap_u64. replace (m1 + m1) with (2 * m1) by ring. change P64 with (2 * 9223372036854775808).
      apply Z.mul_mod_distr_l; lia. }
    apply (lor_mult_low (m0 / 9223372036854775808) _ 1 2); [lia|reflexivity|unfold in_u64 in *; lia|].
    rewrite EW, Z.mul_comm. apply Z.mod_mul. lia. }
  rewrite EL.
  assert (Q1 : in_u64 (wrap_u64 (m0 + m0))) by apply wrap_u64_range.
  assert (Q2 : in_u64 (wrap_u64 (m1 + m1) + m0 / 9223372036854775808)) by (unfold wrap_u64, in_u64 in *; lia).
  pose proof (S_add_carry_out (wrap_u64 (m0 + m0)) l1 Q1 R6) as T1. destruct (i___add_carry_out (wrap_u64 (m0 + m0)) l1) as [p1 cy1].
  destruct T1 as (R7 & R8 & F1).
  pose proof (S_add_carry_in_out _ h0 cy1 Q2 R1 R8) as T2.
  destruct (i___add_carry_in_out (wrap_u64 (m1 + m1) + m0 / 9223372036854775808) h0 cy1) as [p2 cy2].
  destruct T2 as (R9 & R10 & F2).
  replace ((A1 * P64 + A0) * (A1 * P64 + A0)) with ((A1 * A1) * P128 + 2 * (A0 * A1) * P64 + A0 * A0) by ring.
  rewrite <- E0, <- E1, <- E2 in *. unfold wrap_u64, in_u64 in *. repeat split; lia.
Qed.
'''.replace('P64', P64).replace('P128', P128))

new('S_cmp_gt_128', ['v128'], '''
Lemma S_unsigned_compare_gt_128 A0 A1 B0 B1 : in_u64 A0 -> in_u64 A1 -> in_u64 B0 -> in_u64 B1 ->
  i___unsigned_compare_gt_128 A0 A1 B0 B1 = (v128 A0 A1 >? v128 B0 B1).
Proof. unfold in_u64, v128, i___unsigned_compare_gt_128. intros. lia. Qed.
''')
new('S_cmp_ge_128', ['v128'], '''
Lemma S_unsigned_compare_ge_128 A0 A1 B0 B1 : in_u64 A0 -> in_u64 A1 -> in_u64 B0 -> in_u64 B1 ->
  i___unsigned_compare_ge_128 A0 A1 B0 B1 = (v128 A0 A1 >=? v128 B0 B1).
Proof. unfold in_u64, v128, i___unsigned_compare_ge_128. intros. lia. Qed.
''')
new('S_test_equal_128', ['v128'], '''
Lemma S_test_equal_128 A0 A1 B0 B1 : in_u64 A0 -> in_u64 A1 -> in_u64 B0 -> in_u64 B1 ->
  i___test_equal_128 A0 A1 B0 B1 = (v128 A0 A1 =? v128 B0 B1).
Proof. unfold in_u64, v128, i___test_equal_128. intros. lia. Qed.
''')
DB['lor_low_mult'] = ([], extract('ImplDpd.v', 'lor_low_mult') + extract('ImplDpd.v', 'lor_mult_low'))
DB['S_sqr128_to_256'][0].append('lor_low_mult')
# shift lemmas of ImplPack.v use lor_low_mult / lor_mult_low too
for n in ('S_shr_128', 'S_shl_128_long', 'S_shr_128_long'):
    DB[n][0].append('lor_low_mult')

# helper -> (lemma that is its theorem, one-line description)
HELPERS = [
    ('__add_carry_out', 'S_add_carry_out', 'sum and carry-out: s + c*2^64 = X + Y'),
    ('__add_carry_in_out', 'S_add_carry_in_out', 'sum with carry-in and carry-out: s + c*2^64 = X + Y + CI'),
    ('__sub_borrow_out', 'S_sub_borrow_out', 'difference and borrow-out: d - b*2^64 = X - Y'),
    ('__sub_borrow_in_out', 'S_sub_borrow_in_out', 'difference with borrow-in and borrow-out: d - b*2^64 = X - Y - CI'),
    ('__add_128_64', 'S_add_128_64_mod', '(A + b) mod 2^128'),
    ('__add_128_128', 'S_add_128_128_mod', '(A + B) mod 2^128'),
    ('__sub_128_64', 'S_sub_128_64_mod', '(A - b) mod 2^128'),
    ('__sub_128_128', 'S_sub_128_128_mod', '(A - B) mod 2^128'),
    ('__mul_64x64_to_64', 'S_mul_64x64_to_64', '(X * Y) mod 2^64'),
    ('__mul_64x64_to_128', 'S_mul_64x64_to_128', 'the exact 128-bit product'),
    ('__mul_64x64_to_128_full', 'S_mul_64x64_to_128_full', 'the exact 128-bit product'),
    ('__mul_64x64_to_128MACH', 'S_mul_64x64_to_128MACH', 'the exact 128-bit product'),
    ('__mul_64x64_to_128HIGH', 'S_mul_64x64_to_128HIGH', 'the high word of the exact product'),
    ('__mul_64x64_to_128_fast', 'S_mul_64x64_to_128_fast', 'the exact product when both operands are below 2^63'),
    ('__mul_64x128_full', 'S_mul_64x128_full', 'the exact 192-bit product'),
    ('__mul_64x128_to_192', 'S_mul_64x128_to_192', 'the exact 192-bit product'),
    ('__mul_64x128_to192', 'S_mul_64x128_to192', 'the exact 192-bit product'),
    ('__mul_64x128_to_256', 'S_mul_64x128_to_256', 'the exact product in three words, fourth word 0'),
    ('__mul_64x128_low', 'S_mul_64x128_low', 'the low 128 bits of the product'),
    ('__mul_64x128_to_128', 'S_mul_64x128_to_128', 'the low 128 bits of the product'),
    ('__mul_64x128_short', 'S_mul_64x128_short', 'the low 128 bits of the product'),
    ('__mul_128x64_to_128', 'S_mul_128x64_to_128', 'the low 128 bits of the product'),
    ('__mul_64x192_to_256', 'S_mul_64x192_to_256', 'the exact 256-bit product'),
    ('__mul_128x128_to_256', 'S_mul_128x128_to_256', 'the exact 256-bit product'),
    ('__mul_128x128_low', 'S_mul_128x128_low', 'the low 128 bits of the product'),
    ('__mul_128x128_full', 'S_mul_128x128_full', 'the exact 256-bit product for A1 < 2^53, B1 < 2^62 (the cross terms are added '
     'without a carry word)'),
    ('__mul_128x128_high', 'S_mul_128x128_high', 'the high 128 bits of the product for A1 < 2^49, B1 < 2^55'),
    ('__sqr128_to_256', 'S_sqr128_to_256', 'the exact 256-bit square'),
    ('__shr_128', 'S_shr_128', 'A / 2^k for 0 < k < 64, and the shift amounts are in range'),
    ('__shr_128_long', 'S_shr_128_long', 'A / 2^k for 0 < k < 128'),
    ('__shl_128_long', 'S_shl_128_long', '(A * 2^k) mod 2^128 for 0 < k < 128'),
    ('__unsigned_compare_gt_128', 'S_cmp_gt_128', 'A > B on the 128-bit values'),
    ('__unsigned_compare_ge_128', 'S_cmp_ge_128', 'A >= B on the 128-bit values'),
    ('__test_equal_128', 'S_test_equal_128', 'A = B on the 128-bit values'),
]


def closure(name, seen, order):
    if name in seen:
        return
    seen.add(name)
    for d in DB[name][0]:
        closure(d, seen, order)
    order.append(name)


def lemma_ident(key):
    m = re.search(r'^Lemma (\w+)', DB[key][1], re.M)
    return m.group(1)


def main():
    hdr = open(os.path.join(IMPL, 'ImplProofs.v')).read().split('(* HEADER END *)')[0]
    out = [hdr.replace('(* Layer I:', '(* Layer I, group H (generated by gen_help_proofs.py - edit that script): exactness of the shared '
                       'multi-word helpers.\n   Layer I:', 1) + '(* HEADER END *)\n']
    for h, key, descr in HELPERS:
        seen, order = set(), []
        closure(key, seen, order)
        ident = lemma_ident(key)
        b = ['(* BEGIN %s *)' % h, '(* helper %s is exact: %s *)' % (h, descr)]
        b += [DB[k][1] for k in order]
        b += ['Definition I_%s := %s.' % (h, ident), 'Print Assumptions I_%s.' % h, '(* END %s *)' % h, '']
        out.append('\n'.join(b))
    with open(os.path.join(IMPL, 'ImplHelpProofs.v'), 'w') as f:
        f.write('\n'.join(out))
    print('gen_help_proofs: wrote %d blocks' % len(HELPERS))


if __name__ == '__main__':
    sys.exit(main())
