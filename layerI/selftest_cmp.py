#!/usr/bin/env python3
"""Mutation self-test of layer I group G (the comparison predicates), on bid128_quiet_less of a PRISTINE copy of the sources.

    selftest_cmp.py --pristine DIR_WITH_src [--work DIR] [--par N]

M.. = semantic change: the theorem of bid128_quiet_less must FAIL; H.. = harmless edit: it must still check.
Each mutant is one line replaced (old text must occur in the given line of bid128_compare.rs / bid128.rs of the pristine tree)."""
import concurrent.futures
import os
import shutil
import subprocess
import sys

HERE = os.path.dirname(os.path.abspath(__file__))
F = 'bid128_compare.rs'
MUTANTS = [
    # id, file, line, old, new, expect ok
    ('M01', F, 864, '*pfpsf |= StatusFlags::BID_INVALID_EXCEPTION;', '', False),            # sNaN no longer signals
    ('M02', F, 874, 'res = false;', 'res = true;', False),                                  # bitwise equal -> less
    ('M03', F, 939, 'res = false;', 'res = true;', False),                                  # 0 < 0
    ('M04', F, 944, '!= MASK_SIGN', '== MASK_SIGN', False),                                 # 0 < y iff y negative
    ('M05', F, 955, '!= MASK_SIGN', '== MASK_SIGN', False),                                 # opposite signs inverted
    ('M07', F, 967, 'exp_x >= exp_y', 'exp_x <= exp_y', False),                             # unsound shortcut
    ('M08', F, 981, 'diff > 33', 'diff > 39', False),                                       # diff = 39 -> BID_TEN2K128[19]: out of range (ok_ fails)
    ('H08', F, 981, 'diff > 33', 'diff > 34', True),                                        # equivalent: 10^34 is in the table, x*10^34 > y still decided exactly
    ('M09', F, 986, 'diff > 19', 'diff > 18', False),                                       # (19 - 20) as usize
    ('M10', F, 1051, '== MASK_SIGN);', '!= MASK_SIGN);', False),                            # sign correction inverted (256-bit path)
    ('M11', F, 1057, '&sig_y', '&sig_x', False),                                            # wrong operand scaled
    ('M19', F, 931, 'non_canon_x || ', '', False),                                          # non-canonical x not treated as zero
    ('M20', F, 905, '0x0001ed09bead87c0u64', '0x0001ed09bead87c1u64', False),               # canonical bound off by 2^64
    ('M21', F, 898, '>> 49', '>> 48', False),                                               # exponent field misplaced
    ('M18', 'bid128.rs', 235, '0x00000000000186a0u64', '0x00000000000186a1u64', False),       # BID_TEN2K64[5] wrong
    ('H06', F, 962, 'sig_x.w[0] >= sig_y.w[0]', 'sig_x.w[0] > sig_y.w[0]', True),           # equal coefficients impossible here
    ('H12', F, 1069, 'sig_n_prime192.w[0]  > sig_x.w[0]', 'sig_n_prime192.w[0]  >= sig_x.w[0]', True),   # equality was returned before
    ('H13', F, 873, 'x.w[0] == y.w[0] && x.w[1] == y.w[1]', 'y.w[1] == x.w[1] && y.w[0] == x.w[0]', True),
    ('H14', F, 862, '((x.w[1] & MASK_NAN) == MASK_NAN) || ((y.w[1] & MASK_NAN) == MASK_NAN)',
     '((y.w[1] & MASK_NAN) == MASK_NAN) || ((x.w[1] & MASK_NAN) == MASK_NAN)', True),
    ('H15', F, 1047, 'sig_n_prime256.w[3] != 0', 'sig_n_prime256.w[3] > 0', True),
    ('H16', F, 955, '(y.w[1] & MASK_SIGN) != MASK_SIGN', '(x.w[1] & MASK_SIGN) == MASK_SIGN', True),   # signs differ: y >= 0 iff x < 0
]


def run(m, pristine, work, script):
    mid, fname, line, old, new, expect = m
    d = os.path.join(work, mid)
    shutil.rmtree(d, ignore_errors=True)
    shutil.copytree(pristine, os.path.join(d, 'tree'))
    path = os.path.join(d, 'tree', 'src', fname)
    lines = open(path, encoding='utf-8').read().split('\n')
    if line is None:
        idx = [i for i, l in enumerate(lines) if old in l][0]
    else:
        idx = line - 1
    if old not in lines[idx]:
        return mid, False, 'mutation site not found: %r in %s:%s' % (old, fname, line)
    lines[idx] = lines[idx].replace(old, new, 1)
    open(path, 'w', encoding='utf-8').write('\n'.join(lines))
    p = subprocess.run([sys.executable, script, '--src', os.path.join(d, 'tree', 'src'), '--scratch', os.path.join(d, 'scratch'),
                        '--only', 'bid128_quiet_less', '--jobs', '2'], stdout=subprocess.PIPE, stderr=subprocess.STDOUT, universal_newlines=True)
    ok = p.returncode == 0
    first = [l for l in p.stdout.splitlines() if 'bid128_quiet_less' in l][:1]
    good = ok == expect
    return mid, good, ('as expected: ' if good else 'UNEXPECTED: ') + ('checks' if ok else 'fails') + ' | ' + (first[0][:230] if first else p.stdout[-300:])


def main(argv):
    import argparse
    ap = argparse.ArgumentParser()
    ap.add_argument('--pristine', required=True, help='directory containing src/ (and Cargo.toml)')
    ap.add_argument('--work', default='/tmp/layerI_cmp_selftest')
    ap.add_argument('--par', type=int, default=4)
    ap.add_argument('--only', default='')
    a = ap.parse_args(argv)
    script = os.path.join(HERE, 'layerI_cmp.py')
    sel = [m for m in MUTANTS if not a.only or m[0] in a.only.split(',')]
    bad = 0
    with concurrent.futures.ThreadPoolExecutor(a.par) as ex:
        for mid, good, msg in ex.map(lambda m: run(m, a.pristine, a.work, script), sel):
            print('%-4s %s' % (mid, msg), flush=True)
            bad += 0 if good else 1
    print('self-test: %d/%d as expected' % (len(sel) - bad, len(sel)))
    return 1 if bad else 0


if __name__ == '__main__':
    sys.exit(main(sys.argv[1:]))
