#!/usr/bin/env python3
"""gen_toint_proofs.py -- derives the theorem block of bid128_to_int32_rninta from the block of bid128_to_int32_rnint in
Impl/ImplProofs.v (group J).  The two routines share everything except: the rounding mode of the model (RNE -> RNA), the
magnitude function (rne_q -> rna_q: no tie correction, so the rounding branch has no f* test), strict instead of weak
comparisons with the midpoint, and >= instead of > in the threshold test for negative operands.  Each difference is one
textual substitution below; a substitution whose source text is not found aborts (the template changed).
    python3 gen_toint_proofs.py        (rewrites the block bid128_to_int32_rninta of Impl/ImplProofs.v next to this script)
"""
import os
import re
import sys

HERE = os.path.dirname(os.path.abspath(__file__))
P = os.path.join(HERE, 'Impl', 'ImplProofs.v')


def main():
    text = open(P).read()
    m = re.search(r'\(\* BEGIN bid128_to_int32_rnint \*\)\n(.*?)\(\* END bid128_to_int32_rnint \*\)\n', text, re.S)
    if not m:
        raise SystemExit('gen_toint_proofs: template block bid128_to_int32_rnint not found')
    s = m.group(1)

    def rep(a, b):
        nonlocal s
        if a not in s:
            raise SystemExit('gen_toint_proofs: template text not found: ' + a[:70])
        s = s.replace(a, b)

    rep('to_int32_rnint', 'to_int32_rninta')
    rep('m_to_int 32 true RNE false', 'm_to_int 32 true RNA false')
    rep('round_int RNE', 'round_int RNA')
    rep('rne_choice', 'rna_choice')
    rep('rne_q_bounds', 'rna_q_bounds')
    rep('rnint_mag', 'rninta_mag')
    rep('mag_small C', 'mag_small_a C')
    rep('rne_q C', 'rna_q C')
    rep("        pose proof (proj2 (rne_q_le C (- e) 0 ltac:(lia) ltac:(lia) ltac:(lia))) as RL. cbn [Z.even] in RL.",
        "        pose proof (proj2 (rna_q_le C (- e) 0 ltac:(lia) ltac:(lia))) as RL.")
    rep("      assert (Mh : mag = if C <=? h then 0 else 1).", "      assert (Mh : mag = if C <? h then 0 else 1).")
    rep("        pose proof (rne_q_le C q 0 ltac:(lia) ltac:(lia) ltac:(lia)) as RL0. cbn [Z.even] in RL0.\n"
        "        pose proof (rne_q_le C q 1 ltac:(lia) ltac:(lia) ltac:(lia)) as RL1. cbn [Z.even] in RL1.",
        "        pose proof (rna_q_le C q 0 ltac:(lia) ltac:(lia)) as RL0.\n"
        "        pose proof (rna_q_le C q 1 ltac:(lia) ltac:(lia)) as RL1.")
    rep("        destruct (Z.leb_spec C h); lia. }\n      assert (CODE", "        destruct (Z.ltb_spec C h); lia. }\n      assert (CODE")
    rep("             then (hi =? 0) && (w0 <=? nth (Z.to_nat (wrap_usize (wrap_i32 (q - 1)))) T_BID_MIDPOINT64 0)",
        "             then (hi =? 0) && (w0 <? nth (Z.to_nat (wrap_usize (wrap_i32 (q - 1)))) T_BID_MIDPOINT64 0)")
    rep("                     (w0 <=? nth (Z.to_nat (wrap_usize (wrap_i32 (wrap_i32 (q - 1) - 19)))) T_BID_MIDPOINT128_w0 0)) = (C <=? h)).",
        "                     (w0 <? nth (Z.to_nat (wrap_usize (wrap_i32 (wrap_i32 (q - 1) - 19)))) T_BID_MIDPOINT128_w0 0)) = (C <? h)).")
    rep("unfold in_u64 in MR0. unfold C. rewrite <- MR1. apply le128; assumption. }",
        "unfold in_u64 in MR0. unfold C. rewrite <- MR1. apply lt128; assumption. }")
    rep("      all: assert (V0 : v = if C <=? h then 0 else if 1 <=? sg then -1 else 1) by (unfold v; rewrite Mh; destruct (C <=? h), (1 <=? sg); reflexivity).",
        "      all: assert (V0 : v = if C <? h then 0 else if 1 <=? sg then -1 else 1) by (unfold v; rewrite Mh; destruct (C <? h), (1 <=? sg); reflexivity).")
    rep("      assert (MG : mag = if (rr =? 0) && Z.odd Q then Q - 1 else Q).\n"
        "      { unfold mag. replace (0 <=? e) with false by lia. replace (45 <? k) with false by lia.\n"
        "        unfold rne_q. cbv zeta. fold h. fold C'. fold D. fold Q rr. reflexivity. }",
        "      assert (MG : mag = Q).\n"
        "      { unfold mag. replace (0 <=? e) with false by lia. replace (45 <? k) with false by lia.\n"
        "        unfold rna_q. fold h. fold C'. fold D. fold Q. reflexivity. }")
    a = s.index("      - destruct (proj1 RC ltac:(lia)) as [RQ RTst].\n        change (nth (Z.to_nat (k - 1)) T_BID_MASKHIGH128 0) with (rm k). rewrite RM.")
    b = s.index("    (* non-negative exponent: C * 10^e exactly *)")
    s = s[:a] + """      - destruct (proj1 RC ltac:(lia)) as [RQ _].
        change (nth (Z.to_nat (k - 1)) T_BID_SHIFTRIGHT128 0) with (rs k). set (s := rs k) in *.
        assert (Hs : 0 <= s < 64) by (clear - RS RB K22; destruct (Z.ltb_spec s 64); [lia|]; destruct (Z.leb_spec k 22); [discriminate|lia]).
        assert (HQ64 : (p3 * 18446744073709551616 + p2) / 2 ^ s < 18446744073709551616) by (rewrite RQ; clear - HQ; lia).
        rewrite !(lor_shift_pair p2 p3 s P2 P3 Hs HQ64).
        rewrite RQ. apply FINISH. rewrite MG. reflexivity.
      - destruct (proj2 RC ltac:(lia)) as [RQ _].
        change (nth (Z.to_nat (k - 1)) T_BID_SHIFTRIGHT128 0) with (rs k). set (s := rs k) in *.
        assert (Hs : 64 <= s < 128) by (clear - RS RB K23; destruct (Z.ltb_spec s 64); [|lia]; destruct (Z.leb_spec k 22); [lia|discriminate]).
        assert (Es' : (s - 64) mod 64 = s - 64) by (clear - Hs; dlia).
        rewrite Es'. rewrite !Z.shiftr_div_pow2 by (clear - Hs; lia). rewrite RQ.
        apply FINISH. rewrite MG. reflexivity. }
""" + s[b:]
    rep("                      else wrap_i64 (wrap_i64 w0 * wrap_i64 (10 ^ e)))) = v).",
        "                      else wrap_i64 (wrap_u64 (w0 * 10 ^ e)))) = v).")
    a = s.index("      - replace ((w0 + 9223372036854775808) mod 18446744073709551616 - 9223372036854775808) with w0 by (clear - HC10 H0; dlia).\n"
                "        replace ((p + 9223372036854775808)")
    b = s.index("    rewrite EV. exact VV. }", a)
    s = s[:a] + ("      - unfold wrap_u64. set (m := w0 * p) in *. assert (0 <= m) by (unfold m; nia). clearbody m. "
                 "clear - HI H. dlia. }\n") + s[b:]
    rep("destruct (mag_thresh C q e 2147483648 21474836485 DP Hq H10 ltac:(lia) eq_refl) as [T11 T12]. cbn [Z.even] in T11, T12.",
        "destruct (mag_thresh_a C q e 2147483648 21474836485 DP Hq H10 ltac:(lia) eq_refl) as [T11 T12].")
    rep("destruct (mag_thresh C q e 2147483647 21474836475 DP Hq H10 ltac:(lia) eq_refl) as [T11 T12]. cbn [Z.even] in T11, T12.",
        "destruct (mag_thresh_a C q e 2147483647 21474836475 DP Hq H10 ltac:(lia) eq_refl) as [T11 T12].")
    rep("destruct (C * 10 ^ (11 - q) >? 21474836485) eqn:CND.", "destruct (C * 10 ^ (11 - q) >=? 21474836485) eqn:CND.")
    rep("rewrite (gt128 hi w0 c1 c0 H0 TP0). fold C. rewrite TPE.\n      destruct (C >? 21474836485 * 10 ^ (q - 11)) eqn:CND.",
        "rewrite (ge128 hi w0 c1 c0 H0 TP0). fold C. rewrite TPE.\n      destruct (C >=? 21474836485 * 10 ^ (q - 11)) eqn:CND.")
    s = s.replace("(* bid128_to_int32_rninta against", "(* GENERATED from the block of bid128_to_int32_rnint by gen_toint_proofs.py - edit that script.\n   bid128_to_int32_rninta against", 1)
    s = s.replace("exact product for e >= 0.", "exact product for e >= 0.  (RNA: the rounding branch has no tie correction, the midpoint and the negative threshold\n   comparisons are strict / weak the other way round.)", 1)
    blk = '(* BEGIN bid128_to_int32_rninta *)\n' + s + '(* END bid128_to_int32_rninta *)\n'
    if '(* BEGIN bid128_to_int32_rninta *)' in text:
        text = re.sub(r'\(\* BEGIN bid128_to_int32_rninta \*\)\n.*?\(\* END bid128_to_int32_rninta \*\)\n', lambda _: blk, text, flags=re.S)
    else:
        text = text.rstrip() + '\n\n' + blk
    open(P, 'w').write(text)
    print('gen_toint_proofs: wrote block bid128_to_int32_rninta')


if __name__ == '__main__':
    sys.exit(main())
