# Part 1 of rs2v: tokenizer, item index, recursive-descent parser for the supported Rust subset.
# (concatenated into rs2v.py by build step? no -- imported by rs2v.py; both files stdlib only)
import re


class RsError(Exception):
    pass


def fail(msg, line=None, file=None):
    loc = ''
    if file is not None:
        loc += str(file)
    if line is not None:
        loc += ':' + str(line)
    raise RsError('rs2v: unsupported or malformed input at %s: %s' % (loc or '?', msg))


class Tok:
    __slots__ = ('kind', 'text', 'line', 'value', 'suffix', 'pos', 'end')

    def __init__(self, kind, text, line, value=None, suffix=None, pos=0, end=0):
        self.kind, self.text, self.line, self.value, self.suffix, self.pos, self.end = kind, text, line, value, suffix, pos, end

    def __repr__(self):
        return 'Tok(%s,%r,%d)' % (self.kind, self.text, self.line)


INT_SUFFIXES = ('u8', 'u16', 'u32', 'u64', 'u128', 'usize', 'i8', 'i16', 'i32', 'i64', 'i128', 'isize')
PUNCTS = ['<<=', '>>=', '...', '..=', '&&', '||', '==', '!=', '<=', '>=', '+=', '-=', '*=', '/=', '%=', '|=', '&=', '^=',
          '<<', '>>', '->', '=>', '::', '..',
          '+', '-', '*', '/', '%', '&', '|', '^', '!', '=', '<', '>', '(', ')', '[', ']', '{', '}', ',', ';', ':', '.', '?', '@', '$', '~']
_id_re = re.compile(r'[A-Za-z_][A-Za-z0-9_]*')
_hex_re = re.compile(r'0x[0-9a-fA-F_]+')
_bin_re = re.compile(r'0b[01_]+')
_oct_re = re.compile(r'0o[0-7_]+')
_dec_re = re.compile(r'[0-9][0-9_]*')


def tokenize(src, fname):
    """Lenient tokenizer: lexemes outside the subset (strings, chars, floats, lifetimes) become kind 'other';
    the parser fails loudly if it meets one inside a function it translates."""
    toks = []
    i, n, line = 0, len(src), 1
    while i < n:
        c = src[i]
        if c == '\n':
            line += 1; i += 1; continue
        if c in ' \t\r':
            i += 1; continue
        if src.startswith('//', i):
            j = src.find('\n', i)
            i = n if j < 0 else j
            continue
        if src.startswith('/*', i):
            depth, j = 1, i + 2
            while j < n and depth > 0:
                if src.startswith('/*', j):
                    depth += 1; j += 2
                elif src.startswith('*/', j):
                    depth -= 1; j += 2
                else:
                    if src[j] == '\n':
                        line += 1
                    j += 1
            if depth != 0:
                fail('unterminated block comment', line, fname)
            i = j
            continue
        if c == '#' and (src.startswith('#[', i) or src.startswith('#![', i)):
            # attribute: balanced brackets, strings inside
            j = src.index('[', i)
            depth, k, l0 = 0, j, line
            while k < n:
                ch = src[k]
                if ch == '"':
                    k += 1
                    while k < n and src[k] != '"':
                        if src[k] == '\\':
                            k += 1
                        k += 1
                elif ch == '[':
                    depth += 1
                elif ch == ']':
                    depth -= 1
                    if depth == 0:
                        break
                elif ch == '\n':
                    line += 1
                k += 1
            if depth != 0:
                fail('unterminated attribute', l0, fname)
            toks.append(Tok('attr', re.sub(r'\s+', '', src[i:k + 1]), l0, pos=i, end=k + 1))
            i = k + 1
            continue
        if c == '"' or (c == 'r' and re.match(r'r#*"', src[i:i + 8])) or (c == 'b' and src.startswith('b"', i)):
            l0 = line
            if c == 'r':
                m = re.match(r'r(#*)"', src[i:])
                close = '"' + m.group(1)
                j = src.find(close, i + len(m.group(0)))
                if j < 0:
                    fail('unterminated raw string', l0, fname)
                line += src.count('\n', i, j)
                j += len(close)
            else:
                j = i + (2 if c == 'b' else 1)
                while j < n and src[j] != '"':
                    if src[j] == '\\':
                        j += 1
                    if j < n and src[j] == '\n':
                        line += 1
                    j += 1
                j += 1
            toks.append(Tok('other', src[i:j], l0, pos=i, end=j))
            i = j
            continue
        if c == "'":
            m = re.match(r"'(\\.[^']*|[^'\\])'", src[i:])
            if m:
                toks.append(Tok('other', m.group(0), line, pos=i, end=i + len(m.group(0))))
                i += len(m.group(0))
            else:
                m = re.match(r"'[A-Za-z_][A-Za-z0-9_]*", src[i:])
                if not m:
                    fail("stray ' character", line, fname)
                toks.append(Tok('other', m.group(0), line, pos=i, end=i + len(m.group(0))))
                i += len(m.group(0))
            continue
        if c.isdigit():
            m = _hex_re.match(src, i) or _bin_re.match(src, i) or _oct_re.match(src, i) or _dec_re.match(src, i)
            text = m.group(0)
            j = m.end()
            isfloat = False
            if not text.startswith('0x') and not text.startswith('0b') and not text.startswith('0o'):
                # float forms: 1.5  1e10  1.0f64  (but not 1..2 and not 1.method)
                if j < n and src[j] == '.' and j + 1 < n and src[j + 1].isdigit():
                    isfloat = True
                elif j < n and src[j] in 'eE' and j + 1 < n and (src[j + 1].isdigit() or src[j + 1] in '+-'):
                    isfloat = True
            if isfloat:
                m2 = re.match(r'[0-9_]+(\.[0-9_]+)?([eE][+-]?[0-9_]+)?(f32|f64)?', src[i:])
                toks.append(Tok('other', m2.group(0), line, pos=i, end=i + len(m2.group(0))))
                i += len(m2.group(0))
                continue
            suffix = None
            ms = _id_re.match(src, j)
            if ms:
                if ms.group(0) in INT_SUFFIXES:
                    suffix = ms.group(0)
                    j = ms.end()
                else:
                    toks.append(Tok('other', src[i:ms.end()], line, pos=i, end=ms.end()))
                    i = ms.end()
                    continue
            digits = text.replace('_', '')
            if digits.startswith('0x'):
                val = int(digits[2:], 16)
            elif digits.startswith('0b'):
                val = int(digits[2:], 2)
            elif digits.startswith('0o'):
                val = int(digits[2:], 8)
            else:
                val = int(digits, 10)
            t = Tok('int', src[i:j], line, value=val, suffix=suffix, pos=i, end=j)
            toks.append(t)
            i = j
            continue
        m = _id_re.match(src, i)
        if m:
            toks.append(Tok('id', m.group(0), line, pos=i, end=m.end()))
            i = m.end()
            continue
        for p in PUNCTS:
            if src.startswith(p, i):
                toks.append(Tok('punct', p, line, pos=i, end=i + len(p)))
                i += len(p)
                break
        else:
            fail('unexpected character %r' % c, line, fname)
    toks.append(Tok('eof', '', line, pos=n, end=n))
    return toks


# ---------------------------------------------------------------------------------------------------------
# attributes
BIG = '#[cfg(target_endian="big")]'
LITTLE = '#[cfg(target_endian="little")]'
IGNORED_ATTR_PREFIXES = ('#[inline', '#[must_use', '#[allow(', '#[derive(', '#[repr(', '#[doc', '#[rustfmt::skip]')


def attrs_verdict(attrs, fname):
    """'skip' if the item is compiled only on big-endian targets, 'keep' otherwise; fails on any other cfg."""
    verdict = 'keep'
    for a in attrs:
        if a.text == BIG:
            verdict = 'skip'
        elif a.text == LITTLE:
            pass
        elif a.text.startswith(IGNORED_ATTR_PREFIXES):
            pass
        else:
            m = re.fullmatch(r'#\[cfg\((not\()?feature\s*=\s*"([A-Za-z0-9_\-]+)"\)?\)\]', a.text.replace(' ', ''))
            if m is None:
                fail('attribute %s is outside the subset' % a.text, a.line, fname)
            # cargo feature: the translation models the build whose enabled features are listed in ENABLED_FEATURES
            # (default: none = the default build; the crate's Cargo.toml declares no `default` feature set)
            on = m.group(2) in ENABLED_FEATURES
            if on == bool(m.group(1)):
                verdict = 'skip'
    return verdict


ENABLED_FEATURES = set()


# ---------------------------------------------------------------------------------------------------------
# item index of one file
class Item:
    def __init__(self, kind, name, start, end, attrs, fname, line):
        self.kind, self.name, self.start, self.end, self.attrs, self.fname, self.line = kind, name, start, end, attrs, fname, line
        # start/end: token indices [start, end) of the item beginning at its keyword


class SourceFile:
    def __init__(self, path):
        self.path = path
        with open(path, encoding='utf-8') as f:
            self.src = f.read()
        self.toks = tokenize(self.src, path)
        self.items = {}        # name (or Type::name) -> [Item]
        self.inner_attrs = [t.text for t in self.toks if t.kind == 'attr' and t.text.startswith('#![')]
        self._index(0, len(self.toks) - 1, '')

    def _match(self, i):
        """index of the token closing the bracket opened at token i"""
        pairs = {'(': ')', '[': ']', '{': '}'}
        depth = 0
        j = i
        while True:
            t = self.toks[j]
            if t.kind == 'eof':
                fail('unbalanced bracket', self.toks[i].line, self.path)
            if t.kind == 'punct' and t.text in pairs:
                depth += 1
            elif t.kind == 'punct' and t.text in (')', ']', '}'):
                depth -= 1
                if depth == 0:
                    return j
            j += 1

    def _item_end(self, i):
        """token index just after the item whose keyword is at i: ends at ';' or at the '}' of its first brace block"""
        j = i
        while True:
            t = self.toks[j]
            if t.kind == 'eof':
                return j
            if t.kind == 'punct' and t.text in ('(', '['):
                j = self._match(j) + 1
                continue
            if t.kind == 'punct' and t.text == '{':
                return self._match(j) + 1
            if t.kind == 'punct' and t.text == ';':
                return j + 1
            j += 1

    def _index(self, lo, hi, prefix):
        i = lo
        attrs = []
        while i < hi:
            t = self.toks[i]
            if t.kind == 'attr':
                if not t.text.startswith('#!['):
                    attrs.append(t)
                i += 1
                continue
            if t.kind == 'id' and t.text in ('pub',):
                i += 1
                if self.toks[i].kind == 'punct' and self.toks[i].text == '(':
                    i = self._match(i) + 1
                continue
            if t.kind == 'id' and t.text in ('unsafe', 'extern', 'async', 'default') and self.toks[i + 1].kind == 'id':
                i += 1
                continue
            if t.kind == 'id' and t.text in ('fn', 'const', 'static', 'type', 'struct', 'union', 'enum'):
                nm = self.toks[i + 1]
                if t.text == 'const' and nm.kind == 'id' and nm.text == 'fn':
                    i += 1
                    continue
                end = self._item_end(i)
                if nm.kind == 'id':
                    self.items.setdefault(prefix + nm.text, []).append(Item(t.text, prefix + nm.text, i, end, attrs, self.path, t.line))
                attrs = []
                i = end
                continue
            if t.kind == 'id' and t.text == 'impl':
                # impl [<..>] Type { ... }   /  impl Trait for Type { ... }: index only inherent impls `impl Name {`
                j = i + 1
                names = []
                gdepth = 0
                while not (self.toks[j].kind == 'punct' and self.toks[j].text in ('{', ';') and gdepth == 0) and self.toks[j].kind != 'eof':
                    tk = self.toks[j]
                    if tk.kind == 'punct' and tk.text == '<':
                        gdepth += 1
                    elif tk.kind == 'punct' and tk.text == '>':
                        gdepth -= 1
                    elif tk.kind == 'punct' and tk.text == '>>':
                        gdepth -= 2
                    elif gdepth == 0:
                        names.append(tk)          # generic arguments (impl From<u32> for T) are dropped from the key
                    j += 1
                if self.toks[j].kind == 'punct' and self.toks[j].text == '{':
                    close = self._match(j)
                    if len(names) == 1 and names[0].kind == 'id':
                        self._index(j + 1, close, names[0].text + '::')
                    elif len(names) == 3 and all(x.kind == 'id' for x in names) and names[1].text == 'for':
                        # impl Trait for Type { ... }  ->  Type::Trait::item
                        self._index(j + 1, close, names[2].text + '::' + names[0].text + '::')
                    i = close + 1
                else:
                    i = j + 1
                attrs = []
                continue
            if t.kind == 'id' and t.text in ('use', 'mod', 'macro_rules', 'trait'):
                i = self._item_end(i)
                attrs = []
                continue
            # anything else at item level: skip token (macros invocations etc.)
            if t.kind == 'punct' and t.text in ('(', '[', '{'):
                i = self._match(i) + 1
            else:
                i += 1
            attrs = []

    def active(self, name):
        """the items called `name` that are compiled on a little-endian target"""
        res = []
        for it in self.items.get(name, []):
            if attrs_verdict(it.attrs, self.path) == 'keep':
                res.append(it)
        return res

    def text_of(self, item):
        return self.src[self.toks[item.start].pos:self.toks[item.end - 1].end]

    def lines_of(self, item):
        return self.toks[item.start].line, self.toks[item.end - 1].line


# ---------------------------------------------------------------------------------------------------------
# parser
ASSIGN_OPS = ('=', '+=', '-=', '*=', '|=', '&=', '^=', '<<=', '>>=')
BINPREC = [
    ('||',), ('&&',), ('==', '!=', '<', '>', '<=', '>='), ('|',), ('^',), ('&',), ('<<', '>>'), ('+', '-'), ('*', '/', '%'),
]


class Parser:
    def __init__(self, sf, lo, hi):
        self.sf, self.toks, self.i, self.hi = sf, sf.toks, lo, hi

    # -- helpers
    def peek(self, k=0):
        return self.toks[self.i + k]

    def at(self, text, k=0):
        t = self.toks[self.i + k]
        return t.kind in ('punct', 'id') and t.text == text

    def fail(self, msg, tok=None):
        tok = tok or self.peek()
        fail('%s (at token %r)' % (msg, tok.text), tok.line, self.sf.path)

    def expect(self, text):
        if not self.at(text):
            self.fail('expected %r' % text)
        self.i += 1
        return self.toks[self.i - 1]

    def ident(self):
        t = self.peek()
        if t.kind != 'id':
            self.fail('expected an identifier')
        self.i += 1
        return t

    # -- types
    def parse_type(self):
        t = self.peek()
        if self.at('&'):
            self.i += 1
            mut = False
            if self.at('mut'):
                self.i += 1
                mut = True
            inner = self.parse_type()
            return ('ref', mut, inner)
        if self.at('&&'):
            self.fail('double reference type')
        if self.at('('):
            self.i += 1
            elems = []
            while not self.at(')'):
                elems.append(self.parse_type())
                if self.at(','):
                    self.i += 1
            self.expect(')')
            return ('tuple', elems)
        if self.at('['):
            self.i += 1
            el = self.parse_type()
            self.expect(';')
            n = self.parse_expr()
            self.expect(']')
            return ('array', el, n)
        if t.kind == 'id':
            segs = [self.ident().text]
            while self.at('::'):
                self.i += 1
                segs.append(self.ident().text)
            if self.at('<'):
                self.fail('generic type arguments')
            return ('name', segs[-1], segs)
        self.fail('type expression outside the subset')

    # -- expressions
    def parse_expr(self, nostruct=False):
        return self.parse_bin(0, nostruct)

    def parse_bin(self, level, nostruct):
        if level == len(BINPREC):
            return self.parse_cast(nostruct)
        lhs = self.parse_bin(level + 1, nostruct)
        while True:
            t = self.peek()
            if t.kind == 'punct' and t.text in BINPREC[level]:
                # do not take '|' '&' etc. that are really compound assignment (tokenizer already split those)
                self.i += 1
                rhs = self.parse_bin(level + 1, nostruct)
                if level == 2 and lhs[0] == 'bin' and lhs[1] in BINPREC[2]:
                    self.fail('chained comparison operators', t)
                lhs = ('bin', t.text, lhs, rhs, t.line)
            else:
                return lhs

    def parse_cast(self, nostruct):
        e = self.parse_unary(nostruct)
        while self.at('as'):
            t = self.peek()
            self.i += 1
            ty = self.parse_type()
            e = ('cast', e, ty, t.line)
        return e

    def parse_unary(self, nostruct):
        t = self.peek()
        if t.kind == 'punct' and t.text in ('!', '-', '*'):
            self.i += 1
            e = self.parse_unary(nostruct)
            return ('un', t.text, e, t.line)
        if t.kind == 'punct' and t.text == '&':
            self.i += 1
            if self.at('mut'):
                self.i += 1
                e = self.parse_unary(nostruct)
                return ('un', '&mut', e, t.line)
            e = self.parse_unary(nostruct)
            return ('un', '&', e, t.line)
        if t.kind == 'punct' and t.text == '&&':
            self.fail('&& as a double borrow')
        return self.parse_postfix(nostruct)

    def parse_postfix(self, nostruct):
        e = self.parse_primary(nostruct)
        while True:
            t = self.peek()
            if self.at('.'):
                self.i += 1
                f = self.peek()
                if f.kind == 'id':
                    self.i += 1
                    if self.at('('):
                        if f.text == 'contains' and e[0] == 'range':
                            self.i += 1
                            arg = self.parse_expr()
                            self.expect(')')
                            e = ('range_contains', e, arg, t.line)
                            continue
                        self.fail('method call .%s()' % f.text, f)
                    e = ('field', e, f.text, t.line)
                elif f.kind == 'int' and f.suffix is None:
                    self.i += 1
                    e = ('field', e, str(f.value), t.line)
                else:
                    self.fail('field access')
            elif self.at('['):
                self.i += 1
                idx = self.parse_expr()
                self.expect(']')
                e = ('index', e, idx, t.line)
            elif self.at('('):
                self.i += 1
                args = []
                while not self.at(')'):
                    args.append(self.parse_expr())
                    if self.at(','):
                        self.i += 1
                    elif not self.at(')'):
                        self.fail('expected , or ) in call')
                self.expect(')')
                e = ('call', e, args, t.line)
            elif self.at('?'):
                self.fail('? operator')
            else:
                return e

    def parse_primary(self, nostruct):
        t = self.peek()
        if t.kind == 'int':
            self.i += 1
            return ('lit', t.value, t.suffix, t.line, t.text)
        if t.kind == 'other':
            self.fail('literal outside the subset (string, char, float or lifetime)')
        if t.kind == 'punct' and t.text == '(':
            self.i += 1
            if self.at(')'):
                self.i += 1
                return ('tuple', [], t.line)
            e = self.parse_expr()
            if self.at('..=') or self.at('..'):
                incl = self.at('..=')
                self.i += 1
                hi = self.parse_expr()
                self.expect(')')
                return ('range', e, hi, incl, t.line)
            if self.at(','):
                elems = [e]
                while self.at(','):
                    self.i += 1
                    if self.at(')'):
                        break
                    elems.append(self.parse_expr())
                self.expect(')')
                return ('tuple', elems, t.line)
            self.expect(')')
            return ('paren', e, t.line)
        if t.kind == 'punct' and t.text == '[':
            self.i += 1
            elems = []
            while not self.at(']'):
                elems.append(self.parse_expr())
                if self.at(','):
                    self.i += 1
                elif self.at(';'):
                    self.fail('array repeat expression')
                elif not self.at(']'):
                    self.fail('expected , or ] in array')
            self.expect(']')
            return ('array', elems, t.line)
        if t.kind == 'punct' and t.text == '{':
            return self.parse_block()
        if t.kind == 'id':
            if t.text == 'if':
                return self.parse_if()
            if t.text == 'unsafe' and self.at('{', 1):
                self.i += 1
                return self.parse_block()
            if t.text == 'true' or t.text == 'false':
                self.i += 1
                return ('bool', t.text == 'true', t.line)
            if t.text == 'match':
                return self.parse_match()
            if t.text in ('loop', 'while', 'for', 'break', 'continue', 'move', 'async', 'await', 'dyn', 'impl', 'fn', 'let'):
                self.fail('`%s` expression' % t.text)
            if t.text == 'return':
                self.fail('`return` in expression position')
            segs = [self.ident().text]
            while self.at('::'):
                self.i += 1
                if self.at('<'):
                    self.fail('turbofish')
                segs.append(self.ident().text)
            if self.at('!'):
                # macro invocation, but `a != b` is tokenized as '!=' so a bare '!' after a path is a macro
                if segs in (['panic'], ['unreachable'], ['unimplemented']) and self.at('(', 1):
                    self.i += 1
                    self.i = self.sf._match(self.i) + 1
                    return ('panic', segs[0], t.line)
                self.fail('macro invocation %s!' % '::'.join(segs), t)
            if self.at('{') and not nostruct and self._looks_like_struct_lit():
                self.i += 1
                fields = []
                while not self.at('}'):
                    fn = self.ident()
                    self.expect(':')
                    fields.append((fn.text, self.parse_expr()))
                    if self.at(','):
                        self.i += 1
                    elif self.at('..'):
                        self.fail('struct update syntax')
                    elif not self.at('}'):
                        self.fail('expected , or } in struct literal')
                self.expect('}')
                return ('struct', segs, fields, t.line)
            return ('path', segs, t.line)
        self.fail('expression outside the subset')

    def _looks_like_struct_lit(self):
        # `Name { ident : ...` or `Name { }`
        return (self.peek(1).kind == 'id' and self.at(':', 2)) or self.at('}', 1)

    def parse_match(self):
        """match <scrutinee> { <pat> [if <guard>] => <expr> , ... }  with <pat> one of: integer literal (optionally negative),
        path (constant / enum variant), `_`, a plain identifier (binding). Translated as a chain of ifs."""
        t = self.expect('match')
        scrut = self.parse_expr(nostruct=True)
        self.expect('{')
        arms = []
        while not self.at('}'):
            pt = self.peek()
            if pt.kind == 'int' or (self.at('-') and self.peek(1).kind == 'int'):
                neg = False
                if self.at('-'):
                    self.i += 1
                    neg = True
                lt = self.peek()
                self.i += 1
                lit = ('lit', lt.value, lt.suffix, lt.line, lt.text)
                pat = ('plit', ('un', '-', lit, lt.line) if neg else lit)
            elif pt.kind == 'id':
                segs = [self.ident().text]
                while self.at('::'):
                    self.i += 1
                    segs.append(self.ident().text)
                if self.at('(') or self.at('{'):
                    self.fail('match pattern with sub-patterns')
                if segs == ['_']:
                    pat = ('pwild',)
                elif len(segs) == 1:
                    pat = ('pname', segs[0], pt.line)      # constant or binding: decided by name resolution
                else:
                    pat = ('ppath', segs, pt.line)
            else:
                self.fail('match pattern outside the subset (literal, path, `_` or identifier expected)')
            if self.at('|'):
                pats = [pat]
                while self.at('|'):
                    self.i += 1
                    pt2 = self.peek()
                    if pt2.kind == 'int' or (self.at('-') and self.peek(1).kind == 'int'):
                        neg = False
                        if self.at('-'):
                            self.i += 1
                            neg = True
                        lt = self.peek()
                        self.i += 1
                        lit = ('lit', lt.value, lt.suffix, lt.line, lt.text)
                        pats.append(('plit', ('un', '-', lit, lt.line) if neg else lit))
                    elif pt2.kind == 'id':
                        segs2 = [self.ident().text]
                        while self.at('::'):
                            self.i += 1
                            segs2.append(self.ident().text)
                        if len(segs2) == 1:
                            self.fail('identifier pattern inside an or-pattern')
                        pats.append(('ppath', segs2, pt2.line))
                    else:
                        self.fail('or-pattern alternative outside the subset')
                if any(q[0] not in ('plit', 'ppath') for q in pats):
                    self.fail('or-pattern with a binding or wildcard alternative')
                pat = ('por', pats)
            if self.at('..') or self.at('..=') or self.at('@'):
                self.fail('range-/@-pattern in match')
            guard = None
            if self.at('if'):
                self.i += 1
                guard = self.parse_expr(nostruct=True)
            self.expect('=>')
            body = self.parse_expr()
            arms.append((pat, guard, body, pt.line))
            if self.at(','):
                self.i += 1
            elif not self.at('}'):
                if body[0] not in ('block', 'if'):
                    self.fail('expected , or } after match arm')
        self.expect('}')
        return ('match', scrut, arms, t.line)

    def parse_if(self):
        t = self.expect('if')
        if self.at('let'):
            self.fail('`if let`')
        cond = self.parse_expr(nostruct=True)
        then = self.parse_block()
        els = None
        if self.at('else'):
            self.i += 1
            if self.at('if'):
                e2 = self.parse_if()
                els = ('block', [], e2, e2[-1])
            else:
                els = self.parse_block()
        return ('if', cond, then, els, t.line)

    # -- statements / blocks
    def parse_block(self):
        t = self.expect('{')
        stmts = []
        tail = None
        while not self.at('}'):
            attrs = []
            while self.peek().kind == 'attr':
                attrs.append(self.peek())
                self.i += 1
            skip = attrs_verdict(attrs, self.sf.path) == 'skip'
            st = self.parse_stmt()
            if skip:
                continue
            if st[0] == 'tail':
                if not self.at('}'):
                    self.fail('expected ; or }')
                tail = st[1]
            else:
                stmts.append(st)
        self.expect('}')
        return ('block', stmts, tail, t.line)

    def parse_pattern(self):
        t = self.peek()
        if self.at('('):
            self.i += 1
            elems = []
            while not self.at(')'):
                elems.append(self.parse_pattern())
                if self.at(','):
                    self.i += 1
            self.expect(')')
            return ('ptuple', elems, t.line)
        mut = False
        if self.at('mut'):
            self.i += 1
            mut = True
        if self.at('ref') or self.at('&'):
            self.fail('reference pattern')
        nm = self.ident()
        if nm.text == '_':
            self.fail('wildcard pattern')
        return ('pvar', nm.text, mut, nm.line)

    def parse_stmt(self):
        t = self.peek()
        if self.at(';'):
            self.i += 1
            return ('empty', t.line)
        if self.at('let'):
            self.i += 1
            pat = self.parse_pattern()
            ty = None
            if self.at(':'):
                self.i += 1
                ty = self.parse_type()
            init = None
            if self.at('='):
                self.i += 1
                init = self.parse_expr()
            if self.at('else'):
                self.fail('let-else')
            self.expect(';')
            return ('let', pat, ty, init, t.line)
        if self.at('return'):
            self.i += 1
            e = None
            if not self.at(';') and not self.at('}'):
                e = self.parse_expr()
            if self.at(';'):
                self.i += 1
            elif not self.at('}'):
                self.fail('expected ; after return')
            return ('return', e, t.line)
        if t.kind == 'id' and t.text in ('fn', 'const', 'static', 'struct', 'enum', 'use', 'type', 'impl', 'trait', 'mod'):
            self.fail('nested item `%s`' % t.text)
        label = None
        if t.kind == 'other' and re.match(r"^'[A-Za-z_]\w*$", t.text) and self.at(':', 1) and (self.at('loop', 2) or self.at('while', 2)):
            # a labelled loop: the label is accepted when every labelled break / continue inside names this (innermost) loop
            label = t.text
            self.i += 2
            t = self.peek()
        self.loop_labels = getattr(self, 'loop_labels', [])
        if self.at('loop'):
            self.i += 1
            self.loop_labels.append(label)
            body = self.parse_block()
            self.loop_labels.pop()
            if self.at(';'):
                self.i += 1
            return ('loop', body, t.line)
        if self.at('while'):
            self.i += 1
            if self.at('let'):
                self.fail('`while let`')
            cond = self.parse_expr(nostruct=True)
            self.loop_labels.append(label)
            body = self.parse_block()
            self.loop_labels.pop()
            if self.at(';'):
                self.i += 1
            return ('while', cond, body, t.line)
        if self.at('break') or self.at('continue'):
            kw = self.peek().text
            self.i += 1
            if self.peek().kind == 'other':
                lab = self.peek().text
                if not (self.loop_labels and self.loop_labels[-1] == lab):
                    self.fail('labelled %s that does not name the innermost enclosing loop' % kw)
                self.i += 1
            if not (self.at(';') or self.at('}')):
                self.fail('`%s` with a value' % kw)
            if self.at(';'):
                self.i += 1
            return (kw, t.line)
        blocklike = self.at('if') or self.at('{') or (self.at('unsafe') and self.at('{', 1)) or self.at('match')
        if blocklike:
            e = self.parse_if() if self.at('if') else self.parse_primary(False)
            if self.at(';'):
                self.i += 1
                return ('expr', e, t.line)
            if self.at('}'):
                return ('tail', e)
            # statement-position block-like expression ends the statement (Rust rule)
            nt = self.peek()
            if nt.kind == 'punct' and nt.text in ('.', '?') :
                self.fail('postfix operator after a block-like statement')
            return ('expr', e, t.line)
        e = self.parse_expr()
        nt = self.peek()
        if nt.kind == 'punct' and nt.text in ASSIGN_OPS:
            self.i += 1
            rhs = self.parse_expr()
            if not self.at('}'):                 # `x = e` as the last expression of a block (type unit) needs no `;`
                self.expect(';')
            return ('assign', e, nt.text, rhs, nt.line)
        if nt.kind == 'punct' and nt.text in ('/=', '%='):
            self.fail('compound assignment %s' % nt.text)
        if self.at(';'):
            self.i += 1
            return ('expr', e, t.line)
        if self.at('}'):
            return ('tail', e)
        self.fail('expected ; or } after expression')

    # -- items
    def parse_fn(self, sig_only=False):
        t = self.expect('fn')
        name = self.ident().text
        generics = []
        if self.at('<'):
            # type parameters `<T: Copy, U>`: names only (bounds are skipped; lifetimes / const generics refused). A generic
            # function is translated once per instantiation, the type arguments being inferred at the call (rs2v_tr)
            self.i += 1
            while not self.at('>'):
                g = self.peek()
                if g.kind != 'id' or g.text == 'const':
                    self.fail('generic parameter that is not a plain type name')
                generics.append(self.ident().text)
                if self.at(':'):
                    self.i += 1
                    while not (self.at(',') or self.at('>')):
                        b = self.peek()
                        if b.kind == 'eof' or (b.kind == 'punct' and b.text in ('(', '{', '<')):
                            self.fail('bound of a generic parameter outside `Name + Name`')
                        self.i += 1
                if self.at(','):
                    self.i += 1
            self.expect('>')
        self.expect('(')
        params = []
        while not self.at(')'):
            if self.at('&') or self.at('self') or self.at('mut') and self.at('self', 1):
                if self.at('self') or self.at('self', 1) or self.at('self', 2):
                    self.fail('method receiver (self)')
            mut = False
            if self.at('mut'):
                self.i += 1
                mut = True
            pn = self.ident()
            self.expect(':')
            ty = self.parse_type()
            params.append((pn.text, mut, ty, pn.line))
            if self.at(','):
                self.i += 1
        self.expect(')')
        ret = None
        if self.at('->'):
            self.i += 1
            ret = self.parse_type()
        if self.at('where'):
            self.fail('where clause')
        if sig_only:
            return ('fn', name, params, ret, None, t.line) + ((generics,) if generics else ())
        body = self.parse_block()
        return ('fn', name, params, ret, body, t.line) + ((generics,) if generics else ())

    def parse_const(self):
        t = self.peek()
        if not (self.at('const') or self.at('static')):
            self.fail('expected const')
        self.i += 1
        name = self.ident().text
        self.expect(':')
        ty = self.parse_type()
        self.expect('=')
        e = self.parse_expr()
        self.expect(';')
        return ('const', name, ty, e, t.line)

    def parse_type_alias(self):
        self.expect('type')
        name = self.ident().text
        self.expect('=')
        ty = self.parse_type()
        self.expect(';')
        return ('alias', name, ty)

    def parse_struct(self):
        t = self.peek()
        kind = self.ident().text     # struct / union
        name = self.ident().text
        if self.at('<'):
            self.fail('generic struct')
        if not self.at('{'):
            self.fail('tuple/unit struct')
        self.expect('{')
        fields = []
        while not self.at('}'):
            while self.peek().kind == 'attr':
                self.i += 1
            if self.at('pub'):
                self.i += 1
                if self.at('('):
                    self.i = self.sf._match(self.i) + 1
            fn = self.ident().text
            self.expect(':')
            fields.append((fn, self.parse_type()))
            if self.at(','):
                self.i += 1
        self.expect('}')
        return (kind, name, fields, t.line)

    def parse_enum(self):
        t = self.expect('enum')
        name = self.ident().text
        self.expect('{')
        variants = []
        nextv = 0
        while not self.at('}'):
            while self.peek().kind == 'attr':
                self.i += 1
            v = self.ident().text
            if self.at('(') or self.at('{'):
                self.fail('enum variant with data')
            if self.at('='):
                self.i += 1
                lit = self.peek()
                if lit.kind != 'int':
                    self.fail('enum discriminant that is not an integer literal')
                self.i += 1
                nextv = lit.value
            variants.append((v, nextv))
            nextv += 1
            if self.at(','):
                self.i += 1
        self.expect('}')
        return ('enum', name, variants, t.line)
