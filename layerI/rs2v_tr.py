# Part 2 of rs2v: types, constants, tables, and the statement/expression translator (Rust subset -> Gallina over Z).
import re
import hashlib
from rs2v_parse import RsError, fail, SourceFile, Parser

INT_TYPES = {'u8': (False, 8), 'u16': (False, 16), 'u32': (False, 32), 'u64': (False, 64), 'usize': (False, 64), 'u128': (False, 128),
             'i8': (True, 8), 'i16': (True, 16), 'i32': (True, 32), 'i64': (True, 64), 'isize': (True, 64), 'i128': (True, 128)}
COQ_RESERVED = set('''as at cofix else end exists exists2 fix for forall fun if IF in let match mod return then using where with
 Prop Set Type Definition Lemma Theorem Proof Qed nth true false negb andb orb xorb implb fst snd tt unit bool Z nat list
 S O I xH xO xI Z0 Zpos Zneg nil cons pair Some None Lt Gt Eq inl inr left right conj eq_refl
 wrap_u8 wrap_u16 wrap_u32 wrap_u64 wrap_usize wrap_i8 wrap_i16 wrap_i32 wrap_i64 wrap_isize f64_bits_of_u64'''.split())


GEN_PREFIXES = ('k_', 'ok_', 'okm_', 'i_', 'a_', 'T_', 'wrap_', 'not_', 'scrut_', 'loop_', 'okloop_', 'callres_', 'v_')


def is_int(ty):
    return isinstance(ty, str) and ty in INT_TYPES


def trange(ty):
    signed, w = INT_TYPES[ty]
    return (-(1 << (w - 1)), (1 << (w - 1)) - 1) if signed else (0, (1 << w) - 1)


def tyname(ty):
    if isinstance(ty, str):
        return ty
    if ty[0] in ('struct', 'enum', 'union64'):
        return ty[1]
    if ty[0] == 'tuple':
        return '(' + ', '.join(tyname(t) for t in ty[1]) + ')'
    if ty[0] == 'array':
        return '[%s; %d]' % (tyname(ty[1]), ty[2])
    return str(ty)


def zlit(v, hexa=False):
    """Gallina literal of a Python int; hexadecimal if the source literal was (Coq reads 0x.. in Z scope)"""
    if v < 0:
        return '(%d)' % v
    if hexa:
        return hex(v)
    return str(v)


class Val:
    def __init__(self, ty, leaves, checks=None, lit=None, call=None, hexa=False):
        self.ty, self.leaves, self.checks, self.lit, self.call, self.hexa = ty, leaves, list(checks or []), lit, call, hexa
        # ty == 'lit': an unsuffixed integer literal of value .lit whose type is not fixed yet
        # call != None: a call whose flattened result has several components: (term, n_ret_leaves, out_targets)


class Var:
    def __init__(self, name, ty, mut, leaves, init, is_out=False):
        self.name, self.ty, self.mut, self.leaves, self.is_out = name, ty, mut, leaves, is_out   # leaves: [(path, scalar ty)]
        self.init = list(init)

    def copy(self):
        return Var(self.name, self.ty, self.mut, self.leaves, self.init, self.is_out)


def tname(table, path):
    """Gallina name of one leaf list of a constant table"""
    s = 'T_' + table
    for p in path:
        s += str(p) if isinstance(p, int) else '_' + p
    return s


def gname(var, path):
    s = var
    for p in path:
        if isinstance(p, int):
            s += str(p)
        else:
            s += '_' + p
    if s in COQ_RESERVED:
        s += '_'          # e.g. a Rust variable `S` would be read as the constructor S in a Gallina pattern
    if s.startswith(GEN_PREFIXES) or re.fullmatch(r'r\d+_', s):
        s = 'v_' + s      # e.g. a Rust variable `T` (component T_w0) would collide with the table names T_<NAME>
    return s


class Env:
    def __init__(self):
        self.vars = {}
        self.order = []

    def copy(self):
        e = Env()
        e.vars = {k: v.copy() for k, v in self.vars.items()}
        e.order = list(self.order)
        return e

    def declare(self, v):
        if v.name not in self.vars:
            self.order.append(v.name)
        self.vars[v.name] = v


# ---------------------------------------------------------------------------------------------------------
class Program:
    """All source files taking part in a translation, with name resolution by unique item name."""

    def __init__(self, srcdir, files):
        import os
        self.srcdir = srcdir
        self.files = []
        for f in files:
            p = os.path.join(srcdir, f)
            if not os.path.isfile(p):
                fail('source file not found', None, p)
            self.files.append(SourceFile(p))
        self.fn_done = {}       # rust fn key -> FnInfo
        self.out_defs = []      # generated Gallina text blocks in dependency order
        self.tables = {}        # const name -> TableInfo
        self.header = []        # header comment lines
        self.fn_stack = []
        self.type_cache = {}
        self.used_gnames = set()
        self.abstract_names = set()   # Rust function names modelled as abstract parameters
        self.fuel = {}                # (rust fn name, loop index) -> literal fuel bound

    def find(self, name, kinds, line=None, fname=None, optional=False):
        hits = []
        for sf in self.files:
            for it in sf.active(name):
                if it.kind in kinds:
                    hits.append((sf, it))
        if not hits and 'fn' in kinds and not optional and '::' not in name and self.load_file_defining(name):
            return self.find(name, kinds, line, fname, optional)
        if not hits:
            if optional:
                return None
            fail('cannot resolve name `%s` (looked for %s in %s)' % (name, '/'.join(kinds), ', '.join(s.path for s in self.files)), line, fname)
        if len(hits) > 1:
            fail('name `%s` is defined %d times (%s); the translator does not do module resolution' %
                 (name, len(hits), ', '.join('%s:%d' % (s.path, i.line) for s, i in hits)), line, fname)
        return hits[0]

    def load_file_defining(self, name):
        """a called function that is not defined in the files loaded so far: load the other source files of the directory
        whose text contains `fn <name>` (calls into other files, e.g. bid128_modf -> bid128_round_integral_zero)"""
        import os
        import re
        loaded = set(os.path.abspath(sf.path) for sf in self.files)
        added = False
        for f in sorted(os.listdir(self.srcdir)):
            p = os.path.abspath(os.path.join(self.srcdir, f))
            if not f.endswith('.rs') or p in loaded:
                continue
            with open(p, encoding='utf-8') as fh:
                text = fh.read()
            if re.search(r'\bfn\s+%s\b' % re.escape(name), text):
                self.files.append(SourceFile(os.path.join(self.srcdir, f)))
                self.header.append('loaded %s for fn %s' % (f, name))
                added = True
        return added

    def find_trait_fn(self, tyname_, fname_, line, fname):
        """T::f where f comes from exactly one `impl Trait for T` among the loaded files"""
        hits = []
        for sf in self.files:
            for key in sf.items:
                parts = key.split('::')
                if len(parts) == 3 and parts[0] == tyname_ and parts[2] == fname_:
                    for it in sf.active(key):
                        if it.kind == 'fn':
                            hits.append((sf, it))
        if len(hits) != 1:
            fail('cannot resolve associated function %s::%s uniquely (%d candidates)' % (tyname_, fname_, len(hits)), line, fname)
        return hits[0]

    # ---- types
    def resolve_type(self, tast, self_type=None, line=None, fname=None):
        """-> (type, refkind) with refkind in (None, 'ref', 'mut')"""
        if tast[0] == 'ref':
            ty, rk = self.resolve_type(tast[2], self_type, line, fname)
            if rk is not None:
                fail('reference to reference type', line, fname)
            return ty, ('mut' if tast[1] else 'ref')
        if tast[0] == 'tuple':
            elems = []
            for t in tast[1]:
                ty, rk = self.resolve_type(t, self_type, line, fname)
                if rk is not None:
                    fail('reference inside a tuple type', line, fname)
                elems.append(ty)
            if not elems:
                return 'unit', None
            return ('tuple', tuple(elems)), None
        if tast[0] == 'array':
            el, rk = self.resolve_type(tast[1], self_type, line, fname)
            n = self.const_int(tast[2], fname)
            return ('array', el, n), None
        name = tast[1]
        if name == 'Self':
            if self_type is None:
                fail('`Self` outside an impl', line, fname)
            return self_type, None
        if name in INT_TYPES or name in ('bool', 'f64'):
            return name, None
        if name in self.type_cache:
            return self.type_cache[name], None
        hit = self.find(name, ('type', 'struct', 'union', 'enum'), line, fname)
        sf, it = hit
        p = Parser(sf, it.start, it.end)
        if it.kind == 'type':
            al = p.parse_type_alias()
            ty, rk = self.resolve_type(al[2], None, it.line, sf.path)
            if rk is not None:
                fail('type alias to a reference', it.line, sf.path)
        elif it.kind == 'struct':
            st = p.parse_struct()
            fields = []
            for fn, fty in st[2]:
                t2, rk = self.resolve_type(fty, None, it.line, sf.path)
                if rk is not None:
                    fail('reference field', it.line, sf.path)
                fields.append((fn, t2))
            ty = ('struct', name)
            derives_default = any(a.text.startswith('#[derive(') and re.search(r'\bDefault\b', a.text) for a in it.attrs)
            self.structs = getattr(self, 'structs', {})
            self.structs[name] = (fields, derives_default)
        elif it.kind == 'union':
            st = p.parse_struct()
            ftys = sorted((fn, self.resolve_type(fty, None, it.line, sf.path)[0]) for fn, fty in st[2])
            if [t for _, t in ftys] != ['f64', 'u64'] or [f for f, _ in ftys] != ['d', 'ui64']:
                fail('union %s is not the recognised {ui64: u64, d: f64} bit-cast union' % name, it.line, sf.path)
            ty = ('union64', name)
        else:
            en = p.parse_enum()
            self.enums = getattr(self, 'enums', {})
            self.enums[name] = dict(en[2])
            ty = ('enum', name)
        self.type_cache[name] = ty
        return ty, None

    def fields_of(self, ty):
        return self.structs[ty[1]][0]

    def leaves_of(self, ty):
        if isinstance(ty, str):
            if ty == 'unit':
                return []
            return [((), ty)]
        if ty[0] == 'enum':
            return [((), ty)]
        if ty[0] == 'union64':
            return [(('ui64',), 'u64')]
        if ty[0] == 'struct':
            res = []
            for fn, fty in self.fields_of(ty):
                for p, t in self.leaves_of(fty):
                    res.append(((fn,) + p, t))
            return res
        if ty[0] == 'array':
            res = []
            for i in range(ty[2]):
                for p, t in self.leaves_of(ty[1]):
                    res.append(((i,) + p, t))
            return res
        if ty[0] == 'tuple':
            res = []
            for i, t0 in enumerate(ty[1]):
                for p, t in self.leaves_of(t0):
                    res.append(((i,) + p, t))
            return res
        fail('internal: leaves_of %r' % (ty,))

    def subtype(self, ty, step, line, fname):
        if isinstance(ty, tuple) and ty[0] == 'struct' and isinstance(step, str):
            for fn, fty in self.fields_of(ty):
                if fn == step:
                    return fty
            fail('struct %s has no field %s' % (ty[1], step), line, fname)
        if isinstance(ty, tuple) and ty[0] == 'array' and isinstance(step, int):
            if not (0 <= step < ty[2]):
                fail('constant index %d out of range for %s' % (step, tyname(ty)), line, fname)
            return ty[1]
        if isinstance(ty, tuple) and ty[0] == 'tuple' and isinstance(step, int):
            if not (0 <= step < len(ty[1])):
                fail('tuple index out of range', line, fname)
            return ty[1][step]
        if isinstance(ty, tuple) and ty[0] == 'union64' and step in ('ui64', 'd'):
            return 'u64' if step == 'ui64' else 'f64'
        fail('cannot select %r in a value of type %s' % (step, tyname(ty)), line, fname)

    # ---- constants
    def const_ast(self, name, line, fname, optional=False):
        hit = self.find(name, ('const', 'static'), line, fname, optional=optional)
        if hit is None:
            return None
        sf, it = hit
        c = Parser(sf, it.start, it.end).parse_const()
        return sf, it, c

    def const_int(self, e, fname):
        """compile-time integer: literal, named constant bound to one, parenthesised"""
        if e[0] == 'lit':
            return e[1]
        if e[0] == 'paren':
            return self.const_int(e[1], fname)
        if e[0] == 'path' and len(e[1]) == 1:
            sf, it, c = self.const_ast(e[1][0], e[2], fname)
            return self.const_int(c[3], sf.path)
        if e[0] == 'path' and len(e[1]) == 2:
            sf, it, c = self.const_ast('::'.join(e[1]), e[2], fname)
            return self.const_int(c[3], sf.path)
        fail('expression is not a compile-time integer constant the translator can evaluate', e[-1] if isinstance(e[-1], int) else None, fname)


class FnInfo:
    def __init__(self):
        self.gname = None
        self.params = []      # [(rust name, type, refkind)]
        self.ret = None
        self.outs = []        # indices of &mut params
        self.has_ok = False
        self.src = None
        self.abstract = False     # modelled as a function parameter (signature only)
        self.abstracts = []       # [(Gallina parameter name, Gallina type)] this function (transitively) depends on
        self.tuple_result = False


# ---------------------------------------------------------------------------------------------------------
class FnTr:
    """Translator of one function body. mode 'val' gives the value, mode 'ok' the panic-freedom predicate."""

    def __init__(self, prog, sf, fnast, self_type, mode, info):
        self.prog, self.sf, self.fn, self.self_type, self.mode, self.info = prog, sf, fnast, self_type, mode, info
        self.fname = sf.path
        self.kcount = 0
        self.nchecks = 0
        self.fail_leaf = ('leaf', 'false')
        self.allow_overflowing = '#![allow(overflowing_literals)]' in sf.inner_attrs
        self.ret_ty = None
        self.loop_ctx = None      # (break continuation, continue continuation) while translating a loop body
        self.loop_ids = {}
        self.aux_defs = []        # Fixpoints generated for loops, emitted before the function's definition
        self.aux_names = set()
        self.hoist_ids = {}

    def fail(self, msg, line):
        fail('%s [in fn %s]' % (msg, self.fn[1]), line, self.fname)

    # ---------------- IR helpers
    def guard(self, checks, ir):
        if self.mode != 'ok' or not checks:
            return ir
        self.nchecks += len(checks)
        return ('if', ' && '.join(checks) if len(checks) > 1 else checks[0], ir, self.fail_leaf)

    def mk_let(self, names, terms, checks, body):
        """bind names to terms (lists of equal length), then body"""
        if not names:
            return self.guard(checks, body)
        if len(names) == 1:
            if names[0] == terms[0]:
                return self.guard(checks, body)
            return self.guard(checks, ('let', names[0], ('leaf', terms[0]), body))
        clash = any(re.search(r'(?<![A-Za-z0-9_\'])' + re.escape(n) + r'(?![A-Za-z0-9_\'])', t) for n in names for t in terms)
        if not clash:
            ir = body
            for n, t in reversed(list(zip(names, terms))):
                ir = ('let', n, ('leaf', t), ir)
            return self.guard(checks, ir)
        pairs = [(n, t) for n, t in zip(names, terms) if n != t]
        if not pairs:
            return self.guard(checks, body)
        if len(pairs) == 1:
            return self.guard(checks, ('let', pairs[0][0], ('leaf', pairs[0][1]), body))
        return self.guard(checks, ('let', "'(" + ', '.join(n for n, _ in pairs) + ')', ('leaf', '(' + ', '.join(t for _, t in pairs) + ')'), body))

    # ---------------- literals and coercions
    def coerce_lit(self, v, ty, line):
        if not is_int(ty):
            self.fail('integer literal used where a value of type %s is expected' % tyname(ty), line)
        lo, hi = trange(ty)
        val = v.lit
        if not (lo <= val <= hi):
            signed, w = INT_TYPES[ty]
            if signed and 0 <= val < (1 << w) and self.allow_overflowing:
                val -= (1 << w)         # #![allow(overflowing_literals)]: two's complement reading
            else:
                self.fail('literal %d does not fit type %s' % (val, ty), line)
        return Val(ty, [zlit(val, v.hexa)], v.checks)

    def const_fold(self, e, ty):
        """value of a constant integer expression built from literals with + - * (as rustc evaluates it at compile time:
        overflow would be a compile error, so the mathematical value must fit the type); None if e is not of that shape"""
        if not is_int(ty):
            return None
        def ev(x):
            if x[0] == 'paren':
                return ev(x[1])
            if x[0] == 'lit':
                if x[2] is not None and x[2] != ty:
                    return None
                return x[1]
            if x[0] == 'un' and x[1] == '-':
                v = ev(x[2])
                return None if v is None else -v
            if x[0] == 'bin' and x[1] in ('+', '-', '*'):
                a, b = ev(x[2]), ev(x[3])
                if a is None or b is None:
                    return None
                return a + b if x[1] == '+' else a - b if x[1] == '-' else a * b
            return None
        if e[0] == 'lit':
            return None            # plain literals take the ordinary path (keeps hex / decimal form)
        v = ev(e)
        if v is None:
            return None
        lo, hi = trange(ty)
        if not (lo <= v <= hi):
            return None
        return zlit(v)

    def default_lit(self, v, line):
        if v.ty == 'lit':
            return self.coerce_lit(v, 'i32', line)
        return v

    def wrap(self, ty, term):
        return '(wrap_%s %s)' % (ty, term)

    def cast(self, v, ty, line):
        if v.ty == ty:
            return v
        if is_int(v.ty) and is_int(ty):
            lo1, hi1 = trange(v.ty)
            lo2, hi2 = trange(ty)
            if lo2 <= lo1 and hi1 <= hi2:
                return Val(ty, v.leaves, v.checks)          # value-preserving widening
            return Val(ty, [self.wrap(ty, v.leaves[0])], v.checks)
        if v.ty == 'bool' and is_int(ty):
            return Val(ty, ['(bool_to_Z %s)' % v.leaves[0]], v.checks)
        if isinstance(v.ty, tuple) and v.ty[0] == 'enum' and is_int(ty):
            lo2, hi2 = trange(ty)
            if all(lo2 <= d <= hi2 for d in self.prog.enums[v.ty[1]].values()):
                return Val(ty, v.leaves, v.checks)
        self.fail('cast from %s to %s' % (tyname(v.ty), tyname(ty)), line)

    # ---------------- places
    def place(self, e, env):
        """-> (Var, path prefix, type) for an expression denoting (part of) a local variable, else None"""
        k = e[0]
        if k == 'paren':
            return self.place(e[1], env)
        if k == 'un' and e[1] in ('*', '&', '&mut'):
            return self.place(e[2], env)
        if k == 'path' and len(e[1]) == 1 and e[1][0] in env.vars:
            v = env.vars[e[1][0]]
            return v, (), v.ty
        if k == 'field':
            b = self.place(e[1], env)
            if b is None:
                return None
            v, pre, ty = b
            step = int(e[2]) if e[2].isdigit() else e[2]
            sub = self.prog.subtype(ty, step, e[3], self.fname)
            if isinstance(ty, tuple) and ty[0] == 'union64':
                return v, pre + ('ui64',), sub        # both views (.ui64 / .d) share the one 64-bit storage leaf
            return v, pre + (step,), sub
        if k == 'index':
            b = self.place(e[1], env)
            if b is None:
                return None
            v, pre, ty = b
            idx = self.prog.const_int(e[2], self.fname)
            return v, pre + (idx,), self.prog.subtype(ty, idx, e[3], self.fname)
        return None

    def place_leaves(self, pl):
        v, pre, ty = pl
        res = []
        for i, (p, t) in enumerate(v.leaves):
            if p[:len(pre)] == pre:
                res.append(i)
        return res

    def read_place(self, pl, line):
        v, pre, ty = pl
        if ty == 'f64':
            self.fail('reading the f64 view of a bit-cast union (only `u.d = <int> as f64; ... u.ui64` is recognised)', line)
        idxs = self.place_leaves(pl)
        if not idxs and ty != 'unit':
            self.fail('internal: no storage for place', line)
        for i in idxs:
            if not v.init[i]:
                self.fail('variable `%s` (component %s) is read before it is initialised' % (v.name, gname(v.name, v.leaves[i][0])), line)
        return Val(ty, [gname(v.name, v.leaves[i][0]) for i in idxs])

    # ---------------- expressions
    def tr(self, e, env, expect=None):
        k = e[0]
        if k == 'paren':
            return self.tr(e[1], env, expect)
        if k == 'lit':
            val, suffix, line = e[1], e[2], e[3]
            hexa = e[4].lower().startswith('0x')
            if suffix is not None:
                lo, hi = trange(suffix)
                v = Val('lit', [], lit=val, hexa=hexa)
                return self.coerce_lit(v, suffix, line)
            v = Val('lit', [], lit=val, hexa=hexa)
            if expect is not None and is_int(expect):
                return self.coerce_lit(v, expect, line)
            return v
        if k == 'bool':
            return Val('bool', ['true' if e[1] else 'false'])
        if k == 'path':
            return self.tr_path(e, env, expect)
        if k in ('field', 'index'):
            pl = self.place(e, env)
            if pl is not None:
                return self.read_place(pl, e[3])
            return self.tr_select(e, env)
        if k == 'un':
            return self.tr_un(e, env, expect)
        if k == 'bin':
            return self.tr_bin(e, env, expect)
        if k == 'cast':
            ty, rk = self.prog.resolve_type(e[2], self.self_type, e[3], self.fname)
            if rk is not None:
                self.fail('cast to a reference type', e[3])
            if ty == 'f64':
                self.fail('cast to f64 outside the recognised idiom `u.d = <unsigned> as f64;`', e[3])
            v = self.tr(e[1], env, None)
            v = self.default_lit(v, e[3])
            return self.cast(v, ty, e[3])
        if k == 'if':
            return self.tr_if_expr(e, env, expect)
        if k == 'match':
            return self.tr_match_expr(e, env, expect)
        if k == 'panic':
            # panic!(..) as a value: never evaluated when ok_ holds (check `false`); the value is the type's zero
            if expect is None:
                self.fail('%s!() where the translator does not know the expected type' % e[1], e[2])
            leaves = ['false' if t == 'bool' else '0' for p, t in self.prog.leaves_of(expect)]
            return Val(expect, leaves, ['false'])
        if k == 'range_contains':
            rng, arg, line = e[1], e[2], e[3]
            x = self.default_lit(self.tr_scalar(arg, env, None), line)
            if not is_int(x.ty):
                self.fail('range.contains on a value of type %s' % tyname(x.ty), line)
            lo = self.tr_scalar(rng[1], env, x.ty)
            hi = self.tr_scalar(rng[2], env, x.ty)
            if lo.ty == 'lit':
                lo = self.coerce_lit(lo, x.ty, line)
            if hi.ty == 'lit':
                hi = self.coerce_lit(hi, x.ty, line)
            if lo.ty != x.ty or hi.ty != x.ty:
                self.fail('range bounds of types %s / %s for a value of type %s' % (tyname(lo.ty), tyname(hi.ty), tyname(x.ty)), line)
            cmp_hi = '<=?' if rng[3] else '<?'
            return Val('bool', ['((%s <=? %s) && (%s %s %s))' % (lo.leaves[0], x.leaves[0], x.leaves[0], cmp_hi, hi.leaves[0])],
                       lo.checks + hi.checks + x.checks)
        if k == 'range':
            self.fail('range expression outside `(a..b).contains(&x)`', e[4])
        if k == 'block':
            if e[1]:
                self.fail('block expression with statements in expression position', e[3])
            if e[2] is None:
                self.fail('block expression without a value', e[3])
            return self.tr(e[2], env, expect)
        if k == 'struct':
            return self.tr_struct_lit(e, env, expect)
        if k == 'tuple':
            vals = [self.default_lit(self.tr(x, env, None), e[2]) for x in e[1]]
            if any(v.call for v in vals):
                self.fail('call with several result components inside a tuple', e[2])
            return Val(('tuple', tuple(v.ty for v in vals)), [l for v in vals for l in v.leaves], [c for v in vals for c in v.checks])
        if k == 'array':
            self.fail('array expression outside a struct literal', e[2])
        if k == 'call':
            return self.tr_call(e, env, expect)
        self.fail('expression form %s' % k, None)

    def tr_scalar(self, e, env, expect=None):
        v = self.tr(e, env, expect)
        if v.call is not None:
            self.fail('a call returning several components (struct, tuple or &mut outputs) is only supported directly as the right-hand side of let / assignment / return', e[-1] if isinstance(e[-1], int) else None)
        return v

    def tr_path(self, e, env, expect):
        segs, line = e[1], e[2]
        if len(segs) == 1 and segs[0] in env.vars:
            return self.read_place(self.place(e, env), line)
        if len(segs) == 2 and segs[0] in INT_TYPES and segs[1] in ('MIN', 'MAX'):
            lo, hi = trange(segs[0])
            return Val(segs[0], [zlit(lo if segs[1] == 'MIN' else hi)])
        if len(segs) == 2:
            # enum variant?
            t0 = None
            try:
                t0, _ = self.prog.resolve_type(('name', segs[0], [segs[0]]), self.self_type, line, self.fname)
            except RsError:
                t0 = None
            if isinstance(t0, tuple) and t0[0] == 'enum':
                d = self.prog.enums[t0[1]]
                if segs[1] not in d:
                    self.fail('enum %s has no variant %s' % (t0[1], segs[1]), line)
                return Val(t0, [str(d[segs[1]])])
            name = (t0[1] if isinstance(t0, tuple) and t0[0] in ('struct', 'union64') else segs[0]) + '::' + segs[1]
            return self.tr_const(name, line)
        if len(segs) == 1:
            return self.tr_const(segs[0], line)
        self.fail('path %s' % '::'.join(segs), line)

    def tr_const(self, name, line):
        sf, it, c = self.prog.const_ast(name, line, self.fname)
        ty, rk = self.prog.resolve_type(c[2], None, it.line, sf.path)
        if rk is not None:
            self.fail('constant of reference type', line)
        if isinstance(ty, tuple) and ty[0] == 'array':
            self.fail('table `%s` used without an index' % name, line)
        sub = FnTr(self.prog, sf, ('fn', 'const ' + name, [], None, None, it.line), None, self.mode, None)
        v = sub.tr(c[3], Env(), ty)
        v = sub.default_lit(v, it.line)
        if v.ty != ty:
            fail('constant %s: initialiser has type %s, declared %s' % (name, tyname(v.ty), tyname(ty)), it.line, sf.path)
        return Val(ty, v.leaves, v.checks)

    def tr_select(self, e, env):
        """field / index on something that is not a local place: constant tables  T[i]  and  T[i].field / T[i].w[k]"""
        steps = []
        cur = e
        while cur[0] in ('field', 'index', 'paren'):
            if cur[0] == 'paren':
                cur = cur[1]
                continue
            steps.append(cur)
            cur = cur[1]
        steps.reverse()
        if cur[0] == 'un' and cur[1] in ('&', '*'):
            self.fail('selection on a borrowed temporary', cur[3])
        if cur[0] != 'path' or len(cur[1]) != 1:
            self.fail('field/index selection on an expression that is neither a local variable nor a constant table', e[3])
        tname_ = cur[1][0]
        tab = self.prog_table(tname_, cur[2])
        dims = tab['dims']
        if len(steps) < len(dims) or any(st_[0] != 'index' for st_ in steps[:len(dims)]):
            self.fail('table %s must be indexed %d time(s) first' % (tname_, len(dims)), steps[0][3])
        idx_terms, idx_checks = [], []
        for d, st_ in zip(dims, steps[:len(dims)]):
            iv1 = self.tr_scalar(st_[2], env, 'usize')
            if iv1.ty != 'usize':
                self.fail('table index of type %s (usize expected)' % tyname(iv1.ty), st_[3])
            idx_terms.append(iv1.leaves[0])
            idx_checks += iv1.checks + ['((0 <=? %s) && (%s <? %d))' % (iv1.leaves[0], iv1.leaves[0], d)]
        if len(dims) == 1:
            iterm = idx_terms[0]
        else:
            iterm = idx_terms[0]
            for d, t in zip(dims[1:], idx_terms[1:]):
                iterm = '(%s * %d + %s)' % (iterm, d, t)
        iv = Val('usize', [iterm], idx_checks)
        steps = steps[len(dims) - 1:]
        ty = tab['elty']
        pre = ()
        for s in steps[1:]:
            if s[0] == 'field':
                step = int(s[2]) if s[2].isdigit() else s[2]
            else:
                step = self.prog.const_int(s[2], self.fname)
            ty = self.prog.subtype(ty, step, s[3], self.fname)
            pre += (step,)
        leaves = []
        for p, t in tab['leaves']:
            if p[:len(pre)] == pre:
                leaves.append('(nth (Z.to_nat %s) %s 0)' % (iv.leaves[0], tname(tname_, p)))
        return Val(ty, leaves, iv.checks)

    def prog_table(self, name, line):
        if name in self.prog.tables:
            return self.prog.tables[name]
        sf, it, c = self.prog.const_ast(name, line, self.fname)
        ty, rk = self.prog.resolve_type(c[2], None, it.line, sf.path)
        if not (isinstance(ty, tuple) and ty[0] == 'array'):
            fail('constant %s is not an array' % name, it.line, sf.path)
        elty, n = ty[1], ty[2]
        dims = [n]
        init = c[3]
        if init[0] != 'array':
            fail('table %s: initialiser is not an array literal' % name, it.line, sf.path)
        if len(init[1]) != n:
            fail('table %s: %d rows but declared length %d' % (name, len(init[1]), n), it.line, sf.path)
        rows = init[1]
        while isinstance(elty, tuple) and elty[0] == 'array':
            # [[T; m]; n]: stored row-major in one list per leaf; T[i][j] reads element i*m + j
            m = elty[2]
            flat = []
            for r in rows:
                if r[0] != 'array' or len(r[1]) != m:
                    fail('table %s: inner row is not an array literal of %d elements' % (name, m), it.line, sf.path)
                flat += r[1]
            rows = flat
            dims.append(m)
            elty = elty[1]
        leaves = self.prog.leaves_of(elty)
        cols = [[] for _ in leaves]
        sub = FnTr(self.prog, sf, ('fn', 'table ' + name, [], None, None, it.line), None, 'val', None)
        for row in rows:
            cv = sub.const_fold(row, elty)
            if cv is not None:
                v = Val(elty, [cv])
            else:
                v = sub.tr(row, Env(), elty)
                v = sub.default_lit(v, it.line)
            if v.ty != elty or len(v.leaves) != len(leaves):
                fail('table %s: row of type %s, expected %s' % (name, tyname(v.ty), tyname(elty)), row[-1] if isinstance(row[-1], int) else it.line, sf.path)
            for j, l in enumerate(v.leaves):
                if not re.fullmatch(r'\(?-?(0x[0-9a-f]+|[0-9]+)\)?', l):
                    fail('table %s: entry `%s` is not a literal' % (name, l), it.line, sf.path)
                cols[j].append(l)
        n = len(rows)
        l0, l1 = sf.lines_of(it)
        h = hashlib.sha256(sf.text_of(it).encode()).hexdigest()[:16]
        self.prog.header.append('table %s: %s lines %d-%d sha256:%s (%s rows)' % (name, sf.path, l0, l1, h, ' x '.join(str(d) for d in dims)))
        text = []
        for (p, t), col in zip(leaves, cols):
            g = tname(name, p)
            body = ';\n  '.join('; '.join(col[i:i + 4]) for i in range(0, len(col), 4))
            text.append('Definition %s : list Z :=\n [%s].\n' % (g, body))
        self.prog.out_defs.append('(* table %s from %s lines %d-%d *)\n' % (name, sf.path, l0, l1) + '\n'.join(text))
        tab = {'elty': elty, 'n': n, 'leaves': leaves, 'dims': dims}
        self.prog.tables[name] = tab
        return tab

    def tr_struct_lit(self, e, env, expect):
        segs, fields, line = e[1], e[2], e[3]
        ty, rk = self.prog.resolve_type(('name', segs[-1], segs), self.self_type, line, self.fname)
        if not (isinstance(ty, tuple) and ty[0] == 'struct'):
            self.fail('struct literal of non-struct type %s' % tyname(ty), line)
        decl = self.prog.fields_of(ty)
        given = dict(fields)
        if len(given) != len(fields) or set(given) != set(fn for fn, _ in decl):
            self.fail('struct literal for %s must give exactly the fields %s' % (ty[1], ', '.join(fn for fn, _ in decl)), line)
        leaves, checks = [], []
        for fn, fty in decl:
            fe = given[fn]
            if isinstance(fty, tuple) and fty[0] == 'array':
                while fe[0] == 'paren':
                    fe = fe[1]
                if fe[0] != 'array' or len(fe[1]) != fty[2]:
                    self.fail('field %s needs an array literal of %d elements' % (fn, fty[2]), line)
                for x in fe[1]:
                    v = self.default_lit(self.tr_scalar(x, env, fty[1]), line)
                    if v.ty != fty[1]:
                        self.fail('array element of type %s, expected %s' % (tyname(v.ty), tyname(fty[1])), line)
                    leaves += v.leaves
                    checks += v.checks
            else:
                v = self.default_lit(self.tr_scalar(fe, env, fty), line)
                if v.ty != fty:
                    self.fail('field %s of type %s, expected %s' % (fn, tyname(v.ty), tyname(fty)), line)
                leaves += v.leaves
                checks += v.checks
        return Val(ty, leaves, checks)

    def tr_un(self, e, env, expect):
        op, x, line = e[1], e[2], e[3]
        if op in ('*', '&'):
            return self.tr(x, env, expect)       # references are transparent
        if op == '&mut':
            self.fail('&mut borrow outside a call argument', line)
        if op == '-':
            v = self.tr_scalar(x, env, expect)
            if v.ty == 'lit':
                return Val('lit', [], v.checks, lit=-v.lit, hexa=False)
            if is_int(v.ty) and INT_TYPES[v.ty][0]:
                return Val(v.ty, [self.wrap(v.ty, '(- %s)' % v.leaves[0])], v.checks)
            self.fail('unary minus on type %s' % tyname(v.ty), line)
        if op == '!':
            v = self.tr_scalar(x, env, expect)
            if v.ty == 'lit':
                if expect is not None and is_int(expect):
                    v = self.coerce_lit(v, expect, line)
                else:
                    self.fail('`!` on an integer literal whose type is not determined by the context the translator looks at', line)
            if v.ty == 'bool':
                return Val('bool', ['(negb %s)' % v.leaves[0]], v.checks)
            if is_int(v.ty):
                return Val(v.ty, ['(not_%s %s)' % (v.ty, v.leaves[0])], v.checks)
            self.fail('`!` on type %s' % tyname(v.ty), line)
        self.fail('unary operator %s' % op, line)

    def tr_bin(self, e, env, expect):
        op, l, r, line = e[1], e[2], e[3], e[4]
        if op in ('&&', '||'):
            a = self.tr_scalar(l, env, 'bool')
            b = self.tr_scalar(r, env, 'bool')
            if a.ty != 'bool' or b.ty != 'bool':
                self.fail('operands of %s must be bool' % op, line)
            checks = list(a.checks)
            if b.checks:
                cb = ' && '.join(b.checks)
                checks.append('(if %s then %s else true)' % (a.leaves[0], cb) if op == '&&' else '(if %s then true else %s)' % (a.leaves[0], cb))
            return Val('bool', ['(%s %s %s)' % (a.leaves[0], op, b.leaves[0])], checks)
        if op in ('<<', '>>'):
            a = self.tr_scalar(l, env, expect)
            if a.ty == 'lit':
                self.fail('shift of an integer literal of undetermined type', line)
            if not is_int(a.ty):
                self.fail('shift of a value of type %s' % tyname(a.ty), line)
            signed, w = INT_TYPES[a.ty]
            try:
                n = self.prog.const_int(r, self.fname)
            except RsError:
                # variable amount: Rust masks the amount to the width when overflow checks are off and panics otherwise;
                # the value is the masked one, and `0 <= amount < width` goes into the ok_ predicate
                kv = self.default_lit(self.tr_scalar(r, env, None), line)
                if not is_int(kv.ty):
                    self.fail('shift amount of type %s' % tyname(kv.ty), line)
                k = kv.leaves[0]
                chk = '((0 <=? %s) && (%s <? %d))' % (k, k, w)
                if op == '>>':
                    return Val(a.ty, ['(Z.shiftr %s (%s mod %d))' % (a.leaves[0], k, w)], a.checks + kv.checks + [chk])
                return Val(a.ty, [self.wrap(a.ty, '(Z.shiftl %s (%s mod %d))' % (a.leaves[0], k, w))], a.checks + kv.checks + [chk])
            if not (0 <= n < w):
                self.fail('shift amount %d is not below the width of %s (panics in debug, masked in release)' % (n, a.ty), line)
            if op == '>>':
                return Val(a.ty, ['(Z.shiftr %s %d)' % (a.leaves[0], n)], a.checks)
            return Val(a.ty, [self.wrap(a.ty, '(Z.shiftl %s %d)' % (a.leaves[0], n))], a.checks)
        cmpops = {'==': '=?', '!=': '=?', '<': '<?', '<=': '<=?', '>': '>?', '>=': '>=?'}
        ex = None if op in cmpops else expect
        a = self.tr_scalar(l, env, ex)
        b = self.tr_scalar(r, env, a.ty if a.ty != 'lit' else ex)
        if a.ty == 'lit' and b.ty != 'lit':
            a = self.coerce_lit(a, b.ty, line)
        if b.ty == 'lit' and a.ty != 'lit':
            b = self.coerce_lit(b, a.ty, line)
        if a.ty == 'lit' and b.ty == 'lit' and op in ('+', '-', '*') and a.lit is not None and b.lit is not None:
            # two literals of undetermined type: the constant is folded (rustc evaluates it at compile time and rejects an
            # overflow at the type finally chosen, so the mathematical value is the value; coerce_lit checks the fit)
            val = a.lit + b.lit if op == '+' else (a.lit - b.lit if op == '-' else a.lit * b.lit)
            return Val('lit', [], a.checks + b.checks, lit=val)
        if a.ty == 'lit' and b.ty == 'lit':
            self.fail('binary operation on two integer literals of undetermined type', line)
        if a.ty != b.ty:
            self.fail('operands of `%s` have different types %s and %s' % (op, tyname(a.ty), tyname(b.ty)), line)
        checks = a.checks + b.checks
        x, y, ty = a.leaves[0], b.leaves[0], a.ty
        if op in cmpops:
            if not (is_int(ty) or (ty == 'bool' and op in ('==', '!=')) or (isinstance(ty, tuple) and ty[0] == 'enum' and op in ('==', '!='))):
                self.fail('comparison `%s` on type %s' % (op, tyname(ty)), line)
            if ty == 'bool':
                t = '(Bool.eqb %s %s)' % (x, y)
            else:
                t = '(%s %s %s)' % (x, cmpops[op], y)
            if op == '!=':
                t = '(negb %s)' % t
            return Val('bool', [t], checks)
        if ty == 'bool':
            if op == '^':
                return Val('bool', ['(xorb %s %s)' % (x, y)], checks)
            if op == '&':
                return Val('bool', ['(andb %s %s)' % (x, y)], checks)
            if op == '|':
                return Val('bool', ['(orb %s %s)' % (x, y)], checks)
            self.fail('operator `%s` on bool' % op, line)
        if not is_int(ty):
            self.fail('operator `%s` on type %s' % (op, tyname(ty)), line)
        if op in ('&', '|', '^'):
            f = {'&': 'Z.land', '|': 'Z.lor', '^': 'Z.lxor'}[op]
            return Val(ty, ['(%s %s %s)' % (f, x, y)], checks)
        if op in ('+', '-', '*'):
            return Val(ty, [self.wrap(ty, '(%s %s %s)' % (x, op, y))], checks)
        self.fail('operator `%s` is outside the subset' % op, line)

    def tr_if_expr(self, e, env, expect):
        cond, then, els, line = e[1], e[2], e[3], e[4]
        if els is None:
            self.fail('`if` without `else` used as a value', line)
        c = self.tr_scalar(cond, env, 'bool')
        if c.ty != 'bool':
            self.fail('condition of type %s' % tyname(c.ty), line)
        for b in (then, els):
            if b[1]:
                self.fail('`if` used as a value whose branch contains statements (only allowed directly after `return` or as the final expression)', b[3])
            if b[2] is None:
                self.fail('`if` used as a value: branch without a final expression', b[3])
        a = self.tr_scalar(then[2], env, expect)
        b = self.tr_scalar(els[2], env, expect if a.ty == 'lit' else a.ty)
        if a.ty == 'lit' and b.ty != 'lit':
            a = self.coerce_lit(a, b.ty, line)
        if b.ty == 'lit' and a.ty != 'lit':
            b = self.coerce_lit(b, a.ty, line)
        if a.ty == 'lit':
            self.fail('`if` value: both branches are integer literals of undetermined type', line)
        if a.ty != b.ty:
            self.fail('`if` branches of different types %s / %s' % (tyname(a.ty), tyname(b.ty)), line)
        if len(a.leaves) != 1:
            self.fail('`if` as a value of composite type %s' % tyname(a.ty), line)
        checks = list(c.checks)
        if a.checks or b.checks:
            checks.append('(if %s then %s else %s)' % (c.leaves[0], ' && '.join(a.checks) or 'true', ' && '.join(b.checks) or 'true'))
        return Val(a.ty, ['(if %s then %s else %s)' % (c.leaves[0], a.leaves[0], b.leaves[0])], checks)

    def covers_enum(self, arms, line):
        """do the unguarded arms name every variant of one field-less enum (then an unguarded last arm is reached only by
        values it matches: it can be the `else` of the chain; values outside the declared variants do not exist)"""
        enum_name, seen = None, set()
        def variants(pat):
            if pat[0] == 'por':
                res = []
                for q in pat[1]:
                    r = variants(q)
                    if r is None:
                        return None
                    res += r
                return res
            if pat[0] == 'ppath' and len(pat[1]) == 2:
                try:
                    t0, _ = self.prog.resolve_type(('name', pat[1][0], [pat[1][0]]), self.self_type, line, self.fname)
                except RsError:
                    return None
                if isinstance(t0, tuple) and t0[0] == 'enum' and pat[1][1] in self.prog.enums[t0[1]]:
                    return [(t0[1], pat[1][1])]
            return None
        for pat, guard, body, aline in arms:
            vs = variants(pat)
            if vs is None:
                return False
            for en, vn in vs:
                if enum_name is None:
                    enum_name = en
                if en != enum_name:
                    return False
                if guard is None:
                    seen.add(vn)
        return enum_name is not None and seen == set(self.prog.enums[enum_name])

    def tr_match_expr(self, e, env, expect):
        """match as a value: scrutinee evaluated once (let-bound in the emitted term), arms tried in order, each arm
        `pat [if guard] => value` becomes `if test then value else <next arms>`; the last arm must be irrefutable."""
        scrut, arms, line = e[1], e[2], e[3]
        sv = self.default_lit(self.tr_scalar(scrut, env, None), line)
        if not (is_int(sv.ty) or (isinstance(sv.ty, tuple) and sv.ty[0] == 'enum') or sv.ty == 'bool'):
            self.fail('match on a value of type %s' % tyname(sv.ty), line)
        self.kcount += 1
        sname = 'scrut_%d' % self.kcount
        if not arms:
            self.fail('match without arms', line)
        checks = list(sv.checks)
        result_ty = None
        pieces = []          # (test term or None, binder or None, value Val)
        for idx, (pat, guard, body, aline) in enumerate(arms):
            env2 = env
            test = None
            binder = None
            if pat[0] == 'pwild':
                pass
            elif pat[0] == 'plit':
                pv = self.tr_scalar(pat[1], env, sv.ty)
                if pv.ty == 'lit':
                    pv = self.coerce_lit(pv, sv.ty, aline)
                if pv.ty != sv.ty:
                    self.fail('match pattern of type %s against a scrutinee of type %s' % (tyname(pv.ty), tyname(sv.ty)), aline)
                test = '(%s =? %s)' % (sname, pv.leaves[0])
            elif pat[0] == 'ppath' or (pat[0] == 'pname' and self.prog.find(pat[1], ('const', 'static'), optional=True) is not None):
                pe = ('path', pat[1] if pat[0] == 'ppath' else [pat[1]], aline)
                pv = self.tr_scalar(pe, env, sv.ty)
                if pv.ty != sv.ty:
                    self.fail('match pattern of type %s against a scrutinee of type %s' % (tyname(pv.ty), tyname(sv.ty)), aline)
                test = '(%s =? %s)' % (sname, pv.leaves[0])
            elif pat[0] == 'por':
                tests = []
                for q in pat[1]:
                    qe = q[1] if q[0] == 'plit' else ('path', q[1], aline)
                    pv = self.tr_scalar(qe, env, sv.ty)
                    if pv.ty == 'lit':
                        pv = self.coerce_lit(pv, sv.ty, aline)
                    if pv.ty != sv.ty:
                        self.fail('match pattern of type %s against a scrutinee of type %s' % (tyname(pv.ty), tyname(sv.ty)), aline)
                    tests.append('(%s =? %s)' % (sname, pv.leaves[0]))
                test = '(' + ' || '.join(tests) + ')'
            else:
                # identifier pattern: binds the scrutinee
                name = pat[1]
                if name in env.vars:
                    self.fail('match binding `%s` shadows a variable of an enclosing scope' % name, aline)
                env2 = env.copy()
                var = self.declare(env2, name, sv.ty, False, True, aline)
                binder = gname(name, ())
            if guard is not None:
                g = self.tr_scalar(guard, env2, 'bool')
                if g.ty != 'bool':
                    self.fail('match guard of type %s' % tyname(g.ty), aline)
                if g.checks:
                    self.fail('match guard with table indexing / f64 idiom (panic checks inside guards are not modelled)', aline)
                test = g.leaves[0] if test is None else '(%s && %s)' % (test, g.leaves[0])
            bv = self.tr_scalar(body, env2, expect if result_ty is None else result_ty)
            if bv.ty == 'lit':
                if expect is None and result_ty is None:
                    self.fail('match arm value is an integer literal of undetermined type', aline)
                bv = self.coerce_lit(bv, result_ty or expect, aline)
            if len(bv.leaves) != 1:
                self.fail('match as a value of composite type %s' % tyname(bv.ty), aline)
            if result_ty is None:
                result_ty = bv.ty
            elif bv.ty != result_ty:
                self.fail('match arms of different types %s / %s' % (tyname(result_ty), tyname(bv.ty)), aline)
            last = idx == len(arms) - 1
            if last and test is not None and guard is None and self.covers_enum(arms, line):
                test = None                      # all variants of the enum are named: the last arm is the else
            if last and test is not None:
                self.fail('the last match arm must be irrefutable (`_` or a binding without guard): exhaustiveness is not analysed', aline)
            if not last and test is None:
                self.fail('unreachable match arms after an irrefutable arm', aline)
            pieces.append((test, binder, bv))
        # checks of the arm values hold on the arm taken only
        if any(bv.checks for _, _, bv in pieces):
            if any(b is not None for _, b, _ in pieces):
                self.fail('match with a binding pattern whose arm values need panic checks', line)
            chk = None
            for test, binder, bv in reversed(pieces):
                c = ' && '.join(bv.checks) if bv.checks else 'true'
                chk = c if test is None else '(if %s then %s else %s)' % (test, c, chk)
            checks.append('(let %s := %s in %s)' % (sname, sv.leaves[0], chk))
        term = None
        for test, binder, bv in reversed(pieces):
            val = bv.leaves[0]
            if binder is not None:
                # the binder is in scope of the guard and of the value
                if test is None:
                    term = '(let %s := %s in %s)' % (binder, sname, val)
                else:
                    term = '(let %s := %s in if %s then %s else %s)' % (binder, sname, test, val, term)
            else:
                term = val if test is None else '(if %s then %s else %s)' % (test, val, term)
        return Val(result_ty, ['(let %s := %s in %s)' % (sname, sv.leaves[0], term)], checks)

    def subst_var(self, node, name, repl):
        """replace the plain variable `name` by the AST `repl` (used for binding patterns: the arm's name is the scrutinee)"""
        if isinstance(node, tuple):
            if node and node[0] == 'path' and len(node) == 3 and isinstance(node[1], list) and node[1] == [name]:
                return repl
            return tuple(self.subst_var(x, name, repl) for x in node)
        if isinstance(node, list):
            return [self.subst_var(x, name, repl) for x in node]
        return node

    def desugar_match(self, e):
        """match with literal / path / or- / `_` / binding patterns -> nested `if` AST (arms may be blocks). A scrutinee that
        is not a plain variable is evaluated once into a fresh local first (the result is then a block)."""
        scrut, arms, line = e[1], e[2], e[3]
        sc = scrut
        while sc[0] == 'paren':
            sc = sc[1]
        pre = None
        if not (sc[0] == 'path' and len(sc[1]) == 1):
            tmp = 'matchval_%d' % line
            pre = ('let', ('pvar', tmp, False, line), None, sc, line)
            sc = ('path', [tmp], line)
        def test_of(pat, aline):
            if pat[0] == 'plit':
                return ('bin', '==', sc, pat[1], aline)
            if pat[0] == 'ppath':
                return ('bin', '==', sc, ('path', pat[1], aline), aline)
            if pat[0] == 'pname':
                if self.prog.find(pat[1], ('const', 'static'), optional=True) is None:
                    return None                      # binding pattern: matches everything, the name is the scrutinee
                return ('bin', '==', sc, ('path', [pat[1]], aline), aline)
            if pat[0] == 'por':
                t = test_of(pat[1][0], aline)
                for q in pat[1][1:]:
                    t2 = test_of(q, aline)
                    if t is None or t2 is None:
                        self.fail('binding or `_` inside an or-pattern', aline)
                    t = ('bin', '||', t, t2, aline)
                return t
            return None
        node = None
        for idx in range(len(arms) - 1, -1, -1):
            pat, guard, body, aline = arms[idx]
            blk = body if body[0] == 'block' else ('block', [], body, aline)
            t = test_of(pat, aline)
            if pat[0] == 'pname' and t is None:
                bname = pat[1]
                if guard is not None:
                    guard = self.subst_var(guard, bname, sc)
                used = set()
                self.idents_in(blk, used)
                if bname in used:
                    blk = ('block', [('let', ('pvar', bname, False, aline), None, sc, aline)] + list(blk[1]), blk[2], blk[3])
            if guard is not None:
                t = guard if t is None else ('bin', '&&', t, guard, aline)
            if idx == len(arms) - 1:
                if t is not None and guard is None and self.covers_enum(arms, line):
                    t = None                     # all variants of the enum are named: the last arm is the else
                if t is not None:
                    self.fail('the last match arm must be irrefutable (`_`): exhaustiveness is not analysed', aline)
                node = blk
            else:
                if t is None:
                    self.fail('unreachable match arms after an irrefutable arm', aline)
                els = node if node[0] == 'block' else ('block', [], node, aline)
                node = ('if', t, blk, els, aline)
        if pre is not None:
            return ('block', [pre], node, line)
        return node

    # ---------------- calls
    def default_value(self, ty, line):
        """Default::default() of a type, from `#[derive(Default)]` or its `impl Default`"""
        if is_int(ty):
            return Val(ty, ['0'])
        if ty == 'bool':
            return Val(ty, ['false'])
        if isinstance(ty, tuple) and ty[0] == 'union64':
            # impl Default for the union must be  Self { ui64: 0 }
            hit = self.prog.find(ty[1] + '::Default::default', ('fn',), line, self.fname)
            sf, it = hit
            f = Parser(sf, it.start, it.end).parse_fn()
            b = f[4]
            ok = (not b[1] and b[2] is not None and b[2][0] == 'struct' and b[2][1] == ['Self'] and len(b[2][2]) == 1
                  and b[2][2][0][0] == 'ui64' and b[2][2][0][1][0] == 'lit' and b[2][2][0][1][1] == 0)
            if not ok:
                fail('impl Default for %s is not `Self { ui64: 0 }`' % ty[1], it.line, sf.path)
            return Val(ty, ['0'])
        if isinstance(ty, tuple) and ty[0] == 'struct':
            fields, derives = self.prog.structs[ty[1]]
            if derives:
                leaves = []
                for p, t in self.prog.leaves_of(ty):
                    leaves += self.default_value(t, line).leaves
                return Val(ty, leaves)
            hit = self.prog.find(ty[1] + '::Default::default', ('fn',), line, self.fname)
            info = translate_fn(self.prog, hit[0], hit[1], ty)
            return self.call_info(info, [], line)
        self.fail('Default::default() for type %s' % tyname(ty), line)

    def call_info(self, info, argvals, line):
        """argvals: list of (Val, out_place or None) in parameter order"""
        terms, checks, outs = [], [], []
        for (pn, pty, rk), (v, pl) in zip(info.params, argvals):
            terms += v.leaves
            checks += v.checks
            if rk == 'mut':
                outs.append(pl)
        for ab in info.abstracts:
            if self.info is not None and ab not in self.info.abstracts:
                self.info.abstracts.append(ab)
        if self.info is None and info.abstracts:
            self.fail('abstract function used in a constant initialiser', line)
        head = [info.gname] + ([] if info.abstract else [a for a, _ in info.abstracts])
        term = '(%s)' % ' '.join(head + terms) if (terms or len(head) > 1) else info.gname
        if info.has_ok:
            okh = ['ok_' + info.gname[2:]] + [a for a, _ in info.abstracts]
            checks.append('(%s)' % ' '.join(okh + terms) if (terms or len(okh) > 1) else okh[0])
        nret = len(self.prog.leaves_of(info.ret))
        nout = sum(len(self.place_leaves(pl)) for pl in outs)
        if nret + nout == 1 and not outs:
            return Val(info.ret, [term], checks)
        if nret + nout == 0:
            self.fail('call of a function without any result', line)
        if not outs and not info.tuple_result:
            # a struct-valued call: project the components (fst/snd chains are avoided: bind it instead)
            return Val(info.ret, [], checks, call=(term, nret, []))
        return Val(info.ret, [], checks, call=(term, nret, outs))

    def tr_call(self, e, env, expect):
        callee, args, line = e[1], e[2], e[3]
        if callee[0] != 'path':
            self.fail('call of a computed function value', line)
        segs = callee[1]
        if segs == ['Default', 'default']:
            if args:
                self.fail('Default::default with arguments', line)
            if expect is None:
                self.fail('Default::default() where the translator does not know the expected type (add a type annotation)', line)
            return self.default_value(expect, line)
        if len(segs) == 1:
            if segs[0] in env.vars:
                self.fail('call of a local variable', line)
            hit = self.prog.find(segs[0], ('fn',), line, self.fname)
            selfty = None
        elif len(segs) == 2:
            t0, _ = self.prog.resolve_type(('name', segs[0], [segs[0]]), self.self_type, line, self.fname)
            if not (isinstance(t0, tuple) and t0[0] in ('struct', 'enum')):
                self.fail('associated function of type %s' % tyname(t0), line)
            hit = self.prog.find(t0[1] + '::' + segs[1], ('fn',), line, self.fname, optional=True)
            if hit is None:
                hit = self.prog.find_trait_fn(t0[1], segs[1], line, self.fname)
            selfty = t0
        else:
            self.fail('call path %s' % '::'.join(segs), line)
        if len(segs) == 1 and segs[0] in self.prog.abstract_names:
            info = abstract_fn(self.prog, hit[0], hit[1])
        else:
            sig = Parser(hit[0], hit[1].start, hit[1].end).parse_fn(sig_only=True)
            targs = None
            if len(sig) > 6:
                # generic function: each type parameter is inferred from the first argument whose parameter type is `T`,
                # `&T` or `&mut T`; the ordinary argument type check below validates the rest
                if len(args) != len(sig[2]):
                    self.fail('call of %s with %d arguments, %d expected' % (segs[-1], len(args), len(sig[2])), line)
                found = {}
                for (pn, pmut, ptast, pline), a in zip(sig[2], args):
                    core = ptast[2] if ptast[0] == 'ref' else ptast
                    if core[0] == 'name' and core[2] == [core[1]] and core[1] in sig[6] and core[1] not in found:
                        aval = a[2] if (a[0] == 'un' and a[1] in ('&mut', '&')) else a
                        av = self.default_lit(self.tr_scalar(aval, env, None), line)
                        found[core[1]] = av.ty
                if set(found) != set(sig[6]):
                    self.fail('cannot infer the type arguments of generic function %s' % segs[-1], line)
                targs = tuple((g, found[g]) for g in sig[6])
            info = translate_fn(self.prog, hit[0], hit[1], selfty, targs)
        if len(args) != len(info.params):
            self.fail('call of %s with %d arguments, %d expected' % (info.rust, len(args), len(info.params)), line)
        argvals = []
        for (pn, pty, rk), a in zip(info.params, args):
            pl = None
            if rk == 'mut':
                pl = self.place(a, env)
                if pl is None:
                    self.fail('argument for &mut parameter `%s` is not a local variable (or part of one)' % pn, line)
                if not (pl[0].mut or pl[0].is_out):
                    self.fail('&mut borrow of immutable variable `%s`' % pl[0].name, line)
                # a callee may write without reading; the translation passes the current value, so it must exist
            aval = a[2] if (a[0] == 'un' and a[1] == '&mut') else a
            v = self.tr_scalar(aval, env, pty)
            v = self.default_lit(v, line)
            if v.ty != pty:
                self.fail('argument `%s` of %s has type %s, expected %s' % (pn, info.rust, tyname(v.ty), tyname(pty)), line)
            argvals.append((v, pl))
        return self.call_info(info, argvals, line)

    # ---------------- statements (continuation-passing; k(env, Val or None) -> IR)
    def contains_return(self, node, inloop=False):
        """does the node contain a statement that leaves the normal continuation: return, or break/continue of the
        enclosing loop (not those of loops nested inside the node)"""
        if isinstance(node, tuple):
            if node and node[0] == 'return':
                return True
            if node and node[0] in ('break', 'continue') and len(node) == 2 and not inloop:
                return True
            if node and node[0] in ('loop', 'while') and isinstance(node[-1], int):
                return any(self.contains_return(x, True) for x in node)
            return any(self.contains_return(x, inloop) for x in node)
        if isinstance(node, list):
            return any(self.contains_return(x, inloop) for x in node)
        return False

    def always_returns_block(self, b):
        for st in b[1]:
            if self.always_returns_stmt(st):
                return True
        t = b[2]
        if t is not None and t[0] == 'if' and t[3] is not None:
            return self.always_returns_block(t[2]) and self.always_returns_block(t[3])
        return False

    def always_returns_stmt(self, st):
        if st[0] in ('return', 'break', 'continue'):
            return True
        if st[0] == 'expr':
            e = st[1]
            if e[0] == 'if' and e[3] is not None:
                return self.always_returns_block(e[2]) and self.always_returns_block(e[3])
            if e[0] == 'block':
                return self.always_returns_block(e)
        return False

    def assigned_vars(self, node, acc):
        """(var name, leaf index) pairs of enclosing-scope storage assigned inside node (syntactic; names declared inside are
        filtered by the caller through the environment)"""
        if isinstance(node, tuple):
            if node and node[0] == 'assign':
                acc.append(node[1])
            if node and node[0] == 'call':
                for a in node[2]:
                    if a[0] == 'un' and a[1] == '&mut':
                        acc.append(a[2])
                    elif a[0] == 'path':
                        acc.append(('maybe_out', a))
            for x in node:
                self.assigned_vars(x, acc)
        elif isinstance(node, list):
            for x in node:
                self.assigned_vars(x, acc)

    def modified_leaves(self, nodes, env):
        acc = []
        self.assigned_vars(nodes, acc)
        res = []
        def add(pl):
            for i in self.place_leaves(pl):
                key = (pl[0].name, i)
                if key not in res:
                    res.append(key)
        for lhs in acc:
            if lhs[0] == 'maybe_out':
                pl = self.place(lhs[1], env)
                if pl is not None and pl[0].is_out:
                    add(pl)
                continue
            targets = lhs[1] if lhs[0] == 'tuple' else [lhs]
            for t in targets:
                pl = self.place(t, env)
                if pl is not None:
                    add(pl)
        return res

    def rename_pattern(self, pat, old, new):
        if pat[0] == 'pvar':
            return ('pvar', new, pat[2], pat[3]) if pat[1] == old else pat
        return (pat[0], [self.rename_pattern(p, old, new) for p in pat[1]]) + tuple(pat[2:])

    def rebinds(self, node, name):
        """does the AST contain a `let` that binds `name` (a second shadowing inside the renamed region)?"""
        if isinstance(node, tuple):
            if node and node[0] == 'let' and len(node) == 5 and name in self.pattern_names(node[1]):
                return True
            return any(self.rebinds(x, name) for x in node)
        if isinstance(node, list):
            return any(self.rebinds(x, name) for x in node)
        return False

    def check_no_shadow(self, block, env, depth_line):
        """a `let n` in a nested block that shadows a variable of an enclosing scope: the inner variable is renamed
        (n_s<line>) in the rest of that block, so that the outer one is visible again after the block. Returns the block."""
        stmts, tail = list(block[1]), block[2]
        for i, st in enumerate(stmts):
            if st[0] != 'let':
                continue
            for n in self.pattern_names(st[1]):
                if n in env.vars:
                    fresh = '%s_s%d' % (n, st[4])
                    if fresh in env.vars:
                        self.fail('`let %s` shadows a variable of an enclosing scope twice on one line' % n, st[4])
                    restl = stmts[i + 1:]
                    if self.rebinds(restl, n) or self.rebinds(tail, n):
                        self.fail('`let %s` in a nested block shadows a variable of an enclosing scope and is shadowed again' % n, st[4])
                    ren = ('path', [fresh], st[4])
                    stmts[i] = ('let', self.rename_pattern(st[1], n, fresh), st[2], st[3], st[4])
                    st = stmts[i]
                    stmts[i + 1:] = [self.subst_var(x, n, ren) for x in restl]
                    tail = self.subst_var(tail, n, ren) if tail is not None else None
        return ('block', stmts, tail, block[3])

    def pattern_names(self, pat):
        if pat[0] == 'pvar':
            return [pat[1]]
        res = []
        for p in pat[1]:
            res += self.pattern_names(p)
        return res

    def tr_block(self, block, env, k, nested=True):
        """statements of a block, then k(env, tail Val or None). Variables declared inside stay in env (harmless: Rust
        rejects later uses); shadowing of outer names inside nested blocks is refused."""
        if nested:
            block = self.check_no_shadow(block, env, block[3])
        return self.tr_stmts(block[1], 0, block[2], env, k)

    def call_is_multi(self, node):
        """is the node a call of a (plain, resolvable) function with `&mut` parameters or a struct / tuple result? Decided from
        the signature only (nothing is translated)."""
        while node[0] == 'paren':
            node = node[1]
        if node[0] == 'block' and not node[1] and node[2] is not None:
            return self.call_is_multi(node[2])
        if node[0] != 'call' or node[1][0] != 'path' or len(node[1][1]) != 1:
            return False
        name = node[1][1][0]
        if name in self.prog.abstract_names:
            return True
        hit = None
        for sf in self.prog.files:
            for it in sf.active(name):
                if it.kind == 'fn':
                    hit = (sf, it)
        if hit is None:
            if not self.prog.load_file_defining(name):
                return False
            return self.call_is_multi(node)
        f = Parser(hit[0], hit[1].start, hit[1].end).parse_fn(sig_only=True)
        for pn, mut, ty, pl in f[2]:
            if ty[0] == 'ref' and ty[1]:
                return True
        if f[3] is None:
            return False
        rt, _ = self.prog.resolve_type(f[3], None, f[5], hit[0].path)
        return isinstance(rt, tuple) and rt[0] in ('struct', 'tuple') and len(self.prog.leaves_of(rt)) > 1

    def has_multi_call_leaf(self, node):
        """an if / match / block structure one of whose branch values is such a call"""
        if node is None:
            return False
        if node[0] == 'paren':
            return self.has_multi_call_leaf(node[1])
        if node[0] == 'block':
            return self.has_multi_call_leaf(node[2])
        if node[0] == 'if':
            return self.has_multi_call_leaf(node[2]) or self.has_multi_call_leaf(node[3])
        if node[0] == 'match':
            return any(self.has_multi_call_leaf(a[2]) for a in node[2])
        return self.call_is_multi(node)

    def if_value_needs_split(self, node, multi):
        """an `if` used as the value of a let / assignment cannot be translated as an expression when a branch contains
        statements, or (multi: the target has several leaves) when a branch value is a call"""
        if node[0] == 'paren':
            return self.if_value_needs_split(node[1], multi)
        if node[0] == 'block':
            if node[1]:
                return True
            return node[2] is not None and self.if_value_needs_split(node[2], multi)
        if node[0] == 'if':
            return any(self.if_value_needs_split(b, multi) for b in (node[2], node[3]) if b is not None)
        if node[0] == 'match':
            return any(self.if_value_needs_split(a[2], multi) for a in node[2])
        return multi          # a value with several leaves cannot be selected by an `if` expression: always split

    def push_assign(self, node, lhs, line):
        """`lhs = <node>` with the assignment moved to the leaves of the if / block / match structure of node"""
        if node[0] == 'paren':
            return self.push_assign(node[1], lhs, line)
        if node[0] == 'block':
            if node[2] is None:
                self.fail('branch without a value in an `if` used as a value', node[3])
            inner = self.push_assign(node[2], lhs, line)
            if inner[0] == 'block' and not node[1]:
                return inner
            if inner[0] == 'block':
                return ('block', list(node[1]) + list(inner[1]), inner[2], node[3])
            return ('block', list(node[1]) + [('expr', inner, line)], None, node[3])
        if node[0] == 'if':
            if node[3] is None:
                self.fail('`if` without `else` used as a value', node[4])
            def as_block(b):
                r = self.push_assign(b, lhs, line)
                return r if r[0] == 'block' else ('block', [('expr', r, line)], None, line)
            return ('if', node[1], as_block(node[2]), as_block(node[3]), node[4])
        if node[0] == 'match':
            arms = []
            for pat, guard, body, aline in node[2]:
                r = self.push_assign(body, lhs, line)
                arms.append((pat, guard, r if r[0] == 'block' else ('block', [('expr', r, aline)], None, aline), aline))
            return ('match', node[1], arms, node[3])
        return ('block', [('assign', lhs, '=', node, line)], None, line)

    def tr_stmts(self, stmts, i, tail, env, k):
        if i == len(stmts):
            if tail is None:
                return k(env, None)
            if tail[0] == 'match' and (any(a[2][0] == 'block' and a[2][1] for a in tail[2]) or self.if_value_needs_split(tail, False)
                                      or self.has_multi_call_leaf(tail)):
                tail = self.desugar_match(tail)
            if tail[0] == 'if' and self.is_stmt_if(tail):
                return self.tr_if_stmt(tail, env, lambda env2: k(env2, None))
            if tail[0] == 'if' and (tail[2][1] or (tail[3] is not None and tail[3][1]) or self.contains_return(tail)
                                   or self.if_value_needs_split(tail, False) or self.has_multi_call_leaf(tail)):
                # value-producing if whose branches contain statements: translate the branches as blocks
                return self.tr_if_value_cps(tail, env, k)
            if tail[0] == 'block':
                return self.tr_block(tail, env, k)
            v = self.tr(tail, env, self.tail_expect)
            return k(env, v)
        st = stmts[i]
        rest = lambda env2: self.tr_stmts(stmts, i + 1, tail, env2, k)
        kind = st[0]
        if kind == 'empty':
            return rest(env)
        if kind == 'let' and st[3] is not None and st[3][0] in ('if', 'match') and st[1][0] == 'pvar' and st[2] is not None:
            lty, _rk = self.prog.resolve_type(st[2], self.self_type, st[4], self.fname)
            if self.if_value_needs_split(st[3], len(self.prog.leaves_of(lty)) > 1 if isinstance(lty, tuple) else False):
                # let x: T = if c {A; a} else {B; b};   ==>   let x: T; if c {A; x = a;} else {B; x = b;}
                decl = ('let', st[1], st[2], None, st[4])
                body = self.push_assign(st[3], ('path', [st[1][1]], st[4]), st[4])
                return self.tr_stmts([decl, ('expr', body, st[4])] + list(stmts[i + 1:]), 0, tail, env, k)
        if kind == 'assign' and st[2] == '=' and st[3][0] in ('if', 'match'):
            pl = self.place(st[1], env) if st[1][0] != 'tuple' else None
            multi = pl is not None and isinstance(pl[2], tuple) and len(self.prog.leaves_of(pl[2])) > 1
            if self.if_value_needs_split(st[3], multi):
                body = self.push_assign(st[3], st[1], st[4])
                return self.tr_stmts([('expr', body, st[4])] + list(stmts[i + 1:]), 0, tail, env, k)
        if kind == 'let':
            return self.tr_let(st, env, rest)
        if kind == 'assign':
            return self.tr_assign(st, env, rest)
        if kind == 'return':
            if i + 1 != len(stmts) or tail is not None:
                self.fail('unreachable code after `return`', st[2])
            return self.tr_return(st[1], env, st[2])
        if kind in ('loop', 'while'):
            return self.tr_loop(st, env, rest)
        if kind in ('break', 'continue'):
            if self.loop_ctx is None:
                self.fail('`%s` outside a loop' % kind, st[1])
            if i + 1 != len(stmts) or tail is not None:
                self.fail('unreachable code after `%s`' % kind, st[1])
            return self.loop_ctx[0 if kind == 'break' else 1](env)
        if kind == 'expr':
            e = st[1]
            if e[0] == 'match':
                e = self.desugar_match(e)
                st = ('expr', e, st[2])
            if e[0] == 'if':
                if self.always_returns_stmt(st) and (i + 1 != len(stmts) or tail is not None):
                    self.fail('unreachable code after an `if` whose branches all return', st[2])
                return self.tr_if_stmt(e, env, rest)
            if e[0] == 'block':
                return self.tr_block(e, env, lambda env2, v: rest(env2))
            if e[0] == 'call':
                v = self.tr(e, env, None)
                if v.call is not None and v.call[2]:
                    return self.bind_call(v, [], env, rest, st[2])
                self.fail('call statement without &mut outputs (no effect in the pure translation)', st[2])
            self.fail('expression statement without effect', st[2])
        self.fail('statement form %s' % kind, None)

    def idents_in(self, node, acc):
        if isinstance(node, tuple):
            if node and node[0] == 'path' and len(node) == 3 and isinstance(node[1], list) and len(node[1]) == 1:
                acc.add(node[1][0])
            for x in node:
                self.idents_in(x, acc)
        elif isinstance(node, list):
            for x in node:
                self.idents_in(x, acc)

    def tr_loop(self, st, env, rest):
        """`while c { B }` / `loop { B }` (with break / continue) -> a Fixpoint on explicit fuel over the tuple of scalar
        storage leaves the body modifies. Value function: at fuel 0 it returns the current state (meaningless); the ok_
        twin returns false at fuel 0, so `ok_f .. = true` says the stated fuel suffices (never out of fuel)."""
        kind = st[0]
        line = st[-1]
        cond = st[1] if kind == 'while' else None
        body = st[2] if kind == 'while' else st[1]
        if self.loop_ctx is not None:
            self.fail('nested loops', line)
        if self.info is None:
            self.fail('loop in a constant initialiser', line)
        if line not in self.loop_ids:               # blocks may be translated more than once (dry runs): number loops by position
            self.loop_ids[line] = len(self.loop_ids) + 1
        n = self.loop_ids[line]
        fname = self.info.rust.replace('::', '_')
        fuel = self.prog.fuel.get((self.info.rust, n))
        if fuel is None:
            self.fail('no fuel bound is given for loop #%d of fn %s (rs2v.FUEL / --fuel %s:%d=N)' % (n, self.info.rust, self.info.rust, n), line)
        body = self.check_no_shadow(body, env, line)
        mod = self.modified_leaves([body], env)
        state = [(vn, i) for (vn, i) in mod if env.vars[vn].init[i]]
        for (vn, i) in mod:
            t = env.vars[vn].leaves[i][1]
            if not (is_int(t) or t == 'bool' or (isinstance(t, tuple) and t[0] == 'enum')):
                self.fail('loop state component %s of type %s is not a scalar' % (gname(vn, env.vars[vn].leaves[i][0]), tyname(t)), line)
        if not state:
            self.fail('loop that modifies no initialised variable', line)
        used = set()
        self.idents_in(body, used)
        if cond is not None:
            self.idents_in(cond, used)
        captured = []
        for vn in env.order:
            var = env.vars[vn]
            if vn in used:
                for i, (p, t) in enumerate(var.leaves):
                    if var.init[i] and (vn, i) not in state:
                        captured.append((vn, i))
        def gn(vn, i):
            return gname(vn, env.vars[vn].leaves[i][0])
        def gt(vn, i):
            return 'bool' if env.vars[vn].leaves[i][1] == 'bool' else 'Z'
        # canonical order (by generated name) of the state tuple and of the captured variables: reordering statements or
        # declarations in the source does not change the signature of the generated Fixpoint
        state.sort(key=lambda x: gn(*x))
        captured.sort(key=lambda x: gn(*x))
        snames = [gn(vn, i) for vn, i in state]
        stuple = snames[0] if len(snames) == 1 else '(' + ', '.join(snames) + ')'
        stype = ' * '.join(gt(vn, i) for vn, i in state)
        params = ' '.join('(%s : %s)' % (gn(vn, i), gt(vn, i)) for vn, i in captured + state)
        cargs = ' '.join(gn(vn, i) for vn, i in captured)
        lname = ('loop_%s_%d' if self.mode == 'val' else 'okloop_%s_%d') % (fname, n)
        vname = 'loop_%s_%d' % (fname, n)
        # body environment: leaves assigned in the body but not initialised before are fresh in every iteration
        envb = env.copy()
        def rec_leaf(env2):
            for vn, i in state:
                if not env2.vars[vn].init[i]:
                    self.fail('internal: loop state lost', line)
            return ('leaf', '(%s fuel\'%s %s)' % (lname, (' ' + cargs) if cargs else '', ' '.join(snames)))
        def brk_leaf(env2):
            if self.mode == 'ok':
                return ('leaf', 'true')
            return ('leaf', stuple)
        saved_fail = self.fail_leaf
        self.fail_leaf = ('leaf', 'false')
        self.loop_ctx = (brk_leaf, rec_leaf)
        kbody = lambda env2, v: rec_leaf(env2)
        if kind == 'while':
            c = self.tr_scalar(cond, envb, 'bool')
            if c.ty != 'bool':
                self.fail('loop condition of type %s' % tyname(c.ty), line)
            inner = self.tr_block(body, envb, kbody)
            ir = self.guard(c.checks, ('if', c.leaves[0], inner, brk_leaf(envb)))
        else:
            ir = self.tr_block(body, envb, kbody)
        self.loop_ctx = None
        self.fail_leaf = saved_fail
        zero = 'false' if self.mode == 'ok' else stuple
        rty = 'bool' if self.mode == 'ok' else stype
        text = ('Fixpoint %s (fuel : nat) %s {struct fuel} : %s :=\n  match fuel with\n  | O => %s\n  | S fuel\' =>\n%s\n  end.\n'
                % (lname, params, rty, zero, pp(ir, 3)))
        first = lname not in self.aux_names
        if first:
            self.aux_names.add(lname)
            self.aux_defs.append(text)
        if self.mode == 'val' and first:
            self.prog.header.append('loop #%d of fn %s (line %d): Fixpoint %s, fuel %d' % (n, self.info.rust, line, lname, fuel))
        # after the loop
        for (vn, i) in mod:
            if (vn, i) not in state:
                env.vars[vn].init[i] = False
        call = '(%s %d%%nat%s %s)' % (vname, fuel, (' ' + cargs) if cargs else '', ' '.join(snames))
        pat = snames[0] if len(snames) == 1 else "'(" + ', '.join(snames) + ')'
        if self.mode == 'val':
            return ('let', pat, ('leaf', call), rest(env))
        self.nchecks += 1
        okcall = '(%s %d%%nat%s %s)' % (lname, fuel, (' ' + cargs) if cargs else '', ' '.join(snames))
        return ('if', okcall, ('let', pat, ('leaf', call), rest(env)), self.fail_leaf)

    def find_out_call(self, e):
        """a call with &mut arguments in an `if` condition of the shapes  f(..)  |  f(..) op e  |  e op f(..)"""
        while e[0] == 'paren':
            e = e[1]
        def has_mut(c):
            return c[0] == 'call' and any(a[0] == 'un' and a[1] == '&mut' for a in c[2])
        if has_mut(e):
            return e
        if e[0] == 'bin':
            l, r = e[2], e[3]
            while l[0] == 'paren':
                l = l[1]
            while r[0] == 'paren':
                r = r[1]
            if has_mut(l) and not self.contains_call(r):
                return l
            if has_mut(r) and not self.contains_call(l):
                return r
        return None

    def contains_call(self, node):
        if isinstance(node, tuple):
            if node and node[0] == 'call':
                return True
            return any(self.contains_call(x) for x in node)
        if isinstance(node, list):
            return any(self.contains_call(x) for x in node)
        return False

    def replace_node(self, e, old, new):
        if e is old:
            return new
        if isinstance(e, tuple):
            return tuple(self.replace_node(x, old, new) for x in e)
        if isinstance(e, list):
            return [self.replace_node(x, old, new) for x in e]
        return e

    def is_stmt_if(self, e):
        """an `if` in tail position that produces no value (unit)"""
        if e[3] is None:
            return True
        def unit_block(b):
            t = b[2]
            if t is None:
                return True
            if t[0] == 'if':
                return self.is_stmt_if(t)
            return False
        return unit_block(e[2]) and unit_block(e[3])

    # -- return
    def ret_leaf(self, env, v, line):
        outs = []
        for name in env.order:
            var = env.vars[name]
            if var.is_out:
                for i, (p, t) in enumerate(var.leaves):
                    if not var.init[i]:
                        self.fail('internal: out parameter uninitialised', line)
                    outs.append(gname(var.name, p))
        leaves = (v.leaves if v is not None else []) + outs
        if self.mode == 'ok':
            return self.guard(v.checks if v is not None else [], ('leaf', 'true'))
        if not leaves:
            self.fail('function returns nothing', line)
        return ('leaf', leaves[0] if len(leaves) == 1 else '(' + ', '.join(leaves) + ')')

    def finish_value(self, env, v, line):
        """v: Val of the returned expression (None for unit)"""
        rt = self.ret_ty
        if v is None:
            if rt != 'unit':
                self.fail('missing return value', line)
            return self.ret_leaf(env, None, line)
        if v.ty == 'lit':
            v = self.coerce_lit(v, rt, line)
        if v.ty != rt:
            self.fail('returned value has type %s, the function returns %s' % (tyname(v.ty), tyname(rt)), line)
        if v.call is not None:
            term, nret, outs = v.call
            names = ['r%d_' % j for j in range(nret)]
            env2 = env.copy()
            tnames = list(names)
            for pl in outs:
                for i2 in self.place_leaves(pl):
                    tnames.append(gname(pl[0].name, pl[0].leaves[i2][0]))
                    env2.vars[pl[0].name].init[i2] = True
            body = self.ret_leaf(env2, Val(rt, names), line)
            return self.guard(v.checks, ('let', "'(" + ', '.join(tnames) + ')' if len(tnames) > 1 else tnames[0], ('leaf', term), body))
        return self.ret_leaf(env, v, line)

    def tr_return(self, e, env, line):
        if self.loop_ctx is not None:
            self.fail('`return` inside a loop body', line)
        if e is None:
            return self.finish_value(env, None, line)
        while e[0] == 'paren':
            e = e[1]
        if e[0] == 'if' and e[3] is not None:
            return self.tr_if_value_cps(e, env, lambda env2, v: self.finish_value(env2, v, line))
        v = self.tr(e, env, self.ret_ty)
        return self.finish_value(env, v, line)

    def tr_if_value_cps(self, e, env, k):
        cond, then, els, line = e[1], e[2], e[3], e[4]
        if els is None:
            self.fail('`if` without else as a value', line)
        c = self.tr_scalar(cond, env, 'bool')
        if c.ty != 'bool':
            self.fail('condition of type %s' % tyname(c.ty), line)
        a = self.tr_block(then, env.copy(), k)
        b = self.tr_block(els, env.copy(), k)
        return self.guard(c.checks, ('if', c.leaves[0], a, b))

    # -- let
    def bind_targets(self, targets, v, env, rest, line):
        """targets: list of (Var, leaf index); bind them to the leaves of v (or to the results of a multi-result call)"""
        names = [gname(var.name, var.leaves[i][0]) for var, i in targets]
        if v.call is not None:
            return self.bind_call(v, targets, env, rest, line)
        if len(names) != len(v.leaves):
            self.fail('internal: %d targets for %d components' % (len(names), len(v.leaves)), line)
        for var, i in targets:
            env.vars[var.name].init[i] = True
        return self.mk_let(names, v.leaves, v.checks, rest(env))

    def bind_call(self, v, targets, env, rest, line):
        term, nret, outs = v.call
        names = [gname(var.name, var.leaves[i][0]) for var, i in targets]
        if len(names) != nret:
            self.fail('internal: call yields %d result components, %d targets' % (nret, len(names)), line)
        for var, i in targets:
            env.vars[var.name].init[i] = True
        for pl in outs:
            for i2 in self.place_leaves(pl):
                names.append(gname(pl[0].name, pl[0].leaves[i2][0]))
                env.vars[pl[0].name].init[i2] = True
        if len(set(names)) != len(names):
            self.fail('the same storage receives two results of one call', line)
        pat = names[0] if len(names) == 1 else "'(" + ', '.join(names) + ')'
        return self.guard(v.checks, ('let', pat, ('leaf', term), rest(env)))

    def declare(self, env, name, ty, mut, init, line, is_out=False, toplevel=True):
        leaves = self.prog.leaves_of(ty)
        for p, t in leaves:
            g = gname(name, p)
            for other in env.vars.values():
                if other.name != name:
                    for p2, _ in other.leaves:
                        if gname(other.name, p2) == g:
                            self.fail('Gallina name `%s` of `%s` collides with a component of `%s`' % (g, name, other.name), line)
        v = Var(name, ty, mut, leaves, [init] * len(leaves), is_out)
        env.declare(v)
        return v

    def tr_let(self, st, env, rest):
        pat, tast, init, line = st[1], st[2], st[3], st[4]
        ty = None
        if tast is not None:
            ty, rk = self.prog.resolve_type(tast, self.self_type, line, self.fname)
            if rk == 'mut':
                self.fail('let with a &mut type annotation', line)
            # a shared reference `&T` held in a local is modelled by the value it points to: while the reference is alive
            # Rust forbids any mutation of the referent, so the value cannot change under it
        if init is None:
            if pat[0] != 'pvar' or ty is None:
                self.fail('declaration without initialiser needs a plain name and a type', line)
            self.declare(env, pat[1], ty, True, False, line)   # late initialisation (assign-once or mut)
            return rest(env)
        v = self.tr(init, env, ty)
        if v.ty == 'lit':
            v = self.coerce_lit(v, ty if ty is not None else 'i32', line)
        if ty is not None and v.ty != ty:
            self.fail('initialiser of type %s for a variable of type %s' % (tyname(v.ty), tyname(ty)), line)
        ty = v.ty
        targets = []
        def bind(p, t):
            if p[0] == 'pvar':
                var = self.declare(env, p[1], t, p[2], False, p[3])
                for i in range(len(var.leaves)):
                    targets.append((var, i))
            else:
                if not (isinstance(t, tuple) and t[0] == 'tuple' and len(t[1]) == len(p[1])):
                    self.fail('tuple pattern does not match type %s' % tyname(t), p[2])
                for sp, stt in zip(p[1], t[1]):
                    bind(sp, stt)
        bind(pat, ty)
        return self.bind_targets(targets, v, env, rest, line)

    # -- assignment
    def tr_assign(self, st, env, rest):
        lhs, op, rhs, line = st[1], st[2], st[3], st[4]
        while lhs[0] == 'paren':
            lhs = lhs[1]
        if lhs[0] == 'tuple':
            if op != '=':
                self.fail('compound assignment to a tuple', line)
            places = [self.place(x, env) for x in lhs[1]]
            if any(p is None for p in places):
                self.fail('destructuring assignment to something that is not a local variable', line)
            ty = ('tuple', tuple(p[2] for p in places))
            v = self.tr(rhs, env, ty)
            if v.ty != ty:
                self.fail('destructuring assignment: right side has type %s, left %s' % (tyname(v.ty), tyname(ty)), line)
            targets = []
            for p in places:
                self.check_assignable(p, line)
                targets += [(p[0], i) for i in self.place_leaves(p)]
            return self.bind_targets(targets, v, env, rest, line)
        pl = self.place(lhs, env)
        if pl is None:
            self.fail('assignment to something that is not a local variable, a component of one, or a &mut parameter', line)
        var, pre, ty = pl
        self.check_assignable(pl, line)
        if ty == 'f64':
            # recognised idiom:  u.d = <unsigned expr> as f64;   (u: the {ui64,d} union)
            r = rhs
            while r[0] == 'paren':
                r = r[1]
            if op != '=' or r[0] != 'cast' or self.prog.resolve_type(r[2], None, line, self.fname)[0] != 'f64':
                self.fail('assignment to the f64 view of a union that is not `u.d = <expr> as f64`', line)
            x = self.default_lit(self.tr_scalar(r[1], env, None), line)
            if x.ty not in ('u64', 'u32'):
                self.fail('`as f64` of a value of type %s (only u64/u32 are modelled)' % tyname(x.ty), line)
            chk = '(%s <? 0x20000000000000)' % x.leaves[0]      # exact conversion: value < 2^53
            v = Val('u64', ['(f64_bits_of_u64 %s)' % x.leaves[0]], x.checks + [chk])
            return self.bind_targets([(var, i) for i in self.place_leaves(pl)], v, env, rest, line)
        if op == '=':
            v = self.tr(rhs, env, ty)
            if v.ty == 'lit':
                v = self.coerce_lit(v, ty, line)
        else:
            cur = ('bin', op[:-1], lhs, rhs, line)
            v = self.tr(cur, env, ty)
        if v.ty != ty:
            self.fail('assignment of a value of type %s to storage of type %s' % (tyname(v.ty), tyname(ty)), line)
        targets = [(var, i) for i in self.place_leaves(pl)]
        return self.bind_targets(targets, v, env, rest, line)

    def check_assignable(self, pl, line):
        var = pl[0]
        if var.mut or var.is_out:
            return
        self.fail('assignment to immutable variable `%s`' % var.name, line)

    # -- if statement
    def tr_if_stmt(self, e, env, rest):
        cond, then, els, line = e[1], e[2], e[3], e[4]
        hc = self.find_out_call(cond)
        if hc is not None:
            # the call writes through &mut arguments: evaluate it first (Rust evaluates the condition before the branches),
            # bind its value to a fresh immutable variable and its outputs to their variables, then test
            v = self.tr(hc, env, None)
            if v.call is None:
                self.fail('internal: hoisted call without outputs', line)
            if line not in self.hoist_ids:
                self.hoist_ids[line] = len(self.hoist_ids) + 1
            hname = 'callres_%d' % self.hoist_ids[line]
            var = self.declare(env, hname, v.ty, False, False, line)
            targets = [(var, i) for i in range(len(var.leaves))]
            newcond = self.replace_node(cond, hc, ('path', [hname], line))
            return self.bind_targets(targets, v, env, lambda env2: self.tr_if_stmt(('if', newcond, then, els, line), env2, rest), line)
        c = self.tr_scalar(cond, env, 'bool')
        if c.ty != 'bool':
            self.fail('condition of type %s' % tyname(c.ty), line)
        if els is None:
            els = ('block', [], None, line)
        has_ret = self.contains_return(then) or self.contains_return(els)
        if has_ret:
            fa = not self.always_returns_block(then)
            fb = not self.always_returns_block(els)
            dead = lambda env2, v: self.fail('internal: fall-through of a block that always returns', line)
            kk = lambda env2, v: rest(env2)
            if fa and fb:
                return self.guard(c.checks, self.tr_if_join(c, then, els, env, rest, line))
            a = self.tr_block(then, env.copy(), kk if fa else dead)
            b = self.tr_block(els, env.copy(), kk if fb else dead)
            return self.guard(c.checks, ('if', c.leaves[0], a, b))
        # no return inside: merge the modified storage
        then = self.check_no_shadow(then, env, line)
        els = self.check_no_shadow(els, env, line)
        mod = self.modified_leaves([then, els], env)
        # definite initialisation after the if
        ea, eb = env.copy(), env.copy()
        results = {}
        def probe(block, envx):
            # dry run to learn the initialisation state after the branch
            saved = self.nchecks
            self.tr_block(block, envx, lambda env2, v: results.__setitem__(id(envx), env2) or ('leaf', '?'))
            self.nchecks = saved
            return results[id(envx)]
        enda = probe(then, ea)
        endb = probe(els, eb)
        merged = []
        for (vn, i) in mod:
            ia, ib = enda.vars[vn].init[i], endb.vars[vn].init[i]
            if ia and ib:
                merged.append((vn, i))
            else:
                env.vars[vn].init[i] = False     # assigned on one path only and not initialised before: unusable afterwards
        names = [gname(vn, env.vars[vn].leaves[i][0]) for vn, i in merged]
        types = [env.vars[vn].leaves[i][1] for vn, i in merged]
        if self.mode == 'val':
            if not merged:
                return rest(env)
            tup = names[0] if len(names) == 1 else '(' + ', '.join(names) + ')'
            leafk = lambda env2, v: ('leaf', tup)
            a = self.tr_block(then, env.copy(), leafk)
            b = self.tr_block(els, env.copy(), leafk)
            env3 = env
            for vn, i in merged:
                env3.vars[vn].init[i] = True
            pat = names[0] if len(names) == 1 else "'(" + ', '.join(names) + ')'
            return ('let', pat, ('if', c.leaves[0], a, b), rest(env3))
        # ok mode: thread an ok bit through the merge
        self.kcount += 1
        okn = 'okm_%d' % self.kcount
        dflt = ['false' if t == 'bool' else '0' for t in types]
        saved_fail = self.fail_leaf
        self.fail_leaf = ('leaf', '(' + ', '.join(['false'] + dflt) + ')' if names else 'false')
        oktup = '(' + ', '.join(['true'] + names) + ')' if names else 'true'
        leafk = lambda env2, v: ('leaf', oktup)
        a = self.tr_block(then, env.copy(), leafk)
        b = self.tr_block(els, env.copy(), leafk)
        self.fail_leaf = saved_fail
        for vn, i in merged:
            env.vars[vn].init[i] = True
        pat = "'(" + ', '.join([okn] + names) + ')' if names else okn
        return self.guard(c.checks, ('let', pat, ('if', c.leaves[0], a, b), ('if', okn, rest(env), self.fail_leaf)))

    def tr_if_join(self, c, then, els, env, rest, line):
        """both branches may fall through and at least one contains a return: bind the continuation as a local function
        of the storage the branches modify"""
        then = self.check_no_shadow(then, env, line)
        els = self.check_no_shadow(els, env, line)
        mod = self.modified_leaves([then, els], env)
        self.kcount += 1
        kn = 'k_%d' % self.kcount
        # storage that is initialised before the if, or by both branches on their fall-through paths, is passed along
        ends = []
        def probe(block):
            saved = self.nchecks
            got = []
            self.tr_block(block, env.copy(), lambda env2, v: got.append(env2) or ('leaf', '?'))
            self.nchecks = saved
            return got
        ga, gb = probe(then), probe(els)
        passed = []
        for (vn, i) in mod:
            if all(g.vars[vn].init[i] for g in ga + gb):
                passed.append((vn, i))
            else:
                env.vars[vn].init[i] = False
        names = [gname(vn, env.vars[vn].leaves[i][0]) for vn, i in passed]
        types = [env.vars[vn].leaves[i][1] for vn, i in passed]
        envk = env.copy()
        for vn, i in passed:
            envk.vars[vn].init[i] = True
        body = rest(envk)
        if names:
            params = ' '.join('(%s : %s)' % (n, 'bool' if t == 'bool' else 'Z') for n, t in zip(names, types))
            callk = '(%s %s)' % (kn, ' '.join(names))
        else:
            params = '(_ : unit)'
            callk = '(%s tt)' % kn
        kk = lambda env2, v: ('leaf', callk)
        a = self.tr_block(then, env.copy(), kk)
        b = self.tr_block(els, env.copy(), kk)
        return ('let', kn, ('fun', params, body), ('if', c.leaves[0], a, b))


# ---------------------------------------------------------------------------------------------------------
def pp(ir, ind):
    """pretty-printer of the IR: ('leaf', s) | ('let', pat, ir, body) | ('if', c, a, b) | ('fun', params, body)"""
    sp = '  ' * ind
    k = ir[0]
    if k == 'leaf':
        return sp + ir[1]
    if k == 'let':
        if ir[2][0] == 'leaf':
            return sp + 'let %s := %s in\n' % (ir[1], ir[2][1]) + pp(ir[3], ind)
        return sp + 'let %s :=\n' % ir[1] + pp(ir[2], ind + 2) + '\n' + sp + 'in\n' + pp(ir[3], ind)
    if k == 'if':
        return sp + 'if %s then (\n' % ir[1] + pp(ir[2], ind + 1) + '\n' + sp + ') else (\n' + pp(ir[3], ind + 1) + '\n' + sp + ')'
    if k == 'fun':
        return sp + 'fun %s =>\n' % ir[1] + pp(ir[2], ind + 1)
    raise RsError('internal: IR node %r' % (k,))


def abstract_fn(prog, sf, item):
    """a function that is NOT translated: calls to it become applications of a function parameter `a_<name>` of the
    calling definition; only the signature is read (flattened argument leaves -> flattened result leaves)"""
    key = (sf.path, item.name, 'abstract')
    if key in prog.fn_done:
        return prog.fn_done[key]
    f = Parser(sf, item.start, item.end).parse_fn(sig_only=True)
    info = FnInfo()
    info.rust = item.name
    info.abstract = True
    info.gname = 'a_' + item.name.replace('::', '_')
    argt, outt = [], []
    for pn, pmut, ptast, pline in f[2]:
        ty, rk = prog.resolve_type(ptast, None, pline, sf.path)
        info.params.append((pn, ty, rk))
        for p, t in prog.leaves_of(ty):
            argt.append('bool' if t == 'bool' else 'Z')
            if rk == 'mut':
                outt.append('bool' if t == 'bool' else 'Z')
    if f[3] is None:
        info.ret = 'unit'
    else:
        info.ret, rk = prog.resolve_type(f[3], None, f[5], sf.path)
        if rk is not None:
            fail('abstract function returning a reference', f[5], sf.path)
    info.tuple_result = isinstance(info.ret, tuple) and info.ret[0] == 'tuple'
    rett = ['bool' if t == 'bool' else 'Z' for p, t in prog.leaves_of(info.ret)] + outt
    if not rett:
        fail('abstract function %s has no result' % item.name, item.line, sf.path)
    info.abstracts = [(info.gname, ' -> '.join(argt + ['(' + ' * '.join(rett) + ')' if len(rett) > 1 else rett[0]]))]
    l0, l1 = sf.lines_of(item)
    prog.header.append('fn %s: NOT translated, modelled as the function parameter %s : %s (signature at %s:%d)' %
                       (item.name, info.gname, info.abstracts[0][1], sf.path, l0))
    prog.fn_done[key] = info
    return info


def translate_fn(prog, sf, item, self_type, targs=None):
    """translate one function (and, first, everything it calls); returns its FnInfo. targs: the type arguments of a generic
    function, as a tuple of (parameter name, type) - one translation (and one Gallina name) per instantiation"""
    key = (sf.path, item.name) if not targs else (sf.path, item.name, targs)
    if key in prog.fn_done:
        return prog.fn_done[key]
    if key in prog.fn_stack:
        fail('recursive function %s' % item.name, item.line, sf.path)
    prog.fn_stack.append(key)
    f = Parser(sf, item.start, item.end).parse_fn()
    if len(f) > 6 and not targs:
        fail('generic function %s without inferred type arguments' % item.name, item.line, sf.path)
    saved_types = {}
    for gn, gty in (targs or ()):
        saved_types[gn] = prog.type_cache.get(gn)
        prog.type_cache[gn] = gty
    info = FnInfo()
    info.rust = item.name
    info.gname = 'i_' + item.name.replace('::', '_') + ''.join('_' + re.sub(r'\W', '_', tyname(t)) for _, t in (targs or ()))
    if info.gname in prog.used_gnames:
        fail('two translated functions map to the Gallina name %s' % info.gname, item.line, sf.path)
    texts = {}
    for mode in ('val', 'ok'):
        tr = FnTr(prog, sf, f, self_type, mode, info)
        env = Env()
        params = []
        gparams = []
        for pn, pmut, ptast, pline in f[2]:
            ty, rk = prog.resolve_type(ptast, self_type, pline, sf.path)
            if ty in ('f64', 'unit'):
                tr.fail('parameter of type %s' % tyname(ty), pline)
            var = tr.declare(env, pn, ty, pmut, True, pline, is_out=(rk == 'mut'))
            params.append((pn, ty, rk))
            for p, t in var.leaves:
                gparams.append('(%s : %s)' % (gname(pn, p), 'bool' if t == 'bool' else 'Z'))
        info.params = params
        if f[3] is None:
            info.ret = 'unit'
        else:
            info.ret, rk = prog.resolve_type(f[3], self_type, f[5], sf.path)
            if rk is not None:
                tr.fail('function returning a reference', f[5])
        info.tuple_result = isinstance(info.ret, tuple) and info.ret[0] == 'tuple'
        tr.ret_ty = info.ret
        tr.tail_expect = info.ret
        body = f[4]
        line = f[5]
        ir = tr.tr_block(body, env, lambda env2, v: tr.finish_value(env2, v, line), nested=False)
        head = ' '.join(['(%s : %s)' % ab for ab in info.abstracts] + gparams)
        aux = ''.join(a + '\n' for a in tr.aux_defs)
        if mode == 'val':
            texts['val'] = aux + 'Definition %s %s :=\n%s.\n' % (info.gname, head, pp(ir, 1))
        else:
            if tr.nchecks > 0:
                info.has_ok = True
                texts['ok'] = aux + 'Definition ok_%s %s : bool :=\n%s.\n' % (info.gname[2:], head, pp(ir, 1))
    l0, l1 = sf.lines_of(item)
    h = hashlib.sha256(sf.text_of(item).encode()).hexdigest()[:16]
    prog.header.append('fn %s -> %s%s: %s lines %d-%d sha256:%s' % (item.name, info.gname, ' (+ ok_%s)' % info.gname[2:] if info.has_ok else '', sf.path, l0, l1, h))
    rets = [tyname(info.ret)] + ['%s (out)' % pn for pn, ty, rk in info.params if rk == 'mut']
    cm = '(* %s  [%s:%d-%d]  result: %s *)\n' % (item.name, sf.path, l0, l1, ', '.join(rets))
    prog.out_defs.append(cm + texts['val'] + (('\n' + texts['ok']) if 'ok' in texts else ''))
    prog.used_gnames.add(info.gname)
    prog.fn_stack.pop()
    prog.fn_done[key] = info
    for gn, old_ty in saved_types.items():
        if old_ty is None:
            prog.type_cache.pop(gn, None)
        else:
            prog.type_cache[gn] = old_ty
    return info
