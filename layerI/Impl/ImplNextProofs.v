(* Layer I, group N: bid128_nextup / bid128_nextdown / bid128_nextafter / bid128_nexttoward equal the reference model
   (OpsMisc.v: m_next_up, m_next_down, m_next_after) for ALL inputs. One block per routine (layerI.py compiles each block
   as a file of its own under the header of ImplProofs.v). Shared lemmas and the tactics of the walk: ImplNext.v.
   Axiom-free. *)
From Coq Require Import ZArith Lia Bool List ZifyBool.
From DV Require Import Base Bid BidProofs OpsArith OpsCmp OpsMisc OpsConv.
From DVI Require Import ImplLib ImplGen ImplCommon.
Import ListNotations.
Open Scope Z_scope.
Ltac unfold_helpers := unfold i_d128_Default_default, i_d128_new.
(* HEADER END *)

(* BEGIN bid128_nextup *)
From DVI Require Import ImplTables ImplNext.
(* bid128_nextup completely: for every 128-bit operand pattern (NaN with payload canonicalisation, infinities, zeros and
   non-canonical encodings, +MAXFP, -MINFP, and the general case: digit count through the f64 idiom + BID_NR_DIGITS,
   zero padding of the coefficient to 34 digits or down to the least exponent by a BID_TEN2K64 / BID_TEN2K128 multiply,
   +-1 with the decade adjustments) and every incoming status word, the generated code never fails (ok_: every
   BID_NR_DIGITS / BID_TEN2K64 / BID_TEN2K128 index in range, every `as f64` argument below 2^53) and returns the model's
   single outcome: result words = the pattern of m_next_up, status word = incoming word | the flags of that outcome
   (invalid for a signaling NaN, nothing otherwise). *)
Theorem V_bid128_nextup x0 x1 st : in_u64 x0 -> in_u64 x1 -> in_u32 st ->
  next_up_spec x0 x1 st (i_bid128_nextup x0 x1 st).
Proof.
  intros H0 H1 Hst. unfold i_bid128_nextup. unfold_helpers. red_lets.
  pose proof H0 as H0'. pose proof H1 as H1'. unfold in_u64 in H0', H1'.
  word_norm lia. mask_tests. pose proof (g5W_range x1) as R.
  step_if B.
  { (* NaN or infinity *)
    step_if A.
    - step_if EP; word_norm lia; step_if ES; nan_leaf nu_nan.
    - step_if SG; (apply nu_inf; [assumption|assumption|lia|]; unfold sgZ; rewrite SG; reflexivity). }
  step_if C24. { apply nu_zero; [assumption|assumption|lia|lia]. }
  step_if NC. { apply nu_zero; [assumption|assumption|lia|]. unfold hiW, T34. lia. }
  step_if Z0. { apply nu_zero; [assumption|assumption|lia|]. unfold hiW, T34. lia. }
  step_if MX. { literal_leaf next_up_spec. }
  step_if MN. { literal_leaf next_up_spec. }
  set (hi := x1 mod 562949953421312) in *.
  assert (Hhi : 0 <= hi < 562949953421312) by (apply Z.mod_pos_bound; reflexivity).
  set (C := hi * 18446744073709551616 + x0).
  assert (HC : 0 < C < 10000000000000000000000000000000000) by (unfold C; lia).
  word_norm lia.
  nbits_stage x0 hi C.
  digits_stage x0 hi C.
  set (be := (x1 / 562949953421312) mod 16384) in *.
  assert (Hbe : 0 <= be <= 12287) by (unfold be, g5W in *; lia).
  pose proof (nd_range C HC) as Hnd. pose proof (nd_bounds C (proj1 HC)) as Bnd.
  set (nd := ndigits C) in *.
  pad_stage x0 hi C nd be.
  final_stage nu_general2 x0 x1 st H0 H1 HC C be nd.
Qed.

Theorem OK_bid128_nextup x0 x1 st : in_u64 x0 -> in_u64 x1 -> in_u32 st -> ok_bid128_nextup x0 x1 st = true.
Proof.
  intros H0 H1 Hst. unfold ok_bid128_nextup. unfold_helpers. red_lets.
  pose proof H0 as H0'. pose proof H1 as H1'. unfold in_u64 in H0', H1'.
  word_norm lia. mask_tests. pose proof (g5W_range x1) as R.
  step_if B. { step_ifs; reflexivity. }
  step_if C24. { reflexivity. }
  step_if NC. { reflexivity. }
  step_if Z0. { reflexivity. }
  step_if MX. { reflexivity. }
  step_if MN. { reflexivity. }
  set (hi := x1 mod 562949953421312) in *.
  assert (Hhi : 0 <= hi < 562949953421312) by (apply Z.mod_pos_bound; reflexivity).
  set (C := hi * 18446744073709551616 + x0).
  assert (HC : 0 < C < 10000000000000000000000000000000000) by (unfold C; lia).
  word_norm lia.
  nbits_stage_ok x0 hi C.
  digits_stage_ok x0 hi C.
  set (be := (x1 / 562949953421312) mod 16384) in *.
  assert (Hbe : 0 <= be <= 12287) by (unfold be, g5W in *; lia).
  pose proof (nd_range C HC) as Hnd. pose proof (nd_bounds C (proj1 HC)) as Bnd.
  set (nd := ndigits C) in *.
  pad_stage_ok x0 hi C nd be.
  step_ifs; reflexivity.
Qed.

Theorem I_bid128_nextup x0 x1 st : in_u64 x0 -> in_u64 x1 -> in_u32 st ->
  ok_bid128_nextup x0 x1 st = true /\
  let '(r0, r1, st') := i_bid128_nextup x0 x1 st in
  in_u64 r0 /\ in_u64 r1 /\ exists fl, m_next_up (pat x0 x1) = [([pat r0 r1], fl)] /\ st' = Z.lor st fl.
Proof. intros H0 H1 Hst. split; [apply OK_bid128_nextup|apply (V_bid128_nextup x0 x1 st)]; assumption. Qed.
Print Assumptions I_bid128_nextup.
(* END bid128_nextup *)

(* BEGIN bid128_nextdown *)
From DVI Require Import ImplTables ImplNext.
(* bid128_nextdown completely (the same script as bid128_nextup with the leaf lemmas of next_down): for every 128-bit
   operand pattern (NaN with payload canonicalisation, infinities, zeros and
   non-canonical encodings, -MAXFP, +MINFP, and the general case: digit count through the f64 idiom + BID_NR_DIGITS,
   zero padding of the coefficient to 34 digits or down to the least exponent by a BID_TEN2K64 / BID_TEN2K128 multiply,
   +-1 with the decade adjustments) and every incoming status word, the generated code never fails (ok_: every
   BID_NR_DIGITS / BID_TEN2K64 / BID_TEN2K128 index in range, every `as f64` argument below 2^53) and returns the model's
   single outcome: result words = the pattern of m_next_down, status word = incoming word | the flags of that outcome
   (invalid for a signaling NaN, nothing otherwise). *)
Theorem V_bid128_nextdown x0 x1 st : in_u64 x0 -> in_u64 x1 -> in_u32 st ->
  next_down_spec x0 x1 st (i_bid128_nextdown x0 x1 st).
Proof.
  intros H0 H1 Hst. unfold i_bid128_nextdown. unfold_helpers. red_lets.
  pose proof H0 as H0'. pose proof H1 as H1'. unfold in_u64 in H0', H1'.
  word_norm lia. mask_tests. pose proof (g5W_range x1) as R.
  step_if B.
  { (* NaN or infinity *)
    step_if A.
    - step_if EP; word_norm lia; step_if ES; nan_leaf nd_nan.
    - step_if SG; (apply nd_inf; [assumption|assumption|lia|]; unfold sgZ; rewrite SG; reflexivity). }
  step_if C24. { apply nd_zero; [assumption|assumption|lia|lia]. }
  step_if NC. { apply nd_zero; [assumption|assumption|lia|]. unfold hiW, T34. lia. }
  step_if Z0. { apply nd_zero; [assumption|assumption|lia|]. unfold hiW, T34. lia. }
  step_if MX. { literal_leaf next_down_spec. }
  step_if MN. { literal_leaf next_down_spec. }
  set (hi := x1 mod 562949953421312) in *.
  assert (Hhi : 0 <= hi < 562949953421312) by (apply Z.mod_pos_bound; reflexivity).
  set (C := hi * 18446744073709551616 + x0).
  assert (HC : 0 < C < 10000000000000000000000000000000000) by (unfold C; lia).
  word_norm lia.
  nbits_stage x0 hi C.
  digits_stage x0 hi C.
  set (be := (x1 / 562949953421312) mod 16384) in *.
  assert (Hbe : 0 <= be <= 12287) by (unfold be, g5W in *; lia).
  pose proof (nd_range C HC) as Hnd. pose proof (nd_bounds C (proj1 HC)) as Bnd.
  set (nd := ndigits C) in *.
  pad_stage x0 hi C nd be.
  final_stage nd_general2 x0 x1 st H0 H1 HC C be nd.
Qed.

Theorem OK_bid128_nextdown x0 x1 st : in_u64 x0 -> in_u64 x1 -> in_u32 st -> ok_bid128_nextdown x0 x1 st = true.
Proof.
  intros H0 H1 Hst. unfold ok_bid128_nextdown. unfold_helpers. red_lets.
  pose proof H0 as H0'. pose proof H1 as H1'. unfold in_u64 in H0', H1'.
  word_norm lia. mask_tests. pose proof (g5W_range x1) as R.
  step_if B. { step_ifs; reflexivity. }
  step_if C24. { reflexivity. }
  step_if NC. { reflexivity. }
  step_if Z0. { reflexivity. }
  step_if MX. { reflexivity. }
  step_if MN. { reflexivity. }
  set (hi := x1 mod 562949953421312) in *.
  assert (Hhi : 0 <= hi < 562949953421312) by (apply Z.mod_pos_bound; reflexivity).
  set (C := hi * 18446744073709551616 + x0).
  assert (HC : 0 < C < 10000000000000000000000000000000000) by (unfold C; lia).
  word_norm lia.
  nbits_stage_ok x0 hi C.
  digits_stage_ok x0 hi C.
  set (be := (x1 / 562949953421312) mod 16384) in *.
  assert (Hbe : 0 <= be <= 12287) by (unfold be, g5W in *; lia).
  pose proof (nd_range C HC) as Hnd. pose proof (nd_bounds C (proj1 HC)) as Bnd.
  set (nd := ndigits C) in *.
  pad_stage_ok x0 hi C nd be.
  step_ifs; reflexivity.
Qed.

Theorem I_bid128_nextdown x0 x1 st : in_u64 x0 -> in_u64 x1 -> in_u32 st ->
  ok_bid128_nextdown x0 x1 st = true /\
  let '(r0, r1, st') := i_bid128_nextdown x0 x1 st in
  in_u64 r0 /\ in_u64 r1 /\ exists fl, m_next_down (pat x0 x1) = [([pat r0 r1], fl)] /\ st' = Z.lor st fl.
Proof. intros H0 H1 Hst. split; [apply OK_bid128_nextdown|apply (V_bid128_nextdown x0 x1 st)]; assumption. Qed.
Print Assumptions I_bid128_nextdown.
(* END bid128_nextdown *)

(* BEGIN bid128_nextafter *)
From DVI Require Import ImplTables ImplNext.
(* bid128_nextafter, PARTIAL: complete for the operand pairs with at least one NaN (either operand, quiet or signaling,
   canonical or non-canonical payload, every other operand pattern, every incoming status word): ok_ holds and the result is
   one of the model's outcomes (m_next_after lists one outcome per NaN operand; the code returns the first NaN operand
   quieted with a canonical payload), status word = incoming word | invalid iff one operand is signaling.
   MISSING: all pairs without a NaN (x = y: x with the sign of y; otherwise bid128_nextdown / bid128_nextup of x, then the
   overflow and underflow flags). That part calls bid128_quiet_equal, bid128_quiet_greater (twice) and
   bid128_quiet_not_equal; there is no layer-I theorem for bid128_quiet_equal / bid128_quiet_not_equal (the script of group G
   does not go through for them), and it needs model facts that exist only over the reals (NextProofs.v): the step result
   compares unequal to x, and `10^33 * 10^emin > |res|` is is_subnormal_or_zero. *)
Theorem V_bid128_nextafter_nan x0 x1 y0 y1 st : in_u64 x0 -> in_u64 x1 -> in_u64 y0 -> in_u64 y1 -> in_u32 st ->
  g5W x1 = 31 \/ g5W y1 = 31 ->
  next_after_spec x0 x1 y0 y1 st (i_bid128_nextafter x0 x1 y0 y1 st).
Proof.
  intros H0 H1 G0 G1 Hst HN. unfold i_bid128_nextafter. unfold_helpers. red_lets.
  pose proof H0 as H0'. pose proof H1 as H1'. pose proof G0 as G0'. pose proof G1 as G1'. unfold in_u64 in H0', H1', G0', G1'.
  word_norm lia. mask_tests. pose proof (g5W_range x1) as R. pose proof (g5W_range y1) as Ry.
  step_if SP.
  2: { exfalso. lia. }
  step_if A.
  - step_if EP; word_norm lia; step_if ES; na_leaf_x.
  - step_if AY.
    2: { exfalso. lia. }
    step_if EP; word_norm lia; step_if ES; na_leaf_y.
Qed.

Theorem OK_bid128_nextafter_nan x0 x1 y0 y1 st : in_u64 x0 -> in_u64 x1 -> in_u64 y0 -> in_u64 y1 -> in_u32 st ->
  g5W x1 = 31 \/ g5W y1 = 31 -> ok_bid128_nextafter x0 x1 y0 y1 st = true.
Proof.
  intros H0 H1 G0 G1 Hst HN. unfold ok_bid128_nextafter. unfold_helpers. red_lets.
  pose proof H0 as H0'. pose proof H1 as H1'. pose proof G0 as G0'. pose proof G1 as G1'. unfold in_u64 in H0', H1', G0', G1'.
  word_norm lia. mask_tests. pose proof (g5W_range x1) as R. pose proof (g5W_range y1) as Ry.
  step_if SP.
  2: { exfalso. lia. }
  step_if A.
  - step_ifs; reflexivity.
  - step_if AY.
    2: { exfalso. lia. }
    step_ifs; reflexivity.
Qed.

Theorem I_bid128_nextafter_partial x0 x1 y0 y1 st : in_u64 x0 -> in_u64 x1 -> in_u64 y0 -> in_u64 y1 -> in_u32 st ->
  is_nan (decode (pat x0 x1)) || is_nan (decode (pat y0 y1)) = true ->
  ok_bid128_nextafter x0 x1 y0 y1 st = true /\
  let '(r0, r1, st') := i_bid128_nextafter x0 x1 y0 y1 st in
  in_u64 r0 /\ in_u64 r1 /\
  exists fl, In ([pat r0 r1], fl) (m_next_after (pat x0 x1) (pat y0 y1)) /\ st' = Z.lor st fl.
Proof.
  intros H0 H1 G0 G1 Hst N. pose proof (nan_or_g5 x0 x1 y0 y1 H0 H1 G0 G1 N) as HN.
  split; [apply OK_bid128_nextafter_nan|apply (V_bid128_nextafter_nan x0 x1 y0 y1 st)]; assumption.
Qed.
Print Assumptions I_bid128_nextafter_partial.
(* END bid128_nextafter *)

(* BEGIN bid128_nexttoward *)
From DVI Require Import ImplTables ImplNext.
(* bid128_nexttoward, PARTIAL: the routine is a wrapper (I_bid128_nexttoward_wrapper: it returns exactly what
   bid128_nextafter returns, and its ok_ is that of bid128_nextafter); with the partial theorem of bid128_nextafter, whose
   proof is repeated here because blocks are compiled on their own:
   bid128_nextafter, PARTIAL: complete for the operand pairs with at least one NaN (either operand, quiet or signaling,
   canonical or non-canonical payload, every other operand pattern, every incoming status word): ok_ holds and the result is
   one of the model's outcomes (m_next_after lists one outcome per NaN operand; the code returns the first NaN operand
   quieted with a canonical payload), status word = incoming word | invalid iff one operand is signaling.
   MISSING: all pairs without a NaN (x = y: x with the sign of y; otherwise bid128_nextdown / bid128_nextup of x, then the
   overflow and underflow flags). That part calls bid128_quiet_equal, bid128_quiet_greater (twice) and
   bid128_quiet_not_equal; there is no layer-I theorem for bid128_quiet_equal / bid128_quiet_not_equal (the script of group G
   does not go through for them), and it needs model facts that exist only over the reals (NextProofs.v): the step result
   compares unequal to x, and `10^33 * 10^emin > |res|` is is_subnormal_or_zero. *)
Theorem V_bid128_nextafter_nan x0 x1 y0 y1 st : in_u64 x0 -> in_u64 x1 -> in_u64 y0 -> in_u64 y1 -> in_u32 st ->
  g5W x1 = 31 \/ g5W y1 = 31 ->
  next_after_spec x0 x1 y0 y1 st (i_bid128_nextafter x0 x1 y0 y1 st).
Proof.
  intros H0 H1 G0 G1 Hst HN. unfold i_bid128_nextafter. unfold_helpers. red_lets.
  pose proof H0 as H0'. pose proof H1 as H1'. pose proof G0 as G0'. pose proof G1 as G1'. unfold in_u64 in H0', H1', G0', G1'.
  word_norm lia. mask_tests. pose proof (g5W_range x1) as R. pose proof (g5W_range y1) as Ry.
  step_if SP.
  2: { exfalso. lia. }
  step_if A.
  - step_if EP; word_norm lia; step_if ES; na_leaf_x.
  - step_if AY.
    2: { exfalso. lia. }
    step_if EP; word_norm lia; step_if ES; na_leaf_y.
Qed.

Theorem OK_bid128_nextafter_nan x0 x1 y0 y1 st : in_u64 x0 -> in_u64 x1 -> in_u64 y0 -> in_u64 y1 -> in_u32 st ->
  g5W x1 = 31 \/ g5W y1 = 31 -> ok_bid128_nextafter x0 x1 y0 y1 st = true.
Proof.
  intros H0 H1 G0 G1 Hst HN. unfold ok_bid128_nextafter. unfold_helpers. red_lets.
  pose proof H0 as H0'. pose proof H1 as H1'. pose proof G0 as G0'. pose proof G1 as G1'. unfold in_u64 in H0', H1', G0', G1'.
  word_norm lia. mask_tests. pose proof (g5W_range x1) as R. pose proof (g5W_range y1) as Ry.
  step_if SP.
  2: { exfalso. lia. }
  step_if A.
  - step_ifs; reflexivity.
  - step_if AY.
    2: { exfalso. lia. }
    step_ifs; reflexivity.
Qed.

Theorem I_bid128_nextafter_partial x0 x1 y0 y1 st : in_u64 x0 -> in_u64 x1 -> in_u64 y0 -> in_u64 y1 -> in_u32 st ->
  is_nan (decode (pat x0 x1)) || is_nan (decode (pat y0 y1)) = true ->
  ok_bid128_nextafter x0 x1 y0 y1 st = true /\
  let '(r0, r1, st') := i_bid128_nextafter x0 x1 y0 y1 st in
  in_u64 r0 /\ in_u64 r1 /\
  exists fl, In ([pat r0 r1], fl) (m_next_after (pat x0 x1) (pat y0 y1)) /\ st' = Z.lor st fl.
Proof.
  intros H0 H1 G0 G1 Hst N. pose proof (nan_or_g5 x0 x1 y0 y1 H0 H1 G0 G1 N) as HN.
  split; [apply OK_bid128_nextafter_nan|apply (V_bid128_nextafter_nan x0 x1 y0 y1 st)]; assumption.
Qed.
Print Assumptions I_bid128_nextafter_partial.

Theorem I_bid128_nexttoward_wrapper x0 x1 y0 y1 st :
  i_bid128_nexttoward x0 x1 y0 y1 st = i_bid128_nextafter x0 x1 y0 y1 st /\
  ok_bid128_nexttoward x0 x1 y0 y1 st = ok_bid128_nextafter x0 x1 y0 y1 st.
Proof.
  unfold i_bid128_nexttoward, ok_bid128_nexttoward. split.
  - destruct (i_bid128_nextafter x0 x1 y0 y1 st) as [[a b] c]. reflexivity.
  - destruct (ok_bid128_nextafter x0 x1 y0 y1 st); [|reflexivity]. destruct (i_bid128_nextafter x0 x1 y0 y1 st) as [[a b] c]. reflexivity.
Qed.
Print Assumptions I_bid128_nexttoward_wrapper.

Theorem I_bid128_nexttoward_partial x0 x1 y0 y1 st : in_u64 x0 -> in_u64 x1 -> in_u64 y0 -> in_u64 y1 -> in_u32 st ->
  is_nan (decode (pat x0 x1)) || is_nan (decode (pat y0 y1)) = true ->
  ok_bid128_nexttoward x0 x1 y0 y1 st = true /\
  let '(r0, r1, st') := i_bid128_nexttoward x0 x1 y0 y1 st in
  in_u64 r0 /\ in_u64 r1 /\
  exists fl, In ([pat r0 r1], fl) (m_next_after (pat x0 x1) (pat y0 y1)) /\ st' = Z.lor st fl.
Proof.
  intros H0 H1 G0 G1 Hst N. destruct (I_bid128_nexttoward_wrapper x0 x1 y0 y1 st) as [-> ->].
  apply I_bid128_nextafter_partial; assumption.
Qed.
Print Assumptions I_bid128_nexttoward_partial.
(* END bid128_nexttoward *)
