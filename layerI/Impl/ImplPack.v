(* Layer I: helpers of bid_internal.rs used by handle_UF_128 / bid_get_BID128 (generated code): 128-bit shifts by a
   variable amount, the full 128x128 product (logical path DVI). Axiom-free. *)
From Coq Require Import ZArith Lia Bool List ZifyBool.
From DV Require Import Base Bid BidProofs.
From DVI Require Import ImplLib ImplGen ImplCommon ImplMul0 ImplDpd.
Import ListNotations.
Open Scope Z_scope.
Ltac Zify.zify_post_hook ::= Z.div_mod_to_equations.

Lemma pow2_split a b : 0 <= a -> 0 <= b -> 2 ^ (a + b) = 2 ^ a * 2 ^ b.
Proof. intros. apply Z.pow_add_r; assumption. Qed.
Lemma pow2_pos a : 0 <= a -> 0 < 2 ^ a.
Proof. intros. apply Z.pow_pos_nonneg; lia. Qed.

(* value of a 128-bit word pair *)
(* the two carry helpers (the same statements as in ImplMul.v, which needs further helpers of the comparison routines) *)
Lemma S_add_carry_out X Y : in_u64 X -> in_u64 Y ->
  let '(sm, CY) := i___add_carry_out X Y in in_u64 sm /\ 0 <= CY <= 1 /\ sm + CY * 18446744073709551616 = X + Y.
Proof.
  unfold in_u64. intros HX HY. unfold i___add_carry_out. cbv beta iota zeta. unfold wrap_u64.
  destruct (Z.ltb_spec ((X + Y) mod 18446744073709551616) X); lia.
Qed.

Lemma S_add_carry_in_out X Y CI : in_u64 X -> in_u64 Y -> 0 <= CI <= 1 ->
  let '(sm, CY) := i___add_carry_in_out X Y CI in in_u64 sm /\ 0 <= CY <= 1 /\ sm + CY * 18446744073709551616 = X + Y + CI.
Proof.
  unfold in_u64. intros HX HY HC. unfold i___add_carry_in_out. cbv beta iota zeta. unfold wrap_u64.
  destruct (Z.ltb_spec (((X + CI) mod 18446744073709551616 + Y) mod 18446744073709551616) ((X + CI) mod 18446744073709551616));
  destruct (Z.ltb_spec ((X + CI) mod 18446744073709551616) CI); cbn [orb]; lia.
Qed.

Definition v128 (w0 w1 : Z) : Z := w1 * 18446744073709551616 + w0.

Lemma S_shr_128 A0 A1 k : in_u64 A0 -> in_u64 A1 -> 0 < k < 64 ->
  ok___shr_128 A0 A1 k = true /\
  let '(q0, q1) := i___shr_128 A0 A1 k in in_u64 q0 /\ in_u64 q1 /\ v128 q0 q1 = v128 A0 A1 / 2 ^ k.
Proof.
  intros H0 H1 Hk. unfold in_u64 in *. split.
  - unfold ok___shr_128, i_d128_Default_default, i_d128_new. cbv beta iota zeta.
    assert (E : wrap_i32 (64 - k) = 64 - k) by (apply wrap_i32_id; unfold in_i32; lia). rewrite E.
    assert (G1 : (0 <=? k) && (k <? 64) = true) by lia. assert (G2 : (0 <=? 64 - k) && (64 - k <? 64) = true) by lia.
    rewrite G1, G2. reflexivity.
  - unfold i___shr_128, i_d128_Default_default, i_d128_new, v128. cbv beta iota zeta.
    assert (E : wrap_i32 (64 - k) = 64 - k) by (apply wrap_i32_id; unfold in_i32; lia). rewrite E.
    rewrite (Z.mod_small k 64) by lia. rewrite (Z.mod_small (64 - k) 64) by lia.
    rewrite !Z.shiftr_div_pow2, Z.shiftl_mul_pow2 by lia. unfold wrap_u64.
    pose proof (pow2_pos k ltac:(lia)) as P1. pose proof (pow2_pos (64 - k) ltac:(lia)) as P2.
    assert (PP : 2 ^ k * 2 ^ (64 - k) = 18446744073709551616) by (rewrite <- pow2_split by lia; replace (k + (64 - k)) with 64 by lia; reflexivity).
    set (p := 2 ^ k) in *. set (p' := 2 ^ (64 - k)) in *.
    assert (B0 : 0 <= A0 / p < p') by (split; [apply Z.div_pos; lia|apply Z.div_lt_upper_bound; nia]).
    assert (E1 : (A1 * p') mod 18446744073709551616 = (A1 mod p) * p').
    { rewrite <- PP. rewrite Z.mul_mod_distr_r by lia. reflexivity. }
    rewrite E1.
    rewrite (lor_low_mult (A0 / p) _ (64 - k) p') by (try reflexivity; try lia; apply Z.mod_mul; lia).
    clear E1.
    assert (Q1 : 0 <= A1 / p) by (apply Z.div_pos; lia).
    assert (Q1b : A1 / p < 18446744073709551616) by (apply Z.div_lt_upper_bound; nia).
    assert (R1 : 0 <= A1 mod p < p) by (apply Z.mod_pos_bound; lia).
    split; [nia|]. split; [lia|].
    apply Z.div_unique with (r := A0 mod p).
    + left. apply Z.mod_pos_bound. lia.
    + pose proof (Z.div_mod A0 p ltac:(lia)). pose proof (Z.div_mod A1 p ltac:(lia)). nia.
Qed.

Lemma S_shl_128_long A0 A1 k : in_u64 A0 -> in_u64 A1 -> 0 < k < 128 ->
  ok___shl_128_long A0 A1 k = true /\
  let '(q0, q1) := i___shl_128_long A0 A1 k in
  in_u64 q0 /\ in_u64 q1 /\ v128 q0 q1 = (v128 A0 A1 * 2 ^ k) mod 340282366920938463463374607431768211456.
Proof.
  intros H0 H1 Hk. unfold in_u64 in *.
  assert (E1 : wrap_i32 (64 - k) = 64 - k) by (apply wrap_i32_id; unfold in_i32; lia).
  assert (E2 : wrap_i32 (k - 64) = k - 64) by (apply wrap_i32_id; unfold in_i32; lia).
  split.
  - unfold ok___shl_128_long, i_d128_Default_default, i_d128_new. cbv beta iota zeta. rewrite E1, E2. ok_walk lia.
  - unfold i___shl_128_long, i_d128_Default_default, i_d128_new, v128. cbv beta iota zeta. rewrite E1, E2.
    destruct (Z.ltb_spec k 64) as [L|L]; cbv beta iota.
    + rewrite (Z.mod_small k 64) by lia. rewrite (Z.mod_small (64 - k) 64) by lia.
      rewrite Z.shiftr_div_pow2, !Z.shiftl_mul_pow2 by lia. unfold wrap_u64.
      pose proof (pow2_pos k ltac:(lia)) as P1. pose proof (pow2_pos (64 - k) ltac:(lia)) as P2.
      assert (PP : 2 ^ (64 - k) * 2 ^ k = 18446744073709551616) by (rewrite <- pow2_split by lia; replace (64 - k + k) with 64 by lia; reflexivity).
      set (p := 2 ^ k) in *. set (p' := 2 ^ (64 - k)) in *.
      assert (X1 : (A1 * p) mod 18446744073709551616 = (A1 mod p') * p) by (rewrite <- PP; rewrite Z.mul_mod_distr_r by lia; reflexivity).
      assert (X0 : (A0 * p) mod 18446744073709551616 = (A0 mod p') * p) by (rewrite <- PP; rewrite Z.mul_mod_distr_r by lia; reflexivity).
      rewrite X1, X0.
      assert (B0 : 0 <= A0 / p' < p) by (split; [apply Z.div_pos; lia|apply Z.div_lt_upper_bound; nia]).
      rewrite (lor_mult_low (A0 / p') _ k p) by (try reflexivity; try lia; apply Z.mod_mul; lia).
      assert (R1 : 0 <= A1 mod p' < p') by (apply Z.mod_pos_bound; lia).
      assert (R0 : 0 <= A0 mod p' < p') by (apply Z.mod_pos_bound; lia).
      split; [nia|]. split; [nia|].
      apply Z.mod_unique with (q := A1 / p').
      * left. nia.
      * pose proof (Z.div_mod A0 p' ltac:(lia)). pose proof (Z.div_mod A1 p' ltac:(lia)).
        change 340282366920938463463374607431768211456 with (18446744073709551616 * 18446744073709551616). nia.
    + rewrite (Z.mod_small (k - 64) 64) by lia. rewrite Z.shiftl_mul_pow2 by lia. unfold wrap_u64.
      pose proof (pow2_pos (k - 64) ltac:(lia)) as P1. pose proof (pow2_pos (128 - k) ltac:(lia)) as P2.
      assert (PP : 2 ^ (128 - k) * 2 ^ (k - 64) = 18446744073709551616) by (rewrite <- pow2_split by lia; replace (128 - k + (k - 64)) with 64 by lia; reflexivity).
      assert (PK : 2 ^ k = 2 ^ (k - 64) * 18446744073709551616) by (change 18446744073709551616 with (2 ^ 64); rewrite <- pow2_split by lia; f_equal; lia).
      rewrite PK. set (p := 2 ^ (k - 64)) in *. set (p' := 2 ^ (128 - k)) in *.
      assert (X0 : (A0 * p) mod 18446744073709551616 = (A0 mod p') * p) by (rewrite <- PP; rewrite Z.mul_mod_distr_r by lia; reflexivity).
      rewrite X0. assert (R0 : 0 <= A0 mod p' < p') by (apply Z.mod_pos_bound; lia).
      split; [lia|]. split; [nia|].
      apply Z.mod_unique with (q := A1 * p + A0 / p').
      * left. nia.
      * pose proof (Z.div_mod A0 p' ltac:(lia)).
        change 340282366920938463463374607431768211456 with (18446744073709551616 * 18446744073709551616). nia.
Qed.

Lemma S_shr_128_long A0 A1 k : in_u64 A0 -> in_u64 A1 -> 0 < k < 128 ->
  ok___shr_128_long A0 A1 k = true /\
  let '(q0, q1) := i___shr_128_long A0 A1 k in in_u64 q0 /\ in_u64 q1 /\ v128 q0 q1 = v128 A0 A1 / 2 ^ k.
Proof.
  intros H0 H1 Hk.
  assert (E1 : wrap_i32 (64 - k) = 64 - k) by (apply wrap_i32_id; unfold in_i32; lia).
  assert (E2 : wrap_i32 (k - 64) = k - 64) by (apply wrap_i32_id; unfold in_i32; lia).
  split.
  { unfold ok___shr_128_long, i_d128_Default_default, i_d128_new. cbv beta iota zeta. rewrite E1, E2. unfold in_u64 in *. ok_walk lia. }
  destruct (Z_lt_le_dec k 64) as [L|L].
  - destruct (S_shr_128 A0 A1 k H0 H1 ltac:(lia)) as [_ V].
    revert V. unfold i___shr_128_long, i___shr_128, i_d128_Default_default, i_d128_new. cbv beta iota zeta.
    assert (C : (k <? 64) = true) by lia. rewrite C. cbv beta iota. exact (fun V => V).
  - unfold in_u64 in *.
    unfold i___shr_128_long, i_d128_Default_default, i_d128_new, v128. cbv beta iota zeta. rewrite E2.
      assert (C : (k <? 64) = false) by lia. rewrite C. cbv beta iota.
      rewrite (Z.mod_small (k - 64) 64) by lia. rewrite Z.shiftr_div_pow2 by lia.
      pose proof (pow2_pos (k - 64) ltac:(lia)) as P1.
      assert (PK : 2 ^ k = 18446744073709551616 * 2 ^ (k - 64)) by (change 18446744073709551616 with (2 ^ 64); rewrite <- pow2_split by lia; f_equal; lia).
      rewrite PK. set (p := 2 ^ (k - 64)) in *.
      assert (Q : 0 <= A1 / p <= A1) by (split; [apply Z.div_pos; lia|apply Z.div_le_upper_bound; nia]).
      split; [lia|]. split; [lia|].
      rewrite <- Z.div_div by lia. rewrite Z.div_add_l by lia. rewrite (Z.div_small A0) by lia. rewrite Z.add_0_r. lia.
Qed.

(* full 256-bit product; as in __mul_128x128_high the middle sum is formed without carry-out, which cannot occur for
   A < 2^117 (A1 < 2^53) and B < 2^126 (B1 < 2^62): here A <= 10^35 + 10^34 and B a reciprocal below 2^120 *)
Lemma S_mul_128x128_full A0 A1 B0 B1 : in_u64 A0 -> in_u64 A1 -> in_u64 B0 -> in_u64 B1 ->
  A1 < 9007199254740992 -> B1 < 4611686018427387904 ->
  let '(h0, h1, l0, l1) := i___mul_128x128_full A0 A1 B0 B1 in
  in_u64 h0 /\ in_u64 h1 /\ in_u64 l0 /\ in_u64 l1 /\
  v128 h0 h1 * 340282366920938463463374607431768211456 + v128 l0 l1 = v128 A0 A1 * v128 B0 B1.
Proof.
  intros HA0 HA1 HB0 HB1 LA LB. unfold i___mul_128x128_full, i_d128_Default_default, i_d128_new, v128. cbv beta iota zeta.
  pose proof (S_mul_64x64_to_128 A0 B1 HA0 HB1) as S1. destruct (i___mul_64x64_to_128 A0 B1) as [lh0 lh1].
  pose proof (S_mul_64x64_to_128 B0 A1 HB0 HA1) as S2. destruct (i___mul_64x64_to_128 B0 A1) as [hl0 hl1].
  pose proof (S_mul_64x64_to_128 A0 B0 HA0 HB0) as S3. destruct (i___mul_64x64_to_128 A0 B0) as [ll0 ll1].
  pose proof (S_mul_64x64_to_128 A1 B1 HA1 HB1) as S4. destruct (i___mul_64x64_to_128 A1 B1) as [hh0 hh1].
  destruct S1 as (R1 & R2 & E1). destruct S2 as (R3 & R4 & E2). destruct S3 as (R5 & R6 & E3). destruct S4 as (R7 & R8 & E4).
  unfold in_u64 in *.
  assert (P1 : 0 <= A0 * B1 <= 18446744073709551615 * 4611686018427387903) by (apply mul_bound; lia).
  assert (P2 : 0 <= B0 * A1 <= 18446744073709551615 * 9007199254740991) by (apply mul_bound; lia).
  assert (P3 : 0 <= A0 * B0 <= 18446744073709551615 * 18446744073709551615) by (apply mul_bound; lia).
  assert (P4 : 0 <= A1 * B1 <= 9007199254740991 * 4611686018427387903) by (apply mul_bound; lia).
  pose proof (S_add_128_128 lh0 lh1 hl0 hl1 R1 R2 R3 R4 ltac:(lia)) as S5. destruct (i___add_128_128 lh0 lh1 hl0 hl1) as [m0 m1].
  destruct S5 as (R9 & R10 & E5). unfold in_u64 in *.
  pose proof (S_add_128_64 m0 m1 ll1 R9 R10 R6 ltac:(lia)) as S6. destruct (i___add_128_64 m0 m1 ll1) as [n0 n1].
  destruct S6 as (R11 & R12 & E6). unfold in_u64 in *.
  pose proof (S_add_128_64 hh0 hh1 n1 R7 R8 R12 ltac:(lia)) as S7. destruct (i___add_128_64 hh0 hh1 n1) as [r0 r1].
  destruct S7 as (R13 & R14 & E7). unfold in_u64 in *.
  repeat split; lia.
Qed.

(* ---------- the tables of handle_UF_128, generated from bid_decimal_data.rs ---------- *)
Definition rcp (k:Z) : Z := v128 (nth (Z.to_nat k) T_BID_RECIPROCALS10_128_w0 0) (nth (Z.to_nat k) T_BID_RECIPROCALS10_128_w1 0).
Definition rsc (k:Z) : Z := nth (Z.to_nat k) T_BID_RECIP_SCALE 0.
Definition rct (m k:Z) : Z := v128 (nth (Z.to_nat (m * 36 + k)) T_BID_ROUND_CONST_TABLE_128_w0 0) (nth (Z.to_nat (m * 36 + k)) T_BID_ROUND_CONST_TABLE_128_w1 0).

(* row k (1..34): R = ceil(2^(128+s)/10^k) with excess e = R*10^k - 2^(128+s) so small that the multiply-and-shift is the
   exact division of every C' <= 2*10^34, and the remainder tests of handle_UF_128 are decisive *)
Definition recip_row_ok (k:Z) : bool :=
  let R := rcp k in let s := rsc k in let S := 128 + s in let D := 10 ^ k in let e := R * D - 2 ^ S in
  (0 <=? nth (Z.to_nat k) T_BID_RECIPROCALS10_128_w0 0) && (nth (Z.to_nat k) T_BID_RECIPROCALS10_128_w0 0 <? 18446744073709551616) &&
  (0 <=? nth (Z.to_nat k) T_BID_RECIPROCALS10_128_w1 0) && (nth (Z.to_nat k) T_BID_RECIPROCALS10_128_w1 0 <? 4611686018427387904) &&
  (1 <=? s) && (s <? 128) && (0 <=? e) && ((20000000000000000000000000000000000 / D + 3) * e <? R) &&
  (e * 20000000000000000000000000000000000 <? 2 ^ S).
Lemma recip_rows_ok : forallb recip_row_ok (map Z.of_nat (seq 1 34)) = true.
Proof. vm_compute. reflexivity. Qed.

Definition rconst_spec (m k:Z) : Z :=
  if (m =? 0) || (m =? 4) then 5 * 10 ^ (k - 1) else if m =? 2 then 10 ^ k - 1 else 0.
Definition rconst_row_ok (i:Z) : bool :=
  let m := i / 34 in let k := i mod 34 + 1 in
  (rct m k =? rconst_spec m k) &&
  (0 <=? nth (Z.to_nat (m * 36 + k)) T_BID_ROUND_CONST_TABLE_128_w0 0) && (nth (Z.to_nat (m * 36 + k)) T_BID_ROUND_CONST_TABLE_128_w0 0 <? 18446744073709551616) &&
  (0 <=? nth (Z.to_nat (m * 36 + k)) T_BID_ROUND_CONST_TABLE_128_w1 0) && (nth (Z.to_nat (m * 36 + k)) T_BID_ROUND_CONST_TABLE_128_w1 0 <? 18446744073709551616).
Lemma rconst_rows_ok : forallb rconst_row_ok (map Z.of_nat (seq 0 170)) = true.
Proof. vm_compute. reflexivity. Qed.

Lemma in_seq_list a n i : Z.of_nat a <= i < Z.of_nat a + Z.of_nat n -> In i (map Z.of_nat (seq a n)).
Proof. intros H. apply in_map_iff. exists (Z.to_nat i). split; [apply Z2Nat.id; lia|]. apply in_seq. lia. Qed.

Lemma recip_row k : 1 <= k <= 34 -> recip_row_ok k = true.
Proof. intros H. pose proof recip_rows_ok as A. rewrite forallb_forall in A. apply A. apply in_seq_list. lia. Qed.
Lemma rconst_row m k : 0 <= m <= 4 -> 1 <= k <= 34 -> rconst_row_ok (m * 34 + (k - 1)) = true.
Proof. intros Hm Hk. pose proof rconst_rows_ok as A. rewrite forallb_forall in A. apply A. apply in_seq_list. lia. Qed.

(* the shift amounts alone decide the ok_ predicates of the shift helpers *)
Lemma OK_shr_128 A0 A1 k : 0 < k < 64 -> ok___shr_128 A0 A1 k = true.
Proof.
  intros Hk. unfold ok___shr_128, i_d128_Default_default, i_d128_new. cbv beta iota zeta.
  assert (E : wrap_i32 (64 - k) = 64 - k) by (apply wrap_i32_id; unfold in_i32; lia). rewrite E. ok_walk lia.
Qed.
Lemma OK_shl_128_long A0 A1 k : 0 < k < 128 -> ok___shl_128_long A0 A1 k = true.
Proof.
  intros Hk. unfold ok___shl_128_long, i_d128_Default_default, i_d128_new. cbv beta iota zeta.
  assert (E1 : wrap_i32 (64 - k) = 64 - k) by (apply wrap_i32_id; unfold in_i32; lia).
  assert (E2 : wrap_i32 (k - 64) = k - 64) by (apply wrap_i32_id; unfold in_i32; lia). rewrite E1, E2. ok_walk lia.
Qed.
Lemma OK_shr_128_long A0 A1 k : 0 < k < 128 -> ok___shr_128_long A0 A1 k = true.
Proof.
  intros Hk. unfold ok___shr_128_long, i_d128_Default_default, i_d128_new. cbv beta iota zeta.
  assert (E1 : wrap_i32 (64 - k) = 64 - k) by (apply wrap_i32_id; unfold in_i32; lia).
  assert (E2 : wrap_i32 (k - 64) = k - 64) by (apply wrap_i32_id; unfold in_i32; lia). rewrite E1, E2. ok_walk lia.
Qed.

(* a variant of ok_walk that never case-splits a failure guard: a guard is rewritten once the path conditions prove it,
   and nested destructuring lets are opened innermost first *)
Ltac ok_step2 tac :=
  match goal with
  | |- true = true => reflexivity
  | |- context [if ?c then _ else ?b] =>
      lazymatch c with context [if _ then _ else _] => fail | _ => idtac end;
      tryif is_fail b then (let H := fresh "G" in assert (H : c = true) by tac; rewrite H; clear H)
      else (let E := fresh "E" in destruct c eqn:E)
  | |- context [match ?t with pair _ _ => _ end] =>
      lazymatch t with
      | context [if _ then _ else _] => fail
      | context [match _ with pair _ _ => _ end] => fail
      | pair _ _ => fail
      | _ => destruct t
      end
  end; cbv beta iota.
Ltac ok_walk2 tac := repeat (ok_step2 tac).

