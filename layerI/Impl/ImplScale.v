(* Layer I, group F: what bid128_scalbn / bid128_ldexp share (logical path DVI): the unpacking routine
   unpack_BID128_value against decodeW (S_unpack), the fast pack routine (very_fast_pack), one step of the zero-padding
   loop (mul10_step2), small facts about words.  Axiom-free. *)
From Coq Require Import ZArith Lia Bool List ZifyBool.
From Flocq Require Import Core.Core Calc.Bracket Calc.Round.
From DV Require Import Base Bid BidProofs Arith OpsArith OpsCmp OpsMisc ScaleProofs.
From DVI Require Import ImplLib ImplGen ImplCommon ImplMul0 ImplDpd ImplPack ImplRecip ImplRp ImplUF ImplBidPack.
Import ListNotations.
Open Scope Z_scope.

Ltac table_consts :=
  repeat match goal with |- context [nth (Z.to_nat ?i) ?T 0] =>
    z_ground i; let v := eval vm_compute in (nth (Z.to_nat i) T 0) in change (nth (Z.to_nat i) T 0) with v end.

Definition signW (x1 : Z) : Z := if 9223372036854775808 <=? x1 then 9223372036854775808 else 0.

Lemma land_fe003f x : in_u64 x ->
  Z.land x 18302699254377873407 = (x / 144115188075855872) mod 128 * 144115188075855872 + x mod 70368744177664.
Proof.
  intros H. change 18302699254377873407 with (Z.lor 18302628885633695744 70368744177663).
  rewrite Z.land_lor_distr_r. word_norm lia.
  apply (lor_mult_low _ _ 46 70368744177664); [lia|reflexivity|apply Z.mod_pos_bound; reflexivity|].
  set (h := (x / 144115188075855872) mod 128). clearbody h. clear. dlia.
Qed.

Lemma S_unpack a b c d x0 x1 : in_u64 x0 -> in_u64 x1 ->
  i_unpack_BID128_value a b c d x0 x1 =
  match decodeW x0 x1 with
  | Fin _ c q => (Z.lor (c mod 18446744073709551616) (c / 18446744073709551616), signW x1, q + 6176,
                  c mod 18446744073709551616, c / 18446744073709551616)
  | Inf _ => (0, signW x1, 0, 0, signW x1 + 8646911284551352320)
  | NaN _ sg p => (0, signW x1, 0, p mod 18446744073709551616,
                   signW x1 + 8935141660703064064 + (if sg then 144115188075855872 else 0) + p / 18446744073709551616)
  end.
Proof.
  intros H0 H1. rewrite decodeW_g5. unfold i_unpack_BID128_value, i___unsigned_compare_ge_128. unfold_helpers. red_lets.
  table_consts. rewrite land_fe003f by assumption. word_norm lia.
  pose proof (g5W_range x1) as R.
  assert (SG : (x1 / 9223372036854775808) mod 2 * 9223372036854775808 = signW x1).
  { unfold signW, in_u64 in *. clear - H1. destruct (Z.leb_spec 9223372036854775808 x1); dlia. }
  rewrite SG.
  assert (G4 : (x1 / 576460752303423488) mod 16 = g5W x1 / 2).
  { unfold g5W. clear. dlia. }
  rewrite G4.
  assert (G5 : (x1 / 288230376151711744) mod 32 = g5W x1) by reflexivity. rewrite G5.
  assert (G5' : (x1 / 576460752303423488) mod 32 * 576460752303423488 = signW x1 + g5W x1 / 2 * 576460752303423488).
  { rewrite <- SG. unfold g5W, in_u64 in *. clear - H1. dlia. }
  rewrite G5'.
  destruct (Z.eqb_spec (g5W x1) 31) as [A|A].
  - (* NaN *)
    rewrite A. change (31 / 2 * 576460752303423488 >=? 6917529027641081856) with true.
    change (31 / 2 * 576460752303423488 <? 8646911284551352320) with false.
    change (31 * 288230376151711744 =? 8646911284551352320) with false. cbv beta iota.
    assert (HI : (x1 / 144115188075855872) mod 128 * 144115188075855872 =
                 signW x1 + 8935141660703064064 + (if 1 <=? (x1 / 144115188075855872) mod 2 then 144115188075855872 else 0)).
    { rewrite <- SG. unfold g5W in A. unfold in_u64 in *. clear - A H1.
      destruct (Z.leb_spec 1 ((x1 / 144115188075855872) mod 2)); dlia. }
    rewrite HI. set (hi := x1 mod 70368744177664).
    assert (Hhi : 0 <= hi < 70368744177664) by (apply Z.mod_pos_bound; reflexivity).
    set (T := signW x1 + 8935141660703064064 + _). clearbody T hi. unfold T33, in_u64 in *.
    destruct (Z.ltb_spec (hi * 18446744073709551616 + x0) 1000000000000000000000000000000000) as [L|L].
    + replace ((hi >? 54210108624275) || (hi =? 54210108624275) && (x0 >=? 4089650035136921600)) with false by (clear - L H0 Hhi; lia).
      replace ((hi * 18446744073709551616 + x0) mod 18446744073709551616) with x0 by (clear - H0 Hhi; dlia).
      replace ((hi * 18446744073709551616 + x0) / 18446744073709551616) with hi by (clear - H0 Hhi; dlia). reflexivity.
    + replace ((hi >? 54210108624275) || (hi =? 54210108624275) && (x0 >=? 4089650035136921600)) with true by (clear - L H0 Hhi; lia).
      cbn [Z.modulo Z.div Z.div_eucl]. rewrite Z.add_0_r. reflexivity.
  - destruct (Z.leb_spec 30 (g5W x1)) as [B|B].
    + (* infinity *)
      assert (A30 : g5W x1 = 30) by lia. rewrite A30.
      change (30 / 2 * 576460752303423488 >=? 6917529027641081856) with true.
      change (30 / 2 * 576460752303423488 <? 8646911284551352320) with false.
      change (30 * 288230376151711744 =? 8646911284551352320) with true. cbv beta iota.
      destruct (_ || _); reflexivity.
    + destruct (Z.leb_spec 24 (g5W x1)) as [C|C].
      * (* non-canonical large-coefficient form: zero *)
        replace (g5W x1 / 2 * 576460752303423488 >=? 6917529027641081856) with true by (clear - C B; dlia).
        replace (g5W x1 / 2 * 576460752303423488 <? 8646911284551352320) with true by (clear - C B; dlia).
        unfold bexpW. replace (24 <=? g5W x1) with true by lia.
        cbn [Z.modulo Z.div Z.div_eucl Z.lor]. rewrite Z.sub_add. reflexivity.
      * replace (g5W x1 / 2 * 576460752303423488 >=? 6917529027641081856) with false by (clear - C R; dlia).
        unfold bexpW. replace (24 <=? g5W x1) with false by lia.
        set (hi := x1 mod 562949953421312).
        assert (Hhi : 0 <= hi < 562949953421312) by (apply Z.mod_pos_bound; reflexivity).
        clearbody hi. unfold T34, in_u64 in *.
        destruct (Z.ltb_spec (hi * 18446744073709551616 + x0) 10000000000000000000000000000000000) as [L|L].
        -- replace ((hi >? 542101086242752) || (hi =? 542101086242752) && (x0 >=? 4003012203950112768)) with false by (clear - L H0 Hhi; lia).
           replace ((hi * 18446744073709551616 + x0) mod 18446744073709551616) with x0 by (clear - H0 Hhi; dlia).
           replace ((hi * 18446744073709551616 + x0) / 18446744073709551616) with hi by (clear - H0 Hhi; dlia).
           rewrite Z.sub_add. reflexivity.
        -- replace ((hi >? 542101086242752) || (hi =? 542101086242752) && (x0 >=? 4003012203950112768)) with true by (clear - L H0 Hhi; lia).
           cbn [Z.modulo Z.div Z.div_eucl Z.lor]. rewrite Z.sub_add. reflexivity.
Qed.

Lemma wrap_i32_sub a b : wrap_i32 (wrap_i32 a - b) = wrap_i32 (a - b).
Proof.
  unfold wrap_i32. f_equal.
  replace ((a + 2147483648) mod 4294967296 - 2147483648 - b + 2147483648) with ((a + 2147483648) mod 4294967296 - b) by ring.
  rewrite Zminus_mod_idemp_l. f_equal. ring.
Qed.

(* one step of the padding loop of scalbn/ldexp: 8*C + 2*C by shifts, ors and a 128-bit add *)
Lemma mul10_step2 C0 C1 : in_u64 C0 -> in_u64 C1 -> v128 C0 C1 < 10 ^ 33 ->
  let '(w0, w1) := i___add_128_128 (wrap_u64 (Z.shiftl C0 1)) (Z.lor (wrap_u64 (Z.shiftl C1 1)) (Z.shiftr C0 63))
                                   (wrap_u64 (Z.shiftl C0 3)) (Z.lor (wrap_u64 (Z.shiftl C1 3)) (Z.shiftr C0 61)) in
  in_u64 w0 /\ in_u64 w1 /\ v128 w0 w1 = 10 * v128 C0 C1.
Proof.
  intros H0 H1 HC. rewrite !Z.shiftl_mul_pow2, !Z.shiftr_div_pow2 by lia.
  change (2 ^ 3) with 8. change (2 ^ 1) with 2. change (2 ^ 61) with 2305843009213693952. change (2 ^ 63) with 9223372036854775808.
  unfold v128, in_u64 in *. change (10 ^ 33) with 1000000000000000000000000000000000 in HC.
  assert (HC1 : C1 < 54210108624276) by lia.
  rewrite (wrap_u64_id (C1 * 2)), (wrap_u64_id (C1 * 8)) by (unfold in_u64; lia).
  rewrite (lor_mult_low (C0 / 9223372036854775808) (C1 * 2) 1 2) by (try reflexivity; try lia; clear - H0; dlia).
  rewrite (lor_mult_low (C0 / 2305843009213693952) (C1 * 8) 3 8) by (try reflexivity; try lia; clear - H0; dlia).
  pose proof (S_add_128_128 (wrap_u64 (C0 * 2)) (C1 * 2 + C0 / 9223372036854775808) (wrap_u64 (C0 * 8)) (C1 * 8 + C0 / 2305843009213693952)) as SA.
  unfold in_u64, wrap_u64 in *.
  specialize (SA ltac:(clear; dlia) ltac:(clear - H0 H1 HC1; dlia) ltac:(clear; dlia) ltac:(clear - H0 H1 HC1; dlia) ltac:(clear - H0 H1 HC1; dlia)).
  destruct (i___add_128_128 _ _ _ _) as [lo hi]. destruct SA as (A & B & E).
  split; [exact A|]. split; [exact B|]. rewrite E. clear - H0. dlia.
Qed.

Lemma lt_T33 C0 C1 : in_u64 C0 -> in_u64 C1 ->
  ((C1 <? 0x314dc6448d93) || ((C1 =? 0x314dc6448d93) && (C0 <? 0x38c15b0a00000000))) = (v128 C0 C1 <? 10 ^ 33).
Proof. intros H0 H1. unfold v128, in_u64 in *. change (10 ^ 33) with 1000000000000000000000000000000000. lia. Qed.

Lemma decodeW_facts x0 x1 : in_u64 x1 ->
  match decodeW x0 x1 with
  | Fin s _ _ | Inf s => s = (9223372036854775808 <=? x1) /\ (Z.land x1 9079256848778919936 =? 9079256848778919936) = false
  | NaN s sg _ => s = (9223372036854775808 <=? x1) /\ (Z.land x1 9079256848778919936 =? 9079256848778919936) = sg
  end.
Proof.
  intros H1. rewrite decodeW_g5. word_norm lia. rewrite test_7e by assumption.
  destruct (g5W x1 =? 31); cbn [andb]; [split; reflexivity|]. destruct (30 <=? g5W x1); split; reflexivity.
Qed.

Lemma sbit_signW x1 : sbit (signW x1) = (9223372036854775808 <=? x1).
Proof. unfold sbit, signW. destruct (9223372036854775808 <=? x1); reflexivity. Qed.
Lemma signW_cases x1 : signW x1 = 0 \/ signW x1 = 9223372036854775808.
Proof. unfold signW. destruct (9223372036854775808 <=? x1); [right|left]; reflexivity. Qed.

Lemma words_pat E : 0 <= E < P128 ->
  in_u64 (E mod 18446744073709551616) /\ in_u64 (E / 18446744073709551616) /\
  pat (E mod 18446744073709551616) (E / 18446744073709551616) = E.
Proof. unfold P128, in_u64, pat. intros H. clear - H. dlia. Qed.

Lemma words_v128 C : v128 (C mod 18446744073709551616) (C / 18446744073709551616) = C.
Proof. unfold v128. clear. dlia. Qed.

Lemma words_range C : 0 <= C < 10 ^ 34 ->
  in_u64 (C mod 18446744073709551616) /\ 0 <= C / 18446744073709551616 < 562949953421312.
Proof. change (10 ^ 34) with 10000000000000000000000000000000000. unfold in_u64. intros H. clear - H. dlia. Qed.

Lemma lor_words_zero C : 0 <= C -> (Z.lor (C mod 18446744073709551616) (C / 18446744073709551616) =? 0) = (C =? 0).
Proof.
  intros H. destruct (Z.eqb_spec C 0) as [->|N]; [reflexivity|]. apply Z.eqb_neq. intros E.
  apply Z.lor_eq_0_iff in E. destruct E as [E1 E2]. clear - E1 E2 N. dlia.
Qed.

Lemma very_fast_pack sgn ex C : (sgn = 0 \/ sgn = 9223372036854775808) -> 0 <= ex <= 12287 -> 0 <= C < 10 ^ 34 ->
  let '(r0, r1) := i_bid_get_BID128_very_fast sgn ex (C mod 18446744073709551616) (C / 18446744073709551616) in
  in_u64 r0 /\ in_u64 r1 /\ pat r0 r1 = encode (Fin (sbit sgn) C (ex - 6176)).
Proof.
  intros Hs He HC. unfold i_bid_get_BID128_very_fast. unfold_helpers. red_lets.
  destruct (words_range C HC) as [W0 W1].
  rewrite pack_word1 by assumption.
  destruct (encode_words sgn ex _ _ Hs He W0 W1) as [E1 E2]. rewrite words_v128 in E1, E2.
  pose proof (words_pat _ (encode_range _ (wf_fin (sbit sgn) C (ex - 6176) HC ltac:(unfold qmin, qmax; lia)))) as WP.
  rewrite E1, E2 in WP. exact WP.
Qed.

Lemma OK_unpack a b c d x0 x1 : ok_unpack_BID128_value a b c d x0 x1 = true.
Proof. unfold ok_unpack_BID128_value. unfold_helpers. red_lets. ok_walk2 lia. Qed.
