(* Layer I: the generated table BID_B2D (1000 rows, from bid_b2d.rs) is the declet encoding of IEEE 754-2008 table 3.4
   (declet_enc of OpsConv.v): every row checked by kernel computation (logical path DVI). *)
From Coq Require Import ZArith Lia Bool List.
From DV Require Import Base Bid BidProofs OpsArith OpsCmp OpsMisc OpsConv DpdProofs.
From DVI Require Import ImplLib ImplGen.
Import ListNotations.
Open Scope Z_scope.

Lemma b2d_all : forallb (fun i => nth (Z.to_nat i) T_BID_B2D 0 =? declet_enc i) (zrange 1000) = true.
Proof. vm_compute. reflexivity. Qed.
Lemma b2d_length : length T_BID_B2D = 1000%nat.
Proof. vm_compute. reflexivity. Qed.
Lemma b2d_row i : 0 <= i < 1000 -> nth (Z.to_nat i) T_BID_B2D 0 = declet_enc i.
Proof. intros H. apply Z.eqb_eq. exact (sweep _ 1000 b2d_all i H). Qed.
