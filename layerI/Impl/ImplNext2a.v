(* Layer I, group NA (bid128_nextafter / bid128_nexttoward): the value and ok_ lemmas of the three comparison routines that
   bid128_nextafter calls, as a shared file (the scripts are those of the blocks bid128_quiet_greater of ImplCmpProofs.v and
   bid128_quiet_equal / bid128_quiet_not_equal of ImplCmp2Proofs.v, unchanged; blocks are compiled on their own, so a block that
   needs these lemmas has to get them from a shared file). Axiom-free. *)
From Coq Require Import ZArith Lia Bool List ZifyBool.
From DV Require Import Base Bid BidProofs OpsArith OpsCmp OpsMisc OpsConv.
From DVI Require Import ImplLib ImplGen ImplCommon.
Import ListNotations.
Open Scope Z_scope.
Ltac unfold_helpers := unfold i_d128_Default_default, i_d128_new.
From DVI Require Import ImplMul0 ImplMul ImplOrder ImplCmp ImplCmp2.
(* ok_bid128_quiet_greater: the indices into BID_TEN2K64 / BID_TEN2K128 are in range *)
Lemma OK_bid128_quiet_greater x0 x1 y0 y1 st : in_u64 x0 -> in_u64 x1 -> in_u64 y0 -> in_u64 y1 -> in_u32 st ->
  ok_bid128_quiet_greater x0 x1 y0 y1 st = true.
Proof. intros Hx0 Hx1 Hy0 Hy1 Hst. unfold ok_bid128_quiet_greater. cmp_ok x1 y1. Qed.
Lemma V_bid128_quiet_greater x0 x1 y0 y1 st : in_u64 x0 -> in_u64 x1 -> in_u64 y0 -> in_u64 y1 -> in_u32 st ->
  i_bid128_quiet_greater x0 x1 y0 y1 st = cmp_res 1 (pat x0 x1) (pat y0 y1) st.
Proof.
  intros Hx0 Hx1 Hy0 Hy1 Hst. unfold i_bid128_quiet_greater.
  cmp_open x0 x1 y0 y1 st 1. cmp_walk x1 y1. all: cmp_leaf.
Qed.
Lemma OK_bid128_quiet_equal x0 x1 y0 y1 st : in_u64 x0 -> in_u64 x1 -> in_u64 y0 -> in_u64 y1 -> in_u32 st ->
  ok_bid128_quiet_equal x0 x1 y0 y1 st = true.
Proof. intros Hx0 Hx1 Hy0 Hy1 Hst. unfold ok_bid128_quiet_equal. unfold i_swap_i32, i_swap_u64. cmp_ok x1 y1. Qed.
Lemma V_bid128_quiet_equal x0 x1 y0 y1 st : in_u64 x0 -> in_u64 x1 -> in_u64 y0 -> in_u64 y1 -> in_u32 st ->
  i_bid128_quiet_equal x0 x1 y0 y1 st = cmp_res 0 (pat x0 x1) (pat y0 y1) st.
Proof.
  intros Hx0 Hx1 Hy0 Hy1 Hst. unfold i_bid128_quiet_equal. unfold i_swap_i32, i_swap_u64.
  cmp_open x0 x1 y0 y1 st 0. cmp_walk2 x1 y1. all: cmp_leaf2.
Qed.
Lemma OK_bid128_quiet_not_equal x0 x1 y0 y1 st : in_u64 x0 -> in_u64 x1 -> in_u64 y0 -> in_u64 y1 -> in_u32 st ->
  ok_bid128_quiet_not_equal x0 x1 y0 y1 st = true.
Proof. intros Hx0 Hx1 Hy0 Hy1 Hst. unfold ok_bid128_quiet_not_equal. unfold i_swap_i32, i_swap_u64. cmp_ok x1 y1. Qed.
Lemma V_bid128_quiet_not_equal x0 x1 y0 y1 st : in_u64 x0 -> in_u64 x1 -> in_u64 y0 -> in_u64 y1 -> in_u32 st ->
  i_bid128_quiet_not_equal x0 x1 y0 y1 st = cmp_res 7 (pat x0 x1) (pat y0 y1) st.
Proof.
  intros Hx0 Hx1 Hy0 Hy1 Hst. unfold i_bid128_quiet_not_equal. unfold i_swap_i32, i_swap_u64.
  cmp_open x0 x1 y0 y1 st 7. cmp_walk2 x1 y1. all: cmp_leaf2.
Qed.
