(* Layer I, group R (bid128_round_integral_{zero, negative, positive, nearest_even, nearest_away, exact}, bid128_nearbyint):
   shared lemmas (logical path DVI).
   - __mul_128x128_to_256 (generated code) is exact;
   - rows of BID_TEN2MK128 / BID_SHIFTRIGHT128 / BID_MASKHIGH128 / BID_MIDPOINT64 / BID_MIDPOINT128 against
     closed forms by kernel computation (34 + 19 + 15 rows);
   - rq_core: from the four words of C' * K_k the shifted high words are C' / 10^k, and the discarded bits `rho` decide
     C' mod 10^k = 0 (rho < K_k) and C' mod 10^k = 10^k / 2 (2^(127+s) <= rho < 2^(127+s) + K_k) (through ImplRecip.recip_core);
   - the model side: round_int in closed form (rint_n), rint_dec on a canonical non-zero finite operand with negative
     exponent (rint_dec_fin), leaf lemmas per class of operand (NaN, infinity, zero / non-canonical, exponent >= 0, general);
   - the tactics that walk through the generated code (as in ImplNext.v; that file is not imported because it mentions
     generated helpers that the routines of this group do not pull in).
   Axiom-free; imports only ImplLib, ImplGen, ImplCommon, ImplTables, ImplMul0, ImplRecip. *)
From Coq Require Import ZArith Lia Bool List ZifyBool.
From Flocq Require Import Core.Zaux Core.Digits Calc.Bracket Calc.Round.
From DV Require Import Base Bid BidProofs OpsArith OpsCmp OpsMisc ScaleProofs.
From DVI Require Import ImplLib ImplGen ImplCommon ImplTables ImplMul0 ImplRecip.
Import ListNotations.
Open Scope Z_scope.
Ltac Zify.zify_post_hook ::= Z.div_mod_to_equations.
Ltac dlia := Z.div_mod_to_equations; lia.

Definition v128 (w0 w1 : Z) : Z := w1 * 18446744073709551616 + w0.
Definition wlo (c:Z) : Z := c mod 18446744073709551616.
Definition whi (c:Z) : Z := c / 18446744073709551616.

(* ---------- __mul_128x128_to_256 is exact (the statement of ImplMul.v, which cannot be imported here: it mentions
   BID_TEN2K64 / BID_TEN2K128, which this group does not generate) ---------- *)
Lemma R_add_carry_out X Y : in_u64 X -> in_u64 Y ->
  let '(sm, CY) := i___add_carry_out X Y in in_u64 sm /\ 0 <= CY <= 1 /\ sm + CY * 18446744073709551616 = X + Y.
Proof.
  unfold in_u64. intros HX HY. unfold i___add_carry_out. cbv beta iota zeta. unfold wrap_u64.
  destruct (Z.ltb_spec ((X + Y) mod 18446744073709551616) X); lia.
Qed.

Lemma R_add_carry_in_out X Y CI : in_u64 X -> in_u64 Y -> 0 <= CI <= 1 ->
  let '(sm, CY) := i___add_carry_in_out X Y CI in in_u64 sm /\ 0 <= CY <= 1 /\ sm + CY * 18446744073709551616 = X + Y + CI.
Proof.
  unfold in_u64. intros HX HY HC. unfold i___add_carry_in_out. cbv beta iota zeta. unfold wrap_u64.
  destruct (Z.ltb_spec (((X + CI) mod 18446744073709551616 + Y) mod 18446744073709551616) ((X + CI) mod 18446744073709551616));
  destruct (Z.ltb_spec ((X + CI) mod 18446744073709551616) CI); cbn [orb]; lia.
Qed.

Lemma R_mul_128x128_to_256 A0 A1 B0 B1 : in_u64 A0 -> in_u64 A1 -> in_u64 B0 -> in_u64 B1 ->
  let '(p0, p1, p2, p3) := i___mul_128x128_to_256 A0 A1 B0 B1 in
  in_u64 p0 /\ in_u64 p1 /\ in_u64 p2 /\ in_u64 p3 /\
  ((p3 * 18446744073709551616 + p2) * 18446744073709551616 + p1) * 18446744073709551616 + p0 =
  (A1 * 18446744073709551616 + A0) * (B1 * 18446744073709551616 + B0).
Proof.
  intros HA0 HA1 HB0 HB1. unfold i___mul_128x128_to_256. cbv beta iota zeta.
  pose proof (S_mul_64x128_full A0 B0 B1 HA0 HB0 HB1) as S0. destruct (i___mul_64x128_full A0 B0 B1) as [[phl qll0] qll1].
  pose proof (S_mul_64x128_full A1 B0 B1 HA1 HB0 HB1) as S1. destruct (i___mul_64x128_full A1 B0 B1) as [[phh qlh0] qlh1].
  destruct S0 as (R1 & R2 & R3 & E0). destruct S1 as (R4 & R5 & R6 & E1).
  pose proof (R_add_carry_out qlh0 qll1 R5 R3) as S2. destruct (i___add_carry_out qlh0 qll1) as [p1 cy1].
  destruct S2 as (R7 & R8 & E2).
  pose proof (R_add_carry_in_out qlh1 phl cy1 R6 R1 R8) as S3. destruct (i___add_carry_in_out qlh1 phl cy1) as [p2 cy2].
  destruct S3 as (R9 & R10 & E3).
  set (B := B1 * 18446744073709551616 + B0) in *.
  assert (HB : 0 <= B <= 340282366920938463463374607431768211455) by (unfold B, in_u64 in *; lia).
  assert (Bd : A1 * B <= 18446744073709551615 * 340282366920938463463374607431768211455)
    by (unfold in_u64 in *; apply Z.mul_le_mono_nonneg; lia).
  replace ((A1 * 18446744073709551616 + A0) * B) with ((A1 * B) * 18446744073709551616 + A0 * B) by ring.
  rewrite <- E0, <- E1 in *. clearbody B. unfold wrap_u64, in_u64 in *.
  repeat split; try lia.
Qed.

(* ---------- the tables ---------- *)
Definition rk (k:Z) : Z := nth (Z.to_nat (k - 1)) T_BID_TEN2MK128_w1 0 * 18446744073709551616 + nth (Z.to_nat (k - 1)) T_BID_TEN2MK128_w0 0.
Definition rs (k:Z) : Z := nth (Z.to_nat (k - 1)) T_BID_SHIFTRIGHT128 0.
Definition rm (k:Z) : Z := nth (Z.to_nat (k - 1)) T_BID_MASKHIGH128 0.

(* row k (1..34): words in range; the shift is 0 exactly for k <= 3 and below 64 exactly for k <= 22; the mask is
   2^(s mod 64) - 1; e = K * 10^k - 2^(128+s) is positive and small enough for every C' <= 2*10^34 *)
Definition rint_row_ok (k:Z) : bool :=
  let K := rk k in let s := rs k in let D := 10 ^ k in let e := K * D - 2 ^ (128 + s) in
  (0 <=? nth (Z.to_nat (k - 1)) T_BID_TEN2MK128_w0 0) && (nth (Z.to_nat (k - 1)) T_BID_TEN2MK128_w0 0 <? 18446744073709551616) &&
  (0 <=? nth (Z.to_nat (k - 1)) T_BID_TEN2MK128_w1 0) && (nth (Z.to_nat (k - 1)) T_BID_TEN2MK128_w1 0 <? 18446744073709551616) &&
  (0 <=? s) && (s <? 128) && Bool.eqb (s <? 64) (k <=? 22) && Bool.eqb (s =? 0) (k <=? 3) &&
  (rm k =? 2 ^ (s mod 64) - 1) &&
  (1 <=? e) && ((20000000000000000000000000000000000 / D + 3) * e <? K).
Lemma rint_rows_ok : forallb rint_row_ok (map Z.of_nat (seq 1 34)) = true.
Proof. vm_compute. reflexivity. Qed.

Lemma in_seq1 k n : 1 <= k <= Z.of_nat n -> In k (map Z.of_nat (seq 1 n)).
Proof.
  intros H. apply in_map_iff. exists (Z.to_nat k). split; [apply Z2Nat.id; lia|]. apply in_seq. lia.
Qed.
Lemma in_range_list i n : 0 <= i < Z.of_nat n -> In i (map Z.of_nat (seq 0 n)).
Proof. intros H. apply in_map_iff. exists (Z.to_nat i). split; [apply Z2Nat.id; lia|]. apply in_seq. lia. Qed.

Lemma rint_row k : 1 <= k <= 34 ->
  let K := rk k in let s := rs k in let e := K * 10 ^ k - 2 ^ (128 + s) in
  in_u64 (nth (Z.to_nat (k - 1)) T_BID_TEN2MK128_w0 0) /\ in_u64 (nth (Z.to_nat (k - 1)) T_BID_TEN2MK128_w1 0) /\
  0 <= s < 128 /\ ((s <? 64) = (k <=? 22)) /\ ((s =? 0) = (k <=? 3)) /\ rm k = 2 ^ (s mod 64) - 1 /\
  1 <= e /\ (20000000000000000000000000000000000 / 10 ^ k + 3) * e < K.
Proof.
  intros Hk. pose proof rint_rows_ok as A. rewrite forallb_forall in A.
  specialize (A k (in_seq1 k 34 ltac:(change (Z.of_nat 34) with 34; lia))). unfold rint_row_ok in A. cbv zeta in A.
  rewrite !andb_true_iff in A. destruct A as [[[[[[[[[[A1 A2] A3] A4] A5] A6] A7] A8] A9] A11] A12].
  apply Z.leb_le in A1, A3, A5, A11. apply Z.ltb_lt in A2, A4, A6, A12. apply Z.eqb_eq in A9.
  apply Bool.eqb_prop in A7, A8. cbv zeta. unfold in_u64. repeat split; try lia; try assumption.
Qed.

(* midpoints 5 * 10^i: BID_MIDPOINT64 (i = 0..18), BID_MIDPOINT128 (i = 19..33) *)
Lemma midpoint64_all : forallb (fun i => nth (Z.to_nat i) T_BID_MIDPOINT64 0 =? 5 * 10 ^ i) (map Z.of_nat (seq 0 19)) = true.
Proof. vm_compute. reflexivity. Qed.
Lemma midpoint128_all : forallb (fun i => (0 <=? nth (Z.to_nat i) T_BID_MIDPOINT128_w0 0) && (nth (Z.to_nat i) T_BID_MIDPOINT128_w0 0 <? 18446744073709551616) &&
    (nth (Z.to_nat i) T_BID_MIDPOINT128_w1 0 * 18446744073709551616 + nth (Z.to_nat i) T_BID_MIDPOINT128_w0 0 =? 5 * 10 ^ (i + 19)))
  (map Z.of_nat (seq 0 15)) = true.
Proof. vm_compute. reflexivity. Qed.
Lemma midpoint64_row i : 0 <= i < 19 -> nth (Z.to_nat i) T_BID_MIDPOINT64 0 = 5 * 10 ^ i.
Proof.
  intros H. pose proof midpoint64_all as A. rewrite forallb_forall in A.
  specialize (A i (in_range_list i 19 ltac:(change (Z.of_nat 19) with 19; lia))). apply Z.eqb_eq in A. exact A.
Qed.
Lemma midpoint128_row i : 0 <= i < 15 ->
  in_u64 (nth (Z.to_nat i) T_BID_MIDPOINT128_w0 0) /\
  nth (Z.to_nat i) T_BID_MIDPOINT128_w1 0 * 18446744073709551616 + nth (Z.to_nat i) T_BID_MIDPOINT128_w0 0 = 5 * 10 ^ (i + 19).
Proof.
  intros H. pose proof midpoint128_all as A. rewrite forallb_forall in A.
  specialize (A i (in_range_list i 15 ltac:(change (Z.of_nat 15) with 15; lia))).
  rewrite !andb_true_iff in A. destruct A as [[A1 A2] A3]. apply Z.leb_le in A1. apply Z.ltb_lt in A2. apply Z.eqb_eq in A3.
  unfold in_u64. split; [lia|exact A3].
Qed.

(* ---------- quotient and remainder tests from the four product words ---------- *)
(* the pieces of the discarded part of C' * K_k: a = the low s bits above the 128 low bits, lo = the 128 low bits *)
Definition rq_a (k p2 p3 : Z) : Z :=
  if k <=? 3 then 0 else if k <=? 22 then p2 mod 2 ^ rs k else (p3 mod 2 ^ (rs k - 64)) * 18446744073709551616 + p2.
Definition rq_q (k p2 p3 : Z) : Z :=
  if k <=? 22 then (p3 * 18446744073709551616 + p2) / 2 ^ rs k else p3 / 2 ^ (rs k - 64).

Lemma half_test R P2 h e Q r : 0 < R -> 0 <= e -> 2 * (h * R) = 2 * P2 + e -> (Q + 3) * e < R -> 0 <= Q -> 0 <= r ->
  (Q * e + r * R < P2 <-> r < h).
Proof.
  intros HR He EK HQe HQ Hr. assert (0 <= Q * e) by (apply Z.mul_nonneg_nonneg; lia). split; intros H0.
  - destruct (Z_lt_le_dec r h) as [L|G]; [exact L|exfalso]. assert (h * R <= r * R) by (apply Z.mul_le_mono_nonneg_r; lia). lia.
  - assert (r * R <= (h - 1) * R) by (apply Z.mul_le_mono_nonneg_r; lia). lia.
Qed.

Lemma rq_core k C' p0 p1 p2 p3 : 1 <= k <= 34 -> 0 <= C' <= 20000000000000000000000000000000000 ->
  in_u64 p0 -> in_u64 p1 -> in_u64 p2 -> in_u64 p3 ->
  ((p3 * 18446744073709551616 + p2) * 18446744073709551616 + p1) * 18446744073709551616 + p0 = C' * rk k ->
  let D := 10 ^ k in let s := rs k in let r := C' mod D in let lo := p1 * 18446744073709551616 + p0 in
  let a := rq_a k p2 p3 in let rho := a * 340282366920938463463374607431768211456 + lo in
  rq_q k p2 p3 = C' / D /\ 0 <= a < 2 ^ s /\
  (rho < rk k <-> r = 0) /\ (2 ^ (127 + s) <= rho < 2 ^ (127 + s) + rk k <-> 2 * r = D) /\ (rho < 2 ^ (127 + s) <-> 2 * r < D).
Proof.
  intros Hk HC H0 H1 H2 H3 HP D s r lo a rho. unfold in_u64 in *.
  destruct (rint_row k Hk) as (RK0 & RK1 & RS & RB & RZ & RM & RE1 & RE2). cbv zeta in *. fold s D in RS, RB, RZ, RM, RE1, RE2.
  assert (RK : 0 <= rk k < 340282366920938463463374607431768211456) by (unfold rk, in_u64 in *; lia).
  assert (HD : 0 < D) by (apply Z.pow_pos_nonneg; lia).
  assert (HPS : 0 < 2 ^ (128 + s)) by (apply Z.pow_pos_nonneg; lia).
  assert (Dh : D = 2 * (5 * 10 ^ (k - 1))) by (unfold D; replace k with (Z.succ (k - 1)) at 1 by lia; rewrite Z.pow_succ_r by lia; ring).
  assert (Ph : 2 ^ (128 + s) = 2 * 2 ^ (127 + s)) by (replace (128 + s) with (Z.succ (127 + s)) by lia; rewrite Z.pow_succ_r by lia; ring).
  destruct (recip_core (rk k) (2 ^ (128 + s)) D (rk k * D - 2 ^ (128 + s)) 20000000000000000000000000000000000 C' HD HPS ltac:(ring) ltac:(lia) HC RE2)
    as (Erho & Brho & EQ & T0 & TH & _).
  specialize (TH _ _ Dh Ph). fold r in Erho, Brho, EQ, T0, TH.
  set (Q := C' / D) in *. set (rho0 := C' * rk k - Q * 2 ^ (128 + s)) in *.
  assert (Hlo : 0 <= lo < 340282366920938463463374607431768211456) by (unfold lo; lia).
  assert (HQ0 : 0 <= Q) by (apply Z.div_pos; lia).
  assert (Hr : 0 <= r < D) by (apply Z.mod_pos_bound; lia).
  assert (TL : rho0 < 2 ^ (127 + s) <-> 2 * r < D).
  { assert (HQB : Q <= 20000000000000000000000000000000000 / D) by (apply Z.div_le_mono; lia).
    assert (HQe : (Q + 3) * (rk k * D - 2 ^ (128 + s)) < rk k).
    { eapply Z.le_lt_trans; [|exact RE2]. apply Z.mul_le_mono_nonneg_r; lia. }
    assert (EK : 2 * (5 * 10 ^ (k - 1) * rk k) = 2 * 2 ^ (127 + s) + (rk k * D - 2 ^ (128 + s))) by (rewrite Ph, Dh; ring).
    rewrite Erho.
    pose proof (half_test (rk k) (2 ^ (127 + s)) (5 * 10 ^ (k - 1)) (rk k * D - 2 ^ (128 + s)) Q r ltac:(lia) ltac:(lia) EK HQe HQ0 ltac:(lia)) as HT.
    rewrite HT. lia. }
  assert (KEY : rq_q k p2 p3 = Q /\ 0 <= a < 2 ^ s /\ rho = rho0).
  { unfold rho, a, rq_q, rq_a. fold s.
    destruct (Z.leb_spec k 22) as [K22|K22].
    - assert (Hs64 : s < 64) by (destruct (Z.ltb_spec s 64); [assumption|discriminate]).
      assert (Hps : 0 < 2 ^ s) by (apply Z.pow_pos_nonneg; lia).
      assert (E128 : 2 ^ (128 + s) = 340282366920938463463374607431768211456 * 2 ^ s) by (rewrite Z.pow_add_r by lia; reflexivity).
      set (Qh := p3 * 18446744073709551616 + p2) in *.
      destruct (split_high Qh lo (2 ^ s) 340282366920938463463374607431768211456 (C' * rk k) Hps ltac:(lia) Hlo ltac:(unfold Qh; lia)
                  ltac:(rewrite <- HP; unfold Qh, lo; ring)) as [SQ SR].
      rewrite <- E128 in SQ, SR. rewrite EQ in SQ, SR. fold rho0 in SR.
      assert (EM : Qh mod 2 ^ s = p2 mod 2 ^ s).
      { unfold Qh. assert (E64 : 18446744073709551616 = 2 ^ (64 - s) * 2 ^ s) by (rewrite <- Z.pow_add_r by lia; replace (64 - s + s) with 64 by ring; reflexivity).
        rewrite E64. rewrite Z.mul_assoc, Z.add_comm, Z.mod_add by lia. reflexivity. }
      rewrite EM in SR. split; [exact SQ|].
      pose proof (Z.mod_pos_bound p2 (2 ^ s) Hps) as Hm.
      destruct (Z.leb_spec k 3) as [K3|K3].
      + assert (s = 0) by (destruct (Z.eqb_spec s 0); [assumption|discriminate]).
        split; [lia|]. rewrite SR. replace s with 0 by lia. change (2 ^ 0) with 1. rewrite Z.mod_1_r. ring.
      + split; [exact Hm|]. rewrite SR. ring.
    - assert (Hs64 : 64 <= s) by (destruct (Z.ltb_spec s 64); [discriminate|assumption]).
      replace (k <=? 3) with false by lia.
      set (s' := s - 64) in *. assert (Hps' : 0 < 2 ^ s') by (apply Z.pow_pos_nonneg; unfold s'; lia).
      set (W := 340282366920938463463374607431768211456 * 18446744073709551616).
      assert (EW : 2 ^ (128 + s) = W * 2 ^ s').
      { unfold W, s'. replace (128 + s) with (192 + (s - 64)) by ring. rewrite Z.pow_add_r by lia. reflexivity. }
      set (Ql := p2 * 340282366920938463463374607431768211456 + lo).
      assert (HQl : 0 <= Ql < W) by (unfold Ql, W; lia).
      destruct (split_high p3 Ql (2 ^ s') W (C' * rk k) Hps' ltac:(unfold W; lia) HQl ltac:(lia)
                  ltac:(rewrite <- HP; unfold Ql, lo, W; ring)) as [SQ SR].
      rewrite <- EW in SQ, SR. rewrite EQ in SQ, SR. fold rho0 in SR.
      split; [exact SQ|].
      pose proof (Z.mod_pos_bound p3 (2 ^ s') Hps') as Hm.
      split.
      + replace s with (s' + 64) by (unfold s'; ring). rewrite Z.pow_add_r by (unfold s'; lia). change (2 ^ 64) with 18446744073709551616.
        set (m := p3 mod 2 ^ s') in *. set (t := 2 ^ s') in *. clear - Hm H2. lia.
      + rewrite SR. unfold W, Ql. ring. }
  destruct KEY as (KQ & KA & KR). rewrite KR. repeat split; try tauto; try lia.
Qed.

(* ---------- the model side ---------- *)
Definition hiW (x1:Z) : Z := x1 mod 562949953421312.                       (* low 49 bits of the high word *)
Definition beW (x1:Z) : Z := (x1 / 562949953421312) mod 16384.             (* bits 49..62 *)
Definition sgW (x1:Z) : bool := 9223372036854775808 <=? x1.
Definition sgZ (x1:Z) : Z := (x1 / 9223372036854775808) mod 2 * 9223372036854775808.   (* x1 & MASK_SIGN after word_norm *)

Lemma sgZ_sgW x1 : in_u64 x1 -> sgZ x1 = if sgW x1 then 9223372036854775808 else 0.
Proof. unfold in_u64, sgZ, sgW. intros H. destruct (Z.leb_spec 9223372036854775808 x1); lia. Qed.

Definition rint_spec (md:rmode) (sx:bool) (x0 x1 st : Z) (res : Z * Z * Z) : Prop :=
  let '(r0, r1, st') := res in
  in_u64 r0 /\ in_u64 r1 /\ exists fl, rint_dec md sx (pat x0 x1) = [([pat r0 r1], fl)] /\ st' = Z.lor st fl.

(* the integer the model rounds c / 10^k to, in closed form *)
Definition rint_n (md:rmode) (s:bool) (C k : Z) : Z :=
  let D := 10 ^ k in let Q := C / D in let r := C mod D in
  match md with
  | RTZ => Q
  | RDN => if s && negb (r =? 0) then Q + 1 else Q
  | RUP => if negb s && negb (r =? 0) then Q + 1 else Q
  | RNE => if (D <? 2 * r) || ((2 * r =? D) && Z.odd Q) then Q + 1 else Q
  | RNA => if D <=? 2 * r then Q + 1 else Q
  end.

Lemma round_int_closed md s C k : 0 < C < 10 ^ 34 -> 1 <= k ->
  round_int md s C k = (rint_n md s C k, negb (C mod 10 ^ k =? 0)).
Proof.
  intros HC Hk. unfold round_int.
  assert (E : div_loc C k = (C / 10 ^ k, loc_of_rem (C mod 10 ^ k) (10 ^ k))).
  { unfold div_loc. destruct (Z.ltb_spec 45 k) as [L|L]; [|reflexivity].
    assert (HP : 2 * 10 ^ 34 < 10 ^ k).
    { apply Z.lt_le_trans with (10 ^ 35); [vm_compute; reflexivity|apply Z.pow_le_mono_r; lia]. }
    rewrite Z.div_small, Z.mod_small by lia. unfold loc_of_rem. replace (C =? 0) with false by lia.
    replace (2 * C ?= 10 ^ k) with Lt by (symmetry; apply Z.compare_lt_iff; lia). reflexivity. }
  rewrite E. clear E. unfold rint_n. cbv zeta.
  set (D := 10 ^ k). assert (HD : 0 < D) by (apply Z.pow_pos_nonneg; lia).
  pose proof (Z.mod_pos_bound C D HD) as MB. set (Q := C / D). set (r := C mod D) in *. clearbody Q r D.
  unfold loc_of_rem. destruct (Z.eqb_spec r 0) as [R0|R0].
  - cbn [is_exact negb]. f_equal. subst r. unfold choice, round_N, round_sign_DN, round_sign_UP, cond_incr.
    rewrite !andb_false_r. replace (D <? 2 * 0) with false by lia. replace (2 * 0 =? D) with false by lia.
    replace (D <=? 2 * 0) with false by lia. destruct md; reflexivity.
  - cbn [is_exact negb]. f_equal. unfold choice, round_N, round_sign_DN, round_sign_UP, cond_incr. rewrite !andb_true_r.
    destruct (Z.compare_spec (2 * r) D) as [CE|CL|CG].
    + replace (D <? 2 * r) with false by lia. replace (2 * r =? D) with true by lia. replace (D <=? 2 * r) with true by lia.
      cbn [orb andb]. rewrite <- Z.negb_even. destruct md; reflexivity.
    + replace (D <? 2 * r) with false by lia. replace (2 * r =? D) with false by lia. replace (D <=? 2 * r) with false by lia.
      cbn [orb andb]. destruct md; reflexivity.
    + replace (D <? 2 * r) with true by lia. replace (D <=? 2 * r) with true by lia.
      cbn [orb andb]. destruct md; reflexivity.
Qed.

Lemma rint_n_bounds md s C k : 0 <= C -> 0 <= k -> C / 10 ^ k <= rint_n md s C k <= C / 10 ^ k + 1.
Proof. intros. unfold rint_n. cbv zeta. destruct md; repeat match goal with |- context [if ?c then _ else _] => destruct c end; lia. Qed.

(* NaN: quiet, payload canonicalised; invalid iff signaling *)
Lemma nan_leaf x0 x1 : in_u64 x0 -> in_u64 x1 -> g5W x1 = 31 ->
  let p := (x1 mod 70368744177664) * 18446744073709551616 + x0 in
  let r0 := if p <? T33 then x0 else 0 in
  let r1 := sgZ x1 + 8935141660703064064 + (if p <? T33 then x1 mod 70368744177664 else 0) in
  let fl := if 1 <=? (x1 / 144115188075855872) mod 2 then 1 else 0 in
  in_u64 r0 /\ in_u64 r1 /\ nan_outcomes [decode (pat x0 x1)] = [([pat r0 r1], fl)].
Proof.
  intros H0 H1 G. cbv zeta. rewrite decode_words by assumption. rewrite decodeW_g5. rewrite G. cbn [Z.eqb Pos.eqb].
  unfold nan_outcomes. cbn [existsb filter is_nan is_snan map quiet orb]. rewrite sgZ_sgW by assumption. fold (sgW x1).
  set (p := x1 mod 70368744177664 * 18446744073709551616 + x0).
  assert (Hp : 0 <= x1 mod 70368744177664 < 70368744177664) by (apply Z.mod_pos_bound; reflexivity).
  unfold in_u64 in *. unfold T33.
  split; [destruct (p <? _); lia|]. split; [destruct (p <? _), (sgW x1); lia|].
  assert (E : encode (NaN (sgW x1) false (if p <? 1000000000000000000000000000000000 then p else 0)) =
              pat (if p <? 1000000000000000000000000000000000 then x0 else 0)
                  ((if sgW x1 then 9223372036854775808 else 0) + 8935141660703064064 +
                   (if p <? 1000000000000000000000000000000000 then x1 mod 70368744177664 else 0))).
  { unfold encode, pat, P127, P122. unfold p. destruct (_ <? _), (sgW x1); lia. }
  rewrite E. destruct (1 <=? _); reflexivity.
Qed.

Lemma rint_nan md sx x0 x1 st r0 r1 st' : in_u64 x0 -> in_u64 x1 -> g5W x1 = 31 ->
  let p := (x1 mod 70368744177664) * 18446744073709551616 + x0 in
  r0 = (if p <? T33 then x0 else 0) ->
  r1 = sgZ x1 + 8935141660703064064 + (if p <? T33 then x1 mod 70368744177664 else 0) ->
  st' = (if 1 <=? (x1 / 144115188075855872) mod 2 then Z.lor st 1 else st) ->
  rint_spec md sx x0 x1 st (r0, r1, st').
Proof.
  intros H0 H1 G p -> -> ->. destruct (nan_leaf x0 x1 H0 H1 G) as (R0 & R1 & E). cbv zeta in R0, R1, E. fold p in R0, R1, E.
  unfold rint_spec. split; [exact R0|]. split; [exact R1|].
  exists (if 1 <=? (x1 / 144115188075855872) mod 2 then 1 else 0). split.
  - unfold rint_dec. rewrite <- E. rewrite decode_words by assumption. rewrite decodeW_g5, G. reflexivity.
  - destruct (1 <=? _); [reflexivity|rewrite Z.lor_0_r; reflexivity].
Qed.

(* infinity *)
Lemma rint_inf md sx x0 x1 st r0 r1 : in_u64 x0 -> in_u64 x1 -> g5W x1 = 30 ->
  (r0, r1) = (if sgZ x1 =? 0 then (0, 8646911284551352320) else (0, 17870283321406128128)) ->
  rint_spec md sx x0 x1 st (r0, r1, st).
Proof.
  intros H0 H1 G E. unfold rint_spec, rint_dec. rewrite decode_words by assumption. rewrite decodeW_g5, G.
  cbn [Z.eqb Pos.eqb Z.leb Z.compare Pos.compare Pos.compare_cont is_nan].
  rewrite sgZ_sgW in E by assumption. fold (sgW x1). destruct (sgW x1); cbn [Z.eqb] in E; injection E as -> ->;
  (split; [unfold in_u64; lia|]; split; [unfold in_u64; lia|]; exists 0; split; [vm_compute; reflexivity|rewrite Z.lor_0_r; reflexivity]).
Qed.

(* the finite operand as the model reads it *)
Lemma decode_fin x0 x1 : in_u64 x0 -> in_u64 x1 -> g5W x1 < 30 ->
  decode (pat x0 x1) = Fin (sgW x1) (if 24 <=? g5W x1 then 0 else if hiW x1 * 18446744073709551616 + x0 <? T34 then hiW x1 * 18446744073709551616 + x0 else 0)
                           (bexpW x1 - 6176).
Proof.
  intros H0 H1 G. rewrite decode_words by assumption. rewrite decodeW_g5.
  replace (g5W x1 =? 31) with false by lia. replace (30 <=? g5W x1) with false by lia. reflexivity.
Qed.

Lemma bexpW_range x1 : 0 <= bexpW x1 < 16384.
Proof. unfold bexpW. destruct (24 <=? g5W x1); apply Z.mod_pos_bound; reflexivity. Qed.

(* zero, or a non-canonical encoding (read as zero): zero with the sign of x and the exponent max(q, 0) *)
Lemma rint_zero md sx x0 x1 st r0 r1 : in_u64 x0 -> in_u64 x1 -> g5W x1 < 30 ->
  (24 <= g5W x1 \/ T34 <= hiW x1 * 18446744073709551616 + x0 \/ hiW x1 * 18446744073709551616 + x0 = 0) ->
  r0 = 0 -> r1 = sgZ x1 + Z.max (bexpW x1) 6176 * 562949953421312 ->
  rint_spec md sx x0 x1 st (r0, r1, st).
Proof.
  intros H0 H1 G HZ -> ->. unfold rint_spec, rint_dec. rewrite decode_fin by assumption. cbn [is_nan].
  set (c := if 24 <=? g5W x1 then 0 else _). assert (c = 0) as -> by (unfold c; destruct (24 <=? g5W x1) eqn:?; [reflexivity|destruct (_ <? T34) eqn:?; lia]).
  cbn [Z.eqb]. pose proof (bexpW_range x1) as B. rewrite sgZ_sgW by assumption. fold (sgW x1).
  split; [unfold in_u64; lia|]. split; [unfold in_u64; destruct (sgW x1); lia|]. exists 0. split; [|rewrite Z.lor_0_r; reflexivity].
  unfold out1. apply one_out. unfold encode, pat, P127, P113. destruct (sgW x1); lia.
Qed.

(* canonical, non-zero, finite *)
Lemma x1_fields x1 : in_u64 x1 -> g5W x1 < 24 ->
  x1 = (if sgW x1 then 9223372036854775808 else 0) + beW x1 * 562949953421312 + hiW x1 /\ 0 <= beW x1 <= 12287 /\
  0 <= hiW x1 < 562949953421312 /\ bexpW x1 = beW x1.
Proof.
  unfold in_u64, g5W, sgW, beW, hiW, bexpW, g5W. intros H G. replace (24 <=? (x1 / 288230376151711744) mod 32) with false by lia.
  destruct (Z.leb_spec 9223372036854775808 x1); lia.
Qed.

Lemma decode_can x0 x1 : in_u64 x0 -> in_u64 x1 -> g5W x1 < 24 ->
  let C := hiW x1 * 18446744073709551616 + x0 in 0 < C < T34 ->
  decode (pat x0 x1) = Fin (sgW x1) C (beW x1 - 6176).
Proof.
  intros H0 H1 G C HC. destruct (x1_fields x1 H1 G) as (EX & Hbe & Hhi & EB).
  rewrite decode_fin by (try assumption; lia). replace (24 <=? g5W x1) with false by lia. fold C.
  replace (C <? T34) with true by lia. rewrite EB. reflexivity.
Qed.

(* exponent >= 0: the operand is returned *)
Lemma rint_ident md sx x0 x1 st : in_u64 x0 -> in_u64 x1 -> g5W x1 < 24 ->
  let C := hiW x1 * 18446744073709551616 + x0 in 0 < C < T34 -> 6176 <= beW x1 ->
  rint_spec md sx x0 x1 st (x0, x1, st).
Proof.
  intros H0 H1 G C HC HB. unfold rint_spec, rint_dec. rewrite (decode_can x0 x1 H0 H1 G HC). cbn [is_nan]. fold C.
  replace (C =? 0) with false by lia. replace (0 <=? beW x1 - 6176) with true by lia.
  split; [exact H0|]. split; [exact H1|]. exists 0. split; [|rewrite Z.lor_0_r; reflexivity].
  destruct (x1_fields x1 H1 G) as (EX & Hbe & Hhi & EB).
  unfold out1. apply one_out. unfold encode, pat, P127, P113. unfold C.
  set (s := sgW x1) in *. set (b := beW x1) in *. set (h := hiW x1) in *. clearbody s b h. clear - EX Hbe Hhi. rewrite EX. destruct s; lia.
Qed.

(* exponent < 0: the rounded integer n with exponent 0; inexact is raised iff requested and a non-zero fraction is dropped *)
Lemma rint_dec_fin md sx x0 x1 : in_u64 x0 -> in_u64 x1 -> g5W x1 < 24 ->
  let C := hiW x1 * 18446744073709551616 + x0 in 0 < C < T34 -> beW x1 < 6176 ->
  let k := 6176 - beW x1 in
  rint_dec md sx (pat x0 x1) =
  out1 (Fin (sgW x1) (rint_n md (sgW x1) C k) 0) (if negb (C mod 10 ^ k =? 0) && sx then F_INX else 0).
Proof.
  intros H0 H1 G C HC HB k. unfold rint_dec. rewrite (decode_can x0 x1 H0 H1 G HC). cbn [is_nan]. fold C.
  replace (C =? 0) with false by lia. replace (0 <=? beW x1 - 6176) with false by lia.
  replace (- (beW x1 - 6176)) with k by (unfold k; ring).
  rewrite round_int_closed by (unfold T34 in HC; unfold k; change (10 ^ 34) with 10000000000000000000000000000000000; lia).
  reflexivity.
Qed.

Lemma rint_general md sx x0 x1 st r0 r1 st' h : in_u64 x0 -> in_u64 x1 -> g5W x1 < 24 ->
  let C := hiW x1 * 18446744073709551616 + x0 in 0 < C < T34 -> beW x1 < 6176 ->
  let k := 6176 - beW x1 in
  in_u64 r0 -> 0 <= h -> h * 18446744073709551616 + r0 = rint_n md (sgW x1) C k ->
  r1 = sgZ x1 + 3476778912330022912 + h ->
  st' = (if negb (C mod 10 ^ k =? 0) && sx then Z.lor st 32 else st) ->
  rint_spec md sx x0 x1 st (r0, r1, st').
Proof.
  intros H0 H1 G C HC HB k R0 Hh En -> ->. unfold rint_spec. rewrite (rint_dec_fin md sx x0 x1 H0 H1 G HC HB). fold C k.
  destruct (x1_fields x1 H1 G) as (EX & Hbe & Hhi & EB).
  pose proof (rint_n_bounds md (sgW x1) C k ltac:(lia) ltac:(unfold k; lia)) as NB.
  assert (QB : 0 <= C / 10 ^ k < 1000000000000000000000000000000000).
  { assert (HD : 10 <= 10 ^ k) by (change 10 with (10 ^ 1) at 1; apply Z.pow_le_mono_r; unfold k; lia).
    split; [apply Z.div_pos; lia|]. apply Z.div_lt_upper_bound; [lia|]. unfold T34 in HC. nia. }
  rewrite sgZ_sgW by assumption. fold (sgW x1).
  split; [exact R0|]. split; [unfold in_u64 in *; destruct (sgW x1); lia|].
  exists (if negb (C mod 10 ^ k =? 0) && sx then F_INX else 0). split.
  - unfold out1. apply one_out. unfold encode, pat, P127, P113. rewrite <- En. destruct (sgW x1); lia.
  - destruct (negb _ && sx); [reflexivity|rewrite Z.lor_0_r; reflexivity].
Qed.

(* ---------- small facts used by the walk ---------- *)
Lemma wrap_i32_u64 z : wrap_i32 (wrap_u64 z) = wrap_i32 z.
Proof. unfold wrap_i32, wrap_u64. lia. Qed.
Lemma lor_hi63 m v : 0 <= v < 9223372036854775808 -> Z.lor (m * 9223372036854775808) v = m * 9223372036854775808 + v.
Proof. intros H. apply (lor_mult_low v (m * 9223372036854775808) 63 9223372036854775808); try reflexivity; try lia. Qed.
Lemma lor_res h m : 0 <= h < 562949953421312 ->
  Z.lor h (Z.lor (m * 9223372036854775808) 3476778912330022912) = m * 9223372036854775808 + 3476778912330022912 + h.
Proof.
  intros H. rewrite lor_hi63 by lia.
  rewrite (lor_low_mult h (m * 9223372036854775808 + 3476778912330022912) 49 562949953421312); try reflexivity; try lia.
Qed.

(* the 128-bit right shift of (p3, p2) by 0 < s < 64 as the code writes it *)
Lemma shr128_words p2 p3 s : in_u64 p2 -> in_u64 p3 -> 0 < s < 64 ->
  let Q := (p3 * 18446744073709551616 + p2) / 2 ^ s in
  Z.shiftr p3 (s mod 64) = Q / 18446744073709551616 /\
  Z.lor (wrap_u64 (Z.shiftl p3 ((64 - s) mod 64))) (Z.shiftr p2 (s mod 64)) = Q mod 18446744073709551616.
Proof.
  intros H2 H3 Hs Q. unfold in_u64 in *.
  rewrite (Z.mod_small s 64) by lia. rewrite (Z.mod_small (64 - s) 64) by lia.
  rewrite !Z.shiftr_div_pow2, Z.shiftl_mul_pow2 by lia. unfold wrap_u64.
  set (a := 2 ^ s) in *. set (b := 2 ^ (64 - s)).
  assert (Ha : 0 < a) by (apply Z.pow_pos_nonneg; lia). assert (Hb : 0 < b) by (apply Z.pow_pos_nonneg; lia).
  assert (E64 : 18446744073709551616 = b * a) by (unfold a, b; rewrite <- Z.pow_add_r by lia; replace (64 - s + s) with 64 by ring; reflexivity).
  assert (EQ : Q = p3 * b + p2 / a).
  { unfold Q. rewrite E64. replace (p3 * (b * a) + p2) with (p2 + (p3 * b) * a) by ring. rewrite Z.div_add by lia. ring. }
  pose proof (Z.div_mod p3 a ltac:(lia)) as DM3. pose proof (Z.mod_pos_bound p3 a Ha) as MB3.
  pose proof (Z.div_mod p2 a ltac:(lia)) as DM2. pose proof (Z.mod_pos_bound p2 a Ha) as MB2.
  set (h3 := p3 / a) in *. set (l3 := p3 mod a) in *. set (h2 := p2 / a) in *. set (l2 := p2 mod a) in *.
  assert (Hh2 : 0 <= h2 < b).
  { split; [unfold h2; apply Z.div_pos; lia|]. unfold h2. apply Z.div_lt_upper_bound; [lia|]. rewrite Z.mul_comm, <- E64. lia. }
  assert (Hh3 : 0 <= h3) by (unfold h3; apply Z.div_pos; lia).
  assert (EM : (p3 * b) mod (b * a) = l3 * b).
  { rewrite DM3. replace ((a * h3 + l3) * b) with (l3 * b + h3 * (b * a)) by ring. rewrite Z.mod_add by lia.
    apply Z.mod_small. split; [apply Z.mul_nonneg_nonneg; lia|]. rewrite (Z.mul_comm b a). apply Z.mul_lt_mono_pos_r; lia. }
  rewrite E64, EM.
  assert (EL : Z.lor (l3 * b) h2 = l3 * b + h2).
  { apply (lor_mult_low h2 (l3 * b) (64 - s) b); try reflexivity; try lia. apply Z_mod_mult. }
  rewrite EL, EQ. rewrite DM3.
  assert (LB : 0 <= l3 * b + h2 < b * a).
  { split; [assert (0 <= l3 * b) by (apply Z.mul_nonneg_nonneg; lia); lia|].
    assert (l3 * b <= (a - 1) * b) by (apply Z.mul_le_mono_nonneg_r; lia). replace (b * a) with ((a - 1) * b + b) by ring. lia. }
  replace ((a * h3 + l3) * b + h2) with ((l3 * b + h2) + h3 * (b * a)) by ring.
  rewrite Z.div_add, Z.mod_add by lia. rewrite Z.div_small, Z.mod_small by exact LB. split; ring.
Qed.

Lemma shr64_word p3 s : 64 <= s < 128 -> Z.shiftr p3 ((s - 64) mod 64) = p3 / 2 ^ (s - 64).
Proof.
  intros Hs. rewrite (Z.mod_small (s - 64) 64) by lia.
  apply Z.shiftr_div_pow2. lia.
Qed.

Lemma words_split Q : 0 <= Q -> in_u64 (Q mod 18446744073709551616) /\ 0 <= Q / 18446744073709551616 /\
  Q / 18446744073709551616 * 18446744073709551616 + Q mod 18446744073709551616 = Q.
Proof. intros H. unfold in_u64. lia. Qed.

Lemma quot_small C nd k : 0 < C < 10 ^ nd -> 0 <= nd <= k -> C / 10 ^ k = 0.
Proof.
  intros HC Hk. apply Z.div_small. split; [lia|]. apply Z.lt_le_trans with (10 ^ nd); [lia|apply Z.pow_le_mono_r; lia].
Qed.
Lemma quot_bound C k : 0 < C < 10000000000000000000000000000000000 -> 1 <= k -> 0 <= C / 10 ^ k < 1000000000000000000000000000000000.
Proof.
  intros HC Hk. assert (HD : 10 <= 10 ^ k) by (change 10 with (10 ^ 1) at 1; apply Z.pow_le_mono_r; lia).
  split; [apply Z.div_pos; lia|]. apply Z.div_lt_upper_bound; [lia|]. nia.
Qed.
Lemma nd_bounds C : 0 < C -> 10 ^ (ndigits C - 1) <= C < 10 ^ ndigits C.
Proof. intros H. unfold ndigits. pose proof (Zdigits_correct radix10 C) as D. rewrite Z.abs_eq in D by lia. exact D. Qed.
Lemma nd_range C : 0 < C < 10 ^ 34 -> 1 <= ndigits C <= 34.
Proof. intros H. unfold ndigits. apply digits34. exact H. Qed.

(* ---------- leaves in the vocabulary of the walk ---------- *)
(* the general leaf with the sign bit sb = bit 63 of the high word as an integer (what the code tests) *)
Lemma rint_leaf md sx x0 x1 st r0 r1 st' h sb : in_u64 x0 -> in_u64 x1 -> g5W x1 < 24 ->
  let C := (x1 mod 562949953421312) * 18446744073709551616 + x0 in
  let be := (x1 / 562949953421312) mod 16384 in
  0 < C < 10000000000000000000000000000000000 -> be < 6176 ->
  let k := 6176 - be in
  sb = (x1 / 9223372036854775808) mod 2 ->
  in_u64 r0 -> 0 <= h -> h * 18446744073709551616 + r0 = rint_n md (1 <=? sb) C k ->
  r1 = sb * 9223372036854775808 + 3476778912330022912 + h ->
  st' = (if negb (C mod 10 ^ k =? 0) && sx then Z.lor st 32 else st) ->
  rint_spec md sx x0 x1 st (r0, r1, st').
Proof.
  intros H0 H1 G C be HC HB k Esb R0 Hh En -> ->.
  assert (ES : sgW x1 = (1 <=? sb)) by (subst sb; unfold sgW, in_u64 in *; lia).
  apply (rint_general md sx x0 x1 st r0 _ _ h H0 H1 G HC HB R0 Hh).
  - rewrite ES. exact En.
  - unfold sgZ. subst sb. reflexivity.
  - reflexivity.
Qed.

(* |x| < 1: the quotient is 0 and the remainder is C *)
Lemma rint_n_small md s C k : 0 < C < 10 ^ k ->
  rint_n md s C k = match md with RTZ => 0 | RDN => if s then 1 else 0 | RUP => if s then 0 else 1
                                | RNE => if 10 ^ k <? 2 * C then 1 else 0 | RNA => if 10 ^ k <=? 2 * C then 1 else 0 end.
Proof.
  intros H. unfold rint_n. cbv zeta. rewrite Z.div_small, Z.mod_small by lia.
  replace (C =? 0) with false by lia. cbn [Z.odd andb negb orb]. rewrite !andb_true_r, andb_false_r, orb_false_r.
  destruct md, s; reflexivity.
Qed.

(* 128-bit increment as the code writes it *)
Lemma inc128 r0 h : in_u64 r0 -> 0 <= h < 9223372036854775808 ->
  let r0' := wrap_u64 (r0 + 1) in let h' := if r0' =? 0 then wrap_u64 (h + 1) else h in
  in_u64 r0' /\ 0 <= h' /\ h' * 18446744073709551616 + r0' = h * 18446744073709551616 + r0 + 1.
Proof. unfold in_u64, wrap_u64. intros H0 Hh. cbv zeta. destruct (Z.eqb_spec ((r0 + 1) mod 18446744073709551616) 0); lia. Qed.

(* BID_MASKHIGH128: the low s mod 64 bits *)
Lemma land_mask p k : 1 <= k <= 34 -> 0 <= p -> Z.land p (rm k) = p mod 2 ^ (rs k mod 64).
Proof.
  intros Hk Hp. destruct (rint_row k Hk) as (_ & _ & RS & _ & _ & RM & _). cbv zeta in RS, RM. rewrite RM.
  apply land_low. apply Z.mod_pos_bound. reflexivity.
Qed.

(* the code's "discarded part >= K" tests decide r <> 0 (a = the discarded bits above the low 128) *)
Lemma ge_test0 p1 p0 K1 K0 r : 0 <= p0 < 18446744073709551616 -> 0 <= p1 < 18446744073709551616 ->
  0 <= K0 < 18446744073709551616 -> 0 <= K1 < 18446744073709551616 ->
  (0 * 340282366920938463463374607431768211456 + (p1 * 18446744073709551616 + p0) < K1 * 18446744073709551616 + K0 <-> r = 0) ->
  ((p1 >? K1) || (p1 =? K1) && (p0 >=? K0)) = negb (r =? 0).
Proof. intros. lia. Qed.
Lemma ge_test1 a p1 p0 K1 K0 r : 0 <= a -> 0 <= p0 < 18446744073709551616 -> 0 <= p1 < 18446744073709551616 ->
  0 <= K0 < 18446744073709551616 -> 0 <= K1 < 18446744073709551616 ->
  (a * 340282366920938463463374607431768211456 + (p1 * 18446744073709551616 + p0) < K1 * 18446744073709551616 + K0 <-> r = 0) ->
  (negb (a =? 0) || (p1 >? K1) || (p1 =? K1) && (p0 >=? K0)) = negb (r =? 0).
Proof. intros. lia. Qed.
Lemma ge_test2 m p2 p1 p0 K1 K0 r : 0 <= m -> 0 <= p2 < 18446744073709551616 -> 0 <= p0 < 18446744073709551616 -> 0 <= p1 < 18446744073709551616 ->
  0 <= K0 < 18446744073709551616 -> 0 <= K1 < 18446744073709551616 ->
  ((m * 18446744073709551616 + p2) * 340282366920938463463374607431768211456 + (p1 * 18446744073709551616 + p0) < K1 * 18446744073709551616 + K0 <-> r = 0) ->
  (negb (m =? 0) || negb (p2 =? 0) || (p1 >? K1) || (p1 =? K1) && (p0 >=? K0)) = negb (r =? 0).
Proof. intros. lia. Qed.

(* ---------- round to nearest: add half, divide (and step back from an odd quotient on a tie) ---------- *)
Lemma half_split C k : 0 <= C -> 1 <= k ->
  let D := 10 ^ k in let h := 5 * 10 ^ (k - 1) in let Q := C / D in let r := C mod D in
  D = 2 * h /\ 0 < h /\ 0 <= r < D /\ 0 <= Q /\
  (C + h) / D = Q + (if r + h <? D then 0 else 1) /\ (C + h) mod D = (if r + h <? D then r + h else r + h - D).
Proof.
  intros Hc Hk D h Q r.
  assert (HD : 0 < D) by (apply Z.pow_pos_nonneg; lia).
  assert (DH : D = 2 * h) by (unfold D, h; replace k with (Z.succ (k - 1)) at 1 by lia; rewrite Z.pow_succ_r by lia; ring).
  assert (Hh : 0 < h) by (unfold h; assert (0 < 10 ^ (k - 1)) by (apply Z.pow_pos_nonneg; lia); lia).
  pose proof (Z.div_mod C D ltac:(lia)) as DM. pose proof (Z.mod_pos_bound C D HD) as MB. fold Q r in DM, MB.
  assert (Hq : 0 <= Q) by (apply Z.div_pos; lia).
  repeat split; try lia.
  - destruct (Z.ltb_spec (r + h) D).
    + symmetry; apply (Z.div_unique (C + h) D (Q + 0) (r + h)); lia.
    + symmetry; apply (Z.div_unique (C + h) D (Q + 1) (r + h - D)); lia.
  - destruct (Z.ltb_spec (r + h) D).
    + symmetry; apply (Z.mod_unique (C + h) D (Q + 0) (r + h)); lia.
    + symmetry; apply (Z.mod_unique (C + h) D (Q + 1) (r + h - D)); lia.
Qed.

Lemma rne_form s C k : 0 <= C -> 1 <= k ->
  let D := 10 ^ k in let C' := C + 5 * 10 ^ (k - 1) in
  rint_n RNE s C k = (if (C' mod D =? 0) && ((C' / D) mod 2 =? 1) then C' / D - 1 else C' / D).
Proof.
  intros Hc Hk D C'. destruct (half_split C k Hc Hk) as (DH & Hh & Hr & HQ & E1 & E2). cbv zeta in *. fold D in DH, Hr, E1, E2.
  unfold C'. rewrite E1, E2. unfold rint_n. cbv zeta. fold D.
  set (h := 5 * 10 ^ (k - 1)) in *. set (Q := C / D) in *. set (r := C mod D) in *. clearbody Q r h D. subst D.
  rewrite (Zmod_odd (Q + (if r + h <? 2 * h then 0 else 1))).
  destruct (Z.ltb_spec (r + h) (2 * h)).
  - rewrite Z.add_0_r. replace (r + h =? 0) with false by lia. replace (2 * h <? 2 * r) with false by lia. replace (2 * r =? 2 * h) with false by lia.
    cbn [andb orb]. reflexivity.
  - rewrite Z.add_1_r, Z.odd_succ, <- Z.negb_odd.
    destruct (Z.eqb_spec (r + h - 2 * h) 0) as [E|E].
    + replace (2 * h <? 2 * r) with false by lia. replace (2 * r =? 2 * h) with true by lia. cbn [andb orb].
      destruct (Z.odd Q); cbn [negb Z.eqb Pos.eqb]; lia.
    + replace (2 * h <? 2 * r) with true by lia. cbn [andb orb]. lia.
Qed.

Lemma rna_form s C k : 0 <= C -> 1 <= k -> rint_n RNA s C k = (C + 5 * 10 ^ (k - 1)) / 10 ^ k.
Proof.
  intros Hc Hk. destruct (half_split C k Hc Hk) as (DH & Hh & Hr & HQ & E1 & E2). cbv zeta in *.
  rewrite E1. unfold rint_n. cbv zeta.
  set (D := 10 ^ k) in *. set (h := 5 * 10 ^ (k - 1)) in *. set (Q := C / D) in *. set (r := C mod D) in *. clearbody Q r h D. subst D.
  destruct (Z.ltb_spec (r + h) (2 * h)); destruct (Z.leb_spec (2 * h) (2 * r)); lia.
Qed.

(* the midpoint 5 * 10^(k-1) as the code reads it: BID_MIDPOINT64[k-1] (k <= 19) or the two words of BID_MIDPOINT128[k-20] *)
Lemma mid_words k : 1 <= k <= 34 ->
  let M := 5 * 10 ^ (k - 1) in
  0 < M <= 5000000000000000000000000000000000 /\
  (k <= 19 -> nth (Z.to_nat (k - 1)) T_BID_MIDPOINT64 0 = M /\ M < 18446744073709551616) /\
  (20 <= k -> in_u64 (nth (Z.to_nat (k - 20)) T_BID_MIDPOINT128_w0 0) /\
              nth (Z.to_nat (k - 20)) T_BID_MIDPOINT128_w1 0 * 18446744073709551616 + nth (Z.to_nat (k - 20)) T_BID_MIDPOINT128_w0 0 = M).
Proof.
  intros Hk M.
  assert (HM : 0 < M <= 5000000000000000000000000000000000).
  { unfold M. assert (0 < 10 ^ (k - 1)) by (apply Z.pow_pos_nonneg; lia).
    assert (10 ^ (k - 1) <= 10 ^ 33) by (apply Z.pow_le_mono_r; lia). change (10 ^ 33) with 1000000000000000000000000000000000 in *. lia. }
  split; [exact HM|]. split.
  - intros K. rewrite (midpoint64_row (k - 1)) by lia. split; [reflexivity|]. unfold M.
    assert (10 ^ (k - 1) <= 10 ^ 18) by (apply Z.pow_le_mono_r; lia). change (10 ^ 18) with 1000000000000000000 in *. lia.
  - intros K. destruct (midpoint128_row (k - 20) ltac:(lia)) as [A B]. split; [exact A|]. rewrite B. unfold M. f_equal. f_equal. lia.
Qed.

(* the code's "discarded part < K" tests decide r = 0 *)
Lemma lt_test0 p1 p0 K1 K0 r : 0 <= p0 < 18446744073709551616 -> 0 <= p1 < 18446744073709551616 ->
  0 <= K0 < 18446744073709551616 -> 0 <= K1 < 18446744073709551616 ->
  (0 * 340282366920938463463374607431768211456 + (p1 * 18446744073709551616 + p0) < K1 * 18446744073709551616 + K0 <-> r = 0) ->
  ((p1 <? K1) || (p1 =? K1) && (p0 <? K0)) = (r =? 0).
Proof. intros. lia. Qed.
Lemma lt_test1 a p1 p0 K1 K0 r : 0 <= a -> 0 <= p0 < 18446744073709551616 -> 0 <= p1 < 18446744073709551616 ->
  0 <= K0 < 18446744073709551616 -> 0 <= K1 < 18446744073709551616 ->
  (a * 340282366920938463463374607431768211456 + (p1 * 18446744073709551616 + p0) < K1 * 18446744073709551616 + K0 <-> r = 0) ->
  ((a =? 0) && ((p1 <? K1) || (p1 =? K1) && (p0 <? K0))) = (r =? 0).
Proof. intros. lia. Qed.
Lemma lt_test2 m p2 p1 p0 K1 K0 r : 0 <= m -> 0 <= p2 < 18446744073709551616 -> 0 <= p0 < 18446744073709551616 -> 0 <= p1 < 18446744073709551616 ->
  0 <= K0 < 18446744073709551616 -> 0 <= K1 < 18446744073709551616 ->
  ((m * 18446744073709551616 + p2) * 340282366920938463463374607431768211456 + (p1 * 18446744073709551616 + p0) < K1 * 18446744073709551616 + K0 <-> r = 0) ->
  ((m =? 0) && ((p2 =? 0) && ((p1 <? K1) || (p1 =? K1) && (p0 <? K0)))) = (r =? 0).
Proof. intros. lia. Qed.

Lemma land_1 x : Z.land x 1 = x mod 2.
Proof. change 1 with (Z.ones 1) at 1. rewrite Z.land_ones by lia. reflexivity. Qed.

Lemma if_tt (c:bool) : (if c then true else true) = true.
Proof. destruct c; reflexivity. Qed.

(* ---------- the walk through the generated code (tactics as in ImplNext.v) ---------- *)
Ltac spine_head t := lazymatch t with
  | match ?s with pair _ _ => _ end => spine_head s
  | _ => t end.
Ltac goal_term k := lazymatch goal with |- ?t = true => k t | |- ?P ?t => k t end.
Tactic Notation "step_if" ident(E) :=
  goal_term ltac:(fun t => let h := spine_head t in
    lazymatch h with if ?c then _ else _ => destruct c eqn:E; cbv beta iota end).
Ltac step_ifs :=
  repeat (goal_term ltac:(fun t => let h := spine_head t in
    lazymatch h with if ?c then _ else _ => let E := fresh "E" in destruct c eqn:E; cbv beta iota end)).
Ltac guard_true tac :=
  goal_term ltac:(fun t => let h := spine_head t in
    lazymatch h with if ?c then _ else _ => replace c with true by tac; cbv beta iota end).

(* NaN leaf *)
Ltac rint_nan_leaf :=
  apply rint_nan; [assumption|assumption|lia|..]; cbv zeta; unfold T33, sgZ; unfold g5W in *;
  [ match goal with |- context [?p <? ?t] => destruct (Z.ltb_spec p t) end; lia
  | match goal with |- context [?p <? ?t] => destruct (Z.ltb_spec p t) end; lia
  | match goal with |- context [1 <=? ?b] => destruct (Z.leb_spec 1 b) end; first [reflexivity | lia] ].

(* the bit length through the f64 idiom: value (tmp, 1 + floor(log2 C)) *)
Ltac nbits_tac x0 hi C :=
  destruct (hi =? 0) eqn:?Hz; [destruct (x0 >=? 9007199254740992) eqn:?Big|];
  [ replace (x0 >=? 4294967296) with true by lia; cbv beta iota;
    assert (X1 : 0 < x0 / 4294967296 < 9007199254740992) by lia;
    try (replace (x0 / 4294967296 <? 9007199254740992) with true by lia; cbv beta iota);
    rewrite (f64_exp_field _ X1); pose proof (log2_lt_53 _ X1); wrap_ids lia;
    eexists; repeat match goal with |- (_, _) = (_, _) => f_equal end;
    rewrite (log2_div_pow2 x0 32 4294967296) by (try reflexivity; lia); unfold C; replace hi with 0 by lia;
    rewrite Z.mul_0_l, Z.add_0_l; lia
  | assert (X1 : 0 < x0 < 9007199254740992) by lia;
    try (replace (x0 <? 9007199254740992) with true by lia; cbv beta iota);
    rewrite (f64_exp_field _ X1); pose proof (log2_lt_53 _ X1); wrap_ids lia;
    eexists; repeat match goal with |- (_, _) = (_, _) => f_equal end;
    unfold C; replace hi with 0 by lia; rewrite Z.mul_0_l, Z.add_0_l; lia
  | assert (X1 : 0 < hi < 9007199254740992) by lia;
    try (replace (hi <? 9007199254740992) with true by lia; cbv beta iota);
    rewrite (f64_exp_field _ X1); pose proof (log2_lt_53 _ X1); wrap_ids lia;
    eexists; repeat match goal with |- (_, _) = (_, _) => f_equal end;
    unfold C; rewrite log2_hi_lo by lia; lia ].
Ltac nbits_stage x0 hi C :=
  goal_term ltac:(fun t => let h := spine_head t in
    let E := fresh "E" in let tt := fresh "t" in
    assert (E : exists tt, h = (tt, 1 + Z.log2 C));
    [ nbits_tac x0 hi C | destruct E as [tt E]; rewrite E; clear E; cbv beta iota ]).
Ltac nbits_stage_ok x0 hi C :=
  goal_term ltac:(fun t => let h := spine_head t in
    let E := fresh "E" in let tt := fresh "t" in
    assert (E : exists tt, h = (true, tt, 1 + Z.log2 C));
    [ nbits_tac x0 hi C | destruct E as [tt E]; rewrite E; clear E; cbv beta iota ]).

(* the digit count from BID_NR_DIGITS (ImplTables.nr_digits_spec): row n = 1 + floor(log2 C) *)
Ltac digits_prelude C n HCn Hn D1 D2 D3 D4 D5 :=
  set (n := 1 + Z.log2 C) in *;
  assert (HCn : 2 ^ (n - 1) <= C < 2 ^ n) by
    (replace (n - 1) with (Z.log2 C) by (unfold n; lia); unfold n; rewrite Z.add_comm; apply log2_bounds; lia);
  assert (Hn : 1 <= n <= 113) by
    (split; [pose proof (Z.log2_nonneg C); unfold n; lia|];
     assert (Z.log2 C < 113) by (apply Z.log2_lt_pow2; [lia|]; change (2 ^ 113) with 10384593717069655257060992658440192; lia);
     unfold n; lia);
  rewrite ?(wrap_usize_id (n - 1)) by (unfold in_u64; lia);
  change (nth (Z.to_nat (n - 1)) T_BID_NR_DIGITS_digits 0) with (nrd_d n);
  change (nth (Z.to_nat (n - 1)) T_BID_NR_DIGITS_digits1 0) with (nrd_d1 n);
  change (nth (Z.to_nat (n - 1)) T_BID_NR_DIGITS_threshold_hi 0) with (nrd_hi n);
  change (nth (Z.to_nat (n - 1)) T_BID_NR_DIGITS_threshold_lo 0) with (nrd_lo n);
  destruct (nr_digits_spec n C Hn HCn) as (D1 & D2 & D3 & D4 & D5); unfold in_u64 in D3, D4.
(* value function: the digit count q is a zeta-inlined expression in `wrap_i32 (q + exp) >? 0` (or `>=? 0`); every occurrence
   becomes ndigits C *)
Ltac digits_core x0 hi C n HCn D5 q :=
  let Eq := fresh "Eq" in
  assert (Eq : q = ndigits C) by
    (rewrite D5; clear HCn D5; clearbody n; wrap_ids lia;
     destruct (nrd_d n =? 0); [|reflexivity];
     destruct (nrd_hi n * 18446744073709551616 + nrd_lo n <=? C) eqn:?;
     destruct ((hi >? nrd_hi n) || (hi =? nrd_hi n) && (x0 >=? nrd_lo n)) eqn:?; wrap_ids lia; unfold C in *; lia);
  rewrite !Eq; clear Eq.
Ltac digits_stage x0 hi C :=
  let n := fresh "n" in let HCn := fresh "HCn" in let Hn := fresh "Hn" in
  let D1 := fresh "D" in let D2 := fresh "D" in let D3 := fresh "D" in let D4 := fresh "D" in let D5 := fresh "D" in
  digits_prelude C n HCn Hn D1 D2 D3 D4 D5;
  lazymatch goal with
  | |- context [wrap_i32 (?q + _) >? 0] => digits_core x0 hi C n HCn D5 q
  | |- context [wrap_i32 (?q + _) >=? 0] => digits_core x0 hi C n HCn D5 q
  end;
  clear D1 D2 D3 D4 D5 HCn Hn; clearbody n.
(* ok_ predicate: index guard, then q as a merged (ok, q) pair *)
Ltac digits_stage_ok x0 hi C :=
  let n := fresh "n" in let HCn := fresh "HCn" in let Hn := fresh "Hn" in
  let D1 := fresh "D" in let D2 := fresh "D" in let D3 := fresh "D" in let D4 := fresh "D" in let D5 := fresh "D" in
  digits_prelude C n HCn Hn D1 D2 D3 D4 D5;
  guard_true lia;
  goal_term ltac:(fun t => let h := spine_head t in
    let E := fresh "E" in
    assert (E : h = (true, ndigits C));
    [ rewrite D5; clear HCn D5; clearbody n; wrap_ids lia; split_ifs_eq; wrap_ids lia;
      first [reflexivity | exfalso; unfold C in *; lia | f_equal; unfold C in *; lia]
    | rewrite E; clear E; cbv beta iota ]);
  clear D1 D2 D3 D4 D5 HCn Hn; clearbody n.

(* zero / non-canonical leaf: CND proves the disjunction of rint_zero *)
Ltac rint_zero_leaf x1 CND :=
  apply rint_zero; [assumption|assumption|lia|CND|reflexivity|];
  unfold sgZ, bexpW; first [replace (24 <=? g5W x1) with true by lia | replace (24 <=? g5W x1) with false by lia];
  change (wrap_u64 (6176 * 562949953421312)) with 3476778912330022912;
  rewrite !lor_hi63 by lia; split_ifs_eq; lia.

(* the reciprocal multiplication: product words p0..p3 of C' * K_k with the facts of rq_core *)
Ltac mul_stage x0 hi C k HC Hk H0 :=
  assert (Hk34 : 1 <= k <= 34) by lia;
  destruct (rint_row k Hk34) as (RK0 & RK1 & RS & RB & RZ & RM & RE1 & RE2); cbv zeta in RS, RB, RZ, RM;
  pose proof (R_mul_128x128_to_256 x0 hi _ _ H0 ltac:(unfold in_u64; lia) RK0 RK1) as MUL;
  destruct (i___mul_128x128_to_256 _ _ _ _) as [[[p0 p1] p2] p3]; destruct MUL as (P0 & P1 & P2 & P3 & MUL);
  change (hi * 18446744073709551616 + x0) with C in MUL; fold (rk k) in MUL;
  destruct (rq_core k C p0 p1 p2 p3 Hk34 ltac:(lia) P0 P1 P2 P3 MUL) as (QQ & QA & T0 & TH & TL); cbv zeta in QA, T0, TH, TL;
  change (nth (Z.to_nat (k - 1)) T_BID_SHIFTRIGHT128 0) with (rs k);
  try change (nth (Z.to_nat (k - 1)) T_BID_MASKHIGH128 0) with (rm k);
  pose proof (quot_bound C k HC Hk) as QB; rewrite <- QQ in QB.

(* the same with the coefficient words (c0, c1) and its value C' as parameters (round to nearest: C' = C + 5 * 10^(k-1)) *)
Ltac mul_stage_gen c0 c1 C' k EC HC0 HC1 HCb Hk34 :=
  destruct (rint_row k Hk34) as (RK0 & RK1 & RS & RB & RZ & RM & RE1 & RE2); cbv zeta in RS, RB, RZ, RM;
  pose proof (R_mul_128x128_to_256 c0 c1 _ _ HC0 HC1 RK0 RK1) as MUL;
  destruct (i___mul_128x128_to_256 _ _ _ _) as [[[p0 p1] p2] p3]; destruct MUL as (P0 & P1 & P2 & P3 & MUL);
  rewrite EC in MUL; fold (rk k) in MUL;
  destruct (rq_core k C' p0 p1 p2 p3 Hk34 HCb P0 P1 P2 P3 MUL) as (QQ & QA & T0 & TH & TL); cbv zeta in QA, T0, TH, TL;
  change (nth (Z.to_nat (k - 1)) T_BID_SHIFTRIGHT128 0) with (rs k);
  try change (nth (Z.to_nat (k - 1)) T_BID_MASKHIGH128 0) with (rm k).

(* walk through an ok_ predicate along the spine, outermost first: a guard (else-branch false / (false, ..)) is proved by tac
   from the path conditions, any other condition is split, a call at the head of the spine is opened *)
Ltac ok_spine tac :=
  repeat (first
    [ reflexivity
    | lazymatch goal with |- false = true => fail 2 "a guard of the ok_ predicate was not proved" end
    | goal_term ltac:(fun t => let h := spine_head t in
        lazymatch h with
        | if ?c then _ else ?b =>
            first [ is_fail b; first [ replace c with true by tac | replace c with true by (repeat rewrite if_tt; reflexivity) | fail 3 "guard not proved:" c ]; cbv beta iota
                  | let E := fresh "E" in destruct c eqn:E; cbv beta iota ]
        | _ => progress (destruct h; cbv beta iota)
        end) ]).
