(* Layer I, group NA: bid128_nextafter and bid128_nexttoward equal the reference model m_next_after for ALL inputs (every pair
   of 128-bit patterns incl. non-canonical encodings and NaNs, every incoming status word): ok_ = true, result words in range,
   the result is one of the model's outcomes (the model leaves open which NaN operand is propagated) and the status word is
   the incoming word or-ed with that outcome's flags (invalid for a signaling NaN; overflow|inexact when a finite x steps to
   infinity; underflow|inexact when the result is subnormal or zero and differs from x). The proofs are in the shared files
   ImplNext2c.v (value) and ImplNext2d.v (ok_); these blocks state the theorems. Axiom-free. *)
From Coq Require Import ZArith Lia Bool List ZifyBool.
From DV Require Import Base Bid BidProofs OpsArith OpsCmp OpsMisc OpsConv.
From DVI Require Import ImplLib ImplGen ImplCommon.
Import ListNotations.
Open Scope Z_scope.
Ltac unfold_helpers := unfold i_d128_Default_default, i_d128_new.
(* HEADER END *)

(* BEGIN bid128_nextafter *)
From DVI Require Import ImplTables ImplNext ImplMul0 ImplMul ImplOrder ImplCmp ImplCmp2 ImplNext2a ImplNext2b ImplNext2 ImplNext2c ImplNext2d.
Theorem I_bid128_nextafter x0 x1 y0 y1 st : in_u64 x0 -> in_u64 x1 -> in_u64 y0 -> in_u64 y1 -> in_u32 st ->
  ok_bid128_nextafter x0 x1 y0 y1 st = true /\
  let '(r0, r1, st') := i_bid128_nextafter x0 x1 y0 y1 st in
  in_u64 r0 /\ in_u64 r1 /\
  exists fl, In ([pat r0 r1], fl) (m_next_after (pat x0 x1) (pat y0 y1)) /\ st' = Z.lor st fl.
Proof.
  intros H0 H1 G0 G1 Hst. split; [apply OK_bid128_nextafter|apply (V_bid128_nextafter x0 x1 y0 y1 st)]; assumption.
Qed.
Print Assumptions I_bid128_nextafter.
(* END bid128_nextafter *)

(* BEGIN bid128_nexttoward *)
From DVI Require Import ImplTables ImplNext ImplMul0 ImplMul ImplOrder ImplCmp ImplCmp2 ImplNext2a ImplNext2b ImplNext2 ImplNext2c ImplNext2d.
(* bid128_nexttoward is a wrapper: it returns what bid128_nextafter returns, its ok_ is that of bid128_nextafter *)
Theorem I_bid128_nexttoward x0 x1 y0 y1 st : in_u64 x0 -> in_u64 x1 -> in_u64 y0 -> in_u64 y1 -> in_u32 st ->
  ok_bid128_nexttoward x0 x1 y0 y1 st = true /\
  let '(r0, r1, st') := i_bid128_nexttoward x0 x1 y0 y1 st in
  in_u64 r0 /\ in_u64 r1 /\
  exists fl, In ([pat r0 r1], fl) (m_next_after (pat x0 x1) (pat y0 y1)) /\ st' = Z.lor st fl.
Proof.
  intros H0 H1 G0 G1 Hst. unfold ok_bid128_nexttoward, i_bid128_nexttoward.
  rewrite (OK_bid128_nextafter x0 x1 y0 y1 st H0 H1 G0 G1 Hst).
  pose proof (V_bid128_nextafter x0 x1 y0 y1 st H0 H1 G0 G1 Hst) as V. unfold next_after_spec in V.
  destruct (i_bid128_nextafter x0 x1 y0 y1 st) as [[r0 r1] st']. split; [reflexivity|exact V].
Qed.
Print Assumptions I_bid128_nexttoward.
(* END bid128_nexttoward *)
