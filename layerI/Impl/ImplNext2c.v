(* Layer I, group NA: the value theorem of bid128_nextafter for ALL operand pairs (shared file, because the block of
   bid128_nexttoward needs it too and the proof takes about 3 minutes). The continuation after the NaN / infinity prologue
   occurs twice in the generated code (k_1 of the translator); it is abstracted over the two infinity-canonicalised operand
   copies and proved once (HK). Inside: canonicalisation of x (canon_prove of ImplCmp2.v), the two comparison calls through
   their value lemmas (ImplNext2a.v), case analysis on cmp_dec, bid128_nextup / bid128_nextdown through their specifications
   (ImplNext2b.v), the flag computation = na_flags, and the leaf lemmas of ImplNext2.v. Axiom-free. *)
From Coq Require Import ZArith Lia Bool List ZifyBool.
From DV Require Import Base Bid BidProofs OpsArith OpsCmp OpsMisc OpsConv.
From DVI Require Import ImplLib ImplGen ImplCommon.
Import ListNotations.
Open Scope Z_scope.
Ltac unfold_helpers := unfold i_d128_Default_default, i_d128_new.
From DVI Require Import ImplTables ImplNext ImplMul0 ImplMul ImplOrder ImplCmp ImplCmp2 ImplNext2a ImplNext2b ImplNext2.
Ltac na_calls :=
  mask_tests;
  match goal with |- context [i_bid128_quiet_greater ?t0 ?t1 ?u0 ?u1 ?pf] =>
    rewrite (V_bid128_quiet_greater t0 t1 u0 u1 pf) by (first [assumption | unfold in_u64 in *; lia | u32_tac]) end;
  unfold cmp_res at 1; cbv beta iota;
  match goal with |- context [i_bid128_quiet_not_equal ?t0 ?t1 ?u0 ?u1 ?pf] =>
    rewrite (V_bid128_quiet_not_equal t0 t1 u0 u1 pf) by (first [assumption | unfold in_u64 in *; lia | u32_tac]) end;
  unfold cmp_res at 1; cbv beta iota.
Ltac na_step up V x0 x1 y0 y1 st a0 a1 H0 H1 Hst Nx :=
  let SPU := fresh "SPU" in
  pose proof (V x0 x1 st H0 H1 Hst) as SPU;
  match goal with |- context [match ?c with pair _ _ => _ end] =>
    lazymatch c with context [match _ with pair _ _ => _ end] => fail | _ =>
    let r0 := fresh "r0" in let r1 := fresh "r1" in let st2 := fresh "st2" in
    destruct c as [[r0 r1] st2]; cbv beta iota;
    let Q := fresh "Q" in
    pose proof (step_spec_nn up x0 x1 st r0 r1 st2 Nx SPU) as Q; destruct Q as (? & ? & ?); subst st2;
    word_norm lia; na_calls;
    apply (na_step_leaf up x0 x1 y0 y1 st a0 a1 r0 r1 st); try assumption;
    unfold na_flags, cmp_res; cbn [fst]; reflexivity end end.

Ltac na_eq_case x0 x1 y0 y1 st a0 a1 EQ :=
  unfold sgZ in EQ; word_norm lia; rewrite EQ; fold (sgZ y1);
  rewrite (lor_low_mult (a1 mod 9223372036854775808) (sgZ y1) 63 9223372036854775808) by (try reflexivity; unfold sgZ, in_u64 in *; lia);
  let r1 := fresh "r1" in let R1 := fresh "R1" in
  set (r1 := a1 mod 9223372036854775808 + sgZ y1); assert (R1 : in_u64 r1) by (unfold r1, sgZ, in_u64 in *; lia);
  na_calls;
  apply (na_eq_leaf x0 x1 y0 y1 st a0 a1); try assumption; try reflexivity.

Theorem V_bid128_nextafter x0 x1 y0 y1 st : in_u64 x0 -> in_u64 x1 -> in_u64 y0 -> in_u64 y1 -> in_u32 st ->
  next_after_spec x0 x1 y0 y1 st (i_bid128_nextafter x0 x1 y0 y1 st).
Proof.
  intros H0 H1 G0 G1 Hst. unfold i_bid128_nextafter. unfold_helpers. red_lets.
  pose proof H0 as H0'. pose proof H1 as H1'. pose proof G0 as G0'. pose proof G1 as G1'. unfold in_u64 in H0', H1', G0', G1'.
  lazymatch goal with |- ?P (if ?c then ?A else ?B) => set (B2 := B) end.
  fold_lor. word_norm lia. mask_tests. pose proof (g5W_range x1) as R. pose proof (g5W_range y1) as Ry.
  (* the continuation after the NaN / infinity prologue occurs twice (special / no special operand): abstract the two
     infinity-canonicalised operand copies and prove it once *)
  match goal with |- context [match (if g5W x1 =? 30 then (?u, 0) else (x1, x0)) with pair _ _ => _ end] =>
    set (p := if g5W x1 =? 30 then (u, 0) else (x1, x0)) end.
  match goal with |- context [match (if g5W y1 =? 30 then (?u, 0) else (y1, y0)) with pair _ _ => _ end] =>
    set (q := if g5W y1 =? 30 then (u, 0) else (y1, y0)) end.
  match goal with |- context [?M] => lazymatch M with match p with pair _ _ => _ end =>
    let Pf := eval pattern p, q in M in
    lazymatch Pf with ?f _ _ =>
      assert (HK : forall p' q', p' = p -> sgZ (fst q') = sgZ y1 -> g5W x1 <> 31 -> g5W y1 <> 31 ->
                   next_after_spec x0 x1 y0 y1 st (f p' q')) end end end.
  { intros p' q' EP EQ NX NY. cbv beta. destruct q' as [yc1 yc0]. cbn [fst] in EQ. subst p'. unfold p. clear p q B2.
    destruct (g5W x1 =? 30) eqn:IX; cbv beta iota.
    all: goal_term ltac:(fun t => let h := spine_head t in
     assert (CX : canon10 x0 x1 h) by (canon_prove x0 x1);
     remember h as pc eqn:Hpc; clear Hpc; destruct pc as [a1 a0]; destruct CX as [[A0 [A1 CEa]] DEa]); cbv beta iota.
    all: pose proof (notnan_words x0 x1 H0 H1 NX) as [Nx _]; pose proof (notnan_words y0 y1 G0 G1 NY) as [Ny _].
    all: assert (EA : pat a0 a1 = encode (decode (pat x0 x1))) by (rewrite <- DEa; symmetry; exact CEa).
    all: rewrite (V_bid128_quiet_equal x0 x1 y0 y1 st) by assumption; unfold cmp_res; cbv beta iota;
         rewrite (cmp_inv_nn 0) by assumption;
         rewrite (V_bid128_quiet_greater x0 x1 y0 y1 st) by assumption; unfold cmp_res; cbv beta iota.
    all: destruct (cmp_dec (decode (pat x0 x1)) (decode (pat y0 y1))) eqn:CE; cbn [existsb rel_eqb pred_rels orb]; cbv beta iota;
         [ na_step true V_bid128_nextup x0 x1 y0 y1 st a0 a1 H0 H1 Hst Nx
         | na_eq_case x0 x1 y0 y1 st a0 a1 EQ
         | na_step false V_bid128_nextdown x0 x1 y0 y1 st a0 a1 H0 H1 Hst Nx
         | exfalso; exact (cmp_not_un _ _ Nx Ny CE) ]. }
  step_if SP.
  - step_if A.
    + step_if EP; word_norm lia; step_if ES; na_leaf_x.
    + step_if AY.
      * step_if EP; word_norm lia; step_if ES; na_leaf_y.
      * apply HK; [reflexivity| |lia|lia]. unfold q, sgZ. destruct (g5W y1 =? 30) eqn:IY; cbn [fst]; [|reflexivity]. unfold g5W in *. lia.
  - unfold B2. apply (HK (x1, x0) (y1, y0)); [|reflexivity|lia|lia]. unfold p. replace (g5W x1 =? 30) with false by lia. reflexivity.
Qed.
Print Assumptions V_bid128_nextafter.
