(* Layer I: handle_UF_128 (bid_internal.rs), the underflow branch of the BID128 pack routine (logical path DVI).
   V_handle_UF: for -34 <= expon < 0 the generated code returns the quotient (C + rounding constant) / 10^k computed by the
   reciprocal multiplication, with the tie correction of round-to-nearest-even, and sets underflow/inexact exactly when
   C mod 10^k <> 0 (or underflow alone if the incoming word already has inexact); uf_quot_choice: that quotient is the
   model's `choice` on (C / 10^k, loc_of_rem (C mod 10^k) (10^k)). Axiom-free. *)
From Coq Require Import ZArith Lia Bool List ZifyBool.
From Flocq Require Import Core.Core Calc.Bracket Calc.Round.
From DV Require Import Base Bid BidProofs Arith OpsArith OpsCmp OpsMisc.
From DV Require Import ScaleProofs.
From DVI Require Import ImplLib ImplGen ImplCommon ImplMul0 ImplDpd ImplPack ImplRecip ImplRp.
Import ListNotations.
Open Scope Z_scope.
Ltac unfold_helpers := unfold i_d128_Default_default, i_d128_new.
Ltac dlia := Z.div_mod_to_equations; lia.

(* what handle_UF_128 computes, on integers: rm is the mode for the magnitude (Downward/Upward swapped for negative sign) *)
Definition uf_rmode (sgn rnd : Z) : Z := if negb (sgn =? 0) && ((rnd =? 1) || (rnd =? 2)) then 3 - rnd else rnd.
Definition uf_quot (rnd rm C k : Z) : Z :=
  let D := 10 ^ k in let C' := C + rconst_spec rm k in let Q := C' / D in
  if (rnd =? 0) && Z.odd Q && (C' mod D =? 0) then Q - 1 else Q.
Definition uf_exact (rm C k : Z) : bool :=
  let D := 10 ^ k in let r := (C + rconst_spec rm k) mod D in
  if (rm =? 0) || (rm =? 4) then 2 * r =? D else if (rm =? 1) || (rm =? 3) then r =? 0 else r =? D - 1.

Lemma V_handle_UF sgn expon C0 C1 rnd st : (sgn = 0 \/ sgn = 9223372036854775808) -> -34 <= expon < 0 ->
  in_u64 C0 -> in_u64 C1 -> v128 C0 C1 < 10000000000000000000000000000000000 -> 0 <= rnd <= 4 -> in_u32 st ->
  let k := - expon in let rm := uf_rmode sgn rnd in let q := uf_quot rnd rm (v128 C0 C1) k in
  i_handle_UF_128 sgn expon C0 C1 rnd st =
  (q mod 18446744073709551616, sgn + q / 18446744073709551616,
   if Z.land st 32 =? 32 then Z.lor st 16 else if uf_exact rm (v128 C0 C1) k then st else Z.lor st 48).
Proof.
  intros Hs He H0 H1 HC Hr Hst k rm q. unfold i_handle_UF_128. unfold_helpers. red_lets.
  unfold i___set_status_flags, i_is_inexact, i___unsigned_compare_ge_128.
  assert (E1 : (wrap_i32 (expon + wrap_i32 34) <? 0) = false) by (clear - He; unfold wrap_i32; dlia). rewrite E1.
  assert (Hk : 1 <= k <= 34) by (unfold k; lia).
  assert (E2 : wrap_i32 (0 - expon) = k) by (clear - He; unfold wrap_i32, k; dlia). rewrite E2.
  rewrite (wrap_usize_id k) by (unfold in_u64; lia).
  (* the magnitude mode *)
  assert (ERM : (if negb (sgn =? 0) && (wrap_u32 (rnd - 1) <? 2) then i_RoundingMode_From_from (wrap_u32 (3 - rnd)) else rnd) = rm).
  { unfold rm, uf_rmode, i_RoundingMode_From_from, wrap_u32. cbv zeta.
    assert (rnd = 0 \/ rnd = 1 \/ rnd = 2 \/ rnd = 3 \/ rnd = 4) as [->|[->|[->|[->| ->]]]] by lia; destruct Hs as [-> | ->]; reflexivity. }
  rewrite !ERM.
  assert (Hrm : 0 <= rm <= 4) by (unfold rm, uf_rmode; destruct (negb (sgn =? 0) && ((rnd =? 1) || (rnd =? 2))) eqn:EE; lia).
  (* table rows *)
  pose proof (rconst_row rm k Hrm Hk) as RC. unfold rconst_row_ok in RC.
  replace ((rm * 34 + (k - 1)) / 34) with rm in RC by (apply Z.div_unique with (r := k - 1); lia).
  replace ((rm * 34 + (k - 1)) mod 34 + 1) with k in RC by (clear - Hrm Hk; dlia).
  cbv zeta in RC. rewrite !andb_true_iff in RC. destruct RC as [[[[RC1 RC2] RC3] RC4] RC5].
  apply Z.eqb_eq in RC1. apply Z.leb_le in RC2, RC4. apply Z.ltb_lt in RC3, RC5. unfold rct in RC1.
  set (T0 := nth (Z.to_nat (rm * 36 + k)) T_BID_ROUND_CONST_TABLE_128_w0 0) in *.
  set (T1 := nth (Z.to_nat (rm * 36 + k)) T_BID_ROUND_CONST_TABLE_128_w1 0) in *.
  pose proof (recip_row k Hk) as RR. unfold recip_row_ok in RR. cbv zeta in RR. rewrite !andb_true_iff in RR.
  destruct RR as [[[[[[[[RR1 RR2] RR3] RR4] RR5] RR6] RR7] RR8] RR9].
  apply Z.leb_le in RR1, RR3, RR5, RR7. apply Z.ltb_lt in RR2, RR4, RR6, RR8, RR9. unfold rcp, rsc in *.
  set (R0 := nth (Z.to_nat k) T_BID_RECIPROCALS10_128_w0 0) in *. set (R1 := nth (Z.to_nat k) T_BID_RECIPROCALS10_128_w1 0) in *.
  set (s := nth (Z.to_nat k) T_BID_RECIP_SCALE 0) in *.
  clearbody T0 T1 R0 R1 s.
  set (D := 10 ^ k) in *. assert (HD : 0 < D) by (apply Z.pow_pos_nonneg; lia).
  assert (HD34 : D <= 10000000000000000000000000000000000) by (change 10000000000000000000000000000000000 with (10 ^ 34); apply Z.pow_le_mono_r; lia).
  set (C := v128 C0 C1) in *. assert (HC0 : 0 <= C) by (unfold C, v128, in_u64 in *; lia).
  set (T := rconst_spec rm k) in *.
  assert (HT : 0 <= T < D).
  { unfold T, rconst_spec. fold D. assert (E10 : D = 10 * 10 ^ (k - 1)) by (unfold D; rewrite <- Z.pow_succ_r by lia; f_equal; lia).
    assert (0 < 10 ^ (k - 1)) by (apply Z.pow_pos_nonneg; lia). destruct ((rm =? 0) || (rm =? 4)); [lia|]. destruct (rm =? 2); lia. }
  (* C' = C + T *)
  pose proof (S_add_carry_out T0 C0 ltac:(unfold in_u64; lia) H0) as SA. destruct (i___add_carry_out T0 C0) as [CQ0 cy].
  destruct SA as (A1 & A2 & A3).
  assert (BC1 : 0 <= C1 < 1125899906842624) by (clear - HC H0 H1; unfold C, v128, in_u64 in *; lia).
  assert (BT1 : 0 <= T1 < 1125899906842624) by (clear - RC1 RC2 RC3 RC4 HT HD34; unfold v128 in *; lia).
  assert (EC1 : wrap_u64 (wrap_u64 (C1 + T1) + cy) = C1 + T1 + cy).
  { clear - BC1 BT1 A2. unfold wrap_u64. rewrite (Z.mod_small (C1 + T1)) by lia. apply Z.mod_small. lia. }
  rewrite EC1. set (CQ1 := C1 + T1 + cy).
  assert (EC' : v128 CQ0 CQ1 = C + T) by (clear - A3 RC1; unfold CQ1, C, v128 in *; lia).
  assert (HCQ1 : in_u64 CQ1 /\ CQ1 < 9007199254740992) by (clear - BC1 BT1 A2; unfold in_u64, CQ1; lia). destruct HCQ1 as [HCQ1 HCQ1b].
  clearbody CQ1. clear EC1 A3 RC1 RC2 RC3 RC4 RC5 BT1.
  set (C' := C + T) in *. assert (HC' : 0 <= C' <= 20000000000000000000000000000000000) by (unfold C'; lia).
  (* the 256-bit product *)
  pose proof (S_mul_128x128_full CQ0 CQ1 R0 R1 A1 HCQ1 ltac:(unfold in_u64; lia) ltac:(unfold in_u64; lia) HCQ1b RR4) as SM.
  destruct (i___mul_128x128_full CQ0 CQ1 R0 R1) as [[[Qh0 Qh1] Ql0] Ql1]. destruct SM as (M1 & M2 & M3 & M4 & ME).
  rewrite EC' in ME. set (R := v128 R0 R1) in *.
  set (P := 2 ^ (128 + s)) in *. set (e := R * D - P) in *.
  assert (HP : 0 < P) by (apply Z.pow_pos_nonneg; lia).
  destruct (recip_core R P D e 20000000000000000000000000000000000 C' HD HP ltac:(unfold e; lia) RR7 HC' RR8) as (K1 & K2 & K3 & K4 & K5 & K6).
  set (Q := C' / D) in *. set (r := C' mod D) in *. set (rho := C' * R - Q * P) in *.
  assert (HRr : 0 < R < 340282366920938463463374607431768211456) by (clear - RR1 RR2 RR3 RR4 RR7 HP HD; unfold R, e, v128 in *; nia).
  set (Qh := v128 Qh0 Qh1) in *. set (Ql := v128 Ql0 Ql1) in *.
  assert (HQl : 0 <= Ql < 340282366920938463463374607431768211456) by (unfold Ql, v128, in_u64 in *; lia).
  assert (HQh : 0 <= Qh < 340282366920938463463374607431768211456) by (unfold Qh, v128, in_u64 in *; lia).
  set (p := 2 ^ s) in *. assert (Hp : 0 < p) by (apply Z.pow_pos_nonneg; lia).
  assert (EP : P = 340282366920938463463374607431768211456 * p) by (unfold P, p; rewrite Z.pow_add_r by lia; reflexivity).
  destruct (split_high Qh Ql p 340282366920938463463374607431768211456 (C' * R) Hp ltac:(lia) HQl ltac:(lia) ME) as [EQ ERHO].
  rewrite <- EP, K3 in EQ. rewrite <- EP, K3 in ERHO. fold rho in ERHO.
  assert (HQ : 0 <= Q <= 20000000000000000000000000000000000) by (unfold Q; split; [apply Z.div_pos; lia|apply Z.div_le_upper_bound; [lia|]; apply Z.le_trans with (1 * 20000000000000000000000000000000000); [lia|apply Z.mul_le_mono_nonneg_r; lia]]).
  clear RR7 RR8 RR9 E1 E2.
  
  (* the quotient words *)
  assert (EQW : (if s >=? 64 then (Z.shiftr Qh1 (wrap_i32 (s - 64) mod 64), 0)
                 else let '(CQ_w1, CQ_w2) := i___shr_128 Qh0 Qh1 s in (CQ_w1, CQ_w2)) = (Q mod 18446744073709551616, Q / 18446744073709551616)).
  { destruct (Z.geb_spec s 64) as [G|L].
    - assert (E : wrap_i32 (s - 64) = s - 64) by (apply wrap_i32_id; unfold in_i32; lia). rewrite E.
      rewrite (Z.mod_small (s - 64) 64) by lia. rewrite Z.shiftr_div_pow2 by lia.
      assert (EPK : p = 18446744073709551616 * 2 ^ (s - 64)) by (unfold p; change 18446744073709551616 with (2 ^ 64); rewrite <- Z.pow_add_r by lia; f_equal; lia).
      assert (E3 : Qh1 / 2 ^ (s - 64) = Q).
      { rewrite <- EQ, EPK. unfold Qh, v128. rewrite <- Z.div_div by (try lia; apply Z.pow_pos_nonneg; lia).
        rewrite Z.div_add_l by lia. unfold in_u64 in *. rewrite (Z.div_small Qh0) by lia. rewrite Z.add_0_r. reflexivity. }
      rewrite E3. f_equal; [symmetry; apply Z.mod_small|symmetry; apply Z.div_small]; lia.
    - destruct (S_shr_128 Qh0 Qh1 s M1 M2 ltac:(lia)) as [_ V]. destruct (i___shr_128 Qh0 Qh1 s) as [a b].
      destruct V as (V1 & V2 & V3). fold Qh p in V3. rewrite EQ in V3. clear - V1 V2 V3. unfold v128, in_u64 in *. f_equal; dlia. }
  rewrite EQW. clear EQW.
  (* the low s bits of Qh, moved to the top by the left shift *)
  assert (E128 : wrap_i32 (128 - s) = 128 - s) by (apply wrap_i32_id; unfold in_i32; lia). rewrite !E128.
  destruct (S_shl_128_long Qh0 Qh1 (128 - s) M1 M2 ltac:(lia)) as [_ VS].
  destruct (i___shl_128_long Qh0 Qh1 (128 - s)) as [h0 h1]. destruct VS as (VS1 & VS2 & VS3). fold Qh in VS3.
  set (p' := 2 ^ (128 - s)) in *. assert (Hp' : 0 < p') by (apply Z.pow_pos_nonneg; lia).
  assert (EPP : p * p' = 340282366920938463463374607431768211456) by (unfold p, p'; rewrite <- Z.pow_add_r by lia; replace (s + (128 - s)) with 128 by lia; reflexivity).
  set (a := Qh mod p) in *. assert (Ha : 0 <= a < p) by (apply Z.mod_pos_bound; lia).
  assert (VH : v128 h0 h1 = a * p') by (rewrite VS3, <- EPP; rewrite Z.mul_mod_distr_r by lia; reflexivity).
  set (p2 := 2 ^ (s - 1)). assert (Ep2 : p = 2 * p2) by (unfold p, p2; rewrite <- Z.pow_succ_r by lia; f_equal; lia).
  assert (Hp2 : 0 < p2) by (apply Z.pow_pos_nonneg; lia).
  destruct (rem_tests a p p2 Ql R Ep2 Ha HQl HRr) as (X1 & X2 & X3). cbv zeta in X1, X2, X3. rewrite <- ERHO in X1, X2, X3.
  assert (Z0 : (h1 =? 0) && (h0 =? 0) = (a =? 0)).
  { clear - VH VS1 VS2 Hp' Ha. unfold v128, in_u64 in *. destruct (Z.eqb_spec a 0) as [E|E].
    - rewrite E in VH. assert (h1 = 0 /\ h0 = 0) as [-> ->] by lia. reflexivity.
    - assert (0 < a * p') by nia. destruct (Z.eqb_spec h1 0); destruct (Z.eqb_spec h0 0); try reflexivity; lia. }
  assert (ZH : (h1 =? 9223372036854775808) && (h0 =? 0) = (a =? p2)).
  { clear - VH VS1 VS2 Hp' Ha EPP Ep2. unfold v128, in_u64 in *.
    assert (E2 : p2 * p' = 170141183460469231731687303715884105728) by nia.
    destruct (Z.eqb_spec a p2) as [E|E].
    - rewrite E, E2 in VH. assert (h1 = 9223372036854775808 /\ h0 = 0) as [-> ->] by lia. reflexivity.
    - assert (a * p' <> p2 * p') by (intros Q; apply E; apply (Z.mul_cancel_r a p2 p'); lia).
      destruct (Z.eqb_spec h1 9223372036854775808); destruct (Z.eqb_spec h0 0); try reflexivity; lia. }
  assert (ZL : (Ql1 <? R1) || (Ql1 =? R1) && (Ql0 <? R0) = (Ql <? R)) by (clear - M3 M4 RR1 RR2 RR3 RR4; unfold Ql, R, v128, in_u64 in *; lia).
  rewrite Z0, ZH, ZL. clear Z0 ZH ZL.
  (* the round-up branch: exact iff adding one more reciprocal carries into bit s of Qh *)
  assert (UPB : (let '(Stemp_w0, CY) := i___add_carry_out Ql0 R0 in
          let '(Stemp_w1, carry) := i___add_carry_in_out Ql1 R1 CY in
          let '(Qh_w0, Qh_w1) := i___shr_128_long h0 h1 (128 - s) in
          let '(Tmp1_w0, Tmp1_w1) := i___shl_128_long 1 0 s in
          (if ((if wrap_u64 (Qh_w0 + carry) <? carry then wrap_u64 (Qh_w1 + 1) else Qh_w1) >? Tmp1_w1)
              || ((if wrap_u64 (Qh_w0 + carry) <? carry then wrap_u64 (Qh_w1 + 1) else Qh_w1) =? Tmp1_w1) && (wrap_u64 (Qh_w0 + carry) >=? Tmp1_w0)
           then 0 else 32, Stemp_w0, Stemp_w1, carry, wrap_u64 (Qh_w0 + carry),
           if wrap_u64 (Qh_w0 + carry) <? carry then wrap_u64 (Qh_w1 + 1) else Qh_w1, 1, 0)) =
          (let '(Stemp_w0, CY) := i___add_carry_out Ql0 R0 in
          let '(Stemp_w1, carry) := i___add_carry_in_out Ql1 R1 CY in
          let '(Qh_w0, Qh_w1) := i___shr_128_long h0 h1 (128 - s) in
          (if p <=? a + (Ql + R) / 340282366920938463463374607431768211456 then 0 else 32, Stemp_w0, Stemp_w1, carry, wrap_u64 (Qh_w0 + carry),
           if wrap_u64 (Qh_w0 + carry) <? carry then wrap_u64 (Qh_w1 + 1) else Qh_w1, 1, 0))).
  { pose proof (S_add_carry_out Ql0 R0 M3 ltac:(unfold in_u64; lia)) as U1. destruct (i___add_carry_out Ql0 R0) as [s0 c0].
    destruct U1 as (U1a & U1b & U1c).
    pose proof (S_add_carry_in_out Ql1 R1 c0 M4 ltac:(unfold in_u64; lia) U1b) as U2. destruct (i___add_carry_in_out Ql1 R1 c0) as [s1 c1].
    destruct U2 as (U2a & U2b & U2c).
    destruct (S_shr_128_long h0 h1 (128 - s) VS1 VS2 ltac:(lia)) as [_ U3]. destruct (i___shr_128_long h0 h1 (128 - s)) as [g0 g1].
    destruct U3 as (U3a & U3b & U3c). fold p' in U3c. rewrite VH, Z.div_mul in U3c by lia.
    destruct (S_shl_128_long 1 0 s ltac:(unfold in_u64; lia) ltac:(unfold in_u64; lia) ltac:(lia)) as [_ U4].
    destruct (i___shl_128_long 1 0 s) as [t0 t1]. destruct U4 as (U4a & U4b & U4c).
    change (v128 1 0) with 1 in U4c. rewrite Z.mul_1_l in U4c. fold p in U4c.
    assert (Hp128 : p < 340282366920938463463374607431768211456) by (unfold p; change 340282366920938463463374607431768211456 with (2 ^ 128); apply Z.pow_lt_mono_r; lia).
    rewrite Z.mod_small in U4c by lia.
    assert (EC : (Ql + R) / 340282366920938463463374607431768211456 = c1).
    { clear - U1a U1b U1c U2a U2b U2c M3 M4 RR1 RR2 RR3 RR4. unfold Ql, R, v128, in_u64 in *. dlia. }
    rewrite EC. f_equal. f_equal. f_equal. f_equal. f_equal. f_equal. f_equal.
    unfold v128, in_u64, wrap_u64 in *. clear - U3a U3b U3c U4a U4b U4c U2b Ha Hp128.
    clearbody a p. clear Qh. split_ifs_eq; dlia. }
  rewrite UPB. clear UPB.
  assert (B0 : (a =? 0) && (Ql <? R) = (r =? 0)).
  { apply eq_true_iff_eq. rewrite andb_true_iff, !Z.eqb_eq, Z.ltb_lt. rewrite <- X1. exact K4. }
  assert (DH : D = 2 * (5 * 10 ^ (k - 1))) by (unfold D; replace k with (Z.succ (k - 1)) at 1 by lia; rewrite Z.pow_succ_r by lia; ring).
  assert (BH : (a =? p2) && (Ql <? R) = (2 * r =? D)).
  { apply eq_true_iff_eq. rewrite andb_true_iff, !Z.eqb_eq, Z.ltb_lt. rewrite <- X2.
    rewrite (K5 (5 * 10 ^ (k - 1)) (340282366920938463463374607431768211456 * p2) DH ltac:(rewrite EP, Ep2; ring)). rewrite DH.
    generalize (5 * 10 ^ (k - 1)). clear. intros h. lia. }
  assert (BU : (p <=? a + (Ql + R) / 340282366920938463463374607431768211456) = (r =? D - 1)).
  { apply eq_true_iff_eq. rewrite Z.leb_le, Z.eqb_eq. rewrite <- X3. rewrite <- EP. exact K6. }
  rewrite B0, BH, BU.
  (* the result words *)
  assert (EL : Z.land (Q mod 18446744073709551616) 1 = Q mod 2).
  { change 1 with (2 ^ 1 - 1). rewrite land_low by lia. change (2 ^ 1) with 2. clear. dlia. }
  rewrite EL.
  assert (EOD : (Q mod 2 =? 1) = Z.odd Q) by (rewrite Zodd_mod; destruct (Q mod 2 =? 1) eqn:E1; destruct (Zeq_bool (Q mod 2) 1) eqn:E2; try reflexivity;
      [apply Z.eqb_eq in E1; rewrite E1 in E2; discriminate|apply Zeq_bool_eq in E2; rewrite E2 in E1; discriminate]).
  rewrite EOD.
  assert (EQ1 : (if (rnd =? 0) && Z.odd Q then if r =? 0 then wrap_u64 (Q mod 18446744073709551616 - 1) else Q mod 18446744073709551616 else Q mod 18446744073709551616) = q mod 18446744073709551616
           /\ q / 18446744073709551616 = Q / 18446744073709551616).
  { unfold q, uf_quot. fold D T C' Q r. destruct (rnd =? 0); cbn [andb]; [|split; reflexivity].
    destruct (Z.odd Q) eqn:OD; cbn [andb]; [|split; reflexivity]. destruct (r =? 0); [|split; reflexivity].
    assert (Q mod 2 = 1) by (rewrite Zodd_mod in OD; apply Zeq_bool_eq in OD; exact OD).
    clear - H HQ. unfold wrap_u64. split; dlia. }
  destruct EQ1 as [EQ1 EQ2]. rewrite EQ1, <- EQ2.
  assert (ES : Z.lor sgn (q / 18446744073709551616) = sgn + q / 18446744073709551616).
  { rewrite EQ2. assert (HQw : 0 <= Q / 18446744073709551616 < 9223372036854775808) by (clear - HQ; dlia).
    apply (lor_mult_low (Q / 18446744073709551616) sgn 63 9223372036854775808); [lia|reflexivity|exact HQw|destruct Hs as [-> | ->]; reflexivity]. }
  rewrite ES. clear ES EQ1 EQ2 EL EOD B0 BH BU.
  (* the status word *)
  unfold uf_exact. fold D T C' r.
  destruct (Z.land st 32 =? 32) eqn:INX.
  { cbn [Z.eqb negb]. reflexivity. }
  assert (rm = 0 \/ rm = 1 \/ rm = 2 \/ rm = 3 \/ rm = 4) as [E|[E|[E|[E|E]]]] by (clear - Hrm; lia); rewrite E; cbn [Z.eqb Pos.eqb orb].
  all: change (Z.lor 16 32) with 48; match goal with |- context [if ?c then 0 else 32] => destruct c end; cbn [Z.eqb Pos.eqb negb];
    try (destruct (i___add_carry_out Ql0 R0) as [? ?]; destruct (i___add_carry_in_out Ql1 R1 _) as [? ?]; destruct (i___shr_128_long h0 h1 (128 - s)) as [? ?]);
    cbn [Z.eqb Pos.eqb negb]; reflexivity.
Qed.

Lemma div_lt2 x D : 0 < D -> 0 <= x < 2 * D -> x / D = (if x <? D then 0 else 1) /\ x mod D = (if x <? D then x else x - D).
Proof.
  intros HD Hx. destruct (Z.ltb_spec x D).
  - split; [apply Z.div_small|apply Z.mod_small]; lia.
  - assert (E : x = 1 * D + (x - D)) by lia. split.
    + symmetry. apply Z.div_unique with (r := x - D); lia.
    + symmetry. apply Z.mod_unique with (q := 1); lia.
Qed.

Lemma uf_quot_choice sgn rnd C k : (sgn = 0 \/ sgn = 9223372036854775808) -> 0 <= rnd <= 4 -> 0 <= C -> 1 <= k ->
  let D := 10 ^ k in let rm := uf_rmode sgn rnd in
  uf_quot rnd rm C k = choice (md_of rnd) (negb (sgn =? 0)) (C / D) (loc_of_rem (C mod D) D) /\
  uf_exact rm C k = (C mod D =? 0).
Proof.
  intros Hs Hr HC Hk D rm.
  assert (HD : 0 < D) by (apply Z.pow_pos_nonneg; lia).
  assert (DH : D = 2 * (5 * 10 ^ (k - 1))) by (unfold D; replace k with (Z.succ (k - 1)) at 1 by lia; rewrite Z.pow_succ_r by lia; ring).
  set (h := 5 * 10 ^ (k - 1)) in *. assert (Hh : 0 < h) by (unfold h; assert (0 < 10 ^ (k - 1)) by (apply Z.pow_pos_nonneg; lia); lia).
  pose proof (Z.div_mod C D ltac:(lia)) as DM. pose proof (Z.mod_pos_bound C D HD) as MB.
  set (c := C / D) in *. set (r := C mod D) in *.
  assert (Hc : 0 <= c) by (apply Z.div_pos; lia).
  unfold uf_quot, uf_exact, rconst_spec. fold D h.
  assert (EQD : forall t, 0 <= t < D -> (C + t) / D = c + (if r + t <? D then 0 else 1) /\ (C + t) mod D = (if r + t <? D then r + t else r + t - D)).
  { intros t Ht. destruct (div_lt2 (r + t) D HD ltac:(lia)) as [E1 E2].
    replace (C + t) with (c * D + (r + t)) by lia. split.
    - rewrite Z.div_add_l by lia. rewrite E1. reflexivity.
    - rewrite (Z.add_comm (c * D)), Z.mod_add by lia. exact E2. }
  unfold loc_of_rem.
  assert (ODD : Z.odd (c + 1) = Z.even c) by (rewrite Z.add_1_r, Z.odd_succ; reflexivity).
  assert (rnd = 0 \/ rnd = 1 \/ rnd = 2 \/ rnd = 3 \/ rnd = 4) as [E|[E|[E|[E|E]]]] by lia; subst rnd;
  destruct Hs as [Es|Es]; subst sgn; unfold rm;
  match goal with |- context [uf_rmode ?a ?b] => let v := eval vm_compute in (uf_rmode a b) in change (uf_rmode a b) with v end;
  cbn [Z.eqb Pos.eqb negb andb orb md_of choice].
  all: try (destruct (EQD h ltac:(lia)) as [E1 E2]; rewrite E1, E2; clear E1 E2).
  all: try (destruct (EQD (D - 1) ltac:(lia)) as [E1 E2]; rewrite E1, E2; clear E1 E2).
  all: try (rewrite Z.add_0_r; fold c r).
  all: unfold round_N, round_sign_DN, round_sign_UP, cond_incr.
  all: destruct (Z.eqb_spec r 0) as [R0|R0]; cbn [negb].
  all: try (destruct (Z.compare_spec (2 * r) D) as [CE|CL|CG]).
  all: repeat match goal with |- context [?x <? ?y] => destruct (Z.ltb_spec x y) end.
  all: rewrite ?Z.add_0_r, ?ODD.
  all: try (destruct (Z.even c) eqn:EV; cbn [negb andb]).
  all: try (assert (OD : Z.odd c = negb (Z.even c)) by (rewrite <- Z.negb_even; reflexivity); rewrite OD, EV; cbn [negb andb]).
  all: repeat match goal with |- context [?x =? ?y] => destruct (Z.eqb_spec x y) end.
  all: try (split; (reflexivity || lia)).
Qed.

(* no run-time failure (table index, shift amount, enum conversion) for any negative exponent *)
Lemma OK_handle_UF sgn expon C0 C1 rnd st : -2147483648 <= expon < 0 -> 0 <= rnd <= 4 ->
  ok_handle_UF_128 sgn expon C0 C1 rnd st = true.
Proof.
  intros He Hr. unfold ok_handle_UF_128. unfold_helpers. red_lets.
  unfold i___set_status_flags, i_is_inexact, i___unsigned_compare_ge_128.
  change (wrap_i32 34) with 34. assert (E34 : wrap_i32 (expon + 34) = expon + 34) by (apply wrap_i32_id; unfold in_i32; lia). rewrite E34.
  destruct (expon + 34 <? 0) eqn:ET; [ok_walk lia|].
  set (k := - expon). assert (Hk : 1 <= k <= 34) by (unfold k; lia).
  assert (E2 : wrap_i32 (0 - expon) = k) by (apply wrap_i32_id; unfold in_i32, k; lia). rewrite !E2.
  rewrite !(wrap_usize_id k) by (unfold in_u64; lia).
  assert (EF : (if negb (sgn =? 0) && (wrap_u32 (rnd - 1) <? 2)
                then if ok_RoundingMode_From_from (wrap_u32 (3 - rnd)) then (true, i_RoundingMode_From_from (wrap_u32 (3 - rnd))) else (false, 0)
                else (true, rnd)) =
               (true, if negb (sgn =? 0) && (wrap_u32 (rnd - 1) <? 2) then i_RoundingMode_From_from (wrap_u32 (3 - rnd)) else rnd)).
  { unfold ok_RoundingMode_From_from, wrap_u32. cbv zeta.
    assert (rnd = 0 \/ rnd = 1 \/ rnd = 2 \/ rnd = 3 \/ rnd = 4) as [->|[->|[->|[->| ->]]]] by lia; destruct (negb (sgn =? 0)); reflexivity. }
  rewrite EF. clear EF. cbv beta iota.
  set (rmx := if negb (sgn =? 0) && (wrap_u32 (rnd - 1) <? 2) then i_RoundingMode_From_from (wrap_u32 (3 - rnd)) else rnd) in *.
  assert (Hrm : 0 <= rmx <= 4).
  { unfold rmx, i_RoundingMode_From_from, wrap_u32. cbv zeta.
    assert (rnd = 0 \/ rnd = 1 \/ rnd = 2 \/ rnd = 3 \/ rnd = 4) as [->|[->|[->|[->| ->]]]] by lia; destruct (negb (sgn =? 0)); cbn; lia. }
  pose proof (recip_row k Hk) as RR. unfold recip_row_ok in RR. cbv zeta in RR. rewrite !andb_true_iff in RR.
  destruct RR as [[[[[[[[_ _] _] _] RR5] RR6] _] _] _]. apply Z.leb_le in RR5. apply Z.ltb_lt in RR6. unfold rsc in *.
  set (s := nth (Z.to_nat k) T_BID_RECIP_SCALE 0) in *. clearbody s rmx.
  assert (E128 : wrap_i32 (128 - s) = 128 - s) by (apply wrap_i32_id; unfold in_i32; lia). rewrite !E128.
  assert (E64 : wrap_i32 (s - 64) = s - 64) by (apply wrap_i32_id; unfold in_i32; lia). rewrite !E64.
  clear E34 ET E2 E128 E64. clearbody k. clear He.
  ok_walk2 ltac:(first [lia | apply OK_shr_128; lia | apply OK_shl_128_long; lia | apply OK_shr_128_long; lia]).
Qed.

(* ---------- the whole routine against the model's rp ---------- *)
Lemma V_handle_UF_tiny sgn expon C0 C1 rnd st : -2147483648 <= expon < -34 ->
  i_handle_UF_128 sgn expon C0 C1 rnd st =
  ((if (negb (sgn =? 0) && (rnd =? 1)) || ((sgn =? 0) && (rnd =? 2)) then 1 else 0), sgn, Z.lor st 48).
Proof.
  intros He. unfold i_handle_UF_128. unfold_helpers. red_lets. unfold i___set_status_flags.
  assert (E1 : (wrap_i32 (expon + wrap_i32 34) <? 0) = true) by (clear - He; unfold wrap_i32; dlia). rewrite E1.
  reflexivity.
Qed.

Lemma lor_absorb st b : Z.land st b = b -> Z.lor st b = st.
Proof.
  intros H. apply Z.bits_inj'. intros n Hn. rewrite Z.lor_spec.
  assert (T : Z.testbit (Z.land st b) n = Z.testbit b n) by (rewrite H; reflexivity).
  rewrite Z.land_spec in T. destruct (Z.testbit st n), (Z.testbit b n); cbn in *; congruence.
Qed.

Definition sbit (sgn : Z) : bool := negb (sgn =? 0).

Lemma encode_sub sgn q : (sgn = 0 \/ sgn = 9223372036854775808) -> 0 <= q < 10 ^ 34 ->
  encode (Fin (sbit sgn) q qmin) mod 18446744073709551616 = q mod 18446744073709551616 /\
  encode (Fin (sbit sgn) q qmin) / 18446744073709551616 = sgn + q / 18446744073709551616.
Proof.
  intros Hs Hq. unfold encode, qmin, P127, P113, sbit. change (10 ^ 34) with 10000000000000000000000000000000000 in Hq.
  destruct Hs as [-> | ->]; cbn [Z.eqb negb]; clear -Hq; dlia.
Qed.

Theorem I_handle_UF_128 sgn expon C0 C1 rnd st : (sgn = 0 \/ sgn = 9223372036854775808) -> -2147483648 <= expon < 0 ->
  in_u64 C0 -> in_u64 C1 -> v128 C0 C1 < 10 ^ 34 -> 0 <= rnd <= 4 -> in_u32 st ->
  (0 < v128 C0 C1 \/ -34 <= expon) ->
  let r := rp (md_of rnd) (sbit sgn) (v128 C0 C1) (expon - 6176) loc_Exact (expon - 6176) (sbit sgn) in
  i_handle_UF_128 sgn expon C0 C1 rnd st =
  (encode (fst r) mod 18446744073709551616, encode (fst r) / 18446744073709551616,
   Z.lor (Z.lor st (flbits (snd r))) (if Z.land st 32 =? 32 then 16 else 0)).
Proof.
  intros Hs He H0 H1 HC Hr Hst Hnz r.
  set (C := v128 C0 C1) in *. assert (HC0 : 0 <= C) by (unfold C, v128, in_u64 in *; lia).
  assert (STK : forall f, (f = 0 \/ f = 48) ->
     (if Z.land st 32 =? 32 then Z.lor st 16 else if f =? 0 then st else Z.lor st 48) =
     Z.lor (Z.lor st f) (if Z.land st 32 =? 32 then 16 else 0)).
  { intros f Hf. destruct (Z.eqb_spec (Z.land st 32) 32) as [E|E].
    - apply lor_absorb in E. destruct Hf as [-> | ->].
      + rewrite Z.lor_0_r. reflexivity.
      + rewrite <- Z.lor_assoc. change (Z.lor 48 16) with (Z.lor 32 16). rewrite Z.lor_assoc, E. reflexivity.
    - rewrite Z.lor_0_r. destruct Hf as [-> | ->]; cbn [Z.eqb]; [rewrite Z.lor_0_r|]; reflexivity. }
  destruct (Z.eq_dec C 0) as [EC|NC].
  - (* zero coefficient *)
    assert (He' : -34 <= expon) by lia.
    unfold r. rewrite EC, rp_zero. cbn [fst snd]. change (flbits _) with 0.
    replace (clampq (expon - 6176)) with qmin by (unfold clampq, qmin, qmax; lia).
    destruct (encode_sub sgn 0 Hs ltac:(lia)) as [-> ->].
    rewrite (V_handle_UF sgn expon C0 C1 rnd st Hs ltac:(lia) H0 H1 ltac:(exact HC) Hr Hst). cbv zeta. fold C. rewrite EC.
    destruct (uf_quot_choice sgn rnd 0 (- expon) Hs Hr ltac:(lia) ltac:(lia)) as [Eq Ex]. cbv zeta in Eq, Ex.
    rewrite Eq, Ex. rewrite Z.mod_0_l, Z.div_0_l by (apply Z.pow_nonzero; lia).
    unfold loc_of_rem. cbn [Z.eqb]. replace (choice (md_of rnd) (negb (sgn =? 0)) 0 loc_Exact) with 0
      by (destruct (md_of rnd), (negb (sgn =? 0)); reflexivity).
    rewrite <- (STK 0) by lia. reflexivity.
  - assert (HC' : 0 < C < 10 ^ 34) by lia.
    pose proof (rp_underflow (md_of rnd) (sbit sgn) C (expon - 6176) (sbit sgn) HC' ltac:(unfold qmin; lia)) as RU.
    cbv zeta in RU. replace (qmin - (expon - 6176)) with (- expon) in RU by (unfold qmin; lia).
    unfold r. rewrite RU. cbn [fst snd]. clear RU r.
    set (k := - expon) in *. assert (Hk : 1 <= k) by (unfold k; lia).
    assert (HD : 0 < 10 ^ k) by (apply Z.pow_pos_nonneg; lia).
    set (q := choice (md_of rnd) (sbit sgn) (C / 10 ^ k) (loc_of_rem (C mod 10 ^ k) (10 ^ k))).
    assert (FL : flbits (mkfl (negb (C mod 10 ^ k =? 0)) (negb (C mod 10 ^ k =? 0)) false) = if C mod 10 ^ k =? 0 then 0 else 48)
      by (destruct (C mod 10 ^ k =? 0); reflexivity).
    rewrite FL. clear FL.
    assert (Hq : 0 <= q < 10 ^ 34).
    { assert (0 <= C / 10 ^ k <= C / 10) as HQ.
      { split; [apply Z.div_pos; lia|]. apply Z.div_le_compat_l; [lia|]. split; [lia|]. apply (Z.pow_le_mono_r 10 1 k); lia. }
      assert (C / 10 < 10 ^ 33) by (apply Z.div_lt_upper_bound; [lia|]; change (10 * 10 ^ 33) with (10 ^ 34); lia).
      assert (q <= C / 10 ^ k + 1 /\ C / 10 ^ k <= q).
      { unfold q, choice, cond_incr. destruct (md_of rnd); repeat match goal with |- context [if ?b then _ else _] => destruct b end; lia. }
      change (10 ^ 34) with (10 * 10 ^ 33). lia. }
    destruct (encode_sub sgn q Hs Hq) as [-> ->].
    destruct (Z_lt_le_dec expon (-34)) as [Ht|Ht].
    + (* far below: only the sticky unit *)
      rewrite V_handle_UF_tiny by lia.
      assert (HL : 10 * C <= 10 ^ k).
      { assert (10 ^ 35 <= 10 ^ k) by (apply Z.pow_le_mono_r; unfold k; lia).
        change (10 ^ 35) with (10 * 10 ^ 34) in *. lia. }
      assert (Eq : C / 10 ^ k = 0) by (apply Z.div_small; lia).
      assert (Er : C mod 10 ^ k = C) by (apply Z.mod_small; lia).
      assert (Eqq : q = if (negb (sgn =? 0) && (rnd =? 1)) || ((sgn =? 0) && (rnd =? 2)) then 1 else 0).
      { unfold q. rewrite Eq, Er. unfold loc_of_rem. destruct (Z.eqb_spec C 0); [lia|].
        replace (2 * C ?= 10 ^ k) with Lt by (symmetry; apply Z.compare_lt_iff; lia).
        unfold sbit.
        assert (rnd = 0 \/ rnd = 1 \/ rnd = 2 \/ rnd = 3 \/ rnd = 4) as [->|[->|[->|[->| ->]]]] by lia;
        destruct Hs as [-> | ->]; reflexivity. }
      rewrite Er. destruct (Z.eqb_spec C 0); [lia|].
      rewrite <- Eqq.
      assert (Eq1 : q mod 18446744073709551616 = q) by (rewrite Eqq; destruct (_ || _); reflexivity).
      assert (Eq2 : q / 18446744073709551616 = 0) by (rewrite Eqq; destruct (_ || _); reflexivity).
      rewrite Eq1, Eq2, Z.add_0_r.
      f_equal. destruct (Z.eqb_spec (Z.land st 32) 32) as [E|E]; [|rewrite Z.lor_0_r; reflexivity].
      rewrite <- Z.lor_assoc. reflexivity.
    + rewrite (V_handle_UF sgn expon C0 C1 rnd st Hs ltac:(lia) H0 H1 ltac:(exact HC) Hr Hst). cbv zeta. fold C k.
      destruct (uf_quot_choice sgn rnd C k Hs Hr ltac:(lia) ltac:(lia)) as [Eq Ex]. cbv zeta in Eq, Ex.
      rewrite Eq, Ex. fold (sbit sgn). fold q.
      rewrite <- (STK (if C mod 10 ^ k =? 0 then 0 else 48)) by (destruct (C mod 10 ^ k =? 0); lia).
      destruct (C mod 10 ^ k =? 0); reflexivity.
Qed.
