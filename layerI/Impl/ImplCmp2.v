(* Layer I: additions to ImplCmp.v for groups K (bid128_quiet_equal / bid128_quiet_not_equal: the operands are swapped so
   that the smaller exponent is in x, hence the regime "ex <= ey" is all a path knows) and M (min/max; second half of
   this file). Logical path DVI. Axiom-free (integers only). *)
From Coq Require Import ZArith Lia Bool List ZifyBool.
From Flocq Require Import Core.Zaux Core.Digits.
From DV Require Import Base Bid BidProofs Arith OpsArith OpsCmp TotalProofs.
From DVI Require Import ImplLib ImplGen ImplCommon ImplMul0 ImplMul ImplOrder ImplCmp.
Import ListNotations.
Open Scope Z_scope.

Ltac Zify.zify_post_hook ::= Z.div_mod_to_equations.

(* regime selection when a path only knows ex <= ey or ey <= ex (or nothing): split into the strict regimes *)
Ltac mag_regime2 :=
  first [ mag_regime
        | match goal with
          | HE : mag_EQ _ _ ?ex ?ey _ _ |- _ =>
              first [ let R := fresh "R" in assert (R : ex <= ey) by small_lia;
                      let S := fresh "S" in destruct (Z_le_lt_eq_dec ex ey R) as [S|S]; mag_regime
                    | let R := fresh "R" in assert (R : ey <= ex) by small_lia;
                      let S := fresh "S" in destruct (Z_le_lt_eq_dec ey ex R) as [S|S]; mag_regime
                    | let S := fresh "S" in destruct (Z.lt_trichotomy ex ey) as [S|[S|S]]; mag_regime ]
          end ].

Lemma mag_EQ_prod C a b M : M = C * 10 ^ (a - b) -> a = b -> M = C.
Proof. intros -> ->. rewrite Z.sub_diag. change (10 ^ 0) with 1. apply Z.mul_1_r. Qed.
(* keep of  M = C * 10^(a-b)  only what lia can use: the product by 10^0 is C *)
Ltac prod_facts :=
  repeat match goal with H : ?M = ?C * 10 ^ (?a - ?b) |- _ =>
    let P := fresh "P" in pose proof (mag_EQ_prod C a b M H) as P; clear H end.

Ltac cmp_leaf2 :=
  cbn [rel_of CompOpp existsb rel_eqb orb andb negb xorb];
  first [ reflexivity
        | repeat match goal with H : ?a = ?a -> _ |- _ => specialize (H eq_refl) end;
          try mag_regime2; prod_facts;
          repeat match goal with H : context [g5W _] |- _ => clear H end;
          try match goal with |- context [?u ?= ?v] => destruct (Z.compare_spec u v) end;
          cbn [rel_of CompOpp existsb rel_eqb orb andb negb xorb];
          (apply pair_eq'; [ lia | reflexivity ]) ].

(* i32 differences that appear only after a swap *)
Ltac cmp_wrap_step :=
  match goal with
  | |- context [wrap_i32 ?e] => rewrite (wrap_i32_id e) by (unfold in_i32; small_lia)
  end.
Ltac cmp_walk2 x1 y1 := repeat first [ cmp_wrap_step | cmp_if_step x1 y1 | cmp_mul_step | cmp_unwrap_step ].

(* ================================================================================================ *)
(* Group M: bid128_minnum / maxnum / minnum_mag / maxnum_mag against OpsCmp.m_minmax                 *)
(* ================================================================================================ *)

(* ---------- magnitudes: abs_dec on words = sign bit cleared ---------- *)
Lemma abs_words x0 x1 : in_u64 x0 -> in_u64 x1 ->
  abs_dec (decode (pat x0 x1)) = decode (pat x0 (x1 mod 9223372036854775808)).
Proof.
  intros H0 H1. assert (H1' : in_u64 (x1 mod 9223372036854775808)) by (unfold in_u64 in *; lia).
  rewrite !decode_words by assumption. unfold decodeW. unfold in_u64 in *.
  replace (9223372036854775808 <=? x1 mod 9223372036854775808) with false by lia.
  replace ((x1 mod 9223372036854775808 / 288230376151711744) mod 32) with ((x1 / 288230376151711744) mod 32) by lia.
  replace ((x1 mod 9223372036854775808) mod 70368744177664) with (x1 mod 70368744177664) by lia.
  replace ((x1 mod 9223372036854775808 / 144115188075855872) mod 2) with ((x1 / 144115188075855872) mod 2) by lia.
  replace ((x1 mod 9223372036854775808 / 140737488355328) mod 16384) with ((x1 / 140737488355328) mod 16384) by lia.
  replace ((x1 mod 9223372036854775808) mod 562949953421312) with (x1 mod 562949953421312) by lia.
  replace ((x1 mod 9223372036854775808 / 562949953421312) mod 16384) with ((x1 / 562949953421312) mod 16384) by lia.
  cbv zeta. repeat match goal with |- context [if ?c then _ else _] => destruct c end; reflexivity.
Qed.

Lemma cmp_dec_words0_abs x0 x1 y0 y1 : in_u64 x0 -> in_u64 x1 -> in_u64 y0 -> in_u64 y1 ->
  cmp_dec (abs_dec (decode (pat x0 x1))) (abs_dec (decode (pat y0 y1))) =
  rel_lad false
    false (g5W x1 =? 31) (30 <=? g5W x1) (ztest (24 <=? g5W x1) (x1 mod 562949953421312) x0)
    false (g5W y1 =? 31) (30 <=? g5W y1) (ztest (24 <=? g5W y1) (y1 mod 562949953421312) y0)
    (coefW (x1 mod 562949953421312) x0 * 10 ^ ((x1 / 562949953421312) mod 16384) ?=
     coefW (y1 mod 562949953421312) y0 * 10 ^ ((y1 / 562949953421312) mod 16384)).
Proof.
  intros Hx0 Hx1 Hy0 Hy1. rewrite !abs_words by assumption.
  rewrite cmp_dec_words0 by (try assumption; unfold in_u64 in *; lia).
  unfold g5W. unfold in_u64 in *.
  replace (9223372036854775808 <=? x1 mod 9223372036854775808) with false by lia.
  replace (9223372036854775808 <=? y1 mod 9223372036854775808) with false by lia.
  replace ((x1 mod 9223372036854775808 / 288230376151711744) mod 32) with ((x1 / 288230376151711744) mod 32) by lia.
  replace ((y1 mod 9223372036854775808 / 288230376151711744) mod 32) with ((y1 / 288230376151711744) mod 32) by lia.
  replace ((x1 mod 9223372036854775808) mod 562949953421312) with (x1 mod 562949953421312) by lia.
  replace ((y1 mod 9223372036854775808) mod 562949953421312) with (y1 mod 562949953421312) by lia.
  replace ((x1 mod 9223372036854775808 / 562949953421312) mod 16384) with ((x1 / 562949953421312) mod 16384) by lia.
  replace ((y1 mod 9223372036854775808 / 562949953421312) mod 16384) with ((y1 / 562949953421312) mod 16384) by lia.
  reflexivity.
Qed.

(* ---------- canonical words ---------- *)
Definition canW (w0 w1 : Z) : Prop := in_u64 w0 /\ in_u64 w1 /\ encode (decode (pat w0 w1)) = pat w0 w1.

(* a canonical finite pattern: small-coefficient form, coefficient below 10^34 *)
Lemma canW_fin w0 w1 : canW w0 w1 -> g5W w1 < 30 ->
  g5W w1 < 24 /\ coefW (w1 mod 562949953421312) w0 < 10000000000000000000000000000000000.
Proof.
  intros (H0 & H1 & C) G. rewrite decode_words in C by assumption. rewrite decodeW_g5 in C.
  pose proof (g5W_range w1) as R. unfold coefW.
  destruct (Z.eqb_spec (g5W w1) 31) as [E|E]; [lia|]. destruct (Z.leb_spec 30 (g5W w1)) as [E'|E']; [lia|].
  cbv zeta in C. unfold encode, pat, bexpW, P127, P113, T34 in C. unfold in_u64 in *.
  destruct (Z.leb_spec 24 (g5W w1)) as [E24|E24].
  - exfalso. unfold g5W in *. revert C. replace (_ - 6176 + 6176) with ((w1 / 140737488355328) mod 16384) by lia.
    destruct (9223372036854775808 <=? w1) eqn:S; intros C; atomize w1 64 lia; lia.
  - split; [lia|].
    destruct (Z.ltb_spec ((w1 mod 562949953421312) * 18446744073709551616 + w0) 10000000000000000000000000000000000) as [L|L]; [exact L|exfalso].
    revert C. replace (_ - 6176 + 6176) with ((w1 / 562949953421312) mod 16384) by lia.
    destruct (9223372036854775808 <=? w1) eqn:S; intros C; lia.
Qed.

(* the code's zero test on a canonical finite pattern *)
Lemma canW_ztest w0 w1 : canW w0 w1 -> g5W w1 < 30 ->
  ztest (24 <=? g5W w1) (w1 mod 562949953421312) w0 = ((w1 mod 562949953421312 =? 0) && (w0 =? 0)).
Proof.
  intros C G. destruct (canW_fin w0 w1 C G) as [G24 L]. destruct C as (H0 & H1 & _). unfold ztest.
  assert (Hh : 0 <= w1 mod 562949953421312) by (apply Z.mod_pos_bound; reflexivity).
  replace (24 <=? g5W w1) with false by lia. unfold coefW in *. unfold in_u64 in *. cbn [orb]. lia.
Qed.

Lemma rel_lad_Z beq sX NX IX ZX ZX' sY NY IY ZY ZY' K :
  (NX = false -> IX = false -> ZX = ZX') -> (NY = false -> IY = false -> ZY = ZY') ->
  rel_lad beq sX NX IX ZX sY NY IY ZY K = rel_lad beq sX NX IX ZX' sY NY IY ZY' K.
Proof.
  intros HX HY. unfold rel_lad. destruct NX, NY; cbn [orb]; try reflexivity. destruct beq; [reflexivity|].
  destruct IX, IY; try reflexivity. rewrite HX, HY by reflexivity. reflexivity.
Qed.

(* ---------- acceptance as a boolean case ladder over the code's tests ---------- *)
Definition eqw (r0 r1 a0 a1 : Z) : bool := (r0 =? a0) && (r1 =? a1).
Definition qw (w1 : Z) : Z := w1 - (w1 / 144115188075855872) mod 2 * 144115188075855872.     (* bit 57 cleared *)

Definition mm_accb (mn mg : bool) (st c0 c1 d0 d1 : Z) (beq sX NX IX bX ZX sY NY IY bY ZY : bool) (K : comparison)
    (v : Z * Z * Z) : bool :=
  let '(r0, r1, st') := v in
  if NX || NY then
    (if (NX && bX || NY && bY) || NX && NY
     then (st' =? (if NX && bX || NY && bY then Z.lor st 1 else st)) &&
          (NX && eqw r0 r1 c0 (qw c1) || NY && eqw r0 r1 d0 (qw d1))
     else (st' =? st) && (if NX then eqw r0 r1 d0 d1 else eqw r0 r1 c0 c1))
  else
    (st' =? st) &&
    match (if mg then match rel_lad beq false false IX ZX false false IY ZY K with
                      | REq => rel_lad beq sX false IX ZX sY false IY ZY K
                      | r => r
                      end
           else rel_lad beq sX false IX ZX sY false IY ZY K) with
    | REq => eqw r0 r1 c0 c1 || eqw r0 r1 d0 d1
    | RLt => if mn then eqw r0 r1 c0 c1 else eqw r0 r1 d0 d1
    | _ => if mn then eqw r0 r1 d0 d1 else eqw r0 r1 c0 c1
    end.

Definition mm_spec (k : mmkind) (st x y : Z) (v : Z * Z * Z) : Prop :=
  let '(r0, r1, st') := v in
  in_u64 r0 /\ in_u64 r1 /\ exists fl, In ([pat r0 r1], fl) (m_minmax k x y) /\ st' = Z.lor st fl.

Lemma nan_words w0 w1 : in_u64 w0 -> in_u64 w1 ->
  is_nan (decode (pat w0 w1)) = (g5W w1 =? 31) /\
  is_snan (decode (pat w0 w1)) = (g5W w1 =? 31) && (1 <=? (w1 / 144115188075855872) mod 2).
Proof.
  intros H0 H1. rewrite decode_words by assumption. rewrite decodeW_g5. cbv zeta.
  destruct (g5W w1 =? 31); cbn [is_nan is_snan andb].
  - split; [reflexivity|]. destruct (1 <=? (w1 / 144115188075855872) mod 2); reflexivity.
  - destruct (30 <=? g5W w1); split; reflexivity.
Qed.

Lemma quiet_words w0 w1 : canW w0 w1 -> (g5W w1 =? 31) = true ->
  encode (quiet (decode (pat w0 w1))) = pat w0 (qw w1) /\ in_u64 (qw w1).
Proof.
  intros (H0 & H1 & C) N. rewrite decode_words in * by assumption. rewrite decodeW_g5 in *. rewrite N in *. cbv zeta in *.
  cbn [quiet]. unfold encode in *. unfold qw, pat, P121 in *. unfold in_u64 in *.
  assert (B : 0 <= (w1 / 144115188075855872) mod 2 < 2) by (apply Z.mod_pos_bound; reflexivity).
  assert (G : g5W w1 = 31) by lia. unfold g5W in G.
  destruct (Z.leb_spec 1 ((w1 / 144115188075855872) mod 2)) as [L|L].
  - assert (E : (w1 / 144115188075855872) mod 2 = 1) by lia. rewrite E. split; lia.
  - assert (E : (w1 / 144115188075855872) mod 2 = 0) by lia. rewrite E. split; lia.
Qed.

Lemma eqw_true r0 r1 a0 a1 : eqw r0 r1 a0 a1 = true -> r0 = a0 /\ r1 = a1.
Proof. unfold eqw. lia. Qed.

Lemma mm_accb_sound k st c0 c1 d0 d1 v : canW c0 c1 -> canW d0 d1 ->
  mm_accb (is_min k) (is_mag k) st c0 c1 d0 d1 ((c0 =? d0) && (c1 =? d1))
    (9223372036854775808 <=? c1) (g5W c1 =? 31) (30 <=? g5W c1) (1 <=? (c1 / 144115188075855872) mod 2)
       ((c1 mod 562949953421312 =? 0) && (c0 =? 0))
    (9223372036854775808 <=? d1) (g5W d1 =? 31) (30 <=? g5W d1) (1 <=? (d1 / 144115188075855872) mod 2)
       ((d1 mod 562949953421312 =? 0) && (d0 =? 0))
    (coefW (c1 mod 562949953421312) c0 * 10 ^ ((c1 / 562949953421312) mod 16384) ?=
     coefW (d1 mod 562949953421312) d0 * 10 ^ ((d1 / 562949953421312) mod 16384)) v = true ->
  mm_spec k st (pat c0 c1) (pat d0 d1) v.
Proof.
  intros CC CD. destruct v as [[r0 r1] st']. unfold mm_accb, mm_spec.
  pose proof CC as (Hc0 & Hc1 & EC). pose proof CD as (Hd0 & Hd1 & ED).
  destruct (nan_words c0 c1 Hc0 Hc1) as [NC SC]. destruct (nan_words d0 d1 Hd0 Hd1) as [ND SD].
  pose proof (quiet_words c0 c1 CC) as QC. pose proof (quiet_words d0 d1 CD) as QD.
  pose proof (cmp_dec_words0 c0 c1 d0 d1 Hc0 Hc1 Hd0 Hd1) as RW.
  pose proof (cmp_dec_words0_abs c0 c1 d0 d1 Hc0 Hc1 Hd0 Hd1) as RA.
  pose proof (g5W_range c1) as Rc. pose proof (g5W_range d1) as Rd.
  assert (ZC : (g5W c1 =? 31) = false -> (30 <=? g5W c1) = false ->
     ztest (24 <=? g5W c1) (c1 mod 562949953421312) c0 = ((c1 mod 562949953421312 =? 0) && (c0 =? 0)))
    by (intros; apply canW_ztest; [assumption|lia]).
  assert (ZD : (g5W d1 =? 31) = false -> (30 <=? g5W d1) = false ->
     ztest (24 <=? g5W d1) (d1 mod 562949953421312) d0 = ((d1 mod 562949953421312 =? 0) && (d0 =? 0)))
    by (intros; apply canW_ztest; [assumption|lia]).
  rewrite (rel_lad_Z _ _ _ _ _ _ _ _ _ _ _ _ ZC ZD) in RW. rewrite (rel_lad_Z _ _ _ _ _ _ _ _ _ _ _ _ ZC ZD) in RA.
  clear ZC ZD.
  (* the bitwise-equal shortcut is consistent with both ladders *)
  rewrite (rel_lad_beq ((c0 =? d0) && (c1 =? d1))) in RW.
  2:{ intros B N. assert (c0 = d0 /\ c1 = d1) as [<- <-] by lia. apply rel_lad_same.
      - destruct (g5W c1 =? 31); [discriminate|reflexivity].
      - intros _. apply Z.compare_refl. }
  rewrite (rel_lad_beq ((c0 =? d0) && (c1 =? d1))) in RA.
  2:{ intros B N. assert (c0 = d0 /\ c1 = d1) as [<- <-] by lia. apply rel_lad_same.
      - destruct (g5W c1 =? 31); [discriminate|reflexivity].
      - intros _. apply Z.compare_refl. }
  unfold m_minmax. set (dx := decode (pat c0 c1)) in *. set (dy := decode (pat d0 d1)) in *.
  set (K := _ ?= _) in *. clearbody K.
  set (ZX := (c1 mod 562949953421312 =? 0) && (c0 =? 0)) in *. set (ZY := (d1 mod 562949953421312 =? 0) && (d0 =? 0)) in *.
  set (bX := 1 <=? (c1 / 144115188075855872) mod 2) in *. set (bY := 1 <=? (d1 / 144115188075855872) mod 2) in *.
  set (sX := 9223372036854775808 <=? c1) in *. set (sY := 9223372036854775808 <=? d1) in *.
  set (IX := 30 <=? g5W c1) in *. set (IY := 30 <=? g5W d1) in *.
  set (beq := (c0 =? d0) && (c1 =? d1)) in *.
  set (NX := g5W c1 =? 31) in *. set (NY := g5W d1 =? 31) in *.
  clearbody ZX ZY bX bY sX sY IX IY beq NX NY.
  unfold nan_outcomes. cbn [filter existsb map]. rewrite NC, ND, SC, SD.
  assert (L0 : forall a, Z.lor a 0 = a) by (intros; apply Z.lor_0_r).
  destruct NX, NY; cbn [orb andb].
  - (* both NaN *)
    destruct (QC eq_refl) as [Q1 Q2]. destruct (QD eq_refl) as [Q3 Q4].
    rewrite !orb_true_r. rewrite !orb_false_r. cbn [map In].
    set (fl := if bX || bY then F_INV else 0).
    assert (FL : (if bX || bY then Z.lor st 1 else st) = Z.lor st fl) by (unfold fl; destruct (bX || bY); [reflexivity|symmetry; apply L0]).
    rewrite FL. clearbody fl.
    intros H. apply andb_true_iff in H. destruct H as [H1 H2]. apply Z.eqb_eq in H1.
    apply orb_true_iff in H2. destruct H2 as [H2|H2]; apply eqw_true in H2; destruct H2 as [-> ->].
    + split; [assumption|]. split; [assumption|]. exists fl. split; [destruct (bX || bY); left; rewrite Q1; reflexivity|exact H1].
    + split; [assumption|]. split; [assumption|]. exists fl. split; [destruct (bX || bY); right; left; rewrite Q3; reflexivity|exact H1].
  - (* x NaN only *)
    destruct (QC eq_refl) as [Q1 Q2]. rewrite !orb_false_r. destruct bX; cbn [map In].
    + intros H. apply andb_true_iff in H. destruct H as [H1 H2]. apply Z.eqb_eq in H1.
      apply eqw_true in H2. destruct H2 as [-> ->]. split; [assumption|]. split; [assumption|].
      exists F_INV. split; [left; rewrite Q1; reflexivity|exact H1].
    + intros H. apply andb_true_iff in H. destruct H as [H1 H2]. apply Z.eqb_eq in H1.
      apply eqw_true in H2. destruct H2 as [-> ->]. split; [assumption|]. split; [assumption|].
      exists 0. split; [left; unfold out1; rewrite ED; reflexivity|rewrite H1; symmetry; apply L0].
  - (* y NaN only *)
    destruct (QD eq_refl) as [Q3 Q4]. destruct bY; cbn [map In orb andb].
    + intros H. apply andb_true_iff in H. destruct H as [H1 H2]. apply Z.eqb_eq in H1.
      apply eqw_true in H2. destruct H2 as [-> ->]. split; [assumption|]. split; [assumption|].
      exists F_INV. split; [left; rewrite Q3; reflexivity|exact H1].
    + intros H. apply andb_true_iff in H. destruct H as [H1 H2]. apply Z.eqb_eq in H1.
      apply eqw_true in H2. destruct H2 as [-> ->]. split; [assumption|]. split; [assumption|].
      exists 0. split; [unfold out1; rewrite EC; left; reflexivity|rewrite H1; symmetry; apply L0].
  - (* numbers *)
    rewrite RW, RA. clear RW RA.
    intros H. apply andb_true_iff in H. destruct H as [H1 H2]. apply Z.eqb_eq in H1.
    assert (Fin_c : forall a0 a1, eqw a0 a1 c0 c1 = true -> in_u64 a0 /\ in_u64 a1 /\ encode dx = pat a0 a1)
      by (intros a0 a1 E; apply eqw_true in E; destruct E as [-> ->]; rewrite EC; auto).
    assert (Fin_d : forall a0 a1, eqw a0 a1 d0 d1 = true -> in_u64 a0 /\ in_u64 a1 /\ encode dy = pat a0 a1)
      by (intros a0 a1 E; apply eqw_true in E; destruct E as [-> ->]; rewrite ED; auto).
    unfold out1.
    assert (FIN : forall (R : rel),
      match R with
      | REq => eqw r0 r1 c0 c1 || eqw r0 r1 d0 d1
      | RLt => if is_min k then eqw r0 r1 c0 c1 else eqw r0 r1 d0 d1
      | _ => if is_min k then eqw r0 r1 d0 d1 else eqw r0 r1 c0 c1
      end = true ->
      in_u64 r0 /\ in_u64 r1 /\ exists fl, In ([pat r0 r1], fl)
        match R with
        | REq => [([encode dx], 0); ([encode dy], 0)]
        | RLt => if is_min k then [([encode dx], 0)] else [([encode dy], 0)]
        | _ => if is_min k then [([encode dy], 0)] else [([encode dx], 0)]
        end /\ st' = Z.lor st fl).
    { intros R HR.
      destruct R; [destruct (is_min k)|apply orb_true_iff in HR; destruct HR as [HR|HR]|destruct (is_min k)|destruct (is_min k)];
      first [ destruct (Fin_c _ _ HR) as (A & B & E) | destruct (Fin_d _ _ HR) as (A & B & E) ];
      (split; [exact A|]); (split; [exact B|]); exists 0; rewrite E;
      (split; [cbn [In]; auto|rewrite H1; symmetry; apply L0]). }
    destruct (is_mag k).
    + destruct (rel_lad beq false false IX ZX false false IY ZY K) eqn:RAE; cbv iota in H2 |- *;
      [apply (FIN RLt)|apply (FIN (rel_lad beq sX false IX ZX sY false IY ZY K))|apply (FIN RGt)|apply (FIN RUn)]; exact H2.
    + apply (FIN (rel_lad beq sX false IX ZX sY false IY ZY K)). exact H2.
Qed.

(* ---------- the canonicalisation prologue of the min/max routines ---------- *)
Lemma canon_intro x0 x1 c0 c1 : in_u64 x0 -> in_u64 x1 -> in_u64 c0 -> in_u64 c1 ->
  pat c0 c1 = encode (decode (pat x0 x1)) -> canW c0 c1 /\ decode (pat c0 c1) = decode (pat x0 x1).
Proof.
  intros H0 H1 K0 K1 E. pose proof (decode_wf (pat x0 x1) (pat_range x0 x1 H0 H1)) as W.
  assert (D : decode (pat c0 c1) = decode (pat x0 x1)) by (rewrite E; apply decode_encode; exact W).
  split; [|exact D]. split; [exact K0|]. split; [exact K1|]. rewrite D. symmetry. exact E.
Qed.
(* the pair of words a prologue produces (either order of the two components) *)
Definition canon10 (x0 x1 : Z) (p : Z * Z) : Prop :=
  let '(c1, c0) := p in canW c0 c1 /\ decode (pat c0 c1) = decode (pat x0 x1).
Definition canon01 (x0 x1 : Z) (p : Z * Z) : Prop :=
  let '(c0, c1) := p in canW c0 c1 /\ decode (pat c0 c1) = decode (pat x0 x1).

Ltac fold_lor :=
  repeat match goal with |- context [Z.lor ?a ?b] =>
    z_ground a; z_ground b; let v := eval vm_compute in (Z.lor a b) in change (Z.lor a b) with v end.

(* proves  canon10 x0 x1 e  /  canon01 x0 x1 e  for the prologue e of the code (after unfold_helpers / red_lets) *)
Ltac canon_prove x0 x1 :=
  unfold canon10, canon01;
  match goal with H0 : in_u64 x0, H1 : in_u64 x1 |- _ =>
    let H0' := fresh "R" in let H1' := fresh "R" in
    pose proof H0 as H0'; pose proof H1 as H1'; unfold in_u64 in H0', H1' end;
  fold_lor; word_norm lia; mask_tests;
  repeat (match goal with |- context [if ?c then _ else _] => let E := fresh "E" in destruct c eqn:E end; cbv beta iota);
  (apply canon_intro; [assumption|assumption| | |]); unfold in_u64;
  try (rewrite Z.lor_comm; lor_norm lia); try lia;
  rewrite decode_words by assumption;
  unfold decodeW; fold (g5W x1); cbv zeta;
  repeat match goal with E : ?c = ?b |- context [if ?c then _ else _] => rewrite E end; cbv iota;
  unfold pat, encode; cbv iota; rewrite ?(sign_bit x1) by lia;
  rewrite ?bit_if by (first [ split; [apply Z.div_pos; lia|apply Z.div_lt_upper_bound; lia] | apply Z.mod_pos_bound; reflexivity ]);
  unfold P127, P122, P121, P113, P110, T33, T34, g5W in *;
  split_ifs_eq; lia.

(* replaces the two prologues by fresh words: c0 c1 with CW : canW c0 c1, DW : decode (pat c0 c1) = decode (pat x0 x1), and
   d0 d1 with CV, DV for y. The prologue of x is abstracted over (x0, x1) and proved once; if the prologue of y is the same
   function applied to (y0, y1) the fact is reused, otherwise it is proved separately. Both component orders are tried. *)
Ltac mm_canon_with G x0 x1 c0 c1 CW DW :=
  match goal with |- context [match ?e with pair _ _ => _ end] =>
    let CX := fresh "CX" in
    first [ first [ pose proof (G x0 x1 ltac:(assumption) ltac:(assumption) : canon10 x0 x1 e) as CX
                  | assert (CX : canon10 x0 x1 e) by canon_prove x0 x1 ];
            let p := fresh "p" in let Hp := fresh "Hp" in
            remember e as p eqn:Hp; clear Hp; destruct p as [c1 c0]; unfold canon10 in CX; destruct CX as [CW DW]
          | first [ pose proof (G x0 x1 ltac:(assumption) ltac:(assumption) : canon01 x0 x1 e) as CX
                  | assert (CX : canon01 x0 x1 e) by canon_prove x0 x1 ];
            let p := fresh "p" in let Hp := fresh "Hp" in
            remember e as p eqn:Hp; clear Hp; destruct p as [c0 c1]; unfold canon01 in CX; destruct CX as [CW DW] ]
  end; cbv beta iota.
Ltac mm_canons x0 x1 y0 y1 c0 c1 d0 d1 CW DW CV DV :=
  match goal with |- context [match ?e with pair _ _ => _ end] =>
    let F := eval pattern x0, x1 in e in
    lazymatch F with ?f x0 x1 =>
      let G := fresh "G" in
      first [ assert (G : forall a0 a1, in_u64 a0 -> in_u64 a1 -> canon10 a0 a1 (f a0 a1))
                by (let a0 := fresh "a0" in let a1 := fresh "a1" in intros a0 a1 ? ?; cbv beta; canon_prove a0 a1)
            | assert (G : forall a0 a1, in_u64 a0 -> in_u64 a1 -> canon01 a0 a1 (f a0 a1))
                by (let a0 := fresh "a0" in let a1 := fresh "a1" in intros a0 a1 ? ?; cbv beta; canon_prove a0 a1) ];
      mm_canon_with G x0 x1 c0 c1 CW DW; mm_canon_with G y0 y1 d0 d1 CV DV; clear G
    end
  end.

Lemma mm_spec_ext k st x y x' y' v : decode x' = decode x -> decode y' = decode y ->
  mm_spec k st x' y' v -> mm_spec k st x y v.
Proof. intros Ex Ey. unfold mm_spec, m_minmax. rewrite Ex, Ey. exact (fun H => H). Qed.

(* ---------- two-word comparisons as comparisons of the coefficients ---------- *)
Lemma limb_gt h l h' l' : 0 <= l < 18446744073709551616 -> 0 <= l' < 18446744073709551616 ->
  ((h >? h') || (h =? h') && (l >? l')) = (coefW h l >? coefW h' l').
Proof. unfold coefW. intros. lia. Qed.
Lemma limb_ge h l h' l' : 0 <= l < 18446744073709551616 -> 0 <= l' < 18446744073709551616 ->
  ((h >? h') || (h =? h') && (l >=? l')) = (coefW h l >=? coefW h' l').
Proof. unfold coefW. intros. lia. Qed.
Lemma limb_lt h l h' l' : 0 <= l < 18446744073709551616 -> 0 <= l' < 18446744073709551616 ->
  ((h <? h') || (h =? h') && (l <? l')) = (coefW h l <? coefW h' l').
Proof. unfold coefW. intros. lia. Qed.
Lemma limb_le h l h' l' : 0 <= l < 18446744073709551616 -> 0 <= l' < 18446744073709551616 ->
  ((h <? h') || (h =? h') && (l <=? l')) = (coefW h l <=? coefW h' l').
Proof. unfold coefW. intros. lia. Qed.
Ltac limb_norm :=
  repeat first
  [ rewrite limb_gt by assumption | rewrite limb_ge by assumption
  | rewrite limb_lt by assumption | rewrite limb_le by assumption ].

(* context for the walk over the body (canonical operands c, d) *)
Ltac mm_ctx c0 c1 d0 d1 :=
  unfold in_u64, in_u32 in *;
  set (hx := c1 mod 562949953421312) in *; set (hy := d1 mod 562949953421312) in *;
  set (ex := (c1 / 562949953421312) mod 16384) in *; set (ey := (d1 / 562949953421312) mod 16384) in *;
  set (sX := 9223372036854775808 <=? c1) in *; set (sY := 9223372036854775808 <=? d1) in *;
  assert (Hhx : 0 <= hx < 562949953421312) by (apply Z.mod_pos_bound; reflexivity);
  assert (Hhy : 0 <= hy < 562949953421312) by (apply Z.mod_pos_bound; reflexivity);
  assert (Hex : 0 <= ex < 16384) by (apply Z.mod_pos_bound; reflexivity);
  assert (Hey : 0 <= ey < 16384) by (apply Z.mod_pos_bound; reflexivity);
  assert (NEQ : sX = sY -> ex = ey -> hx = hy -> c1 = d1) by (unfold sX, sY, ex, ey, hx, hy; lia);
  clearbody hx hy ex ey sX sY;
  wrap_ids lia; rewrite ?if_tf; limb_norm;
  assert (HCX : coefW hx c0 = hx * 18446744073709551616 + c0) by reflexivity;
  assert (HCY : coefW hy d0 = hy * 18446744073709551616 + d0) by reflexivity;
  pose proof (mag_EQ_intro (coefW hx c0) (coefW hy d0) ex ey ltac:(lia)) as MFE;
  pose proof (mag_GT_intro (coefW hx c0) (coefW hy d0) ex ey ltac:(lia) ltac:(lia)) as MFG;
  pose proof (mag_LT_intro (coefW hx c0) (coefW hy d0) ex ey ltac:(lia) ltac:(lia)) as MFL;
  set (UX := coefW hx c0 * 10 ^ ex) in *; set (UY := coefW hy d0 * 10 ^ ey) in *;
  set (MX := coefW hx c0 * 10 ^ (ex - ey)) in *; set (MY := coefW hy d0 * 10 ^ (ey - ex)) in *;
  assert (HMX : MX = coefW hx c0 * 10 ^ (ex - ey)) by reflexivity;
  assert (HMY : MY = coefW hy d0 * 10 ^ (ey - ex)) by reflexivity;
  clearbody UX UY MX MY.

(* open  mm_spec k st (pat x0 x1) (pat y0 y1) (i_f x0 x1 y0 y1 st)  after `unfold i_f` *)
Ltac mm_open x0 x1 y0 y1 :=
  unfold_helpers_cmp; red_lets;
  let c0 := fresh "c0" in let c1 := fresh "c1" in let d0 := fresh "d0" in let d1 := fresh "d1" in
  let CW := fresh "CW" in let DW := fresh "DW" in let CV := fresh "CV" in let DV := fresh "DV" in
  mm_canons x0 x1 y0 y1 c0 c1 d0 d1 CW DW CV DV;
  apply (mm_spec_ext _ _ _ _ (pat c0 c1) (pat d0 d1) _ DW DV);
  apply (mm_accb_sound _ _ c0 c1 d0 d1 _ CW CV);
  pose proof (canW_fin c0 c1 CW) as CFX; pose proof (canW_fin d0 d1 CV) as CFY;
  destruct CW as (Hc0 & Hc1 & _); destruct CV as (Hd0 & Hd1 & _);
  clear DW DV;
  fold_lor; word_norm ltac:(unfold in_u64 in *; lia); mask_tests; rewrite ?(test_xor80 c1 d1) by assumption;
  unfold mm_accb, rel_lad;
  cbv [is_min is_mag]; cbv iota;
  mm_ctx c0 c1 d0 d1;
  cmp_walk2 c1 d1.

(* in a known strict regime R (ex < ey, ex = ey or ey < ex) every comparison of the two exponents is a constant *)
Ltac exp_atom R a :=
  tryif (match goal with H : context [a] |- _ => idtac end) then
  first [ let Ha := fresh "A" in assert (Ha : a = true) by (clear - R; lia); rewrite ?Ha in *; clear Ha
        | let Ha := fresh "A" in assert (Ha : a = false) by (clear - R; lia); rewrite ?Ha in *; clear Ha ]
  else idtac.
Ltac exp_atoms R ex ey :=
  exp_atom R (ex =? ey); exp_atom R (ey =? ex); exp_atom R (ex >? ey); exp_atom R (ey >? ex);
  exp_atom R (ex >=? ey); exp_atom R (ey >=? ex); exp_atom R (ex <? ey); exp_atom R (ey <? ex);
  exp_atom R (ex <=? ey); exp_atom R (ey <=? ex);
  cbn [andb orb negb] in *;
  rewrite ?andb_false_r, ?andb_true_r, ?orb_false_r, ?orb_true_r in *; cbn [andb orb negb] in *.
Ltac absurd_path :=
  match goal with
  | H : false = true |- _ => discriminate H
  | H : true = false |- _ => discriminate H
  end.
Ltac mm_close := first [ rewrite ?Z.eqb_refl, ?orb_true_r; cbn [andb orb]; reflexivity | lia ].
Ltac mm_leaf :=
  cbn [rel_of CompOpp orb andb negb xorb]; cbv iota; unfold eqw, qw;
  lazymatch goal with
  | |- context [_ ?= _] =>
      repeat match goal with H : g5W ?w < 30 -> _ /\ _ |- _ =>
        first [ match goal with E : (30 <=? g5W w) = false |- _ =>
                  let H' := fresh "CF" in pose proof (proj2 (H (proj1 (Z.leb_gt _ _) E))) as H'; clear H end
              | clear H ] end;
      repeat match goal with H : context [g5W _] |- _ => clear H end;
      match goal with HE : mag_EQ _ _ ?ex ?ey _ _ |- _ =>
        let S := fresh "S" in
        destruct (Z.lt_trichotomy ex ey) as [S|[S|S]]; exp_atoms S ex ey;
        first [ absurd_path
              | mag_regime; prod_facts;
                match goal with |- context [?u ?= ?v] => destruct (Z.compare_spec u v) end;
                cbn [rel_of CompOpp orb andb negb xorb]; cbv iota; mm_close ]
      end
  | |- _ => mm_close
  end.

(* ok_f = true for a min/max routine. The two prologues (which index no table: their ok component is `true` on every path)
   are replaced by arbitrary words - the index ranges of the body depend only on the exponent fields, which are in range
   for any word - then ImplCommon.ok_walk. *)
Ltac ok_prologue :=
  match goal with |- context [match ?e with pair _ _ => _ end] =>
    let H := fresh "OKP" in
    assert (H : fst (fst e) = true)
      by (repeat (match goal with |- context [if ?c then _ else _] => destruct c end; cbv beta iota); reflexivity);
    let p := fresh "p" in let Hp := fresh "Hp" in let b := fresh "b" in
    remember e as p eqn:Hp; clear Hp; destruct p as [[b ?c1] ?c0]; cbn [fst] in H; subst b; cbv beta iota
  end.
Ltac mm_ok :=
  unfold_helpers_cmp; red_lets; ok_prologue; ok_prologue;
  fold_lor; word_norm lia;
  unfold in_u64, in_u32 in *; wrap_ids lia;
  ok_walk ltac:(unfold_machine; lia).
