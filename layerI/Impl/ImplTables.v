(* Layer I: facts about the constant tables that rs2v.py generated from the current source text (logical path DVI).
   BID_NR_DIGITS (113 rows): every row is checked by kernel computation against its closed form, and the digit-count
   rule of the code (digits / digits1 + threshold compare) is proved to compute Zdigits radix10. *)
From Coq Require Import ZArith Lia Bool List.
From Flocq Require Import Core.Zaux Core.Digits.
From DV Require Import Base Bid OpsArith OpsCmp OpsMisc.
From DVI Require Import ImplLib ImplGen.
Import ListNotations.
Open Scope Z_scope.

Definition nrd_d (n:Z) := nth (Z.to_nat (n - 1)) T_BID_NR_DIGITS_digits 0.
Definition nrd_d1 (n:Z) := nth (Z.to_nat (n - 1)) T_BID_NR_DIGITS_digits1 0.
Definition nrd_hi (n:Z) := nth (Z.to_nat (n - 1)) T_BID_NR_DIGITS_threshold_hi 0.
Definition nrd_lo (n:Z) := nth (Z.to_nat (n - 1)) T_BID_NR_DIGITS_threshold_lo 0.

(* row n serves the integers of bit length n: 2^(n-1) <= C < 2^n *)
Definition row_ok (n:Z) : bool :=
  let d := nrd_d n in let d1 := nrd_d1 n in let hi := nrd_hi n in let lo := nrd_lo n in
  (0 <=? d) && (d <=? 34) && (1 <=? d1) && (d1 <=? 34) &&
  (0 <=? hi) && (hi <? 18446744073709551616) && (0 <=? lo) && (lo <? 18446744073709551616) &&
  (if d =? 0
   then (10 ^ (d1 - 1) <=? 2 ^ (n - 1)) && (hi * 18446744073709551616 + lo =? 10 ^ d1) && (2 ^ n <=? 10 ^ (d1 + 1))
   else (10 ^ (d - 1) <=? 2 ^ (n - 1)) && (2 ^ n <=? 10 ^ d)).

Lemma table_lengths : length T_BID_NR_DIGITS_digits = 113%nat /\ length T_BID_NR_DIGITS_digits1 = 113%nat /\
  length T_BID_NR_DIGITS_threshold_hi = 113%nat /\ length T_BID_NR_DIGITS_threshold_lo = 113%nat.
Proof. repeat split; vm_compute; reflexivity. Qed.

Lemma rows_ok : forallb row_ok (map Z.of_nat (seq 1 113)) = true.
Proof. vm_compute. reflexivity. Qed.

Lemma row_ok_at n : 1 <= n <= 113 -> row_ok n = true.
Proof.
  intros Hn. pose proof rows_ok as H. rewrite forallb_forall in H. apply H.
  apply in_map_iff. exists (Z.to_nat n). split; [apply Z2Nat.id; lia|]. apply in_seq. lia.
Qed.

Lemma ndigits_unique c d : 0 < c -> 10 ^ (d - 1) <= c < 10 ^ d -> ndigits c = d.
Proof.
  intros Hc H. unfold ndigits. apply Zdigits_unique. rewrite Z.abs_eq by lia. exact H.
Qed.

(* the digit-count rule of the code *)
Theorem nr_digits_spec n C : 1 <= n <= 113 -> 2 ^ (n - 1) <= C < 2 ^ n ->
  0 <= nrd_d n <= 34 /\ 1 <= nrd_d1 n <= 34 /\ in_u64 (nrd_hi n) /\ in_u64 (nrd_lo n) /\
  ndigits C = if nrd_d n =? 0
              then (if nrd_hi n * 18446744073709551616 + nrd_lo n <=? C then nrd_d1 n + 1 else nrd_d1 n)
              else nrd_d n.
Proof.
  intros Hn HC. pose proof (row_ok_at n Hn) as R. unfold row_ok in R. cbv zeta in R.
  rewrite !andb_true_iff in R. destruct R as [[[[[[[[R1 R2] R3] R4] R5] R6] R7] R8] R9].
  apply Z.leb_le in R1, R2, R3, R4, R5, R7. apply Z.ltb_lt in R6, R8.
  assert (P : 0 < 2 ^ (n - 1)) by (apply Z.pow_pos_nonneg; lia).
  unfold in_u64. repeat split; try lia.
  destruct (Z.eqb_spec (nrd_d n) 0) as [E|E].
  - rewrite !andb_true_iff in R9. destruct R9 as [[A B] C0]. apply Z.leb_le in A, C0. apply Z.eqb_eq in B.
    rewrite B. destruct (Z.leb_spec (10 ^ nrd_d1 n) C) as [L|L]; apply ndigits_unique; try lia.
    + replace (nrd_d1 n + 1 - 1) with (nrd_d1 n) by lia. lia.
  - rewrite andb_true_iff in R9. destruct R9 as [A B]. apply Z.leb_le in A, B. apply ndigits_unique; lia.
Qed.

(* ---------- proof scripts shared by bid128_is_normal / bid128_is_subnormal (same digit-count code) ---------- *)
From Coq Require Import ZifyBool.
From DVI Require Import ImplCommon.

Lemma log2_lt_53 X : 0 < X < 9007199254740992 -> 0 <= Z.log2 X < 53.
Proof. intros HX. split; [apply Z.log2_nonneg|]. apply Z.log2_lt_pow2; [lia|]. change (2 ^ 53) with 9007199254740992. lia. Qed.

(* common tail: the table lookup with n = 1 + floor(log2 C) computes ndigits C *)
Ltac digits_tail C hi w0 :=
  let n := fresh "n" in let Hn := fresh "Hn" in let HCn := fresh "HCn" in
  set (n := 1 + Z.log2 C) in *;
  assert (HCn : 2 ^ (n - 1) <= C < 2 ^ n) by
    (replace (n - 1) with (Z.log2 C) by (unfold n; lia); unfold n; rewrite Z.add_comm; apply log2_bounds; lia);
  assert (Hn : 1 <= n <= 113) by
    (split; [pose proof (Z.log2_nonneg C); unfold n; lia|];
     assert (Z.log2 C < 113) by (apply Z.log2_lt_pow2; [lia|]; change (2 ^ 113) with 10384593717069655257060992658440192; lia);
     unfold n; lia);
  change (nth (Z.to_nat (n - 1)) T_BID_NR_DIGITS_digits 0) with (nrd_d n);
  change (nth (Z.to_nat (n - 1)) T_BID_NR_DIGITS_digits1 0) with (nrd_d1 n);
  change (nth (Z.to_nat (n - 1)) T_BID_NR_DIGITS_threshold_hi 0) with (nrd_hi n);
  change (nth (Z.to_nat (n - 1)) T_BID_NR_DIGITS_threshold_lo 0) with (nrd_lo n);
  let D1 := fresh "D" in let D2 := fresh "D" in let D3 := fresh "D" in let D4 := fresh "D" in let D5 := fresh "D" in
  destruct (nr_digits_spec n C Hn HCn) as (D1 & D2 & D3 & D4 & D5); unfold in_u64 in D3, D4;
  rewrite D5; clear D5 HCn; clearbody n;
  wrap_ids lia;
  destruct (nrd_d n =? 0);
  [ destruct (nrd_hi n * 18446744073709551616 + nrd_lo n <=? C) eqn:?;
    destruct ((hi >? nrd_hi n) || (hi =? nrd_hi n) && (w0 >=? nrd_lo n)) eqn:?; wrap_ids lia; unfold C in *; lia
  | wrap_ids lia; lia ].

(* every table index is n - 1 with n = 1 + floor(log2 C) in 1..113 *)
Ltac ok_tail C :=
  let n := fresh "n" in let Hn := fresh "Hn" in let G := fresh "G" in
  set (n := 1 + Z.log2 C) in *;
  assert (Hn : 1 <= n <= 113) by
    (split; [pose proof (Z.log2_nonneg C); unfold n; lia|];
     assert (Z.log2 C < 113) by (apply Z.log2_lt_pow2; [lia|]; change (2 ^ 113) with 10384593717069655257060992658440192; lia);
     unfold n; lia);
  clearbody n;
  assert (G : (0 <=? n - 1) && (n - 1 <? 113) = true) by lia;
  rewrite ?G; cbn [andb];
  repeat match goal with |- context [if ?c then _ else _] =>
    lazymatch c with context [if _ then _ else _] => fail | _ => destruct c end end;
  reflexivity.

(* the three branches of the bit-length computation: x_nr_bits = 1 + floor(log2 C); `gd` rewrites the exactness guard
   of the ok_ predicate (idtac for the value function), `tail` finishes *)
Ltac nbits_branches w0 hi C gd tail :=
  destruct (hi =? 0) eqn:?Hz; [destruct (w0 >=? 9007199254740992) eqn:?Big|];
  [ assert (X1 : 0 < w0 / 4294967296 < 9007199254740992) by lia;
    gd (w0 / 4294967296); red_lets;
    rewrite (f64_exp_field _ X1); pose proof (log2_lt_53 _ X1); wrap_ids lia;
    replace (33 + (1023 + Z.log2 (w0 / 4294967296) - 1023)) with (1 + Z.log2 C)
      by (rewrite (log2_div_pow2 w0 32 4294967296) by (try reflexivity; lia); unfold C; replace hi with 0 by lia;
          replace (0 * 18446744073709551616 + w0) with w0 by lia; lia);
    tail
  | assert (X1 : 0 < w0 < 9007199254740992) by lia;
    gd w0; red_lets;
    rewrite (f64_exp_field _ X1); pose proof (log2_lt_53 _ X1); wrap_ids lia;
    replace (1 + (1023 + Z.log2 w0 - 1023)) with (1 + Z.log2 C)
      by (unfold C; replace hi with 0 by lia; replace (0 * 18446744073709551616 + w0) with w0 by lia; lia);
    tail
  | assert (X1 : 0 < hi < 9007199254740992) by lia;
    gd hi; red_lets;
    rewrite (f64_exp_field _ X1); pose proof (log2_lt_53 _ X1); wrap_ids lia;
    replace (65 + (1023 + Z.log2 hi - 1023)) with (1 + Z.log2 C)
      by (unfold C; rewrite log2_hi_lo by lia; lia);
    tail ].

Ltac exact_guard X := let F := fresh "F" in assert (F : (X <? 9007199254740992) = true) by lia; rewrite F.
Ltac no_guard X := idtac.

(* goal: i_f w0 w1 = P (decodeW_g5 form), i_f unfolded; P is is_normal_dec or is_subnormal_dec *)
Ltac nrdigits_val_proof w0 w1 H0 H1 :=
  red_lets; word_norm lia; mask_tests;
  let R := fresh "R" in pose proof (g5W_range w1) as R; unfold bexpW; unfold in_u64 in *;
  let hi := fresh "hi" in let be := fresh "be" in let C := fresh "C" in
  set (hi := w1 mod 562949953421312) in *;
  assert (0 <= hi < 562949953421312) by (apply Z.mod_pos_bound; reflexivity);
  set (be := (w1 / 562949953421312) mod 16384) in *;
  assert (0 <= be < 16384) by (apply Z.mod_pos_bound; reflexivity);
  clearbody hi be;
  destruct (30 <=? g5W w1) eqn:?B; [destruct (g5W w1 =? 31); reflexivity|];
  let A := fresh "A" in assert (A : (g5W w1 =? 31) = false) by lia; rewrite A;
  destruct ((hi =? 0) && (w0 =? 0)) eqn:?Z0;
  [ assert (hi = 0 /\ w0 = 0) as [-> ->] by lia; cbn [is_normal_dec is_subnormal_dec]; destruct (24 <=? g5W w1); reflexivity|];
  destruct (24 <=? g5W w1) eqn:?C24; [rewrite orb_true_r; reflexivity|];
  rewrite orb_false_r, andb_true_r; unfold T34;
  destruct ((hi >? 542101086242752) || (hi =? 542101086242752) && (w0 >? 4003012203950112767)) eqn:?NC;
  [ let L := fresh "L" in
    assert (L : (hi * 18446744073709551616 + w0 <? 10000000000000000000000000000000000) = false) by lia; rewrite L; reflexivity|];
  let L := fresh "L" in
  assert (L : (hi * 18446744073709551616 + w0 <? 10000000000000000000000000000000000) = true) by lia; rewrite L;
  cbn [is_normal_dec is_subnormal_dec];
  set (C := hi * 18446744073709551616 + w0) in *;
  assert (0 < C < 10000000000000000000000000000000000) by (unfold C; lia);
  let NZ := fresh "NZ" in assert (NZ : negb (C =? 0) = true) by lia; rewrite NZ; cbn [andb];
  nbits_branches w0 hi C no_guard ltac:(digits_tail C hi w0).

(* goal: ok_f w0 w1 = true, ok_f unfolded *)
Ltac nrdigits_ok_proof w0 w1 H0 H1 :=
  red_lets; word_norm lia; mask_tests;
  let R := fresh "R" in pose proof (g5W_range w1) as R; unfold in_u64 in *;
  let hi := fresh "hi" in let be := fresh "be" in let C := fresh "C" in
  set (hi := w1 mod 562949953421312) in *;
  assert (0 <= hi < 562949953421312) by (apply Z.mod_pos_bound; reflexivity);
  set (be := (w1 / 562949953421312) mod 16384) in *;
  assert (0 <= be < 16384) by (apply Z.mod_pos_bound; reflexivity);
  clearbody hi be;
  destruct (30 <=? g5W w1) eqn:?B; [reflexivity|];
  destruct ((hi =? 0) && (w0 =? 0)) eqn:?Z0; [reflexivity|];
  destruct (24 <=? g5W w1) eqn:?C24; [rewrite orb_true_r; reflexivity|];
  rewrite orb_false_r, andb_true_r;
  destruct ((hi >? 542101086242752) || (hi =? 542101086242752) && (w0 >? 4003012203950112767)) eqn:?NC; [reflexivity|];
  set (C := hi * 18446744073709551616 + w0) in *;
  assert (0 < C < 10000000000000000000000000000000000) by (unfold C; lia);
  nbits_branches w0 hi C exact_guard ltac:(ok_tail C).
